package sym

import (
	"fmt"
	"math/big"

	"golang.org/x/tools/go/ssa"
)

// WideV is an exact (never wrapping) integer: a signed two's-complement term
// whose width grows with every operation.
type WideV struct{ T *Term }

func (e *Engine) label(v Value) string {
	s, ok := v.(*StringV)
	if !ok {
		e.poisonUse(v)
	}
	str, ok := concreteString(s)
	if !ok {
		e.unsupported("symbolic label")
	}
	return str
}

func (e *Engine) nondetVar(st *State, label, kind string, w int) *Term {
	n := st.seq[label]
	name := fmt.Sprintf("%s#%d", label, n)
	if e.cfg.Concrete != nil {
		return e.tapeNext(st, label, kind, w)
	}
	v := e.ts.Var(name, w)
	return v
}

func (e *Engine) commitNondet(st *State, label, kind string, v *Term) {
	st.seq[label]++
	st.nondets = append(st.nondets, NondetRec{Var: v, Label: label, Kind: kind})
}

func (e *Engine) tapeNext(st *State, label, kind string, w int) *Term {
	t := e.cfg.Concrete
	i := st.seq["\x00tape"]
	if i >= len(t.Entries) {
		// tape exhausted: zero
		st.seq["\x00tape"]++
		if w == 0 {
			return e.ts.False
		}
		return e.ts.BVu(0, w)
	}
	en := t.Entries[i]
	st.seq["\x00tape"]++
	bi, _ := new(big.Int).SetString(en.Val, 10)
	if bi == nil {
		bi = new(big.Int)
	}
	if w == 0 {
		return e.ts.Bool(bi.Sign() != 0)
	}
	return e.ts.BV(bi, w)
}

func (e *Engine) wide(v Value) *Term {
	switch x := v.(type) {
	case *WideV:
		return x.T
	case *StructV:
		return e.ts.BVu(0, 2)
	}
	e.poisonUse(v)
	return nil
}

func (e *Engine) wide2(a, b Value, extra int) (*Term, *Term) {
	x, y := e.wide(a), e.wide(b)
	w := max(x.W, y.W) + extra
	return e.ts.Sext(x, w), e.ts.Sext(y, w)
}

// mkWide wraps a signed term, dropping redundant sign bits of constants.
func (e *Engine) mkWide(t *Term) *WideV { return &WideV{T: e.shrink(t)} }

// unsignedOf: if the exact integer is syntactically non-negative (a zero
// extension or a non-negative constant) return its unsigned magnitude.
func (e *Engine) unsignedOf(v Value) (*Term, bool) {
	t := e.wide(v)
	if t.IsConst() {
		if t.Val.Bit(t.W-1) == 0 {
			w := max(t.Val.BitLen(), 1)
			return e.ts.BV(t.Val, w), true
		}
		return nil, false
	}
	if t.Op == OpZext && t.Args[0].W < t.W {
		return t.Args[0], true
	}
	return nil, false
}

func (e *Engine) unsigned2(a, b Value) (*Term, *Term, bool) {
	x, ok := e.unsignedOf(a)
	if !ok {
		return nil, nil, false
	}
	y, ok := e.unsignedOf(b)
	if !ok {
		return nil, nil, false
	}
	return x, y, true
}

// limbMul multiplies two unsigned terms exactly; operands wider than 64 bits
// are split into 64-bit limbs (schoolbook), so that every product node is a
// 64x64->128 multiplication -- the same nodes math/bits.Mul64 produces.
func (e *Engine) limbMul(x, y *Term) *Term {
	ts := e.ts
	W := x.W + y.W
	if x.W <= 64 && y.W <= 64 {
		return ts.Zext(ts.Bin(OpBvMul, ts.Zext(x, W), ts.Zext(y, W)), W+1)
	}
	limbs := func(t *Term) []*Term {
		var ls []*Term
		for lo := 0; lo < t.W; lo += 64 {
			hi := min(lo+63, t.W-1)
			ls = append(ls, ts.Extract(t, hi, lo))
		}
		return ls
	}
	xs, ys := limbs(x), limbs(y)
	acc := ts.BVu(0, W+1)
	for i, xi := range xs {
		for j, yj := range ys {
			pw := xi.W + yj.W
			p := ts.Bin(OpBvMul, ts.Zext(xi, pw), ts.Zext(yj, pw))
			sh := 64 * (i + j)
			var term *Term
			if sh == 0 {
				term = ts.Zext(p, W+1)
			} else {
				term = ts.Zext(ts.Concat(p, ts.BVu(0, sh)), W+1)
			}
			acc = ts.Bin(OpBvAdd, acc, term)
		}
	}
	// the sum is < 2^W: present it as a zero extension so non-negativity stays syntactic
	return ts.Zext(ts.Extract(acc, W-1, 0), W+1)
}

func (e *Engine) fitsBits(x *Term, n int) *Term {
	ts := e.ts
	if u, ok := e.unsignedOf(&WideV{T: x}); ok {
		if u.W <= n {
			return ts.True
		}
		return ts.Eq(ts.Extract(u, u.W-1, n), ts.BVu(0, u.W-n))
	}
	w := max(x.W, n+2)
	sx := ts.Sext(x, w)
	return ts.And(ts.Cmp(OpBvSle, ts.BVu(0, w), sx), ts.Cmp(OpBvSlt, sx, ts.BV(new(big.Int).Lsh(big.NewInt(1), uint(n)), w)))
}

// shrink drops redundant sign bits of constants so widths do not explode.
func (e *Engine) shrink(t *Term) *Term {
	if t.IsConst() {
		s := toSigned(t.Val, t.W)
		w := s.BitLen() + 1
		if w < 2 {
			w = 2
		}
		if w < t.W {
			return e.ts.BV(s, w)
		}
	}
	return t
}

func (e *Engine) intrinsic(st *State, name string, args []Value, c *ssa.CallCommon) Value {
	ts := e.ts
	switch name {
	case "U8", "U16", "U32", "U64", "I64", "Bool", "Int":
		label := e.label(args[0])
		w := map[string]int{"U8": 8, "U16": 16, "U32": 32, "U64": 64, "I64": 64, "Int": 64, "Bool": 0}[name]
		kind := map[string]string{"U8": "u8", "U16": "u16", "U32": "u32", "U64": "u64", "I64": "u64", "Int": "u64", "Bool": "bool"}[name]
		v := e.nondetVar(st, label, kind, w)
		e.commitNondet(st, label, kind, v)
		return v
	case "Choice":
		label := e.label(args[0])
		n := e.concreteInt(st, args[1])
		v := e.nondetVar(st, label, "u64", 64)
		if !v.IsConst() {
			if _, known := st.known[v.ID]; !known {
				// a fresh unconstrained variable: every value in [0,n) is feasible, no query needed
				if n <= 0 {
					panic(sigDead{"assume-false"})
				}
				for i := n - 1; i >= 1; i-- {
					e.rep.Forks++
					cl := st.clone(e)
					c := ts.BVu(uint64(i), 64)
					cl.known[v.ID] = c
					e.extendWitnesses(cl, v, c)
					e.addPC(cl, ts.Eq(v, c))
					e.work = append(e.work, cl)
				}
				st.known[v.ID] = ts.BVu(0, 64)
				e.extendWitnesses(st, v, ts.BVu(0, 64))
				e.addPC(st, ts.Eq(v, ts.BVu(0, 64)))
			}
		}
		cv := e.concretize(st, v)
		e.commitNondet(st, label, "u64", v)
		return cv
	case "Bytes", "String":
		label := e.label(args[0])
		mx := e.concreteInt(st, args[1])
		lv := e.nondetVar(st, label+".len", "u64", 64)
		if !lv.IsConst() {
			if !e.assumeHolds(st, ts.Cmp(OpBvUle, lv, ts.BVu(uint64(mx), 64))) {
				panic(sigDead{"assume-false"})
			}
		}
		n := int(e.concretize(st, lv).Uint64())
		if n > mx {
			n = mx
		}
		e.commitNondet(st, label+".len", "u64", lv)
		bs := make([]*Term, n)
		for i := range bs {
			bs[i] = e.nondetVar(st, label, "u8", 8)
			e.commitNondet(st, label, "u8", bs[i])
		}
		if name == "String" {
			return &StringV{B: bs}
		}
		return e.bytesToSlice(st, bs)
	case "BytesN":
		label := e.label(args[0])
		n := e.concreteInt(st, args[1])
		bs := make([]*Term, n)
		for i := range bs {
			bs[i] = e.nondetVar(st, label, "u8", 8)
			e.commitNondet(st, label, "u8", bs[i])
		}
		return e.bytesToSlice(st, bs)
	case "Fill":
		label := e.label(args[0])
		s := args[1].(*SliceV)
		for i := 0; i < s.Len; i++ {
			b := e.nondetVar(st, label, "u8", 8)
			e.commitNondet(st, label, "u8", b)
			e.storeC(st, extendPath(s.Arr, PathElem{Field: -1, Idx: ts.BVi(int64(s.Off+i), 64)}), b)
		}
		return nil
	case "Assume":
		c := args[0].(*Term)
		if !e.assumeHolds(st, c) {
			panic(sigDead{"assume-false"})
		}
		return nil
	case "Assert":
		tag := e.label(args[0])
		cnd, ok := args[1].(*Term)
		if !ok {
			e.poisonUse(args[1])
		}
		e.obligation(st, tag, cnd, "assert")
		return nil
	case "Reach":
		tag := e.label(args[0])
		if !st.reached[tag] {
			st.reached[tag] = true
			if _, have := e.rep.ReachModels[tag]; !have && e.cfg.Concrete == nil {
				r, m := e.solver.Check(st.pc, nil, e.nondetVars(st))
				if r == Sat {
					e.rep.ReachModels[tag] = e.tapeFromModel(st, m)
				} else if r == Unsat {
					panic(sigDead{"infeasible"})
				}
			}
		}
		return nil
	case "Concrete":
		// fork over the feasible values of x; returns a constant
		t, ok := args[0].(*Term)
		if !ok {
			e.poisonUse(args[0])
		}
		return e.concretize(st, t)
	case "Implies":
		return ts.Implies(args[0].(*Term), args[1].(*Term))
	case "Param":
		if e.cfg.Tier == "thorough" {
			return args[1]
		}
		return args[0]
	case "Symbolic":
		return ts.Bool(e.cfg.Concrete == nil)
	case "Event":
		tag := e.label(args[0])
		ev := Event{Tag: tag}
		if s, ok := args[1].(*SliceV); ok && s.Len > 0 {
			el, _ := e.sliceElems(st, s)
			ev.Args = append(ev.Args, el...)
		}
		st.events = append(st.events, ev)
		return nil
	case "EventCount":
		tag := e.label(args[0])
		n := 0
		for _, ev := range st.events {
			if ev.Tag == tag {
				n++
			}
		}
		return ts.BVi(int64(n), 64)
	case "EventIndex":
		// index of the k-th (0-based) event with tag, or -1
		tag := e.label(args[0])
		k := e.concreteInt(st, args[1])
		for i, ev := range st.events {
			if ev.Tag == tag {
				if k == 0 {
					return ts.BVi(int64(i), 64)
				}
				k--
			}
		}
		return ts.BVi(-1, 64)
	case "EventArg":
		i := e.concreteInt(st, args[0])
		j := e.concreteInt(st, args[1])
		if i < 0 || i >= len(st.events) || j >= len(st.events[i].Args) {
			return ts.BVu(0, 64)
		}
		return st.events[i].Args[j]
	case "Recovered":
		// number of panics recovered so far on this path
		n := 0
		for _, ev := range st.events {
			if len(ev.Tag) > 10 && ev.Tag[:10] == "recovered:" {
				n++
			}
		}
		return ts.BVi(int64(n), 64)
	case "Hash32":
		return e.ufHash(st, e.label(args[0]), args[1].(*SliceV))
	case "UF64":
		return e.ufWord(st, e.label(args[0]), args[1].(*SliceV))
	// ---- exact integers ----
	case "ZU":
		t := args[0].(*Term)
		return e.mkWide(ts.Zext(t, t.W+1))
	case "ZI":
		return e.mkWide(args[0].(*Term))
	case "ZBytes":
		s := args[0].(*SliceV)
		el, err := e.sliceElems(st, s)
		if err != nil {
			e.unsupported("ZBytes: %v", err)
		}
		var acc *Term
		for _, b := range el {
			if acc == nil {
				acc = b.(*Term)
			} else {
				acc = ts.Concat(acc, b.(*Term))
			}
		}
		if acc == nil {
			return e.mkWide(ts.BVu(0, 2))
		}
		return e.mkWide(ts.Zext(acc, acc.W+1))
	case "Add":
		a, b := args[0], args[1]
		if ua, ub, ok := e.unsigned2(a, b); ok {
			w := max(ua.W, ub.W) + 1
			return e.mkWide(ts.Zext(ts.Bin(OpBvAdd, ts.Zext(ua, w), ts.Zext(ub, w)), w+1))
		}
		x, y := e.wide2(a, b, 1)
		return e.mkWide(ts.Bin(OpBvAdd, x, y))
	case "Sub":
		x, y := e.wide2(args[0], args[1], 1)
		return e.mkWide(ts.Bin(OpBvSub, x, y))
	case "Mul":
		if ua, ub, ok := e.unsigned2(args[0], args[1]); ok {
			return e.mkWide(e.limbMul(ua, ub))
		}
		x, y := e.wide(args[0]), e.wide(args[1])
		w := x.W + y.W
		return e.mkWide(ts.Bin(OpBvMul, ts.Sext(x, w), ts.Sext(y, w)))
	case "Div", "Mod":
		if ua, ub, ok := e.unsigned2(args[0], args[1]); ok {
			w := max(ua.W, ub.W)
			xa, xb := ts.Zext(ua, w), ts.Zext(ub, w)
			e.guard(st, ts.Ne(xb, ts.BVu(0, w)), "division by zero in exact-integer oracle")
			op := OpBvUdiv
			if name == "Mod" {
				op = OpBvUrem
			}
			return e.mkWide(ts.Zext(ts.Bin(op, xa, xb), w+1))
		}
		x, y := e.wide2(args[0], args[1], 1)
		e.guard(st, ts.Ne(y, ts.BVu(0, y.W)), "division by zero in exact-integer oracle")
		if name == "Div" {
			return e.mkWide(ts.Bin(OpBvSdiv, x, y))
		}
		return e.mkWide(ts.Bin(OpBvSrem, x, y))
	case "Neg":
		x := e.wide(args[0])
		return e.mkWide(ts.BvNeg(ts.Sext(x, x.W+1)))
	case "Shl":
		x := e.wide(args[0])
		n := e.concreteInt(st, args[1])
		if n <= 0 {
			return e.mkWide(x)
		}
		return e.mkWide(ts.Concat(x, ts.BVu(0, n)))
	case "Shr":
		x := e.wide(args[0])
		n := e.concreteInt(st, args[1])
		if n <= 0 {
			return e.mkWide(x)
		}
		if n >= x.W-1 {
			n = x.W - 2
		}
		if n <= 0 {
			return e.mkWide(x)
		}
		return e.mkWide(ts.Sext(ts.Extract(x, x.W-1, n), x.W-n+1))
	case "Lt":
		x, y := e.wide2(args[0], args[1], 0)
		return ts.Cmp(OpBvSlt, x, y)
	case "Le":
		x, y := e.wide2(args[0], args[1], 0)
		return ts.Cmp(OpBvSle, x, y)
	case "Gt":
		x, y := e.wide2(args[0], args[1], 0)
		return ts.Cmp(OpBvSlt, y, x)
	case "Ge":
		x, y := e.wide2(args[0], args[1], 0)
		return ts.Cmp(OpBvSle, y, x)
	case "Eq":
		x, y := e.wide2(args[0], args[1], 0)
		return ts.Eq(x, y)
	case "IsU64":
		return e.fitsBits(e.wide(args[0]), 64)
	case "U64Trunc":
		x := e.wide(args[0])
		return ts.Extract(ts.Sext(x, max(x.W, 64)), 63, 0)
	case "Fits":
		return e.fitsBits(e.wide(args[0]), e.concreteInt(st, args[1]))
	}
	if name == "init" {
		return nil
	}
	e.unsupported("verifrt.%s", name)
	return nil
}

// ---------- uninterpreted, injective functions ----------

func (e *Engine) ufHash(st *State, name string, parts *SliceV) Value {
	ts := e.ts
	// flatten parts ([][]byte) with length prefixes
	var in []*Term
	pe, err := e.sliceElems(st, parts)
	if err != nil {
		e.unsupported("Hash32: %v", err)
	}
	for _, p := range pe {
		ps := p.(*SliceV)
		el, err := e.sliceElems(st, ps)
		if err != nil {
			e.unsupported("Hash32: %v", err)
		}
		in = append(in, ts.BVu(uint64(len(el)), 32))
		for _, b := range el {
			in = append(in, b.(*Term))
		}
	}
	out := e.ufApply(st, name, in, 256)
	arr := &ArrayV{E: make([]Value, 32)}
	for i := 0; i < 32; i++ {
		arr.E[i] = ts.Extract(out, 255-8*i, 248-8*i)
	}
	return arr
}

func (e *Engine) ufWord(st *State, name string, args *SliceV) Value {
	var in []*Term
	el, err := e.sliceElems(st, args)
	if err != nil {
		e.unsupported("UF64: %v", err)
	}
	for _, a := range el {
		in = append(in, a.(*Term))
	}
	return e.ufApplyNI(st, name, in, 64)
}

func (e *Engine) inEq(a, b []*Term) *Term {
	if len(a) != len(b) {
		return e.ts.False
	}
	r := e.ts.True
	for i := range a {
		if a[i].W != b[i].W {
			return e.ts.False
		}
		r = e.ts.And(r, e.ts.Eq(a[i], b[i]))
		if r.IsFalse() {
			return r
		}
	}
	return r
}

// ufApply: injective uninterpreted function (collision-free hash).
func (e *Engine) ufApply(st *State, name string, in []*Term, w int) *Term {
	ts := e.ts
	// identical input seen before on this path: same output term
	for _, app := range st.ufApps[name] {
		if e.inEq(app.in, in).IsTrue() {
			return app.out[0]
		}
	}
	n := st.seq["uf:"+name]
	st.seq["uf:"+name]++
	var out *Term
	if e.cfg.Concrete != nil {
		out = e.concreteUF(name, in, w)
	} else {
		out = ts.Var(fmt.Sprintf("uf!%s#%d", name, n), w)
		for _, app := range st.ufApps[name] {
			eq := e.inEq(app.in, in)
			e.addPC(st, ts.Eq(eq, ts.Eq(app.out[0], out)))
		}
		st.nondets = append(st.nondets, NondetRec{Var: out, Label: "uf!" + name, Kind: "uf"})
	}
	st.ufApps[name] = append(st.ufApps[name], ufApp{in: in, out: []*Term{out}})
	e.rep.Models["uninterpreted injective function "+name]++
	return out
}

// ufApplyNI: uninterpreted function, functional consistency only.
func (e *Engine) ufApplyNI(st *State, name string, in []*Term, w int) *Term {
	ts := e.ts
	for _, app := range st.ufApps[name] {
		if e.inEq(app.in, in).IsTrue() {
			return app.out[0]
		}
	}
	n := st.seq["uf:"+name]
	st.seq["uf:"+name]++
	var out *Term
	if e.cfg.Concrete != nil {
		out = e.concreteUF(name, in, w)
	} else {
		out = ts.Var(fmt.Sprintf("uf!%s#%d", name, n), w)
		for _, app := range st.ufApps[name] {
			eq := e.inEq(app.in, in)
			e.addPC(st, ts.Implies(eq, ts.Eq(app.out[0], out)))
		}
		st.nondets = append(st.nondets, NondetRec{Var: out, Label: "uf!" + name, Kind: "uf"})
	}
	st.ufApps[name] = append(st.ufApps[name], ufApp{in: in, out: []*Term{out}})
	e.rep.Models["uninterpreted function "+name]++
	return out
}

func (e *Engine) concreteUF(name string, in []*Term, w int) *Term {
	// FNV-style mixing, good enough for concrete-mode translation validation
	h := new(big.Int).SetUint64(1469598103934665603)
	p := new(big.Int).SetUint64(1099511628211)
	for i := 0; i < len(name); i++ {
		h.Xor(h, big.NewInt(int64(name[i])))
		h.Mul(h, p)
		h.And(h, mask(w))
	}
	for _, t := range in {
		h.Xor(h, t.Val)
		h.Mul(h, p)
		h.And(h, mask(w))
	}
	return e.ts.BV(h, w)
}
