package sym

import (
	"go/types"
	"strings"

	"golang.org/x/tools/go/ssa"
)

type modelFn func(e *Engine, st *State, args []Value, c *ssa.CallCommon) Value

var models map[string]modelFn

func tup(vs ...Value) Value { return &TupleV{E: vs} }

func init() {
	models = map[string]modelFn{
		"math/bits.Mul64": func(e *Engine, st *State, a []Value, c *ssa.CallCommon) Value {
			ts := e.ts
			x, y := ts.Zext(a[0].(*Term), 128), ts.Zext(a[1].(*Term), 128)
			p := ts.Bin(OpBvMul, x, y)
			return tup(ts.Extract(p, 127, 64), ts.Extract(p, 63, 0))
		},
		"math/bits.Mul32": func(e *Engine, st *State, a []Value, c *ssa.CallCommon) Value {
			ts := e.ts
			x, y := ts.Zext(a[0].(*Term), 64), ts.Zext(a[1].(*Term), 64)
			p := ts.Bin(OpBvMul, x, y)
			return tup(ts.Extract(p, 63, 32), ts.Extract(p, 31, 0))
		},
		"math/bits.Add64": func(e *Engine, st *State, a []Value, c *ssa.CallCommon) Value {
			ts := e.ts
			x, y, ci := ts.Zext(a[0].(*Term), 65), ts.Zext(a[1].(*Term), 65), ts.Zext(a[2].(*Term), 65)
			s := ts.Bin(OpBvAdd, ts.Bin(OpBvAdd, x, y), ci)
			return tup(ts.Extract(s, 63, 0), ts.Zext(ts.Extract(s, 64, 64), 64))
		},
		"math/bits.Sub64": func(e *Engine, st *State, a []Value, c *ssa.CallCommon) Value {
			ts := e.ts
			x, y, bi := ts.Zext(a[0].(*Term), 65), ts.Zext(a[1].(*Term), 65), ts.Zext(a[2].(*Term), 65)
			d := ts.Bin(OpBvSub, ts.Bin(OpBvSub, x, y), bi)
			return tup(ts.Extract(d, 63, 0), ts.Zext(ts.Extract(d, 64, 64), 64))
		},
		"math/bits.Div64": func(e *Engine, st *State, a []Value, c *ssa.CallCommon) Value {
			ts := e.ts
			hi, lo, y := a[0].(*Term), a[1].(*Term), a[2].(*Term)
			e.guard(st, ts.Ne(y, ts.BVu(0, 64)), "integer divide by zero")
			e.guard(st, ts.Cmp(OpBvUlt, hi, y), "integer overflow")
			n := ts.Concat(hi, lo)
			d := ts.Zext(y, 128)
			q := ts.Bin(OpBvUdiv, n, d)
			r := ts.Bin(OpBvUrem, n, d)
			return tup(ts.Extract(q, 63, 0), ts.Extract(r, 63, 0))
		},
		"math/bits.Len64":  func(e *Engine, st *State, a []Value, c *ssa.CallCommon) Value { return e.bitLen(a[0].(*Term)) },
		"math/bits.Len32":  func(e *Engine, st *State, a []Value, c *ssa.CallCommon) Value { return e.bitLen(a[0].(*Term)) },
		"math/bits.Len16":  func(e *Engine, st *State, a []Value, c *ssa.CallCommon) Value { return e.bitLen(a[0].(*Term)) },
		"math/bits.Len8":   func(e *Engine, st *State, a []Value, c *ssa.CallCommon) Value { return e.bitLen(a[0].(*Term)) },
		"math/bits.Len":    func(e *Engine, st *State, a []Value, c *ssa.CallCommon) Value { return e.bitLen(a[0].(*Term)) },
		"math/bits.LeadingZeros64": func(e *Engine, st *State, a []Value, c *ssa.CallCommon) Value {
			return e.ts.Bin(OpBvSub, e.ts.BVu(64, 64), e.bitLen(a[0].(*Term)))
		},
		"math/bits.LeadingZeros32": func(e *Engine, st *State, a []Value, c *ssa.CallCommon) Value {
			return e.ts.Bin(OpBvSub, e.ts.BVu(32, 64), e.bitLen(a[0].(*Term)))
		},
		"math/bits.LeadingZeros8": func(e *Engine, st *State, a []Value, c *ssa.CallCommon) Value {
			return e.ts.Bin(OpBvSub, e.ts.BVu(8, 64), e.bitLen(a[0].(*Term)))
		},
		"math/bits.TrailingZeros64": func(e *Engine, st *State, a []Value, c *ssa.CallCommon) Value { return e.trailingZeros(a[0].(*Term)) },
		"math/bits.TrailingZeros32": func(e *Engine, st *State, a []Value, c *ssa.CallCommon) Value { return e.trailingZeros(a[0].(*Term)) },
		"math/bits.TrailingZeros8":  func(e *Engine, st *State, a []Value, c *ssa.CallCommon) Value { return e.trailingZeros(a[0].(*Term)) },
		"math/bits.OnesCount64": func(e *Engine, st *State, a []Value, c *ssa.CallCommon) Value { return e.popCount(a[0].(*Term)) },
		"math/bits.OnesCount32": func(e *Engine, st *State, a []Value, c *ssa.CallCommon) Value { return e.popCount(a[0].(*Term)) },
		"math/bits.OnesCount8":  func(e *Engine, st *State, a []Value, c *ssa.CallCommon) Value { return e.popCount(a[0].(*Term)) },
		"math/bits.ReverseBytes64": func(e *Engine, st *State, a []Value, c *ssa.CallCommon) Value { return e.reverseBytes(a[0].(*Term)) },
		"math/bits.ReverseBytes32": func(e *Engine, st *State, a []Value, c *ssa.CallCommon) Value { return e.reverseBytes(a[0].(*Term)) },
		"math/bits.ReverseBytes16": func(e *Engine, st *State, a []Value, c *ssa.CallCommon) Value { return e.reverseBytes(a[0].(*Term)) },
		"internal/bytealg.Equal": func(e *Engine, st *State, a []Value, c *ssa.CallCommon) Value {
			x, _ := e.sliceElems(st, a[0].(*SliceV))
			y, _ := e.sliceElems(st, a[1].(*SliceV))
			if len(x) != len(y) {
				return e.ts.False
			}
			r := e.ts.True
			for i := range x {
				r = e.ts.And(r, e.ts.Eq(x[i].(*Term), y[i].(*Term)))
			}
			return r
		},
		"internal/bytealg.Compare": func(e *Engine, st *State, a []Value, c *ssa.CallCommon) Value {
			x, _ := e.sliceElems(st, a[0].(*SliceV))
			y, _ := e.sliceElems(st, a[1].(*SliceV))
			return e.bytesCompare(x, y)
		},
		"bytes.Compare": func(e *Engine, st *State, a []Value, c *ssa.CallCommon) Value {
			x, _ := e.sliceElems(st, a[0].(*SliceV))
			y, _ := e.sliceElems(st, a[1].(*SliceV))
			return e.bytesCompare(x, y)
		},
		"internal/bytealg.IndexByte": func(e *Engine, st *State, a []Value, c *ssa.CallCommon) Value {
			x, _ := e.sliceElems(st, a[0].(*SliceV))
			return e.indexByte(x, a[1].(*Term))
		},
		"internal/bytealg.IndexByteString": func(e *Engine, st *State, a []Value, c *ssa.CallCommon) Value {
			s := a[0].(*StringV)
			x := make([]Value, len(s.B))
			for i, b := range s.B {
				x[i] = b
			}
			return e.indexByte(x, a[1].(*Term))
		},
		"internal/bytealg.CountString": func(e *Engine, st *State, a []Value, c *ssa.CallCommon) Value {
			s := a[0].(*StringV)
			acc := e.ts.BVi(0, 64)
			for _, b := range s.B {
				acc = e.ts.Bin(OpBvAdd, acc, e.ts.BoolToBV(e.ts.Eq(b, a[1].(*Term)), 64))
			}
			return acc
		},
		"internal/bytealg.Count": func(e *Engine, st *State, a []Value, c *ssa.CallCommon) Value {
			x, _ := e.sliceElems(st, a[0].(*SliceV))
			acc := e.ts.BVi(0, 64)
			for _, b := range x {
				acc = e.ts.Bin(OpBvAdd, acc, e.ts.BoolToBV(e.ts.Eq(b.(*Term), a[1].(*Term)), 64))
			}
			return acc
		},
		"maps.clone": func(e *Engine, st *State, a []Value, c *ssa.CallCommon) Value {
			iv, ok := a[0].(*IfaceV)
			if !ok || iv.T == nil {
				return a[0]
			}
			m, ok := iv.V.(*MapV)
			if !ok || m.Obj == 0 {
				return a[0]
			}
			mo := e.mapObj(st, m)
			p := e.newObj(st, iv.T, &MapObj{E: append([]MapEntry(nil), mo.E...)}, "map")
			return &IfaceV{T: iv.T, V: &MapV{Obj: p.Obj}}
		},
		"runtime.KeepAlive":        func(e *Engine, st *State, a []Value, c *ssa.CallCommon) Value { return nil },
		"runtime.SetFinalizer":     func(e *Engine, st *State, a []Value, c *ssa.CallCommon) Value { return nil },
		"runtime.Gosched":          func(e *Engine, st *State, a []Value, c *ssa.CallCommon) Value { return nil },
		"runtime.GC":               func(e *Engine, st *State, a []Value, c *ssa.CallCommon) Value { return nil },
		"internal/race.Enabled":    func(e *Engine, st *State, a []Value, c *ssa.CallCommon) Value { return e.ts.False },
		"errors.Is":                modelErrorsIs,
		"errors.As":                nil,
		"fmt.Errorf":               modelErrorf,
		"fmt.Sprintf":              modelSprintf,
		"fmt.Sprint":               modelSprintf,
		"fmt.Sprintln":             modelSprintf,
		"fmt.Printf":               modelNop2,
		"fmt.Println":              modelNop2,
		"fmt.Fprintf":              modelNop2,
		"fmt.Fprintln":             modelNop2,
		"errors.New":               nil,
		"strconv.Itoa":             modelSprintf,
		"strconv.FormatUint":       modelSprintf,
		"strconv.FormatInt":        modelSprintf,
		"strconv.Quote":            modelSprintf,
		"encoding/hex.EncodeToString": modelSprintf,
		"encoding/base32.(*Encoding).EncodeToString": modelSprintf,
		"encoding/base64.(*Encoding).EncodeToString": modelSprintf,
	}
	for k, v := range models {
		if v == nil {
			delete(models, k)
		}
	}
}

func modelNop2(e *Engine, st *State, a []Value, c *ssa.CallCommon) Value {
	return tup(e.ts.BVi(0, 64), &IfaceV{})
}

// modelSprintf: formatted text is opaque; contents are never part of a claim.
func modelSprintf(e *Engine, st *State, a []Value, c *ssa.CallCommon) Value {
	return e.strConst("<formatted>")
}

// opaque error: IfaceV{T: verif.opaqueError, V: *StructV{F:[wrapped IfaceV]}}
func modelErrorf(e *Engine, st *State, a []Value, c *ssa.CallCommon) Value {
	var wrapped Value = &IfaceV{}
	wraps := false
	if f, ok := a[0].(*StringV); ok {
		if s, ok := concreteString(f); ok && strings.Contains(s, "%w") {
			wraps = true
		}
	}
	if wraps && len(a) > 1 {
		if sl, ok := a[1].(*SliceV); ok {
			el, _ := e.sliceElems(st, sl)
			for _, x := range el {
				if iv, ok := x.(*IfaceV); ok && iv.T != nil {
					if it, ok2 := errorType.Underlying().(*types.Interface); ok2 {
						if nt, isN := iv.T.(*types.Named); isN && nt.Obj().Pkg() == nil {
							wrapped = iv
						} else if types.Implements(iv.T, it) {
							wrapped = iv
						}
					}
				}
			}
		}
	}
	return &IfaceV{T: e.nativeType("verif.opaqueError"), V: &StructV{F: []Value{wrapped}}}
}

var errorType = types.Universe.Lookup("error").Type()

// modelErrorsIs walks opaque wrappers; typed errors with their own Is/Unwrap
// methods are compared by identity only (stated in the evidence).
func modelErrorsIs(e *Engine, st *State, a []Value, c *ssa.CallCommon) Value {
	err, _ := a[0].(*IfaceV)
	target, _ := a[1].(*IfaceV)
	if err == nil || target == nil {
		e.poisonUse(a[0])
	}
	for depth := 0; depth < 16; depth++ {
		if err.T == nil {
			return e.ts.Bool(target.T == nil && depth == 0)
		}
		eq := e.valEqSafe(err, target)
		if eq.IsTrue() {
			return e.ts.True
		}
		if !eq.IsFalse() {
			if e.decide(st, eq) {
				return e.ts.True
			}
		}
		if nt, ok := err.T.(*types.Named); ok && nt.Obj().Pkg() == nil && nt.Obj().Name() == "verif.opaqueError" {
			err = err.V.(*StructV).F[0].(*IfaceV)
			continue
		}
		// typed error with Unwrap() error: follow statically known single-field wrappers is not attempted
		ms := e.prog.MethodSets.MethodSet(err.T)
		if ms.Lookup(nil, "Unwrap") != nil || ms.Lookup(nil, "Is") != nil {
			e.unsupported("errors.Is through user-defined Unwrap/Is on %s", err.T)
		}
		return e.ts.False
	}
	return e.ts.False
}

func (e *Engine) valEqSafe(a, b *IfaceV) (r *Term) {
	defer func() {
		if x := recover(); x != nil {
			r = e.ts.False
		}
	}()
	return e.valEq(a, b)
}

func (e *Engine) bitLen(x *Term) *Term {
	ts := e.ts
	acc := ts.BVu(0, 64)
	for i := 0; i < x.W; i++ {
		bit := ts.Eq(ts.Extract(x, i, i), ts.BVu(1, 1))
		acc = ts.Ite(bit, ts.BVu(uint64(i+1), 64), acc)
	}
	return acc
}

func (e *Engine) trailingZeros(x *Term) *Term {
	ts := e.ts
	acc := ts.BVu(uint64(x.W), 64)
	for i := x.W - 1; i >= 0; i-- {
		bit := ts.Eq(ts.Extract(x, i, i), ts.BVu(1, 1))
		acc = ts.Ite(bit, ts.BVu(uint64(i), 64), acc)
	}
	return acc
}

func (e *Engine) popCount(x *Term) *Term {
	ts := e.ts
	acc := ts.BVu(0, 64)
	for i := 0; i < x.W; i++ {
		acc = ts.Bin(OpBvAdd, acc, ts.Zext(ts.Extract(x, i, i), 64))
	}
	return acc
}

func (e *Engine) reverseBytes(x *Term) *Term {
	ts := e.ts
	n := x.W / 8
	var acc *Term
	for i := 0; i < n; i++ {
		b := ts.Extract(x, 8*i+7, 8*i)
		if acc == nil {
			acc = b
		} else {
			acc = ts.Concat(acc, b)
		}
	}
	return acc
}

func (e *Engine) bytesCompare(x, y []Value) *Term {
	ts := e.ts
	n := min(len(x), len(y))
	var r *Term
	switch {
	case len(x) < len(y):
		r = ts.BVi(-1, 64)
	case len(x) > len(y):
		r = ts.BVi(1, 64)
	default:
		r = ts.BVi(0, 64)
	}
	for i := n - 1; i >= 0; i-- {
		a, b := x[i].(*Term), y[i].(*Term)
		r = ts.Ite(ts.Eq(a, b), r, ts.Ite(ts.Cmp(OpBvUlt, a, b), ts.BVi(-1, 64), ts.BVi(1, 64)))
	}
	return r
}

func (e *Engine) indexByte(x []Value, c *Term) *Term {
	ts := e.ts
	r := ts.BVi(-1, 64)
	for i := len(x) - 1; i >= 0; i-- {
		r = ts.Ite(ts.Eq(x[i].(*Term), c), ts.BVi(int64(i), 64), r)
	}
	return r
}

// ---------- pattern models: whole packages treated uniformly ----------

func zeroResults(e *Engine, fn *ssa.Function) Value {
	res := fn.Signature.Results()
	switch res.Len() {
	case 0:
		return nil
	case 1:
		return e.zero(res.At(0).Type())
	}
	return e.zero(res)
}

func (e *Engine) modelByPattern(st *State, fn *ssa.Function, key string, args []Value, c *ssa.CallCommon, rk retKind) (Value, bool) {
	pkg := ""
	if fn.Pkg != nil {
		pkg = fn.Pkg.Pkg.Path()
	} else if o := fn.Origin(); o != nil && o.Pkg != nil {
		pkg = o.Pkg.Pkg.Path()
	} else if fn.Signature.Recv() != nil {
		// method wrappers have no package: derive from receiver type
		if n, ok := derefNamed(fn.Signature.Recv().Type()); ok && n.Obj().Pkg() != nil {
			pkg = n.Obj().Pkg().Path()
		}
	}
	name := fn.Name()
	switch pkg {
	case "sync":
		e.rep.Models["sync.* sequential no-op model"]++
		if strings.Contains(key, "Once).Do") {
			// run f once
			p := args[0].(*PtrV)
			done := e.loadC(st, extendPath(p, PathElem{Field: 0}))
			_ = done
			// Once{done atomic.Uint32 / uint32; m Mutex}: use a ghost flag keyed by object
			gk := "once:" + describe(p)
			if _, ok := st.ghost[gk]; ok {
				return nil, true
			}
			st.ghost[gk] = e.ts.True
			e.invoke(st, args[1], nil, rk, c)
			return sigPushed{}, true
		}
		if strings.Contains(key, "Pool).Get") {
			p := args[0].(*PtrV)
			newFn := e.loadC(st, extendPath(p, PathElem{Field: poolNewField(fn)}))
			if f, ok := newFn.(*FuncV); ok && f.Fn != nil {
				e.invoke(st, f, nil, rk, c)
				return sigPushed{}, true
			}
			return &IfaceV{}, true
		}
		if strings.Contains(key, "Map)") || strings.Contains(key, "Cond).Wait") {
			e.unsupported("sync model: %s", key)
		}
		return zeroResults(e, fn), true
	case "sync/atomic", "internal/runtime/atomic":
		return e.atomicModel(st, fn, name, key, args), true
	case "github.com/algorand/go-deadlock":
		e.rep.Models["go-deadlock.* sequential no-op model"]++
		return zeroResults(e, fn), true
	case "github.com/algorand/go-algorand/logging", "github.com/algorand/go-algorand/logging/telemetryspec", "github.com/sirupsen/logrus":
		return e.loggingModel(st, fn, name, key, args), true
	case "github.com/algorand/go-algorand/util/metrics":
		e.rep.Models["util/metrics.* no-op model"]++
		return zeroResults(e, fn), true
	case "time":
		switch key {
		case "time.Now":
			e.rep.Models["time.Now nondeterministic"]++
			// Time{wall uint64, ext int64, loc *Location}: nondeterministic ext
			v := e.nondetVar(st, "time.Now", "u64", 64)
			e.commitNondet(st, "time.Now", "u64", v)
			return &StructV{F: []Value{e.ts.BVu(0, 64), v, &PtrV{}}}, true
		case "time.Since", "time.Until":
			v := e.nondetVar(st, "time.Since", "u64", 64)
			e.commitNondet(st, "time.Since", "u64", v)
			return v, true
		case "time.Sleep":
			return nil, true
		}
	case "runtime/debug", "crypto/internal/fips140", "crypto/internal/fips140only":
		return zeroResults(e, fn), true
	case "context":
		if name == "Err" || name == "Done" {
			// fallthrough to real code
		}
	}
	return nil, false
}

func derefNamed(t types.Type) (*types.Named, bool) {
	if p, ok := t.(*types.Pointer); ok {
		t = p.Elem()
	}
	n, ok := t.(*types.Named)
	return n, ok
}

func poolNewField(fn *ssa.Function) int {
	if n, ok := derefNamed(fn.Signature.Recv().Type()); ok {
		if s, ok := n.Underlying().(*types.Struct); ok {
			for i := 0; i < s.NumFields(); i++ {
				if s.Field(i).Name() == "New" {
					return i
				}
			}
		}
	}
	return 0
}

// atomicModel: sequential semantics for sync/atomic functions and types.
func (e *Engine) atomicModel(st *State, fn *ssa.Function, name, key string, args []Value) Value {
	e.rep.Models["sync/atomic sequential model"]++
	ts := e.ts
	p, ok := args[0].(*PtrV)
	if !ok {
		e.poisonUse(args[0])
	}
	e.guard(st, ts.Bool(p.Obj != 0), "nil dereference")
	// typed atomics (atomic.Uint64 etc.) keep their value in the last field named v / value
	cell := p
	if fn.Signature.Recv() != nil {
		if n, ok := derefNamed(fn.Signature.Recv().Type()); ok {
			if s, ok := n.Underlying().(*types.Struct); ok {
				for i := 0; i < s.NumFields(); i++ {
					if s.Field(i).Name() == "v" {
						cell = extendPath(p, PathElem{Field: i})
					}
				}
			}
		}
	}
	base := name
	for _, suf := range []string{"Uint64", "Uint32", "Int64", "Int32", "Uintptr", "Pointer", "Uint8"} {
		base = strings.TrimSuffix(base, suf)
	}
	switch base {
	case "Load":
		v := e.loadC(st, cell)
		if t, ok := v.(*Term); ok && fn.Signature.Results().Len() == 1 {
			if w, _, ok := scalarWidth(fn.Signature.Results().At(0).Type()); ok && w == 0 && t.W != 0 {
				return ts.Ne(t, ts.BVu(0, t.W)) // atomic.Bool stores uint32
			}
		}
		return v
	case "Store":
		nv := args[1]
		if t, ok := nv.(*Term); ok && t.W == 0 {
			if old, ok := e.loadC(st, cell).(*Term); ok && old.W != 0 {
				nv = ts.BoolToBV(t, old.W)
			}
		}
		e.storeC(st, cell, nv)
		return nil
	case "Add":
		old := e.loadC(st, cell).(*Term)
		nv := ts.Bin(OpBvAdd, old, args[1].(*Term))
		e.storeC(st, cell, nv)
		return nv
	case "Swap":
		old := e.loadC(st, cell)
		e.storeC(st, cell, args[1])
		return old
	case "CompareAndSwap":
		old := e.loadC(st, cell)
		oldArg := args[1]
		newArg := args[2]
		if t, ok := oldArg.(*Term); ok && t.W == 0 {
			if o, ok := old.(*Term); ok && o.W != 0 {
				oldArg = ts.BoolToBV(t, o.W)
				newArg = ts.BoolToBV(newArg.(*Term), o.W)
			}
		}
		eq := e.valEq(old, oldArg)
		if e.decide(st, eq) {
			e.storeC(st, cell, newArg)
			return ts.True
		}
		return ts.False
	}
	e.unsupported("atomic model: %s", key)
	return nil
}

// loggingModel: every logger is a no-op; Panic*/Fatal* panic.
func (e *Engine) loggingModel(st *State, fn *ssa.Function, name, key string, args []Value) Value {
	e.rep.Models["logging.* no-op model (Panic*/Fatal* panic)"]++
	if strings.HasPrefix(name, "Panic") || strings.HasPrefix(name, "Fatal") {
		e.startPanic(st, &PanicInfo{Kind: "log." + name, Where: e.where(st), Val: &IfaceV{T: types.Typ[types.String], V: e.strConst("log." + name)}})
		panic(sigRetry{})
	}
	res := fn.Signature.Results()
	if res.Len() == 1 {
		// functions returning a Logger (Base, With, WithFields...) return the no-op logger
		if n, ok := res.At(0).Type().(*types.Named); ok && n.Obj().Name() == "Logger" {
			return &IfaceV{T: e.nativeType("verif.noopLogger"), V: &StructV{}}
		}
	}
	return zeroResults(e, fn)
}

// nativeIface dispatches method calls on engine-native interface values.
func (e *Engine) nativeIface(st *State, name string, args []Value, c *ssa.CallCommon) Value {
	dot := strings.LastIndex(name, ".")
	typ, meth := name[:dot], name[dot+1:]
	sig := c.Signature()
	zero := func() Value {
		res := sig.Results()
		switch res.Len() {
		case 0:
			return nil
		case 1:
			return e.zero(res.At(0).Type())
		}
		return e.zero(res)
	}
	switch typ {
	case "verif.noopLogger":
		e.rep.Models["logging.Logger no-op model (Panic*/Fatal* panic)"]++
		if strings.HasPrefix(meth, "Panic") || strings.HasPrefix(meth, "Fatal") {
			e.startPanic(st, &PanicInfo{Kind: "log." + meth, Where: e.where(st), Val: &IfaceV{T: types.Typ[types.String], V: e.strConst("log." + meth)}})
			panic(sigRetry{})
		}
		res := sig.Results()
		if res.Len() == 1 {
			if n, ok := res.At(0).Type().(*types.Named); ok && n.Obj().Name() == "Logger" {
				return &IfaceV{T: e.nativeType("verif.noopLogger"), V: &StructV{}}
			}
		}
		return zero()
	case "verif.opaqueError":
		switch meth {
		case "Error":
			return e.strConst("<opaque error>")
		case "Unwrap":
			return args[0].(*StructV).F[0]
		}
	case "runtime.Error":
		switch meth {
		case "Error":
			return args[0]
		case "RuntimeError":
			return nil
		}
	}
	e.unsupported("method %s on native %s", meth, typ)
	return nil
}
