package sym

import (
	"sync"

	"golang.org/x/tools/go/ssa"
)

// sortK: stable insertion sort over a slice, calling the user's less closure
// symbolically. It is a native continuation so that forks inside less (and on
// its result) clone the sort's own progress.
type sortK struct {
	s       *SliceV
	less    *FuncV
	i, j    int
	started bool
	waiting bool
	pending Value
}

func (k *sortK) Clone() NativeK {
	c := *k
	return &c
}

func (k *sortK) Resume(e *Engine, st *State, fr *Frame, ret Value) (bool, Value) {
	ts := e.ts
	if ret != nil {
		k.pending = ret
	}
	if !k.started {
		k.started = true
		k.i, k.j = 1, 1
	}
	for {
		if k.waiting {
			if k.pending == nil {
				// re-entered after a fork cloned us before the callee returned: cannot happen
				e.unsupported("sort model: lost callee result")
			}
			t, ok := k.pending.(*Term)
			if !ok {
				e.poisonUse(k.pending)
			}
			lt := e.decide(st, t)
			k.pending = nil
			k.waiting = false
			if lt {
				// swap elements j and j-1
				pa := extendPath(k.s.Arr, PathElem{Field: -1, Idx: ts.BVi(int64(k.s.Off+k.j), 64)})
				pb := extendPath(k.s.Arr, PathElem{Field: -1, Idx: ts.BVi(int64(k.s.Off+k.j-1), 64)})
				va, vb := e.loadC(st, pa), e.loadC(st, pb)
				e.storeC(st, pa, vb)
				e.storeC(st, pb, va)
				k.j--
			} else {
				k.i++
				k.j = k.i
			}
		}
		if k.j == 0 {
			k.i++
			k.j = k.i
		}
		if k.i >= k.s.Len {
			return true, nil
		}
		// ask less(j, j-1)
		k.waiting = true
		e.invoke(st, k.less, []Value{ts.BVi(int64(k.j), 64), ts.BVi(int64(k.j-1), 64)}, retNormal, nil)
		return false, nil
	}
}

func modelSortSlice(e *Engine, st *State, a []Value, c *ssa.CallCommon) Value {
	iv, ok := a[0].(*IfaceV)
	if !ok {
		e.poisonUse(a[0])
	}
	s, ok := iv.V.(*SliceV)
	if !ok {
		e.unsupported("sort.Slice of non-slice")
	}
	less, ok := a[1].(*FuncV)
	if !ok {
		e.poisonUse(a[1])
	}
	if s.Len < 2 {
		return nil
	}
	e.rep.Models["sort.Slice/SliceStable = stable insertion sort calling the real less closure"]++
	fr := &Frame{native: &sortK{s: s, less: less}, ret: retNormal}
	st.frames = append(st.frames, fr)
	return sigPushed{}
}

func init() {
	registerLate = append(registerLate, func() {
		models["sort.Slice"] = modelSortSlice
		models["sort.SliceStable"] = modelSortSlice
	})
}

var registerLate []func()
var lateOnce sync.Once

func runLate() {
	lateOnce.Do(func() {
		for _, f := range registerLate {
			f()
		}
	})
}
