package sym

import (
	"fmt"
	"go/types"
	"os"

	"golang.org/x/tools/go/ssa"
)

// initStoresOf returns the globals that pkg's initializer (init and init#N)
// assigns directly.
func (e *Engine) initStoresOf(pkg *ssa.Package) map[*ssa.Global]bool {
	if m, ok := e.initStores[pkg]; ok {
		return m
	}
	m := map[*ssa.Global]bool{}
	var scan func(fn *ssa.Function, depth int)
	seen := map[*ssa.Function]bool{}
	scan = func(fn *ssa.Function, depth int) {
		if fn == nil || seen[fn] || depth > 3 {
			return
		}
		seen[fn] = true
		for _, b := range fn.Blocks {
			for _, in := range b.Instrs {
				switch x := in.(type) {
				case *ssa.Store:
					if g := globalRoot(x.Addr); g != nil && g.Name() != "init$guard" {
						if _, direct := x.Addr.(*ssa.Global); direct {
							m[g] = true // assigned as a whole: poisoned until the assignment runs
						} else if !m[g] {
							m[g] = false // written piecewise: starts from its zero value
						}
					}
				case *ssa.Call:
					if callee := x.Call.StaticCallee(); callee != nil && callee.Pkg == pkg {
						scan(callee, depth+1)
					}
					// a pointer into a global handed to a callee may be written through
					for _, a := range x.Call.Args {
						if g := globalRoot(a); g != nil && g.Name() != "init$guard" {
							if !m[g] {
								m[g] = false
							}
						}
					}
				case *ssa.MapUpdate:
					// writes into a global map read just before: find its load
					if u, ok := x.Map.(*ssa.UnOp); ok {
						if g, ok := u.X.(*ssa.Global); ok {
							m[g] = true
						}
					}
				}
			}
		}
	}
	scan(pkg.Func("init"), 0)
	e.initStores[pkg] = m
	return m
}

// foreignWritersOf returns the packages whose initializer assigns g although g
// belongs to another package (config.init filling config/bounds' allocbounds):
// natively those initializers have run before any harness code, so the lazy
// initialisation has to run them too before g is first read.
func (e *Engine) foreignWritersOf(g *ssa.Global) []*ssa.Package {
	if e.foreignWriters == nil {
		e.foreignWriters = map[*ssa.Global][]*ssa.Package{}
		for _, pkg := range e.prog.AllPackages() {
			if pkg.Pkg.Path() == vrPkg || pkg.Func("init") == nil {
				continue
			}
			for og := range e.initStoresOf(pkg) {
				if og.Pkg != nil && og.Pkg != pkg {
					e.foreignWriters[og] = append(e.foreignWriters[og], pkg)
				}
			}
		}
	}
	if os.Getenv("VERIF_DEBUG_INIT") != "" {
		fmt.Fprintf(os.Stderr, "foreignWriters(%s) = %v (index %d)\n", g, e.foreignWriters[g], len(e.foreignWriters))
	}
	return e.foreignWriters[g]
}

func (e *Engine) lenient(st *State) bool {
	return len(st.frames) > 0 && st.top().lenient
}

func (e *Engine) lenientAny(st *State) bool {
	for _, f := range st.frames {
		if f.lenient {
			return true
		}
	}
	return false
}

// abortInit: an unsupported operation inside a package initializer. The
// outermost call made by the initializer returns poison and initialisation
// continues; if the initializer's own instruction is unsupported its value is
// poisoned. Globals never assigned stay poisoned.
func (e *Engine) abortInit(st *State, why string) {
	e.rep.Models["package init: unsupported operation poisoned ("+why+")"]++
	st.panicking = nil
	k := -1
	for i := len(st.frames) - 1; i >= 0; i-- {
		if st.frames[i].ret == retInit {
			k = i
			break
		}
	}
	if k < 0 {
		st.frames = st.frames[:0]
		return
	}
	if len(st.frames)-1 > k {
		callee := st.frames[k+1]
		st.frames = st.frames[:k+1]
		var res Value = &PoisonV{why}
		if callee.fn != nil {
			if n := callee.fn.Signature.Results().Len(); n > 1 {
				tv := &TupleV{E: make([]Value, n)}
				for i := range tv.E {
					tv.E[i] = &PoisonV{why}
				}
				res = tv
			}
		}
		e.finishCall(st, callee.ret, res)
		return
	}
	fr := st.frames[k]
	in := fr.block.Instrs[fr.ip]
	switch x := in.(type) {
	case *ssa.If, *ssa.Jump, *ssa.Return, *ssa.Panic:
		// cannot continue: give up on the rest of this initializer
		st.frames = st.frames[:k]
		return
	case ssa.Value:
		var res Value = &PoisonV{why}
		if tup, ok := x.Type().(*types.Tuple); ok {
			tv := &TupleV{E: make([]Value, tup.Len())}
			for i := range tv.E {
				tv.E[i] = &PoisonV{why}
			}
			res = tv
		}
		e.set(fr, x, res)
	}
	fr.ip++
}

func deref(t types.Type) types.Type {
	return t.Underlying().(*types.Pointer).Elem()
}

// globalPtr returns the address of g, allocating it and running its package
// initializer lazily (the current instruction is then re-executed).
func (e *Engine) globalPtr(st *State, g *ssa.Global) Value {
	if id, ok := st.globals[g]; ok {
		return &PtrV{Obj: id}
	}
	pkg := g.Pkg
	if pkg != nil && !st.inited[pkg] && pkg.Pkg.Path() != vrPkg {
		stores := e.initStoresOf(pkg)
		if _, touched := stores[g]; touched {
			e.runInit(st, pkg)
			panic(sigRetry{})
		}
	}
	if pkg != nil && pkg.Pkg.Path() != vrPkg && !e.lenientAny(st) {
		for _, w := range e.foreignWritersOf(g) {
			if !st.inited[w] {
				e.runInit(st, w)
				panic(sigRetry{})
			}
		}
	}
	p := e.allocGlobal(st, g, false)
	return p
}

func (e *Engine) allocGlobal(st *State, g *ssa.Global, poison bool) *PtrV {
	if id, ok := st.globals[g]; ok {
		return &PtrV{Obj: id}
	}
	elem := deref(g.Type())
	var v Value
	if poison {
		v = &PoisonV{"global " + g.String() + " not initialised (initializer not executable)"}
	} else {
		v = e.zero(elem)
	}
	p := e.newObj(st, elem, v, g.String())
	st.globals[g] = p.Obj
	return p
}

type initSnap struct {
	objs    map[int]*Obj
	globals map[*ssa.Global]int
}

// snapshotInit records the heap effect of a completed package initializer so
// that other paths install it instead of re-executing (initializers are
// deterministic and run before any harness state exists in the real program).
func (e *Engine) snapshotInit(st *State, fr *Frame) {
	if fr.initPkg == nil {
		return
	}
	sn := &initSnap{objs: map[int]*Obj{}, globals: map[*ssa.Global]int{}}
	for id, o := range st.heap {
		if id > fr.initStart {
			sn.objs[id] = o
		}
	}
	foreign := e.initStoresOf(fr.initPkg)
	for g, id := range st.globals {
		if _, written := foreign[g]; g.Pkg == fr.initPkg || written {
			sn.globals[g] = id
			sn.objs[id] = st.heap[id]
		}
	}
	e.initCache[fr.initPkg] = sn
}

func (e *Engine) runInit(st *State, pkg *ssa.Package) {
	st.inited[pkg] = true
	initFn := pkg.Func("init")
	if initFn == nil || initFn.Blocks == nil {
		return
	}
	if sn, ok := e.initCache[pkg]; ok {
		for id, o := range sn.objs {
			if _, have := st.heap[id]; !have {
				st.heap[id] = o
			}
		}
		for g, id := range sn.globals {
			if _, have := st.globals[g]; !have {
				st.globals[g] = id
			}
		}
		return
	}
	for g, direct := range e.initStoresOf(pkg) {
		if g.Pkg == pkg && direct {
			if _, ok := st.globals[g]; !ok {
				e.allocGlobal(st, g, true)
			}
		}
	}
	// the guard variable: mark as not yet run so the body executes
	e.rep.Models["package initializer executed: "+pkg.Pkg.Path()]++
	fr := e.pushFrame(st, initFn, nil, retInit)
	fr.lenient = true
	fr.initPkg = pkg
	fr.initStart = e.objSeq
}

// globalRoot returns the global that an address expression points into, if any.
func globalRoot(v ssa.Value) *ssa.Global {
	for {
		switch x := v.(type) {
		case *ssa.Global:
			return x
		case *ssa.FieldAddr:
			v = x.X
		case *ssa.IndexAddr:
			v = x.X
		default:
			return nil
		}
	}
}
