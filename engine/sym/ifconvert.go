package sym

import (
	"go/token"
	"go/types"
	"sync"

	"golang.org/x/tools/go/ssa"
)

// If-conversion: a branch on a symbolic condition whose arms are side-effect
// free and rejoin at the immediate post-dominator is evaluated on both sides
// and merged with ite, instead of forking the path.

type pdInfo struct {
	ipdom map[*ssa.BasicBlock]*ssa.BasicBlock
}

var pdCache sync.Map

func postDoms(fn *ssa.Function) *pdInfo {
	if v, ok := pdCache.Load(fn); ok {
		return v.(*pdInfo)
	}
	n := len(fn.Blocks)
	// pdom sets as bitsets over block indices, plus virtual exit = n
	full := make([]bool, n+1)
	for i := range full {
		full[i] = true
	}
	pd := make([][]bool, n+1)
	for i := 0; i <= n; i++ {
		pd[i] = append([]bool(nil), full...)
	}
	pd[n] = make([]bool, n+1)
	pd[n][n] = true
	succs := func(b *ssa.BasicBlock) []int {
		if len(b.Succs) == 0 {
			return []int{n}
		}
		r := make([]int, len(b.Succs))
		for i, s := range b.Succs {
			r[i] = s.Index
		}
		return r
	}
	changed := true
	for changed {
		changed = false
		for i := n - 1; i >= 0; i-- {
			b := fn.Blocks[i]
			nw := make([]bool, n+1)
			first := true
			for _, s := range succs(b) {
				if first {
					copy(nw, pd[s])
					first = false
				} else {
					for k := range nw {
						nw[k] = nw[k] && pd[s][k]
					}
				}
			}
			nw[i] = true
			for k := range nw {
				if nw[k] != pd[i][k] {
					changed = true
					break
				}
			}
			pd[i] = nw
		}
	}
	info := &pdInfo{ipdom: map[*ssa.BasicBlock]*ssa.BasicBlock{}}
	for i := 0; i < n; i++ {
		// immediate post-dominator: the strict post-dominator that is post-dominated by all other strict post-dominators
		var best = -1
		for k := 0; k < n; k++ {
			if k == i || !pd[i][k] {
				continue
			}
			// k is ipdom if every other strict pdom j of i post-dominates k
			ok := true
			for j := 0; j < n; j++ {
				if j == i || j == k || !pd[i][j] {
					continue
				}
				if !pd[k][j] {
					ok = false
					break
				}
			}
			if ok {
				best = k
				break
			}
		}
		if best >= 0 {
			info.ipdom[fn.Blocks[i]] = fn.Blocks[best]
		}
	}
	pdCache.Store(fn, info)
	return info
}

type specCtx struct {
	e      *Engine
	st     *State
	fr     *Frame
	join   *ssa.BasicBlock
	nphi   int
	budget int
}

func (e *Engine) tryIfConvert(st *State, fr *Frame, x *ssa.If, c *Term) bool {
	if _, known := st.known[c.ID]; known {
		return false
	}
	if c.Op == OpNot {
		if _, known := st.known[c.Args[0].ID]; known {
			return false
		}
	}
	j := postDoms(fr.fn).ipdom[fr.block]
	if j == nil {
		return false
	}
	nphi := 0
	for _, in := range j.Instrs {
		if _, ok := in.(*ssa.Phi); ok {
			nphi++
		} else {
			break
		}
	}
	sc := &specCtx{e: e, st: st, fr: fr, join: j, nphi: nphi, budget: 48}
	vt, ok := sc.region(fr.block, fr.block.Succs[0], c, 0)
	if !ok {
		return false
	}
	vf, ok := sc.region(fr.block, fr.block.Succs[1], e.ts.Not(c), 0)
	if !ok {
		return false
	}
	merged := make([]Value, nphi)
	for i := 0; i < nphi; i++ {
		m, ok := e.mergeVal(c, vt[i], vf[i])
		if !ok {
			return false
		}
		merged[i] = m
	}
	for i := 0; i < nphi; i++ {
		e.set(fr, j.Instrs[i].(*ssa.Phi), merged[i])
	}
	fr.prev = fr.block
	fr.block = j
	fr.ip = nphi
	e.rep.Models["if-conversion of pure branch regions"]++
	return true
}

// region speculatively evaluates blk (entered from pred under path condition
// pc) up to the join; it returns the values flowing into the join's phis.
func (sc *specCtx) region(pred, blk *ssa.BasicBlock, pc *Term, depth int) ([]Value, bool) {
	e, st, fr := sc.e, sc.st, sc.fr
	if blk == sc.join {
		idx := -1
		for i, p := range blk.Preds {
			if p == pred {
				idx = i
				break
			}
		}
		if idx < 0 {
			return nil, false
		}
		out := make([]Value, sc.nphi)
		for i := 0; i < sc.nphi; i++ {
			out[i] = e.val(st, fr, blk.Instrs[i].(*ssa.Phi).Edges[idx])
		}
		return out, true
	}
	if depth > 4 || len(blk.Preds) != 1 {
		return nil, false
	}
	for _, in := range blk.Instrs {
		sc.budget--
		if sc.budget < 0 {
			return nil, false
		}
		switch x := in.(type) {
		case *ssa.Jump:
			return sc.region(blk, blk.Succs[0], pc, depth+1)
		case *ssa.If:
			cv, ok := e.val(st, fr, x.Cond).(*Term)
			if !ok {
				return nil, false
			}
			vt, ok := sc.region(blk, blk.Succs[0], e.ts.And(pc, cv), depth+1)
			if !ok {
				return nil, false
			}
			vf, ok := sc.region(blk, blk.Succs[1], e.ts.And(pc, e.ts.Not(cv)), depth+1)
			if !ok {
				return nil, false
			}
			out := make([]Value, sc.nphi)
			for i := range out {
				m, ok := e.mergeVal(cv, vt[i], vf[i])
				if !ok {
					return nil, false
				}
				out[i] = m
			}
			return out, true
		case *ssa.DebugRef:
		default:
			v, ok := sc.pure(in, pc)
			if !ok {
				return nil, false
			}
			e.set(fr, in.(ssa.Value), v)
		}
	}
	return nil, false
}

// safe: cond certainly holds whenever this arm is taken.
func (sc *specCtx) safe(cond, pc *Term) bool {
	if cond.IsTrue() {
		return true
	}
	if cond.IsFalse() {
		return false
	}
	return sc.e.feasible(sc.st, sc.e.ts.And(pc, sc.e.ts.Not(cond))) == Unsat
}

func (sc *specCtx) pure(in ssa.Instruction, pc *Term) (v Value, ok bool) {
	e, st, fr := sc.e, sc.st, sc.fr
	defer func() {
		if r := recover(); r != nil {
			switch r.(type) {
			case sigUnsupported, sigRetry, sigDead:
				v, ok = nil, false
			default:
				panic(r)
			}
		}
	}()
	ts := e.ts
	switch x := in.(type) {
	case *ssa.BinOp:
		a, b := e.val(st, fr, x.X), e.val(st, fr, x.Y)
		switch x.Op {
		case token.QUO, token.REM:
			d, isT := b.(*Term)
			if !isT || !sc.safe(ts.Ne(d, ts.BVu(0, d.W)), pc) {
				return nil, false
			}
			st2 := *st
			_ = st2
			// divisor proven non-zero under pc; evaluate without guard
			xt := a.(*Term)
			_, signed, _ := scalarWidth(x.X.Type())
			op := OpBvUdiv
			if x.Op == token.QUO && signed {
				op = OpBvSdiv
			} else if x.Op == token.REM && signed {
				op = OpBvSrem
			} else if x.Op == token.REM {
				op = OpBvUrem
			}
			return ts.Bin(op, xt, d), true
		case token.SHL, token.SHR:
			if _, ys, _ := scalarWidth(x.Y.Type()); ys {
				d, isT := b.(*Term)
				if !isT || !sc.safe(ts.Not(ts.Cmp(OpBvSlt, d, ts.BVu(0, d.W))), pc) {
					return nil, false
				}
				// treat as unsigned amount
				return e.binop(st, x.Op, a, b, x.X.Type(), types.Typ[types.Uint64]), true
			}
		}
		return e.binop(st, x.Op, a, b, x.X.Type(), x.Y.Type()), true
	case *ssa.UnOp:
		switch x.Op {
		case token.MUL:
			p, isP := e.val(st, fr, x.X).(*PtrV)
			if !isP || p.Obj == 0 {
				return nil, false
			}
			lv, err := e.load(st, p)
			if err != nil {
				return nil, false
			}
			return lv, true
		case token.ARROW:
			return nil, false
		}
		return e.unop(st, fr, x), true
	case *ssa.Convert:
		a := e.val(st, fr, x.X)
		if _, isT := a.(*Term); !isT {
			return nil, false
		}
		if _, _, okw := scalarWidth(x.Type()); !okw {
			return nil, false
		}
		return e.convert(st, a, x.X.Type(), x.Type()), true
	case *ssa.ChangeType:
		return e.val(st, fr, x.X), true
	case *ssa.ChangeInterface:
		return e.val(st, fr, x.X), true
	case *ssa.MakeInterface:
		return &IfaceV{T: x.X.Type(), V: e.val(st, fr, x.X)}, true
	case *ssa.Extract:
		tv, isT := e.val(st, fr, x.Tuple).(*TupleV)
		if !isT {
			return nil, false
		}
		return tv.E[x.Index], true
	case *ssa.Field:
		sv, isS := e.val(st, fr, x.X).(*StructV)
		if !isS {
			return nil, false
		}
		return sv.F[x.Field], true
	case *ssa.FieldAddr:
		p, isP := e.val(st, fr, x.X).(*PtrV)
		if !isP || p.Obj == 0 {
			return nil, false
		}
		return extendPath(p, PathElem{Field: x.Field}), true
	case *ssa.IndexAddr:
		base := e.val(st, fr, x.X)
		idx := st.resolve(e.idx64(st, fr, x.Index))
		switch b := base.(type) {
		case *PtrV:
			if b.Obj == 0 {
				return nil, false
			}
			n := int(x.X.Type().Underlying().(*types.Pointer).Elem().Underlying().(*types.Array).Len())
			if !sc.safe(e.inBounds(idx, n), pc) {
				return nil, false
			}
			return extendPath(b, PathElem{Field: -1, Idx: idx, Hi: n}), true
		case *SliceV:
			if b.Arr == nil || !sc.safe(e.inBounds(idx, b.Len), pc) {
				return nil, false
			}
			abs := ts.Bin(OpBvAdd, idx, ts.BVu(uint64(b.Off), 64))
			return extendPath(b.Arr, PathElem{Field: -1, Idx: abs, Lo: b.Off, Hi: b.Off + b.Len}), true
		}
		return nil, false
	case *ssa.Index:
		base := e.val(st, fr, x.X)
		idx := st.resolve(e.idx64(st, fr, x.Index))
		switch b := base.(type) {
		case *ArrayV:
			if !sc.safe(e.inBounds(idx, len(b.E)), pc) {
				return nil, false
			}
			r, err := e.getPath(st, b, []PathElem{{Field: -1, Idx: idx}})
			if err != nil {
				return nil, false
			}
			return r, true
		}
		return nil, false
	case *ssa.Call:
		if b, isB := x.Call.Value.(*ssa.Builtin); isB && (b.Name() == "len" || b.Name() == "cap") {
			args := []Value{e.val(st, fr, x.Call.Args[0])}
			return e.native(st, "builtin:"+b.Name(), args, &x.Call), true
		}
		return nil, false
	}
	return nil, false
}
