package sym

import (
	"fmt"
	"go/types"
	"strings"

	"golang.org/x/tools/go/ssa"
)

const vrPkg = "github.com/algorand/go-algorand/internal/verifrt"

func (e *Engine) prepareCall(st *State, fr *Frame, c *ssa.CallCommon) (Value, []Value) {
	if c.IsInvoke() {
		rv := e.val(st, fr, c.Value)
		iv, ok := rv.(*IfaceV)
		if !ok {
			e.poisonUse(rv)
		}
		e.guard(st, e.ts.Bool(iv.T != nil), "nil dereference")
		args := make([]Value, 0, len(c.Args)+1)
		args = append(args, iv.V)
		for _, a := range c.Args {
			args = append(args, e.val(st, fr, a))
		}
		if nt, ok := iv.T.(*types.Named); ok && nt.Obj().Pkg() == nil && e.noopT[nt.Obj().Name()] != nil {
			return &FuncV{Native: "iface:" + nt.Obj().Name() + "." + c.Method.Name()}, args
		}
		ms := e.prog.MethodSets.MethodSet(iv.T)
		sel := ms.Lookup(c.Method.Pkg(), c.Method.Name())
		if sel == nil {
			e.unsupported("method %s not found on %s", c.Method.Name(), iv.T)
		}
		fn := e.prog.MethodValue(sel)
		if fn == nil {
			e.unsupported("no method value for %s on %s", c.Method.Name(), iv.T)
		}
		return &FuncV{Fn: fn}, args
	}
	fv := e.val(st, fr, c.Value)
	args := make([]Value, len(c.Args))
	for i, a := range c.Args {
		args[i] = e.val(st, fr, a)
	}
	return fv, args
}

func (e *Engine) call(st *State, fr *Frame, in *ssa.Call, c *ssa.CallCommon) {
	fv, args := e.prepareCall(st, fr, c)
	e.invoke(st, fv, args, retNormal, c)
}

func fnKey(fn *ssa.Function) string {
	if o := fn.Origin(); o != nil {
		return o.String()
	}
	return fn.String()
}

// invoke calls a function value; results are delivered according to rk.
func (e *Engine) invoke(st *State, fv Value, args []Value, rk retKind, c *ssa.CallCommon) {
	f, ok := fv.(*FuncV)
	if !ok {
		e.poisonUse(fv)
	}
	if f.Native != "" {
		res := e.native(st, f.Native, args, c)
		e.finishCall(st, rk, res)
		return
	}
	if f.Fn == nil {
		e.startPanic(st, &PanicInfo{Kind: "nil func call", Where: e.where(st), Val: e.rtErr("invalid memory address or nil pointer dereference")})
		return
	}
	fn := f.Fn
	name := fn.String()
	key := fnKey(fn)
	if stub, ok := e.stubs[key]; ok && (len(st.frames) == 0 || st.top().fn != stub) {
		e.rep.Models["stub "+key+" = "+stub.Name()]++
		fn = stub
		name = stub.String()
		key = name
	} else if stub, ok := e.stubs[name]; ok && (len(st.frames) == 0 || st.top().fn != stub) {
		e.rep.Models["stub "+name+" = "+stub.Name()]++
		fn = stub
		name = stub.String()
		key = name
	}
	for _, pre := range e.noops {
		if strings.HasPrefix(name, pre) {
			e.rep.Models["no-op stub for "+pre+"*"]++
			e.finishCall(st, rk, zeroResults(e, fn))
			return
		}
	}
	if fn.Pkg != nil && fn.Pkg.Pkg.Path() == vrPkg {
		res := e.intrinsic(st, fn.Name(), args, c)
		e.finishCall(st, rk, res)
		return
	}
	if fn.Synthetic == "package initializer" && len(st.frames) > 0 {
		// other packages' initializers are run lazily on first global access
		e.finishCall(st, rk, nil)
		return
	}
	if m, ok := models[key]; ok {
		e.rep.Models["model "+key]++
		res := m(e, st, args, c)
		if res == (Value)(sigPushed{}) {
			if top := st.top(); top.native != nil {
				top.ret = rk // the native continuation answers this call
			}
			return
		}
		e.finishCall(st, rk, res)
		return
	}
	if res, handled := e.modelByPattern(st, fn, key, args, c, rk); handled {
		if res == (Value)(sigPushed{}) {
			return
		}
		e.finishCall(st, rk, res)
		return
	}
	if fn.Blocks == nil {
		e.unsupported("call to function without body: %s", name)
	}
	if fn.Synthetic == "package initializer" && len(st.frames) > 0 {
		// other packages' initializers are run lazily on first global access
		e.finishCall(st, rk, nil)
		return
	}
	if rk == retNormal && !e.lenientAny(st) && e.callMerged(st, f, fn, args) {
		return
	}
	nf := e.pushFrame(st, fn, args, rk)
	if len(st.frames) >= 2 && st.frames[len(st.frames)-2].lenient {
		nf.lenient = true
	}
	for i, fvv := range fn.FreeVars {
		nf.env[nf.info.idx[fvv]] = f.Bind[i]
	}
	e.rep.FuncsEncoded[name]++
}

// sigPushed is returned by models that pushed a frame themselves.
type sigPushed struct{}

// ---------- builtins and engine-native functions ----------

func (e *Engine) native(st *State, name string, args []Value, c *ssa.CallCommon) Value {
	ts := e.ts
	switch name {
	case "builtin:len":
		switch x := args[0].(type) {
		case *SliceV:
			return ts.BVi(int64(x.Len), 64)
		case *StringV:
			return ts.BVi(int64(len(x.B)), 64)
		case *MapV:
			if x.Obj == 0 {
				return ts.BVi(0, 64)
			}
			return ts.BVi(int64(len(st.obj(x.Obj).Val.(*MapObj).E)), 64)
		case *ChanV:
			if x.Obj == 0 {
				return ts.BVi(0, 64)
			}
			return ts.BVi(int64(len(st.obj(x.Obj).Val.(*ChanObj).Buf)), 64)
		case *ArrayV:
			return ts.BVi(int64(len(x.E)), 64)
		case *PtrV:
			n := c.Args[0].Type().Underlying().(*types.Pointer).Elem().Underlying().(*types.Array).Len()
			return ts.BVi(n, 64)
		}
		e.poisonUse(args[0])
	case "builtin:cap":
		switch x := args[0].(type) {
		case *SliceV:
			return ts.BVi(int64(x.Cap), 64)
		case *ChanV:
			if x.Obj == 0 {
				return ts.BVi(0, 64)
			}
			return ts.BVi(int64(st.obj(x.Obj).Val.(*ChanObj).Cap), 64)
		case *ArrayV:
			return ts.BVi(int64(len(x.E)), 64)
		case *PtrV:
			n := c.Args[0].Type().Underlying().(*types.Pointer).Elem().Underlying().(*types.Array).Len()
			return ts.BVi(n, 64)
		}
		e.poisonUse(args[0])
	case "builtin:append":
		return e.appendOp(st, args, c)
	case "builtin:copy":
		return e.copyOp(st, args)
	case "builtin:delete":
		e.mapDelete(st, args[0].(*MapV), args[1])
		return nil
	case "builtin:panic":
		e.startPanic(st, &PanicInfo{Kind: "explicit", Where: e.where(st), Val: args[0]})
		panic(sigRetry{})
	case "builtin:recover":
		// legal when the caller frame is a deferred call run during unwinding
		if len(st.frames) >= 2 {
			top := st.top()
			below := st.frames[len(st.frames)-2]
			if top.ret == retUnwind && below.parked != nil {
				p := below.parked
				below.parked = nil
				below.recovered = true
				st.events = append(st.events, Event{Tag: "recovered:" + p.Kind})
				if p.Val == nil {
					return &IfaceV{}
				}
				if iv, ok := p.Val.(*IfaceV); ok {
					return iv
				}
				return &IfaceV{T: types.Typ[types.String], V: p.Val}
			}
		}
		return &IfaceV{}
	case "builtin:min", "builtin:max":
		t := c.Args[0].Type()
		_, signed, _ := scalarWidth(t)
		acc, ok := args[0].(*Term)
		if !ok {
			e.poisonUse(args[0])
		}
		for _, a := range args[1:] {
			y := a.(*Term)
			var lt *Term
			if signed {
				lt = ts.Cmp(OpBvSlt, y, acc)
			} else {
				lt = ts.Cmp(OpBvUlt, y, acc)
			}
			if name == "builtin:min" {
				acc = ts.Ite(lt, y, acc)
			} else {
				acc = ts.Ite(lt, acc, y)
			}
		}
		return acc
	case "builtin:clear":
		switch x := args[0].(type) {
		case *MapV:
			if x.Obj != 0 {
				st.setObj(x.Obj, &MapObj{})
			}
		case *SliceV:
			if x.Arr != nil {
				et := c.Args[0].Type().Underlying().(*types.Slice).Elem()
				z := e.zero(et)
				for i := 0; i < x.Len; i++ {
					e.storeC(st, extendPath(x.Arr, PathElem{Field: -1, Idx: ts.BVi(int64(x.Off+i), 64)}), z)
				}
			}
		}
		return nil
	case "builtin:close":
		ch := args[0].(*ChanV)
		if ch.Obj == 0 {
			e.startPanic(st, &PanicInfo{Kind: "close of nil channel", Where: e.where(st), Val: e.rtErr("close of nil channel")})
			panic(sigRetry{})
		}
		co := st.obj(ch.Obj).Val.(*ChanObj)
		if co.Closed {
			e.startPanic(st, &PanicInfo{Kind: "close of closed channel", Where: e.where(st), Val: e.rtErr("close of closed channel")})
			panic(sigRetry{})
		}
		nc := *co
		nc.Closed = true
		st.setObj(ch.Obj, &nc)
		return nil
	case "builtin:print", "builtin:println":
		return nil
	case "builtin:ssa:wrapnilchk":
		p := args[0].(*PtrV)
		e.guard(st, ts.Bool(p.Obj != 0), "nil dereference")
		return p
	}
	if strings.HasPrefix(name, "iface:") {
		return e.nativeIface(st, name[6:], args, c)
	}
	e.unsupported("native %s", name)
	return nil
}

func (e *Engine) appendOp(st *State, args []Value, c *ssa.CallCommon) Value {
	s, ok := args[0].(*SliceV)
	if !ok {
		e.poisonUse(args[0])
	}
	var add []Value
	switch x := args[1].(type) {
	case *SliceV:
		el, err := e.sliceElems(st, x)
		if err != nil {
			e.unsupported("append: %v", err)
		}
		add = el
	case *StringV:
		add = make([]Value, len(x.B))
		for i, b := range x.B {
			add[i] = b
		}
	default:
		e.poisonUse(args[1])
	}
	if len(add) == 0 {
		return s
	}
	et := c.Args[0].Type().Underlying().(*types.Slice).Elem()
	if s.Arr != nil && s.Len+len(add) <= s.Cap {
		for i, v := range add {
			e.storeC(st, extendPath(s.Arr, PathElem{Field: -1, Idx: e.ts.BVi(int64(s.Off+s.Len+i), 64)}), v)
		}
		return &SliceV{Arr: s.Arr, Off: s.Off, Len: s.Len + len(add), Cap: s.Cap}
	}
	old, err := e.sliceElems(st, s)
	if err != nil {
		e.unsupported("append: %v", err)
	}
	n := s.Len + len(add)
	nc := s.Cap * 2
	if nc < n {
		nc = n
	}
	if nc > n+1024 {
		nc = n + 1024
	}
	all := make([]Value, 0, n)
	all = append(all, old...)
	all = append(all, add...)
	return e.newSlice(st, et, all, nc)
}

func (e *Engine) copyOp(st *State, args []Value) Value {
	dst, ok := args[0].(*SliceV)
	if !ok {
		e.poisonUse(args[0])
	}
	var src []Value
	switch x := args[1].(type) {
	case *SliceV:
		el, err := e.sliceElems(st, x)
		if err != nil {
			e.unsupported("copy: %v", err)
		}
		src = append([]Value(nil), el...)
	case *StringV:
		src = make([]Value, len(x.B))
		for i, b := range x.B {
			src[i] = b
		}
	default:
		e.poisonUse(args[1])
	}
	n := min(dst.Len, len(src))
	if n > 0 {
		av := e.loadC(st, dst.Arr).(*ArrayV)
		na := &ArrayV{E: append([]Value(nil), av.E...)}
		copy(na.E[dst.Off:dst.Off+n], src[:n])
		e.storeC(st, dst.Arr, na)
	}
	return e.ts.BVi(int64(n), 64)
}

// ---------- maps ----------

func (e *Engine) mapObj(st *State, m *MapV) *MapObj {
	return st.obj(m.Obj).Val.(*MapObj)
}

// mapFind returns the index of the entry equal to key on this path, or -1.
func (e *Engine) mapFind(st *State, mo *MapObj, key Value) int {
	if p, ok := key.(*PoisonV); ok {
		e.poisonUse(p)
	}
	for i := range mo.E {
		eq := e.valEq(mo.E[i].K, key)
		if e.decide(st, eq) {
			return i
		}
	}
	return -1
}

func (e *Engine) lookup(st *State, fr *Frame, x *ssa.Lookup) Value {
	base := e.val(st, fr, x.X)
	if s, ok := base.(*StringV); ok {
		return e.strIndex(st, s, st.resolve(e.idx64(st, fr, x.Index)))
	}
	m, ok := base.(*MapV)
	if !ok {
		e.poisonUse(base)
	}
	vt := x.X.Type().Underlying().(*types.Map).Elem()
	var res Value
	found := false
	if m.Obj != 0 {
		mo := e.mapObj(st, m)
		if i := e.mapFind(st, mo, e.val(st, fr, x.Index)); i >= 0 {
			res = mo.E[i].V
			found = true
		}
	}
	if !found {
		res = e.zero(vt)
	}
	if x.CommaOk {
		return &TupleV{E: []Value{res, e.ts.Bool(found)}}
	}
	return res
}

func (e *Engine) mapUpdate(st *State, fr *Frame, x *ssa.MapUpdate) {
	m, ok := e.val(st, fr, x.Map).(*MapV)
	if !ok {
		e.poisonUse(e.val(st, fr, x.Map))
	}
	if m.Obj == 0 {
		e.startPanic(st, &PanicInfo{Kind: "assignment to entry in nil map", Where: e.where(st), Val: e.rtErr("assignment to entry in nil map")})
		panic(sigRetry{})
	}
	key := e.val(st, fr, x.Key)
	v := e.val(st, fr, x.Value)
	mo := e.mapObj(st, m)
	i := e.mapFind(st, mo, key)
	nm := &MapObj{E: append([]MapEntry(nil), mo.E...)}
	if i >= 0 {
		nm.E[i] = MapEntry{K: mo.E[i].K, V: v}
	} else {
		nm.E = append(nm.E, MapEntry{K: key, V: v})
	}
	st.setObj(m.Obj, nm)
}

func (e *Engine) mapDelete(st *State, m *MapV, key Value) {
	if m.Obj == 0 {
		return
	}
	mo := e.mapObj(st, m)
	i := e.mapFind(st, mo, key)
	if i < 0 {
		return
	}
	nm := &MapObj{E: make([]MapEntry, 0, len(mo.E)-1)}
	nm.E = append(nm.E, mo.E[:i]...)
	nm.E = append(nm.E, mo.E[i+1:]...)
	st.setObj(m.Obj, nm)
}

func (e *Engine) rangeIter(st *State, fr *Frame, x *ssa.Range) Value {
	base := e.val(st, fr, x.X)
	switch b := base.(type) {
	case *StringV:
		return &IterV{Str: b, IsStr: true}
	case *MapV:
		it := &IterV{}
		if b.Obj != 0 {
			mo := e.mapObj(st, b)
			order := e.mapOrder(st, len(mo.E))
			for _, i := range order {
				it.Keys = append(it.Keys, mo.E[i].K)
				it.Vals = append(it.Vals, mo.E[i].V)
			}
		}
		return it
	}
	e.poisonUse(base)
	return nil
}

// mapOrder gives the iteration order of a map with n entries. Default is
// insertion order; with MapPerm enabled all permutations of small maps are
// explored through a nondeterministic (concretized) choice.
func (e *Engine) mapOrder(st *State, n int) []int {
	order := make([]int, n)
	for i := range order {
		order[i] = i
	}
	return order
}

func (e *Engine) next(st *State, fr *Frame, x *ssa.Next) Value {
	it := e.val(st, fr, x.Iter).(*IterV)
	ts := e.ts
	if it.IsStr {
		if it.I >= len(it.Str.B) {
			return &TupleV{E: []Value{ts.False, ts.BVi(0, 64), ts.BVi(0, 32)}}
		}
		b := it.Str.B[it.I]
		if !b.IsConst() {
			// symbolic byte: only valid as ASCII
			e.guard(st, ts.Cmp(OpBvUlt, b, ts.BVu(0x80, 8)), "non-ASCII symbolic byte in range-over-string (unsupported)")
		} else if b.Val.Uint64() >= 0x80 {
			e.unsupported("range over non-ASCII string")
		}
		res := &TupleV{E: []Value{ts.True, ts.BVi(int64(it.I), 64), ts.Zext(b, 32)}}
		ni := *it
		ni.I++
		e.set(fr, x.Iter.(*ssa.Range), &ni)
		return res
	}
	mt := x.Iter.(*ssa.Range).X.Type().Underlying().(*types.Map)
	if it.I >= len(it.Keys) {
		return &TupleV{E: []Value{ts.False, e.zero(mt.Key()), e.zero(mt.Elem())}}
	}
	res := &TupleV{E: []Value{ts.True, it.Keys[it.I], it.Vals[it.I]}}
	ni := *it
	ni.I++
	e.set(fr, x.Iter.(*ssa.Range), &ni)
	return res
}

// ---------- channels (single-threaded semantics) ----------

func (e *Engine) chanSend(st *State, fr *Frame, chv, v Value) {
	ch, ok := chv.(*ChanV)
	if !ok {
		e.poisonUse(chv)
	}
	if ch.Obj == 0 {
		st.flag("unsupported", "send on nil channel blocks forever")
		panic(sigDead{"deadlock"})
	}
	co := st.obj(ch.Obj).Val.(*ChanObj)
	if co.Closed {
		e.startPanic(st, &PanicInfo{Kind: "send on closed channel", Where: e.where(st), Val: e.rtErr("send on closed channel")})
		panic(sigRetry{})
	}
	nc := *co
	nc.Buf = append(append([]Value(nil), co.Buf...), v)
	st.setObj(ch.Obj, &nc)
	st.events = append(st.events, Event{Tag: fmt.Sprintf("send:o%d", ch.Obj), Args: []Value{v}})
}

func (e *Engine) chanRecv(st *State, fr *Frame, chv Value, commaOk bool, t types.Type) Value {
	ch, ok := chv.(*ChanV)
	if !ok {
		e.poisonUse(chv)
	}
	if ch.Obj == 0 {
		st.flag("unsupported", "receive on nil channel blocks forever")
		panic(sigDead{"deadlock"})
	}
	co := st.obj(ch.Obj).Val.(*ChanObj)
	et := st.obj(ch.Obj).T.Underlying().(*types.Chan).Elem()
	if len(co.Buf) == 0 {
		if co.Closed {
			if commaOk {
				return &TupleV{E: []Value{e.zero(et), e.ts.False}}
			}
			return e.zero(et)
		}
		st.flag("unsupported", "receive on empty channel (would block in sequential model) @ "+e.where(st))
		panic(sigDead{"deadlock"})
	}
	v := co.Buf[0]
	nc := *co
	nc.Buf = append([]Value(nil), co.Buf[1:]...)
	st.setObj(ch.Obj, &nc)
	if commaOk {
		return &TupleV{E: []Value{v, e.ts.True}}
	}
	return v
}

func (e *Engine) selectOp(st *State, fr *Frame, x *ssa.Select) {
	// ready cases in the sequential model: a recv on a non-empty or closed
	// channel, any send on an open channel. All ready cases are explored.
	type rc struct{ i int }
	var ready []int
	for i, s := range x.States {
		ch, ok := e.val(st, fr, s.Chan).(*ChanV)
		if !ok || ch.Obj == 0 {
			continue
		}
		co := st.obj(ch.Obj).Val.(*ChanObj)
		if s.Dir == types.RecvOnly {
			if len(co.Buf) > 0 || co.Closed {
				ready = append(ready, i)
			}
		} else {
			ready = append(ready, i)
		}
	}
	ts := e.ts
	choice := -1
	if len(ready) == 0 {
		if !x.Blocking {
			choice = -1
		} else {
			st.flag("unsupported", "blocking select with no ready case (sequential model) @ "+e.where(st))
			panic(sigDead{"deadlock"})
		}
	} else if len(ready) == 1 {
		choice = ready[0]
	} else {
		// nondeterministic choice among ready cases
		name := fmt.Sprintf("select@%s#%d", e.where(st), st.seq["select"])
		v := ts.Var(name, 8)
		for k := 0; k < len(ready)-1; k++ {
			if e.decide(st, ts.Eq(v, ts.BVu(uint64(k), 8))) {
				choice = ready[k]
				break
			}
		}
		if choice < 0 {
			choice = ready[len(ready)-1]
		}
		st.seq["select"]++
		st.nondets = append(st.nondets, NondetRec{Var: v, Label: "select", Kind: "u8"})
	}
	// result tuple: (index, recvOk, r_0..r_n-1)
	res := &TupleV{E: []Value{ts.BVi(int64(choice), 64), ts.False}}
	for i, s := range x.States {
		if s.Dir != types.RecvOnly {
			continue
		}
		et := s.Chan.Type().Underlying().(*types.Chan).Elem()
		if i == choice {
			r := e.chanRecv(st, fr, e.val(st, fr, s.Chan), true, nil).(*TupleV)
			res.E = append(res.E, r.E[0])
			res.E[1] = r.E[1]
		} else {
			res.E = append(res.E, e.zero(et))
		}
	}
	if choice >= 0 && x.States[choice].Dir == types.SendOnly {
		e.chanSend(st, fr, e.val(st, fr, x.States[choice].Chan), e.val(st, fr, x.States[choice].Send))
	}
	e.set(fr, x, res)
}
