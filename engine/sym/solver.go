package sym

import (
	"bufio"
	"bytes"
	"context"
	"fmt"
	"io"
	"math/big"
	"os"
	"os/exec"
	"runtime"
	"strings"
	"sync"
	"time"
)

type Result int

const (
	Unsat Result = iota
	Sat
	Unknown
)

func (r Result) String() string {
	return [...]string{"unsat", "sat", "unknown"}[r]
}

type SolverStats struct {
	Queries      int
	Sat          int
	UnsatN       int
	UnknownN     int
	Fallbacks    int
	FallbackBy   map[string]int
	CrossChecked int
	HardDirect   int
	EncodeTime   time.Duration
	BytesSent    int64
	Time         time.Duration
	FallbackTime time.Duration
	Errors       []string
}

// Solver drives one long-lived `z3 -in` process, with an assertion stack
// mirroring the current path condition, and a one-shot portfolio fallback.
type Solver struct {
	ts        *TermStore
	cmd       *exec.Cmd
	in        io.WriteCloser
	out       *bufio.Reader
	stack     []*Term        // one asserted term per level
	defs      []map[int]bool // term ids defined at each level (index 0 = base)
	defined   map[int]bool
	TimeoutMS int
	Stats     SolverStats
	DumpDir   string
	CrossN    int // cross-check 1 in N unsat answers (0 = never)
	unsatSeen int
	hard      map[int]bool
	log       *os.File
}

func NewSolver(ts *TermStore, timeoutMS int) (*Solver, error) {
	s := &Solver{ts: ts, TimeoutMS: timeoutMS}
	s.Stats.FallbackBy = map[string]int{}
	if err := s.start(); err != nil {
		return nil, err
	}
	return s, nil
}

func (s *Solver) start() error {
	s.cmd = exec.Command("z3", "-in", "-smt2")
	var err error
	s.in, err = s.cmd.StdinPipe()
	if err != nil {
		return err
	}
	op, err := s.cmd.StdoutPipe()
	if err != nil {
		return err
	}
	s.cmd.Stderr = nil
	s.out = bufio.NewReaderSize(op, 1<<16)
	if err := s.cmd.Start(); err != nil {
		return err
	}
	s.stack = nil
	s.defs = []map[int]bool{{}}
	s.defined = map[int]bool{}
	if p := os.Getenv("VERIF_SOLVER_LOG"); p != "" && s.log == nil {
		s.log, _ = os.Create(fmt.Sprintf("%s.%d", p, os.Getpid()))
	}
	s.send("(set-option :print-success false)")
	s.send(fmt.Sprintf("(set-option :timeout %d)", s.TimeoutMS))
	return nil
}

func (s *Solver) Close() {
	if s.cmd != nil && s.cmd.Process != nil {
		s.in.Close()
		s.cmd.Process.Kill()
		s.cmd.Wait()
	}
}

func (s *Solver) restart() {
	s.Close()
	if err := s.start(); err != nil {
		panic(err)
	}
}

func (s *Solver) send(line string) {
	if s.log != nil {
		fmt.Fprintln(s.log, line)
	}
	s.Stats.BytesSent += int64(len(line) + 1)
	io.WriteString(s.in, line)
	io.WriteString(s.in, "\n")
}

func quoteName(n string) string { return "|" + n + "|" }

func (s *Solver) termName(t *Term) string {
	switch t.Op {
	case OpConst:
		return constStr(t)
	case OpVar:
		return quoteName(t.Name)
	}
	return fmt.Sprintf("t%d", t.ID)
}

// define emits definitions for t and everything below it (iteratively, to
// survive very deep terms).
func (s *Solver) define(t *Term) {
	type fr struct {
		t *Term
		i int
	}
	if t.Op == OpConst || s.defined[t.ID] {
		return
	}
	stack := []fr{{t, 0}}
	for len(stack) > 0 {
		f := &stack[len(stack)-1]
		if f.t.Op == OpConst || s.defined[f.t.ID] {
			stack = stack[:len(stack)-1]
			continue
		}
		if f.i < len(f.t.Args) {
			a := f.t.Args[f.i]
			f.i++
			if a.Op != OpConst && !s.defined[a.ID] {
				stack = append(stack, fr{a, 0})
			}
			continue
		}
		cur := f.t
		stack = stack[:len(stack)-1]
		if cur.Op == OpVar {
			s.send(fmt.Sprintf("(declare-const %s %s)", quoteName(cur.Name), sortOf(cur)))
		} else {
			args := make([]string, len(cur.Args))
			for i, a := range cur.Args {
				args[i] = s.termName(a)
			}
			s.send(fmt.Sprintf("(define-fun t%d () %s %s)", cur.ID, sortOf(cur), cur.apply(args)))
		}
		s.defined[cur.ID] = true
		s.defs[len(s.defs)-1][cur.ID] = true
	}
}

func (s *Solver) push() {
	s.send("(push 1)")
	s.defs = append(s.defs, map[int]bool{})
}

// sync makes the solver's assertion stack equal to pc.
func (s *Solver) sync(pc []*Term) {
	n := 0
	for n < len(pc) && n < len(s.stack) && pc[n] == s.stack[n] {
		n++
	}
	for len(s.stack) > n {
		s.popLevel()
	}
	for i := n; i < len(pc); i++ {
		s.pushLevel(pc[i])
	}
}

func (s *Solver) pushLevel(t *Term) {
	s.push()
	s.define(t)
	s.send(fmt.Sprintf("(assert %s)", s.termName(t)))
	s.stack = append(s.stack, t)
}

func (s *Solver) popLevel() {
	s.popTracked()
	s.stack = s.stack[:len(s.stack)-1]
}

// popTracked pops one level and forgets definitions/declarations made in it.
func (s *Solver) popTracked() {
	s.send("(pop 1)")
	top := s.defs[len(s.defs)-1]
	for id := range top {
		delete(s.defined, id)
	}
	s.defs = s.defs[:len(s.defs)-1]
}

func (s *Solver) readLine() (string, error) {
	line, err := s.out.ReadString('\n')
	return strings.TrimSpace(line), err
}

func (s *Solver) readSexp() (string, error) {
	var sb strings.Builder
	depth := 0
	started := false
	inBar := false
	for {
		c, err := s.out.ReadByte()
		if err != nil {
			return sb.String(), err
		}
		sb.WriteByte(c)
		if c == '|' {
			inBar = !inBar
		}
		if inBar {
			continue
		}
		if c == '(' {
			depth++
			started = true
		} else if c == ')' {
			depth--
		}
		if started && depth == 0 {
			return sb.String(), nil
		}
		if !started && c == '\n' && strings.TrimSpace(sb.String()) != "" {
			return sb.String(), nil
		}
	}
}

// Check decides satisfiability of pc ∧ extra. If wantModel, a model for the
// given variables is returned on sat.
func (s *Solver) Check(pc []*Term, extra *Term, modelVars []*Term) (Result, Model) {
	t0 := time.Now()
	defer func() { s.Stats.Time += time.Since(t0) }()
	s.Stats.Queries++
	if s.hardQuery(pc, extra) {
		s.Stats.HardDirect++
		r, m := s.fallback(pc, extra, modelVars)
		s.count(r)
		return r, m
	}
	tSync := time.Now()
	s.sync(pc)
	s.push()
	if extra != nil {
		s.define(extra)
		s.send(fmt.Sprintf("(assert %s)", s.termName(extra)))
	}
	for _, v := range modelVars {
		s.define(v)
	}
	s.Stats.EncodeTime += time.Since(tSync)
	// the SAT-based QF_BV tactic: z3's incremental core takes seconds on 64-bit
	// adder/comparator queries that bit-blasting decides in milliseconds (measured)
	s.send("(check-sat-using qfbv)")
	line, err := s.readLine()
	for err == nil && line == "" {
		line, err = s.readLine()
	}
	res := Unknown
	var model Model
	switch {
	case err != nil:
		s.Stats.Errors = append(s.Stats.Errors, "solver io: "+err.Error())
		s.restart()
		res = Unknown
		r2, m2 := s.fallback(pc, extra, modelVars)
		s.count(r2)
		return r2, m2
	case line == "sat":
		res = Sat
	case line == "unsat":
		res = Unsat
	case line == "unknown" || line == "timeout":
		res = Unknown
	default:
		// z3 reports its own :timeout inside check-sat-using as an error line
		// ("tactic failed: canceled"): that is a timeout, answered by the portfolio
		// below; anything else is recorded and makes the run inconclusive
		if !strings.Contains(line, "canceled") && !strings.Contains(line, "timeout") {
			s.Stats.Errors = append(s.Stats.Errors, "solver said: "+line)
		}
		// drain: restart to be safe
		s.restart()
		r2, m2 := s.fallback(pc, extra, modelVars)
		s.count(r2)
		return r2, m2
	}
	if res == Sat && len(modelVars) > 0 {
		model = s.getModel(modelVars)
	}
	s.popTracked()
	if res == Unknown {
		res, model = s.fallback(pc, extra, modelVars)
	} else if res == Unsat && s.CrossN > 0 {
		s.unsatSeen++
		if s.unsatSeen%s.CrossN == 0 {
			r2, _ := s.oneShot("cvc5", pc, extra, nil, 20*time.Second)
			s.Stats.CrossChecked++
			if r2 == Sat {
				s.Stats.Errors = append(s.Stats.Errors, "SOLVER-DISAGREEMENT: z3 unsat, cvc5 sat")
			}
		}
	}
	s.count(res)
	return res, model
}

// hardQuery: nonlinear arithmetic of width >= 24 over two non-constant
// operands is sent straight to the portfolio (z3's bit-blaster stalls on it,
// the integer encoding of cvc5 usually does not).
func (s *Solver) hardQuery(pc []*Term, extra *Term) bool {
	if s.hard == nil {
		s.hard = map[int]bool{}
	}
	for _, p := range pc {
		if s.isHard(p) {
			return true
		}
	}
	return extra != nil && s.isHard(extra)
}

func (s *Solver) isHard(t *Term) bool {
	if v, ok := s.hard[t.ID]; ok {
		return v
	}
	h := false
	switch t.Op {
	case OpBvMul, OpBvUdiv, OpBvUrem, OpBvSdiv, OpBvSrem:
		if t.W >= 24 && !t.Args[0].IsConst() && !t.Args[1].IsConst() {
			h = true
		}
	}
	if !h {
		for _, a := range t.Args {
			if s.isHard(a) {
				h = true
				break
			}
		}
	}
	s.hard[t.ID] = h
	return h
}

func (s *Solver) count(r Result) {
	switch r {
	case Sat:
		s.Stats.Sat++
	case Unsat:
		s.Stats.UnsatN++
	default:
		s.Stats.UnknownN++
	}
}

func (s *Solver) getModel(vars []*Term) Model {
	m := Model{}
	// chunk to keep lines reasonable
	for i := 0; i < len(vars); i += 200 {
		j := i + 200
		if j > len(vars) {
			j = len(vars)
		}
		names := make([]string, 0, j-i)
		for _, v := range vars[i:j] {
			names = append(names, quoteName(v.Name))
		}
		s.send("(get-value (" + strings.Join(names, " ") + "))")
		txt, err := s.readSexp()
		if err != nil {
			s.Stats.Errors = append(s.Stats.Errors, "get-value io: "+err.Error())
			return m
		}
		parseValues(txt, m)
	}
	return m
}

// parseValues parses ((|n| #x..) (|m| true) ...) into m.
func parseValues(txt string, m Model) {
	i := 0
	n := len(txt)
	for i < n {
		// find a name start
		if txt[i] == '|' {
			j := strings.IndexByte(txt[i+1:], '|')
			if j < 0 {
				return
			}
			name := txt[i+1 : i+1+j]
			i = i + 1 + j + 1
			for i < n && (txt[i] == ' ' || txt[i] == '\n') {
				i++
			}
			// value until ')' at depth 0
			k := i
			depth := 0
			for k < n {
				if txt[k] == '(' {
					depth++
				}
				if txt[k] == ')' {
					if depth == 0 {
						break
					}
					depth--
				}
				k++
			}
			val := strings.TrimSpace(txt[i:k])
			m[name] = parseConst(val)
			i = k
			continue
		}
		i++
	}
}

func parseConst(v string) *big.Int {
	r := new(big.Int)
	switch {
	case v == "true":
		r.SetInt64(1)
	case v == "false":
		r.SetInt64(0)
	case strings.HasPrefix(v, "#x"):
		r.SetString(v[2:], 16)
	case strings.HasPrefix(v, "#b"):
		r.SetString(v[2:], 2)
	case strings.HasPrefix(v, "(_ bv"):
		f := strings.Fields(v[5:])
		r.SetString(f[0], 10)
	}
	return r
}

// Script renders pc ∧ extra as a standalone SMT-LIB2 script.
func (s *Solver) Script(pc []*Term, extra *Term, modelVars []*Term) string {
	var sb bytes.Buffer
	sb.WriteString("(set-logic ALL)\n")
	defined := map[int]bool{}
	var emit func(t *Term)
	emit = func(root *Term) {
		type fr struct {
			t *Term
			i int
		}
		stack := []fr{{root, 0}}
		for len(stack) > 0 {
			f := &stack[len(stack)-1]
			if f.t.Op == OpConst || defined[f.t.ID] {
				stack = stack[:len(stack)-1]
				continue
			}
			if f.i < len(f.t.Args) {
				a := f.t.Args[f.i]
				f.i++
				stack = append(stack, fr{a, 0})
				continue
			}
			cur := f.t
			stack = stack[:len(stack)-1]
			if cur.Op == OpVar {
				fmt.Fprintf(&sb, "(declare-const %s %s)\n", quoteName(cur.Name), sortOf(cur))
			} else {
				args := make([]string, len(cur.Args))
				for i, a := range cur.Args {
					args[i] = s.termName(a)
				}
				fmt.Fprintf(&sb, "(define-fun t%d () %s %s)\n", cur.ID, sortOf(cur), cur.apply(args))
			}
			defined[cur.ID] = true
		}
	}
	for _, v := range modelVars {
		emit(v)
	}
	for _, p := range pc {
		emit(p)
		fmt.Fprintf(&sb, "(assert %s)\n", s.termName(p))
	}
	if extra != nil {
		emit(extra)
		fmt.Fprintf(&sb, "(assert %s)\n", s.termName(extra))
	}
	sb.WriteString("(check-sat)\n")
	if len(modelVars) > 0 {
		for i := 0; i < len(modelVars); i += 200 {
			j := i + 200
			if j > len(modelVars) {
				j = len(modelVars)
			}
			names := []string{}
			for _, v := range modelVars[i:j] {
				names = append(names, quoteName(v.Name))
			}
			fmt.Fprintf(&sb, "(get-value (%s))\n", strings.Join(names, " "))
		}
	}
	return sb.String()
}

var fallbackSolvers = []struct {
	name string
	argv []string
}{
	{"cvc5-int", []string{"cvc5", "--lang=smt2", "--produce-models", "--solve-bv-as-int=sum"}},
	{"cvc5", []string{"cvc5", "--lang=smt2", "--produce-models"}},
	{"z3-new", []string{"z3-new", "-in", "-smt2"}},
	{"z3", []string{"z3", "-in", "-smt2"}},
}

// FallbackTimeout is the per-query cap of the portfolio back ends, in CPU
// seconds of each back end (enforced with RLIMIT_CPU); the wall-clock cap is
// the same figure stretched by the machine's load factor.
var FallbackTimeout = 150 * time.Second

// LoadFactor is max(1, min(6, 1-minute load average / CPUs)): how much longer
// than on an idle machine a CPU-bound job is expected to take right now.
func LoadFactor() float64 {
	b, err := os.ReadFile("/proc/loadavg")
	if err != nil {
		return 1
	}
	var l1 float64
	if _, err := fmt.Sscanf(string(b), "%f", &l1); err != nil {
		return 1
	}
	f := l1 / float64(runtime.NumCPU())
	if f < 1 {
		return 1
	}
	if f > 6 {
		return 6
	}
	return f
}

func (s *Solver) fallback(pc []*Term, extra *Term, modelVars []*Term) (Result, Model) {
	t0 := time.Now()
	defer func() { s.Stats.FallbackTime += time.Since(t0) }()
	s.Stats.Fallbacks++
	script := s.Script(pc, extra, modelVars)
	type ans struct {
		r    Result
		m    Model
		name string
	}
	ctx, cancel := context.WithTimeout(context.Background(), time.Duration(float64(FallbackTimeout)*LoadFactor()))
	defer cancel()
	ch := make(chan ans, len(fallbackSolvers))
	var wg sync.WaitGroup
	for _, fs := range fallbackSolvers {
		wg.Add(1)
		go func(name string, argv []string) {
			defer wg.Done()
			r, m := runOneShot(ctx, argv, script, len(modelVars) > 0)
			if r == Sat && len(modelVars) > 0 {
				// a sat verdict whose model lacks a requested variable is unusable
				for _, v := range modelVars {
					if _, ok := m[v.Name]; !ok {
						r, m = Unknown, nil
						break
					}
				}
			}
			ch <- ans{r, m, name}
		}(fs.name, fs.argv)
	}
	go func() { wg.Wait(); close(ch) }()
	for a := range ch {
		if a.r != Unknown {
			cancel()
			s.Stats.FallbackBy[a.name]++
			return a.r, a.m
		}
	}
	if s.DumpDir != "" {
		os.MkdirAll(s.DumpDir, 0o755)
		os.WriteFile(fmt.Sprintf("%s/unknown_%d.smt2", s.DumpDir, s.Stats.Queries), []byte(script), 0o644)
	}
	return Unknown, nil
}

func (s *Solver) oneShot(which string, pc []*Term, extra *Term, modelVars []*Term, d time.Duration) (Result, Model) {
	script := s.Script(pc, extra, modelVars)
	ctx, cancel := context.WithTimeout(context.Background(), time.Duration(float64(d)*LoadFactor()))
	defer cancel()
	for _, fs := range fallbackSolvers {
		if fs.name == which {
			return runOneShot(ctx, fs.argv, script, len(modelVars) > 0)
		}
	}
	return Unknown, nil
}

func runOneShot(ctx context.Context, argv []string, script string, wantModel bool) (Result, Model) {
	// CPU cap via the shell's ulimit so that an oversubscribed machine does not
	// turn a decidable query into "unknown"
	sh := fmt.Sprintf("ulimit -t %d; exec \"$@\"", int(FallbackTimeout/time.Second))
	cmd := exec.CommandContext(ctx, "sh", append([]string{"-c", sh, "sh"}, argv...)...)
	cmd.Stdin = strings.NewReader(script)
	var out bytes.Buffer
	cmd.Stdout = &out
	cmd.Run()
	txt := strings.TrimSpace(out.String())
	first := txt
	rest := ""
	if i := strings.Index(txt, "\n"); i >= 0 {
		first, rest = strings.TrimSpace(txt[:i]), txt[i+1:]
	}
	// an error before the verdict (e.g. a dropped assertion) makes it untrustworthy;
	// the get-value error after an unsat verdict is expected
	switch first {
	case "unsat":
		return Unsat, nil
	case "sat":
		m := Model{}
		if wantModel {
			if strings.Contains(rest, "(error") {
				return Unknown, nil
			}
			parseValues(rest, m)
		}
		return Sat, m
	}
	return Unknown, nil
}
