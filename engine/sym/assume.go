package sym

import "math/big"

// assumeHolds restricts the path to cond without forking: the complement is
// simply not explored. Returns false if cond is infeasible on this path.
func (e *Engine) assumeHolds(st *State, cond *Term) bool {
	if cond.IsTrue() {
		return true
	}
	if cond.IsFalse() {
		return false
	}
	if cond.Op == OpNot {
		inner := cond.Args[0]
		if k, ok := st.known[inner.ID]; ok {
			return k.IsFalse()
		}
	} else if k, ok := st.known[cond.ID]; ok {
		return k.IsTrue()
	}
	if e.cfg.Concrete != nil {
		panic("symbolic assumption in concrete mode")
	}
	r := e.feasible(st, cond)
	if r == Unsat {
		return false
	}
	if r == Unknown {
		st.flag("unknown", "feasibility of an assumption undecided by all solvers @ "+e.where(st))
	}
	if cond.Op == OpNot {
		st.known[cond.Args[0].ID] = e.ts.False
	} else {
		st.known[cond.ID] = e.ts.True
	}
	e.addPC(st, cond)
	return true
}

// extendWitnesses: v is a fresh variable not occurring in the path condition;
// every witness stays a witness when extended with v := val.
func (e *Engine) extendWitnesses(st *State, v, val *Term) {
	for i, w := range st.wit {
		nm := make(Model, len(w.m)+1)
		for k, x := range w.m {
			nm[k] = x
		}
		nm[v.Name] = val.Val
		nc := make(map[int]*big.Int, len(w.cache))
		for k, x := range w.cache {
			nc[k] = x
		}
		st.wit[i] = &Witness{m: nm, cache: nc}
	}
}
