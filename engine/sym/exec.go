package sym

import (
	"fmt"
	"go/constant"
	"go/token"
	"go/types"
	"math/big"

	"golang.org/x/tools/go/ssa"
)

func (e *Engine) pushFrame(st *State, fn *ssa.Function, args []Value, rk retKind) *Frame {
	if len(st.frames) > e.cfg.MaxDepth {
		st.flag("bound", "call depth exceeded @ "+fn.String())
		panic(sigDead{"bound-incomplete"})
	}
	if fn.Blocks == nil {
		e.unsupported("function without body: %s", fn.String())
	}
	fi := e.info(fn)
	fr := &Frame{fn: fn, info: fi, block: fn.Blocks[0], env: make([]Value, fi.n), ret: rk}
	for i, p := range fn.Params {
		if i < len(args) {
			fr.env[fi.idx[p]] = args[i]
		}
	}
	st.frames = append(st.frames, fr)
	return fr
}

func (e *Engine) constVal(c *ssa.Const) Value {
	t := c.Type()
	if c.Value == nil {
		return e.zero(t)
	}
	switch u := t.Underlying().(type) {
	case *types.Basic:
		if w, _ := intWidth(u); w == 0 {
			return e.ts.Bool(constant.BoolVal(c.Value))
		} else if w > 0 {
			v := constant.ToInt(c.Value)
			bi, ok := constant.Val(v).(*big.Int)
			if !ok {
				i64, _ := constant.Int64Val(v)
				if i64 == 0 {
					if u64, ok2 := constant.Uint64Val(v); ok2 {
						return e.ts.BVu(u64, w)
					}
				}
				return e.ts.BVi(i64, w)
			}
			return e.ts.BV(bi, w)
		}
		if u.Info()&types.IsString != 0 {
			return e.strConst(constant.StringVal(c.Value))
		}
		if u.Info()&types.IsFloat != 0 {
			f, _ := constant.Float64Val(c.Value)
			return &FloatV{F: f}
		}
	}
	return &PoisonV{"const of type " + t.String()}
}

func (e *Engine) val(st *State, fr *Frame, v ssa.Value) Value {
	switch x := v.(type) {
	case *ssa.Const:
		return e.constVal(x)
	case *ssa.Function:
		return &FuncV{Fn: x}
	case *ssa.Global:
		return e.globalPtr(st, x)
	case *ssa.Builtin:
		return &FuncV{Native: "builtin:" + x.Name()}
	}
	i, ok := fr.info.idx[v]
	if !ok {
		panic(fmt.Sprintf("no slot for %s in %s", v.Name(), fr.fn))
	}
	r := fr.env[i]
	if r == nil {
		panic(fmt.Sprintf("unset value %s (%T) in %s", v.Name(), v, fr.fn))
	}
	return r
}

func (e *Engine) term(st *State, fr *Frame, v ssa.Value) *Term {
	x := e.val(st, fr, v)
	t, ok := x.(*Term)
	if !ok {
		e.poisonUse(x)
	}
	return t
}

func (e *Engine) set(fr *Frame, v ssa.Value, x Value) {
	fr.env[fr.info.idx[v]] = x
}

// ---------- main step ----------

func (e *Engine) step(st *State) {
	if len(st.frames) == 0 {
		e.finishPath(st, "ok")
		return
	}
	if st.panicking != nil {
		e.unwind(st)
		return
	}
	fr := st.top()
	if fr.native != nil {
		done, res := fr.native.Resume(e, st, fr, nil)
		if done {
			e.returnFrom(st, res)
		}
		return
	}
	st.steps++
	if st.steps > e.cfg.MaxSteps {
		st.flag("bound", "step budget exhausted")
		panic(sigDead{"bound-incomplete"})
	}
	in := fr.block.Instrs[fr.ip]
	e.exec(st, fr, in)
}


func (e *Engine) jump(fr *Frame, to *ssa.BasicBlock) {
	fr.prev = fr.block
	fr.block = to
	fr.ip = 0
}

func (e *Engine) exec(st *State, fr *Frame, in ssa.Instruction) {
	ts := e.ts
	switch x := in.(type) {
	case *ssa.DebugRef:
	case *ssa.Alloc:
		et := x.Type().Underlying().(*types.Pointer).Elem()
		p := e.newObj(st, et, e.zero(et), x.Comment)
		e.set(fr, x, p)
	case *ssa.BinOp:
		e.set(fr, x, e.binop(st, x.Op, e.val(st, fr, x.X), e.val(st, fr, x.Y), x.X.Type(), x.Y.Type()))
	case *ssa.UnOp:
		e.set(fr, x, e.unop(st, fr, x))
	case *ssa.Phi:
		// all phis of a block are evaluated together against the incoming edge
		blk := fr.block
		var idx = -1
		for i, p := range blk.Preds {
			if p == fr.prev {
				idx = i
				break
			}
		}
		if idx < 0 {
			panic("phi: no pred")
		}
		n := 0
		for n+fr.ip < len(blk.Instrs) {
			if _, ok := blk.Instrs[fr.ip+n].(*ssa.Phi); !ok {
				break
			}
			n++
		}
		vals := make([]Value, n)
		for i := 0; i < n; i++ {
			ph := blk.Instrs[fr.ip+i].(*ssa.Phi)
			vals[i] = e.val(st, fr, ph.Edges[idx])
		}
		for i := 0; i < n; i++ {
			e.set(fr, blk.Instrs[fr.ip+i].(*ssa.Phi), vals[i])
		}
		fr.ip += n
		return
	case *ssa.Call:
		e.call(st, fr, x, x.Common())
		return
	case *ssa.ChangeInterface:
		e.set(fr, x, e.val(st, fr, x.X))
	case *ssa.ChangeType:
		e.set(fr, x, e.val(st, fr, x.X))
	case *ssa.Convert:
		e.set(fr, x, e.convert(st, e.val(st, fr, x.X), x.X.Type(), x.Type()))
	case *ssa.MultiConvert:
		e.set(fr, x, e.convert(st, e.val(st, fr, x.X), x.X.Type(), x.Type()))
	case *ssa.Extract:
		tv, ok := e.val(st, fr, x.Tuple).(*TupleV)
		if !ok {
			e.poisonUse(e.val(st, fr, x.Tuple))
		}
		e.set(fr, x, tv.E[x.Index])
	case *ssa.Field:
		sv, ok := e.val(st, fr, x.X).(*StructV)
		if !ok {
			e.poisonUse(e.val(st, fr, x.X))
		}
		e.set(fr, x, sv.F[x.Field])
	case *ssa.FieldAddr:
		p := e.ptr(st, fr, x.X)
		e.guard(st, ts.Bool(p.Obj != 0), "nil dereference")
		e.set(fr, x, extendPath(p, PathElem{Field: x.Field}))
	case *ssa.Index:
		e.set(fr, x, e.indexVal(st, fr, x))
	case *ssa.IndexAddr:
		e.set(fr, x, e.indexAddr(st, fr, x))
	case *ssa.Lookup:
		e.set(fr, x, e.lookup(st, fr, x))
	case *ssa.MakeChan:
		n := e.concreteInt(st, e.val(st, fr, x.Size))
		p := e.newObj(st, x.Type(), &ChanObj{Cap: n}, "chan")
		e.set(fr, x, &ChanV{Obj: p.Obj})
	case *ssa.MakeClosure:
		fn := x.Fn.(*ssa.Function)
		b := make([]Value, len(x.Bindings))
		for i, bv := range x.Bindings {
			b[i] = e.val(st, fr, bv)
		}
		e.set(fr, x, &FuncV{Fn: fn, Bind: b})
	case *ssa.MakeInterface:
		e.set(fr, x, &IfaceV{T: x.X.Type(), V: e.val(st, fr, x.X)})
	case *ssa.MakeMap:
		p := e.newObj(st, x.Type(), &MapObj{}, "map")
		e.set(fr, x, &MapV{Obj: p.Obj})
	case *ssa.MakeSlice:
		ln := e.concreteInt(st, e.val(st, fr, x.Len))
		cp := e.concreteInt(st, e.val(st, fr, x.Cap))
		if ln < 0 || cp < ln {
			e.startPanic(st, &PanicInfo{Kind: "makeslice: len out of range", Where: e.where(st), Val: e.rtErr("makeslice: len out of range")})
			return
		}
		if cp > 1<<22 {
			e.unsupported("make of %d elements", cp)
		}
		et := x.Type().Underlying().(*types.Slice).Elem()
		s := e.newSlice(st, et, nil, cp)
		s.Len = ln
		if cp == 0 {
			// non-nil empty slice
			s.Len = 0
		}
		e.set(fr, x, s)
	case *ssa.MapUpdate:
		e.mapUpdate(st, fr, x)
	case *ssa.Range:
		e.set(fr, x, e.rangeIter(st, fr, x))
	case *ssa.Next:
		e.set(fr, x, e.next(st, fr, x))
	case *ssa.Slice:
		e.set(fr, x, e.sliceOp(st, fr, x))
	case *ssa.SliceToArrayPointer:
		s := e.val(st, fr, x.X).(*SliceV)
		n := int(x.Type().Underlying().(*types.Pointer).Elem().Underlying().(*types.Array).Len())
		if s.Len < n {
			e.startPanic(st, &PanicInfo{Kind: "slice to array conversion", Where: e.where(st), Val: e.rtErr("cannot convert slice to array pointer")})
			return
		}
		if s.Arr == nil {
			e.set(fr, x, &PtrV{})
		} else {
			e.set(fr, x, e.subArrayPtr(st, s, n))
		}
	case *ssa.Store:
		p := e.ptr(st, fr, x.Addr)
		e.guard(st, ts.Bool(p.Obj != 0), "nil dereference")
		v := e.val(st, fr, x.Val)
		e.storeC(st, p, v)
	case *ssa.TypeAssert:
		e.typeAssert(st, fr, x)
	case *ssa.Defer:
		c := x.Common()
		d := deferRec{call: c}
		d.fn, d.args = e.prepareCall(st, fr, c)
		fr.defers = append(fr.defers, d)
	case *ssa.Go:
		// sequentialisation: run to completion at the spawn point
		e.rep.Assumptions["go statement sequentialised (callee runs to completion at spawn point)"]++
		c := x.Common()
		fn, args := e.prepareCall(st, fr, c)
		fr.ip++
		e.invoke(st, fn, args, retDiscardAdvance, c)
		return
	case *ssa.If:
		c := e.term(st, fr, x.Cond)
		if !c.IsConst() {
			if e.tryIfConvert(st, fr, x, c) {
				return
			}
		}
		if e.decide(st, c) {
			e.jump(fr, fr.block.Succs[0])
		} else {
			e.jump(fr, fr.block.Succs[1])
		}
		return
	case *ssa.Jump:
		e.jump(fr, fr.block.Succs[0])
		return
	case *ssa.Panic:
		v := e.val(st, fr, x.X)
		e.startPanic(st, &PanicInfo{Kind: "explicit", Where: e.where(st), Val: v})
		return
	case *ssa.Return:
		var res Value
		switch len(x.Results) {
		case 0:
		case 1:
			res = e.val(st, fr, x.Results[0])
		default:
			tv := &TupleV{E: make([]Value, len(x.Results))}
			for i, r := range x.Results {
				tv.E[i] = e.val(st, fr, r)
			}
			res = tv
		}
		e.returnFrom(st, res)
		return
	case *ssa.RunDefers:
		if len(fr.defers) > 0 {
			d := fr.defers[len(fr.defers)-1]
			fr.defers = fr.defers[:len(fr.defers)-1]
			e.invoke(st, d.fn, d.args, retDiscard, d.call)
			return
		}
	case *ssa.Select:
		e.selectOp(st, fr, x)
	case *ssa.Send:
		e.chanSend(st, fr, e.val(st, fr, x.Chan), e.val(st, fr, x.X))
	default:
		e.unsupported("instruction %T", in)
	}
	fr.ip++
}

const retDiscardAdvance = retKind(100)
const retInit = retKind(101)

func (e *Engine) rtErr(msg string) Value {
	return &IfaceV{T: e.runtimeErrorT(), V: e.strConst("runtime error: " + msg)}
}

func (e *Engine) ptr(st *State, fr *Frame, v ssa.Value) *PtrV {
	x := e.val(st, fr, v)
	p, ok := x.(*PtrV)
	if !ok {
		e.poisonUse(x)
	}
	return p
}

// storeC stores, concretizing an index if the merge is impossible.
func (e *Engine) storeC(st *State, p *PtrV, v Value) {
	for {
		err := e.store(st, p, v)
		if err == nil {
			return
		}
		if nc, ok := err.(*needConcrete); ok {
			e.concretize(st, nc.t)
			continue
		}
		e.unsupported("store: %v", err)
	}
}

func (e *Engine) loadC(st *State, p *PtrV) Value {
	for {
		v, err := e.load(st, p)
		if err == nil {
			return v
		}
		if nc, ok := err.(*needConcrete); ok {
			e.concretize(st, nc.t)
			continue
		}
		e.unsupported("load: %v", err)
	}
}

// ---------- returning ----------

func (e *Engine) returnFrom(st *State, res Value) {
	fr := st.top()
	if len(fr.defers) > 0 && fr.fn != nil {
		// a function with pending defers always reaches RunDefers before Return in SSA
	}
	st.frames = st.frames[:len(st.frames)-1]
	if fr.ret == retInit {
		e.snapshotInit(st, fr)
	}
	if fr.ret == retMerge {
		e.mergeReturn(st, fr, res)
		return
	}
	e.finishCall(st, fr.ret, res)
}

// finishCall delivers the result of a completed call (symbolic or native).
func (e *Engine) finishCall(st *State, rk retKind, res Value) {
	switch rk {
	case retTop:
		if len(st.frames) != 0 {
			panic("retTop with frames")
		}
		e.finishPath(st, "ok")
	case retNormal:
		caller := st.top()
		if caller.native != nil {
			done, r := caller.native.Resume(e, st, caller, orUnit(res))
			if done {
				e.returnFrom(st, r)
			}
			return
		}
		in := caller.block.Instrs[caller.ip]
		if v, ok := in.(ssa.Value); ok {
			e.set(caller, v, orUnit(res))
		}
		caller.ip++
	case retDiscard:
		// caller re-executes its current instruction (RunDefers)
	case retDiscardAdvance:
	case retInit:
		// package initializer finished; caller re-executes its instruction
	case retUnwind:
		caller := st.top()
		if caller.parked != nil {
			st.panicking = caller.parked
			caller.parked = nil
			return
		}
		e.afterRecover(st, caller)
	}
}

// afterRecover: the panic was recovered by a deferred call of fr; run the
// remaining deferred calls, then leave through the Recover block.
func (e *Engine) afterRecover(st *State, fr *Frame) {
	if len(fr.defers) > 0 {
		d := fr.defers[len(fr.defers)-1]
		fr.defers = fr.defers[:len(fr.defers)-1]
		e.invoke(st, d.fn, d.args, retUnwind, d.call)
		return
	}
	if fr.fn.Recover != nil {
		fr.prev = fr.block
		fr.block = fr.fn.Recover
		fr.ip = 0
		return
	}
	res := fr.fn.Signature.Results()
	var rv Value
	switch res.Len() {
	case 0:
	case 1:
		rv = e.zero(res.At(0).Type())
	default:
		rv = e.zero(res)
	}
	e.returnFrom(st, rv)
}

func orUnit(v Value) Value {
	if v == nil {
		return &TupleV{}
	}
	return v
}

// ---------- panics ----------

func (e *Engine) startPanic(st *State, p *PanicInfo) {
	st.panicking = p
}

// unwind runs deferred calls of the top frame, or pops it.
func (e *Engine) unwind(st *State) {
	if len(st.frames) == 0 {
		e.uncaught(st)
		return
	}
	fr := st.top()
	if fr.native != nil {
		st.frames = st.frames[:len(st.frames)-1]
		if fr.ret == retTop {
			e.uncaught(st)
		}
		return
	}
	if len(fr.defers) > 0 {
		d := fr.defers[len(fr.defers)-1]
		fr.defers = fr.defers[:len(fr.defers)-1]
		p := st.panicking
		st.panicking = nil // the deferred call runs normally; panic is parked in the frame
		fr.parked = p
		e.invoke(st, d.fn, d.args, retUnwind, d.call)
		return
	}
	// no more defers: pop this frame
	st.frames = st.frames[:len(st.frames)-1]
	if fr.ret == retTop || len(st.frames) == 0 {
		e.uncaught(st)
		return
	}
}

func (e *Engine) uncaught(st *State) {
	p := st.panicking
	if p.Assume {
		e.finishPath(st, "assume-false")
		return
	}
	if e.lenientAny(st) {
		e.finishPath(st, "init-panic")
		return
	}
	tag := "panic:" + p.Kind
	e.rep.Obligations++
	e.rep.ObligationTags["no-panic"]++
	if e.cfg.Concrete != nil {
		e.rep.Violations = append(e.rep.Violations, Violation{Tag: tag, Kind: "panic", Where: p.Where, Detail: describe(p.Val)})
		e.finishPath(st, "panic")
		return
	}
	if !e.violTags[tag+p.Where] {
		e.violTags[tag+p.Where] = true
		r, m := e.solver.Check(st.pc, nil, e.nondetVars(st))
		if r == Sat {
			e.rep.Violations = append(e.rep.Violations, Violation{Tag: tag, Kind: "panic", Where: p.Where, Model: m, Tape: e.tapeFromModel(st, m), Detail: describe(p.Val), UF: e.ufTable(st, m)})
		} else if r == Unknown {
			e.rep.Inconclusive = appendUniq(e.rep.Inconclusive, "panic path feasibility undecided @ "+p.Where)
		}
	}
	e.finishPath(st, "panic")
}


// ---------- operators ----------

func (e *Engine) unop(st *State, fr *Frame, x *ssa.UnOp) Value {
	ts := e.ts
	switch x.Op {
	case token.MUL: // load
		p := e.ptr(st, fr, x.X)
		e.guard(st, ts.Bool(p.Obj != 0), "nil dereference")
		v := e.loadC(st, p)
		return v
	case token.ARROW:
		return e.chanRecv(st, fr, e.val(st, fr, x.X), x.CommaOk, x.Type())
	}
	v := e.val(st, fr, x.X)
	if f, ok := v.(*FloatV); ok {
		if x.Op == token.SUB {
			return &FloatV{F: -f.F}
		}
	}
	t, ok := v.(*Term)
	if !ok {
		e.poisonUse(v)
	}
	switch x.Op {
	case token.NOT:
		return ts.Not(t)
	case token.SUB:
		return ts.BvNeg(t)
	case token.XOR:
		return ts.BvNot(t)
	}
	e.unsupported("unop %s", x.Op)
	return nil
}

func (e *Engine) binop(st *State, op token.Token, a, b Value, at, bt types.Type) Value {
	ts := e.ts
	switch op {
	case token.EQL:
		return e.eqVal(a, b)
	case token.NEQ:
		return ts.Not(e.eqVal(a, b))
	}
	if sa, ok := a.(*StringV); ok {
		sb, ok := b.(*StringV)
		if !ok {
			e.poisonUse(b)
		}
		switch op {
		case token.ADD:
			r := &StringV{B: make([]*Term, 0, len(sa.B)+len(sb.B))}
			r.B = append(r.B, sa.B...)
			r.B = append(r.B, sb.B...)
			return r
		case token.LSS:
			return e.strLess(sa, sb, false)
		case token.LEQ:
			return e.strLess(sa, sb, true)
		case token.GTR:
			return e.strLess(sb, sa, false)
		case token.GEQ:
			return e.strLess(sb, sa, true)
		}
	}
	if fa, ok := a.(*FloatV); ok {
		fb, ok := b.(*FloatV)
		if !ok {
			e.poisonUse(b)
		}
		switch op {
		case token.ADD:
			return &FloatV{fa.F + fb.F}
		case token.SUB:
			return &FloatV{fa.F - fb.F}
		case token.MUL:
			return &FloatV{fa.F * fb.F}
		case token.QUO:
			return &FloatV{fa.F / fb.F}
		case token.LSS:
			return ts.Bool(fa.F < fb.F)
		case token.LEQ:
			return ts.Bool(fa.F <= fb.F)
		case token.GTR:
			return ts.Bool(fa.F > fb.F)
		case token.GEQ:
			return ts.Bool(fa.F >= fb.F)
		}
	}
	x, ok := a.(*Term)
	if !ok {
		e.poisonUse(a)
	}
	y, ok := b.(*Term)
	if !ok {
		e.poisonUse(b)
	}
	_, signed, _ := scalarWidth(at)
	if x.W == 0 {
		switch op {
		case token.AND, token.LAND:
			return ts.And(x, y)
		case token.OR, token.LOR:
			return ts.Or(x, y)
		case token.XOR:
			return ts.Not(ts.Eq(x, y))
		}
		e.unsupported("bool binop %s", op)
	}
	switch op {
	case token.ADD:
		return ts.Bin(OpBvAdd, x, y)
	case token.SUB:
		return ts.Bin(OpBvSub, x, y)
	case token.MUL:
		return ts.Bin(OpBvMul, x, y)
	case token.QUO:
		e.guard(st, ts.Ne(y, ts.BVu(0, y.W)), "integer divide by zero")
		if signed {
			return ts.Bin(OpBvSdiv, x, y)
		}
		return ts.Bin(OpBvUdiv, x, y)
	case token.REM:
		e.guard(st, ts.Ne(y, ts.BVu(0, y.W)), "integer divide by zero")
		if signed {
			return ts.Bin(OpBvSrem, x, y)
		}
		return ts.Bin(OpBvUrem, x, y)
	case token.AND:
		return ts.Bin(OpBvAnd, x, y)
	case token.OR:
		return ts.Bin(OpBvOr, x, y)
	case token.XOR:
		return ts.Bin(OpBvXor, x, y)
	case token.AND_NOT:
		return ts.Bin(OpBvAnd, x, ts.BvNot(y))
	case token.SHL, token.SHR:
		_, ysigned, _ := scalarWidth(bt)
		if ysigned {
			e.guard(st, ts.Not(ts.Cmp(OpBvSlt, y, ts.BVu(0, y.W))), "negative shift amount")
		}
		// bring the shift amount to x's width, saturating
		var amt *Term
		var over *Term
		if y.W > x.W {
			over = ts.Not(ts.Cmp(OpBvUlt, y, ts.BVu(uint64(x.W), y.W)))
			amt = ts.Extract(y, x.W-1, 0)
		} else {
			amt = ts.Zext(y, x.W)
			over = ts.Not(ts.Cmp(OpBvUlt, amt, ts.BVu(uint64(x.W), x.W)))
			if x.W > 0 && (1<<uint(min(y.W, 62))) <= x.W {
				over = ts.False
			}
		}
		var sh, ov *Term
		if op == token.SHL {
			sh = ts.Bin(OpBvShl, x, amt)
			ov = ts.BVu(0, x.W)
		} else if signed {
			sh = ts.Bin(OpBvAshr, x, amt)
			ov = ts.Bin(OpBvAshr, x, ts.BVu(uint64(x.W-1), x.W))
		} else {
			sh = ts.Bin(OpBvLshr, x, amt)
			ov = ts.BVu(0, x.W)
		}
		return ts.Ite(over, ov, sh)
	case token.LSS:
		if signed {
			return ts.Cmp(OpBvSlt, x, y)
		}
		return ts.Cmp(OpBvUlt, x, y)
	case token.LEQ:
		if signed {
			return ts.Cmp(OpBvSle, x, y)
		}
		return ts.Cmp(OpBvUle, x, y)
	case token.GTR:
		if signed {
			return ts.Cmp(OpBvSlt, y, x)
		}
		return ts.Cmp(OpBvUlt, y, x)
	case token.GEQ:
		if signed {
			return ts.Cmp(OpBvSle, y, x)
		}
		return ts.Cmp(OpBvUle, y, x)
	}
	e.unsupported("binop %s", op)
	return nil
}

func (e *Engine) eqVal(a, b Value) *Term {
	if p, ok := a.(*PoisonV); ok {
		e.poisonUse(p)
	}
	if p, ok := b.(*PoisonV); ok {
		e.poisonUse(p)
	}
	return e.valEq(a, b)
}

// strLess: lexicographic a < b (or <=).
func (e *Engine) strLess(a, b *StringV, orEq bool) *Term {
	ts := e.ts
	n := min(len(a.B), len(b.B))
	// result at end (all common bytes equal): len(a) < len(b) (or <=)
	var r *Term
	if orEq {
		r = ts.Bool(len(a.B) <= len(b.B))
	} else {
		r = ts.Bool(len(a.B) < len(b.B))
	}
	for i := n - 1; i >= 0; i-- {
		r = ts.Ite(ts.Eq(a.B[i], b.B[i]), r, ts.Cmp(OpBvUlt, a.B[i], b.B[i]))
	}
	return r
}

func (e *Engine) convert(st *State, v Value, from, to types.Type) Value {
	ts := e.ts
	fu, tu := from.Underlying(), to.Underlying()
	if tw, _, ok := scalarWidth(to); ok && tw > 0 {
		if t, ok := v.(*Term); ok {
			_, fs, _ := scalarWidth(from)
			return ts.Resize(t, tw, fs)
		}
		if f, ok := v.(*FloatV); ok {
			_, tsg, _ := scalarWidth(to)
			if tsg {
				return ts.BVi(int64(f.F), tw)
			}
			return ts.BVu(uint64(f.F), tw)
		}
		e.poisonUse(v)
	}
	if isFloat(to) {
		switch x := v.(type) {
		case *FloatV:
			if b, ok := tu.(*types.Basic); ok && b.Kind() == types.Float32 {
				return &FloatV{F: float64(float32(x.F))}
			}
			return x
		case *Term:
			if x.IsConst() {
				_, fs, _ := scalarWidth(from)
				if fs {
					return &FloatV{F: float64(x.Int64())}
				}
				return &FloatV{F: float64(x.Uint64())}
			}
			return &PoisonV{"float conversion of symbolic integer"}
		}
		e.poisonUse(v)
	}
	if isString(to) {
		switch x := v.(type) {
		case *StringV:
			return x
		case *SliceV:
			// []byte or []rune -> string
			if sl, ok := fu.(*types.Slice); ok {
				if b, ok := sl.Elem().Underlying().(*types.Basic); ok && b.Kind() == types.Uint8 {
					elems, err := e.sliceElems(st, x)
					if err != nil {
						e.unsupported("convert: %v", err)
					}
					r := &StringV{B: make([]*Term, len(elems))}
					for i, el := range elems {
						t, ok := el.(*Term)
						if !ok {
							e.poisonUse(el)
						}
						r.B[i] = t
					}
					return r
				}
			}
			e.unsupported("convert []rune to string")
		case *Term:
			// integer -> string (rune)
			if x.IsConst() {
				return e.strConst(string(rune(x.Int64())))
			}
			e.unsupported("convert symbolic rune to string")
		}
	}
	if sl, ok := tu.(*types.Slice); ok {
		if s, ok := v.(*StringV); ok {
			if b, ok := sl.Elem().Underlying().(*types.Basic); ok && b.Kind() == types.Uint8 {
				return e.bytesToSlice(st, s.B)
			}
			e.unsupported("convert string to []rune")
		}
		return v
	}
	if _, ok := tu.(*types.Pointer); ok {
		return v
	}
	if b, ok := tu.(*types.Basic); ok && b.Kind() == types.UnsafePointer {
		return v
	}
	return v
}

// ---------- indexing ----------

func (e *Engine) idx64(st *State, fr *Frame, v ssa.Value) *Term {
	t := e.term(st, fr, v)
	_, s, _ := scalarWidth(v.Type())
	return e.ts.Resize(t, 64, s)
}

func (e *Engine) inBounds(idx *Term, n int) *Term {
	return e.ts.Cmp(OpBvUlt, idx, e.ts.BVu(uint64(n), 64))
}

func (e *Engine) indexAddr(st *State, fr *Frame, x *ssa.IndexAddr) Value {
	base := e.val(st, fr, x.X)
	idx := e.uniqueValue(st, st.resolve(e.idx64(st, fr, x.Index)))
	switch b := base.(type) {
	case *PtrV: // pointer to array
		e.guard(st, e.ts.Bool(b.Obj != 0), "nil dereference")
		n := int(x.X.Type().Underlying().(*types.Pointer).Elem().Underlying().(*types.Array).Len())
		e.guard(st, e.inBounds(idx, n), "index out of range")
		return extendPath(b, PathElem{Field: -1, Idx: idx, Hi: n})
	case *SliceV:
		e.guard(st, e.inBounds(idx, b.Len), "index out of range")
		if b.Arr == nil {
			panic("index of nil slice passed bounds check")
		}
		abs := e.ts.Bin(OpBvAdd, idx, e.ts.BVu(uint64(b.Off), 64))
		return extendPath(b.Arr, PathElem{Field: -1, Idx: abs, Lo: b.Off, Hi: b.Off + b.Len})
	}
	e.poisonUse(base)
	return nil
}

func (e *Engine) indexVal(st *State, fr *Frame, x *ssa.Index) Value {
	base := e.val(st, fr, x.X)
	idx := st.resolve(e.idx64(st, fr, x.Index))
	switch b := base.(type) {
	case *ArrayV:
		e.guard(st, e.inBounds(idx, len(b.E)), "index out of range")
		for {
			v, err := e.getPath(st, b, []PathElem{{Field: -1, Idx: idx}})
			if err == nil {
				return v
			}
			if nc, ok := err.(*needConcrete); ok {
				e.concretize(st, nc.t)
				idx = st.resolve(idx)
				continue
			}
			e.unsupported("index: %v", err)
		}
	case *StringV:
		return e.strIndex(st, b, idx)
	}
	e.poisonUse(base)
	return nil
}

func (e *Engine) strIndex(st *State, s *StringV, idx *Term) *Term {
	e.guard(st, e.inBounds(idx, len(s.B)), "index out of range")
	if idx.IsConst() {
		return s.B[idx.Val.Int64()]
	}
	acc := s.B[len(s.B)-1]
	for i := len(s.B) - 2; i >= 0; i-- {
		acc = e.ts.Ite(e.ts.Eq(idx, e.ts.BVu(uint64(i), 64)), s.B[i], acc)
	}
	return acc
}

func (e *Engine) subArrayPtr(st *State, s *SliceV, n int) *PtrV {
	// pointer to array [n]T aliasing s's backing store starting at Off: only
	// representable when it is the whole backing array.
	av := e.loadC(st, s.Arr).(*ArrayV)
	if s.Off == 0 && len(av.E) == n {
		return s.Arr
	}
	e.unsupported("slice-to-array pointer into the middle of a backing array")
	return nil
}

func (e *Engine) sliceOp(st *State, fr *Frame, x *ssa.Slice) Value {
	base := e.val(st, fr, x.X)
	limit := 0
	switch b := base.(type) {
	case *StringV:
		limit = len(b.B)
	case *SliceV:
		limit = b.Cap
	case *PtrV:
		if pt, ok := x.X.Type().Underlying().(*types.Pointer); ok {
			if at, ok := pt.Elem().Underlying().(*types.Array); ok {
				limit = int(at.Len())
			}
		}
	}
	get := func(v ssa.Value, def int) int {
		if v == nil {
			return def
		}
		t := e.idx64(st, fr, v)
		if !t.IsConst() {
			// decide the bounds check before enumerating values: an index that can
			// leave [0, cap] panics (one path), the rest has at most cap+1 values.
			e.guard(st, e.inBounds(t, limit+1), "slice bounds out of range")
		}
		c := e.concretize(st, t)
		return int(c.Int64())
	}
	switch b := base.(type) {
	case *StringV:
		lo := get(x.Low, 0)
		hi := get(x.High, len(b.B))
		if lo < 0 || hi < lo || hi > len(b.B) {
			e.startPanic(st, &PanicInfo{Kind: "slice bounds out of range", Where: e.where(st), Val: e.rtErr("slice bounds out of range")})
			panic(sigRetry{})
		}
		return &StringV{B: b.B[lo:hi]}
	case *SliceV:
		lo := get(x.Low, 0)
		hi := get(x.High, b.Len)
		mx := get(x.Max, b.Cap)
		if lo < 0 || hi < lo || mx < hi || mx > b.Cap {
			e.startPanic(st, &PanicInfo{Kind: "slice bounds out of range", Where: e.where(st), Val: e.rtErr("slice bounds out of range")})
			panic(sigRetry{})
		}
		if b.Arr == nil {
			return &SliceV{}
		}
		return &SliceV{Arr: b.Arr, Off: b.Off + lo, Len: hi - lo, Cap: mx - lo}
	case *PtrV: // pointer to array
		e.guard(st, e.ts.Bool(b.Obj != 0), "nil dereference")
		n := int(x.X.Type().Underlying().(*types.Pointer).Elem().Underlying().(*types.Array).Len())
		lo := get(x.Low, 0)
		hi := get(x.High, n)
		mx := get(x.Max, n)
		if lo < 0 || hi < lo || mx < hi || mx > n {
			e.startPanic(st, &PanicInfo{Kind: "slice bounds out of range", Where: e.where(st), Val: e.rtErr("slice bounds out of range")})
			panic(sigRetry{})
		}
		return &SliceV{Arr: b, Off: lo, Len: hi - lo, Cap: mx - lo}
	}
	e.poisonUse(base)
	return nil
}

// ---------- type assertions ----------

func (e *Engine) implements(dyn types.Type, iface *types.Interface) bool {
	return types.Implements(dyn, iface)
}

func (e *Engine) typeAssert(st *State, fr *Frame, x *ssa.TypeAssert) {
	v := e.val(st, fr, x.X)
	iv, ok := v.(*IfaceV)
	if !ok {
		e.poisonUse(v)
	}
	okb := false
	var res Value
	if iv.T != nil {
		if it, isI := x.AssertedType.Underlying().(*types.Interface); isI {
			if nt, isNative := iv.T.(*types.Named); isNative && nt.Obj().Pkg() == nil && e.noopT[nt.Obj().Name()] != nil {
				okb = e.nativeImplements(nt.Obj().Name(), x.AssertedType)
			} else {
				okb = e.implements(iv.T, it)
			}
			res = iv
		} else {
			okb = types.Identical(iv.T, x.AssertedType)
			res = iv.V
		}
	}
	if x.CommaOk {
		if !okb {
			res = e.zero(x.AssertedType)
		}
		e.set(fr, x, &TupleV{E: []Value{res, e.ts.Bool(okb)}})
		return
	}
	if !okb {
		e.startPanic(st, &PanicInfo{Kind: "interface conversion", Where: e.where(st), Val: e.rtErr("interface conversion")})
		panic(sigRetry{})
	}
	e.set(fr, x, res)
}

func (e *Engine) nativeImplements(name string, t types.Type) bool {
	if name == "runtime.Error" {
		s := t.String()
		return s == "error" || s == "runtime.Error"
	}
	if name == "verif.opaqueError" {
		return t.String() == "error"
	}
	return false
}

// uniqueValue: if the path condition forces the (non-constant) index term t to a
// single value, return that constant (and remember it), so that loads and stores
// through it do not degrade into ite-chains over the whole array. One witness
// evaluation plus one solver query per distinct term and state lineage.
func (e *Engine) uniqueValue(st *State, t *Term) *Term {
	if t.IsConst() || e.cfg.Concrete != nil || len(st.wit) == 0 {
		return t
	}
	if st.multi[t.ID] {
		return t
	}
	w := st.wit[len(st.wit)-1]
	v := e.ts.BV(e.ts.Eval(t, w.m, w.cache), t.W)
	// a second witness with a different value settles it without a query
	for _, w2 := range st.wit {
		if e.ts.Eval(t, w2.m, w2.cache).Cmp(v.Val) != 0 {
			st.multi[t.ID] = true
			return t
		}
	}
	if e.feasible(st, e.ts.Ne(t, v)) == Unsat {
		st.known[t.ID] = v
		return v
	}
	st.multi[t.ID] = true
	return t
}
