package sym

import (
	"fmt"
	"go/token"
	"strings"
	"sync"
	"time"

	"golang.org/x/tools/go/ssa"
)

// Call merging ("summarise pure callees"): a call to a side-effect-free
// function is explored on a private worklist; all paths that return are merged
// into ONE continuation whose result is an ite over the paths' conditions. This
// removes the path explosion of saturating/checked arithmetic helpers.

const retMerge = retKind(102)

var pureCache sync.Map // *ssa.Function -> int (instruction count, -1 = impure)

func allocRooted(v ssa.Value) bool {
	for {
		switch x := v.(type) {
		case *ssa.Alloc:
			return true
		case *ssa.FieldAddr:
			v = x.X
		case *ssa.IndexAddr:
			v = x.X
		default:
			return false
		}
	}
}

// pureSize returns the number of instructions of fn and its callees if fn is
// side-effect free (writes only to its own locals), or -1.
func (e *Engine) pureSize(fn *ssa.Function, depth int, busy map[*ssa.Function]bool) int {
	if v, ok := pureCache.Load(fn); ok {
		return v.(int)
	}
	if fn.Blocks == nil || depth > 6 || busy[fn] || fn.Recover != nil {
		return -1
	}
	if fn.Pkg != nil && fn.Pkg.Pkg.Path() == vrPkg {
		return -1
	}
	if _, stubbed := e.stubs[fnKey(fn)]; stubbed {
		return -1
	}
	busy[fn] = true
	defer delete(busy, fn)
	n := 0
	res := func(v int) int {
		pureCache.Store(fn, v)
		return v
	}
	for _, b := range fn.Blocks {
		for _, in := range b.Instrs {
			n++
			switch x := in.(type) {
			case *ssa.Store:
				if !allocRooted(x.Addr) {
					return res(-1)
				}
			case *ssa.MapUpdate, *ssa.Send, *ssa.Go, *ssa.Defer, *ssa.RunDefers, *ssa.Select, *ssa.MakeClosure, *ssa.MakeChan:
				return res(-1)
			case *ssa.UnOp:
				if x.Op == token.ARROW {
					return res(-1)
				}
			case *ssa.Call:
				if x.Call.IsInvoke() {
					return res(-1)
				}
				switch c := x.Call.Value.(type) {
				case *ssa.Builtin:
					switch c.Name() {
					case "len", "cap", "min", "max":
					default:
						return res(-1)
					}
				case *ssa.Function:
					key := fnKey(c)
					if _, ok := e.stubs[key]; ok {
						return res(-1)
					}
					if _, ok := models[key]; ok {
						if len(key) > 10 && key[:10] == "math/bits." {
							continue
						}
						return res(-1)
					}
					s := e.pureSize(c, depth+1, busy)
					if s < 0 {
						return res(-1)
					}
					n += s
				default:
					return res(-1)
				}
			}
			if n > 600 {
				return res(-1)
			}
		}
	}
	return res(n)
}

type mergeCtx struct {
	rets []*State
}

func hasPointer(v Value) bool {
	switch x := v.(type) {
	case nil:
		return false
	case *Term, *FloatV, *WideV, *StringV:
		return false
	case *StructV:
		for _, f := range x.F {
			if hasPointer(f) {
				return true
			}
		}
		return false
	case *ArrayV:
		for _, f := range x.E {
			if hasPointer(f) {
				return true
			}
		}
		return false
	case *TupleV:
		for _, f := range x.E {
			if hasPointer(f) {
				return true
			}
		}
		return false
	case *IfaceV:
		if x.T == nil {
			return false
		}
		return hasPointer(x.V)
	case *PtrV:
		return x.Obj != 0
	case *SliceV:
		return x.Arr != nil
	case *MapV:
		return x.Obj != 0
	case *ChanV:
		return x.Obj != 0
	}
	return true
}

// callMerged explores the callee on a private worklist and merges the returns.
// It returns false if merging is not applicable (caller falls back to a plain call).
func (e *Engine) callMerged(st *State, f *FuncV, fn *ssa.Function, args []Value) bool {
	if e.cfg.Concrete != nil || e.cfg.NoMerge {
		return false
	}
	if e.pureSize(fn, 0, map[*ssa.Function]bool{}) < 0 {
		return false
	}
	concrete := true
	for _, a := range args {
		if !isConcrete(a) {
			concrete = false
			break
		}
	}
	if concrete {
		return false // nothing to fork on (unless it reads symbolic memory; then plain call is fine too)
	}
	// memo: same callee, same argument terms, and a path condition that extends
	// the one under which the summary was computed
	ckey, cacheable := e.mergeKey(fn, args)
	if cacheable {
		for _, me := range e.mergeMemo[ckey] {
			if len(st.pc) >= len(me.pc) {
				same := true
				for i, p := range me.pc {
					if st.pc[i] != p {
						same = false
						break
					}
				}
				if same {
					e.rep.Models["call-merge summaries reused"]++
					if me.escaped {
						e.addPC(st, me.any)
					}
					e.finishCall(st, retNormal, me.merged)
					return true
				}
			}
		}
	}
	base := len(st.pc)
	sub := st.clone(e)
	ctx := &mergeCtx{}
	nf := e.pushFrame(sub, fn, args, retMerge)
	nf.mctx = ctx
	for i, fvv := range fn.FreeVars {
		nf.env[nf.info.idx[fvv]] = f.Bind[i]
	}
	e.rep.FuncsEncoded[fn.String()]++
	saved := e.work
	pathsBefore := e.rep.Paths
	e.work = []*State{sub}
	for len(e.work) > 0 {
		if e.overBudget() {
			break
		}
		s := e.work[len(e.work)-1]
		e.work = e.work[:len(e.work)-1]
		e.runPath(s)
	}
	leftover := e.work
	e.work = saved
	if len(leftover) > 0 {
		// budget exhausted mid-merge: hand everything back as ordinary states
		e.work = append(e.work, leftover...)
		for _, r := range ctx.rets {
			r.done = false
			e.finishCall(r, retNormal, r.mergeRet)
			e.work = append(e.work, r)
		}
		st.done = true
		st.silent = true
		panic(sigRetry{})
	}
	escaped := e.rep.Paths > pathsBefore
	if len(ctx.rets) == 0 {
		st.done = true
		st.silent = true
		panic(sigRetry{})
	}
	ts := e.ts
	ok := true
	for _, r := range ctx.rets {
		if hasPointer(r.mergeRet) {
			ok = false
			break
		}
	}
	var merged Value
	any := ts.False
	if ok {
		conds := make([]*Term, len(ctx.rets))
		for i, r := range ctx.rets {
			c := ts.True
			for _, p := range r.pc[base:] {
				c = ts.And(c, p)
			}
			conds[i] = c
			any = ts.Or(any, c)
		}
		merged = ctx.rets[len(ctx.rets)-1].mergeRet
		for i := len(ctx.rets) - 2; i >= 0 && ok; i-- {
			var m Value
			if merged == nil && ctx.rets[i].mergeRet == nil {
				continue
			}
			m, ok = e.mergeVal(conds[i], ctx.rets[i].mergeRet, merged)
			merged = m
		}
	}
	if !ok {
		for _, r := range ctx.rets {
			r.done = false
			e.finishCall(r, retNormal, r.mergeRet)
			e.work = append(e.work, r)
		}
		st.done = true
		st.silent = true
		panic(sigRetry{})
	}
	e.rep.Models["call merging of side-effect-free callees (paths re-joined with ite)"]++
	// carry over nondeterministic inputs created inside (none for pure code) and flags
	for _, r := range ctx.rets {
		for k, v := range r.flags {
			st.flags[k] = v
		}
		if r.steps > st.steps {
			st.steps = r.steps
		}
	}
	if cacheable {
		e.mergeMemo[ckey] = append(e.mergeMemo[ckey], &mergeMemoEntry{pc: append([]*Term(nil), st.pc...), merged: merged, any: any, escaped: escaped})
	}
	if escaped && len(ctx.rets) > 0 {
		e.addPC(st, any)
	}
	e.finishCall(st, retNormal, merged)
	return true
}

func (e *Engine) overBudget() bool {
	if e.rep.Paths >= e.cfg.MaxPaths {
		return true
	}
	return !e.cfg.Deadline.IsZero() && time.Now().After(e.cfg.Deadline)
}

// mergeReturn: a path returned from a merge frame; park it for its context.
func (e *Engine) mergeReturn(st *State, fr *Frame, res Value) {
	st.mergeRet = res
	st.done = true
	st.silent = true
	fr.mctx.rets = append(fr.mctx.rets, st)
}

type mergeMemoEntry struct {
	pc      []*Term
	merged  Value
	any     *Term
	escaped bool
}

func valKey(v Value, sb *strings.Builder) bool {
	switch x := v.(type) {
	case nil:
		sb.WriteString("n;")
	case *Term:
		fmt.Fprintf(sb, "t%d;", x.ID)
	case *WideV:
		fmt.Fprintf(sb, "w%d;", x.T.ID)
	case *FloatV:
		fmt.Fprintf(sb, "f%g;", x.F)
	case *StringV:
		sb.WriteString("s")
		for _, b := range x.B {
			fmt.Fprintf(sb, "%d,", b.ID)
		}
		sb.WriteString(";")
	case *StructV:
		sb.WriteString("{")
		for _, f := range x.F {
			if !valKey(f, sb) {
				return false
			}
		}
		sb.WriteString("}")
	case *ArrayV:
		sb.WriteString("[")
		for _, f := range x.E {
			if !valKey(f, sb) {
				return false
			}
		}
		sb.WriteString("]")
	case *PtrV:
		if x.Obj != 0 {
			return false
		}
		sb.WriteString("p0;")
	case *SliceV:
		if x.Arr != nil {
			return false
		}
		sb.WriteString("s0;")
	case *MapV:
		if x.Obj != 0 {
			return false
		}
		sb.WriteString("m0;")
	case *IfaceV:
		if x.T != nil {
			return false
		}
		sb.WriteString("i0;")
	default:
		return false
	}
	return true
}

// mergeKey identifies a call by callee and argument terms; calls passing
// pointers (whose targets may differ between states) or reading globals are not memoised.
func (e *Engine) mergeKey(fn *ssa.Function, args []Value) (string, bool) {
	if e.readsGlobal(fn, 0) {
		return "", false
	}
	var sb strings.Builder
	sb.WriteString(fn.String())
	sb.WriteString("|")
	for _, a := range args {
		if !valKey(a, &sb) {
			return "", false
		}
	}
	return sb.String(), true
}

var globalReadCache sync.Map

func (e *Engine) readsGlobal(fn *ssa.Function, depth int) bool {
	if v, ok := globalReadCache.Load(fn); ok {
		return v.(bool)
	}
	if depth > 6 {
		return true
	}
	r := false
	var ops [8]*ssa.Value
	for _, b := range fn.Blocks {
		for _, in := range b.Instrs {
			for _, op := range in.Operands(ops[:0]) {
				if op == nil || *op == nil {
					continue
				}
				if _, ok := (*op).(*ssa.Global); ok {
					r = true
				}
			}
			if c, ok := in.(*ssa.Call); ok {
				if callee := c.Call.StaticCallee(); callee != nil && callee.Blocks != nil {
					if _, isModel := models[fnKey(callee)]; !isModel && e.readsGlobal(callee, depth+1) {
						r = true
					}
				}
			}
		}
	}
	globalReadCache.Store(fn, r)
	return r
}
