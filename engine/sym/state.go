package sym

import (
	"fmt"
	"go/types"

	"golang.org/x/tools/go/ssa"
)

type retKind int

const (
	retNormal    retKind = iota // result goes to caller's call instruction
	retDiscard                  // deferred call in normal RunDefers / go statement: results dropped, caller re-executes current instr
	retUnwind                   // deferred call during panic unwinding
	retTop                      // harness entry: path ends
	retNativeK                  // resume a native continuation stored in the frame below
)

type deferRec struct {
	fn   Value // *FuncV or builtin marker
	args []Value
	call *ssa.CallCommon
}

type Frame struct {
	fn      *ssa.Function
	info    *fnInfo
	block   *ssa.BasicBlock
	prev    *ssa.BasicBlock
	ip      int
	env     []Value
	defers  []deferRec
	ret     retKind
	symBr   map[ssa.Instruction]int
	native  NativeK // non-nil: this is a native continuation frame
	parked  *PanicInfo // panic suspended while a deferred call of this frame runs
	lenient bool       // package-initializer frame: unsupported operations poison instead of aborting
	recovered bool   // a deferred call recovered a panic in this frame
	isDeferred bool  // frame runs a deferred function (recover() legal)
	fuel int
	initPkg   *ssa.Package
	mctx      *mergeCtx
	initStart int
}

// NativeK is an engine-implemented continuation (e.g. the sort model) that can
// call back into symbolic code and survive forks.
type NativeK interface {
	Clone() NativeK
	// Resume is called first with ret==nil, then after each callee return.
	// It returns (done, results). To call a function it pushes a frame itself.
	Resume(e *Engine, st *State, fr *Frame, ret Value) (bool, Value)
}

type fnInfo struct {
	idx map[ssa.Value]int
	n   int
}

type PanicInfo struct {
	Val    Value
	Kind   string // "index", "nil", "divide", "slice", "typeassert", "explicit", "makeneg", "unwind", "closedchan", ...
	Where  string
	Assume bool // raised by a failed Assume: path is silently dropped
}

type NondetRec struct {
	Var   *Term
	Label string
	Kind  string // "u8","u16","u32","u64","bool","len"
}

type Event struct {
	Tag  string
	Args []Value
}

type epoch struct{ _ byte }

type State struct {
	id       int
	frames   []*Frame
	heap     map[int]*Obj
	ep       *epoch
	globals  map[*ssa.Global]int
	inited   map[*ssa.Package]bool
	pc       []*Term
	known    map[int]*Term
	nondets  []NondetRec
	events   []Event
	reached  map[string]bool
	panicking *PanicInfo
	steps    int
	flags    map[string]string // unsupported / poison reasons hit on this path
	done     bool
	outcome  string
	ufApps   map[string][]ufApp
	seq      map[string]int
	ghost    map[string]Value
	wit      []*Witness
	multi    map[int]bool // index terms known to admit more than one value
	mergeRet Value
	silent   bool
}

type ufApp struct {
	in  []*Term // flattened input bytes/words
	out []*Term
}

func (st *State) clone(e *Engine) *State {
	e.stateSeq++
	n := &State{
		id:      e.stateSeq,
		frames:  make([]*Frame, len(st.frames)),
		heap:    make(map[int]*Obj, len(st.heap)),
		ep:      &epoch{},
		globals: make(map[*ssa.Global]int, len(st.globals)),
		inited:  make(map[*ssa.Package]bool, len(st.inited)),
		pc:      append([]*Term(nil), st.pc...),
		known:   make(map[int]*Term, len(st.known)),
		nondets: append([]NondetRec(nil), st.nondets...),
		events:  append([]Event(nil), st.events...),
		reached: make(map[string]bool, len(st.reached)),
		steps:   st.steps,
		flags:   make(map[string]string, len(st.flags)),
		ufApps:  make(map[string][]ufApp, len(st.ufApps)),
		seq:     make(map[string]int, len(st.seq)),
		ghost:   make(map[string]Value, len(st.ghost)),
		wit:     append([]*Witness(nil), st.wit...),
		multi:   make(map[int]bool, len(st.multi)),
	}
	st.ep = &epoch{}
	for i, f := range st.frames {
		nf := *f
		nf.env = append([]Value(nil), f.env...)
		nf.defers = append([]deferRec(nil), f.defers...)
		if f.symBr != nil {
			nf.symBr = make(map[ssa.Instruction]int, len(f.symBr))
			for k, v := range f.symBr {
				nf.symBr[k] = v
			}
		}
		if f.native != nil {
			nf.native = f.native.Clone()
		}
		n.frames[i] = &nf
	}
	for k, v := range st.heap {
		n.heap[k] = v
	}
	for k, v := range st.globals {
		n.globals[k] = v
	}
	for k, v := range st.inited {
		n.inited[k] = v
	}
	for k, v := range st.known {
		n.known[k] = v
	}
	for k, v := range st.reached {
		n.reached[k] = v
	}
	for k, v := range st.flags {
		n.flags[k] = v
	}
	for k, v := range st.ufApps {
		n.ufApps[k] = append([]ufApp(nil), v...)
	}
	for k, v := range st.seq {
		n.seq[k] = v
	}
	for k, v := range st.ghost {
		n.ghost[k] = v
	}
	for k, v := range st.multi {
		n.multi[k] = v
	}
	if st.panicking != nil {
		p := *st.panicking
		n.panicking = &p
	}
	return n
}

func (st *State) top() *Frame { return st.frames[len(st.frames)-1] }

func (st *State) assume(c *Term) {
	if c.IsTrue() {
		return
	}
	st.pc = append(st.pc, c)
}

func (st *State) flag(kind, why string) {
	if _, ok := st.flags[kind+": "+why]; !ok {
		st.flags[kind+": "+why] = kind
	}
}

// ---------- heap ----------

func (e *Engine) newObj(st *State, t types.Type, v Value, name string) *PtrV {
	e.objSeq++
	id := e.objSeq
	st.heap[id] = &Obj{ID: id, Val: v, T: t, owner: nil, Name: name}
	return &PtrV{Obj: id}
}

func (st *State) obj(id int) *Obj {
	o := st.heap[id]
	if o == nil {
		panic(fmt.Sprintf("dangling object o%d", id))
	}
	return o
}

func (st *State) setObj(id int, v Value) {
	o := st.heap[id]
	st.heap[id] = &Obj{ID: id, Val: v, T: o.T, Name: o.Name}
}

type needConcrete struct{ t *Term; lo, hi int }

func (n *needConcrete) Error() string { return "need concrete value of " + n.t.Short() }

// resolve replaces a term by its known constant on this path, if any.
func (st *State) resolve(t *Term) *Term {
	if t.IsConst() {
		return t
	}
	if k, ok := st.known[t.ID]; ok {
		return k
	}
	return t
}

func (e *Engine) getPath(st *State, v Value, path []PathElem) (Value, error) {
	for len(path) > 0 {
		pe := path[0]
		path = path[1:]
		if pe.Idx == nil {
			s, ok := v.(*StructV)
			if !ok {
				return nil, fmt.Errorf("getPath: field of %T", v)
			}
			v = s.F[pe.Field]
			continue
		}
		a, ok := v.(*ArrayV)
		if !ok {
			return nil, fmt.Errorf("getPath: index of %T", v)
		}
		idx := st.resolve(pe.Idx)
		if idx.IsConst() {
			i := int(idx.Val.Int64())
			if i < 0 || i >= len(a.E) {
				return nil, fmt.Errorf("getPath: index %d out of range %d", i, len(a.E))
			}
			v = a.E[i]
			continue
		}
		lo, hi := pe.rng(len(a.E))
		var acc Value
		for i := hi - 1; i >= lo; i-- {
			ev, err := e.getPath(st, a.E[i], path)
			if err != nil {
				return nil, err
			}
			if acc == nil {
				acc = ev
				continue
			}
			m, ok := e.mergeVal(e.ts.Eq(idx, e.ts.BVi(int64(i), idx.W)), ev, acc)
			if !ok {
				return nil, &needConcrete{idx, lo, hi}
			}
			acc = m
		}
		if acc == nil {
			return nil, fmt.Errorf("getPath: empty range")
		}
		return acc, nil
	}
	return v, nil
}

func (pe PathElem) rng(n int) (int, int) {
	if pe.Hi > 0 && pe.Hi <= n {
		return pe.Lo, pe.Hi
	}
	return 0, n
}

func (e *Engine) setPath(st *State, v Value, path []PathElem, nv Value) (Value, error) {
	if len(path) == 0 {
		return nv, nil
	}
	pe := path[0]
	if pe.Idx == nil {
		s, ok := v.(*StructV)
		if !ok {
			return nil, fmt.Errorf("setPath: field of %T", v)
		}
		sub, err := e.setPath(st, s.F[pe.Field], path[1:], nv)
		if err != nil {
			return nil, err
		}
		ns := &StructV{F: append([]Value(nil), s.F...)}
		ns.F[pe.Field] = sub
		return ns, nil
	}
	a, ok := v.(*ArrayV)
	if !ok {
		return nil, fmt.Errorf("setPath: index of %T", v)
	}
	idx := st.resolve(pe.Idx)
	if idx.IsConst() {
		i := int(idx.Val.Int64())
		if i < 0 || i >= len(a.E) {
			return nil, fmt.Errorf("setPath: index %d out of range %d", i, len(a.E))
		}
		sub, err := e.setPath(st, a.E[i], path[1:], nv)
		if err != nil {
			return nil, err
		}
		na := &ArrayV{E: append([]Value(nil), a.E...)}
		na.E[i] = sub
		return na, nil
	}
	na := &ArrayV{E: append([]Value(nil), a.E...)}
	lo, hi := pe.rng(len(a.E))
	for i := lo; i < hi; i++ {
		sub, err := e.setPath(st, a.E[i], path[1:], nv)
		if err != nil {
			return nil, err
		}
		m, ok := e.mergeVal(e.ts.Eq(idx, e.ts.BVi(int64(i), idx.W)), sub, a.E[i])
		if !ok {
			return nil, &needConcrete{idx, 0, len(a.E)}
		}
		na.E[i] = m
	}
	return na, nil
}

func (e *Engine) load(st *State, p *PtrV) (Value, error) {
	if p.Obj == 0 {
		return nil, fmt.Errorf("load of nil")
	}
	o := st.obj(p.Obj)
	return e.getPath(st, o.Val, p.Path)
}

func (e *Engine) store(st *State, p *PtrV, v Value) error {
	if p.Obj == 0 {
		return fmt.Errorf("store to nil")
	}
	o := st.obj(p.Obj)
	nv, err := e.setPath(st, o.Val, p.Path, v)
	if err != nil {
		return err
	}
	st.setObj(p.Obj, nv)
	return nil
}

func extendPath(p *PtrV, pe PathElem) *PtrV {
	np := &PtrV{Obj: p.Obj, Path: make([]PathElem, len(p.Path)+1)}
	copy(np.Path, p.Path)
	np.Path[len(p.Path)] = pe
	return np
}

// sliceElems returns the current element values of a slice window.
func (e *Engine) sliceElems(st *State, s *SliceV) ([]Value, error) {
	if s.Arr == nil || s.Len == 0 {
		return nil, nil
	}
	av, err := e.load(st, s.Arr)
	if err != nil {
		return nil, err
	}
	a := av.(*ArrayV)
	return a.E[s.Off : s.Off+s.Len], nil
}

// newSlice allocates a backing array holding elems (cap >= len(elems)).
func (e *Engine) newSlice(st *State, elemT types.Type, elems []Value, capN int) *SliceV {
	if capN < len(elems) {
		capN = len(elems)
	}
	arr := &ArrayV{E: make([]Value, capN)}
	copy(arr.E, elems)
	if capN > len(elems) {
		z := e.zero(elemT)
		for i := len(elems); i < capN; i++ {
			arr.E[i] = z
		}
	}
	p := e.newObj(st, types.NewArray(elemT, int64(capN)), arr, "slice")
	return &SliceV{Arr: p, Off: 0, Len: len(elems), Cap: capN}
}

func (e *Engine) bytesToSlice(st *State, b []*Term) *SliceV {
	vals := make([]Value, len(b))
	for i, t := range b {
		vals[i] = t
	}
	return e.newSlice(st, types.Typ[types.Uint8], vals, len(b))
}
