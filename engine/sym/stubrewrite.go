package sym

import (
	"bytes"
	"fmt"
	"go/ast"
	"go/parser"
	"go/printer"
	"go/token"
	"os"
	"path/filepath"
	"regexp"
	"strings"
)

// Native stub substitution. For native replay the environment the solver saw
// must be reproduced: every `//verif:stub callee = fn` is realised by rewriting
// (in the overlay only) the file defining callee:
//
//	func (r T) M(a A) R { body }     becomes
//	var VerifHook_T_M func(T, A) R
//	func (r T) M(a A) R { if VerifHook_T_M != nil { return VerifHook_T_M(r, a) }; return r.M__verifOrig(a) }
//	func (r T) M__verifOrig(a A) R { body }
//
// and the generated replay test installs fn into the hook before running the
// harness. With the hook unset the code behaves exactly as before.

type hookAssign struct {
	PkgPath string // import path of the package holding the hook variable
	PkgDir  string
	Var     string
	Stub    string
}

var reStubCallee = regexp.MustCompile(`^(?:\((\*?)([^()]+)\.(\w+)\)\.(\w+)|([^()]+)\.(\w+))$`)

const modulePath = "github.com/algorand/go-algorand"

func render(fset *token.FileSet, n ast.Node) string {
	var b bytes.Buffer
	printer.Fprint(&b, fset, n)
	return b.String()
}

// rewriteStub returns the hook for callee, adding the rewritten file to ov.
func rewriteStub(repo string, ov *Overlay, callee string) (*hookAssign, error) {
	m := reStubCallee.FindStringSubmatch(callee)
	if m == nil {
		return nil, fmt.Errorf("cannot parse stub target %q", callee)
	}
	var pkgPath, typ, name string
	ptr := false
	if m[2] != "" {
		ptr, pkgPath, typ, name = m[1] == "*", m[2], m[3], m[4]
	} else {
		pkgPath, name = m[5], m[6]
	}
	if !strings.HasPrefix(pkgPath, modulePath) {
		return nil, nil // outside the repository (e.g. standard library): engine-only stub
	}
	dir := strings.TrimPrefix(strings.TrimPrefix(pkgPath, modulePath), "/")
	files, _ := filepath.Glob(filepath.Join(repo, dir, "*.go"))
	for _, f := range files {
		if strings.HasSuffix(f, "_test.go") {
			continue
		}
		var src []byte
		if b, ok := ov.Files[f]; ok {
			src = b
		} else {
			b, err := os.ReadFile(f)
			if err != nil {
				continue
			}
			src = b
		}
		if !bytes.Contains(src, []byte(name+"(")) && !bytes.Contains(src, []byte(name+"[")) {
			continue
		}
		fset := token.NewFileSet()
		af, err := parser.ParseFile(fset, f, src, parser.ParseComments)
		if err != nil {
			continue
		}
		for _, d := range af.Decls {
			fd, ok := d.(*ast.FuncDecl)
			if !ok || fd.Name.Name != name || fd.Body == nil {
				continue
			}
			if typ == "" && fd.Recv != nil {
				continue
			}
			if typ != "" {
				if fd.Recv == nil || len(fd.Recv.List) != 1 {
					continue
				}
				rt := fd.Recv.List[0].Type
				isPtr := false
				if st, ok := rt.(*ast.StarExpr); ok {
					isPtr = true
					rt = st.X
				}
				id, ok := rt.(*ast.Ident)
				if !ok || id.Name != typ || isPtr != ptr {
					continue
				}
			}
			if fd.Type.TypeParams != nil && len(fd.Type.TypeParams.List) > 0 {
				return nil, nil // generic: no hook variable possible; native runs the real function
			}
			hookVar := "VerifHook_" + name
			if typ != "" {
				hookVar = "VerifHook_" + typ + "_" + name
			}
			// collect parameter names/types
			var ptypes, pnames, pdecls []string
			recvName := ""
			if fd.Recv != nil {
				r := fd.Recv.List[0]
				recvName = "verifRecv"
				if len(r.Names) == 1 && r.Names[0].Name != "_" {
					recvName = r.Names[0].Name
				}
				ptypes = append(ptypes, render(fset, r.Type))
			}
			k := 0
			for _, p := range fd.Type.Params.List {
				ts := render(fset, p.Type)
				n := len(p.Names)
				if n == 0 {
					n = 1
				}
				for i := 0; i < n; i++ {
					nm := fmt.Sprintf("verifP%d", k)
					if len(p.Names) > i && p.Names[i].Name != "_" {
						nm = p.Names[i].Name
					}
					k++
					pdecls = append(pdecls, nm+" "+ts)
					if strings.HasPrefix(ts, "...") {
						ptypes = append(ptypes, ts)
						pnames = append(pnames, nm+"...")
					} else {
						ptypes = append(ptypes, ts)
						pnames = append(pnames, nm)
					}
				}
			}
			results := ""
			hasResults := fd.Type.Results != nil && len(fd.Type.Results.List) > 0
			if hasResults {
				var rs []string
				for _, r := range fd.Type.Results.List {
					n := len(r.Names)
					if n == 0 {
						n = 1
					}
					for i := 0; i < n; i++ {
						rs = append(rs, render(fset, r.Type))
					}
				}
				results = " (" + strings.Join(rs, ", ") + ")"
			}
			ret := ""
			if hasResults {
				ret = "return "
			}
			var fw strings.Builder
			fmt.Fprintf(&fw, "\n// %s: verification hook (overlay only).\nvar %s func(%s)%s\n\n", hookVar, hookVar, strings.Join(ptypes, ", "), results)
			recvDecl := ""
			callOrig := name + "__verifOrig(" + strings.Join(pnames, ", ") + ")"
			hookArgs := pnames
			if fd.Recv != nil {
				recvDecl = "(" + recvName + " " + render(fset, fd.Recv.List[0].Type) + ") "
				callOrig = recvName + "." + callOrig
				hookArgs = append([]string{recvName}, pnames...)
			}
			fmt.Fprintf(&fw, "func %s%s(%s)%s {\n\tif %s != nil {\n\t\t%s%s(%s)\n\t\treturn\n\t}\n\t%s%s\n}\n",
				recvDecl, name, strings.Join(pdecls, ", "), results, hookVar, ret, hookVar, strings.Join(hookArgs, ", "), ret, callOrig)
			text := fw.String()
			if hasResults {
				// `return f(...); return` is invalid: emit the plain form
				text = strings.Replace(text, ")\n\t\treturn\n\t}", ")\n\t}", 1)
			}
			// rename the original by editing the source text at the identifier position
			off := fset.Position(fd.Name.Pos()).Offset
			out := append([]byte{}, src[:off]...)
			out = append(out, []byte(name+"__verifOrig")...)
			out = append(out, src[off+len(name):]...)
			out = append(out, []byte(text)...)
			ov.Files[f] = out
			return &hookAssign{PkgPath: pkgPath, PkgDir: dir, Var: hookVar, Stub: ""}, nil
		}
	}
	return nil, fmt.Errorf("stub target %q not found in %s", callee, dir)
}
