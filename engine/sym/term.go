// Package sym: symbolic executor over go/ssa. term.go: hash-consed SMT terms.
package sym

import (
	"fmt"
	"math/big"
	"strings"
	"sync"
)

type Op uint8

const (
	OpConst Op = iota // BV const (Val, W) or Bool const (W==0)
	OpVar             // Name, W (0 = Bool)
	OpNot             // bool
	OpAnd
	OpOr
	OpIte // cond, a, b
	OpEq
	OpBvAdd
	OpBvSub
	OpBvMul
	OpBvUdiv
	OpBvUrem
	OpBvSdiv
	OpBvSrem
	OpBvAnd
	OpBvOr
	OpBvXor
	OpBvNot
	OpBvNeg
	OpBvShl
	OpBvLshr
	OpBvAshr
	OpBvUlt
	OpBvUle
	OpBvSlt
	OpBvSle
	OpConcat  // hi, lo
	OpExtract // Hi, Lo in aux
	OpZext    // to width W
	OpSext
)

var opNames = map[Op]string{
	OpNot: "not", OpAnd: "and", OpOr: "or", OpIte: "ite", OpEq: "=",
	OpBvAdd: "bvadd", OpBvSub: "bvsub", OpBvMul: "bvmul", OpBvUdiv: "bvudiv", OpBvUrem: "bvurem",
	OpBvSdiv: "bvsdiv", OpBvSrem: "bvsrem", OpBvAnd: "bvand", OpBvOr: "bvor", OpBvXor: "bvxor",
	OpBvNot: "bvnot", OpBvNeg: "bvneg", OpBvShl: "bvshl", OpBvLshr: "bvlshr", OpBvAshr: "bvashr",
	OpBvUlt: "bvult", OpBvUle: "bvule", OpBvSlt: "bvslt", OpBvSle: "bvsle", OpConcat: "concat",
}

// Term is an immutable hash-consed node. W==0 means Bool.
type Term struct {
	Op   Op
	W    int
	Args []*Term
	Val  *big.Int // const
	Name string   // var
	Hi   int      // extract
	Lo   int
	ID   int
}

type TermStore struct {
	mu    sync.Mutex
	table map[string]*Term
	next  int
	True  *Term
	False *Term
}

func NewTermStore() *TermStore {
	ts := &TermStore{table: map[string]*Term{}}
	ts.True = ts.mk(&Term{Op: OpConst, W: 0, Val: big.NewInt(1)})
	ts.False = ts.mk(&Term{Op: OpConst, W: 0, Val: big.NewInt(0)})
	return ts
}

func (ts *TermStore) key(t *Term) string {
	var sb strings.Builder
	fmt.Fprintf(&sb, "%d:%d:", t.Op, t.W)
	switch t.Op {
	case OpConst:
		sb.WriteString(t.Val.Text(16))
	case OpVar:
		sb.WriteString(t.Name)
	case OpExtract:
		fmt.Fprintf(&sb, "%d,%d,", t.Hi, t.Lo)
	}
	for _, a := range t.Args {
		fmt.Fprintf(&sb, "#%d", a.ID)
	}
	return sb.String()
}

func (ts *TermStore) mk(t *Term) *Term {
	k := ts.key(t)
	ts.mu.Lock()
	defer ts.mu.Unlock()
	if e, ok := ts.table[k]; ok {
		return e
	}
	ts.next++
	t.ID = ts.next
	ts.table[k] = t
	return t
}

func (t *Term) IsConst() bool { return t.Op == OpConst }
func (t *Term) IsBool() bool  { return t.W == 0 }
func (t *Term) IsTrue() bool  { return t.Op == OpConst && t.W == 0 && t.Val.Sign() != 0 }
func (t *Term) IsFalse() bool { return t.Op == OpConst && t.W == 0 && t.Val.Sign() == 0 }

func mask(w int) *big.Int {
	m := new(big.Int).Lsh(big.NewInt(1), uint(w))
	return m.Sub(m, big.NewInt(1))
}

func norm(v *big.Int, w int) *big.Int {
	r := new(big.Int).And(v, mask(w))
	return r
}

func toSigned(v *big.Int, w int) *big.Int {
	if v.Bit(w-1) == 1 {
		return new(big.Int).Sub(v, new(big.Int).Lsh(big.NewInt(1), uint(w)))
	}
	return new(big.Int).Set(v)
}

func (ts *TermStore) Bool(b bool) *Term {
	if b {
		return ts.True
	}
	return ts.False
}

func (ts *TermStore) BV(v *big.Int, w int) *Term {
	if w <= 0 {
		panic("BV width")
	}
	return ts.mk(&Term{Op: OpConst, W: w, Val: norm(v, w)})
}

func (ts *TermStore) BVu(v uint64, w int) *Term {
	return ts.BV(new(big.Int).SetUint64(v), w)
}

func (ts *TermStore) BVi(v int64, w int) *Term {
	return ts.BV(big.NewInt(v), w)
}

func (ts *TermStore) Var(name string, w int) *Term {
	return ts.mk(&Term{Op: OpVar, W: w, Name: name})
}

// Uint64 returns the constant's value (must be const, fits).
func (t *Term) Uint64() uint64 { return t.Val.Uint64() }
func (t *Term) Int64() int64 {
	return toSigned(t.Val, t.W).Int64()
}

func (ts *TermStore) Not(a *Term) *Term {
	if a.IsTrue() {
		return ts.False
	}
	if a.IsFalse() {
		return ts.True
	}
	if a.Op == OpNot {
		return a.Args[0]
	}
	return ts.mk(&Term{Op: OpNot, Args: []*Term{a}})
}

func (ts *TermStore) And(a, b *Term) *Term {
	if a.IsFalse() || b.IsFalse() {
		return ts.False
	}
	if a.IsTrue() {
		return b
	}
	if b.IsTrue() {
		return a
	}
	if a == b {
		return a
	}
	if (a.Op == OpNot && a.Args[0] == b) || (b.Op == OpNot && b.Args[0] == a) {
		return ts.False
	}
	if a.ID > b.ID {
		a, b = b, a
	}
	return ts.mk(&Term{Op: OpAnd, Args: []*Term{a, b}})
}

func (ts *TermStore) Or(a, b *Term) *Term {
	if a.IsTrue() || b.IsTrue() {
		return ts.True
	}
	if a.IsFalse() {
		return b
	}
	if b.IsFalse() {
		return a
	}
	if a == b {
		return a
	}
	if (a.Op == OpNot && a.Args[0] == b) || (b.Op == OpNot && b.Args[0] == a) {
		return ts.True
	}
	if a.ID > b.ID {
		a, b = b, a
	}
	return ts.mk(&Term{Op: OpOr, Args: []*Term{a, b}})
}

func (ts *TermStore) Implies(a, b *Term) *Term { return ts.Or(ts.Not(a), b) }

func (ts *TermStore) AndN(xs ...*Term) *Term {
	r := ts.True
	for _, x := range xs {
		r = ts.And(r, x)
	}
	return r
}

func (ts *TermStore) Ite(c, a, b *Term) *Term {
	if c.IsTrue() {
		return a
	}
	if c.IsFalse() {
		return b
	}
	if a == b {
		return a
	}
	if a.W != b.W {
		panic(fmt.Sprintf("ite width mismatch %d %d", a.W, b.W))
	}
	if a.W == 0 {
		if a.IsTrue() && b.IsFalse() {
			return c
		}
		if a.IsFalse() && b.IsTrue() {
			return ts.Not(c)
		}
		if a.IsTrue() {
			return ts.Or(c, b)
		}
		if a.IsFalse() {
			return ts.And(ts.Not(c), b)
		}
		if b.IsTrue() {
			return ts.Or(ts.Not(c), a)
		}
		if b.IsFalse() {
			return ts.And(c, a)
		}
	}
	if c.Op == OpNot {
		return ts.Ite(c.Args[0], b, a)
	}
	// ite(c, x, ite(c, y, z)) = ite(c, x, z)
	if b.Op == OpIte && b.Args[0] == c {
		return ts.Ite(c, a, b.Args[2])
	}
	if a.Op == OpIte && a.Args[0] == c {
		return ts.Ite(c, a.Args[1], b)
	}
	return ts.mk(&Term{Op: OpIte, W: a.W, Args: []*Term{c, a, b}})
}

func (ts *TermStore) Eq(a, b *Term) *Term {
	if a == b {
		return ts.True
	}
	if a.W != b.W {
		panic(fmt.Sprintf("eq width mismatch %d %d: %s vs %s", a.W, b.W, a.Short(), b.Short()))
	}
	if a.IsConst() && b.IsConst() {
		return ts.Bool(a.Val.Cmp(b.Val) == 0)
	}
	if a.W == 0 {
		if a.IsTrue() {
			return b
		}
		if b.IsTrue() {
			return a
		}
		if a.IsFalse() {
			return ts.Not(b)
		}
		if b.IsFalse() {
			return ts.Not(a)
		}
	}
	// eq(ite(c, k1, k2), k) with constants
	if b.IsConst() && a.Op == OpIte && a.Args[1].IsConst() && a.Args[2].IsConst() {
		return ts.Ite(a.Args[0], ts.Eq(a.Args[1], b), ts.Eq(a.Args[2], b))
	}
	if a.IsConst() && b.Op == OpIte && b.Args[1].IsConst() && b.Args[2].IsConst() {
		return ts.Ite(b.Args[0], ts.Eq(b.Args[1], a), ts.Eq(b.Args[2], a))
	}
	// zext(x) == const
	if b.IsConst() && a.Op == OpZext {
		x := a.Args[0]
		if b.Val.BitLen() > x.W {
			return ts.False
		}
		return ts.Eq(x, ts.BV(b.Val, x.W))
	}
	if a.IsConst() && b.Op == OpZext {
		return ts.Eq(b, a)
	}
	if a.W > 0 && a.Op == OpZext && b.Op == OpZext {
		if x, y, _, ok := ts.narrow2(a, b, 0, false); ok {
			return ts.Eq(x, y)
		}
	}
	if a.ID > b.ID {
		a, b = b, a
	}
	return ts.mk(&Term{Op: OpEq, Args: []*Term{a, b}})
}

func (ts *TermStore) Ne(a, b *Term) *Term { return ts.Not(ts.Eq(a, b)) }

func (ts *TermStore) foldBin(op Op, a, b *Term) *Term {
	w := a.W
	x, y := a.Val, b.Val
	r := new(big.Int)
	switch op {
	case OpBvAdd:
		r.Add(x, y)
	case OpBvSub:
		r.Sub(x, y)
	case OpBvMul:
		r.Mul(x, y)
	case OpBvUdiv:
		if y.Sign() == 0 {
			r = mask(w)
		} else {
			r.Quo(x, y)
		}
	case OpBvUrem:
		if y.Sign() == 0 {
			r.Set(x)
		} else {
			r.Rem(x, y)
		}
	case OpBvSdiv:
		sx, sy := toSigned(x, w), toSigned(y, w)
		if sy.Sign() == 0 {
			if sx.Sign() < 0 {
				r.SetInt64(1)
			} else {
				r = mask(w)
			}
		} else {
			r.Quo(sx, sy)
		}
	case OpBvSrem:
		sx, sy := toSigned(x, w), toSigned(y, w)
		if sy.Sign() == 0 {
			r.Set(sx)
		} else {
			r.Rem(sx, sy)
		}
	case OpBvAnd:
		r.And(x, y)
	case OpBvOr:
		r.Or(x, y)
	case OpBvXor:
		r.Xor(x, y)
	case OpBvShl:
		if y.Cmp(big.NewInt(int64(w))) >= 0 {
			r.SetInt64(0)
		} else {
			r.Lsh(x, uint(y.Uint64()))
		}
	case OpBvLshr:
		if y.Cmp(big.NewInt(int64(w))) >= 0 {
			r.SetInt64(0)
		} else {
			r.Rsh(x, uint(y.Uint64()))
		}
	case OpBvAshr:
		sx := toSigned(x, w)
		if y.Cmp(big.NewInt(int64(w))) >= 0 {
			if sx.Sign() < 0 {
				r.SetInt64(-1)
			} else {
				r.SetInt64(0)
			}
		} else {
			r.Rsh(sx, uint(y.Uint64()))
		}
	default:
		panic("foldBin")
	}
	return ts.BV(r, w)
}

func isZero(t *Term) bool { return t.IsConst() && t.Val.Sign() == 0 }
func isOne(t *Term) bool  { return t.IsConst() && t.Val.Cmp(big.NewInt(1)) == 0 }
func isAllOnes(t *Term) bool {
	return t.IsConst() && t.W > 0 && t.Val.Cmp(mask(t.W)) == 0
}

// zinner views t as a zero-extension of a narrower value: (inner, ok).
func (ts *TermStore) zinner(t *Term) (*Term, bool) {
	if t.Op == OpZext {
		return t.Args[0], true
	}
	if t.IsConst() && t.W > 0 {
		w := t.Val.BitLen()
		if w == 0 {
			w = 1
		}
		if w < t.W {
			return ts.BV(t.Val, w), true
		}
	}
	return nil, false
}

func nonNeg(t *Term) bool {
	if t.IsConst() {
		return t.W > 0 && t.Val.Bit(t.W-1) == 0
	}
	return t.Op == OpZext && t.Args[0].W < t.W
}

// narrow2 returns both operands at width m when both are zero-extensions of
// values that fit in m < W bits.
func (ts *TermStore) narrow2(a, b *Term, extra int, mul bool) (*Term, *Term, int, bool) {
	if a.IsConst() && b.IsConst() {
		return nil, nil, 0, false
	}
	x, ok1 := ts.zinner(a)
	y, ok2 := ts.zinner(b)
	if !ok1 || !ok2 {
		return nil, nil, 0, false
	}
	var m int
	if mul {
		m = x.W + y.W
	} else {
		m = x.W
		if y.W > m {
			m = y.W
		}
		m += extra
	}
	if m >= a.W {
		return nil, nil, 0, false
	}
	return ts.Zext(x, m), ts.Zext(y, m), m, true
}

func commutative(op Op) bool {
	switch op {
	case OpBvAdd, OpBvMul, OpBvAnd, OpBvOr, OpBvXor:
		return true
	}
	return false
}

func (ts *TermStore) Bin(op Op, a, b *Term) *Term {
	if a.W != b.W || a.W == 0 {
		panic(fmt.Sprintf("bin %s width mismatch %d %d", opNames[op], a.W, b.W))
	}
	if a.IsConst() && b.IsConst() {
		return ts.foldBin(op, a, b)
	}
	switch op {
	case OpBvSdiv, OpBvSrem:
		if nonNeg(a) && nonNeg(b) {
			if op == OpBvSdiv {
				return ts.Bin(OpBvUdiv, a, b)
			}
			return ts.Bin(OpBvUrem, a, b)
		}
	}
	switch op {
	case OpBvMul:
		if x, y, m, ok := ts.narrow2(a, b, 0, true); ok {
			return ts.Zext(ts.Bin(OpBvMul, x, y), a.W+0*m)
		}
	case OpBvAdd:
		if x, y, _, ok := ts.narrow2(a, b, 1, false); ok {
			return ts.Zext(ts.Bin(OpBvAdd, x, y), a.W)
		}
	case OpBvUdiv, OpBvUrem:
		if x, y, _, ok := ts.narrow2(a, b, 0, false); ok && !isZero(b) {
			return ts.Zext(ts.Bin(op, x, y), a.W)
		}
	}
	switch op {
	case OpBvAdd:
		if isZero(a) {
			return b
		}
		if isZero(b) {
			return a
		}
	case OpBvSub:
		if isZero(b) {
			return a
		}
		if a == b {
			return ts.BVu(0, a.W)
		}
	case OpBvMul:
		if isZero(a) || isZero(b) {
			return ts.BVu(0, a.W)
		}
		if isOne(a) {
			return b
		}
		if isOne(b) {
			return a
		}
	case OpBvUdiv:
		if isOne(b) {
			return a
		}
	case OpBvAnd:
		if isZero(a) || isZero(b) {
			return ts.BVu(0, a.W)
		}
		if isAllOnes(a) {
			return b
		}
		if isAllOnes(b) {
			return a
		}
		if a == b {
			return a
		}
	case OpBvOr:
		if isZero(a) {
			return b
		}
		if isZero(b) {
			return a
		}
		if a == b {
			return a
		}
		if isAllOnes(a) || isAllOnes(b) {
			return ts.BV(mask(a.W), a.W)
		}
	case OpBvXor:
		if isZero(a) {
			return b
		}
		if isZero(b) {
			return a
		}
		if a == b {
			return ts.BVu(0, a.W)
		}
	case OpBvShl, OpBvLshr:
		if isZero(b) {
			return a
		}
		if isZero(a) {
			return a
		}
		if b.IsConst() && b.Val.Cmp(big.NewInt(int64(a.W))) >= 0 {
			return ts.BVu(0, a.W)
		}
		// shifts by constants over zext/concat are left to the solver
	case OpBvAshr:
		if isZero(b) {
			return a
		}
	}
	if commutative(op) && a.ID > b.ID {
		a, b = b, a
	}
	return ts.mk(&Term{Op: op, W: a.W, Args: []*Term{a, b}})
}

func (ts *TermStore) Cmp(op Op, a, b *Term) *Term {
	if a.W != b.W || a.W == 0 {
		panic(fmt.Sprintf("cmp width mismatch %d %d", a.W, b.W))
	}
	if a.IsConst() && b.IsConst() {
		var r bool
		switch op {
		case OpBvUlt:
			r = a.Val.Cmp(b.Val) < 0
		case OpBvUle:
			r = a.Val.Cmp(b.Val) <= 0
		case OpBvSlt:
			r = toSigned(a.Val, a.W).Cmp(toSigned(b.Val, b.W)) < 0
		case OpBvSle:
			r = toSigned(a.Val, a.W).Cmp(toSigned(b.Val, b.W)) <= 0
		}
		return ts.Bool(r)
	}
	if a == b {
		return ts.Bool(op == OpBvUle || op == OpBvSle)
	}
	if (op == OpBvSlt || op == OpBvSle) && nonNeg(a) && nonNeg(b) {
		if op == OpBvSlt {
			return ts.Cmp(OpBvUlt, a, b)
		}
		return ts.Cmp(OpBvUle, a, b)
	}
	if op == OpBvUlt || op == OpBvUle {
		if x, y, _, ok := ts.narrow2(a, b, 0, false); ok {
			return ts.Cmp(op, x, y)
		}
	}
	switch op {
	case OpBvUlt:
		if isZero(b) {
			return ts.False
		}
		if isAllOnes(a) {
			return ts.False
		}
	case OpBvUle:
		if isZero(a) {
			return ts.True
		}
		if isAllOnes(b) {
			return ts.True
		}
	}
	// unsigned compare of zext(x) with a constant that does not fit x's range
	if (op == OpBvUlt || op == OpBvUle) && a.Op == OpZext && b.IsConst() {
		x := a.Args[0]
		if b.Val.BitLen() > x.W {
			return ts.True
		}
		return ts.Cmp(op, x, ts.BV(b.Val, x.W))
	}
	if (op == OpBvSlt || op == OpBvSle) && a.Op == OpZext && b.IsConst() && a.Args[0].W < a.W {
		// zext value is non-negative
		sb := toSigned(b.Val, b.W)
		if sb.Sign() < 0 {
			return ts.False
		}
		x := a.Args[0]
		if sb.BitLen() > x.W {
			return ts.True
		}
		if op == OpBvSlt {
			return ts.Cmp(OpBvUlt, x, ts.BV(sb, x.W))
		}
		return ts.Cmp(OpBvUle, x, ts.BV(sb, x.W))
	}
	if (op == OpBvSlt || op == OpBvSle) && b.Op == OpZext && a.IsConst() && b.Args[0].W < b.W {
		sa := toSigned(a.Val, a.W)
		if sa.Sign() < 0 {
			return ts.True
		}
		x := b.Args[0]
		if sa.BitLen() > x.W {
			return ts.False
		}
		if op == OpBvSlt {
			return ts.Cmp(OpBvUlt, ts.BV(sa, x.W), x)
		}
		return ts.Cmp(OpBvUle, ts.BV(sa, x.W), x)
	}
	return ts.mk(&Term{Op: op, Args: []*Term{a, b}})
}

func (ts *TermStore) BvNot(a *Term) *Term {
	if a.IsConst() {
		return ts.BV(new(big.Int).Xor(a.Val, mask(a.W)), a.W)
	}
	if a.Op == OpBvNot {
		return a.Args[0]
	}
	return ts.mk(&Term{Op: OpBvNot, W: a.W, Args: []*Term{a}})
}

func (ts *TermStore) BvNeg(a *Term) *Term {
	if a.IsConst() {
		return ts.BV(new(big.Int).Neg(a.Val), a.W)
	}
	return ts.mk(&Term{Op: OpBvNeg, W: a.W, Args: []*Term{a}})
}

func (ts *TermStore) Concat(hi, lo *Term) *Term {
	if hi.IsConst() && lo.IsConst() {
		v := new(big.Int).Lsh(hi.Val, uint(lo.W))
		v.Or(v, lo.Val)
		return ts.BV(v, hi.W+lo.W)
	}
	if isZero(hi) {
		return ts.Zext(lo, hi.W+lo.W)
	}
	// concat(extract(h,m+1,x), extract(m,l,x)) = extract(h,l,x)
	if hi.Op == OpExtract && lo.Op == OpExtract && hi.Args[0] == lo.Args[0] && hi.Lo == lo.Hi+1 {
		return ts.Extract(hi.Args[0], hi.Hi, lo.Lo)
	}
	return ts.mk(&Term{Op: OpConcat, W: hi.W + lo.W, Args: []*Term{hi, lo}})
}

func (ts *TermStore) Extract(a *Term, hi, lo int) *Term {
	if hi < lo || hi >= a.W || lo < 0 {
		panic(fmt.Sprintf("extract %d %d of width %d", hi, lo, a.W))
	}
	if lo == 0 && hi == a.W-1 {
		return a
	}
	if a.IsConst() {
		v := new(big.Int).Rsh(a.Val, uint(lo))
		return ts.BV(v, hi-lo+1)
	}
	switch a.Op {
	case OpExtract:
		return ts.Extract(a.Args[0], hi+a.Lo, lo+a.Lo)
	case OpZext:
		x := a.Args[0]
		if hi < x.W {
			return ts.Extract(x, hi, lo)
		}
		if lo >= x.W {
			return ts.BVu(0, hi-lo+1)
		}
		return ts.Zext(ts.Extract(x, x.W-1, lo), hi-lo+1)
	case OpSext:
		x := a.Args[0]
		if hi < x.W {
			return ts.Extract(x, hi, lo)
		}
	case OpConcat:
		h, l := a.Args[0], a.Args[1]
		if hi < l.W {
			return ts.Extract(l, hi, lo)
		}
		if lo >= l.W {
			return ts.Extract(h, hi-l.W, lo-l.W)
		}
		return ts.Concat(ts.Extract(h, hi-l.W, 0), ts.Extract(l, l.W-1, lo))
	case OpIte:
		if a.Args[1].IsConst() || a.Args[2].IsConst() {
			return ts.Ite(a.Args[0], ts.Extract(a.Args[1], hi, lo), ts.Extract(a.Args[2], hi, lo))
		}
	case OpBvAnd, OpBvOr, OpBvXor:
		if a.Args[0].IsConst() || a.Args[1].IsConst() {
			return ts.Bin(a.Op, ts.Extract(a.Args[0], hi, lo), ts.Extract(a.Args[1], hi, lo))
		}
	case OpBvLshr:
		// extract of (x >> k) for const k
		if a.Args[1].IsConst() && a.Args[1].Val.IsInt64() {
			k := int(a.Args[1].Val.Int64())
			if hi+k < a.W {
				return ts.Extract(a.Args[0], hi+k, lo+k)
			}
			if lo+k >= a.W {
				return ts.BVu(0, hi-lo+1)
			}
		}
	case OpBvShl:
		if a.Args[1].IsConst() && a.Args[1].Val.IsInt64() {
			k := int(a.Args[1].Val.Int64())
			if lo >= k {
				return ts.Extract(a.Args[0], hi-k, lo-k)
			}
			if hi < k {
				return ts.BVu(0, hi-lo+1)
			}
		}
	}
	return ts.mk(&Term{Op: OpExtract, W: hi - lo + 1, Args: []*Term{a}, Hi: hi, Lo: lo})
}

func (ts *TermStore) Zext(a *Term, w int) *Term {
	if w == a.W {
		return a
	}
	if w < a.W {
		panic("zext narrowing")
	}
	if a.IsConst() {
		return ts.BV(a.Val, w)
	}
	if a.Op == OpZext {
		return ts.Zext(a.Args[0], w)
	}
	if a.Op == OpIte && a.Args[1].IsConst() && a.Args[2].IsConst() {
		return ts.Ite(a.Args[0], ts.Zext(a.Args[1], w), ts.Zext(a.Args[2], w))
	}
	return ts.mk(&Term{Op: OpZext, W: w, Args: []*Term{a}})
}

func (ts *TermStore) Sext(a *Term, w int) *Term {
	if w == a.W {
		return a
	}
	if w < a.W {
		panic("sext narrowing")
	}
	if a.IsConst() {
		return ts.BV(toSigned(a.Val, a.W), w)
	}
	if a.Op == OpZext && a.Args[0].W < a.W {
		return ts.Zext(a.Args[0], w)
	}
	return ts.mk(&Term{Op: OpSext, W: w, Args: []*Term{a}})
}

// Resize converts a to width w, sign- or zero-extending, or truncating.
func (ts *TermStore) Resize(a *Term, w int, signed bool) *Term {
	if w == a.W {
		return a
	}
	if w < a.W {
		return ts.Extract(a, w-1, 0)
	}
	if signed {
		return ts.Sext(a, w)
	}
	return ts.Zext(a, w)
}

func (ts *TermStore) BoolToBV(c *Term, w int) *Term {
	return ts.Ite(c, ts.BVu(1, w), ts.BVu(0, w))
}

// ---------- printing ----------

func sortOf(t *Term) string {
	if t.W == 0 {
		return "Bool"
	}
	return fmt.Sprintf("(_ BitVec %d)", t.W)
}

func constStr(t *Term) string {
	if t.W == 0 {
		if t.Val.Sign() != 0 {
			return "true"
		}
		return "false"
	}
	if t.W%4 == 0 {
		s := t.Val.Text(16)
		return "#x" + strings.Repeat("0", t.W/4-len(s)) + s
	}
	s := t.Val.Text(2)
	return "#b" + strings.Repeat("0", t.W-len(s)) + s
}

// head returns the operator application string given printed arg names.
func (t *Term) apply(args []string) string {
	switch t.Op {
	case OpExtract:
		return fmt.Sprintf("((_ extract %d %d) %s)", t.Hi, t.Lo, args[0])
	case OpZext:
		return fmt.Sprintf("((_ zero_extend %d) %s)", t.W-t.Args[0].W, args[0])
	case OpSext:
		return fmt.Sprintf("((_ sign_extend %d) %s)", t.W-t.Args[0].W, args[0])
	}
	return "(" + opNames[t.Op] + " " + strings.Join(args, " ") + ")"
}

// Short gives a bounded-size rendering for diagnostics.
func (t *Term) Short() string {
	return t.render(4)
}

func (t *Term) render(depth int) string {
	switch t.Op {
	case OpConst:
		if t.W > 0 && t.Val.BitLen() <= 64 {
			return fmt.Sprintf("%d:bv%d", t.Val, t.W)
		}
		return constStr(t)
	case OpVar:
		return t.Name
	}
	if depth == 0 {
		return "…"
	}
	args := make([]string, len(t.Args))
	for i, a := range t.Args {
		args[i] = a.render(depth - 1)
	}
	return t.apply(args)
}

// Vars collects the free variables of t.
func CollectVars(t *Term, seen map[int]bool, out map[string]*Term) {
	if seen[t.ID] {
		return
	}
	seen[t.ID] = true
	if t.Op == OpVar {
		out[t.Name] = t
		return
	}
	for _, a := range t.Args {
		CollectVars(a, seen, out)
	}
}

// ---------- evaluation under a model ----------

type Model map[string]*big.Int

func (ts *TermStore) Eval(t *Term, m Model, cache map[int]*big.Int) *big.Int {
	if v, ok := cache[t.ID]; ok {
		return v
	}
	var r *big.Int
	switch t.Op {
	case OpConst:
		r = t.Val
	case OpVar:
		if v, ok := m[t.Name]; ok {
			r = v
		} else {
			r = big.NewInt(0)
		}
	default:
		args := make([]*Term, len(t.Args))
		for i, a := range t.Args {
			v := ts.Eval(a, m, cache)
			if a.W == 0 {
				args[i] = ts.Bool(v.Sign() != 0)
			} else {
				args[i] = ts.BV(v, a.W)
			}
		}
		var c *Term
		switch t.Op {
		case OpNot:
			c = ts.Not(args[0])
		case OpAnd:
			c = ts.And(args[0], args[1])
		case OpOr:
			c = ts.Or(args[0], args[1])
		case OpIte:
			c = ts.Ite(args[0], args[1], args[2])
		case OpEq:
			c = ts.Eq(args[0], args[1])
		case OpBvUlt, OpBvUle, OpBvSlt, OpBvSle:
			c = ts.Cmp(t.Op, args[0], args[1])
		case OpBvNot:
			c = ts.BvNot(args[0])
		case OpBvNeg:
			c = ts.BvNeg(args[0])
		case OpConcat:
			c = ts.Concat(args[0], args[1])
		case OpExtract:
			c = ts.Extract(args[0], t.Hi, t.Lo)
		case OpZext:
			c = ts.Zext(args[0], t.W)
		case OpSext:
			c = ts.Sext(args[0], t.W)
		default:
			c = ts.Bin(t.Op, args[0], args[1])
		}
		if !c.IsConst() {
			panic("eval did not fold: " + t.Short())
		}
		r = c.Val
	}
	cache[t.ID] = r
	return r
}
