package sym

import (
	"encoding/json"
	"fmt"
	"os"
	"path/filepath"
	"regexp"
	"sort"
	"strconv"
	"strings"

	"golang.org/x/tools/go/packages"
	"golang.org/x/tools/go/ssa"
	"golang.org/x/tools/go/ssa/ssautil"
)

type HarnessSpec struct {
	Name     string
	Prop     string
	Tier     string // "" = both tiers, "thorough" = thorough only, "quick" = quick only
	File     string // absolute path under /verif/harness
	PkgDir   string // relative to repo root, e.g. data/basics
	Opts     map[string]string
	Stubs    map[string]string // callee -> harness function name
	Expect   string            // "" pass expected; "known:<tag>" etc. (unused)
	Noops    []string          // function-name prefixes executed as no-ops returning zero values
}

var reDirective = regexp.MustCompile(`^//verif:(\w+)\s*(.*)$`)
var reFunc = regexp.MustCompile(`^func\s+(\w+)\s*\(`)

// Discover scans harnessRoot for zz_verif_*.go files and their directives.
func Discover(harnessRoot string) ([]HarnessSpec, error) {
	var out []HarnessSpec
	err := filepath.Walk(harnessRoot, func(p string, info os.FileInfo, err error) error {
		if err != nil || info.IsDir() || !strings.HasSuffix(p, ".go") || !strings.HasPrefix(filepath.Base(p), "zz_verif_") {
			return err
		}
		data, err := os.ReadFile(p)
		if err != nil {
			return err
		}
		rel, _ := filepath.Rel(harnessRoot, filepath.Dir(p))
		var pending *HarnessSpec
		fileStubs := map[string]string{}
		var fileNoops []string
		for _, line := range strings.Split(string(data), "\n") {
			line = strings.TrimRight(line, " \t\r")
			if m := reDirective.FindStringSubmatch(line); m != nil {
				switch m[1] {
				case "harness":
					pending = &HarnessSpec{File: p, PkgDir: rel, Opts: map[string]string{}, Stubs: map[string]string{}}
					for _, kv := range strings.Fields(m[2]) {
						if i := strings.Index(kv, "="); i > 0 {
							k, v := kv[:i], kv[i+1:]
							switch k {
							case "prop":
								pending.Prop = v
							case "tier":
								pending.Tier = v
							default:
								pending.Opts[k] = v
							}
						}
					}
				case "noop":
					if pending != nil {
						pending.Noops = append(pending.Noops, strings.TrimSpace(m[2]))
					} else {
						fileNoops = append(fileNoops, strings.TrimSpace(m[2]))
					}
				case "stub":
					parts := strings.SplitN(m[2], "=", 2)
					if len(parts) == 2 {
						c, f := strings.TrimSpace(parts[0]), strings.TrimSpace(parts[1])
						if pending != nil {
							pending.Stubs[c] = f
						} else {
							fileStubs[c] = f
						}
					}
				}
				continue
			}
			if m := reFunc.FindStringSubmatch(line); m != nil && pending != nil {
				pending.Name = m[1]
				for k, v := range fileStubs {
					if _, ok := pending.Stubs[k]; !ok {
						pending.Stubs[k] = v
					}
				}
				pending.Noops = append(pending.Noops, fileNoops...)
				out = append(out, *pending)
				pending = nil
			}
		}
		return nil
	})
	sort.Slice(out, func(i, j int) bool { return out[i].Name < out[j].Name })
	return out, err
}

func (h *HarnessSpec) OptInt(k string, def int) int {
	if v, ok := h.Opts[k]; ok {
		if n, err := strconv.Atoi(v); err == nil {
			return n
		}
	}
	return def
}

// TierOptInt looks up "<tier>.<k>" first (e.g. thorough.unwind=12), then k.
func (h *HarnessSpec) TierOptInt(tier, k string, def int) int {
	if v, ok := h.Opts[tier+"."+k]; ok {
		if n, err := strconv.Atoi(v); err == nil {
			return n
		}
	}
	return h.OptInt(k, def)
}

// Overlay holds virtual path -> content, and can be written out for `go test -overlay`.
type Overlay struct {
	Files map[string][]byte
}

var cgoFiles = []string{"crypto/curve25519.go", "crypto/batchverifier.go", "crypto/vrf.go"}

// BuildOverlay assembles: the verifrt package, cgo flag rewrites pointing at
// the hand-built libsodium, harness files and a generated replay test per package.
func BuildOverlay(repo, verifHome string, specs []HarnessSpec) (*Overlay, error) {
	ov := &Overlay{Files: map[string][]byte{}}
	rt, err := filepath.Glob(filepath.Join(verifHome, "verifrt", "*.go"))
	if err != nil {
		return nil, err
	}
	for _, f := range rt {
		b, err := os.ReadFile(f)
		if err != nil {
			return nil, err
		}
		ov.Files[filepath.Join(repo, "internal", "verifrt", filepath.Base(f))] = b
	}
	sod := filepath.Join(verifHome, ".build", "libsodium")
	for _, cf := range cgoFiles {
		p := filepath.Join(repo, cf)
		b, err := os.ReadFile(p)
		if err != nil {
			return nil, err
		}
		s := string(b)
		lines := strings.Split(s, "\n")
		for i, l := range lines {
			if strings.HasPrefix(l, "// #cgo linux,amd64 CFLAGS:") {
				lines[i] = "// #cgo linux,amd64 CFLAGS: -I" + sod + "/include"
			} else if strings.HasPrefix(l, "// #cgo linux,amd64 LDFLAGS:") {
				lines[i] = "// #cgo linux,amd64 LDFLAGS: " + sod + "/lib/libsodium.a"
			}
		}
		ov.Files[p] = []byte(strings.Join(lines, "\n"))
	}
	byPkg := map[string][]HarnessSpec{}
	files := map[string]bool{}
	for _, s := range specs {
		byPkg[s.PkgDir] = append(byPkg[s.PkgDir], s)
		files[s.File] = true
	}
	// shared helper files next to the harness files
	for f := range files {
		common, _ := filepath.Glob(filepath.Join(filepath.Dir(f), "zz_verif_common*.go"))
		for _, c := range common {
			files[c] = true
		}
	}
	harnessRoot := filepath.Join(verifHome, "harness")
	// helper files declared for this property: a line "//verif:helper prop=C02"
	// (repeatable) makes a harness-less file part of that property's overlay.
	if len(specs) > 0 {
		want := "//verif:helper prop=" + specs[0].Prop
		filepath.WalkDir(harnessRoot, func(path string, d os.DirEntry, err error) error {
			if err != nil || d.IsDir() || !strings.HasPrefix(filepath.Base(path), "zz_verif_") || !strings.HasSuffix(path, ".go") || files[path] {
				return nil
			}
			b, err := os.ReadFile(path)
			if err != nil {
				return nil
			}
			for _, l := range strings.Split(string(b), "\n") {
				if strings.TrimSpace(l) == want {
					files[path] = true
					break
				}
			}
			return nil
		})
	}
	for f := range files {
		b, err := os.ReadFile(f)
		if err != nil {
			return nil, err
		}
		rel, _ := filepath.Rel(harnessRoot, f)
		ov.Files[filepath.Join(repo, rel)] = b
	}
	rewritten := map[string]*hookAssign{}
	for dir, hs := range byPkg {
		// package name: read from the first harness file
		b, _ := os.ReadFile(hs[0].File)
		pkgName := ""
		for _, l := range strings.Split(string(b), "\n") {
			if strings.HasPrefix(l, "package ") {
				pkgName = strings.TrimSpace(strings.TrimPrefix(l, "package "))
				break
			}
		}
		// native stub substitution: rewrite stub targets to consult a hook variable
		thisPkg := modulePath + "/" + dir
		imports := map[string]string{} // pkg path -> alias
		allHooks := map[string]bool{}  // qualified hook expressions
		setups := map[string][]string{}
		for _, h := range hs {
			callees := make([]string, 0, len(h.Stubs))
			for c := range h.Stubs {
				callees = append(callees, c)
			}
			sort.Strings(callees)
			for _, c := range callees {
				hk, done := rewritten[c]
				if !done {
					var err error
					hk, err = rewriteStub(repo, ov, c)
					if err != nil {
						return nil, err
					}
					rewritten[c] = hk
				}
				if hk == nil {
					continue
				}
				q := hk.Var
				if hk.PkgPath != thisPkg {
					al, ok := imports[hk.PkgPath]
					if !ok {
						al = fmt.Sprintf("vh%d", len(imports))
						imports[hk.PkgPath] = al
					}
					q = al + "." + hk.Var
				}
				allHooks[q] = true
				setups[h.Name] = append(setups[h.Name], fmt.Sprintf("%s = %s", q, h.Stubs[c]))
			}
		}
		var sb strings.Builder
		sb.WriteString("//go:build verif\n\npackage " + pkgName + "\n\nimport (\n\t\"testing\"\n\n\tvr \"github.com/algorand/go-algorand/internal/verifrt\"\n")
		ipaths := make([]string, 0, len(imports))
		for p := range imports {
			ipaths = append(ipaths, p)
		}
		sort.Strings(ipaths)
		for _, p := range ipaths {
			fmt.Fprintf(&sb, "\t%s %q\n", imports[p], p)
		}
		sb.WriteString(")\n\n")
		sb.WriteString("func verifResetHooks() {\n")
		hookList := make([]string, 0, len(allHooks))
		for q := range allHooks {
			hookList = append(hookList, q)
		}
		sort.Strings(hookList)
		for _, q := range hookList {
			fmt.Fprintf(&sb, "\t%s = nil\n", q)
		}
		sb.WriteString("}\n\n")
		sb.WriteString("func TestVerifReplay(t *testing.T) {\n\tvr.RunReplay(t, map[string]func(){\n")
		seen := map[string]bool{}
		for _, h := range hs {
			if !seen[h.Name] {
				seen[h.Name] = true
				fmt.Fprintf(&sb, "\t\t%q: func() {\n\t\t\tverifResetHooks()\n", h.Name)
				for _, a := range setups[h.Name] {
					fmt.Fprintf(&sb, "\t\t\t%s\n", a)
				}
				fmt.Fprintf(&sb, "\t\t\tdefer verifResetHooks()\n\t\t\t%s()\n\t\t},\n", h.Name)
			}
		}
		sb.WriteString("\t})\n}\n")
		ov.Files[filepath.Join(repo, dir, "zz_verif_replay_test.go")] = []byte(sb.String())
	}
	return ov, nil
}

// WriteJSON materialises the overlay under dir and writes dir/overlay.json.
func (ov *Overlay) WriteJSON(dir string) (string, error) {
	if err := os.MkdirAll(filepath.Join(dir, "ov"), 0o755); err != nil {
		return "", err
	}
	repl := map[string]string{}
	i := 0
	keys := make([]string, 0, len(ov.Files))
	for k := range ov.Files {
		keys = append(keys, k)
	}
	sort.Strings(keys)
	for _, k := range keys {
		i++
		real := filepath.Join(dir, "ov", fmt.Sprintf("%03d_%s", i, filepath.Base(k)))
		if err := os.WriteFile(real, ov.Files[k], 0o644); err != nil {
			return "", err
		}
		repl[k] = real
	}
	b, _ := json.MarshalIndent(map[string]interface{}{"Replace": repl}, "", " ")
	p := filepath.Join(dir, "overlay.json")
	return p, os.WriteFile(p, b, 0o644)
}

// LoadProgram loads the given package dirs (relative to repo) with the overlay and builds SSA.
func LoadProgram(repo string, pkgDirs []string, ov *Overlay) (*ssa.Program, []*packages.Package, error) {
	pats := make([]string, len(pkgDirs))
	for i, d := range pkgDirs {
		pats[i] = "./" + d
	}
	cfg := &packages.Config{
		Mode:       packages.LoadAllSyntax,
		Dir:        repo,
		Overlay:    ov.Files,
		// math_big_pure_go / purego: load the pure-Go variants of math/big and the
		// standard crypto packages (same semantics as the assembly the native build uses)
		BuildFlags: []string{"-tags=verif,math_big_pure_go,purego"},
		Env:        append(os.Environ(), "GOFLAGS=-mod=mod", "GOPROXY=off"),
		Tests:      false,
	}
	pkgs, err := packages.Load(cfg, pats...)
	if err != nil {
		return nil, nil, err
	}
	var errs []string
	packages.Visit(pkgs, nil, func(p *packages.Package) {
		for _, e := range p.Errors {
			errs = append(errs, e.Error())
		}
	})
	if len(errs) > 0 {
		if len(errs) > 12 {
			errs = errs[:12]
		}
		return nil, pkgs, fmt.Errorf("package errors:\n%s", strings.Join(errs, "\n"))
	}
	prog, _ := ssautil.AllPackages(pkgs, ssa.InstantiateGenerics)
	prog.Build()
	return prog, pkgs, nil
}

func FindHarness(prog *ssa.Program, pkgs []*packages.Package, pkgDir, name string) *ssa.Function {
	for _, p := range pkgs {
		if strings.HasSuffix(p.PkgPath, "/"+pkgDir) || p.PkgPath == pkgDir {
			sp := prog.Package(p.Types)
			if sp != nil {
				if f := sp.Func(name); f != nil {
					return f
				}
			}
		}
	}
	return nil
}

// ResolveStub finds a function by its ssa String() name among all packages.
func ResolveFunc(prog *ssa.Program, pkg *ssa.Package, name string) *ssa.Function {
	if f := pkg.Func(name); f != nil {
		return f
	}
	return nil
}
