package sym

import (
	"fmt"
	"go/types"
	"strings"

	"golang.org/x/tools/go/ssa"
)

// Value is one of: *Term, *StructV, *ArrayV, *PtrV, *SliceV, *StringV, *MapV,
// *ChanV, *IfaceV, *FuncV, *TupleV, *FloatV, *IterV, *PoisonV.
type Value interface{}

type StructV struct {
	F   []Value
	own *State // non-nil: uniquely owned by that state (in-place update allowed)
}

type ArrayV struct {
	E   []Value
	own *State
}

type PathElem struct {
	Field  int   // >=0: struct field
	Idx    *Term // non-nil: array index (64-bit term), Field == -1
	Lo, Hi int   // feasible index window [Lo,Hi) (Hi==0: whole array)
}

// PtrV: Obj==0 is nil. Special kinds: Kind=="" normal; "func" for opaque tokens.
type PtrV struct {
	Obj  int
	Path []PathElem
}

type SliceV struct {
	Arr      *PtrV // pointer to the backing ArrayV; nil for nil slice
	Off      int
	Len, Cap int
}

type StringV struct {
	B []*Term // BV8 each
}

type MapV struct{ Obj int }  // 0 = nil map
type ChanV struct{ Obj int } // 0 = nil chan

type IfaceV struct {
	T types.Type // nil = nil interface
	V Value
}

type FuncV struct {
	Fn   *ssa.Function // nil = nil func (unless Native != "")
	Bind []Value
	Native string // engine-provided function value
}

type TupleV struct{ E []Value }

type FloatV struct{ F float64 }

type PoisonV struct{ Why string }

type IterV struct {
	Keys []Value
	Vals []Value
	Str  *StringV
	I    int
	IsStr bool
}

// heap objects
type Obj struct {
	ID    int
	Val   Value // for plain allocs: the value; for maps *MapObj; for chans *ChanObj
	T     types.Type
	owner *State
	Name  string
}

type MapEntry struct {
	K, V Value
}
type MapObj struct {
	E []MapEntry
}
type ChanObj struct {
	Buf    []Value
	Cap    int
	Closed bool
	Nondet string // non-empty: a stub channel delivering nondeterministic values
}

func (p *PtrV) IsNil() bool { return p.Obj == 0 }

func describe(v Value) string {
	switch x := v.(type) {
	case nil:
		return "<nil-value>"
	case *Term:
		return x.Short()
	case *StructV:
		parts := []string{}
		for i, f := range x.F {
			if i > 6 {
				parts = append(parts, "…")
				break
			}
			parts = append(parts, describe(f))
		}
		return "{" + strings.Join(parts, ",") + "}"
	case *ArrayV:
		parts := []string{}
		for i, f := range x.E {
			if i > 8 {
				parts = append(parts, "…")
				break
			}
			parts = append(parts, describe(f))
		}
		return "[" + strings.Join(parts, ",") + "]"
	case *PtrV:
		if x.Obj == 0 {
			return "nilptr"
		}
		return fmt.Sprintf("&o%d%v", x.Obj, pathStr(x.Path))
	case *SliceV:
		if x.Arr == nil {
			return "nilslice"
		}
		return fmt.Sprintf("slice(o%d%v,off=%d,len=%d,cap=%d)", x.Arr.Obj, pathStr(x.Arr.Path), x.Off, x.Len, x.Cap)
	case *StringV:
		var sb strings.Builder
		sb.WriteByte('"')
		for i, b := range x.B {
			if i > 40 {
				sb.WriteString("…")
				break
			}
			if b.IsConst() {
				c := byte(b.Val.Uint64())
				if c >= 32 && c < 127 {
					sb.WriteByte(c)
				} else {
					fmt.Fprintf(&sb, "\\x%02x", c)
				}
			} else {
				sb.WriteString("?")
			}
		}
		sb.WriteByte('"')
		return sb.String()
	case *MapV:
		return fmt.Sprintf("map(o%d)", x.Obj)
	case *ChanV:
		return fmt.Sprintf("chan(o%d)", x.Obj)
	case *IfaceV:
		if x.T == nil {
			return "niliface"
		}
		return fmt.Sprintf("iface(%s:%s)", x.T, describe(x.V))
	case *FuncV:
		if x.Fn == nil {
			if x.Native != "" {
				return "native:" + x.Native
			}
			return "nilfunc"
		}
		return "func:" + x.Fn.String()
	case *TupleV:
		parts := []string{}
		for _, f := range x.E {
			parts = append(parts, describe(f))
		}
		return "(" + strings.Join(parts, ",") + ")"
	case *FloatV:
		return fmt.Sprintf("%g", x.F)
	case *WideV:
		return "Z(" + x.T.Short() + ")"
	case *PoisonV:
		return "POISON(" + x.Why + ")"
	case *IterV:
		return "iter"
	}
	return fmt.Sprintf("%T", v)
}

func pathStr(p []PathElem) string {
	var sb strings.Builder
	for _, e := range p {
		if e.Idx != nil {
			fmt.Fprintf(&sb, "[%s]", e.Idx.Short())
		} else {
			fmt.Fprintf(&sb, ".%d", e.Field)
		}
	}
	return sb.String()
}

func intWidth(b *types.Basic) (w int, signed bool) {
	switch b.Kind() {
	case types.Bool, types.UntypedBool:
		return 0, false
	case types.Int8:
		return 8, true
	case types.Int16:
		return 16, true
	case types.Int32, types.UntypedRune:
		return 32, true
	case types.Int, types.Int64, types.UntypedInt:
		return 64, true
	case types.Uint8:
		return 8, false
	case types.Uint16:
		return 16, false
	case types.Uint32:
		return 32, false
	case types.Uint, types.Uint64, types.Uintptr:
		return 64, false
	}
	return -1, false
}

func isFloat(t types.Type) bool {
	b, ok := t.Underlying().(*types.Basic)
	return ok && b.Info()&(types.IsFloat|types.IsComplex) != 0
}

func isString(t types.Type) bool {
	b, ok := t.Underlying().(*types.Basic)
	return ok && b.Info()&types.IsString != 0
}

// scalarWidth returns (width, signed, ok) for bool/int types.
func scalarWidth(t types.Type) (int, bool, bool) {
	b, ok := t.Underlying().(*types.Basic)
	if !ok {
		return 0, false, false
	}
	w, s := intWidth(b)
	if w < 0 {
		return 0, false, false
	}
	return w, s, true
}

func (e *Engine) zero(t types.Type) Value {
	switch u := t.Underlying().(type) {
	case *types.Basic:
		if w, _ := intWidth(u); w == 0 {
			return e.ts.False
		} else if w > 0 {
			return e.ts.BVu(0, w)
		}
		if u.Info()&types.IsString != 0 {
			return &StringV{}
		}
		if u.Info()&types.IsFloat != 0 {
			return &FloatV{}
		}
		if u.Kind() == types.UnsafePointer {
			return &PtrV{}
		}
		if u.Kind() == types.UntypedNil {
			return &PtrV{}
		}
		return &PoisonV{"zero of " + t.String()}
	case *types.Pointer:
		return &PtrV{}
	case *types.Slice:
		return &SliceV{}
	case *types.Map:
		return &MapV{}
	case *types.Chan:
		return &ChanV{}
	case *types.Signature:
		return &FuncV{}
	case *types.Interface:
		return &IfaceV{}
	case *types.Struct:
		s := &StructV{F: make([]Value, u.NumFields())}
		for i := range s.F {
			s.F[i] = e.zero(u.Field(i).Type())
		}
		return s
	case *types.Array:
		n := int(u.Len())
		a := &ArrayV{E: make([]Value, n)}
		if n > 0 {
			z := e.zero(u.Elem())
			for i := range a.E {
				a.E[i] = z
			}
		}
		return a
	case *types.Tuple:
		tv := &TupleV{E: make([]Value, u.Len())}
		for i := range tv.E {
			tv.E[i] = e.zero(u.At(i).Type())
		}
		return tv
	}
	return &PoisonV{"zero of " + t.String()}
}

// valEq builds the term a == b for comparable values of the same static type.
func (e *Engine) valEq(a, b Value) *Term {
	ts := e.ts
	switch x := a.(type) {
	case *Term:
		y, ok := b.(*Term)
		if !ok {
			return ts.False
		}
		return ts.Eq(x, y)
	case *StructV:
		y := b.(*StructV)
		r := ts.True
		for i := range x.F {
			r = ts.And(r, e.valEq(x.F[i], y.F[i]))
			if r.IsFalse() {
				return r
			}
		}
		return r
	case *ArrayV:
		y := b.(*ArrayV)
		r := ts.True
		for i := range x.E {
			r = ts.And(r, e.valEq(x.E[i], y.E[i]))
			if r.IsFalse() {
				return r
			}
		}
		return r
	case *StringV:
		y := b.(*StringV)
		if len(x.B) != len(y.B) {
			return ts.False
		}
		r := ts.True
		for i := range x.B {
			r = ts.And(r, ts.Eq(x.B[i], y.B[i]))
			if r.IsFalse() {
				return r
			}
		}
		return r
	case *PtrV:
		y, ok := b.(*PtrV)
		if !ok {
			return ts.False
		}
		if x.Obj != y.Obj || len(x.Path) != len(y.Path) {
			return ts.False
		}
		r := ts.True
		for i := range x.Path {
			p, q := x.Path[i], y.Path[i]
			if (p.Idx == nil) != (q.Idx == nil) {
				return ts.False
			}
			if p.Idx == nil {
				if p.Field != q.Field {
					return ts.False
				}
			} else {
				r = ts.And(r, ts.Eq(p.Idx, q.Idx))
			}
		}
		return r
	case *IfaceV:
		y, ok := b.(*IfaceV)
		if !ok {
			return ts.False
		}
		if x.T == nil || y.T == nil {
			return ts.Bool(x.T == nil && y.T == nil)
		}
		if !types.Identical(x.T, y.T) {
			return ts.False
		}
		return e.valEq(x.V, y.V)
	case *MapV:
		y, ok := b.(*MapV)
		return ts.Bool(ok && x.Obj == y.Obj)
	case *ChanV:
		y, ok := b.(*ChanV)
		return ts.Bool(ok && x.Obj == y.Obj)
	case *FuncV:
		y, ok := b.(*FuncV)
		return ts.Bool(ok && x.Fn == y.Fn && x.Native == y.Native && x.Fn == nil)
	case *SliceV:
		// only comparison with nil is legal
		y, ok := b.(*SliceV)
		if ok && (x.Arr == nil || y.Arr == nil) {
			return ts.Bool(x.Arr == nil && y.Arr == nil)
		}
		return ts.False
	case *FloatV:
		y, ok := b.(*FloatV)
		return ts.Bool(ok && x.F == y.F)
	case *WideV:
		y, ok := b.(*WideV)
		if !ok {
			return ts.False
		}
		w := max(x.T.W, y.T.W)
		return ts.Eq(ts.Sext(x.T, w), ts.Sext(y.T, w))
	}
	panic(fmt.Sprintf("valEq: unsupported %T", a))
}

// mergeVal builds ite(c, a, b) structurally; ok=false when shapes differ.
func (e *Engine) mergeVal(c *Term, a, b Value) (Value, bool) {
	if c.IsTrue() {
		return a, true
	}
	if c.IsFalse() {
		return b, true
	}
	if a == b {
		return a, true
	}
	ts := e.ts
	switch x := a.(type) {
	case *Term:
		y, ok := b.(*Term)
		if !ok || x.W != y.W {
			return nil, false
		}
		return ts.Ite(c, x, y), true
	case *StructV:
		y, ok := b.(*StructV)
		if !ok || len(x.F) != len(y.F) {
			return nil, false
		}
		r := &StructV{F: make([]Value, len(x.F))}
		for i := range x.F {
			m, ok := e.mergeVal(c, x.F[i], y.F[i])
			if !ok {
				return nil, false
			}
			r.F[i] = m
		}
		return r, true
	case *ArrayV:
		y, ok := b.(*ArrayV)
		if !ok || len(x.E) != len(y.E) {
			return nil, false
		}
		r := &ArrayV{E: make([]Value, len(x.E))}
		for i := range x.E {
			m, ok := e.mergeVal(c, x.E[i], y.E[i])
			if !ok {
				return nil, false
			}
			r.E[i] = m
		}
		return r, true
	case *StringV:
		y, ok := b.(*StringV)
		if !ok || len(x.B) != len(y.B) {
			return nil, false
		}
		r := &StringV{B: make([]*Term, len(x.B))}
		for i := range x.B {
			r.B[i] = ts.Ite(c, x.B[i], y.B[i])
		}
		return r, true
	case *PtrV:
		y, ok := b.(*PtrV)
		if !ok || x.Obj != y.Obj || len(x.Path) != len(y.Path) {
			return nil, false
		}
		r := &PtrV{Obj: x.Obj, Path: make([]PathElem, len(x.Path))}
		for i := range x.Path {
			p, q := x.Path[i], y.Path[i]
			if (p.Idx == nil) != (q.Idx == nil) || p.Field != q.Field {
				return nil, false
			}
			r.Path[i] = p
			if p.Idx != nil {
				r.Path[i].Idx = ts.Ite(c, p.Idx, q.Idx)
			}
		}
		return r, true
	case *SliceV:
		y, ok := b.(*SliceV)
		if !ok {
			return nil, false
		}
		if x.Arr == nil && y.Arr == nil {
			return x, true
		}
		if x.Arr == nil || y.Arr == nil || x.Off != y.Off || x.Len != y.Len || x.Cap != y.Cap {
			return nil, false
		}
		if !e.valEq(x.Arr, y.Arr).IsTrue() {
			return nil, false
		}
		return x, true
	case *IfaceV:
		y, ok := b.(*IfaceV)
		if !ok {
			return nil, false
		}
		if x.T == nil && y.T == nil {
			return x, true
		}
		if x.T == nil || y.T == nil || !types.Identical(x.T, y.T) {
			return nil, false
		}
		m, ok := e.mergeVal(c, x.V, y.V)
		if !ok {
			return nil, false
		}
		return &IfaceV{T: x.T, V: m}, true
	case *MapV:
		y, ok := b.(*MapV)
		if ok && x.Obj == y.Obj {
			return x, true
		}
	case *ChanV:
		y, ok := b.(*ChanV)
		if ok && x.Obj == y.Obj {
			return x, true
		}
	case *FuncV:
		y, ok := b.(*FuncV)
		if ok && x.Fn == y.Fn && x.Native == y.Native && len(x.Bind) == 0 && len(y.Bind) == 0 {
			return x, true
		}
	case *TupleV:
		y, ok := b.(*TupleV)
		if !ok || len(x.E) != len(y.E) {
			return nil, false
		}
		r := &TupleV{E: make([]Value, len(x.E))}
		for i := range x.E {
			m, ok := e.mergeVal(c, x.E[i], y.E[i])
			if !ok {
				return nil, false
			}
			r.E[i] = m
		}
		return r, true
	case *FloatV:
		y, ok := b.(*FloatV)
		if ok && x.F == y.F {
			return x, true
		}
	case *WideV:
		y, ok := b.(*WideV)
		if !ok {
			if sv, isS := b.(*StructV); isS && len(sv.F) == 1 {
				y = &WideV{ts.BVu(0, 2)}
			} else {
				return nil, false
			}
		}
		w := max(x.T.W, y.T.W)
		return &WideV{ts.Ite(c, ts.Sext(x.T, w), ts.Sext(y.T, w))}, true
	}
	return nil, false
}

// isConcrete reports whether every scalar inside v is a constant.
func isConcrete(v Value) bool {
	switch x := v.(type) {
	case *Term:
		return x.IsConst()
	case *StructV:
		for _, f := range x.F {
			if !isConcrete(f) {
				return false
			}
		}
	case *ArrayV:
		for _, f := range x.E {
			if !isConcrete(f) {
				return false
			}
		}
	case *StringV:
		for _, b := range x.B {
			if !b.IsConst() {
				return false
			}
		}
	case *IfaceV:
		if x.T != nil {
			return isConcrete(x.V)
		}
	case *PtrV:
		for _, p := range x.Path {
			if p.Idx != nil && !p.Idx.IsConst() {
				return false
			}
		}
	}
	return true
}

func (e *Engine) strConst(s string) *StringV {
	r := &StringV{B: make([]*Term, len(s))}
	for i := 0; i < len(s); i++ {
		r.B[i] = e.ts.BVu(uint64(s[i]), 8)
	}
	return r
}

// concreteString returns the Go string if all bytes are constants.
func concreteString(s *StringV) (string, bool) {
	b := make([]byte, len(s.B))
	for i, t := range s.B {
		if !t.IsConst() {
			return "", false
		}
		b[i] = byte(t.Val.Uint64())
	}
	return string(b), true
}
