package sym

import (
	"fmt"
	"go/types"
	"math/big"
	"os"
	"sort"
	"strings"
	"sync"
	"time"

	"golang.org/x/tools/go/ssa"
)

type Config struct {
	Unwind              int // max symbolic-branch decisions per If instruction per frame activation
	MaxSteps            int // per path
	MaxPaths            int
	MaxValues           int // concretization fan-out cap
	MaxDepth            int // call depth
	TimeoutMS           int
	PanicsAreViolations bool
	CrossN              int
	Verbose             bool
	Deadline            time.Time
	Concrete            *Tape // non-nil: concrete mode, Nondet* read this tape
	Tier                string
	NoMerge             bool
}

type Violation struct {
	Tag    string
	Kind   string // "assert", "panic", "unreachable"
	Where  string
	Model  Model
	Tape   []TapeEntry
	Detail string
	UF     []UFEntry
}

type TapeEntry struct {
	Label string `json:"label"`
	Kind  string `json:"kind"`
	Val   string `json:"val"` // decimal
}

type Tape struct {
	Entries []TapeEntry `json:"entries"`
	UF      []UFEntry   `json:"uf,omitempty"`
}

type UFEntry struct {
	Name string `json:"name"`
	In   string `json:"in"`  // hex
	Out  string `json:"out"` // hex
}

type PathSample struct {
	Outcome string   `json:"outcome"`
	PC      []string `json:"pc"`
	Steps   int      `json:"steps"`
}

type Report struct {
	Harness        string
	Paths          int
	PathsByOutcome map[string]int
	Obligations    int
	Trivial        int
	Discharged     int
	Violations     []Violation
	Inconclusive   []string // reasons
	Reached        map[string]int
	ReachModels    map[string][]TapeEntry
	Steps          int
	Forks          int
	FuncsEncoded   map[string]int // function -> instructions executed
	Models         map[string]int // engine models / stubs hit
	Assumptions    map[string]int
	Samples        []PathSample
	DistinctObl    map[int]bool
	Solver         SolverStats
	Wall           time.Duration
	MaxUnwindSeen  int
	WitnessHits    int
	ObligationTags map[string]int
}

type Engine struct {
	prog           *ssa.Program
	ts             *TermStore
	solver         *Solver
	cfg            Config
	work           []*State
	stateSeq       int
	objSeq         int
	rep            *Report
	stubs          map[string]*ssa.Function
	fnInfos        sync.Map
	initStores     map[*ssa.Package]map[*ssa.Global]bool
	violTags       map[string]bool
	fresh          int
	noopT          map[string]types.Type
	cur            *State
	harnessPkg     *ssa.Package
	feasCache      map[string]Result
	initCache      map[*ssa.Package]*initSnap
	foreignWriters map[*ssa.Global][]*ssa.Package
	mergeMemo      map[string][]*mergeMemoEntry
	noops          []string
}

func NewEngine(prog *ssa.Program, cfg Config) (*Engine, error) {
	runLate()
	ts := NewTermStore()
	if cfg.Unwind == 0 {
		cfg.Unwind = 8
	}
	if cfg.MaxSteps == 0 {
		cfg.MaxSteps = 5_000_000
	}
	if cfg.MaxPaths == 0 {
		cfg.MaxPaths = 200_000
	}
	if cfg.MaxValues == 0 {
		cfg.MaxValues = 64
	}
	if cfg.MaxDepth == 0 {
		cfg.MaxDepth = 200
	}
	if cfg.TimeoutMS == 0 {
		cfg.TimeoutMS = 20000
	}
	s, err := NewSolver(ts, cfg.TimeoutMS)
	if err != nil {
		return nil, err
	}
	s.CrossN = cfg.CrossN
	s.DumpDir = os.Getenv("VERIF_DUMP")
	e := &Engine{prog: prog, ts: ts, solver: s, cfg: cfg,
		stubs: map[string]*ssa.Function{}, violTags: map[string]bool{},
		initStores: map[*ssa.Package]map[*ssa.Global]bool{}, noopT: map[string]types.Type{},
		feasCache: map[string]Result{}, initCache: map[*ssa.Package]*initSnap{}, mergeMemo: map[string][]*mergeMemoEntry{}}
	return e, nil
}

func (e *Engine) Close() { e.solver.Close() }

func (e *Engine) AddStub(callee string, fn *ssa.Function) { e.stubs[callee] = fn }
func (e *Engine) AddNoop(prefix string)                   { e.noops = append(e.noops, prefix) }

func (e *Engine) info(fn *ssa.Function) *fnInfo {
	if v, ok := e.fnInfos.Load(fn); ok {
		return v.(*fnInfo)
	}
	fi := &fnInfo{idx: map[ssa.Value]int{}}
	add := func(v ssa.Value) {
		fi.idx[v] = fi.n
		fi.n++
	}
	for _, p := range fn.Params {
		add(p)
	}
	for _, p := range fn.FreeVars {
		add(p)
	}
	for _, b := range fn.Blocks {
		for _, in := range b.Instrs {
			if v, ok := in.(ssa.Value); ok {
				add(v)
			}
		}
	}
	e.fnInfos.Store(fn, fi)
	return fi
}

// control-flow signals raised inside instruction execution
type sigRetry struct{}            // state changed (frame pushed / forked); re-run the step loop
type sigDead struct{ why string } // path ends here
type sigUnsupported struct{ what string }

func (e *Engine) unsupported(format string, a ...interface{}) {
	panic(sigUnsupported{fmt.Sprintf(format, a...)})
}

func (e *Engine) newReport(name string) *Report {
	return &Report{Harness: name, PathsByOutcome: map[string]int{}, Reached: map[string]int{},
		ReachModels: map[string][]TapeEntry{}, FuncsEncoded: map[string]int{}, Models: map[string]int{},
		Assumptions: map[string]int{}, DistinctObl: map[int]bool{}, ObligationTags: map[string]int{}}
}

// Run symbolically executes the harness function and returns the report.
func (e *Engine) Run(fn *ssa.Function) *Report {
	t0 := time.Now()
	e.rep = e.newReport(fn.Name())
	e.harnessPkg = fn.Pkg
	st := &State{heap: map[int]*Obj{}, ep: &epoch{}, globals: map[*ssa.Global]int{}, inited: map[*ssa.Package]bool{},
		known: map[int]*Term{}, reached: map[string]bool{}, flags: map[string]string{}, ufApps: map[string][]ufApp{},
		seq: map[string]int{}, ghost: map[string]Value{}, multi: map[int]bool{}}
	e.pushFrame(st, fn, nil, retTop)
	e.work = []*State{st}
	for len(e.work) > 0 {
		if e.rep.Paths >= e.cfg.MaxPaths {
			e.rep.Inconclusive = append(e.rep.Inconclusive, fmt.Sprintf("path budget %d exhausted with %d states pending", e.cfg.MaxPaths, len(e.work)))
			break
		}
		if !e.cfg.Deadline.IsZero() && time.Now().After(e.cfg.Deadline) {
			e.rep.Inconclusive = append(e.rep.Inconclusive, fmt.Sprintf("deadline reached with %d states pending", len(e.work)))
			break
		}
		s := e.work[len(e.work)-1]
		e.work = e.work[:len(e.work)-1]
		e.runPath(s)
	}
	e.rep.Solver = e.solver.Stats
	for _, er := range e.solver.Stats.Errors {
		e.rep.Inconclusive = append(e.rep.Inconclusive, "solver: "+er)
	}
	e.rep.Wall = time.Since(t0)
	return e.rep
}

func (e *Engine) finishPath(st *State, outcome string) {
	st.done = true
	st.outcome = outcome
	e.rep.Paths++
	e.rep.PathsByOutcome[outcome]++
	e.rep.Steps += st.steps
	for k := range st.reached {
		e.rep.Reached[k]++
	}
	for k, kind := range st.flags {
		if kind == "unsupported" || kind == "unknown" || kind == "bound" || kind == "poison" {
			e.rep.Inconclusive = appendUniq(e.rep.Inconclusive, k)
		}
	}
	if len(e.rep.Samples) < 6 || (outcome != "ok" && len(e.rep.Samples) < 12) {
		ps := PathSample{Outcome: outcome, Steps: st.steps}
		for i, c := range st.pc {
			if i >= 12 {
				ps.PC = append(ps.PC, fmt.Sprintf("… (%d more)", len(st.pc)-i))
				break
			}
			ps.PC = append(ps.PC, c.render(6))
		}
		e.rep.Samples = append(e.rep.Samples, ps)
	}
	if e.cfg.Verbose {
		fmt.Printf("  path %d: %s steps=%d pc=%d\n", e.rep.Paths, outcome, st.steps, len(st.pc))
	}
}

func appendUniq(xs []string, s string) []string {
	for _, x := range xs {
		if x == s {
			return xs
		}
	}
	if len(xs) > 40 {
		return xs
	}
	return append(xs, s)
}

func (e *Engine) runPath(st *State) {
	e.cur = st
	for !st.done {
		e.stepSafe(st)
	}
}

func (e *Engine) stepSafe(st *State) {
	defer func() {
		if r := recover(); r != nil {
			switch s := r.(type) {
			case sigRetry:
			case sigDead:
				if !st.done {
					e.finishPath(st, s.why)
				}
			case sigUnsupported:
				if e.lenient(st) {
					e.abortInit(st, s.what)
					return
				}
				st.flag("unsupported", s.what+" @ "+e.where(st))
				e.finishPath(st, "unsupported")
			default:
				panic(r)
			}
		}
	}()
	e.step(st)
}

func (e *Engine) where(st *State) string {
	if len(st.frames) == 0 {
		return "?"
	}
	fr := st.top()
	if fr.fn == nil {
		return "native"
	}
	pos := ""
	if fr.block != nil && fr.ip < len(fr.block.Instrs) {
		p := e.prog.Fset.Position(fr.block.Instrs[fr.ip].Pos())
		if p.IsValid() {
			pos = fmt.Sprintf(" %s:%d", shortFile(p.Filename), p.Line)
		}
	}
	return fr.fn.String() + pos
}

func shortFile(f string) string {
	if i := strings.Index(f, "/repo/"); i >= 0 {
		return f[i+6:]
	}
	if i := strings.LastIndex(f, "/pkg/mod/"); i >= 0 {
		return f[i+9:]
	}
	return f
}

func (e *Engine) stackTrace(st *State) string {
	var sb strings.Builder
	for i := len(st.frames) - 1; i >= 0 && i >= len(st.frames)-8; i-- {
		fr := st.frames[i]
		if fr.fn != nil {
			sb.WriteString(fr.fn.String())
			sb.WriteString(" <- ")
		}
	}
	return sb.String()
}

// ---------- deciding symbolic conditions ----------

// Witness is a model known to satisfy a state's path condition; it lets most
// branch-feasibility questions be answered by evaluation instead of a query.
type Witness struct {
	m     Model
	cache map[int]*big.Int
}

func (e *Engine) evalBool(w *Witness, t *Term) bool {
	return e.ts.Eval(t, w.m, w.cache).Sign() != 0
}

// addPC extends the path condition and drops witnesses that no longer satisfy it.
func (e *Engine) addPC(st *State, c *Term) {
	if c.IsTrue() {
		return
	}
	st.pc = append(st.pc, c)
	if len(st.wit) > 0 {
		kept := st.wit[:0:0]
		for _, w := range st.wit {
			if e.evalBool(w, c) {
				kept = append(kept, w)
			}
		}
		st.wit = kept
	}
}

// checkW asks the solver for pc ∧ c and, on sat, returns a verified witness.
func (e *Engine) checkW(st *State, c *Term) (Result, *Witness) {
	mv := e.nondetVars(st)
	extra := map[string]*Term{}
	CollectVars(c, map[int]bool{}, extra)
	if len(extra) > 0 {
		have := map[string]bool{}
		for _, v := range mv {
			have[v.Name] = true
		}
		for n, v := range extra {
			if !have[n] {
				mv = append(mv, v)
			}
		}
	}
	r, m := e.solver.Check(st.pc, c, mv)
	if r != Sat || m == nil {
		return r, nil
	}
	w := &Witness{m: m, cache: map[int]*big.Int{}}
	ok := e.evalBool(w, c)
	for _, p := range st.pc {
		if !ok {
			break
		}
		ok = e.evalBool(w, p)
	}
	if !ok {
		if os.Getenv("VERIF_DEBUG_MODEL") != "" {
			fmt.Printf("MODEL-MISMATCH c=%v\n", e.evalBool(w, c))
			for i, p := range st.pc {
				fmt.Printf("  pc[%d]=%v %s\n", i, e.evalBool(w, p), p.render(5))
			}
			fmt.Printf("  model=%v\n", m)
			os.WriteFile("/tmp/mismatch.smt2", []byte(e.solver.Script(st.pc, c, e.nondetVars(st))), 0o644)
		}
		e.rep.Models["diagnostic: solver model did not evaluate to true in the engine (witness discarded)"]++
		return r, nil
	}
	return r, w
}

func (e *Engine) feasible(st *State, c *Term) Result {
	if c.IsTrue() {
		return Sat
	}
	if c.IsFalse() {
		return Unsat
	}
	for _, w := range st.wit {
		if e.evalBool(w, c) {
			e.rep.WitnessHits++
			return Sat
		}
	}
	r, w := e.checkW(st, c)
	if w != nil && len(st.wit) < 6 {
		st.wit = append(st.wit, w)
	}
	return r
}

// decide forces cond to a definite truth value on this path, forking (the
// clone re-executes the current instruction) when both are feasible.
func (e *Engine) decide(st *State, cond *Term) bool {
	if cond.IsTrue() {
		return true
	}
	if cond.IsFalse() {
		return false
	}
	if cond.Op == OpNot {
		return !e.decide(st, cond.Args[0])
	}
	if k, ok := st.known[cond.ID]; ok {
		return k.IsTrue()
	}
	if e.cfg.Concrete != nil {
		panic("symbolic condition in concrete mode: " + cond.Short())
	}
	rt := e.feasible(st, cond)
	if rt == Unsat {
		st.known[cond.ID] = e.ts.False
		e.addPC(st, e.ts.Not(cond))
		return false
	}
	rf := e.feasible(st, e.ts.Not(cond))
	if rf == Unsat {
		st.known[cond.ID] = e.ts.True
		e.addPC(st, cond)
		return true
	}
	if rt == Unknown || rf == Unknown {
		st.flag("unknown", "feasibility of a branch undecided by all solvers @ "+e.where(st))
	}
	// fork
	if fr := st.top(); fr.fn != nil {
		in := fr.block.Instrs[fr.ip]
		if fr.symBr == nil {
			fr.symBr = map[ssa.Instruction]int{}
		}
		fr.symBr[in]++
		if fr.symBr[in] > e.rep.MaxUnwindSeen {
			e.rep.MaxUnwindSeen = fr.symBr[in]
		}
		if fr.symBr[in] > e.cfg.Unwind {
			st.flag("bound", fmt.Sprintf("unwinding assertion failed: more than %d symbolic decisions at %s", e.cfg.Unwind, e.where(st)))
			panic(sigDead{"bound-incomplete"})
		}
	}
	e.rep.Forks++
	cl := st.clone(e)
	cl.known[cond.ID] = e.ts.False
	e.addPC(cl, e.ts.Not(cond))
	e.work = append(e.work, cl)
	st.known[cond.ID] = e.ts.True
	e.addPC(st, cond)
	return true
}

// concretize forces t to a constant on this path, forking over all feasible values.
func (e *Engine) concretize(st *State, t *Term) *Term {
	t = st.resolve(t)
	if t.IsConst() {
		return t
	}
	if e.cfg.Concrete != nil {
		panic("symbolic value in concrete mode")
	}
	var vals []*Term
	excl := e.ts.True
	for {
		e.fresh++
		aux := e.ts.Var(fmt.Sprintf("cz!%d", e.fresh), t.W)
		r, m := e.solver.Check(st.pc, e.ts.And(excl, e.ts.Eq(aux, t)), []*Term{aux})
		if r == Unsat {
			break
		}
		if r == Unknown {
			st.flag("unknown", "value enumeration undecided @ "+e.where(st))
			panic(sigDead{"unknown"})
		}
		mv, have := m[aux.Name]
		if !have || mv == nil {
			st.flag("unknown", "solver returned sat without a usable model during value enumeration @ "+e.where(st))
			panic(sigDead{"unknown"})
		}
		v := e.ts.BV(mv, t.W)
		vals = append(vals, v)
		excl = e.ts.And(excl, e.ts.Ne(t, v))
		if len(vals) > e.cfg.MaxValues {
			st.flag("bound", fmt.Sprintf("more than %d feasible values for a quantity that must be concrete @ %s", e.cfg.MaxValues, e.where(st)))
			panic(sigDead{"bound-incomplete"})
		}
	}
	if len(vals) == 0 {
		panic(sigDead{"infeasible"})
	}
	sort.Slice(vals, func(i, j int) bool { return vals[i].Val.Cmp(vals[j].Val) < 0 })
	for _, v := range vals[1:] {
		e.rep.Forks++
		cl := st.clone(e)
		cl.known[t.ID] = v
		e.addPC(cl, e.ts.Eq(t, v))
		e.work = append(e.work, cl)
	}
	st.known[t.ID] = vals[0]
	e.addPC(st, e.ts.Eq(t, vals[0]))
	return vals[0]
}

func (e *Engine) concreteInt(st *State, v Value) int {
	t, ok := v.(*Term)
	if !ok {
		e.poisonUse(v)
	}
	c := e.concretize(st, t)
	return int(toSigned(c.Val, c.W).Int64())
}

func (e *Engine) poisonUse(v Value) {
	if p, ok := v.(*PoisonV); ok {
		panic(sigUnsupported{"use of value from unsupported source: " + p.Why})
	}
	panic(sigUnsupported{fmt.Sprintf("unexpected value %s", describe(v))})
}

// guard: ok must hold, otherwise a Go panic of the given kind is raised.
func (e *Engine) guard(st *State, ok *Term, kind string) {
	if e.decide(st, ok) {
		return
	}
	e.startPanic(st, &PanicInfo{Kind: kind, Where: e.where(st), Val: &IfaceV{T: e.runtimeErrorT(), V: e.strConst("runtime error: " + kind)}})
	panic(sigRetry{})
}

func (e *Engine) runtimeErrorT() types.Type {
	return e.nativeType("runtime.Error")
}

func (e *Engine) nativeType(name string) types.Type {
	if t, ok := e.noopT[name]; ok {
		return t
	}
	t := types.NewNamed(types.NewTypeName(0, nil, name, nil), types.NewStruct(nil, nil), nil)
	e.noopT[name] = t
	return t
}

// ---------- obligations ----------

func (e *Engine) tapeFromModel(st *State, m Model) []TapeEntry {
	out := make([]TapeEntry, 0, len(st.nondets))
	for _, nd := range st.nondets {
		v := m[nd.Var.Name]
		s := "0"
		if v != nil {
			s = v.String()
		}
		out = append(out, TapeEntry{Label: nd.Label, Kind: nd.Kind, Val: s})
	}
	return out
}

func (e *Engine) nondetVars(st *State) []*Term {
	vs := make([]*Term, len(st.nondets))
	for i, nd := range st.nondets {
		vs[i] = nd.Var
	}
	return vs
}

func (e *Engine) obligation(st *State, tag string, cond *Term, kind string) {
	e.rep.Obligations++
	e.rep.ObligationTags[tag]++
	if cond.IsTrue() {
		e.rep.Trivial++
		e.rep.Discharged++
		return
	}
	e.rep.DistinctObl[cond.ID] = true
	if e.cfg.Concrete != nil {
		if cond.IsFalse() {
			e.rep.Violations = append(e.rep.Violations, Violation{Tag: tag, Kind: kind, Where: e.where(st)})
			panic(sigDead{"violation"})
		}
		panic("symbolic obligation in concrete mode")
	}
	r, m := e.solver.Check(st.pc, e.ts.Not(cond), e.nondetVars(st))
	switch r {
	case Unsat:
		e.rep.Discharged++
	case Sat:
		if !e.violTags[tag] {
			e.violTags[tag] = true
			e.rep.Violations = append(e.rep.Violations, Violation{Tag: tag, Kind: kind, Where: e.where(st) + " via " + e.stackTrace(st), Model: m, Tape: e.tapeFromModel(st, m), UF: e.ufTable(st, m)})
		}
	default:
		e.rep.Inconclusive = appendUniq(e.rep.Inconclusive, fmt.Sprintf("obligation %q undecided by all solvers @ %s", tag, e.where(st)))
	}
	// continue under the assumption that the property held here
	if r == Unsat {
		st.known[cond.ID] = e.ts.True
		return
	}
	if e.feasible(st, cond) == Unsat {
		panic(sigDead{"violation"})
	}
	st.known[cond.ID] = e.ts.True
	e.addPC(st, cond)
}

// ufTable evaluates every uninterpreted-function application of the path under
// the model, so that native replay can reproduce the solver's hash values.
func (e *Engine) ufTable(st *State, m Model) []UFEntry {
	var out []UFEntry
	cache := map[int]*big.Int{}
	hexOf := func(ts []*Term) string {
		var sb strings.Builder
		for _, t := range ts {
			v := e.ts.Eval(t, m, cache)
			w := t.W
			if w == 0 {
				w = 8
			}
			n := (w + 7) / 8
			b := v.Bytes()
			for i := len(b); i < n; i++ {
				sb.WriteString("00")
			}
			fmt.Fprintf(&sb, "%x", b)
			if len(b) == 0 && n == 0 {
				continue
			}
		}
		return sb.String()
	}
	names := make([]string, 0, len(st.ufApps))
	for n := range st.ufApps {
		names = append(names, n)
	}
	sort.Strings(names)
	for _, n := range names {
		for _, app := range st.ufApps[n] {
			out = append(out, UFEntry{Name: n, In: hexOf(app.in), Out: hexOf(app.out)})
		}
	}
	return out
}
