// gosym: bounded symbolic checking of go-algorand harnesses over go/ssa.
package main

import (
	"crypto/sha256"
	"encoding/hex"
	"encoding/json"
	"flag"
	"fmt"
	"os"
	"os/exec"
	"path/filepath"
	"sort"
	"strconv"
	"strings"
	"sync"
	"time"

	"gosym/sym"

	"golang.org/x/tools/go/ssa"
)

type knownFinding struct {
	Property string `json:"property"`
	Harness  string `json:"harness"`
	Tag      string `json:"assertion_tag"`
	Desc     string `json:"description"`
	Status   string `json:"status"` // "known" or "fixed"
}

type harnessResult struct {
	Spec     sym.HarnessSpec
	Report   *sym.Report
	Err      string
	Replayed map[string]string // tag -> native outcome
}

func env(k, def string) string {
	if v := os.Getenv(k); v != "" {
		return v
	}
	return def
}

var (
	verifHome = env("VERIF_HOME", "/verif")
	repo      = env("VERIF_REPO", "/repo")
)

func main() {
	if len(os.Args) < 2 {
		fmt.Fprintln(os.Stderr, "usage: gosym check -prop ID -tier quick|thorough [-harness NAME] [-v]")
		os.Exit(2)
	}
	switch os.Args[1] {
	case "check":
		os.Exit(cmdCheck(os.Args[2:]))
	case "replay":
		os.Exit(cmdReplay(os.Args[2:]))
	case "list":
		specs, err := sym.Discover(filepath.Join(verifHome, "harness"))
		if err != nil {
			fmt.Fprintln(os.Stderr, err)
			os.Exit(2)
		}
		for _, s := range specs {
			fmt.Printf("%s %s tier=%q %s %v\n", s.Prop, s.Name, s.Tier, s.PkgDir, s.Opts)
		}
	default:
		fmt.Fprintln(os.Stderr, "unknown command")
		os.Exit(2)
	}
}

func cmdCheck(args []string) int {
	fs := flag.NewFlagSet("check", flag.ExitOnError)
	prop := fs.String("prop", "", "property id")
	tier := fs.String("tier", "quick", "quick|thorough")
	only := fs.String("harness", "", "run only this harness")
	verbose := fs.Bool("v", false, "verbose")
	noReplay := fs.Bool("noreplay", false, "skip native replay / validation")
	jobs := fs.Int("j", 16, "parallel harnesses")
	fs.Parse(args)
	t0 := time.Now()
	seed := 0
	if s := os.Getenv("VERIF_SEED"); s != "" {
		seed, _ = strconv.Atoi(s)
	}
	all, err := sym.Discover(filepath.Join(verifHome, "harness"))
	if err != nil {
		fmt.Fprintln(os.Stderr, "discover:", err)
		return 2
	}
	var specs, propSpecs []sym.HarnessSpec
	for _, s := range all {
		if s.Prop != *prop {
			continue
		}
		propSpecs = append(propSpecs, s) // every file of the property goes into the overlay
		if *only != "" && s.Name != *only && !(strings.HasSuffix(*only, "*") && strings.HasPrefix(s.Name, strings.TrimSuffix(*only, "*"))) {
			continue
		}
		if s.Tier != "" && s.Tier != *tier {
			continue
		}
		specs = append(specs, s)
	}
	if len(specs) == 0 {
		fmt.Fprintf(os.Stderr, "no harnesses for property %s tier %s\n", *prop, *tier)
		return 2
	}
	outDir := filepath.Join(verifHome, "out", *prop)
	os.RemoveAll(outDir)
	os.MkdirAll(outDir, 0o755)
	ov, err := sym.BuildOverlay(repo, verifHome, propSpecs)
	if err != nil {
		fmt.Fprintln(os.Stderr, "overlay:", err)
		return 2
	}
	ovPath, err := ov.WriteJSON(outDir)
	if err != nil {
		fmt.Fprintln(os.Stderr, "overlay:", err)
		return 2
	}
	dirs := map[string]bool{}
	for _, s := range specs {
		dirs[s.PkgDir] = true
	}
	var pkgDirs []string
	for d := range dirs {
		pkgDirs = append(pkgDirs, d)
	}
	sort.Strings(pkgDirs)
	tl := time.Now()
	prog, pkgs, err := sym.LoadProgram(repo, pkgDirs, ov)
	if err != nil {
		fmt.Printf("HARNESS-STALE or load failure (inconclusive, not a violation):\n%v\n", err)
		writeEvidence(*prop, *tier, seed, nil, []string{"load failure: " + firstLine(err.Error())}, time.Since(t0), 0, nil, nil)
		return 2
	}
	loadTime := time.Since(tl)
	fmt.Printf("loaded %d root packages, SSA built in %.1fs\n", len(pkgs), loadTime.Seconds())

	results := make([]*harnessResult, len(specs))
	var wg sync.WaitGroup
	sem := make(chan struct{}, *jobs)
	for i := range specs {
		wg.Add(1)
		go func(i int) {
			defer wg.Done()
			sem <- struct{}{}
			defer func() { <-sem }()
			results[i] = runHarness(prog, pkgs, specs[i], *tier, *verbose)
		}(i)
	}
	wg.Wait()

	known := loadKnown()
	exit := 0
	var inconclusive []string
	var violLines []string
	var knownLines []string
	nViol := 0
	validated := 0
	// native replay of counterexamples
	for _, r := range results {
		if r.Err != "" {
			inconclusive = append(inconclusive, r.Spec.Name+": "+r.Err)
			continue
		}
		for _, inc := range r.Report.Inconclusive {
			inconclusive = append(inconclusive, r.Spec.Name+": "+inc)
		}
		for vi, v := range r.Report.Violations {
			tapePath := filepath.Join(outDir, fmt.Sprintf("%s.%d.tape.json", r.Spec.Name, vi))
			tape := map[string]interface{}{"harness": r.Spec.Name, "entries": v.Tape, "tier": *tier, "tag": v.Tag, "where": v.Where}
			if len(v.UF) > 0 {
				tape["uf"] = v.UF
			}
			b, _ := json.MarshalIndent([]interface{}{tape}, "", " ")
			os.WriteFile(tapePath, b, 0o644)
			outcome := "not-replayed"
			if !*noReplay {
				outcome = nativeReplay(r.Spec, ovPath, tapePath)
				validated++
			}
			if r.Replayed == nil {
				r.Replayed = map[string]string{}
			}
			r.Replayed[v.Tag] = outcome
			reproduced := false
			switch v.Kind {
			case "assert":
				reproduced = outcome == "assert:"+v.Tag
			case "panic":
				reproduced = strings.HasPrefix(outcome, "panic:")
			}
			if *noReplay {
				reproduced = true
			}
			if !reproduced {
				inconclusive = append(inconclusive, fmt.Sprintf("%s: solver counterexample for %q did not reproduce natively (native outcome %q): encoding or stub mismatch, not reported as violation; tape %s", r.Spec.Name, v.Tag, outcome, tapePath))
				continue
			}
			if kf := matchKnown(known, *prop, r.Spec.Name, v.Tag); kf != nil {
				knownLines = append(knownLines, fmt.Sprintf("KNOWN-FINDING: property=%s %s (harness %s, tag %s, replay %s)", *prop, kf.Desc, r.Spec.Name, v.Tag, tapePath))
				continue
			}
			nViol++
			violLines = append(violLines, fmt.Sprintf("VIOLATION property=%s replay=%s", *prop, tapePath))
			fmt.Printf("  violated: harness=%s tag=%s kind=%s at %s native=%s %s\n", r.Spec.Name, v.Tag, v.Kind, v.Where, outcome, v.Detail)
		}
	}
	// vacuity: every Reach tag named in the spec must have been reached
	for _, r := range results {
		if r.Err != "" {
			continue
		}
		if want, ok := r.Spec.Opts["reach"]; ok {
			for _, tag := range strings.Split(want, ",") {
				if r.Report.Reached[tag] == 0 {
					inconclusive = append(inconclusive, fmt.Sprintf("%s: VACUOUS: reach witness %q not reached", r.Spec.Name, tag))
				}
			}
		}
		if r.Report.PathsByOutcome["ok"] == 0 && len(r.Report.Violations) == 0 {
			inconclusive = append(inconclusive, fmt.Sprintf("%s: VACUOUS: no path ran to completion", r.Spec.Name))
		}
	}
	for _, r := range results {
		printSummary(r)
	}
	for _, l := range knownLines {
		fmt.Println(l)
	}
	if nViol > 0 {
		exit = 1
		for _, l := range violLines {
			fmt.Println(l)
		}
	} else if len(inconclusive) > 0 {
		exit = 2
		for _, s := range inconclusive {
			fmt.Println("INCONCLUSIVE:", s)
		}
	}
	writeEvidence(*prop, *tier, seed, results, inconclusive, time.Since(t0), nViol, knownLines, map[string]interface{}{"load_s": loadTime.Seconds(), "replays": validated})
	fmt.Printf("property %s tier %s: exit %d in %.1fs\n", *prop, *tier, exit, time.Since(t0).Seconds())
	return exit
}

// cmdReplay re-runs one counterexample tape natively against the current tree.
func cmdReplay(args []string) int {
	fs := flag.NewFlagSet("replay", flag.ExitOnError)
	prop := fs.String("prop", "", "property id")
	tapePath := fs.String("tape", "", "tape file")
	fs.Parse(args)
	b, err := os.ReadFile(*tapePath)
	if err != nil {
		fmt.Fprintln(os.Stderr, err)
		return 2
	}
	var tapes []struct {
		Harness string `json:"harness"`
		Tag     string `json:"tag"`
	}
	if err := json.Unmarshal(b, &tapes); err != nil || len(tapes) == 0 {
		fmt.Fprintln(os.Stderr, "bad tape file")
		return 2
	}
	all, _ := sym.Discover(filepath.Join(verifHome, "harness"))
	var specs []sym.HarnessSpec
	var target *sym.HarnessSpec
	for i, s := range all {
		if s.Prop == *prop {
			specs = append(specs, s)
			if s.Name == tapes[0].Harness {
				target = &all[i]
			}
		}
	}
	if target == nil {
		fmt.Fprintln(os.Stderr, "harness not found:", tapes[0].Harness)
		return 2
	}
	outDir := filepath.Join(verifHome, "out", *prop+".replay")
	os.MkdirAll(outDir, 0o755)
	ov, err := sym.BuildOverlay(repo, verifHome, specs)
	if err != nil {
		fmt.Fprintln(os.Stderr, err)
		return 2
	}
	ovPath, _ := ov.WriteJSON(outDir)
	out := nativeReplay(*target, ovPath, *tapePath)
	fmt.Printf("native outcome: %s (expected assert:%s)\n", out, tapes[0].Tag)
	if out == "assert:"+tapes[0].Tag || strings.HasPrefix(out, "panic:") {
		fmt.Printf("VIOLATION property=%s replay=%s\n", *prop, *tapePath)
		return 1
	}
	return 0
}

func firstLine(s string) string {
	if i := strings.Index(s, "\n"); i >= 0 {
		j := strings.Index(s[i+1:], "\n")
		if j >= 0 {
			return s[:i+1+j]
		}
	}
	return s
}

func runHarness(prog *ssa.Program, pkgs interface{}, spec sym.HarnessSpec, tier string, verbose bool) (res *harnessResult) {
	res = &harnessResult{Spec: spec}
	// machine-wide bound on concurrently running harnesses (several checks may be
	// started at once); the harness's time budget starts when it gets its slot
	release := acquireSlot()
	defer release()
	defer func() {
		if r := recover(); r != nil {
			res.Err = fmt.Sprintf("engine fault: %v", r)
			if verbose {
				panic(r)
			}
		}
	}()
	var fn *ssa.Function
	for _, p := range prog.AllPackages() {
		if strings.HasSuffix(p.Pkg.Path(), "/"+spec.PkgDir) {
			if f := p.Func(spec.Name); f != nil {
				fn = f
			}
		}
	}
	if fn == nil {
		res.Err = "harness function not found"
		return
	}
	cfg := sym.Config{
		Unwind:    spec.TierOptInt(tier, "unwind", 8),
		MaxSteps:  spec.TierOptInt(tier, "steps", 5_000_000),
		MaxPaths:  spec.TierOptInt(tier, "paths", 100_000),
		MaxValues: spec.TierOptInt(tier, "values", 64),
		TimeoutMS: spec.TierOptInt(tier, "timeout", 20000),
		CrossN:    spec.TierOptInt(tier, "cross", 0),
		Verbose:   verbose,
		Tier:      tier,
		NoMerge:   spec.TierOptInt(tier, "merge", 1) == 0,
	}
	budget := spec.TierOptInt(tier, "budget", 0)
	if budget == 0 {
		if tier == "quick" {
			budget = 150
		} else {
			budget = 1500
		}
	}
	// the budget bounds runaway exploration; it is stated for an otherwise idle
	// machine and stretched when the machine is oversubscribed, so that the
	// verdict does not depend on what else is running
	cfg.Deadline = time.Now().Add(time.Duration(float64(budget)*sym.LoadFactor()) * time.Second)
	eng, err := sym.NewEngine(prog, cfg)
	if err != nil {
		res.Err = err.Error()
		return
	}
	defer eng.Close()
	for callee, stubName := range spec.Stubs {
		sf := fn.Pkg.Func(stubName)
		if sf == nil {
			res.Err = "stub function not found: " + stubName
			return
		}
		eng.AddStub(callee, sf)
	}
	for _, n := range spec.Noops {
		eng.AddNoop(n)
	}
	res.Report = eng.Run(fn)
	return
}

func nativeReplay(spec sym.HarnessSpec, ovPath, tapePath string) string {
	cmd := exec.Command("go", "test", "-tags", "verif", "-v", "-vet=off", "-count=1", "-overlay", ovPath, "-run", "^TestVerifReplay$", "./"+spec.PkgDir)
	cmd.Dir = repo
	cmd.Env = append(os.Environ(), "GOFLAGS=-mod=mod", "GOPROXY=off", "VERIF_TAPES="+tapePath)
	out, _ := cmd.CombinedOutput()
	for _, l := range strings.Split(string(out), "\n") {
		if strings.HasPrefix(l, "VERIF-RESULT ") {
			if i := strings.Index(l, "outcome="); i >= 0 {
				return l[i+8:]
			}
		}
	}
	s := string(out)
	if len(s) > 600 {
		s = s[len(s)-600:]
	}
	return "replay-failed: " + strings.ReplaceAll(s, "\n", " | ")
}

func loadKnown() []knownFinding {
	b, err := os.ReadFile(filepath.Join(verifHome, "known_findings.json"))
	if err != nil {
		return nil
	}
	var k struct {
		Findings []knownFinding `json:"findings"`
	}
	json.Unmarshal(b, &k)
	return k.Findings
}

func matchKnown(ks []knownFinding, prop, harness, tag string) *knownFinding {
	for i := range ks {
		k := &ks[i]
		if k.Status == "known" && k.Property == prop && k.Harness == harness && k.Tag == tag {
			return k
		}
	}
	return nil
}

func printSummary(r *harnessResult) {
	if r.Err != "" {
		fmt.Printf("harness %s: ERROR %s\n", r.Spec.Name, r.Err)
		return
	}
	rp := r.Report
	fmt.Printf("harness %s: paths=%d %v obligations=%d (trivial %d) discharged=%d violations=%d queries=%d (sat %d unsat %d unknown %d, fallback %d %v) solver=%.1fs wall=%.1fs forks=%d steps=%d reach=%v\n",
		r.Spec.Name, rp.Paths, rp.PathsByOutcome, rp.Obligations, rp.Trivial, rp.Discharged, len(rp.Violations),
		rp.Solver.Queries, rp.Solver.Sat, rp.Solver.UnsatN, rp.Solver.UnknownN, rp.Solver.Fallbacks, rp.Solver.FallbackBy,
		rp.Solver.Time.Seconds(), rp.Wall.Seconds(), rp.Forks, rp.Steps, rp.Reached)
	if os.Getenv("VERIF_PROFILE") != "" {
		fmt.Printf("  profile: encode=%.1fs bytes=%dMB witnessHits=%d\n", rp.Solver.EncodeTime.Seconds(), rp.Solver.BytesSent>>20, rp.WitnessHits)
	}
}

func fileHash(p string) string {
	b, err := os.ReadFile(p)
	if err != nil {
		return ""
	}
	h := sha256.Sum256(b)
	return hex.EncodeToString(h[:8])
}

func writeEvidence(prop, tier string, seed int, results []*harnessResult, inconclusive []string, wall time.Duration, nViol int, known []string, extra map[string]interface{}) {
	type hEv struct {
		Name         string         `json:"harness"`
		File         string         `json:"file"`
		Bounds       map[string]int `json:"bounds"`
		Paths        int            `json:"paths"`
		Outcomes     map[string]int `json:"path_outcomes"`
		Obligations  int            `json:"obligations"`
		Trivial      int            `json:"trivially_true"`
		Discharged   int            `json:"discharged"`
		Violations   int            `json:"violations"`
		Queries      int            `json:"solver_queries"`
		SolverS      float64        `json:"solver_s"`
		FallbackS    float64        `json:"fallback_solver_s"`
		FallbackBy   map[string]int `json:"decided_by_fallback"`
		Reached      map[string]int `json:"reach_witnesses"`
		MaxUnwind    int            `json:"max_symbolic_decisions_at_one_branch"`
		Tags         map[string]int `json:"obligation_tags"`
		Err          string         `json:"error,omitempty"`
	}
	ev := map[string]interface{}{
		"property_id": prop, "tier": tier, "seed": seed, "level": "other", "wall_s": wall.Seconds(), "violations": nViol,
	}
	cov := map[string]interface{}{}
	var hs []hEv
	funcs := map[string]int{}
	modelsHit := map[string]int{}
	assumptions := map[string]int{}
	evals, distinct, obl, dis := 0, 0, 0, 0
	var samples []interface{}
	srcHashes := map[string]string{}
	for _, r := range results {
		if r == nil {
			continue
		}
		h := hEv{Name: r.Spec.Name, File: strings.TrimPrefix(r.Spec.File, verifHome+"/"), Err: r.Err}
		if r.Report != nil {
			rp := r.Report
			h.Bounds = map[string]int{"unwind": r.Spec.TierOptInt(tier, "unwind", 8)}
			h.Paths, h.Outcomes, h.Obligations, h.Trivial, h.Discharged = rp.Paths, rp.PathsByOutcome, rp.Obligations, rp.Trivial, rp.Discharged
			h.Violations, h.Queries, h.SolverS, h.FallbackS, h.FallbackBy = len(rp.Violations), rp.Solver.Queries, rp.Solver.Time.Seconds(), rp.Solver.FallbackTime.Seconds(), rp.Solver.FallbackBy
			h.Reached, h.MaxUnwind, h.Tags = rp.Reached, rp.MaxUnwindSeen, rp.ObligationTags
			evals += rp.Obligations + rp.Solver.Queries
			distinct += len(rp.DistinctObl)
			obl += rp.Obligations
			dis += rp.Discharged
			for k, v := range rp.FuncsEncoded {
				funcs[k] += v
			}
			for k, v := range rp.Models {
				modelsHit[k] += v
			}
			for k, v := range rp.Assumptions {
				assumptions[k] += v
			}
			for i, s := range rp.Samples {
				if i < 3 {
					samples = append(samples, map[string]interface{}{"harness": r.Spec.Name, "path_outcome": s.Outcome, "path_condition": s.PC, "steps": s.Steps})
				}
			}
			for tag, tp := range rp.ReachModels {
				if len(samples) < 40 {
					if len(tp) > 24 {
						tp = tp[:24]
					}
					samples = append(samples, map[string]interface{}{"harness": r.Spec.Name, "reach_witness": tag, "model": tp})
				}
			}
		}
		hs = append(hs, h)
	}
	var fnames []string
	for k := range funcs {
		if !strings.Contains(k, "internal/verifrt") {
			fnames = append(fnames, k)
		}
	}
	sort.Strings(fnames)
	if len(fnames) > 400 {
		fnames = fnames[:400]
	}
	var mnames []string
	for k := range modelsHit {
		mnames = append(mnames, k)
	}
	sort.Strings(mnames)
	var anames []string
	for k := range assumptions {
		anames = append(anames, k)
	}
	sort.Strings(anames)
	if len(samples) == 0 {
		samples = append(samples, "no path completed")
	}
	if mnames == nil {
		mnames = []string{}
	}
	if fnames == nil {
		fnames = []string{}
	}
	if inconclusive == nil {
		inconclusive = []string{}
	}
	if known == nil {
		known = []string{}
	}
	cov["explanation"] = "Bounded symbolic execution of the real functions (go/ssa of /repo's working tree, regenerated on this run) from in-package harnesses; each Assert and each reachable Go panic is an SMT obligation pc ∧ ¬property decided by z3 (portfolio fallback cvc5 / cvc5 --solve-bv-as-int / z3 5.1). 'discharged' counts obligations answered unsat for every value within the harness bounds; nothing is claimed outside the bounds and stubs listed under trusted_base/assumptions."
	cov["evaluations"] = evals
	cov["distinct_nontrivial"] = distinct
	cov["rule"] = "evaluations = proof obligations + path-feasibility queries sent to the solver; distinct_nontrivial = obligations whose formula is not syntactically true after simplification, counted by distinct hash-consed term"
	cov["obligations"] = obl
	cov["discharged"] = dis
	cov["samples"] = samples
	cov["harnesses"] = hs
	cov["functions_encoded"] = fnames
	cov["trusted_base"] = mnames
	cov["inconclusive"] = inconclusive
	cov["known_findings_reported"] = known
	cov["exhaustive"] = false
	for k, v := range extra {
		cov[k] = v
	}
	_ = srcHashes
	ev["coverage"] = cov
	ev["assumptions"] = append(anames, "solver soundness (z3 4.8.12 / cvc5 1.0 / z3 5.1)", "engine semantics of go/ssa (validated by native replay of every counterexample and re-evaluation of every solver model)")
	b, _ := json.MarshalIndent(ev, "", " ")
	if repo != "/repo" {
		// a run against a scratch copy (seeded change, hand mutant) is not evidence
		// about /repo: keep it with the run's other output
		os.WriteFile(filepath.Join(verifHome, "out", prop, "evidence.json"), b, 0o644)
		return
	}
	os.MkdirAll(filepath.Join(verifHome, "evidence"), 0o755)
	os.WriteFile(filepath.Join(verifHome, "evidence", prop+".json"), b, 0o644)
}
