package main

import (
	"fmt"
	"os"
	"path/filepath"
	"strconv"
	"syscall"
	"time"
)

// acquireSlot takes one of N machine-wide slots (flock on files in a scratch
// directory) and returns the release function. N defaults to the number of
// cores + 4; VERIF_SLOTS overrides. If the directory is unusable the harness
// simply runs.
func acquireSlot() func() {
	n := 20
	if v, err := strconv.Atoi(os.Getenv("VERIF_SLOTS")); err == nil && v > 0 {
		n = v
	}
	dir := filepath.Join(os.TempDir(), "gosym-slots")
	if err := os.MkdirAll(dir, 0o777); err != nil {
		return func() {}
	}
	for {
		for i := 0; i < n; i++ {
			f, err := os.OpenFile(filepath.Join(dir, fmt.Sprintf("slot-%d", i)), os.O_CREATE|os.O_RDWR, 0o666)
			if err != nil {
				return func() {}
			}
			if err := syscall.Flock(int(f.Fd()), syscall.LOCK_EX|syscall.LOCK_NB); err == nil {
				return func() {
					syscall.Flock(int(f.Fd()), syscall.LOCK_UN)
					f.Close()
				}
			}
			f.Close()
		}
		time.Sleep(300 * time.Millisecond)
	}
}
