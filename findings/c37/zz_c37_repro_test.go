package merklearray

import (
	"testing"

	"github.com/algorand/go-algorand/crypto"
	"github.com/algorand/go-algorand/protocol"
)

type rLeaf struct{ b byte }

func (l rLeaf) ToBeHashed() (protocol.HashID, []byte) { return protocol.TxnMerkleLeaf, []byte{l.b} }

type rArr []rLeaf

func (a rArr) Length() uint64                               { return uint64(len(a)) }
func (a rArr) Marshal(pos uint64) (crypto.Hashable, error) { return a[pos], nil }

func TestReproC37(t *testing.T) {
	hf := crypto.HashFactory{HashType: crypto.Sha512_256}
	// (A) 64-byte left hint under a 32-byte hash: any element "proved" at an odd position
	arr := rArr{{0}, {128}}
	tree, _ := Build(arr, hf)
	var h crypto.GenericDigest
	h = append(h, tree.Levels[0][0]...)
	h = append(h, tree.Levels[0][1]...)
	p := &Proof{HashFactory: hf, TreeDepth: 1, Path: []crypto.GenericDigest{h}}
	t.Logf("A: Verify(pos=1, elem=77 (array has 128)) = %v", Verify(tree.Root(), map[uint64]crypto.Hashable{1: rLeaf{77}}, p))
	// (B) empty LEFT hint: last element of a 3-array accepted at position 3
	arr = rArr{{1}, {2}, {3}}
	tree, _ = Build(arr, hf)
	p = &Proof{HashFactory: hf, TreeDepth: 2, Path: []crypto.GenericDigest{nil, tree.Levels[1][0]}}
	t.Logf("B: Verify(pos=3, elem=3) with n=3 = %v", Verify(tree.Root(), map[uint64]crypto.Hashable{3: rLeaf{3}}, p))
	honest, _ := tree.Prove([]uint64{0, 2})
	t.Logf("B': honest proof for {0,2} presented for {0,3}: %v", Verify(tree.Root(), map[uint64]crypto.Hashable{0: rLeaf{1}, 3: rLeaf{3}}, honest))
	// (C) vector commitment, depth field 3 on a depth-2 commitment: position 2 opened as element 1
	arr = rArr{{128}, {0}, {32}}
	vc, _ := BuildVectorCommitmentTree(arr, hf)
	good, _ := vc.Prove([]uint64{1})
	t.Logf("C0: honest opening pos 1 = elem 0: %v (depth %d, %d hints)", VerifyVectorCommitment(vc.Root(), map[uint64]crypto.Hashable{1: rLeaf{0}}, good), good.TreeDepth, len(good.Path))
	bad := &Proof{HashFactory: hf, TreeDepth: 3, Path: good.Path}
	t.Logf("C: same hints, TreeDepth=3, pos 2 opened as elem 0 (array has 32): %v", VerifyVectorCommitment(vc.Root(), map[uint64]crypto.Hashable{2: rLeaf{0}}, bad))
	bad.TreeDepth = 21
	t.Logf("C': TreeDepth=21, pos 2^19 opened as elem 0 (array has 3 elements): %v", VerifyVectorCommitment(vc.Root(), map[uint64]crypto.Hashable{1 << 19: rLeaf{0}}, bad))
	// same with sumhash (the hash used by state proofs)
	hs := crypto.HashFactory{HashType: crypto.Sumhash}
	vcs, _ := BuildVectorCommitmentTree(arr, hs)
	gs, _ := vcs.Prove([]uint64{1})
	gs.TreeDepth = 3
	t.Logf("C'': sumhash, TreeDepth=3, pos 2 opened as elem 0: %v", VerifyVectorCommitment(vcs.Root(), map[uint64]crypto.Hashable{2: rLeaf{0}}, gs))
}
