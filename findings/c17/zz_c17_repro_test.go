// package directory: crypto/merkletrie
//
// Native reproduction of the C17 defect found by the harness
// VerifC17EvictKeepsAllocationPage: after Evict(true) has dropped the partly
// filled page that the next node ids will be allocated in, the next Add puts the
// new nodes into a fresh in-memory page with the same page number and Commit
// stores that page WITHOUT the nodes that were already on it.  The root hash is
// still right, but the earlier elements can no longer be loaded: Delete / Add of
// a present key fail with ErrLoadedPageMissingNode.
package merkletrie

import (
	"testing"
)

func TestC17EvictedAllocationPageLosesNodes(t *testing.T) {
	for _, tc := range []struct {
		cfg  MemoryConfig
		keys [][]byte
		next []byte
	}{
		{MemoryConfig{NodesCountPerPage: 5, CachedNodesCount: 3, PageFillFactor: 0, MaxChildrenPagesThreshold: 1},
			[][]byte{{0x00, 0x00}, {0x00, 0x20}, {0x00, 0x31}}, []byte{0x10, 0xfd}},
		{MemoryConfig{NodesCountPerPage: 4, CachedNodesCount: 2, PageFillFactor: 0.6, MaxChildrenPagesThreshold: 32},
			[][]byte{{0x00, 0x00}, {0x00, 0x18}, {0x00, 0x3d}}, []byte{0x04, 0xc6}},
	} {
		var memoryCommitter InMemoryCommitter
		mt, err := MakeTrie(&memoryCommitter, tc.cfg)
		if err != nil {
			t.Fatal(err)
		}
		for _, k := range tc.keys {
			if ok, err := mt.Add(k); !ok || err != nil {
				t.Fatalf("Add(%x) = %v, %v", k, ok, err)
			}
		}
		if _, err := mt.Evict(true); err != nil {
			t.Fatal(err)
		}
		if ok, err := mt.Add(tc.next); !ok || err != nil {
			t.Fatalf("Add(%x) = %v, %v", tc.next, ok, err)
		}
		if _, err := mt.Commit(); err != nil {
			t.Fatal(err)
		}
		// every element of the set must still be reported present
		for _, k := range tc.keys {
			ok, err := mt.Add(k)
			if err != nil || ok {
				t.Errorf("cfg %+v: Add(%x) of a present element = (%v, %v), want (false, nil)", tc.cfg, k, ok, err)
			}
		}
		if ok, err := mt.Delete(tc.keys[1]); err != nil || !ok {
			t.Errorf("cfg %+v: Delete(%x) of a present element = (%v, %v), want (true, nil)", tc.cfg, tc.keys[1], ok, err)
		}
	}
}
