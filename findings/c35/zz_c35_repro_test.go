// package directory: data/transactions/logic
//
// Native reproduction of the C35 known finding (copy into data/transactions/logic
// and run `go test -run TestC35ZeroAddressNamedByNonAddressAccessEntry`): with
// tx.Access holding any entry that is not an Address, the zero address is
// resolved as if the transaction had named it.
package logic

import (
	"testing"

	"github.com/algorand/go-algorand/data/basics"
	"github.com/algorand/go-algorand/data/transactions"
)

func TestC35ZeroAddressNamedByNonAddressAccessEntry(t *testing.T) {
	var sender, other, zero basics.Address
	sender[0] = 1
	other[0], other[1] = 1, 2
	ac := transactions.ApplicationCallTxnFields{
		ApplicationID: 256,
		Access: []transactions.ResourceRef{
			{Address: other},
			{Asset: 258},
		},
	}
	// the zero address is not the sender and is not listed: it must not resolve
	if idx, err := ac.IndexByAddress(zero, sender); err == nil {
		t.Fatalf("zero address resolved to slot %d of tx.Access although no entry names it", idx)
	}
}
