# sourced by every script
export GOFLAGS=-mod=mod GOPROXY=off CARGO_NET_OFFLINE=true PIP_NO_INDEX=1
export REPO="${VERIF_REPO:-/repo}"
