//go:build verif

package crypto

import (
	"bytes"

	vr "github.com/algorand/go-algorand/internal/verifrt"
)

// C36 (supporting lemma): the harnesses in zz_verif_c36.go replace the msgp
// encoding of the two subkey identifiers by a fixed-width encoding of the same
// fields. What they rely on is that the REAL ToBeHashed is injective and that
// the two kinds of identifier are domain-separated; that is checked here on the
// real msgp code (protocol.Encode -> generated MarshalMsg) for two arbitrary
// identifiers.

//verif:noop sync/atomic.init

//verif:harness prop=C36 reach=done,equal unwind=12 budget=200 thorough.budget=2400
func VerifC36BatchIDEncodingInjective() {
	var a, b OneTimeSignatureSubkeyBatchID
	vr.Fill("a.pk", a.SubKeyPK[:])
	vr.Fill("b.pk", b.SubKeyPK[:])
	a.Batch, b.Batch = vr.U64("a.batch"), vr.U64("b.batch")
	ida, ea := a.ToBeHashed()
	idb, eb := b.ToBeHashed()
	vr.Assert("c36.enc.batch-domain", ida == idb)
	if bytes.Equal(ea, eb) {
		vr.Reach("equal")
		vr.Assert("c36.enc.batch-injective", a == b)
	}
	vr.Reach("done")
}

//verif:harness prop=C36 reach=done,equal unwind=12 budget=200 thorough.budget=2400
func VerifC36OffsetIDEncodingInjective() {
	var a, b OneTimeSignatureSubkeyOffsetID
	vr.Fill("a.pk", a.SubKeyPK[:])
	vr.Fill("b.pk", b.SubKeyPK[:])
	a.Batch, b.Batch = vr.U64("a.batch"), vr.U64("b.batch")
	a.Offset, b.Offset = vr.U64("a.offset"), vr.U64("b.offset")
	ida, ea := a.ToBeHashed()
	idb, eb := b.ToBeHashed()
	vr.Assert("c36.enc.offset-domain", ida == idb)
	if bytes.Equal(ea, eb) {
		vr.Reach("equal")
		vr.Assert("c36.enc.offset-injective", a == b)
	}
	vr.Reach("done")
}

// the two identifier kinds and the signed messages never share a domain prefix
//
//verif:harness prop=C36 reach=done unwind=12 budget=200 thorough.budget=2400
func VerifC36DomainSeparation() {
	ida, _ := OneTimeSignatureSubkeyBatchID{}.ToBeHashed()
	idb, _ := OneTimeSignatureSubkeyOffsetID{}.ToBeHashed()
	vr.Assert("c36.enc.domains-differ", ida != idb)
	// HashRep puts the domain first: no HashRep of one kind is a HashRep of the other
	var x OneTimeSignatureSubkeyBatchID
	var y OneTimeSignatureSubkeyOffsetID
	vr.Fill("x.pk", x.SubKeyPK[:])
	vr.Fill("y.pk", y.SubKeyPK[:])
	x.Batch, y.Batch, y.Offset = vr.U64("x.batch"), vr.U64("y.batch"), vr.U64("y.offset")
	vr.Assert("c36.enc.hashrep-disjoint", !bytes.Equal(HashRep(x), HashRep(y)))
	vr.Reach("done")
}
