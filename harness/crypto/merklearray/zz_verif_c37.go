//go:build verif

package merklearray

import (
	"bytes"
	"hash"

	"github.com/algorand/go-algorand/crypto"
	vr "github.com/algorand/go-algorand/internal/verifrt"
	"github.com/algorand/go-algorand/protocol"
)

// C37: Merkle array proofs are complete and sound.
//
// Real code: Build / buildWorker / buildLayers / buildNextLayer / upWorker,
// Prove / createProof / partialLayer.up / siblings.get, Verify / hashLeaves /
// buildFirstPartialLayer / verifyPath / inspectRoot, pair.ToBeHashed and
// crypto.HashRep / GenericHashObj (so the byte layout that is hashed, including
// the "MA" / leaf domain prefixes, is the tree's own), the vector-commitment
// padding and index conversion.
//
// Idealised: the compression function. crypto.hashBytes (the one place where
// bytes meet the hash.Hash) returns H(bytes) with H a collision-free
// uninterpreted function; this is the formal reading of "sound unless a hash
// collision is found". H never outputs the all-zero digest (a missing sibling
// is represented by zero bytes in the tree; hitting it is a pre-image attack).
// The worker goroutines run one after the other.

type verifC37Hash struct{}

func (verifC37Hash) Write(p []byte) (int, error) { return len(p), nil }
func (verifC37Hash) Sum(b []byte) []byte         { return b }
func (verifC37Hash) Reset()                      {}
func (verifC37Hash) Size() int                   { return crypto.Sha512_256Size }
func (verifC37Hash) BlockSize() int              { return 128 }

// the hash object carries no state in the model; only its Size() is used by the tree
func verifC37NewHash(z crypto.HashFactory) hash.Hash { return verifC37Hash{} }

func verifC37HashBytes(h hash.Hash, m []byte) []byte {
	d := vr.Hash32("H", m)
	vr.Assume(d != [32]byte{})
	return d[:]
}

func verifC37NumCPU() int { return 2 }

// leaves: one symbolic byte under the transaction-leaf domain
type verifC37Leaf struct{ b byte }

func (l verifC37Leaf) ToBeHashed() (protocol.HashID, []byte) {
	return protocol.TxnMerkleLeaf, []byte{l.b}
}

type verifC37Array []verifC37Leaf

func (a verifC37Array) Length() uint64 { return uint64(len(a)) }
func (a verifC37Array) Marshal(pos uint64) (crypto.Hashable, error) {
	return a[pos], nil
}

func verifC37Leaves(n int) verifC37Array {
	a := make(verifC37Array, n)
	for i := range a {
		a[i] = verifC37Leaf{vr.U8("leaf")}
	}
	return a
}

var verifC37Factory = crypto.HashFactory{HashType: crypto.Sha512_256}

// ghost: ceil(log2(n)), the depth of the tree over n leaves
func verifC37Depth(n int) int {
	d := 0
	for (1 << d) < n {
		d++
	}
	return d
}

// a proof the adversary writes: symbolic depth field, 0..maxHints symbolic
// digests of the right size
func verifC37SymbolicProof(maxHints int) *Proof {
	p := &Proof{HashFactory: verifC37Factory, TreeDepth: vr.U8("treedepth")}
	nh := vr.Choice("nhints", maxHints+1)
	for i := 0; i < nh; i++ {
		p.Path = append(p.Path, crypto.GenericDigest(vr.BytesN("hint", crypto.Sha512_256Size)))
	}
	return p
}

//verif:noop sync/atomic.init
//verif:stub github.com/algorand/go-algorand/crypto.hashBytes = verifC37HashBytes
//verif:stub (github.com/algorand/go-algorand/crypto.HashFactory).NewHash = verifC37NewHash
//verif:stub runtime.NumCPU = verifC37NumCPU

// Completeness: for an array of n symbolic leaves and any 1 or 2 positions
// (in any order, possibly equal), the proof from Prove verifies against Root().
//
//verif:harness prop=C37 reach=done,verified unwind=16 budget=200 thorough.budget=2400
func VerifC37Complete() {
	n := 1 + vr.Choice("n", vr.Param(6, 8))
	arr := verifC37Leaves(n)
	tree, err := Build(arr, verifC37Factory)
	vr.Assert("c37.build-ok", err == nil && tree != nil)
	vr.Assert("c37.levels", len(tree.Levels) == verifC37Depth(n)+1 && len(tree.Levels[0]) == n)
	k := 1 + vr.Choice("k", vr.Param(2, 3))
	names := []string{"p0", "p1", "p2"}
	idxs := make([]uint64, 0, k)
	elems := make(map[uint64]crypto.Hashable)
	for i := 0; i < k; i++ {
		p := uint64(vr.Choice(names[i], n)) // every position, enumerated: the whole run stays concrete
		idxs = append(idxs, p)
		elems[p] = arr[p]
	}
	proof, err := tree.Prove(idxs)
	vr.Assert("c37.prove-ok", err == nil && proof != nil)
	vr.Assert("c37.proof-depth", int(proof.TreeDepth) == verifC37Depth(n))
	verr := Verify(tree.Root(), elems, proof)
	vr.Assert("c37.complete", verr == nil)
	vr.Reach("verified")
	vr.Reach("done")
}

// Positions outside the array are refused by Prove; a proof verifies against
// no root but the tree's; the empty array commits to the empty digest and
// proves only the empty set.
//
//verif:harness prop=C37 reach=done,refused,empty,sameroot unwind=16 budget=200 thorough.budget=2400
func VerifC37ProveDomain() {
	n := vr.Choice("n", vr.Param(4, 6))
	arr := verifC37Leaves(n)
	tree, err := Build(arr, verifC37Factory)
	vr.Assert("c37.build-ok", err == nil)
	p := vr.U64("p")
	proof, err := tree.Prove([]uint64{p})
	if p >= uint64(n) {
		vr.Reach("refused")
		vr.Assert("c37.prove-out-of-range-refused", err != nil && proof == nil)
	} else {
		vr.Assert("c37.prove-in-range-ok", err == nil)
		// a different root: the honest proof verifies against no other digest
		other := crypto.GenericDigest(vr.BytesN("root2", crypto.Sha512_256Size))
		if Verify(other, map[uint64]crypto.Hashable{p: arr[p]}, proof) == nil {
			vr.Reach("sameroot")
			vr.Assert("c37.other-root-rejected", bytes.Equal(other, tree.Root()))
		}
	}
	if n == 0 {
		vr.Reach("empty")
		vr.Assert("c37.empty-root", len(tree.Root()) == 0)
		ep, err := tree.Prove(nil)
		vr.Assert("c37.empty-proof", err == nil && len(ep.Path) == 0)
		vr.Assert("c37.empty-verifies", Verify(tree.Root(), map[uint64]crypto.Hashable{}, ep) == nil)
	}
	vr.Reach("done")
}

// Soundness, one position, ARBITRARY proof: whatever depth field and whatever
// (right-sized) sibling digests the proof carries, if Verify accepts
// (pos, elem) against the root of the honest tree then pos is inside the array
// and elem is the array's element there. Subsumes: element replaced, position
// changed, any hint byte changed, hints added or removed.
//
//verif:harness prop=C37 reach=done,accepted,rejected unwind=16 budget=200 thorough.budget=2400
func VerifC37SoundSingle() {
	n := 1 + vr.Choice("n", vr.Param(4, 6))
	arr := verifC37Leaves(n)
	tree, err := Build(arr, verifC37Factory)
	vr.Assert("c37.build-ok", err == nil)
	pos := vr.U64("pos")
	elem := verifC37Leaf{vr.U8("elem")}
	proof := verifC37SymbolicProof(verifC37Depth(n) + 1)
	verr := Verify(tree.Root(), map[uint64]crypto.Hashable{pos: elem}, proof)
	if verr == nil {
		vr.Reach("accepted")
		vr.Assert("c37.sound.position-in-array", pos < uint64(n))
		if pos < uint64(n) {
			vr.Assert("c37.sound.element", elem == arr[pos])
		}
		vr.Assert("c37.sound.path-length", len(proof.Path) == verifC37Depth(n))
	} else {
		vr.Reach("rejected")
	}
	vr.Reach("done")
}

// Soundness, two positions: an honest proof for {p0, p1} with the element at
// p0 replaced, presented for a (possibly) different position q0.
//
//verif:harness prop=C37 reach=done,accepted,rejected unwind=16 budget=200 thorough.budget=2400
func VerifC37SoundPair() {
	n := 2 + vr.Choice("n", vr.Param(3, 5))
	arr := verifC37Leaves(n)
	tree, err := Build(arr, verifC37Factory)
	vr.Assert("c37.build-ok", err == nil)
	p0, p1 := uint64(vr.Choice("p0", n)), uint64(vr.Choice("p1", n))
	vr.Assume(p0 != p1)
	proof, err := tree.Prove([]uint64{p0, p1})
	vr.Assert("c37.prove-ok", err == nil)
	q0 := vr.U64("q0")
	vr.Assume(q0 != p1)
	elem := verifC37Leaf{vr.U8("elem")}
	proof.TreeDepth = vr.U8("treedepth")
	verr := Verify(tree.Root(), map[uint64]crypto.Hashable{q0: elem, p1: arr[p1]}, proof)
	if verr == nil {
		vr.Reach("accepted")
		vr.Assert("c37.sound2.position-in-array", q0 < uint64(n))
		if q0 < uint64(n) {
			vr.Assert("c37.sound2.element", elem == arr[q0])
		}
	} else {
		vr.Reach("rejected")
	}
	vr.Reach("done")
}

// ---- adversaries that assemble proofs from what they can know ----
//
// Under collision freedom the only digests that can make Verify succeed are
// nodes of the tree itself, so the interesting proofs are those whose hints are
// tree nodes put in the wrong place / given the wrong length. These harnesses
// take the hint for level l from level l of the honest tree by a symbolic pick
// (so a counterexample is a plain list of indices and replays natively against
// the real SHA-512/256). Arbitrary hint BYTES are covered by VerifC37SoundSingle
// and VerifC37VCBindingKnownDepth.

// verifC37PickNode: a node of level l of the tree (the hint consumed at level
// l of the climb sits next to level-l nodes; above the root the root is offered).
func verifC37PickNode(label string, tree *Tree, l int) [32]byte {
	if l >= len(tree.Levels) {
		l = len(tree.Levels) - 1
	}
	nodes := make([][32]byte, len(tree.Levels[l]))
	for i, d := range tree.Levels[l] {
		copy(nodes[i][:], d)
	}
	i := int(vr.U8(label))
	vr.Assume(i < len(nodes))
	return nodes[i]
}

// Soundness when the sibling digests need not have the digest size. A decoded
// Proof may carry digests of any length up to crypto.MaxHashDigestSize (64)
// whatever its hash type (msgp allocbound of GenericDigest), and Prove itself
// emits EMPTY digests for missing right siblings. Per hint the adversary
// writes: nothing (length 0), a tree node (32 = the digest size), or two tree
// nodes back to back (64).
//
//verif:harness prop=C37 reach=done,accepted,rejected unwind=16 budget=200 thorough.budget=2400
func VerifC37SoundHintSizes() {
	n := 2 + vr.Choice("n", vr.Param(3, 4))
	arr := verifC37Leaves(n)
	tree, err := Build(arr, verifC37Factory)
	vr.Assert("c37.build-ok", err == nil)
	pos := vr.U64("pos")
	elem := verifC37Leaf{vr.U8("elem")}
	proof := &Proof{HashFactory: verifC37Factory, TreeDepth: vr.U8("treedepth")}
	nh := 1 + vr.Choice("nhints", verifC37Depth(n))
	for i := 0; i < nh; i++ {
		a, b := verifC37PickNode("hint.a", tree, i), verifC37PickNode("hint.b", tree, i)
		var h crypto.GenericDigest
		switch vr.Choice("hintsize", 3) {
		case 1:
			h = append(h, a[:]...)
		case 2:
			h = append(h, a[:]...)
			h = append(h, b[:]...)
		}
		proof.Path = append(proof.Path, h)
	}
	verr := Verify(tree.Root(), map[uint64]crypto.Hashable{pos: elem}, proof)
	if verr == nil {
		vr.Reach("accepted")
		vr.Assert("c37.hintsize.position-in-array", pos < uint64(n))
		if pos < uint64(n) {
			vr.Assert("c37.hintsize.element", elem == arr[pos])
		}
	} else {
		vr.Reach("rejected")
	}
	vr.Reach("done")
}

// Vector commitment: completeness over the padded tree.
//
//verif:harness prop=C37 reach=done,verified unwind=16 budget=200 thorough.budget=2400
func VerifC37VCComplete() {
	n := 1 + vr.Choice("n", vr.Param(6, 8))
	arr := verifC37Leaves(n)
	tree, err := BuildVectorCommitmentTree(arr, verifC37Factory)
	vr.Assert("c37.vc.build-ok", err == nil && tree != nil)
	k := 1 + vr.Choice("k", vr.Param(2, 3))
	names := []string{"p0", "p1", "p2"}
	idxs := make([]uint64, 0, k)
	elems := make(map[uint64]crypto.Hashable)
	for i := 0; i < k; i++ {
		p := uint64(vr.Choice(names[i], n)) // every position, enumerated: the whole run stays concrete
		idxs = append(idxs, p)
		elems[p] = arr[p]
	}
	proof, err := tree.Prove(idxs)
	vr.Assert("c37.vc.prove-ok", err == nil && proof != nil)
	verr := VerifyVectorCommitment(tree.Root(), elems, proof)
	vr.Assert("c37.vc.complete", verr == nil)
	vr.Reach("verified")
	vr.Reach("done")
}

// Vector commitment: position binding when the verifier's depth is the
// commitment's depth. ARBITRARY right-sized hints; the proof's depth field is
// the depth of the committed tree (what a verifier that knows the commitment's
// size would insist on).
//
//verif:harness prop=C37 reach=done,accepted,rejected unwind=16 budget=200 thorough.budget=2400
func VerifC37VCBindingKnownDepth() {
	n := 1 + vr.Choice("n", vr.Param(4, 6))
	arr := verifC37Leaves(n)
	tree, err := BuildVectorCommitmentTree(arr, verifC37Factory)
	vr.Assert("c37.vc.build-ok", err == nil)
	pos := vr.U64("pos")
	elem := verifC37Leaf{vr.U8("elem")}
	proof := verifC37SymbolicProof(verifC37Depth(n) + 1)
	proof.TreeDepth = uint8(len(tree.Levels) - 1)
	verr := VerifyVectorCommitment(tree.Root(), map[uint64]crypto.Hashable{pos: elem}, proof)
	if verr == nil {
		vr.Reach("accepted")
		vr.Assert("c37.vc.known-depth.position-in-array", pos < uint64(n))
		if pos < uint64(n) {
			vr.Assert("c37.vc.known-depth.position-binding", elem == arr[pos])
		}
	} else {
		vr.Reach("rejected")
	}
	vr.Reach("done")
}

// Vector commitment: position binding as documented on BuildVectorCommitmentTree
// ("an adversary can not ... open its entry i in two different ways, using
// proofs of different depths"). The proof's depth field is the adversary's;
// hints are tree nodes. An accepted opening of position pos must be the
// array's element at pos.
//
//verif:harness prop=C37 reach=done,accepted,rejected unwind=16 budget=200 thorough.budget=2400
func VerifC37VCBinding() {
	n := 1 + vr.Choice("n", vr.Param(4, 5))
	arr := verifC37Leaves(n)
	tree, err := BuildVectorCommitmentTree(arr, verifC37Factory)
	vr.Assert("c37.vc.build-ok", err == nil)
	pos := vr.U64("pos")
	elem := verifC37Leaf{vr.U8("elem")}
	proof := &Proof{HashFactory: verifC37Factory, TreeDepth: vr.U8("treedepth")}
	nh := vr.Choice("nhints", len(tree.Levels)+1)
	for i := 0; i < nh; i++ {
		h := verifC37PickNode("hint", tree, i)
		proof.Path = append(proof.Path, crypto.GenericDigest(h[:]))
	}
	verr := VerifyVectorCommitment(tree.Root(), map[uint64]crypto.Hashable{pos: elem}, proof)
	if verr == nil {
		vr.Reach("accepted")
		vr.Assert("c37.vc.position-in-array", pos < uint64(n))
		if pos < uint64(n) {
			vr.Assert("c37.vc.position-binding", elem == arr[pos])
		}
	} else {
		vr.Reach("rejected")
	}
	vr.Reach("done")
}
