//go:build verif

package merkletrie

import (
	"encoding/binary"

	"github.com/algorand/go-algorand/crypto"
	vr "github.com/algorand/go-algorand/internal/verifrt"
)

// C17: the Merkle trie root depends only on the element set; Add / Delete
// report membership correctly.
//
// Real code: Trie.Add / Delete / RootHash / Commit / Evict / serialize /
// deserialize, node.find / add / remove / calculateHash / serialize /
// deserializeNode, the whole of cache.go (transactions, commit, page
// reallocation, fan-out reallocation, encode / decode page, evict, deferred
// page load), bitset, InMemoryCommitter.
//
// Idealised: crypto.Hash is a collision-free uninterpreted function H that
// never returns the all-zero digest (the root of the EMPTY trie is the zero
// digest; hitting it is a pre-image attack). With H injective, equal roots
// mean equal (path, children, leaf remainders) structure all the way down.
//
// Bounds: keys of verifC17KeyLen bytes (2; thorough 3), fully symbolic; a
// sequence of L operations (see each harness), each Add or Delete chosen by
// the solver; page configurations from the table verifC17Configs.

func verifC17Hash(data []byte) crypto.Digest {
	d := crypto.Digest(vr.Hash32("H", data))
	vr.Assume(d != crypto.Digest{})
	return d
}

// page configurations: tiny pages so that a handful of nodes crosses page
// boundaries (storedNodeIdentifierBase = 0x4160 = 16736; 16736 % 3 == 2, so
// with 3 nodes per page the first page can take a single node).
var verifC17Configs = []MemoryConfig{
	// packing reallocation of under-filled new pages + fan-out reallocation of children
	{NodesCountPerPage: 3, CachedNodesCount: 1, PageFillFactor: 0.9, MaxChildrenPagesThreshold: 1},
	// no reallocation at all: pages stay where the allocator put the nodes
	{NodesCountPerPage: 2, CachedNodesCount: 1, PageFillFactor: 0.0, MaxChildrenPagesThreshold: 32},
	// packing only, even page size
	{NodesCountPerPage: 4, CachedNodesCount: 2, PageFillFactor: 0.6, MaxChildrenPagesThreshold: 32},
	// fan-out only
	{NodesCountPerPage: 5, CachedNodesCount: 3, PageFillFactor: 0.0, MaxChildrenPagesThreshold: 1},
}

// ---- ghost set ----
//
// One slot per operation: slot i holds the key of operation i and a 0/1 flag
// "this slot's key is in the set". All updates are branch-free so that the
// ghost adds no paths; the trie's own comparisons drive the case split.

type verifC17Ghost struct {
	packed  []uint32 // the key as an integer (big endian), < 2^24
	present []uint32 // 0 or 1
	keys    [][]byte
}

// 1 if a == b, else 0 (a, b < 2^31)
func verifC17Eq(a, b uint32) uint32 { return (((a ^ b) - 1) >> 31) & 1 }

func verifC17Pack(k []byte) uint32 {
	var p uint32
	for _, b := range k {
		p = p<<8 | uint32(b)
	}
	return p
}

// member: 1 if the key is in the set
func (g *verifC17Ghost) member(p uint32) uint32 {
	var m uint32
	for j := range g.packed {
		m |= g.present[j] & verifC17Eq(g.packed[j], p)
	}
	return m
}

func (g *verifC17Ghost) add(k []byte) {
	p := verifC17Pack(k)
	fresh := 1 - g.member(p)
	g.packed = append(g.packed, p)
	g.present = append(g.present, fresh)
	g.keys = append(g.keys, k)
}

func (g *verifC17Ghost) del(k []byte) {
	p := verifC17Pack(k)
	for j := range g.packed {
		g.present[j] &= 1 - verifC17Eq(g.packed[j], p)
	}
}

// the elements of the set in increasing key order (this sort forks on the
// symbolic keys; most comparisons are already decided by the trie's path)
func (g *verifC17Ghost) sorted() [][]byte {
	idx := make([]int, 0, len(g.packed))
	for j := range g.packed {
		if g.present[j] == 1 {
			idx = append(idx, j)
		}
	}
	for a := 1; a < len(idx); a++ {
		for b := a; b > 0 && g.packed[idx[b-1]] > g.packed[idx[b]]; b-- {
			idx[b-1], idx[b] = idx[b], idx[b-1]
		}
	}
	out := make([][]byte, len(idx))
	for a, j := range idx {
		out[a] = g.keys[j]
	}
	return out
}

// ---- specification of the canonical root ----
//
// Written from the documentation of the trie, independent of node.go: a
// subtree holding one key is a leaf carrying the not yet consumed key bytes; a
// subtree holding several keys is an inner node with one child per distinct
// next byte, in increasing byte order, whose digest is
//   H( len(path) path { kind(child) len(child.h) nextbyte child.h }* )
// and the root digest is H(kind(root) root.h); the empty set has the zero digest.

func verifC17SpecNode(keys [][]byte, path []byte) (leaf bool, h []byte) {
	depth := len(path)
	if len(keys) == 1 {
		return true, keys[0][depth:]
	}
	buf := []byte{byte(depth)}
	buf = append(buf, path...)
	for i := 0; i < len(keys); {
		b := keys[i][depth]
		j := i + 1
		for j < len(keys) && keys[j][depth] == b {
			j++
		}
		sub := make([]byte, 0, depth+1)
		sub = append(sub, path...)
		sub = append(sub, b)
		cl, ch := verifC17SpecNode(keys[i:j], sub)
		kind := byte(1)
		if cl {
			kind = 0
		}
		buf = append(buf, kind, byte(len(ch)), b)
		buf = append(buf, ch...)
		i = j
	}
	d := verifC17Hash(buf)
	return false, d[:]
}

func verifC17SpecRoot(sortedKeys [][]byte) crypto.Digest {
	if len(sortedKeys) == 0 {
		return crypto.Digest{}
	}
	leaf, h := verifC17SpecNode(sortedKeys, nil)
	kind := byte(1)
	if leaf {
		kind = 0
	}
	return verifC17Hash(append([]byte{kind}, h...))
}

func verifC17Key(n int) []byte {
	k := make([]byte, n)
	names := []string{"k.b0", "k.b1", "k.b2", "k.b3"}
	for i := range k {
		k[i] = vr.U8(names[i])
	}
	return k
}

func verifC17Config(n int) MemoryConfig {
	return verifC17Configs[vr.Choice("config", n)]
}

// one Add or Delete of a fresh symbolic key, checked against the ghost set
func verifC17Op(mt *Trie, g *verifC17Ghost, keyLen int) {
	k := verifC17Key(keyLen)
	was := g.member(verifC17Pack(k))
	if vr.Bool("op.add") {
		ok, err := mt.Add(k)
		vr.Assert("c17.add.no-error", err == nil)
		vr.Assert("c17.add.true-iff-absent", ok == (was == 0))
		if !ok {
			vr.Reach("readd")
		}
		g.add(k)
	} else {
		ok, err := mt.Delete(k)
		vr.Assert("c17.delete.no-error", err == nil)
		vr.Assert("c17.delete.true-iff-present", ok == (was == 1))
		if ok {
			vr.Reach("deleted")
		}
		g.del(k)
	}
}

// final obligations: the root is the specification's root of the ghost set,
// and equals the root of a FRESH trie (fresh committer) into which the set is
// inserted in increasing key order.
func verifC17CheckRoot(mt *Trie, g *verifC17Ghost, cfg MemoryConfig) {
	root, err := mt.RootHash()
	vr.Assert("c17.roothash.no-error", err == nil)
	set := g.sorted()
	fresh, err := MakeTrie(&InMemoryCommitter{}, cfg)
	vr.Assert("c17.fresh.make", err == nil)
	for _, k := range set {
		ok, err := fresh.Add(append([]byte{}, k...))
		vr.Assert("c17.fresh.add", ok && err == nil)
	}
	froot, err := fresh.RootHash()
	vr.Assert("c17.fresh.roothash.no-error", err == nil)
	vr.Assert("c17.root-equals-canonical-insertion", root == froot)
	vr.Assert("c17.root-equals-specification", root == verifC17SpecRoot(set))
	switch len(set) {
	case 0:
		vr.Reach("empty")
		vr.Assert("c17.empty-root-is-zero", root == crypto.Digest{})
	case 1:
		vr.Reach("single")
	default:
		if set[0][0] == set[1][0] {
			vr.Reach("sharedprefix")
		}
	}
}

// encodePage, line for line, except that it writes into a right-sized buffer
// instead of the 768 KB staging buffer commit() hands in: the engine's arrays
// are persistent values, so every single byte store into that buffer copies
// 768 K cells (measured: ~5 s per path, all of it in these stores). A buffer
// that is too small panics (index out of range), i.e. shows up as a violation.
// VerifC17EncodePageModel checks this model against the real encodePage.
func verifC17EncodePage(mtc *merkleTrieCache, nodeIDs map[storedNodeIdentifier]*node, _ []byte) []byte {
	serializedBuffer := make([]byte, 32+96*len(nodeIDs))
	version := binary.PutUvarint(serializedBuffer[:], nodePageVersion)
	length := binary.PutVarint(serializedBuffer[version:], int64(len(nodeIDs)))
	walk := version + length
	for nodeID, pnode := range nodeIDs {
		n := binary.PutUvarint(serializedBuffer[walk:], uint64(nodeID))
		walk += n
		n = pnode.serialize(serializedBuffer[walk:])
		walk += n
	}
	return serializedBuffer[:walk]
}

//verif:stub github.com/algorand/go-algorand/crypto.Hash = verifC17Hash
//verif:stub (*github.com/algorand/go-algorand/crypto/merkletrie.merkleTrieCache).encodePage = verifC17EncodePage

// History independence without intermediate commits: L operations on a new
// trie, then RootHash (which commits once).
//
//verif:harness prop=C17 reach=done,readd,deleted,empty,single,sharedprefix unwind=16 budget=200 thorough.budget=2400
func VerifC17History() {
	keyLen := vr.Param(2, 3)
	L := vr.Param(3, 4)
	cfg := verifC17Config(vr.Param(2, 4))
	mt, err := MakeTrie(&InMemoryCommitter{}, cfg)
	vr.Assert("c17.make", err == nil)
	g := &verifC17Ghost{}
	for i := 0; i < L; i++ {
		verifC17Op(mt, g, keyLen)
	}
	verifC17CheckRoot(mt, g, cfg)
	vr.Reach("done")
}
