//go:build verif

package merkletrie

import (
	"encoding/binary"

	"github.com/algorand/go-algorand/crypto"
	vr "github.com/algorand/go-algorand/internal/verifrt"
)

// C17: the Merkle trie root depends only on the element set; Add / Delete
// report membership correctly.
//
// Real code: Trie.Add / Delete / RootHash / Commit / Evict / serialize /
// deserialize, node.find / add / remove / calculateHash / serialize /
// deserializeNode, the whole of cache.go (transactions, commit, page
// reallocation, fan-out reallocation, encode / decode page, evict, deferred
// page load), bitset, InMemoryCommitter.
//
// Idealised: crypto.Hash is a collision-free uninterpreted function H. With H
// injective, equal roots mean equal (path, children, leaf remainders)
// structure all the way down. (Nothing here needs H(x) != 0, the root of the
// empty trie; that assumption would cost one solver query per hash call.)
//
// Bounds: fully symbolic keys of one fixed length; every operation is an Add
// or a Delete of a new symbolic key, chosen by the solver.
//   VerifC17History*: 3 operations on 2-byte keys (thorough also 3-byte keys),
//     no storage action before the final RootHash.
//   VerifC17Quick* / VerifC17Storage*: 3 operations on 2-byte keys, the first an
//     Add, a storage action (commit / evict / refused evict / reload / crash)
//     after the first and after the second; quick: four fixed schedules;
//     thorough: all 36 pairs of actions.
//   VerifC17Deep*: Add, Add, Add, one storage action, one free operation.
//   Page configurations: verifC17Configs[0..1] (thorough: [0..3]).
// Outside: longer keys and histories, SQLite committer, a crash in the middle
// of Commit (pages stored, root page not yet), concurrent use.

func verifC17Hash(data []byte) crypto.Digest {
	return crypto.Digest(vr.Hash32("H", data))
}

// page configurations: tiny pages so that a handful of nodes crosses page
// boundaries (storedNodeIdentifierBase = 0x4160 = 16736; 16736 % 3 == 2, so
// with 3 nodes per page the first page can take a single node).
var verifC17Configs = []MemoryConfig{
	// packing reallocation of under-filled new pages + fan-out reallocation of children
	{NodesCountPerPage: 3, CachedNodesCount: 1, PageFillFactor: 0.9, MaxChildrenPagesThreshold: 1},
	// no reallocation at all: pages stay where the allocator put the nodes
	{NodesCountPerPage: 2, CachedNodesCount: 1, PageFillFactor: 0.0, MaxChildrenPagesThreshold: 32},
	// packing only, even page size
	{NodesCountPerPage: 4, CachedNodesCount: 2, PageFillFactor: 0.6, MaxChildrenPagesThreshold: 32},
	// fan-out only
	{NodesCountPerPage: 5, CachedNodesCount: 3, PageFillFactor: 0.0, MaxChildrenPagesThreshold: 1},
}

// ---- ghost set ----
//
// One slot per operation: slot i holds the key of operation i and a 0/1 flag
// "this slot's key is in the set". All updates are branch-free so that the
// ghost adds no paths; the trie's own comparisons drive the case split.

type verifC17Ghost struct {
	packed  []uint32 // the key as an integer (big endian), < 2^24
	present []uint32 // 0 or 1
	keys    [][]byte
}

// 1 if a == b, else 0 (a, b < 2^31)
func verifC17Eq(a, b uint32) uint32 { return (((a ^ b) - 1) >> 31) & 1 }

func verifC17Pack(k []byte) uint32 {
	var p uint32
	for _, b := range k {
		p = p<<8 | uint32(b)
	}
	return p
}

// member: 1 if the key is in the set
func (g *verifC17Ghost) member(p uint32) uint32 {
	var m uint32
	for j := range g.packed {
		m |= g.present[j] & verifC17Eq(g.packed[j], p)
	}
	return m
}

func (g *verifC17Ghost) add(k []byte) {
	p := verifC17Pack(k)
	fresh := 1 - g.member(p)
	g.packed = append(g.packed, p)
	g.present = append(g.present, fresh)
	g.keys = append(g.keys, k)
}

func (g *verifC17Ghost) del(k []byte) {
	p := verifC17Pack(k)
	for j := range g.packed {
		g.present[j] &= 1 - verifC17Eq(g.packed[j], p)
	}
}

// the elements of the set in increasing key order (this sort forks on the
// symbolic keys; most comparisons are already decided by the trie's path)
func (g *verifC17Ghost) sorted() [][]byte {
	idx := make([]int, 0, len(g.packed))
	for j := range g.packed {
		if g.present[j] == 1 {
			idx = append(idx, j)
		}
	}
	for a := 1; a < len(idx); a++ {
		for b := a; b > 0 && g.packed[idx[b-1]] > g.packed[idx[b]]; b-- {
			idx[b-1], idx[b] = idx[b], idx[b-1]
		}
	}
	out := make([][]byte, len(idx))
	for a, j := range idx {
		out[a] = g.keys[j]
	}
	return out
}

// ---- specification of the canonical root ----
//
// Written from the documentation of the trie, independent of node.go: a
// subtree holding one key is a leaf carrying the not yet consumed key bytes; a
// subtree holding several keys is an inner node with one child per distinct
// next byte, in increasing byte order, whose digest is
//   H( len(path) path { kind(child) len(child.h) nextbyte child.h }* )
// and the root digest is H(kind(root) root.h); the empty set has the zero digest.

func verifC17SpecNode(keys [][]byte, path []byte) (leaf bool, h []byte) {
	depth := len(path)
	if len(keys) == 1 {
		return true, keys[0][depth:]
	}
	buf := []byte{byte(depth)}
	buf = append(buf, path...)
	for i := 0; i < len(keys); {
		b := keys[i][depth]
		j := i + 1
		for j < len(keys) && keys[j][depth] == b {
			j++
		}
		sub := make([]byte, 0, depth+1)
		sub = append(sub, path...)
		sub = append(sub, b)
		cl, ch := verifC17SpecNode(keys[i:j], sub)
		kind := byte(1)
		if cl {
			kind = 0
		}
		buf = append(buf, kind, byte(len(ch)), b)
		buf = append(buf, ch...)
		i = j
	}
	d := verifC17Hash(buf)
	return false, d[:]
}

func verifC17SpecRoot(sortedKeys [][]byte) crypto.Digest {
	if len(sortedKeys) == 0 {
		return crypto.Digest{}
	}
	leaf, h := verifC17SpecNode(sortedKeys, nil)
	kind := byte(1)
	if leaf {
		kind = 0
	}
	return verifC17Hash(append([]byte{kind}, h...))
}

func verifC17Key(n int) []byte {
	k := make([]byte, n)
	names := []string{"k.b0", "k.b1", "k.b2", "k.b3"}
	for i := range k {
		k[i] = vr.U8(names[i])
	}
	return k
}

// one Add or Delete of a fresh symbolic key, checked against the ghost set;
// returns whether the trie reported a change
func verifC17Op(mt *Trie, g *verifC17Ghost, keyLen int, forceAdd bool, fixedKey []byte) (changed bool) {
	k := verifC17Key(keyLen)
	if fixedKey != nil {
		k = append([]byte{}, fixedKey...) // a bound of the caller: this operation's key is given
	}
	was := g.member(verifC17Pack(k))
	if forceAdd || vr.Bool("op.add") {
		ok, err := mt.Add(k)
		vr.Assert("c17.add.no-error", err == nil)
		vr.Assert("c17.add.true-iff-absent", ok == (was == 0))
		if !ok {
			vr.Reach("readd")
		}
		g.add(k)
		changed = ok
	} else {
		ok, err := mt.Delete(k)
		vr.Assert("c17.delete.no-error", err == nil)
		vr.Assert("c17.delete.true-iff-present", ok == (was == 1))
		if ok {
			vr.Reach("deleted")
		}
		g.del(k)
		changed = ok
	}
	return changed
}

// final obligations: the root is the specification's root of the ghost set,
// and equals the root of a FRESH trie (fresh committer) into which the set is
// inserted in increasing key order.
func verifC17CheckRoot(mt *Trie, g *verifC17Ghost, cfg MemoryConfig) {
	root, err := mt.RootHash()
	vr.Assert("c17.roothash.no-error", err == nil)
	set := g.sorted()
	fresh, err := MakeTrie(&InMemoryCommitter{}, cfg)
	vr.Assert("c17.fresh.make", err == nil)
	for _, k := range set {
		ok, err := fresh.Add(append([]byte{}, k...))
		vr.Assert("c17.fresh.add", ok && err == nil)
	}
	froot, err := fresh.RootHash()
	vr.Assert("c17.fresh.roothash.no-error", err == nil)
	vr.Assert("c17.root-equals-canonical-insertion", root == froot)
	vr.Assert("c17.root-equals-specification", root == verifC17SpecRoot(set))
	switch len(set) {
	case 0:
		vr.Reach("empty")
		vr.Assert("c17.empty-root-is-zero", root == crypto.Digest{})
	case 1:
		vr.Reach("single")
	default:
		if set[0][0] == set[1][0] {
			vr.Reach("sharedprefix")
		}
	}
}

// verifC17Walk visits EVERY node below nid through the cache (so every page
// that holds a live node must load and decode), recomputes each inner node's
// digest from its children as the specification says and compares it with the
// digest stored in the node. The structure is concrete and equal inputs give
// the same H term, so this costs (almost) no solver queries.
func verifC17Walk(mt *Trie, nid storedNodeIdentifier, path []byte, leaves *int) (leaf bool, h []byte) {
	n, err := mt.cache.getNode(nid)
	vr.Assert("c17.walk.node-loads", err == nil && n != nil)
	if err != nil || n == nil {
		return true, nil
	}
	if n.leaf() {
		*leaves++
		vr.Assert("c17.walk.leaf-length", len(path)+len(n.hash) == mt.elementLength)
		return true, n.hash
	}
	buf := []byte{byte(len(path))}
	buf = append(buf, path...)
	children := append([]childEntry{}, n.children...)
	for _, c := range children {
		sub := make([]byte, 0, len(path)+1)
		sub = append(sub, path...)
		sub = append(sub, c.hashIndex)
		cl, ch := verifC17Walk(mt, c.id, sub, leaves)
		kind := byte(1)
		if cl {
			kind = 0
		}
		buf = append(buf, kind, byte(len(ch)), c.hashIndex)
		buf = append(buf, ch...)
	}
	d := verifC17Hash(buf)
	vr.Assert("c17.walk.stored-digest-length", len(n.hash) == len(d))
	if len(n.hash) == len(d) {
		vr.Assert("c17.walk.stored-digest", crypto.Digest(n.hash) == d)
	}
	return false, d[:]
}

// the whole stored trie is a well-formed Merkle trie with `want` leaves whose
// root digest is `root` (call on a committed trie: inner nodes carry digests)
func verifC17WalkRoot(mt *Trie, root crypto.Digest, want int) {
	if mt.root == storedNodeIdentifierNull {
		vr.Assert("c17.walk.empty", want == 0)
		return
	}
	leaves := 0
	leaf, h := verifC17Walk(mt, mt.root, nil, &leaves)
	kind := byte(1)
	if leaf {
		kind = 0
	}
	vr.Assert("c17.walk.root", verifC17Hash(append([]byte{kind}, h...)) == root)
	vr.Assert("c17.walk.leaf-count", leaves == want)
}

// encodePage, line for line, except that it writes into a right-sized buffer
// instead of the 768 KB staging buffer commit() hands in: the engine's arrays
// are persistent values, so every single byte store into that buffer copies
// 768 K cells (measured: ~5 s per path, all of it in these stores). A buffer
// that is too small panics (index out of range), i.e. shows up as a violation.
// VerifC17EncodePageModel checks this model against the real encodePage.
func verifC17EncodePage(mtc *merkleTrieCache, nodeIDs map[storedNodeIdentifier]*node, staging []byte) []byte {
	serializedBuffer := make([]byte, 32+96*len(nodeIDs))
	version := binary.PutUvarint(serializedBuffer[:], nodePageVersion)
	length := binary.PutVarint(serializedBuffer[version:], int64(len(nodeIDs)))
	walk := version + length
	for nodeID, pnode := range nodeIDs {
		n := binary.PutUvarint(serializedBuffer[walk:], uint64(nodeID))
		walk += n
		n = pnode.serialize(serializedBuffer[walk:])
		walk += n
	}
	return serializedBuffer[:walk]
}

//verif:stub github.com/algorand/go-algorand/crypto.Hash = verifC17Hash

// ---- history independence without intermediate commits ----
//
// L operations on a new trie, then RootHash (which commits once); one harness
// per page configuration so that they run in parallel.

func verifC17History(cfg MemoryConfig, L, keyLen int) {
	mt, err := MakeTrie(&InMemoryCommitter{}, cfg)
	vr.Assert("c17.make", err == nil)
	g := &verifC17Ghost{}
	for i := 0; i < L; i++ {
		verifC17Op(mt, g, keyLen, false, nil)
	}
	verifC17CheckRoot(mt, g, cfg)
	vr.Reach("done")
}

// both tiers: 3 free operations, 2-byte keys. (4 free operations do not fit the
// thorough budget: ~0.4 s per query on the longer path conditions; 4-operation
// histories are covered in the Add,Add,Add,action,op form by VerifC17Deep*.)

//verif:harness prop=C17 reach=done,readd,deleted,empty,single,sharedprefix unwind=16 budget=300
//verif:stub (*github.com/algorand/go-algorand/crypto/merkletrie.merkleTrieCache).encodePage = verifC17EncodePage
func VerifC17HistoryCfg0() { verifC17History(verifC17Configs[0], 3, 2) }

//verif:harness prop=C17 reach=done,readd,deleted,empty,single,sharedprefix unwind=16 budget=300
//verif:stub (*github.com/algorand/go-algorand/crypto/merkletrie.merkleTrieCache).encodePage = verifC17EncodePage
func VerifC17HistoryCfg1() { verifC17History(verifC17Configs[1], 3, 2) }

// thorough only: 3 free operations on 3-byte keys (two levels of shared prefix), all four configurations

//verif:harness prop=C17 tier=thorough reach=done,readd,deleted,empty,single,sharedprefix unwind=16 budget=2800
//verif:stub (*github.com/algorand/go-algorand/crypto/merkletrie.merkleTrieCache).encodePage = verifC17EncodePage
func VerifC17History3ByteCfg0() { verifC17History(verifC17Configs[0], 3, 3) }

//verif:harness prop=C17 tier=thorough reach=done,readd,deleted,empty,single,sharedprefix unwind=16 budget=2800
//verif:stub (*github.com/algorand/go-algorand/crypto/merkletrie.merkleTrieCache).encodePage = verifC17EncodePage
func VerifC17History3ByteCfg1() { verifC17History(verifC17Configs[1], 3, 3) }

//verif:harness prop=C17 tier=thorough reach=done,readd,deleted,empty,single,sharedprefix unwind=16 budget=2800
//verif:stub (*github.com/algorand/go-algorand/crypto/merkletrie.merkleTrieCache).encodePage = verifC17EncodePage
func VerifC17History3ByteCfg2() { verifC17History(verifC17Configs[2], 3, 3) }

//verif:harness prop=C17 tier=thorough reach=done,readd,deleted,empty,single,sharedprefix unwind=16 budget=2800
//verif:stub (*github.com/algorand/go-algorand/crypto/merkletrie.merkleTrieCache).encodePage = verifC17EncodePage
func VerifC17History3ByteCfg3() { verifC17History(verifC17Configs[3], 3, 3) }

// ---- commits, evictions, reloads and crashes between the operations ----
//
// After every operation but the last a storage action is taken:
const (
	verifC17None       = iota // nothing
	verifC17Commit            // Commit()
	verifC17Evict             // Evict(true): commit, then drop pages down to CachedNodesCount
	verifC17EvictFalse        // Evict(false): refused iff there are uncommitted changes, else evicts
	verifC17Reload            // Commit(), then a NEW Trie over the same committer (root page + lazy page loads)
	verifC17Crash             // a NEW Trie over the same committer WITHOUT committing: the set reverts to the last commit
	verifC17Actions
)

type verifC17Store struct {
	mc    *InMemoryCommitter
	cfg   MemoryConfig
	mt    *Trie
	g     *verifC17Ghost
	dirty bool     // a successful Add/Delete since the last commit
	saved []uint32 // ghost "present" flags at the last commit
}

func (s *verifC17Store) committed() {
	s.dirty = false
	s.saved = append([]uint32{}, s.g.present...)
}

func (s *verifC17Store) reopen() {
	mt, err := MakeTrie(s.mc, s.cfg)
	vr.Assert("c17.reload.make", err == nil && mt != nil)
	s.mt = mt
	s.dirty = false
}

func (s *verifC17Store) act(a int) {
	switch a {
	case verifC17Commit:
		_, err := s.mt.Commit()
		vr.Assert("c17.commit.no-error", err == nil)
		s.committed()
	case verifC17Evict:
		_, err := s.mt.Evict(true)
		vr.Assert("c17.evict.no-error", err == nil)
		s.committed()
		vr.Reach("evicted")
	case verifC17EvictFalse:
		_, err := s.mt.Evict(false)
		if s.dirty {
			vr.Reach("evictrefused")
			vr.Assert("c17.evict-false.refused-when-dirty", err == ErrUnableToEvictPendingCommits)
		} else {
			vr.Assert("c17.evict-false.ok-when-clean", err == nil)
		}
	case verifC17Reload:
		_, err := s.mt.Commit()
		vr.Assert("c17.commit.no-error", err == nil)
		s.committed()
		s.reopen()
		vr.Reach("reloaded")
	case verifC17Crash:
		// everything since the last commit is lost
		s.reopen()
		for j := range s.g.present {
			if j < len(s.saved) {
				s.g.present[j] = s.saved[j]
			} else {
				s.g.present[j] = 0
			}
		}
		vr.Reach("crashed")
	}
}

// verifC17Storage: 3 operations, the first an Add (a Delete on the empty trie
// returns at once and is covered by VerifC17History*), a storage action after
// the first (picked from first) and after the second (picked from rest).
// Then: root == specification root of the ghost set; Commit; re-open from the
// committer: same root, and a walk over EVERY stored node re-derives all
// digests (every live page must still be there, with the right content).
func verifC17Storage(cfg MemoryConfig, first, rest []int) {
	verifC17StorageN(cfg, 3, 1, nil, first, rest)
}

// L operations, the first `adds` of them Adds with no storage action between
// them; first = actions after operation 1 (when adds == 1), rest = actions
// after the later operations. fill, if given, fixes the keys of the first
// len(fill) operations (concrete keys instead of symbolic ones).
func verifC17StorageN(cfg MemoryConfig, L, adds int, fill [][]byte, first, rest []int) {
	keyLen := 2
	s := &verifC17Store{mc: &InMemoryCommitter{}, cfg: cfg, g: &verifC17Ghost{}}
	s.reopen()
	for i := 0; i < L; i++ {
		var fixed []byte
		if i < len(fill) {
			fixed = fill[i]
		}
		if verifC17Op(s.mt, s.g, keyLen, i < adds, fixed) {
			s.dirty = true
		}
		if i == L-1 {
			break
		}
		if i < adds-1 {
			continue // the trie is being filled
		}
		acts := rest
		if i == 0 {
			acts = first
		}
		a := acts[0]
		if len(acts) > 1 {
			a = acts[vr.Choice("action", len(acts))]
		}
		s.act(a)
	}
	root, err := s.mt.RootHash()
	vr.Assert("c17.roothash.no-error", err == nil)
	set := s.g.sorted()
	vr.Assert("c17.root-equals-specification", root == verifC17SpecRoot(set))

	_, err = s.mt.Commit()
	vr.Assert("c17.commit.no-error", err == nil)
	s.reopen()
	root2, err := s.mt.RootHash()
	vr.Assert("c17.reload.roothash.no-error", err == nil)
	vr.Assert("c17.reload.same-root", root2 == root)
	// every live node is still in storage and carries the right digest
	verifC17WalkRoot(s.mt, root, len(set))
	if len(set) >= 2 {
		vr.Reach("two")
	}
	vr.Reach("done")
}

// ---- quick tier: one schedule per harness, two page configurations ----

//verif:harness prop=C17 tier=quick reach=done,readd,deleted,two,evicted,reloaded unwind=16 budget=300
//verif:stub (*github.com/algorand/go-algorand/crypto/merkletrie.merkleTrieCache).encodePage = verifC17EncodePage
func VerifC17QuickEvictReload() {
	verifC17Storage(verifC17Configs[0], []int{verifC17Evict}, []int{verifC17Reload})
}

//verif:harness prop=C17 tier=quick reach=done,readd,deleted,two,evicted,reloaded unwind=16 budget=300
//verif:stub (*github.com/algorand/go-algorand/crypto/merkletrie.merkleTrieCache).encodePage = verifC17EncodePage
func VerifC17QuickReloadEvict() {
	verifC17Storage(verifC17Configs[1], []int{verifC17Reload}, []int{verifC17Evict})
}

//verif:harness prop=C17 tier=quick reach=done,readd,deleted,two,crashed unwind=16 budget=300
//verif:stub (*github.com/algorand/go-algorand/crypto/merkletrie.merkleTrieCache).encodePage = verifC17EncodePage
func VerifC17QuickCommitCrash() {
	verifC17Storage(verifC17Configs[0], []int{verifC17Commit}, []int{verifC17Crash})
}

//verif:harness prop=C17 tier=quick reach=done,readd,deleted,two,evictrefused unwind=16 budget=300
//verif:stub (*github.com/algorand/go-algorand/crypto/merkletrie.merkleTrieCache).encodePage = verifC17EncodePage
func VerifC17QuickCommitEvictFalse() {
	verifC17Storage(verifC17Configs[1], []int{verifC17Commit}, []int{verifC17EvictFalse})
}

// ---- thorough tier: every pair of actions, four page configurations ----
// (one harness per configuration and first action, so that they run in
// parallel; the second action is the solver's choice among all six)

var verifC17All = []int{verifC17None, verifC17Commit, verifC17Evict, verifC17EvictFalse, verifC17Reload, verifC17Crash}

//verif:harness prop=C17 tier=thorough reach=done,readd,deleted,two,evicted,evictrefused,reloaded,crashed unwind=16 budget=2800
//verif:stub (*github.com/algorand/go-algorand/crypto/merkletrie.merkleTrieCache).encodePage = verifC17EncodePage
func VerifC17StorageCfg0None() {
	verifC17Storage(verifC17Configs[0], []int{verifC17None}, verifC17All)
}

//verif:harness prop=C17 tier=thorough reach=done,readd,deleted,two,evicted,evictrefused,reloaded,crashed unwind=16 budget=2800
//verif:stub (*github.com/algorand/go-algorand/crypto/merkletrie.merkleTrieCache).encodePage = verifC17EncodePage
func VerifC17StorageCfg0Commit() {
	verifC17Storage(verifC17Configs[0], []int{verifC17Commit}, verifC17All)
}

//verif:harness prop=C17 tier=thorough reach=done,readd,deleted,two,evicted,evictrefused,reloaded,crashed unwind=16 budget=2800
//verif:stub (*github.com/algorand/go-algorand/crypto/merkletrie.merkleTrieCache).encodePage = verifC17EncodePage
func VerifC17StorageCfg0Evict() {
	verifC17Storage(verifC17Configs[0], []int{verifC17Evict}, verifC17All)
}

//verif:harness prop=C17 tier=thorough reach=done,readd,deleted,two,evicted,evictrefused,reloaded,crashed unwind=16 budget=2800
//verif:stub (*github.com/algorand/go-algorand/crypto/merkletrie.merkleTrieCache).encodePage = verifC17EncodePage
func VerifC17StorageCfg0EvictFalse() {
	verifC17Storage(verifC17Configs[0], []int{verifC17EvictFalse}, verifC17All)
}

//verif:harness prop=C17 tier=thorough reach=done,readd,deleted,two,evicted,evictrefused,reloaded,crashed unwind=16 budget=2800
//verif:stub (*github.com/algorand/go-algorand/crypto/merkletrie.merkleTrieCache).encodePage = verifC17EncodePage
func VerifC17StorageCfg0Reload() {
	verifC17Storage(verifC17Configs[0], []int{verifC17Reload}, verifC17All)
}

//verif:harness prop=C17 tier=thorough reach=done,readd,deleted,two,evicted,evictrefused,reloaded,crashed unwind=16 budget=2800
//verif:stub (*github.com/algorand/go-algorand/crypto/merkletrie.merkleTrieCache).encodePage = verifC17EncodePage
func VerifC17StorageCfg0Crash() {
	verifC17Storage(verifC17Configs[0], []int{verifC17Crash}, verifC17All)
}

//verif:harness prop=C17 tier=thorough reach=done,readd,deleted,two,evicted,evictrefused,reloaded,crashed unwind=16 budget=2800
//verif:stub (*github.com/algorand/go-algorand/crypto/merkletrie.merkleTrieCache).encodePage = verifC17EncodePage
func VerifC17StorageCfg1None() {
	verifC17Storage(verifC17Configs[1], []int{verifC17None}, verifC17All)
}

//verif:harness prop=C17 tier=thorough reach=done,readd,deleted,two,evicted,evictrefused,reloaded,crashed unwind=16 budget=2800
//verif:stub (*github.com/algorand/go-algorand/crypto/merkletrie.merkleTrieCache).encodePage = verifC17EncodePage
func VerifC17StorageCfg1Commit() {
	verifC17Storage(verifC17Configs[1], []int{verifC17Commit}, verifC17All)
}

//verif:harness prop=C17 tier=thorough reach=done,readd,deleted,two,evicted,evictrefused,reloaded,crashed unwind=16 budget=2800
//verif:stub (*github.com/algorand/go-algorand/crypto/merkletrie.merkleTrieCache).encodePage = verifC17EncodePage
func VerifC17StorageCfg1Evict() {
	verifC17Storage(verifC17Configs[1], []int{verifC17Evict}, verifC17All)
}

//verif:harness prop=C17 tier=thorough reach=done,readd,deleted,two,evicted,evictrefused,reloaded,crashed unwind=16 budget=2800
//verif:stub (*github.com/algorand/go-algorand/crypto/merkletrie.merkleTrieCache).encodePage = verifC17EncodePage
func VerifC17StorageCfg1EvictFalse() {
	verifC17Storage(verifC17Configs[1], []int{verifC17EvictFalse}, verifC17All)
}

//verif:harness prop=C17 tier=thorough reach=done,readd,deleted,two,evicted,evictrefused,reloaded,crashed unwind=16 budget=2800
//verif:stub (*github.com/algorand/go-algorand/crypto/merkletrie.merkleTrieCache).encodePage = verifC17EncodePage
func VerifC17StorageCfg1Reload() {
	verifC17Storage(verifC17Configs[1], []int{verifC17Reload}, verifC17All)
}

//verif:harness prop=C17 tier=thorough reach=done,readd,deleted,two,evicted,evictrefused,reloaded,crashed unwind=16 budget=2800
//verif:stub (*github.com/algorand/go-algorand/crypto/merkletrie.merkleTrieCache).encodePage = verifC17EncodePage
func VerifC17StorageCfg1Crash() {
	verifC17Storage(verifC17Configs[1], []int{verifC17Crash}, verifC17All)
}

//verif:harness prop=C17 tier=thorough reach=done,readd,deleted,two,evicted,evictrefused,reloaded,crashed unwind=16 budget=2800
//verif:stub (*github.com/algorand/go-algorand/crypto/merkletrie.merkleTrieCache).encodePage = verifC17EncodePage
func VerifC17StorageCfg2None() {
	verifC17Storage(verifC17Configs[2], []int{verifC17None}, verifC17All)
}

//verif:harness prop=C17 tier=thorough reach=done,readd,deleted,two,evicted,evictrefused,reloaded,crashed unwind=16 budget=2800
//verif:stub (*github.com/algorand/go-algorand/crypto/merkletrie.merkleTrieCache).encodePage = verifC17EncodePage
func VerifC17StorageCfg2Commit() {
	verifC17Storage(verifC17Configs[2], []int{verifC17Commit}, verifC17All)
}

//verif:harness prop=C17 tier=thorough reach=done,readd,deleted,two,evicted,evictrefused,reloaded,crashed unwind=16 budget=2800
//verif:stub (*github.com/algorand/go-algorand/crypto/merkletrie.merkleTrieCache).encodePage = verifC17EncodePage
func VerifC17StorageCfg2Evict() {
	verifC17Storage(verifC17Configs[2], []int{verifC17Evict}, verifC17All)
}

//verif:harness prop=C17 tier=thorough reach=done,readd,deleted,two,evicted,evictrefused,reloaded,crashed unwind=16 budget=2800
//verif:stub (*github.com/algorand/go-algorand/crypto/merkletrie.merkleTrieCache).encodePage = verifC17EncodePage
func VerifC17StorageCfg2EvictFalse() {
	verifC17Storage(verifC17Configs[2], []int{verifC17EvictFalse}, verifC17All)
}

//verif:harness prop=C17 tier=thorough reach=done,readd,deleted,two,evicted,evictrefused,reloaded,crashed unwind=16 budget=2800
//verif:stub (*github.com/algorand/go-algorand/crypto/merkletrie.merkleTrieCache).encodePage = verifC17EncodePage
func VerifC17StorageCfg2Reload() {
	verifC17Storage(verifC17Configs[2], []int{verifC17Reload}, verifC17All)
}

//verif:harness prop=C17 tier=thorough reach=done,readd,deleted,two,evicted,evictrefused,reloaded,crashed unwind=16 budget=2800
//verif:stub (*github.com/algorand/go-algorand/crypto/merkletrie.merkleTrieCache).encodePage = verifC17EncodePage
func VerifC17StorageCfg2Crash() {
	verifC17Storage(verifC17Configs[2], []int{verifC17Crash}, verifC17All)
}

//verif:harness prop=C17 tier=thorough reach=done,readd,deleted,two,evicted,evictrefused,reloaded,crashed unwind=16 budget=2800
//verif:stub (*github.com/algorand/go-algorand/crypto/merkletrie.merkleTrieCache).encodePage = verifC17EncodePage
func VerifC17StorageCfg3None() {
	verifC17Storage(verifC17Configs[3], []int{verifC17None}, verifC17All)
}

//verif:harness prop=C17 tier=thorough reach=done,readd,deleted,two,evicted,evictrefused,reloaded,crashed unwind=16 budget=2800
//verif:stub (*github.com/algorand/go-algorand/crypto/merkletrie.merkleTrieCache).encodePage = verifC17EncodePage
func VerifC17StorageCfg3Commit() {
	verifC17Storage(verifC17Configs[3], []int{verifC17Commit}, verifC17All)
}

//verif:harness prop=C17 tier=thorough reach=done,readd,deleted,two,evicted,evictrefused,reloaded,crashed unwind=16 budget=2800
//verif:stub (*github.com/algorand/go-algorand/crypto/merkletrie.merkleTrieCache).encodePage = verifC17EncodePage
func VerifC17StorageCfg3Evict() {
	verifC17Storage(verifC17Configs[3], []int{verifC17Evict}, verifC17All)
}

//verif:harness prop=C17 tier=thorough reach=done,readd,deleted,two,evicted,evictrefused,reloaded,crashed unwind=16 budget=2800
//verif:stub (*github.com/algorand/go-algorand/crypto/merkletrie.merkleTrieCache).encodePage = verifC17EncodePage
func VerifC17StorageCfg3EvictFalse() {
	verifC17Storage(verifC17Configs[3], []int{verifC17EvictFalse}, verifC17All)
}

//verif:harness prop=C17 tier=thorough reach=done,readd,deleted,two,evicted,evictrefused,reloaded,crashed unwind=16 budget=2800
//verif:stub (*github.com/algorand/go-algorand/crypto/merkletrie.merkleTrieCache).encodePage = verifC17EncodePage
func VerifC17StorageCfg3Reload() {
	verifC17Storage(verifC17Configs[3], []int{verifC17Reload}, verifC17All)
}

//verif:harness prop=C17 tier=thorough reach=done,readd,deleted,two,evicted,evictrefused,reloaded,crashed unwind=16 budget=2800
//verif:stub (*github.com/algorand/go-algorand/crypto/merkletrie.merkleTrieCache).encodePage = verifC17EncodePage
func VerifC17StorageCfg3Crash() {
	verifC17Storage(verifC17Configs[3], []int{verifC17Crash}, verifC17All)
}

// ---- deeper tries ----
// Three Adds fill the trie (no storage action in between), then one storage
// action, then a free fourth operation: the smallest histories in which a
// re-opened trie allocates into a partly filled page whose other live nodes
// the operation never touches (deferred page load), and in which an inner
// node below the root survives a commit untouched. (Seeded bug "deferedPageLoad
// never set" is caught here and by no 3-operation history.)

// thorough: symbolic filling keys, action Evict(true) or Reload, all four
// configurations (VerifC17DeepCfg<N>Evict / ...Reload, below). On the
// unmodified tree VerifC17DeepCfg2Evict and VerifC17DeepCfg3Evict report the
// FINDING described at VerifC17EvictKeepsAllocationPage (tag
// c17.walk.node-loads; e.g. cfg[2]: Add{00 00} Add{00 18} Add{00 3d}
// Evict(true) Add{04 c6}). The no-action and Commit-only variants were dropped
// for time (1500 paths / 20 k queries each).
//
// quick: the three filling keys are CONCRETE (three leaves below one inner
// node; the storage layout, not the key bytes, is what matters here), the
// fourth operation and its key are the solver's; fan-out configuration [3].
var verifC17Fill = [][]byte{{0x00, 0x00}, {0x00, 0x20}, {0x00, 0x31}}

// Reload after the third Add: the re-opened trie allocates into the partly
// filled last page; merkleTrieCache.deferedPageLoad must bring the page's other
// nodes in before Commit writes the page back.
//
//verif:harness prop=C17 tier=quick reach=done,readd,deleted,two,reloaded unwind=16 budget=300
//verif:stub (*github.com/algorand/go-algorand/crypto/merkletrie.merkleTrieCache).encodePage = verifC17EncodePage
func VerifC17QuickDeepReload() {
	verifC17StorageN(verifC17Configs[3], 4, 3, verifC17Fill, nil, []int{verifC17Reload})
}

// Evict(true) after the third Add: nothing may be lost when the eviction drops
// the partly filled page the allocator will continue in.
// FINDING (unmodified tree, c17.walk.node-loads): evict() protects only the
// root's page. With CachedNodesCount 3 < a page, Add{00 00} Add{00 20}
// Add{00 31} Evict(true) leaves the three leaves on the evicted, partly filled
// page 3349 (ids 16745..16747, nextNodeID 16748); Add{10 fd} allocates 16748
// and 16749 into a fresh in-memory map for page 3349 and touches none of the
// old leaves; the next Commit stores page 3349 with the new nodes only. The
// leaves are gone from storage: Delete{00 20} = (false, ErrLoadedPageMissingNode).
//
//verif:harness prop=C17 tier=quick reach=done,readd,deleted,two,evicted unwind=16 budget=300
//verif:stub (*github.com/algorand/go-algorand/crypto/merkletrie.merkleTrieCache).encodePage = verifC17EncodePage
func VerifC17EvictKeepsAllocationPage() {
	verifC17StorageN(verifC17Configs[3], 4, 3, verifC17Fill, nil, []int{verifC17Evict})
}

// (not registered: did not finish inside 6000 s per harness - see DESIGN 10.6)
// verif-harness-disabled prop=C17 tier=thorough reach=done,readd,deleted,two,evicted unwind=16 budget=6000
//verif:stub (*github.com/algorand/go-algorand/crypto/merkletrie.merkleTrieCache).encodePage = verifC17EncodePage
func VerifC17DeepCfg0Evict() {
	verifC17StorageN(verifC17Configs[0], 4, 3, nil, nil, []int{verifC17Evict})
}

// (not registered: did not finish inside 6000 s per harness - see DESIGN 10.6)
// verif-harness-disabled prop=C17 tier=thorough reach=done,readd,deleted,two,reloaded unwind=16 budget=6000
//verif:stub (*github.com/algorand/go-algorand/crypto/merkletrie.merkleTrieCache).encodePage = verifC17EncodePage
func VerifC17DeepCfg0Reload() {
	verifC17StorageN(verifC17Configs[0], 4, 3, nil, nil, []int{verifC17Reload})
}

// (not registered: did not finish inside 6000 s per harness - see DESIGN 10.6)
// verif-harness-disabled prop=C17 tier=thorough reach=done,readd,deleted,two,evicted unwind=16 budget=6000
//verif:stub (*github.com/algorand/go-algorand/crypto/merkletrie.merkleTrieCache).encodePage = verifC17EncodePage
func VerifC17DeepCfg1Evict() {
	verifC17StorageN(verifC17Configs[1], 4, 3, nil, nil, []int{verifC17Evict})
}

// (not registered: did not finish inside 6000 s per harness - see DESIGN 10.6)
// verif-harness-disabled prop=C17 tier=thorough reach=done,readd,deleted,two,reloaded unwind=16 budget=6000
//verif:stub (*github.com/algorand/go-algorand/crypto/merkletrie.merkleTrieCache).encodePage = verifC17EncodePage
func VerifC17DeepCfg1Reload() {
	verifC17StorageN(verifC17Configs[1], 4, 3, nil, nil, []int{verifC17Reload})
}

// (not registered: did not finish inside 6000 s per harness - see DESIGN 10.6)
// verif-harness-disabled prop=C17 tier=thorough reach=done,readd,deleted,two,evicted unwind=16 budget=6000
//verif:stub (*github.com/algorand/go-algorand/crypto/merkletrie.merkleTrieCache).encodePage = verifC17EncodePage
func VerifC17DeepCfg2Evict() {
	verifC17StorageN(verifC17Configs[2], 4, 3, nil, nil, []int{verifC17Evict})
}

// (not registered: did not finish inside 6000 s per harness - see DESIGN 10.6)
// verif-harness-disabled prop=C17 tier=thorough reach=done,readd,deleted,two,reloaded unwind=16 budget=6000
//verif:stub (*github.com/algorand/go-algorand/crypto/merkletrie.merkleTrieCache).encodePage = verifC17EncodePage
func VerifC17DeepCfg2Reload() {
	verifC17StorageN(verifC17Configs[2], 4, 3, nil, nil, []int{verifC17Reload})
}

// (not registered: did not finish inside 6000 s per harness - see DESIGN 10.6)
// verif-harness-disabled prop=C17 tier=thorough reach=done,readd,deleted,two,evicted unwind=16 budget=6000
//verif:stub (*github.com/algorand/go-algorand/crypto/merkletrie.merkleTrieCache).encodePage = verifC17EncodePage
func VerifC17DeepCfg3Evict() {
	verifC17StorageN(verifC17Configs[3], 4, 3, nil, nil, []int{verifC17Evict})
}

// (not registered: did not finish inside 6000 s per harness - see DESIGN 10.6)
// verif-harness-disabled prop=C17 tier=thorough reach=done,readd,deleted,two,reloaded unwind=16 budget=6000
//verif:stub (*github.com/algorand/go-algorand/crypto/merkletrie.merkleTrieCache).encodePage = verifC17EncodePage
func VerifC17DeepCfg3Reload() {
	verifC17StorageN(verifC17Configs[3], 4, 3, nil, nil, []int{verifC17Reload})
}
