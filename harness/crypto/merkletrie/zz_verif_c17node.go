//go:build verif

package merkletrie

import (
	"github.com/algorand/go-algorand/crypto"
	vr "github.com/algorand/go-algorand/internal/verifrt"
)

// C17, unit level: node.remove / node.add (through Trie.Delete / Trie.Add) on a
// WIDE root node whose pre-state is constructed directly instead of through a
// history: 3-4 operation histories never build a node with more than 3
// children, so the index arithmetic of the children lists (byte-typed child
// index, 256 slots) is out of their reach.
//
// Pre-state: 2-byte keys; the root is an inner node with N leaf children,
// N in {2, 3, 255, 256}; the child hash indices always include 0x00 and 0xff.
// The nodes are created with the cache's own allocator inside a cache
// transaction (beginTransaction / allocateNewNode / commitTransaction) and
// filled the way node.add leaves them: leaves carry the remaining key byte,
// the root carries its (empty) path, a strictly increasing children list and
// the matching childrenMask; all nodes are pending (not yet committed), or
// committed (small N only).
//
// Checked after the real Trie.Delete / Trie.Add: the return value; the new
// root node's children are exactly the old ones minus / plus that one, in
// increasing hashIndex order, each still pointing to a leaf with its old
// remainder; childrenMask agrees; the path of the root is empty; a root left
// with a single leaf child collapses into a leaf carrying the whole key; the
// root hash equals the specification root of the resulting key set
// (verifC17SpecRoot, injective H); after Commit + re-open the stored trie
// walks to the same root (verifC17WalkRoot).
//
// Bounds: N in {2, 3}: the middle hash index, every leaf byte and the
// selected child / the absent index are symbolic. N in {255, 256}: hash
// indices are concrete (0..255 without one of {0x01, 0x80, 0xfe} for 255), the
// leaf bytes are symbolic at the tested positions and concrete elsewhere, the
// child position is case-split over {0, 1, 0x7f, 0x80, last-1, last}
// (concrete per path).

// one big page size: this file is about node.go, not about paging
var verifC17NodeConfig = MemoryConfig{NodesCountPerPage: 512, CachedNodesCount: 10000, PageFillFactor: 0.0, MaxChildrenPagesThreshold: 512}

type verifC17NodeState struct {
	mt   *Trie
	idx  []byte // hash indices of the root's children, strictly increasing
	leaf []byte // remaining key byte held by each child leaf
}

func verifC17NodeBuild(idx, leaf []byte, commit bool) *verifC17NodeState {
	mt, err := MakeTrie(&InMemoryCommitter{}, verifC17NodeConfig)
	vr.Assert("c17.node.make", err == nil)
	c := &mt.cache
	c.beginTransaction()
	children := make([]childEntry, len(idx))
	var mask bitset
	for i := range idx {
		ln, id := c.allocateNewNode()
		ln.hash = []byte{leaf[i]}
		children[i] = childEntry{id: id, hashIndex: idx[i]}
		mask.SetBit(idx[i])
	}
	rn, rid := c.allocateNewNode()
	rn.hash = make([]byte, 0, 2)
	rn.children = children
	rn.childrenMask = mask
	c.commitTransaction()
	mt.root = rid
	mt.elementLength = 2
	if commit {
		_, err = mt.Commit()
		vr.Assert("c17.node.pre-commit", err == nil)
	}
	return &verifC17NodeState{mt: mt, idx: idx, leaf: leaf}
}

// small pre-states: {0x00, 0xff} or {0x00, m, 0xff}, everything else symbolic
func verifC17NodeSmall() *verifC17NodeState {
	n := 2 + vr.Choice("n", 2)
	idx := []byte{0x00, 0xff}
	if n == 3 {
		m := vr.U8("mid")
		vr.Assume(m > 0x00)
		vr.Assume(m < 0xff)
		idx = []byte{0x00, m, 0xff}
	}
	leaf := make([]byte, n)
	for i := range leaf {
		leaf[i] = vr.U8("leaf")
	}
	return verifC17NodeBuild(idx, leaf, vr.Bool("precommitted"))
}

// wide pre-states: 256 children, or 255 (all but `miss`); leaf bytes concrete
// except at the positions in symAt
func verifC17NodeWide(miss int, symAt []int) *verifC17NodeState {
	var idx, leaf []byte
	for h := 0; h < 256; h++ {
		if h == miss {
			continue
		}
		idx = append(idx, byte(h))
		leaf = append(leaf, byte(h*7+3))
	}
	for _, p := range symAt {
		if p >= 0 && p < len(leaf) {
			leaf[p] = vr.U8("leaf")
		}
	}
	return verifC17NodeBuild(idx, leaf, false)
}

var verifC17NodeMisses = []int{0x01, 0x80, 0xfe}

func verifC17NodePositions(n int) []int {
	return []int{0, 1, 0x7f, 0x80, n - 2, n - 1}
}

// the resulting root must be exactly (wantIdx, wantLeaf)
func (s *verifC17NodeState) check(wantIdx, wantLeaf []byte) {
	mt := s.mt
	if len(wantIdx) == 0 {
		vr.Assert("c17.node.empty", mt.root == storedNodeIdentifierNull)
		return
	}
	rn, err := mt.cache.getNode(mt.root)
	vr.Assert("c17.node.root-loads", err == nil && rn != nil)
	if err != nil || rn == nil {
		return
	}
	if len(wantIdx) == 1 {
		// "our tree forbids nodes that have exactly one leaf child and no other children"
		vr.Reach("collapsed")
		vr.Assert("c17.node.collapse.is-leaf", rn.leaf() && rn.childrenMask.IsZero())
		vr.Assert("c17.node.collapse.key-length", len(rn.hash) == 2)
		if len(rn.hash) == 2 {
			vr.Assert("c17.node.collapse.key", rn.hash[0] == wantIdx[0] && rn.hash[1] == wantLeaf[0])
		}
	} else {
		vr.Assert("c17.node.children-count", len(rn.children) == len(wantIdx))
		vr.Assert("c17.node.root-path-empty", len(rn.hash) == 0)
		var mask bitset
		for j := range wantIdx {
			mask.SetBit(wantIdx[j])
		}
		vr.Assert("c17.node.mask", rn.childrenMask == mask)
		if len(rn.children) == len(wantIdx) {
			var diff byte // branch-free: one obligation for the whole list
			ordered := true
			for j, ce := range rn.children {
				diff |= ce.hashIndex ^ wantIdx[j]
				if j > 0 && !(rn.children[j-1].hashIndex < ce.hashIndex) {
					ordered = false
				}
				cn, err := mt.cache.getNode(ce.id)
				vr.Assert("c17.node.child-loads", err == nil && cn != nil)
				if err != nil || cn == nil {
					continue
				}
				vr.Assert("c17.node.child-is-leaf", cn.leaf() && len(cn.hash) == 1)
				if len(cn.hash) == 1 {
					diff |= cn.hash[0] ^ wantLeaf[j]
				}
			}
			vr.Assert("c17.node.children-increasing", ordered)
			vr.Assert("c17.node.children-exact", diff == 0)
		}
	}
	keys := make([][]byte, len(wantIdx))
	for j := range wantIdx {
		keys[j] = []byte{wantIdx[j], wantLeaf[j]}
	}
	root, err := mt.RootHash()
	vr.Assert("c17.node.roothash.no-error", err == nil)
	vr.Assert("c17.node.root-equals-specification", root == verifC17SpecRoot(keys))
	// persisted form: commit, re-open, walk every node
	_, err = mt.Commit()
	vr.Assert("c17.node.commit.no-error", err == nil)
	mt2, err := MakeTrie(mt.cache.committer, verifC17NodeConfig)
	vr.Assert("c17.node.reopen", err == nil && mt2 != nil)
	if err == nil && mt2 != nil {
		root2, err := mt2.RootHash()
		vr.Assert("c17.node.reopen.same-root", err == nil && root2 == root)
		verifC17WalkRoot(mt2, root, len(wantIdx))
	}
}

// Delete of the key held by child number pos (pos may be symbolic)
func (s *verifC17NodeState) deleteAt(pos int) {
	n := len(s.idx)
	key := []byte{s.idx[pos], s.leaf[pos]}
	ok, err := s.mt.Delete(key)
	vr.Assert("c17.node.delete.reports-present", ok && err == nil)
	wantIdx := make([]byte, 0, n-1)
	wantLeaf := make([]byte, 0, n-1)
	for j := 0; j < n-1; j++ {
		src := j
		if j >= pos { // symbolic pos: decided by the path the real remove took
			src = j + 1
		}
		wantIdx = append(wantIdx, s.idx[src])
		wantLeaf = append(wantLeaf, s.leaf[src])
	}
	s.check(wantIdx, wantLeaf)
}

// Add of a key {k0, kb} whose first byte is not among the children
func (s *verifC17NodeState) addAbsent(k0, kb byte) {
	ok, err := s.mt.Add([]byte{k0, kb})
	vr.Assert("c17.node.add.reports-absent", ok && err == nil)
	var wantIdx, wantLeaf []byte
	placed := false
	for i := range s.idx {
		if !placed && k0 < s.idx[i] {
			wantIdx = append(wantIdx, k0)
			wantLeaf = append(wantLeaf, kb)
			placed = true
		}
		wantIdx = append(wantIdx, s.idx[i])
		wantLeaf = append(wantLeaf, s.leaf[i])
	}
	if !placed {
		wantIdx = append(wantIdx, k0)
		wantLeaf = append(wantLeaf, kb)
	}
	s.check(wantIdx, wantLeaf)
}

//verif:stub github.com/algorand/go-algorand/crypto.Hash = verifC17Hash

// N in {2, 3}: Delete of a symbolically selected child. With N = 2 the
// surviving child collapses into the root.
//
//verif:harness prop=C17 reach=done,collapsed,first,last unwind=16 budget=300
//verif:stub (*github.com/algorand/go-algorand/crypto/merkletrie.merkleTrieCache).encodePage = verifC17EncodePage
func VerifC17NodeRemoveSmall() {
	s := verifC17NodeSmall()
	sel := vr.U8("sel")
	vr.Assume(int(sel) < len(s.idx))
	if sel == 0 {
		vr.Reach("first")
	}
	if int(sel) == len(s.idx)-1 {
		vr.Reach("last")
	}
	s.deleteAt(int(sel))
	vr.Reach("done")
}

// N in {2, 3}: Add of a key with a symbolic ABSENT first byte (lands before,
// between or after the existing children... 0x00 and 0xff are taken, so
// always between).
//
//verif:harness prop=C17 reach=done unwind=16 budget=300
//verif:stub (*github.com/algorand/go-algorand/crypto/merkletrie.merkleTrieCache).encodePage = verifC17EncodePage
func VerifC17NodeAddSmall() {
	s := verifC17NodeSmall()
	k0, kb := vr.U8("k0"), vr.U8("kb")
	for _, h := range s.idx {
		vr.Assume(k0 != h)
	}
	s.addAbsent(k0, kb)
	vr.Reach("done")
}

// N = 256 (every slot taken): Delete of the child at a boundary position.
//
//verif:harness prop=C17 reach=done,first,last unwind=300 budget=300
//verif:stub (*github.com/algorand/go-algorand/crypto/merkletrie.merkleTrieCache).encodePage = verifC17EncodePage
func VerifC17NodeRemoveFull() {
	ps := verifC17NodePositions(256)
	pos := ps[vr.Choice("position", len(ps))]
	s := verifC17NodeWide(-1, []int{pos, pos - 1, pos + 1})
	if pos == 0 {
		vr.Reach("first")
	}
	if pos == 255 {
		vr.Reach("last")
	}
	s.deleteAt(pos)
	vr.Reach("done")
}

// N = 255: Delete at a boundary position, then (separately) Add of the one
// absent first byte, which fills the node to 256 children.
//
//verif:harness prop=C17 reach=done,first,last unwind=300 budget=300
//verif:stub (*github.com/algorand/go-algorand/crypto/merkletrie.merkleTrieCache).encodePage = verifC17EncodePage
func VerifC17NodeRemove255() {
	miss := verifC17NodeMisses[vr.Choice("miss", len(verifC17NodeMisses))]
	ps := verifC17NodePositions(255)
	pos := ps[vr.Choice("position", len(ps))]
	s := verifC17NodeWide(miss, []int{pos, pos - 1, pos + 1})
	if pos == 0 {
		vr.Reach("first")
	}
	if pos == 254 {
		vr.Reach("last")
	}
	s.deleteAt(pos)
	vr.Reach("done")
}

//verif:harness prop=C17 reach=done unwind=300 budget=300
//verif:stub (*github.com/algorand/go-algorand/crypto/merkletrie.merkleTrieCache).encodePage = verifC17EncodePage
func VerifC17NodeAdd255() {
	miss := verifC17NodeMisses[vr.Choice("miss", len(verifC17NodeMisses))]
	s := verifC17NodeWide(miss, []int{miss - 1, miss})
	s.addAbsent(byte(miss), vr.U8("kb"))
	vr.Reach("done")
}

var _ = crypto.Digest{}
