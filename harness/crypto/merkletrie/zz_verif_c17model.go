//go:build verif

package merkletrie

import (
	vr "github.com/algorand/go-algorand/internal/verifrt"
)

// The C17 harnesses run commit() with encodePage replaced by
// verifC17EncodePage (same statements, right-sized buffer; see there for the
// reason). This harness runs the REAL encodePage with the real 768 KB staging
// buffer on pages of symbolic leaves and inner nodes and asserts that it
// produces exactly the model's bytes, and that decodePage gives the nodes back.

// node identifiers are concrete (they are map keys): a 3-byte varint for the
// nodes of the page, 2-, 3- and 4-byte varints for the children
func verifC17ModelNodeID(label string, slot int) storedNodeIdentifier {
	switch slot {
	case 8:
		return 0x3f00 // below storedNodeIdentifierBase: 2-byte varint
	case 10:
		return 0x200000 + 5 // 4-byte varint
	}
	return storedNodeIdentifierBase + storedNodeIdentifier(7*slot)
}

func verifC17ModelLeaf() *node {
	return &node{hash: []byte{vr.U8("leaf.b0"), vr.U8("leaf.b1")}}
}

func verifC17ModelInner(children int) *node {
	n := &node{hash: vr.BytesN("inner.hash", 32)}
	prev := -1
	for c := 0; c < children; c++ {
		hi := vr.U8("inner.index")
		vr.Assume(int(hi) > prev) // children are kept in increasing hashIndex order (node.add)
		prev = int(hi)
		n.children = append(n.children, childEntry{id: verifC17ModelNodeID("inner.child", 8+c), hashIndex: hi})
		n.childrenMask.SetBit(hi)
	}
	return n
}

func verifC17SameBytes(a, b []byte) bool {
	if len(a) != len(b) {
		return false
	}
	var diff byte
	for i := range a {
		diff |= a[i] ^ b[i]
	}
	return diff == 0
}

//verif:harness prop=C17 reach=done,leafpage,innerpage,mixedpage unwind=40 budget=300 thorough.budget=900
//verif:stub github.com/algorand/go-algorand/crypto.Hash = verifC17Hash
func VerifC17EncodePageModel() {
	mt, err := MakeTrie(&InMemoryCommitter{}, verifC17Configs[0])
	vr.Assert("c17.make", err == nil)
	page := make(map[storedNodeIdentifier]*node)
	switch vr.Choice("shape", 3) {
	case 0:
		page[verifC17ModelNodeID("id", 0)] = verifC17ModelLeaf()
		vr.Reach("leafpage")
	case 1:
		page[verifC17ModelNodeID("id", 0)] = verifC17ModelInner(2)
		vr.Reach("innerpage")
	case 2:
		page[verifC17ModelNodeID("id", 0)] = verifC17ModelLeaf()
		page[verifC17ModelNodeID("id", 1)] = verifC17ModelInner(3)
		page[verifC17ModelNodeID("id", 2)] = verifC17ModelInner(1)
		vr.Reach("mixedpage")
	}
	real := mt.cache.encodePage(page, make([]byte, maxNodeSerializedSize*256+32))
	model := verifC17EncodePage(&mt.cache, page, nil)
	vr.Assert("c17.model.encodepage-same-bytes", verifC17SameBytes(real, model))

	back, err := decodePage(real)
	vr.Assert("c17.model.decode-ok", err == nil && len(back) == len(page))
	for id, n := range page {
		m := back[id]
		vr.Assert("c17.model.decode-has-node", m != nil)
		if m == nil {
			continue
		}
		vr.Assert("c17.model.decode-hash", verifC17SameBytes(m.hash, n.hash))
		vr.Assert("c17.model.decode-children", len(m.children) == len(n.children) && m.childrenMask == n.childrenMask)
		for c := range n.children {
			if c < len(m.children) {
				vr.Assert("c17.model.decode-child", m.children[c] == n.children[c])
			}
		}
	}
	vr.Reach("done")
}
