//go:build verif

package crypto

import (
	"encoding/binary"

	vr "github.com/algorand/go-algorand/internal/verifrt"
	"github.com/algorand/go-algorand/protocol"
)

// C36: participation keys are forward secure.
//
// The real GenerateOneTimeSignatureSecretsRNG, DeleteBeforeFineGrained, Sign,
// OneTimeSignatureVerifier.Verify and the (single-signature) batch verifier run
// unchanged. The ed25519 primitives (cgo) are replaced by an IDEAL signature
// scheme written here:
//
//   keygen : seed is fresh (never repeats); pk = PK(seed), PK injective;
//            sk = seed || pk (the libsodium layout)
//   sign   : sig = SIG(seed, data) || 0^31 || 1, SIG injective
//   verify : true iff pk belongs to a generated key and sig == sign(sk(pk), data)
//
// PK / SIG are collision-free uninterpreted functions (vr.Hash32), so the
// solver ranges over every behaviour of an unforgeable deterministic scheme.
// The all-zero string (the key and signatures of the empty OneTimeSignature) is
// assumed never to be a public key (it is one value of 2^256) and is not a
// signature by format.
//
// The two subkey identifiers are encoded by msgp in the tree; here their
// ToBeHashed is a fixed-width injective encoding of the same fields with the
// same domain-separation prefix (msgp's variable-width integers would only
// add 5-way forks per integer; injectivity of the canonical encoding is the
// trusted fact).

type verifC36Key struct {
	seed [32]byte
	pk   ed25519PublicKey
}

var verifC36Keys []verifC36Key

// verifC36UF selects how the injective functions PK and SIG are represented:
//
//	true : arbitrary injective functions (vr.Hash32): the solver ranges over
//	       every ideal scheme;
//	false: one fixed injective representative, the free term algebra:
//	       pk = seed with a tag byte, sig = <key id, len(data), data> written
//	       out literally in the 64 signature bytes.
//
// The code under test only copies and compares keys and signatures, so the
// fixed representative decides the same properties; it keeps 256-bit function
// values out of the solver and is used for the deeper histories. The fresh and
// one-delete harnesses run with the arbitrary functions.
var verifC36UF bool

// verifC36RNG hands out seeds that never repeat.
type verifC36RNG struct{ n int }

func (r *verifC36RNG) RandBytes(b []byte) {
	r.n++
	for i := range b {
		b[i] = 0
	}
	b[0], b[1] = byte(r.n), byte(r.n>>8)
}

var verifC36Rand = &verifC36RNG{}

func verifC36GenKey(rng RNG) (public ed25519PublicKey, secret ed25519PrivateKey) {
	var seed [32]byte
	// every key of the run draws from the one non-repeating source, whatever
	// RNG the caller holds (SystemRNG after a Snapshot)
	verifC36Rand.RandBytes(seed[:])
	if verifC36UF {
		public = ed25519PublicKey(vr.Hash32("ed25519.pk", seed[:]))
		vr.Assume(public != ed25519PublicKey{})
	} else {
		public = ed25519PublicKey(seed)
		public[31] = 0x50
	}
	copy(secret[:32], seed[:])
	copy(secret[32:], public[:])
	verifC36Keys = append(verifC36Keys, verifC36Key{seed: seed, pk: public})
	return
}

func verifC36SignSeed(seed []byte, data []byte) (sig ed25519Signature) {
	sig[63] = 1 // format tag: a signature is never the all-zero string
	if verifC36UF {
		h := vr.Hash32("ed25519.sig", seed, data)
		copy(sig[:32], h[:])
		return
	}
	if len(data) > 59 {
		panic("verif: message too long for the literal signature model")
	}
	sig[0], sig[1], sig[2] = seed[0], seed[1], byte(len(data))
	copy(sig[3:], data)
	return
}

func verifC36Sign(secret ed25519PrivateKey, data []byte) (sig ed25519Signature) {
	return verifC36SignSeed(secret[:32], data)
}

func verifC36Verify(public ed25519PublicKey, data []byte, sig ed25519Signature) bool {
	// (register-only loop body: the engine turns it into a selection, no forks)
	idx, found := 0, false
	for i := range verifC36Keys {
		if verifC36Keys[i].pk == public {
			idx, found = i, true
		}
	}
	if len(verifC36Keys) == 0 {
		return false
	}
	seed := verifC36Keys[idx].seed
	want := verifC36SignSeed(seed[:], data)
	return found && want == sig
}

func verifC36BatchIDRep(batch OneTimeSignatureSubkeyBatchID) (protocol.HashID, []byte) {
	b := make([]byte, 0, 40)
	b = append(b, batch.SubKeyPK[:]...)
	b = binary.LittleEndian.AppendUint64(b, batch.Batch)
	return protocol.OneTimeSigKey1, b
}

func verifC36OffsetIDRep(off OneTimeSignatureSubkeyOffsetID) (protocol.HashID, []byte) {
	b := make([]byte, 0, 48)
	b = append(b, off.SubKeyPK[:]...)
	b = binary.LittleEndian.AppendUint64(b, off.Batch)
	b = binary.LittleEndian.AppendUint64(b, off.Offset)
	return protocol.OneTimeSigKey2, b
}

// the message being signed: one symbolic byte under the vote domain
type verifC36Msg struct{ b byte }

func (m verifC36Msg) ToBeHashed() (protocol.HashID, []byte) {
	return protocol.Vote, []byte{m.b}
}

// (the oracle predicates are written without early returns so that the engine
// evaluates them as one formula instead of forking)
func verifC36Less(a, b OneTimeSignatureIdentifier) bool {
	return a.Batch < b.Batch || (a.Batch == b.Batch && a.Offset < b.Offset)
}

type verifC36World struct {
	s     *OneTimeSignatureSecrets
	v     OneTimeSignatureVerifier
	start uint64
	nb    uint64
	dil   uint64
	cur   []OneTimeSignatureIdentifier
}

// verifC36ID: an identifier as OneTimeIDForRound produces them: Offset = round
// % dilution < dilution. Batch = round / dilution; rounds stay far below 2^64,
// the one thing needed here is that Batch+1 does not wrap.
func verifC36ID(label string, dil uint64) OneTimeSignatureIdentifier {
	id := OneTimeSignatureIdentifier{Batch: vr.U64(label + ".batch"), Offset: vr.U64(label + ".offset")}
	vr.Assume(id.Offset < dil)
	vr.Assume(id.Batch != ^uint64(0))
	return id
}

func verifC36Setup(ndel int, uf bool) *verifC36World {
	if uf {
		// arbitrary injective functions are expensive in the solver: dilution <= 3
		return verifC36SetupDil(ndel, uf, 1, vr.Param(2, 3), 0)
	}
	return verifC36SetupDil(ndel, uf, 1, vr.Param(2, 4), 0)
}

// part splits the histories by where the advances land relative to the first
// batch (so that the parts run as parallel harnesses): 0 = anywhere,
// 1 = first advance before the first batch, 2 = first advance in the first
// batch and second advance not beyond it, 3 = first advance in the first batch
// and second beyond it, 4 = first advance beyond the first batch. Parts 1-4
// partition all histories.
func verifC36SetupDil(ndel int, uf bool, dilLo, dilHi int, part int) *verifC36World {
	verifC36UF = uf
	verifC36Keys = nil
	verifC36Rand.n = 0
	w := &verifC36World{}
	w.start = vr.U64("start")
	w.nb = uint64(vr.Param(2, 3))
	vr.Assume(w.start < ^uint64(0)-8) // [start, start+nb) does not wrap
	w.dil = uint64(dilLo + vr.Choice("dilution", dilHi-dilLo+1))
	w.s = GenerateOneTimeSignatureSecretsRNG(w.start, w.nb, verifC36Rand)
	w.v = w.s.OneTimeSignatureVerifier
	names := []string{"cur1", "cur2", "cur3"}
	for i := 0; i < ndel; i++ {
		c := verifC36ID(names[i], w.dil)
		switch {
		case i == 0 && part == 1:
			vr.Assume(c.Batch < w.start)
		case i == 0 && (part == 2 || part == 3):
			vr.Assume(c.Batch == w.start)
		case i == 0 && part == 4:
			vr.Assume(c.Batch > w.start)
		case i == 1 && part == 2:
			vr.Assume(c.Batch <= w.start)
		case i == 1 && part == 3:
			vr.Assume(c.Batch > w.start)
		}
		w.cur = append(w.cur, c)
		w.s.DeleteBeforeFineGrained(c, w.dil)
	}
	return w
}

// the independent statement: id can still be signed for iff it lies in the
// generated range and no delete named a later identifier
func (w *verifC36World) live(id OneTimeSignatureIdentifier) bool {
	ok := id.Batch >= w.start && id.Batch-w.start < w.nb
	for _, c := range w.cur {
		ok = ok && !verifC36Less(id, c)
	}
	return ok
}

func verifC36SignAndVerify(ndel int, uf bool) {
	w := verifC36Setup(ndel, uf)
	id := verifC36ID("id", w.dil)
	msg := verifC36Msg{vr.U8("msg")}
	sig := w.s.Sign(id, msg)
	ok := w.v.Verify(id, msg, sig)
	if w.live(id) {
		vr.Reach("live")
		vr.Assert("c36.live-id-signs", ok)
	} else {
		vr.Reach("deleted")
		vr.Assert("c36.deleted-id-does-not-sign", !ok)
		vr.Assert("c36.deleted-id-empty-signature", sig == OneTimeSignature{})
	}
	vr.Reach("done")
}

// (engine workaround: util/metrics.init calls sync/atomic.init, which the engine's
// sync/atomic model mistakes for an atomic operation; see notes/engine_requests.md)
//verif:noop sync/atomic.init
//verif:stub github.com/algorand/go-algorand/crypto.ed25519GenerateKeyRNG = verifC36GenKey
//verif:stub github.com/algorand/go-algorand/crypto.ed25519Sign = verifC36Sign
//verif:stub github.com/algorand/go-algorand/crypto.ed25519Verify = verifC36Verify
//verif:stub (github.com/algorand/go-algorand/crypto.OneTimeSignatureSubkeyBatchID).ToBeHashed = verifC36BatchIDRep
//verif:stub (github.com/algorand/go-algorand/crypto.OneTimeSignatureSubkeyOffsetID).ToBeHashed = verifC36OffsetIDRep

// Fresh keys: every identifier of the range signs and verifies, nothing else does.
//
//verif:harness prop=C36 reach=done,live,deleted unwind=12 budget=200 thorough.budget=2400
func VerifC36Fresh() { verifC36SignAndVerify(0, true) }

// One key advance to a symbolic identifier.
//
//verif:harness prop=C36 reach=done,live,deleted unwind=12 budget=200 thorough.budget=2400
func VerifC36OneDelete() { verifC36SignAndVerify(1, true) }

// Two successive key advances (in any order: the second may name an earlier,
// the same or a later identifier, in the same or another batch).
//
//verif:harness prop=C36 reach=done,live,deleted unwind=12 budget=200 thorough.budget=2400
func VerifC36TwoDeletes() { verifC36SignAndVerify(2, false) }

// A signature issued for (id, msg) verifies for no other identifier and no
// other message (the identifier is bound by the two subkey certificates).
//
//verif:harness prop=C36 reach=done,signed,other unwind=12 budget=200 thorough.budget=2400
func VerifC36Binding() {
	w := verifC36Setup(1, false)
	id := verifC36ID("id", w.dil)
	msg := verifC36Msg{vr.U8("msg")}
	sig := w.s.Sign(id, msg)
	if !w.v.Verify(id, msg, sig) {
		vr.Reach("done")
		return
	}
	vr.Reach("signed")
	id2 := OneTimeSignatureIdentifier{Batch: vr.U64("id2.batch"), Offset: vr.U64("id2.offset")}
	msg2 := verifC36Msg{vr.U8("msg2")}
	if id2 != id || msg2 != msg {
		vr.Reach("other")
		vr.Assert("c36.signature-bound-to-id-and-message", !w.v.Verify(id2, msg2, sig))
	}
	vr.Reach("done")
}

// Key compromise after the advance. The adversary reads the WHOLE remaining
// secrets structure and assembles a OneTimeSignature from it in every way the
// ideal scheme allows: each of the three signatures is either one it found in
// the state or one it computes with a secret key it found there (or with a key
// of its own), each public key is any key it has seen. No such signature
// verifies for an identifier that the advance has retired; signatures for live
// identifiers can of course be made (reach=forged-live keeps the adversary honest).
type verifC36Adversary struct {
	seeds [][32]byte
	pks   []ed25519PublicKey
	sigs  []ed25519Signature
}

func verifC36Pick(label string, n int) int {
	x := int(vr.U8(label))
	vr.Assume(x < n)
	return x
}

func (a *verifC36Adversary) learnKey(k ephemeralSubkey) {
	var seed [32]byte
	copy(seed[:], k.SK[:32])
	a.seeds = append(a.seeds, seed)
	a.pks = append(a.pks, k.PK)
	a.sigs = append(a.sigs, k.PKSigNew)
}

// a signature on data the adversary can write down
func (a *verifC36Adversary) signature(label string, data []byte) ed25519Signature {
	held := a.sigs[verifC36Pick(label+".held", len(a.sigs))]
	seed := a.seeds[verifC36Pick(label+".key", len(a.seeds))]
	cands := [2]ed25519Signature{held, verifC36SignSeed(seed[:], data)}
	return cands[verifC36Pick(label+".compute", 2)]
}

func verifC36Compromise(ndel int, dilLo, dilHi int, part int) {
	w := verifC36SetupDil(ndel, false, dilLo, dilHi, part)
	adv := &verifC36Adversary{}
	own, ownSK := verifC36GenKey(nil)
	adv.learnKey(ephemeralSubkey{PK: own, SK: ownSK})
	for _, k := range w.s.Offsets {
		adv.learnKey(k)
	}
	for _, k := range w.s.Batches {
		adv.learnKey(k)
	}
	adv.pks = append(adv.pks, ed25519PublicKey(w.v), w.s.OffsetsPK2)
	adv.sigs = append(adv.sigs, w.s.OffsetsPK2Sig)

	id := verifC36ID("id", w.dil)
	msg := verifC36Msg{vr.U8("msg")}
	var forged OneTimeSignature
	forged.PK = adv.pks[verifC36Pick("pk", len(adv.pks))]
	forged.PK2 = adv.pks[verifC36Pick("pk2", len(adv.pks))]
	forged.Sig = adv.signature("sig", HashRep(msg))
	forged.PK1Sig = adv.signature("pk1sig", HashRep(OneTimeSignatureSubkeyOffsetID{SubKeyPK: forged.PK, Batch: id.Batch, Offset: id.Offset}))
	forged.PK2Sig = adv.signature("pk2sig", HashRep(OneTimeSignatureSubkeyBatchID{SubKeyPK: forged.PK2, Batch: id.Batch}))
	if w.v.Verify(id, msg, forged) {
		vr.Reach("forged-live")
		vr.Assert("c36.no-forgery-for-retired-id", w.live(id))
	}
	vr.Reach("done")
}

//verif:harness prop=C36 reach=done,forged-live unwind=12 budget=200 thorough.budget=2400
func VerifC36CompromiseOneDelete() { verifC36Compromise(1, 1, vr.Param(2, 4), 0) }

// (two advances: split by key dilution and by where the first advance lands,
// so that the parts run in parallel)
//
//verif:harness prop=C36 reach=done,forged-live unwind=12 budget=200 thorough.budget=2400
func VerifC36CompromiseTwoDeletesDil1() { verifC36Compromise(2, 1, 1, 0) }

//verif:harness prop=C36 reach=done,forged-live unwind=12 budget=200 thorough.budget=2400
func VerifC36CompromiseTwoDeletesDil2a() { verifC36Compromise(2, 2, 2, 1) }

//verif:harness prop=C36 reach=done,forged-live unwind=12 budget=200 thorough.budget=2400
func VerifC36CompromiseTwoDeletesDil2b() { verifC36Compromise(2, 2, 2, 2) }

//verif:harness prop=C36 reach=done,forged-live unwind=12 budget=200 thorough.budget=2400
func VerifC36CompromiseTwoDeletesDil2c() { verifC36Compromise(2, 2, 2, 3) }

//verif:harness prop=C36 reach=done,forged-live unwind=12 budget=200 thorough.budget=2400
func VerifC36CompromiseTwoDeletesDil2d() { verifC36Compromise(2, 2, 2, 4) }

//verif:harness prop=C36 tier=thorough reach=done,forged-live unwind=12 budget=200 thorough.budget=2400
func VerifC36CompromiseTwoDeletesDil3a() { verifC36Compromise(2, 3, 3, 1) }

//verif:harness prop=C36 tier=thorough reach=done,forged-live unwind=12 budget=200 thorough.budget=2400
func VerifC36CompromiseTwoDeletesDil3b() { verifC36Compromise(2, 3, 3, 2) }

//verif:harness prop=C36 tier=thorough reach=done,forged-live unwind=12 budget=200 thorough.budget=2400
func VerifC36CompromiseTwoDeletesDil3c() { verifC36Compromise(2, 3, 3, 3) }

//verif:harness prop=C36 tier=thorough reach=done,forged-live unwind=12 budget=200 thorough.budget=2400
func VerifC36CompromiseTwoDeletesDil3d() { verifC36Compromise(2, 3, 3, 4) }
