//go:build verif

package crypto

import (
	"errors"

	vr "github.com/algorand/go-algorand/internal/verifrt"
	"github.com/algorand/go-algorand/protocol"
)

// C28 (multisignature part): MultisigBatchPrep / MultisigVerify accept a
// multisignature for address A over message M only if
//   - version 1, 1 <= threshold <= #subsigs <= 255,
//   - A is the hash of ("MultisigAddr", version, threshold, all subsig keys in order),
//   - at least threshold subsigs carry a signature,
//   - every subsig that carries a signature was submitted for verification
//     with THAT subsig's key over the message M passed in (and, for
//     MultisigVerify, every one of them verified).
// Conversely a multisignature meeting these (whose first slot is not entirely
// empty - the code's short circuit) is accepted by MultisigBatchPrep.
//
// Idealisation: crypto.Hash is a collision-free uninterpreted function; whether
// a signature verifies is an arbitrary function of (key, message, signature);
// the batch verifier is a recording fake.

type verifC28Msg struct{ id byte }

func (m verifC28Msg) ToBeHashed() (protocol.HashID, []byte) {
	return protocol.Transaction, []byte{m.id}
}

type verifC28Entry struct {
	key PublicKey
	msg Hashable
	sig Signature
}

type verifC28Batch struct {
	entries []verifC28Entry
}

func (b *verifC28Batch) EnqueueSignature(sigVerifier SignatureVerifier, message Hashable, sig Signature) {
	b.entries = append(b.entries, verifC28Entry{key: sigVerifier, msg: message, sig: sig})
}
func (b *verifC28Batch) GetNumberOfEnqueuedSignatures() int { return len(b.entries) }

var errVerifC28BadSig = errors.New("verif: a signature in the batch does not verify")

// verifC28SigOK: the idealised signature scheme.
func verifC28SigOK(e verifC28Entry) bool {
	m, ok := e.msg.(verifC28Msg)
	if !ok {
		return false
	}
	return vr.UF64("sigok", uint64(e.key[0]), uint64(m.id), uint64(e.sig[0]))&1 == 1
}

func (b *verifC28Batch) Verify() error {
	for _, e := range b.entries {
		if !verifC28SigOK(e) {
			return errVerifC28BadSig
		}
	}
	return nil
}
func (b *verifC28Batch) VerifyWithFeedback() ([]bool, error) { return nil, b.Verify() }

var verifC28TheBatch *verifC28Batch

func verifC28StubMakeBatchVerifier() BatchVerifier {
	verifC28TheBatch = &verifC28Batch{}
	return verifC28TheBatch
}

func verifC28StubHash(data []byte) Digest {
	return Digest(vr.Hash32("hash", data))
}

// verifC28Msig: n subsig slots; key and signature of a slot are identified by one
// symbolic byte each (signature byte 0 = no signature in this slot; keys may repeat).
func verifC28Msig(n int) MultisigSig {
	labels := [4]string{"s0", "s1", "s2", "s3"}
	var m MultisigSig
	m.Version = vr.U8("version")
	m.Threshold = vr.U8("threshold")
	if n > 0 || vr.Bool("emptynotnil") {
		m.Subsigs = make([]MultisigSubsig, n)
	}
	for i := 0; i < n; i++ {
		m.Subsigs[i].Key[0] = vr.U8(labels[i] + ".key")
		m.Subsigs[i].Sig[0] = vr.U8(labels[i] + ".sig")
	}
	return m
}

// verifC28WantAddr is the address the key list commits to.
func verifC28WantAddr(m MultisigSig) Digest {
	buf := append([]byte("MultisigAddr"), m.Version, m.Threshold)
	for i := range m.Subsigs {
		buf = append(buf, m.Subsigs[i].Key[:]...)
	}
	return Digest(vr.Hash32("hash", buf))
}

func verifC28Addr(m MultisigSig) Digest {
	var addr Digest
	if vr.Bool("goodaddr") {
		addr = verifC28WantAddr(m)
	} else {
		vr.Fill("addr", addr[:])
	}
	return addr
}

// verifC28CheckAccepted: what acceptance must imply; returns nothing, asserts.
func verifC28CheckAccepted(m MultisigSig, addr Digest, msg verifC28Msg, b *verifC28Batch) {
	n := len(m.Subsigs)
	vr.Assert("c28.msig.version", m.Version == 1)
	vr.Assert("c28.msig.threshold-nonzero", m.Threshold != 0)
	vr.Assert("c28.msig.threshold-at-most-keys", int(m.Threshold) <= n)
	vr.Assert("c28.msig.not-too-many-keys", n <= 255)
	vr.Assert("c28.msig.address-commits-to-keys", addr == verifC28WantAddr(m))
	signed := 0
	for i := 0; i < n; i++ {
		if m.Subsigs[i].Sig != (Signature{}) {
			// the next enqueued verification is this slot's: its key, THE message, its signature
			if signed < len(b.entries) {
				e := b.entries[signed]
				em, isMsg := e.msg.(verifC28Msg)
				vr.Assert("c28.msig.enqueued-with-slot-key", e.key == m.Subsigs[i].Key)
				vr.Assert("c28.msig.enqueued-over-the-message", isMsg && em.id == msg.id)
				vr.Assert("c28.msig.enqueued-slot-signature", e.sig == m.Subsigs[i].Sig)
			}
			signed++
		}
	}
	vr.Assert("c28.msig.every-signature-enqueued", len(b.entries) == signed)
	vr.Assert("c28.msig.threshold-met", signed >= int(m.Threshold))
}

//verif:harness prop=C28 reach=done,accepted,rejected,threshold-exact,with-blank-slot unwind=12 budget=200 thorough.budget=1200
//verif:stub github.com/algorand/go-algorand/crypto.Hash = verifC28StubHash
func VerifC28MultisigBatchPrep() {
	n := vr.Choice("n", vr.Param(4, 5))
	m := verifC28Msig(n)
	addr := verifC28Addr(m)
	msg := verifC28Msg{id: vr.U8("msg")}
	b := &verifC28Batch{}

	err := MultisigBatchPrep(msg, addr, m, b)

	if err == nil {
		vr.Reach("accepted")
		verifC28CheckAccepted(m, addr, msg, b)
		if len(b.entries) == int(m.Threshold) {
			vr.Reach("threshold-exact")
		}
		if len(b.entries) < n {
			vr.Reach("with-blank-slot")
		}
	} else {
		vr.Reach("rejected")
		vr.Assert("c28.msig.rejected-enqueues-nothing", len(b.entries) == 0)
		// completeness
		signed := 0
		for i := 0; i < n; i++ {
			if m.Subsigs[i].Sig != (Signature{}) {
				signed++
			}
		}
		good := m.Version == 1 && m.Threshold != 0 && int(m.Threshold) <= n && signed >= int(m.Threshold)
		if good && n > 0 && m.Subsigs[0] != (MultisigSubsig{}) {
			vr.Assert("c28.msig.well-formed-accepted", addr != verifC28WantAddr(m))
		}
	}
	vr.Reach("done")
}

//verif:harness prop=C28 reach=done,accepted,rejected,badsig unwind=12 budget=200 thorough.budget=1200
//verif:stub github.com/algorand/go-algorand/crypto.Hash = verifC28StubHash
//verif:stub github.com/algorand/go-algorand/crypto.MakeBatchVerifier = verifC28StubMakeBatchVerifier
func VerifC28MultisigVerify() {
	n := vr.Choice("n", vr.Param(4, 5))
	m := verifC28Msig(n)
	addr := verifC28Addr(m)
	msg := verifC28Msg{id: vr.U8("msg")}
	verifC28TheBatch = nil

	err := MultisigVerify(msg, addr, m)

	if err == nil {
		vr.Reach("accepted")
		vr.Assert("c28.msigverify.used-batch", verifC28TheBatch != nil)
		verifC28CheckAccepted(m, addr, msg, verifC28TheBatch)
		// every carried signature is a valid signature by its slot's key over msg
		for i := 0; i < n; i++ {
			if m.Subsigs[i].Sig != (Signature{}) {
				vr.Assert("c28.msigverify.signatures-valid", verifC28SigOK(verifC28Entry{key: m.Subsigs[i].Key, msg: msg, sig: m.Subsigs[i].Sig}))
			}
		}
	} else {
		vr.Reach("rejected")
		if err == errVerifC28BadSig {
			vr.Reach("badsig")
		}
	}
	vr.Reach("done")
}

// 256 key slots: one more than the maximum. (Keys are constants; only version,
// threshold, the address and which of the first slots are signed vary.)
//verif:harness prop=C28 reach=done,rejected unwind=300 budget=200 thorough.budget=1200
//verif:stub github.com/algorand/go-algorand/crypto.Hash = verifC28StubHash
func VerifC28MultisigTooManyKeys() {
	var m MultisigSig
	m.Version = vr.U8("version")
	m.Threshold = vr.U8("threshold")
	m.Subsigs = make([]MultisigSubsig, 256)
	for i := range m.Subsigs {
		m.Subsigs[i].Key[0] = byte(i)
		m.Subsigs[i].Key[1] = 1
		m.Subsigs[i].Sig[1] = 1 // every slot signed
	}
	addr := verifC28Addr(m)
	b := &verifC28Batch{}
	err := MultisigBatchPrep(verifC28Msg{id: 1}, addr, m, b)
	vr.Assert("c28.msig.too-many-keys-rejected", err != nil)
	vr.Assert("c28.msig.rejected-enqueues-nothing", len(b.entries) == 0)
	vr.Reach("rejected")
	vr.Reach("done")
}
