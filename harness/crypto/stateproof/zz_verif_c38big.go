//go:build verif

package stateproof

import (
	"math/big"

	vr "github.com/algorand/go-algorand/internal/verifrt"
)

// ---------------------------------------------------------------------------
// math/big as exact integers.
//
// The functions of weights.go / coinGenerator.go compute with *big.Int values
// of up to ~4 machine words. Executing math/big's multi-word multiplication
// and Knuth division symbolically at that width explodes (VerifC38SmallSymbolic
// and VerifC38SmallGrid in zz_verif_c38.go run the REAL math/big, on small
// operands). For the full 64-bit domain the ten big.Int methods these files use
// are replaced (engine side only; natively the real math/big runs) by their
// contract over a ghost table pointer -> exact integer (vr.Z):
//
//	SetUint64 Set Add Sub Mul Lsh  : the integer operation
//	Div                            : a nondeterministic q with 0 <= x - q*y < y
//	                                 (only called with x >= 0, y > 0: asserted)
//	Sign Cmp Uint64                : sign / three-way compare / low 64 bits (x >= 0 asserted)
//
// Aliasing (z.Mul(z, y), denom := w; denom.Sub(denom, ..)) is modelled because
// the table is keyed by the pointer the real code passes around.
// Trusted: math/big implements integer arithmetic; weights.go and
// coinGenerator.go call no big.Int method other than these ten (a method that
// is not modelled would read the untouched zero value).
// ---------------------------------------------------------------------------

type verifC38BigEnt struct {
	p *big.Int
	v vr.Z
}

var verifC38Big []verifC38BigEnt

func verifC38BigReset() { verifC38Big = nil }

func verifC38Mul(a, b vr.Z) vr.Z { return a.Mul(b) }

func verifC38BigGet(p *big.Int) vr.Z {
	for i := range verifC38Big {
		if verifC38Big[i].p == p {
			return verifC38Big[i].v
		}
	}
	return vr.ZU(0) // the zero big.Int is 0
}

func verifC38BigPut(p *big.Int, v vr.Z) *big.Int {
	for i := range verifC38Big {
		if verifC38Big[i].p == p {
			verifC38Big[i].v = v
			return p
		}
	}
	verifC38Big = append(verifC38Big, verifC38BigEnt{p, v})
	return p
}

func verifC38BigSetUint64(z *big.Int, x uint64) *big.Int { return verifC38BigPut(z, vr.ZU(x)) }
func verifC38BigSet(z, x *big.Int) *big.Int              { return verifC38BigPut(z, verifC38BigGet(x)) }
func verifC38BigAdd(z, x, y *big.Int) *big.Int {
	return verifC38BigPut(z, verifC38BigGet(x).Add(verifC38BigGet(y)))
}
func verifC38BigSub(z, x, y *big.Int) *big.Int {
	return verifC38BigPut(z, verifC38BigGet(x).Sub(verifC38BigGet(y)))
}
func verifC38BigMul(z, x, y *big.Int) *big.Int {
	return verifC38BigPut(z, verifC38Mul(verifC38BigGet(x), verifC38BigGet(y)))
}
func verifC38BigLsh(z, x *big.Int, n uint) *big.Int {
	return verifC38BigPut(z, verifC38BigGet(x).Shl(int(n)))
}

// verifC38Wide: a nondeterministic non-negative integer below 2^(64*limbs)
func verifC38Wide(label string, limbs int) vr.Z {
	r := vr.ZU(vr.U64(label))
	for i := 1; i < limbs; i++ {
		r = r.Add(vr.ZU(vr.U64(label)).Shl(64 * i))
	}
	return r
}

// quotient drawn by the last Div (ghost witness for the proofs below)
var verifC38DivQ vr.Z

// verifC38DivLimbs: enough 64-bit limbs for every quotient of the harness at hand
var verifC38DivLimbs = 4

// verifC38DivLooseMid: the harness at hand does not need the exact value of
// quotients in [2^10, 2^64) (numReveals only compares them with MaxReveals)
var verifC38DivLooseMid bool

// verifC38DivNoWide: the harness at hand ASSUMES that quotients fit in 64 bits
// (stated as the linear condition x < 2^64*y)
var verifC38DivNoWide bool

// Div, for x >= 0 and y > 0 (asserted): THE q with 0 <= x - q*y < y; the
// remainder is the expression x - q*y. The quotient is drawn at the width a
// LINEAR test on (x, y) allows: 10 bits when x < 2^10*y, one 64-bit word when
// x < 2^64*y, verifC38DivLimbs words otherwise (small quotients keep the
// products the solver must reason about small; q >= 2^10 in the second case and
// q >= 2^64 in the third follow from the test and are stated to the solver).
func verifC38BigDiv(z, x, y *big.Int) *big.Int {
	xv, yv := verifC38BigGet(x), verifC38BigGet(y)
	if yv.Eq(vr.ZU(0)) {
		panic("division by zero") // what math/big does
	}
	vr.Assert("c38.model.div-domain", xv.Ge(vr.ZU(0)) && yv.Gt(vr.ZU(0)))
	if verifC38DivNoWide {
		vr.Assume(xv.Lt(yv.Shl(64)))
	}
	var q vr.Z
	if xv.Lt(yv.Shl(10)) {
		q16 := vr.U16("big.div.q16")
		vr.Assume(q16 < 1<<10)
		q = vr.ZU(uint64(q16))
	} else if xv.Lt(yv.Shl(64)) {
		q64 := vr.U64("big.div.q64")
		q = vr.ZU(q64)
		vr.Assume(q64 >= 1<<10)
		if verifC38DivLooseMid {
			// over-approximation (sound for proofs): any q in [2^10, 2^64), except
			// that the one value whose successor wraps is allowed only when it can
			// be the quotient: q = 2^64-1 needs x >= (2^64-1)*y
			vr.Assume(q64 != ^uint64(0) || xv.Ge(yv.Shl(64).Sub(yv)))
			verifC38DivQ = q
			return verifC38BigPut(z, q)
		}
	} else {
		vr.Assert("c38.model.div-width", xv.Fits(64*verifC38DivLimbs))
		q = verifC38Wide("big.div.qwide", verifC38DivLimbs)
		vr.Assume(q.Ge(vr.ZU(1).Shl(64)))
	}
	r := xv.Sub(q.Mul(yv))
	vr.Assume(r.Ge(vr.ZU(0)) && r.Lt(yv))
	verifC38DivQ = q
	return verifC38BigPut(z, q)
}

func verifC38BigSign(x *big.Int) int {
	// (written as pure diamonds: the engine merges them instead of forking)
	v := verifC38BigGet(x)
	r := 1
	if v.Eq(vr.ZU(0)) {
		r = 0
	}
	if v.Lt(vr.ZU(0)) {
		r = -1
	}
	return r
}

func verifC38BigCmp(x, y *big.Int) int {
	xv, yv := verifC38BigGet(x), verifC38BigGet(y)
	r := 1
	if xv.Eq(yv) {
		r = 0
	}
	if xv.Lt(yv) {
		r = -1
	}
	return r
}

func verifC38BigUint64(x *big.Int) uint64 {
	v := verifC38BigGet(x)
	vr.Assert("c38.model.uint64-nonneg", v.Ge(vr.ZU(0)))
	return v.U64Trunc() // big.Int.Uint64: the low 64 bits, silently truncating
}

// bits.Len64 under the case split on d: the harness fixes a CONCRETE d and
// constrains signedWeight to [2^d, 2^(d+1)); the stub returns d+1 and asserts
// that this is what bits.Len64 returns (so shift amounts stay concrete).
var verifC38D int

func verifC38Len64(x uint64) int {
	vr.Assert("c38.model.len64", x>>uint(verifC38D) == 1)
	return verifC38D + 1
}

//verif:stub (*math/big.Int).SetUint64 = verifC38BigSetUint64
//verif:stub (*math/big.Int).Set = verifC38BigSet
//verif:stub (*math/big.Int).Add = verifC38BigAdd
//verif:stub (*math/big.Int).Sub = verifC38BigSub
//verif:stub (*math/big.Int).Mul = verifC38BigMul
//verif:stub (*math/big.Int).Lsh = verifC38BigLsh
//verif:stub (*math/big.Int).Div = verifC38BigDiv
//verif:stub (*math/big.Int).Sign = verifC38BigSign
//verif:stub (*math/big.Int).Cmp = verifC38BigCmp
//verif:stub (*math/big.Int).Uint64 = verifC38BigUint64
//verif:stub math/bits.Len64 = verifC38Len64

// verifC38Val: the integer a *big.Int holds: the ghost value under the engine,
// the real one natively (so that counterexamples replay).
func verifC38Val(p *big.Int) vr.Z {
	if vr.Symbolic() {
		return verifC38BigGet(p)
	}
	v := vr.ZBytes(p.Bytes())
	if p.Sign() < 0 {
		v = v.Neg()
	}
	return v
}

// verifC38PickD: case split on d = floor(log2(signedWeight)); signedWeight in
// [2^d, 2^(d+1)). The quick tier takes a spread of 16 values of d, the thorough
// tier all 64. (Used where signedWeight stays symbolic.)
var verifC38QuickD = []int{0, 1, 2, 3, 7, 8, 15, 16, 23, 31, 32, 33, 47, 48, 62, 63}

func verifC38PickD(sw uint64) int {
	var d int
	if vr.Param(0, 1) == 0 {
		d = verifC38QuickD[vr.Choice("d", len(verifC38QuickD))]
	} else {
		d = vr.Choice("d", 64)
	}
	vr.Assume(sw>>uint(d) == 1)
	verifC38D = d
	return d
}

// ---- the documented expressions, exact integers, for a concrete d ----
// (written in the order the code multiplies, so that the solver sees the same
// products on both sides; exact integer arithmetic is associative/commutative,
// the meaning is that of the comments in weights.go)

type verifC38Sub struct{ y, x, w vr.Z }

func verifC38SubExpr(sw uint64, d int) verifC38Sub {
	mul := verifC38Mul
	s2 := mul(vr.ZU(sw), vr.ZU(sw))
	p2d := vr.ZU(1).Shl(2 * d)
	tmp := mul(vr.ZU(1).Shl(d+2), vr.ZU(sw))
	return verifC38Sub{
		y: p2d.Add(tmp).Add(s2),                                     // sw^2 + 2^(d+2)*sw + 2^(2d)
		x: mul(mul(s2.Sub(p2d), vr.ZU(3)), vr.ZU(1<<precisionBits)), // 3*2^b*(sw^2 - 2^(2d))
		w: mul(vr.ZU(uint64(d)), vr.ZU(ln2IntApproximation-1)),      // d*(T-1)
	}
}

// n*(x + w*y)
func verifC38Lhs(e verifC38Sub, n uint64) vr.Z {
	return verifC38Mul(vr.ZU(n), e.x.Add(verifC38Mul(e.w, e.y)))
}

// (strengthTarget*T + n*P)*y
func verifC38Rhs(e verifC38Sub, lnP, n, target uint64) vr.Z {
	return verifC38Mul(verifC38Mul(vr.ZU(target), vr.ZU(ln2IntApproximation)).Add(verifC38Mul(vr.ZU(n), vr.ZU(lnP))), e.y)
}

// strengthTarget*T*y
func verifC38Num(e verifC38Sub, target uint64) vr.Z {
	return verifC38Mul(verifC38Mul(vr.ZU(target), vr.ZU(ln2IntApproximation)), e.y)
}

// x + (w - P)*y
func verifC38Den(e verifC38Sub, lnP uint64) vr.Z {
	return e.x.Add(verifC38Mul(e.w.Sub(vr.ZU(lnP)), e.y))
}

// VerifC38SubExpressions: getSubExpressions returns three DISTINCT big.Ints
// holding exactly y, x, w of the comments, for every signedWeight >= 1.
//
//verif:harness prop=C38 reach=done unwind=8 budget=280
func VerifC38SubExpressions() {
	verifC38BigReset()
	sw := vr.U64("signedWeight")
	d := verifC38PickD(sw)
	y, x, w := getSubExpressions(sw)
	e := verifC38SubExpr(sw, d)
	vr.Assert("c38.sub.distinct", y != x && y != w && x != w)
	vr.Assert("c38.sub.y", verifC38Val(y).Eq(e.y))
	vr.Assert("c38.sub.x", verifC38Val(x).Eq(e.x))
	vr.Assert("c38.sub.w", verifC38Val(w).Eq(e.w))
	// the facts the comments rely on: 2^d <= sw < 2^(d+1), y > 0, x >= 0
	vr.Assert("c38.sub.signs", e.y.Gt(vr.ZU(0)) && e.x.Ge(vr.ZU(0)) && e.w.Ge(vr.ZU(0)))
	vr.Reach("done")
}

// verifC38PickSW: a CONCRETE signedWeight per path: d from the given list (all
// 64 values in the thorough tier), then one of up to five shapes in
// [2^d, 2^(d+1)): an alternating bit pattern, the lower end, the upper end,
// lower end + 1, the middle (the first quickShapes / thoroughShapes of them). Everything else (lnProvenWeight, numReveals, strengthTarget) stays
// symbolic. Why concrete: with signedWeight symbolic every branch of
// verifyWeights / numReveals is a nonlinear feasibility question over ~280-bit
// products that no back end answers reliably (cvc5's integer mode: 0.3 s to
// > 60 s on neighbouring instances); with y, x, w constant the only symbolic
// products left are numReveals*lnProvenWeight and quotient*denominator.
// signedWeight enters the two functions only through getSubExpressions (decided
// for ALL signedWeight by VerifC38SubExpressions) and the `== 0` test.
func verifC38PickSW(quickD []int, quickShapes, thoroughShapes int) (uint64, int) {
	var d int
	if vr.Param(0, 1) == 0 {
		d = quickD[vr.Choice("d", len(quickD))]
	} else {
		d = vr.Choice("d", 64)
	}
	lo := uint64(1) << uint(d)
	all := []uint64{lo | (0x5555555555555555 & (lo - 1)), lo, lo | (lo - 1), lo + 1, lo | lo>>1}
	all = all[:vr.Param(quickShapes, thoroughShapes)]
	var cands []uint64
	for _, c := range all {
		dup := c>>uint(d) != 1
		for _, o := range cands {
			if o == c {
				dup = true
			}
		}
		if !dup {
			cands = append(cands, c)
		}
	}
	verifC38D = d
	return cands[vr.Choice("sw", len(cands))], d
}

// VerifC38VerifierWide: verifyWeights returns nil <=> numOfReveals <= MaxReveals
// and signedWeight != 0 and the documented inequality holds in exact integers;
// every error is the documented one. lnProvenWeight, numOfReveals and
// strengthTarget range over all of uint64; signedWeight: see verifC38PickSW.
//
//verif:harness prop=C38 reach=done,accept,toomany,insufficient unwind=8 budget=280 thorough.budget=3000
func VerifC38VerifierWide() {
	verifC38BigReset()
	sw, d := verifC38PickSW([]int{0, 1, 7, 32, 63}, 3, 5)
	lnP, n, target := vr.U64("lnProvenWeight"), vr.U64("numReveals"), vr.U64("strengthTarget")
	err := verifyWeights(sw, lnP, n, target)
	e := verifC38SubExpr(sw, d)
	ineq := verifC38Lhs(e, n).Ge(verifC38Rhs(e, lnP, n, target))
	vr.Assert("c38.wide.verifyWeights-iff-inequality", (err == nil) == (n <= MaxReveals && ineq))
	switch {
	case err == nil:
		vr.Reach("accept")
	case n > MaxReveals:
		vr.Assert("c38.wide.err-toomany", err == ErrTooManyReveals)
		vr.Reach("toomany")
	default:
		vr.Assert("c38.wide.err-insufficient", err == ErrInsufficientSignedWeight)
		vr.Reach("insufficient")
	}
	vr.Reach("done")
}

// VerifC38ZeroWeight: signedWeight == 0 is always refused by the verifier.
//
//verif:harness prop=C38 reach=done unwind=8
func VerifC38ZeroWeight() {
	verifC38BigReset()
	lnP, n, target := vr.U64("lnProvenWeight"), vr.U64("numReveals"), vr.U64("strengthTarget")
	err := verifyWeights(0, lnP, n, target)
	vr.Assert("c38.zero-weight-rejected", err != nil)
	vr.Assert("c38.zero-weight-error", (n > MaxReveals && err == ErrTooManyReveals) || (n <= MaxReveals && err == ErrZeroSignedWeight))
	vr.Reach("done")
}

// lnProvenWeight = ceil(2^16 * ln(provenWeight)) <= ceil(2^16 * ln(2^64)) = 2907270 < 2^22
const verifC38MaxLnP = 1 << 22

// VerifC38ProverAgrees: whenever numReveals(sw, lnP, target) returns (n, nil),
// 1 <= n <= MaxReveals and the verifier's inequality holds for n (so, by
// VerifC38VerifierWide, verifyWeights(sw, lnP, n, target) == nil); the prover
// refuses with ErrNegativeNumOfRevealsEquation exactly when the denominator
// x + (w-P)*y is <= 0, and with ErrTooManyReveals otherwise.
// Domain: lnProvenWeight < 2^22 (every value LnIntApproximation can return),
// strengthTarget < 2^16 (consensus value: 256); signedWeight: verifC38PickSW.
// The quotient's .Uint64() truncation is modelled exactly (no assumption that
// it fits).
//
//verif:harness prop=C38 reach=done,prover-ok,prover-neg,prover-toomany unwind=8 budget=280 thorough.budget=5400
func VerifC38ProverAgrees() {
	verifC38BigReset()
	verifC38DivLimbs, verifC38DivNoWide, verifC38DivLooseMid = 3, false, true // numerator < 2^(16+16+131)
	sw, d := verifC38PickSW([]int{1, 40}, 2, 2)
	lnP, target := uint64(vr.U32("lnProvenWeight")), uint64(vr.U16("strengthTarget"))
	vr.Assume(lnP < verifC38MaxLnP)
	verifC38ProverCheck(sw, d, lnP, target, false)
}

// VerifC38ProverNoTruncation: the same for ALL uint64 lnProvenWeight and
// strengthTarget, under the hypothesis that the exact quotient
// floor(strengthTarget*T*y / denominator) + 1 fits in 64 bits. (Without it the
// statement is false: see the report / VerifC38Small's domain.)
//
//verif:harness prop=C38 reach=done,prover-ok,prover-neg,prover-toomany unwind=8 budget=280 thorough.budget=5400
func VerifC38ProverNoTruncation() {
	verifC38BigReset()
	verifC38DivLimbs, verifC38DivNoWide, verifC38DivLooseMid = 4, true, true // numerator < 2^(64+16+131)
	sw, d := verifC38PickSW([]int{33}, 1, 1)
	lnP, target := vr.U64("lnProvenWeight"), vr.U64("strengthTarget")
	verifC38ProverCheck(sw, d, lnP, target, true)
}

func verifC38ProverCheck(sw uint64, d int, lnP, target uint64, assumeFits bool) {
	e := verifC38SubExpr(sw, d)
	num, den := verifC38Num(e, target), verifC38Den(e, lnP)
	nr, err := numReveals(sw, lnP, target)
	if den.Le(vr.ZU(0)) {
		vr.Assert("c38.prover.negative-denominator-refused", err == ErrNegativeNumOfRevealsEquation && nr == 0)
		vr.Reach("prover-neg")
		vr.Reach("done")
		return
	}
	// the exact quotient: q*den + r == num, 0 <= r < den
	var q vr.Z
	if vr.Symbolic() {
		q = verifC38DivQ
	} else {
		q = num.Div(den)
	}
	fits := q.Add(vr.ZU(1)).IsU64()
	if assumeFits {
		vr.Assume(fits)
	}
	if err != nil {
		vr.Assert("c38.prover.toomany", err == ErrTooManyReveals && nr == 0)
		vr.Assert("c38.prover.toomany-justified", !fits || q.Ge(vr.ZU(MaxReveals)))
		vr.Reach("prover-toomany")
		vr.Reach("done")
		return
	}
	vr.Reach("prover-ok")
	vr.Assert("c38.prover.count-in-range", nr >= 1 && nr <= MaxReveals)
	vr.Assert("c38.prover.count-is-quotient-plus-one", vr.ZU(nr).Eq(q.Add(vr.ZU(1))))
	// Two ring identities, valid for all integers, are handed to the solver as
	// assumptions (the bit-vector back ends do not derive distributivity over
	// ~200-bit products; VerifC38IdentityGrid checks on a grid of concrete values
	// that they are stated correctly). With n = nr:
	//   (I1)  n*(x + w*y) - (target*T + n*P)*y  ==  n*(x + (w-P)*y) - target*T*y
	//   (I2)  n == q+1  =>  n*den == q*den + den
	// What remains for the solver is linear in the products: from 0 <= num - q*den < den
	// it concludes lhs - rhs = den - (num - q*den) > 0.
	lhs, rhs := verifC38Lhs(e, nr), verifC38Rhs(e, lnP, nr, target)
	nTimesDen := verifC38Mul(vr.ZU(nr), den)
	vr.Assume(lhs.Sub(rhs).Eq(nTimesDen.Sub(num)))
	vr.Assume(vr.Implies(vr.ZU(nr).Eq(q.Add(vr.ZU(1))), nTimesDen.Eq(verifC38Mul(q, den).Add(den))))
	vr.Assert("c38.prover.satisfies-verifier-inequality", lhs.Ge(rhs))
	vr.Reach("done")
}

// VerifC38IdentityGrid: the two ring identities assumed in verifC38ProverCheck,
// evaluated on a grid of concrete values (all arithmetic is constant folding
// here; the point is that the identities are STATED correctly, in the very
// helper functions the proof uses). 6 d x 3 sw x 5 P x 4 target x 5 n x 3 q.
//
//verif:harness prop=C38 reach=done unwind=8
func VerifC38IdentityGrid() {
	const max = ^uint64(0)
	checked := 0
	for _, d := range []int{0, 1, 5, 31, 32, 63} {
		lo := uint64(1) << uint(d)
		for _, sw := range []uint64{lo, lo | (lo - 1), lo | (0x5555555555555555 & (lo - 1))} {
			e := verifC38SubExpr(sw, d)
			for _, lnP := range []uint64{0, 1, uint64(d) * (ln2IntApproximation - 1), 2907270, max} {
				den := verifC38Den(e, lnP)
				for _, target := range []uint64{0, 1, 256, max} {
					num := verifC38Num(e, target)
					for _, n := range []uint64{0, 1, 2, MaxReveals, max} {
						lhs, rhs := verifC38Lhs(e, n), verifC38Rhs(e, lnP, n, target)
						nd := verifC38Mul(vr.ZU(n), den)
						vr.Assert("c38.identity.I1", lhs.Sub(rhs).Eq(nd.Sub(num)))
						checked++
					}
					for _, q := range []uint64{0, 5, max - 1} {
						nd := verifC38Mul(vr.ZU(q+1), den)
						vr.Assert("c38.identity.I2", nd.Eq(verifC38Mul(vr.ZU(q), den).Add(den)))
					}
				}
			}
		}
	}
	vr.Assert("c38.identity.grid-size", checked == 6*3*5*4*5)
	vr.Reach("done")
}
