//go:build verif

package stateproof

import (
	"encoding/binary"

	"golang.org/x/crypto/sha3"

	"github.com/algorand/go-algorand/crypto"
	vr "github.com/algorand/go-algorand/internal/verifrt"
	"github.com/algorand/go-algorand/protocol"
)

// C39, the Fiat-Shamir seed: what makeCoinGenerator absorbs into SHAKE-256
// determines (participants commitment, lnProvenWeight, SigCommit, SignedWeight,
// message) - so a proof with any of them changed draws its coins from an
// unrelated stream. Real code: coinChoiceSeed.ToBeHashed, crypto.HashRep,
// makeCoinGenerator. SHAKE itself is replaced (engine side; natively the real
// one runs and the written bytes are not observable) by a recorder.

type verifC39Shake struct{ written *[]byte }

func (s verifC39Shake) Write(p []byte) (int, error) {
	*s.written = append(*s.written, p...)
	return len(p), nil
}
func (s verifC39Shake) Read(p []byte) (int, error) { vr.Fill("xof", p); return len(p), nil }
func (s verifC39Shake) Sum(b []byte) []byte        { return b }
func (s verifC39Shake) Reset()                     {}
func (s verifC39Shake) Size() int                  { return 64 }
func (s verifC39Shake) BlockSize() int             { return 136 }
func (s verifC39Shake) Clone() sha3.ShakeHash      { return s }

var verifC39Written []byte

func verifC39NewShake() sha3.ShakeHash {
	verifC39Written = nil
	return verifC39Shake{&verifC39Written}
}

func verifC39Seed(partLen int) coinChoiceSeed {
	var c coinChoiceSeed
	c.version = vr.U8("version")
	c.partCommitment = crypto.GenericDigest(vr.BytesN("partcom", partLen))
	c.lnProvenWeight = vr.U64("lnProvenWeight")
	c.sigCommitment = crypto.GenericDigest(vr.Bytes("sigcom", 3)) // untrusted: any length
	c.signedWeight = vr.U64("signedWeight")
	vr.Fill("data", c.data[:2])
	vr.Fill("data.tail", c.data[30:])
	return c
}

// VerifC39SeedEncoding: the byte string is version | partCommitment |
// LE64(lnProvenWeight) | sigCommitment | LE64(signedWeight) | data under the
// domain separator "spc", and for a verifier-fixed participants commitment
// length it is injective: equal encodings => equal seeds (the variable-length
// SigCommit sits between fixed-length fields, so no two seeds collide).
//
//verif:harness prop=C39 reach=done,equal,different unwind=12 budget=200
func VerifC39SeedEncoding() {
	partLen := vr.Choice("partlen", 3) // fixed by the verifier, same for both seeds
	a, b := verifC39Seed(partLen), verifC39Seed(partLen)
	ida, ba := a.ToBeHashed()
	idb, bb := b.ToBeHashed()
	vr.Assert("c39.seed.domain", ida == protocol.StateProofCoin && idb == protocol.StateProofCoin)

	// layout
	want := []byte{a.version}
	want = append(want, a.partCommitment...)
	want = binary.LittleEndian.AppendUint64(want, a.lnProvenWeight)
	want = append(want, a.sigCommitment...)
	want = binary.LittleEndian.AppendUint64(want, a.signedWeight)
	want = append(want, a.data[:]...)
	vr.Assert("c39.seed.layout", verifC39Eq(ba, want))

	if verifC39Eq(ba, bb) {
		vr.Reach("equal")
		vr.Assert("c39.seed.injective", a.version == b.version && verifC39Eq(a.partCommitment, b.partCommitment) &&
			a.lnProvenWeight == b.lnProvenWeight && verifC39Eq(a.sigCommitment, b.sigCommitment) &&
			a.signedWeight == b.signedWeight && a.data == b.data)
	} else {
		vr.Reach("different")
	}
	vr.Reach("done")
}

// VerifC39MakeCoinGenerator: makeCoinGenerator stamps the seed with
// VersionForCoinGenerator, absorbs exactly HashRep(seed) and keeps the signed
// weight (the threshold is C38's: VerifC38Threshold).
//
//verif:harness prop=C39 reach=done unwind=40 budget=200
//verif:stub golang.org/x/crypto/sha3.NewShake256 = verifC39NewShake
func VerifC39MakeCoinGenerator() {
	c := verifC39Seed(2)
	c.signedWeight = uint64(1 + vr.Choice("signedWeight", 3)) // concrete: the threshold runs the real math/big
	orig := c
	cg := makeCoinGenerator(&c)
	vr.Assert("c39.coingen.version", c.version == VersionForCoinGenerator)
	vr.Assert("c39.coingen.weight", cg.signedWeight == orig.signedWeight)
	vr.Assert("c39.coingen.seed-untouched", verifC39Eq(c.partCommitment, orig.partCommitment) && c.lnProvenWeight == orig.lnProvenWeight &&
		verifC39Eq(c.sigCommitment, orig.sigCommitment) && c.signedWeight == orig.signedWeight && c.data == orig.data)
	if vr.Symbolic() {
		_, body := c.ToBeHashed()
		want := append([]byte(protocol.StateProofCoin), body...)
		vr.Assert("c39.coingen.absorbs-hashrep", verifC39Eq(verifC39Written, want))
	}
	vr.Assert("c39.coingen.threshold", cg.threshold != nil && cg.threshold.Sign() > 0)
	vr.Reach("done")
}
