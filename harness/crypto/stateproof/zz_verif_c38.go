//go:build verif

package stateproof

import (
	vr "github.com/algorand/go-algorand/internal/verifrt"
)

// C38: the state proof prover and verifier agree on the required reveals.
//
// The verifier's inequality (weights.go, comment of verifyWeights), with
// d = floor(log2(signedWeight)), b = 16, T = ln2IntApproximation, P = lnProvenWeight:
//
//	y = sw^2 + 2^(d+2)*sw + 2^(2d)      x = 3*2^b*(sw^2 - 2^(2d))      w = d*(T-1)
//	n*(x + w*y) >= (strengthTarget*T + n*P)*y
//
// stated here in exact integers (vr.Z), multiplied out, no division.

// verifC38Ineq: the documented inequality for a CONCRETE d.
func verifC38Ineq(sw, lnP, n, target uint64, d int) bool {
	s := vr.ZU(sw)
	s2 := s.Mul(s)
	p2d := vr.ZU(1).Shl(2 * d)
	y := s2.Add(s.Shl(d + 2)).Add(p2d)
	x := s2.Sub(p2d).Mul(vr.ZU(3 << precisionBits))
	w := vr.ZU(uint64(d) * (ln2IntApproximation - 1))
	lhs := vr.ZU(n).Mul(x.Add(w.Mul(y)))
	rhs := vr.ZU(target).Mul(vr.ZU(ln2IntApproximation)).Add(vr.ZU(n).Mul(vr.ZU(lnP))).Mul(y)
	return lhs.Ge(rhs)
}

// VerifC38Small: the REAL code, math/big included, on small operands
// (signedWeight < 2^8, lnProvenWeight < 2^16, strengthTarget < 2^8, so every
// big.Int stays within one machine word). d is case-split (8 values).
//
//verif:harness prop=C38 reach=done,accept,reject,prover-ok,prover-neg unwind=24 budget=200
func VerifC38Small() {
	d := vr.Choice("d", 8)
	sw := uint64(vr.U8("signedWeight"))
	vr.Assume(sw>>uint(d) == 1)
	lnP := uint64(vr.U16("lnProvenWeight"))
	target := uint64(vr.U8("strengthTarget"))
	n := uint64(vr.U16("numReveals"))

	err := verifyWeights(sw, lnP, n, target)
	want := n <= MaxReveals && verifC38Ineq(sw, lnP, n, target, d)
	vr.Assert("c38.small.verifyWeights-iff-inequality", (err == nil) == want)
	if err == nil {
		vr.Reach("accept")
	} else {
		vr.Reach("reject")
	}

	nr, perr := numReveals(sw, lnP, target)
	if perr == nil {
		vr.Reach("prover-ok")
		vr.Assert("c38.small.prover-count-in-range", nr >= 1 && nr <= MaxReveals)
		vr.Assert("c38.small.prover-satisfies-verifier", verifyWeights(sw, lnP, nr, target) == nil)
		vr.Assert("c38.small.prover-satisfies-inequality", verifC38Ineq(sw, lnP, nr, target, d))
	} else if perr == ErrNegativeNumOfRevealsEquation {
		vr.Reach("prover-neg")
	}
	vr.Reach("done")
}
