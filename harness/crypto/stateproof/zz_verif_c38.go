//go:build verif

package stateproof

import (
	"math/bits"

	vr "github.com/algorand/go-algorand/internal/verifrt"
)

// C38: the state proof prover and verifier agree on the required reveals.
//
// The verifier's inequality (weights.go, comment of verifyWeights), with
// d = floor(log2(signedWeight)), b = 16, T = ln2IntApproximation, P = lnProvenWeight:
//
//	y = sw^2 + 2^(d+2)*sw + 2^(2d)      x = 3*2^b*(sw^2 - 2^(2d))      w = d*(T-1)
//	n*(x + w*y) >= (strengthTarget*T + n*P)*y
//
// is stated in exact integers (vr.Z), multiplied out, no division, by
// verifC38SubExpr / verifC38Lhs / verifC38Rhs / verifC38Num / verifC38Den
// (zz_verif_c38big.go). Layers:
//
//	this file         the REAL code, math/big included (no stubs), on small operands
//	zz_verif_c38big   full-width operands with math/big replaced by its
//	                  exact-integer contract
//	zz_verif_c38coin  rejection sampling (getNextCoin)

// VerifC38SmallSymbolic: real verifyWeights (real math/big) with symbolic
// lnProvenWeight < 2^18, strengthTarget <= 512, numOfReveals < 2^16 and every
// signedWeight in [0, 5) (thorough: [0, 64)): nil <=> n <= MaxReveals, sw != 0
// and the documented inequality.
//
//verif:harness prop=C38 reach=done,accept,reject,zero unwind=24 budget=280 thorough.budget=2400
func VerifC38SmallSymbolic() {
	sw := uint64(vr.Choice("signedWeight", vr.Param(5, 64)))
	lnP := uint64(vr.U32("lnProvenWeight"))
	vr.Assume(lnP < 1<<18)
	target := uint64(vr.U16("strengthTarget"))
	vr.Assume(target <= 512)
	n := uint64(vr.U16("numReveals"))

	err := verifyWeights(sw, lnP, n, target)
	if sw == 0 {
		vr.Assert("c38.small.zero-weight", err != nil)
		vr.Reach("zero")
		vr.Reach("done")
		return
	}
	e := verifC38SubExpr(sw, bits.Len64(sw)-1)
	want := n <= MaxReveals && verifC38Lhs(e, n).Ge(verifC38Rhs(e, lnP, n, target))
	vr.Assert("c38.small.verifyWeights-iff-inequality", (err == nil) == want)
	if err == nil {
		vr.Reach("accept")
	} else {
		vr.Reach("reject")
	}
	vr.Reach("done")
}

// VerifC38SmallGrid: the real numReveals and verifyWeights (real math/big,
// real division) on a grid of concrete arguments: every signedWeight in
// [1, 48], lnProvenWeight around the zero of the denominator and at the ends,
// four strength targets. Checks, against the exact-integer expressions: the
// error cases of numReveals, result = floor(num/den) + 1, the result satisfies
// verifyWeights, and result - 1 is accepted by verifyWeights exactly when the
// inequality holds for it (the verifier rejects a smaller count that violates it).
//
//verif:harness prop=C38 reach=done,ok,neg,toomany,smaller-rejected unwind=8 budget=280 steps=60000000
func VerifC38SmallGrid() {
	for sw := uint64(1); sw <= 48; sw++ {
		d := bits.Len64(sw) - 1
		e := verifC38SubExpr(sw, d)
		w := uint64(d) * (ln2IntApproximation - 1)
		// x/y < 3*2^16*3/13 < 45372: the denominator changes sign for P in (w, w+45372)
		for _, lnP := range []uint64{0, 1, w / 2, w, w + 1, w + 20000, w + 45000, w + 45372, 2907270} {
			den := verifC38Den(e, lnP)
			for _, target := range []uint64{0, 1, 256, 65535} {
				num := verifC38Num(e, target)
				nr, err := numReveals(sw, lnP, target)
				if den.Le(vr.ZU(0)) {
					vr.Assert("c38.grid.negative-denominator", err == ErrNegativeNumOfRevealsEquation && nr == 0)
					vr.Reach("neg")
					continue
				}
				q := num.Div(den)
				if q.Ge(vr.ZU(MaxReveals)) {
					vr.Assert("c38.grid.toomany", err == ErrTooManyReveals && nr == 0)
					vr.Reach("toomany")
					continue
				}
				vr.Assert("c38.grid.result", err == nil && vr.ZU(nr).Eq(q.Add(vr.ZU(1))))
				vr.Assert("c38.grid.prover-satisfies-verifier", verifyWeights(sw, lnP, nr, target) == nil)
				vr.Assert("c38.grid.prover-satisfies-inequality", verifC38Lhs(e, nr).Ge(verifC38Rhs(e, lnP, nr, target)))
				less := verifC38Lhs(e, nr-1).Ge(verifC38Rhs(e, lnP, nr-1, target))
				vr.Assert("c38.grid.smaller-count", (verifyWeights(sw, lnP, nr-1, target) == nil) == less)
				if !less {
					vr.Reach("smaller-rejected")
				}
				vr.Reach("ok")
			}
		}
	}
	vr.Reach("done")
}

// VerifC38TruncationWitness: why VerifC38ProverAgrees bounds strengthTarget and
// VerifC38ProverNoTruncation assumes that the quotient fits. numReveals takes
// `.Uint64()` of floor(num/den) without checking that it fits in 64 bits; for
// signedWeight = 3, lnProvenWeight = 71923 (den = 2651) and
// strengthTarget = 29094685646174243 the exact quotient is 2^64 + 47, numReveals
// returns (48, nil), and verifyWeights refuses 48 reveals. With the consensus
// strengthTarget (256) this needs 0 < den < y/2^40, which no sampled
// signedWeight admits. The harness asserts the arithmetic facts only (it keeps
// passing if numReveals is hardened) and records the disagreement as a reach tag.
// Real math/big, concrete values.
//
//verif:harness prop=C38 reach=done unwind=8
func VerifC38TruncationWitness() {
	const sw, lnP, target = uint64(3), uint64(71923), uint64(29094685646174243)
	e := verifC38SubExpr(sw, 1)
	num, den := verifC38Num(e, target), verifC38Den(e, lnP)
	vr.Assert("c38.truncation.denominator", den.Eq(vr.ZU(2651)))
	vr.Assert("c38.truncation.quotient", num.Div(den).Eq(vr.ZU(1).Shl(64).Add(vr.ZU(47))))
	vr.Assert("c38.truncation.48-reveals-do-not-satisfy-the-inequality", verifC38Lhs(e, 48).Lt(verifC38Rhs(e, lnP, 48, target)))
	nr, err := numReveals(sw, lnP, target)
	if err == nil {
		vr.Assert("c38.truncation.low-word-plus-one", nr == 48)
		if verifyWeights(sw, lnP, nr, target) != nil {
			vr.Reach("prover-verifier-disagree-outside-domain")
		}
	}
	vr.Reach("done")
}
