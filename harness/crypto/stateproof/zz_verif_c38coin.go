//go:build verif

package stateproof

import (
	"encoding/binary"
	"math/big"

	"golang.org/x/crypto/sha3"

	vr "github.com/algorand/go-algorand/internal/verifrt"
)

// C38, third clause: every revealed coin lies below the signed weight, and the
// rejection sampling is the documented one: a 64-bit sample z is accepted iff
// z < threshold, threshold = floor(2^64 / signedWeight) * signedWeight (the
// largest multiple of signedWeight <= 2^64, which is what makes z mod
// signedWeight uniform).
//
// The SHAKE-256 stream is replaced by nondeterministic bytes: the harness
// builds the coinGenerator with a ShakeHash whose Read returns arbitrary bytes.
// The rejection loop has no bound in the code (it terminates with probability 1
// only); here the stream is constrained so that at most verifC38MaxRejects
// samples are rejected. math/big is modelled as in zz_verif_c38big.go.

type verifC38Shake struct {
	samples *[]uint64
	reads   *[]int
	thr     vr.Z
}

const verifC38MaxRejects = 2

func (s verifC38Shake) Read(p []byte) (int, error) {
	*s.reads = append(*s.reads, len(p))
	vr.Fill("xof", p)
	if len(p) == 8 {
		v := binary.LittleEndian.Uint64(p)
		if len(*s.samples) >= verifC38MaxRejects {
			vr.Assume(vr.ZU(v).Lt(s.thr)) // bound on the number of rejections
		}
		*s.samples = append(*s.samples, v)
	}
	return len(p), nil
}
func (s verifC38Shake) Write(p []byte) (int, error) { return len(p), nil }
func (s verifC38Shake) Sum(b []byte) []byte         { return b }
func (s verifC38Shake) Reset()                      {}
func (s verifC38Shake) Size() int                   { return 64 }
func (s verifC38Shake) BlockSize() int              { return 136 }
func (s verifC38Shake) Clone() sha3.ShakeHash       { return s }

//verif:stub (*math/big.Int).SetUint64 = verifC38BigSetUint64
//verif:stub (*math/big.Int).Set = verifC38BigSet
//verif:stub (*math/big.Int).Add = verifC38BigAdd
//verif:stub (*math/big.Int).Sub = verifC38BigSub
//verif:stub (*math/big.Int).Mul = verifC38BigMul
//verif:stub (*math/big.Int).Lsh = verifC38BigLsh
//verif:stub (*math/big.Int).Div = verifC38BigDiv
//verif:stub (*math/big.Int).Sign = verifC38BigSign
//verif:stub (*math/big.Int).Cmp = verifC38BigCmp
//verif:stub (*math/big.Int).Uint64 = verifC38BigUint64

// verifC38IsMultiple: t == k*sw for some integer k. Under the engine the witness
// is the quotient the Div contract drew (t is literally quotient*sw there).
func verifC38IsMultiple(t vr.Z, sw uint64) bool {
	if vr.Symbolic() {
		return t.Eq(verifC38DivQ.Mul(vr.ZU(sw)))
	}
	return t.Mod(vr.ZU(sw)).Eq(vr.ZU(0))
}

// VerifC38Threshold: prepareRejectionSamplingThreshold(sw) is THE multiple of
// sw in (2^64 - sw, 2^64], for every sw >= 1; sw == 0 panics (division by zero).
//
//verif:harness prop=C38 reach=done,one,small,large unwind=8 budget=280
func VerifC38Threshold() {
	verifC38BigReset()
	verifC38DivLimbs, verifC38DivNoWide, verifC38DivLooseMid = 2, false, false
	sw := vr.U64("signedWeight")
	vr.Assume(sw != 0)
	var thr *big.Int
	thr = prepareRejectionSamplingThreshold(sw)
	t := verifC38Val(thr)
	two64 := vr.ZU(1).Shl(64)
	vr.Assert("c38.threshold.at-most-2^64", t.Le(two64))
	vr.Assert("c38.threshold.maximal", t.Add(vr.ZU(sw)).Gt(two64))
	vr.Assert("c38.threshold.multiple", verifC38IsMultiple(t, sw))
	switch {
	case sw == 1:
		vr.Assert("c38.threshold.one", t.Eq(two64))
		vr.Reach("one")
	case sw < 1<<54:
		vr.Reach("small")
	default:
		vr.Reach("large")
	}
	vr.Reach("done")
}

// VerifC38NextCoin: getNextCoin on an arbitrary XOF stream (<= 2 rejections):
// it reads 8 bytes per attempt, rejects exactly the samples >= threshold,
// accepts the first one below it, and returns that sample mod signedWeight,
// which is < signedWeight.
//
//verif:harness prop=C38 reach=done,first,rejected-once,rejected-twice unwind=12 budget=280
func VerifC38NextCoin() {
	verifC38BigReset()
	verifC38DivLimbs, verifC38DivNoWide, verifC38DivLooseMid = 2, false, false
	sw := vr.U64("signedWeight")
	vr.Assume(sw != 0)
	thr := prepareRejectionSamplingThreshold(sw)
	t := verifC38Val(thr)
	// (what VerifC38Threshold establishes about t, restated so that this harness
	// stands on its own)
	vr.Assert("c38.coin.threshold", t.Le(vr.ZU(1).Shl(64)) && t.Add(vr.ZU(sw)).Gt(vr.ZU(1).Shl(64)))

	var samples []uint64
	var reads []int
	cg := coinGenerator{shkContext: verifC38Shake{&samples, &reads, t}, signedWeight: sw, threshold: thr}
	coin := cg.getNextCoin()

	vr.Assert("c38.coin.below-signed-weight", coin < sw)
	vr.Assert("c38.coin.attempts", len(samples) >= 1 && len(samples) == len(reads))
	for _, n := range reads {
		vr.Assert("c38.coin.reads-8-bytes", n == 8)
	}
	last := len(samples) - 1
	for i, z := range samples {
		if i < last {
			vr.Assert("c38.coin.rejected-only-at-or-above-threshold", vr.ZU(z).Ge(t))
		}
	}
	vr.Assert("c38.coin.accepted-below-threshold", vr.ZU(samples[last]).Lt(t))
	vr.Assert("c38.coin.is-accepted-sample-mod-weight", coin == samples[last]%sw)
	switch last {
	case 0:
		vr.Reach("first")
	case 1:
		vr.Reach("rejected-once")
	case 2:
		vr.Reach("rejected-twice")
	}
	vr.Reach("done")
}

// VerifC38SecondCoin: the generator keeps no state besides the stream: a second
// call draws fresh samples and obeys the same rule.
//
//verif:harness prop=C38 tier=thorough reach=done unwind=12 budget=1200
func VerifC38SecondCoin() {
	verifC38BigReset()
	verifC38DivLimbs, verifC38DivNoWide, verifC38DivLooseMid = 2, false, false
	sw := vr.U64("signedWeight")
	vr.Assume(sw != 0)
	thr := prepareRejectionSamplingThreshold(sw)
	t := verifC38Val(thr)
	var s1, s2 []uint64
	var r1, r2 []int
	cg := coinGenerator{shkContext: verifC38Shake{&s1, &r1, t}, signedWeight: sw, threshold: thr}
	c1 := cg.getNextCoin()
	cg.shkContext = verifC38Shake{&s2, &r2, t}
	c2 := cg.getNextCoin()
	vr.Assert("c38.coin2.below-signed-weight", c1 < sw && c2 < sw)
	vr.Assert("c38.coin2.fresh-sample", len(s2) >= 1 && c2 == s2[len(s2)-1]%sw && vr.ZU(s2[len(s2)-1]).Lt(t))
	vr.Assert("c38.coin2.state-unchanged", cg.signedWeight == sw && cg.threshold == thr && verifC38Val(thr).Eq(t))
	vr.Reach("done")
}
