//go:build verif

package stateproof

import (
	"encoding/binary"
	"sort"

	"github.com/algorand/go-algorand/crypto"
	"github.com/algorand/go-algorand/crypto/merklearray"
	"github.com/algorand/go-algorand/crypto/merklesignature"
	"github.com/algorand/go-algorand/data/basics"
	vr "github.com/algorand/go-algorand/internal/verifrt"
)

// C39 (lemma level): Verifier.Verify accepts a state proof iff it is backed by
// enough valid signatures.
//
// Real code: Verifier.Verify, verifyStateProofTreesDepth, the salt-version
// check (merklesignature.Signature.ValidateSaltVersion down to the Falcon
// signature's salt byte), buildCommittableSignature (empty slot / missing
// Falcon signature / key-proof depth checks), the reveal loop, the position
// loop and the coin range test.
//
// Idealised (each an ARBITRARY but consistent boolean function of exactly the
// arguments the real function receives, realised with the uninterpreted hash
// vr.Hash32, so "the same question gets the same answer, different questions
// are unrelated"):
//
//	verifyWeights(signedWeight, lnProvenWeight, numReveals, strengthTarget)   (decided by C38)
//	merklesignature.Verifier.VerifyBytes(pk, round, msg, sig)                 (Falcon + key tree)
//	merklesignature.Signature.GetFixedLengthHashableRepresentation(sig)       (Falcon CT conversion, cgo)
//	merklearray.VerifyVectorCommitment(root, {pos -> leaf}, proof)            (decided by C37)
//	makeCoinGenerator(seed) / getNextCoin: the j-th coin is an arbitrary value
//	  < signedWeight (C38); the seed handed to makeCoinGenerator is recorded.
//
// Shape: <= 2 reveals at symbolic positions, <= 2 positions to reveal.

const verifC39MaxReveals = 2

// ---- identities of the symbolic objects, as bytes fed to the oracles ----

func verifC39U64(x uint64) []byte {
	var b [8]byte
	binary.LittleEndian.PutUint64(b[:], x)
	return b[:]
}

func verifC39SigID(s *merklesignature.Signature) []byte {
	b := append([]byte{byte(len(s.Signature))}, s.Signature...)
	b = append(b, verifC39U64(s.VectorCommitmentIndex)...)
	b = append(b, s.Proof.TreeDepth, byte(len(s.Proof.Path)), s.VerifyingKey.PublicKey[0])
	return b
}

func verifC39PKID(v *merklesignature.Verifier) []byte {
	return append(append([]byte{}, v.Commitment[:2]...), verifC39U64(v.KeyLifetime)...)
}

func verifC39ProofID(p *merklearray.Proof) []byte {
	b := []byte{p.TreeDepth, byte(len(p.Path)), byte(p.HashFactory.HashType)}
	for _, d := range p.Path {
		b = append(b, byte(len(d)))
		b = append(b, d...)
	}
	return b
}

// the oracle bit: an arbitrary consistent predicate of its arguments
func verifC39Oracle(name string, parts ...[]byte) bool {
	h := vr.Hash32(name, parts...)
	return h[31]&1 == 1
}

func verifC39Eq(a, b []byte) bool {
	if len(a) != len(b) {
		return false
	}
	diff := byte(0) // branch-free: one symbolic decision per comparison
	for i := range a {
		diff |= a[i] ^ b[i]
	}
	return diff == 0
}

type verifC39Error struct{}

func (verifC39Error) Error() string { return "verif: oracle says no" }

var errVerifC39 error = verifC39Error{}

// ---- ghost state written by the stubs ----

type verifC39Ghost struct {
	coins      [verifC39MaxReveals]uint64
	coinCalls  int
	seedCalls  int
	seed       coinChoiceSeed
	seedWeight uint64
}

var verifC39G *verifC39Ghost

// ---- stubs ----

func verifC39WeightsOK(sw, lnP, n, target uint64) bool {
	return verifC39Oracle("weights", verifC39U64(sw), verifC39U64(lnP), verifC39U64(n), verifC39U64(target))
}

func verifC39StubVerifyWeights(signedWeight uint64, lnProvenWeight uint64, numOfReveals uint64, strengthTarget uint64) error {
	if !verifC39WeightsOK(signedWeight, lnProvenWeight, numOfReveals, strengthTarget) {
		return ErrInsufficientSignedWeight
	}
	return nil
}

func verifC39SigOK(pk *merklesignature.Verifier, round uint64, msg []byte, sig *merklesignature.Signature) bool {
	return verifC39Oracle("sigverify", verifC39PKID(pk), verifC39U64(round), msg, verifC39SigID(sig))
}

func verifC39StubVerifyBytes(v *merklesignature.Verifier, round uint64, msg []byte, sig *merklesignature.Signature) error {
	if !verifC39SigOK(v, round, msg, sig) {
		return merklesignature.ErrSignatureSchemeVerificationFailed
	}
	return nil
}

func verifC39SerializeOK(s *merklesignature.Signature) bool {
	return verifC39Oracle("serialize", verifC39SigID(s))
}

func verifC39StubFixedLen(s *merklesignature.Signature) ([]byte, error) {
	if !verifC39SerializeOK(s) {
		return nil, errVerifC39
	}
	return verifC39SigID(s), nil // any injective image of the signature will do
}

// leaf identity: what the vector commitment is asked to open at a position
func verifC39LeafID(h crypto.Hashable) []byte {
	switch x := h.(type) {
	case *committableSignatureSlot:
		if x.isEmptySlot {
			return []byte{0}
		}
		b := append([]byte{1}, verifC39U64(x.sigCommit.L)...)
		return append(b, verifC39SigID(&x.sigCommit.Sig)...)
	case basics.Participant:
		b := append([]byte{2}, verifC39PKID(&x.PK)...)
		return append(b, verifC39U64(x.Weight)...)
	}
	return []byte{3}
}

func verifC39VCOK(root []byte, pos []uint64, leaves [][]byte, proof *merklearray.Proof) bool {
	parts := [][]byte{root, verifC39ProofID(proof), {byte(len(pos))}}
	for i := range pos {
		parts = append(parts, verifC39U64(pos[i]), leaves[i])
	}
	return verifC39Oracle("vcverify", parts...)
}

func verifC39StubVC(root crypto.GenericDigest, elems map[uint64]crypto.Hashable, proof *merklearray.Proof) error {
	if proof == nil {
		return merklearray.ErrProofIsNil
	}
	type ent struct {
		pos  uint64
		leaf []byte
	}
	var ents []ent
	for p, e := range elems {
		ents = append(ents, ent{p, verifC39LeafID(e)})
	}
	sort.Slice(ents, func(i, j int) bool { return ents[i].pos < ents[j].pos })
	pos := make([]uint64, len(ents))
	leaves := make([][]byte, len(ents))
	for i, e := range ents {
		pos[i], leaves[i] = e.pos, e.leaf
	}
	if !verifC39VCOK(root, pos, leaves, proof) {
		return merklearray.ErrRootMismatch
	}
	return nil
}

func verifC39StubMakeCoin(choice *coinChoiceSeed) coinGenerator {
	verifC39G.seedCalls++
	verifC39G.seed = *choice
	return coinGenerator{signedWeight: choice.signedWeight}
}

func verifC39StubNextCoin(cg *coinGenerator) uint64 {
	i := verifC39G.coinCalls
	verifC39G.coinCalls++
	vr.Assert("c39.model.coin-count", i < verifC39MaxReveals)
	vr.Assert("c39.model.coin-generator", cg.signedWeight == verifC39G.seed.signedWeight)
	return verifC39G.coins[i]
}

//verif:stub github.com/algorand/go-algorand/crypto/stateproof.verifyWeights = verifC39StubVerifyWeights
//verif:stub (*github.com/algorand/go-algorand/crypto/merklesignature.Verifier).VerifyBytes = verifC39StubVerifyBytes
//verif:stub (*github.com/algorand/go-algorand/crypto/merklesignature.Signature).GetFixedLengthHashableRepresentation = verifC39StubFixedLen
//verif:stub github.com/algorand/go-algorand/crypto/merklearray.VerifyVectorCommitment = verifC39StubVC
//verif:stub github.com/algorand/go-algorand/crypto/stateproof.makeCoinGenerator = verifC39StubMakeCoin
//verif:stub (*github.com/algorand/go-algorand/crypto/stateproof.coinGenerator).getNextCoin = verifC39StubNextCoin

// ---- the symbolic proof ----

func verifC39Digest(label string) crypto.GenericDigest {
	// two symbolic bytes (thorough tier: symbolic length 0..2, a decoded digest may have any length)
	if vr.Param(0, 1) == 1 {
		return crypto.GenericDigest(vr.Bytes(label, 2))
	}
	return crypto.GenericDigest(vr.BytesN(label, 2))
}

func verifC39Proof(label string) merklearray.Proof {
	p := merklearray.Proof{TreeDepth: vr.U8(label + ".depth")}
	p.Path = []crypto.GenericDigest{{vr.U8(label + ".path")}}
	return p
}

func verifC39Reveal() Reveal {
	var r Reveal
	r.SigSlot.L = vr.U64("L")
	if vr.Bool("hasfalconsig") {
		r.SigSlot.Sig.Signature = crypto.FalconSignature(vr.BytesN("falconsig", 2)) // byte 1 is the salt version
	}
	r.SigSlot.Sig.VectorCommitmentIndex = vr.U64("vcindex")
	r.SigSlot.Sig.Proof.TreeDepth = vr.U8("keyproofdepth")
	r.SigSlot.Sig.VerifyingKey.PublicKey[0] = vr.U8("falconkey")
	r.Part.PK.Commitment[0] = vr.U8("pk")
	r.Part.PK.KeyLifetime = vr.U64("keylifetime")
	r.Part.Weight = vr.U64("weight")
	return r
}

// the reference model: what "backed by enough valid signatures" means, from
// the proof and the verifier's trusted data, in terms of the oracles
func verifC39Expected(v *Verifier, round uint64, data MessageHash, s *StateProof, keys []uint64, coins []uint64) bool {
	if s.SigProofs.TreeDepth > MaxTreeDepth || s.PartProofs.TreeDepth > MaxTreeDepth {
		return false
	}
	nr := uint64(len(s.PositionsToReveal))
	if !verifC39WeightsOK(s.SignedWeight, v.lnProvenWeight, nr, v.strengthTarget) {
		return false
	}
	// reveals in position order (canonical for the commitment oracles)
	order := append([]uint64{}, keys...)
	sort.Slice(order, func(i, j int) bool { return order[i] < order[j] })
	var sigLeaves, partLeaves [][]byte
	for _, k := range order {
		r := s.Reveals[k]
		sig := &r.SigSlot.Sig
		// salt version: byte 1 of the Falcon signature (0 if shorter)
		salt := byte(0)
		if len(sig.Signature) >= 2 {
			salt = sig.Signature[1]
		}
		if salt != s.MerkleSignatureSaltVersion {
			return false
		}
		empty := len(sig.Signature) == 0 && sig.VectorCommitmentIndex == 0 && sig.Proof.TreeDepth == 0 &&
			len(sig.Proof.Path) == 0 && sig.VerifyingKey.PublicKey[0] == 0
		switch {
		case empty:
			sigLeaves = append(sigLeaves, []byte{0})
		case len(sig.Signature) == 0, sig.Proof.TreeDepth > merklearray.MaxEncodedTreeDepth, !verifC39SerializeOK(sig):
			return false
		default:
			sigLeaves = append(sigLeaves, append(append([]byte{1}, verifC39U64(r.SigSlot.L)...), verifC39SigID(sig)...))
		}
		partLeaves = append(partLeaves, append(append([]byte{2}, verifC39PKID(&r.Part.PK)...), verifC39U64(r.Part.Weight)...))
		// the signature is valid for THIS round and THIS message under the reveal's own key
		if !verifC39SigOK(&r.Part.PK, round, data[:], sig) {
			return false
		}
	}
	if !verifC39VCOK(s.SigCommit, order, sigLeaves, &s.SigProofs) {
		return false
	}
	if !verifC39VCOK(v.participantsCommitment, order, partLeaves, &s.PartProofs) {
		return false
	}
	for j, pos := range s.PositionsToReveal {
		r, ok := s.Reveals[pos]
		if !ok {
			return false
		}
		// L <= coin < L + Weight, in exact integers (no wrap-around)
		c, lo := vr.ZU(coins[j]), vr.ZU(r.SigSlot.L)
		hi := lo.Add(vr.ZU(r.Part.Weight))
		if c.Lt(lo) || c.Ge(hi) {
			return false
		}
	}
	return true
}

// VerifC39Verify: Verify returns nil exactly when the reference model holds,
// with one documented exception (see c39.rejected-only-if): a reveal whose
// L + Weight exceeds 2^64 is refused even if the coin is inside [L, L+Weight).
// On acceptance the coin generator was seeded once, with (participants
// commitment, lnProvenWeight, SigCommit, SignedWeight, message), and exactly
// one coin per position was drawn.
//
//verif:harness prop=C39 reach=done,accepted,rejected,accepted-two-reveals,accepted-two-positions unwind=12 budget=230 thorough.budget=3000
func VerifC39Verify() {
	g := &verifC39Ghost{}
	verifC39G = g

	v := &Verifier{
		strengthTarget:         vr.U64("strengthTarget"),
		lnProvenWeight:         vr.U64("lnProvenWeight"),
		participantsCommitment: verifC39Digest("partcom"),
	}
	round := vr.U64("round")
	var data MessageHash
	vr.Fill("data", data[:2])

	s := &StateProof{
		SigCommit:                  verifC39Digest("sigcom"),
		SignedWeight:               vr.U64("signedWeight"),
		SigProofs:                  verifC39Proof("sigproofs"),
		PartProofs:                 verifC39Proof("partproofs"),
		MerkleSignatureSaltVersion: vr.U8("saltversion"),
		Reveals:                    map[uint64]Reveal{},
	}
	nrev := vr.Choice("nreveals", verifC39MaxReveals+1)
	var keys []uint64
	for i := 0; i < nrev; i++ {
		k := vr.U64("revealpos")
		for _, o := range keys {
			vr.Assume(o < k) // a map has no order: positions named in increasing order, w.l.o.g.
		}
		keys = append(keys, k)
		s.Reveals[k] = verifC39Reveal()
	}
	npos := vr.Choice("npositions", verifC39MaxReveals+1)
	for j := 0; j < npos; j++ {
		s.PositionsToReveal = append(s.PositionsToReveal, vr.U64("position"))
	}
	for j := range g.coins {
		g.coins[j] = vr.U64("coin")
		// getNextCoin returns values below the signed weight (C38)
		vr.Assume(s.SignedWeight == 0 || g.coins[j] < s.SignedWeight)
	}

	err := v.Verify(basics.Round(round), data, s)

	want := verifC39Expected(v, round, data, s, keys, g.coins[:])
	if err == nil {
		vr.Reach("accepted")
		vr.Assert("c39.accepted-only-if-backed", want)
		vr.Assert("c39.seeded-once", g.seedCalls == 1 && g.coinCalls == npos)
		sd := &g.seed
		vr.Assert("c39.seed-binds-trusted-data", verifC39Eq(sd.partCommitment, v.participantsCommitment) && sd.lnProvenWeight == v.lnProvenWeight)
		vr.Assert("c39.seed-binds-proof-and-message", verifC39Eq(sd.sigCommitment, s.SigCommit) && sd.signedWeight == s.SignedWeight && sd.data == data)
		if nrev == 2 {
			vr.Reach("accepted-two-reveals")
		}
		if npos == 2 {
			vr.Reach("accepted-two-positions")
		}
	} else {
		vr.Reach("rejected")
		// completeness, except for the wrap-around of L + Weight
		wraps := false
		for _, pos := range s.PositionsToReveal {
			if r, ok := s.Reveals[pos]; ok && !vr.ZU(r.SigSlot.L).Add(vr.ZU(r.Part.Weight)).IsU64() {
				wraps = true
			}
		}
		vr.Assert("c39.rejected-only-if-not-backed", !want || wraps)
	}
	vr.Reach("done")
}
