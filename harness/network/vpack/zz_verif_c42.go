//go:build verif

package vpack

import (
	vr "github.com/algorand/go-algorand/internal/verifrt"
)

// C42 (stateless layer): compressing and decompressing a vote reproduces its
// exact bytes; malformed compressed input is an error, never a crash or a
// silently different vote.
//
// Code under test: (*StatelessEncoder).CompressVote, parseMsgpVote,
// msgpVoteParser.*, (*StatelessDecoder).DecompressVote and helpers.
//
// The domain "votes" is the output of the msgpack encoder for
// agreement.unauthenticatedVote. The harness does not recognise such buffers,
// it GENERATES them: a reference encoder written here (from the msgpack format
// and the codec tags of the vote types, not from vpack) builds the buffer field
// by field from symbolic values: maps with their keys in the codec's (sorted)
// order, omitted-when-empty fields selected by a presence mask (all 64
// combinations), every byte of every binary field symbolic, every unsigned
// integer in any of the five msgpack encodings with symbolic payload (this is
// MORE than canonical: the canonical encoder always picks the shortest form).
// A second reference, the packed layout as documented in vpack.go, is compared
// with the encoder's output byte for byte, so that a symmetric slip in encoder
// and decoder cannot hide.

type verifC42Vote struct {
	mask                           uint8 // which optional fields are present (bitPer ... bitStep)
	pf                             [80]byte
	per, oper, rnd, step           []byte // msgpack unsigned integers (marker + payload)
	dig, encdig, oprop, snd, p, p2 [32]byte
	p1s, p2s, s                    [64]byte
}

// verifC42Uint returns a msgpack unsigned integer of the given form with
// symbolic payload: 0 fixint, 1 uint8, 2 uint16, 3 uint32, 4 uint64. Form 5 is
// NOT an integer: any single byte that is neither a fixint nor an integer marker
// (used only for malformed packed input).
func verifC42Uint(label string, form int) []byte {
	switch form {
	case 5:
		b := vr.U8(label)
		vr.Assume(b >= 0x80)
		vr.Assume(b < msgpUint8 || b > msgpUint64)
		return []byte{b}
	case 0:
		b := vr.U8(label)
		vr.Assume(b < 0x80)
		return []byte{b}
	case 1:
		return append([]byte{0xcc}, vr.BytesN(label, 1)...)
	case 2:
		return append([]byte{0xcd}, vr.BytesN(label, 2)...)
	case 3:
		return append([]byte{0xce}, vr.BytesN(label, 4)...)
	}
	return append([]byte{0xcf}, vr.BytesN(label, 8)...)
}

// verifC42Forms picks the encoding of the four integers (rnd, per, step, oper).
func verifC42Forms(independent, malformed bool) (forms [4]int) {
	if independent {
		n := 5
		if malformed {
			n = 6
		}
		for i := range forms {
			forms[i] = vr.Choice("form", n)
		}
		return
	}
	// every form for every integer, not every combination: five rotations of
	// (0,1,2,3,4), "all uint64" (the longest vote) and, for malformed input, a
	// bad marker in each position
	n := 6
	if malformed {
		n = 10
	}
	f := vr.Choice("form", n)
	for i := range forms {
		switch {
		case f < 5:
			forms[i] = (f + i) % 5
		case f == 5:
			forms[i] = 4
		case f-6 == i:
			forms[i] = 5
		}
	}
	return
}

// verifC42NewVote: presence mask and integer forms are enumerated (they decide
// the shape of the buffer), all contents are symbolic.
func verifC42NewVote(forms [4]int) *verifC42Vote {
	v := &verifC42Vote{}
	v.mask = uint8(vr.Choice("mask", 64))
	verifC42FillVote(v, forms, false)
	return v
}

// all contents of the fields selected by v.mask, symbolic
func verifC42FillVote(v *verifC42Vote, forms [4]int, canonicalRnd bool) {
	vr.Fill("pf", v.pf[:])
	if canonicalRnd {
		v.rnd = verifC42UintCanonical("rnd", forms[0])
	} else {
		v.rnd = verifC42Uint("rnd", forms[0])
	}
	if v.mask&bitPer != 0 {
		v.per = verifC42Uint("per", forms[1])
	}
	if v.mask&bitStep != 0 {
		v.step = verifC42Uint("step", forms[2])
	}
	if v.mask&bitOper != 0 {
		v.oper = verifC42Uint("oper", forms[3])
	}
	if v.mask&bitDig != 0 {
		vr.Fill("dig", v.dig[:])
	}
	if v.mask&bitEncDig != 0 {
		vr.Fill("encdig", v.encdig[:])
	}
	if v.mask&bitOprop != 0 {
		vr.Fill("oprop", v.oprop[:])
	}
	vr.Fill("snd", v.snd[:])
	vr.Fill("p", v.p[:])
	vr.Fill("p2", v.p2[:])
	vr.Fill("p1s", v.p1s[:])
	vr.Fill("p2s", v.p2s[:])
	vr.Fill("s", v.s[:])
}

func verifC42Key(out []byte, k string) []byte {
	out = append(out, 0xa0|byte(len(k))) // fixstr
	return append(out, k...)
}

func verifC42Bin(out []byte, k string, b []byte) []byte {
	out = verifC42Key(out, k)
	out = append(out, 0xc4, byte(len(b))) // bin8
	return append(out, b...)
}

func verifC42Int(out []byte, k string, enc []byte) []byte {
	out = verifC42Key(out, k)
	return append(out, enc...)
}

func verifC42Bit(m, bit uint8) int {
	if m&bit != 0 {
		return 1
	}
	return 0
}

// reference msgpack encoding of unauthenticatedVote{cred{pf}, r{per, prop{dig,
// encdig, oper, oprop}, rnd, snd, step}, sig{p, p1s, p2, p2s, ps, s}}
func verifC42Msgp(v *verifC42Vote) []byte {
	m := v.mask
	out := []byte{0x83}
	out = verifC42Key(out, "cred")
	out = append(out, 0x81)
	out = verifC42Bin(out, "pf", v.pf[:])
	out = verifC42Key(out, "r")
	nProp := verifC42Bit(m, bitDig) + verifC42Bit(m, bitEncDig) + verifC42Bit(m, bitOper) + verifC42Bit(m, bitOprop)
	nR := 2 + verifC42Bit(m, bitPer) + verifC42Bit(m, bitStep)
	if nProp > 0 {
		nR++
	}
	out = append(out, 0x80|byte(nR))
	if m&bitPer != 0 {
		out = verifC42Int(out, "per", v.per)
	}
	if nProp > 0 {
		out = verifC42Key(out, "prop")
		out = append(out, 0x80|byte(nProp))
		if m&bitDig != 0 {
			out = verifC42Bin(out, "dig", v.dig[:])
		}
		if m&bitEncDig != 0 {
			out = verifC42Bin(out, "encdig", v.encdig[:])
		}
		if m&bitOper != 0 {
			out = verifC42Int(out, "oper", v.oper)
		}
		if m&bitOprop != 0 {
			out = verifC42Bin(out, "oprop", v.oprop[:])
		}
	}
	out = verifC42Int(out, "rnd", v.rnd)
	out = verifC42Bin(out, "snd", v.snd[:])
	if m&bitStep != 0 {
		out = verifC42Int(out, "step", v.step)
	}
	out = verifC42Key(out, "sig")
	out = append(out, 0x86)
	out = verifC42Bin(out, "p", v.p[:])
	out = verifC42Bin(out, "p1s", v.p1s[:])
	out = verifC42Bin(out, "p2", v.p2[:])
	out = verifC42Bin(out, "p2s", v.p2s[:])
	var zero [64]byte
	out = verifC42Bin(out, "ps", zero[:])
	out = verifC42Bin(out, "s", v.s[:])
	return out
}

// reference packed layout: header {mask, 0}, then the bare values in the order
// pf, per, dig, encdig, oper, oprop, rnd, snd, step, p, p1s, p2, p2s, s.
func verifC42Packed(v *verifC42Vote) []byte {
	m := v.mask
	out := []byte{m, 0}
	out = append(out, v.pf[:]...)
	if m&bitPer != 0 {
		out = append(out, v.per...)
	}
	if m&bitDig != 0 {
		out = append(out, v.dig[:]...)
	}
	if m&bitEncDig != 0 {
		out = append(out, v.encdig[:]...)
	}
	if m&bitOper != 0 {
		out = append(out, v.oper...)
	}
	if m&bitOprop != 0 {
		out = append(out, v.oprop[:]...)
	}
	out = append(out, v.rnd...)
	out = append(out, v.snd[:]...)
	if m&bitStep != 0 {
		out = append(out, v.step...)
	}
	out = append(out, v.p[:]...)
	out = append(out, v.p1s[:]...)
	out = append(out, v.p2[:]...)
	out = append(out, v.p2s[:]...)
	out = append(out, v.s[:]...)
	return out
}

// byte-for-byte equality as ONE condition (no branch per byte)
func verifC42Same(a, b []byte) bool {
	if len(a) != len(b) {
		return false
	}
	var diff byte
	for i := range a {
		diff |= a[i] ^ b[i]
	}
	return diff == 0
}

//verif:harness prop=C42 reach=done,all-fields,bottom-vote,longest unwind=12 budget=200 thorough.budget=6000
func VerifC42StatelessRoundTrip() {
	v := verifC42NewVote(verifC42Forms(vr.Param(0, 1) == 1, false))
	src := verifC42Msgp(v)
	vr.Assert("c42.reference.size", len(src) <= MaxMsgpackVoteSize)
	orig := append([]byte(nil), src...)

	packed, err := NewStatelessEncoder().CompressVote(nil, src)
	vr.Assert("c42.vote-compresses", err == nil)
	if err != nil {
		return
	}
	vr.Assert("c42.packed-size", len(packed) <= MaxCompressedVoteSize && len(packed) < len(src))
	vr.Assert("c42.packed-layout", verifC42Same(packed, verifC42Packed(v)))
	vr.Assert("c42.source-untouched", verifC42Same(src, orig))

	out, err := NewStatelessDecoder().DecompressVote(nil, packed)
	vr.Assert("c42.packed-decompresses", err == nil)
	if err != nil {
		return
	}
	vr.Assert("c42.roundtrip-exact", verifC42Same(out, orig))

	if v.mask == 63 {
		vr.Reach("all-fields")
		if len(src) == MaxMsgpackVoteSize {
			vr.Reach("longest") // the size constants are attained, not just bounds
			vr.Assert("c42.longest-packed", len(packed) == MaxCompressedVoteSize)
		}
	}
	if v.mask&propFieldsMask == 0 {
		vr.Reach("bottom-vote")
	}
	vr.Reach("done")
}

// Arbitrary packed input. The input is assembled from symbolic pieces so that
// the partition of ALL byte strings the decoder distinguishes is enumerated
// rather than its 2^4000 members: the low six header bits (which fields
// follow), the class of the byte found where an integer must start (five
// encodings or not an integer), and the length relative to what those
// announce (one short, exact, one long). Everything else - the two unused
// header bits, the second header byte, every payload byte - is symbolic.
// Reference: the input is well formed iff all integers present are integers
// and the length is exact; then the output is the reference msgpack encoding of
// exactly these values.
//
//verif:harness prop=C42 reach=done,accepted,truncated,trailing,bad-marker,spare-header-bits unwind=12 budget=200 thorough.budget=2400 thorough.paths=200000
func VerifC42DecompressArbitrary() {
	forms := verifC42Forms(false, true)
	v := verifC42NewVote(forms)
	wellFormed := forms[0] != 5
	if v.mask&bitPer != 0 && forms[1] == 5 {
		wellFormed = false
	}
	if v.mask&bitStep != 0 && forms[2] == 5 {
		wellFormed = false
	}
	if v.mask&bitOper != 0 && forms[3] == 5 {
		wellFormed = false
	}
	src := verifC42Packed(v)
	// bits 6 and 7 of the mask byte are not assigned: symbolic in the thorough
	// tier; in the quick tier a concrete value that varies with the other
	// choices (a symbolic mask byte costs a solver call at every field test)
	hi := (v.mask + uint8(forms[0])) & 3
	if vr.Param(0, 1) == 1 {
		hi = vr.U8("hdr0.spare")
		vr.Assume(hi < 4)
	}
	src[0] |= hi << 6
	src[1] = vr.U8("hdr1") // belongs to the stateful layer
	exact := false
	switch vr.Choice("length", 3) {
	case 0:
		src = src[:len(src)-1]
	case 1:
		exact = true
	case 2:
		src = append(src, vr.U8("extra"))
	}
	orig := append([]byte(nil), src...)

	out, err := NewStatelessDecoder().DecompressVote(nil, src) // a panic here is a violation

	vr.Assert("c42.decompress.accepts-exactly-wellformed", (err == nil) == (wellFormed && exact))
	vr.Assert("c42.source-untouched", verifC42Same(src, orig))
	if err != nil {
		vr.Assert("c42.decompress.no-output-on-error", out == nil)
		if !wellFormed {
			vr.Reach("bad-marker")
		} else if len(src) < len(verifC42Packed(v)) {
			vr.Reach("truncated")
		} else {
			vr.Reach("trailing")
		}
		vr.Reach("done")
		return
	}
	vr.Reach("accepted")
	// not a silently different vote: the output is the encoding of the values given
	vr.Assert("c42.decompress.output-is-the-vote", verifC42Same(out, verifC42Msgp(v)))
	vr.Assert("c42.decompress.output-size", len(out) <= MaxMsgpackVoteSize)
	// and compressing it again gives the input back, up to the header bits the
	// stateless layer does not own
	again, err2 := NewStatelessEncoder().CompressVote(nil, out)
	vr.Assert("c42.recompress.ok", err2 == nil)
	if err2 == nil {
		norm := append([]byte(nil), src...)
		norm[0] &= 0x3f
		norm[1] = 0
		vr.Assert("c42.recompress.same-input", verifC42Same(again, norm))
	}
	if src[0]&0xc0 != 0 {
		vr.Reach("spare-header-bits")
	}
	vr.Reach("done")
}

// Short input of any content (every length 0..6, thorough 0..12): an error,
// not a crash. Nothing shorter than 371 bytes is a vote.
//
//verif:harness prop=C42 reach=done,no-header,looks-like-msgpack unwind=16 budget=100 thorough.budget=600
func VerifC42DecompressShort() {
	src := vr.Bytes("src", vr.Param(6, 12))
	out, err := NewStatelessDecoder().DecompressVote(nil, src)
	vr.Assert("c42.short.rejected", err != nil && out == nil)
	if len(src) < 2 {
		vr.Reach("no-header")
	}
	if isLikelyUncompressedMsgpack(src) {
		vr.Reach("looks-like-msgpack")
	}
	vr.Reach("done")
}

// ---------------------------------------------------------------------------

// C42 (stateful layer): the receiver's compression state stays identical to the
// sender's and Decompress(Compress(x)) = x, as ONE INDUCTIVE STEP: encoder and
// decoder start from EQUAL, otherwise arbitrary (symbolic) states and process
// one arbitrary stateless-compressed vote. Since the initial states (all zero)
// are equal, equality after every step follows for every history.
//
// Code under test: (*StatefulEncoder).Compress, (*StatefulDecoder).Decompress,
// statefulReader.*, lruTable.lookup/insert/fetch/..., propWindow.lookup/byRef/
// insertNew, NewStatefulEncoder/Decoder.
//
// The state has four independent parts (three LRU tables, the proposal window,
// lastRnd) handled by consecutive, separate sections of Compress/Decompress.
// A path-enumerating engine multiplies their cases, so the step is checked in
// two harnesses, each making some parts arbitrary and pinning the others:
//   VerifC42StatefulStepTables: the three LRU tables (minimum size 16: 8 buckets
//     of 2 slots, MRU bits) and lastRnd arbitrary, any vote contents; window empty.
//   VerifC42StatefulStepWindow: the proposal window arbitrary (every head 0..6,
//     every size 0..7, any entries), any proposal; tables freshly created.
//
// Preconditions (documented domain):
//   - x is what the StatelessEncoder writes into a fresh buffer for a vote
//     (second header byte 0, spare mask bits 0): msgCompressor passes exactly that.
//   - r.rnd is in its canonical (shortest) msgpack form, as the vote encoder
//     emits it: with delta encoding the decoder re-creates the round with
//     msgp.AppendUint64, so a longer-than-necessary form would not survive (it
//     is not a vote the encoder can produce).
//   - representation invariant of the window: head < 7, size <= 7.

// canonical msgpack unsigned integer of the given form (see verifC42Uint)
func verifC42UintCanonical(label string, form int) []byte {
	b := verifC42Uint(label, form)
	switch form {
	case 1:
		vr.Assume(b[1] >= 0x80)
	case 2:
		vr.Assume(b[1] != 0)
	case 3:
		vr.Assume(b[1]|b[2] != 0)
	case 4:
		vr.Assume(b[1]|b[2]|b[3]|b[4] != 0)
	}
	return b
}

// value of a msgpack unsigned integer (reference decoder)
func verifC42UintValue(b []byte) uint64 {
	if len(b) == 1 {
		return uint64(b[0])
	}
	var x uint64
	for _, c := range b[1:] {
		x = x<<8 | uint64(c)
	}
	return x
}

// The stateful harnesses keep the number of symbolic bytes small (the engine's
// cost per solver call grows with it): a field is a fixed position-dependent
// pattern with symbolic bytes at the listed positions - always the first and
// last byte and every byte whose low bits select the hash bucket. The code under
// test moves and compares these fields as whole arrays, never bytewise.
func verifC42Sparse(label string, p []byte, sym ...int) {
	for i := range p {
		p[i] = byte(i*37 + 11)
	}
	for _, i := range sym {
		p[i] = vr.U8(label)
	}
}

func verifC42SparseAddr(label string, a *addressValue) {
	verifC42Sparse(label, a[:], 0, 8, 16, 24, 31)
}

func verifC42SparsePk(label string, k *pkSigPair) {
	verifC42Sparse(label, k.pk[:], 0, 31)
	verifC42Sparse(label, k.sig[:], 0, 63)
}

// a stateless-compressed vote with sparse symbolic contents
func verifC42SparseVote(mask uint8, forms [4]int) *verifC42Vote {
	v := &verifC42Vote{mask: mask}
	verifC42Sparse("pf", v.pf[:], 0, 79)
	v.rnd = verifC42UintCanonical("rnd", forms[0])
	if mask&bitPer != 0 {
		v.per = verifC42Uint("per", forms[1])
	}
	if mask&bitStep != 0 {
		v.step = verifC42Uint("step", forms[2])
	}
	if mask&bitOper != 0 {
		v.oper = verifC42Uint("oper", forms[3])
	}
	if mask&bitDig != 0 {
		verifC42Sparse("dig", v.dig[:], 0, 31)
	}
	if mask&bitEncDig != 0 {
		verifC42Sparse("encdig", v.encdig[:], 0, 31)
	}
	if mask&bitOprop != 0 {
		verifC42Sparse("oprop", v.oprop[:], 0, 31)
	}
	var a addressValue
	verifC42SparseAddr("snd", &a)
	v.snd = a
	var k pkSigPair
	verifC42SparsePk("pk", &k)
	v.p, v.p1s = k.pk, k.sig
	verifC42SparsePk("pk2", &k)
	v.p2, v.p2s = k.pk, k.sig
	verifC42Sparse("s", v.s[:], 0, 63)
	return v
}

// a vote whose table keys are fixed non-zero constants (LRU part concrete)
func verifC42ConcreteKeys(v *verifC42Vote) {
	for i := range v.snd {
		v.snd[i] = byte(i + 1)
		v.p[i] = byte(i + 2)
		v.p2[i] = byte(i + 3)
	}
	for i := range v.p1s {
		v.p1s[i] = byte(i + 4)
		v.p2s[i] = byte(i + 5)
	}
}

// o := s
func verifC42CopyState(o, s *dynamicTableState) {
	copy(o.sndTable.buckets, s.sndTable.buckets)
	copy(o.sndTable.mru, s.sndTable.mru)
	copy(o.pkTable.buckets, s.pkTable.buckets)
	copy(o.pkTable.mru, s.pkTable.mru)
	copy(o.pk2Table.buckets, s.pk2Table.buckets)
	copy(o.pk2Table.mru, s.pk2Table.mru)
	o.proposalWindow = s.proposalWindow
	o.lastRnd = s.lastRnd
}

func verifC42SameLRU[K comparable](a, b *lruTable[K]) bool {
	if a.numBuckets != b.numBuckets || len(a.buckets) != len(b.buckets) || len(a.mru) != len(b.mru) {
		return false
	}
	same := true
	for i := range a.buckets {
		if a.buckets[i] != b.buckets[i] {
			same = false
		}
	}
	return same && verifC42Same(a.mru, b.mru)
}

func verifC42SameState(a, b *dynamicTableState) bool {
	return verifC42SameLRU(a.sndTable, b.sndTable) && verifC42SameLRU(a.pkTable, b.pkTable) &&
		verifC42SameLRU(a.pk2Table, b.pk2Table) && a.proposalWindow == b.proposalWindow && a.lastRnd == b.lastRnd
}

// the step itself and everything asserted about it
func verifC42Step(enc *StatefulEncoder, dec *StatefulDecoder, v *verifC42Vote) {
	x := verifC42Packed(v)
	orig := append([]byte(nil), x...)
	rnd := verifC42UintValue(v.rnd)

	c, err := enc.Compress(make([]byte, 0, MaxCompressedVoteSize), x)
	vr.Assert("c42.stateful.compresses", err == nil)
	if err != nil {
		return
	}
	vr.Assert("c42.stateful.never-grows", len(c) <= len(x) && len(c) <= MaxCompressedVoteSize)
	y, err := dec.Decompress(make([]byte, 0, MaxCompressedVoteSize), c)
	vr.Assert("c42.stateful.decompresses", err == nil)
	if err != nil {
		return
	}
	vr.Assert("c42.stateful.roundtrip-exact", verifC42Same(y, orig))
	vr.Assert("c42.stateful.source-untouched", verifC42Same(x, orig))
	vr.Assert("c42.stateful.states-equal-again", verifC42SameState(&enc.dynamicTableState, &dec.dynamicTableState))
	vr.Assert("c42.stateful.lastrnd", enc.lastRnd == rnd && dec.lastRnd == rnd)

	h := c[1]
	if h&hdr1PropMask != 0 {
		vr.Reach("prop-ref")
	} else {
		vr.Reach("prop-literal")
	}
	if h&hdr1SndRef != 0 {
		vr.Reach("snd-ref")
	} else {
		vr.Reach("snd-literal")
	}
	if h&hdr1PkRef != 0 {
		vr.Reach("pk-ref")
	} else {
		vr.Reach("pk-literal")
	}
	if h&hdr1Pk2Ref != 0 {
		vr.Reach("pk2-ref")
	} else {
		vr.Reach("pk2-literal")
	}
	switch h & hdr1RndMask {
	case hdr1RndDeltaSame:
		vr.Reach("rnd-same")
	case hdr1RndDeltaPlus1:
		vr.Reach("rnd-plus")
	case hdr1RndDeltaMinus1:
		vr.Reach("rnd-minus")
	default:
		vr.Reach("rnd-literal")
	}
	vr.Reach("done")
}

func verifC42NewPair() (*StatefulEncoder, *StatefulDecoder) {
	enc, err1 := NewStatefulEncoder(16)
	dec, err2 := NewStatefulDecoder(16)
	vr.Assert("c42.stateful.min-table-size-ok", err1 == nil && err2 == nil)
	return enc, dec
}

var verifC42Masks = []uint8{bitDig | bitEncDig | bitOprop | bitStep, 63, 0, bitPer | bitOper}

// LRU tables. For every bucket b (one path each):
// the two slots of bucket b and the MRU bits are arbitrary in all three tables
// (the other buckets hold fixed values; a key only ever touches the bucket it
// hashes to). The vote's sender, (p,p1s) and (p2,p2s) hash to bucket b: the
// bytes that enter the hash are fixed accordingly (so that the bucket number
// and the 2-byte references are concrete), the other bytes of the pairs are
// arbitrary. Whether a key is found in slot 0, in slot 1 or not at all, and
// which slot is then evicted, is decided by the arbitrary slots and MRU bits.
// Window empty, lastRnd = the vote's round.
//
//verif:harness prop=C42 reach=done,prop-literal,snd-ref,snd-literal,pk-ref,pk-literal,pk2-ref,pk2-literal,rnd-same unwind=16 budget=280 thorough.budget=2400
func VerifC42StatefulStepTables() {
	enc, dec := verifC42NewPair()
	s := &enc.dynamicTableState
	b := vr.Choice("bucket", int(s.sndTable.numBuckets))
	for i := range s.sndTable.buckets {
		for j := 0; j < 2; j++ {
			if i == b {
				verifC42SparseAddr("snd.table", &s.sndTable.buckets[i].slots[j])
				verifC42Sparse("pk.table", s.pkTable.buckets[i].slots[j].pk[:], 0, 31)
				verifC42Sparse("pk.table", s.pkTable.buckets[i].slots[j].sig[:], 0, 63)
				verifC42Sparse("pk2.table", s.pk2Table.buckets[i].slots[j].pk[:], 0, 31)
				verifC42Sparse("pk2.table", s.pk2Table.buckets[i].slots[j].sig[:], 0, 63)
			} else {
				s.sndTable.buckets[i].slots[j][1] = byte(0x80 + 2*i + j)
				s.pkTable.buckets[i].slots[j].pk[1] = byte(0x80 + 2*i + j)
				s.pk2Table.buckets[i].slots[j].sig[1] = byte(0x80 + 2*i + j)
			}
		}
	}
	vr.Fill("snd.mru", s.sndTable.mru)
	vr.Fill("pk.mru", s.pkTable.mru)
	vr.Fill("pk2.mru", s.pk2Table.mru)

	v := verifC42SparseVote(verifC42Masks[vr.Choice("mask", vr.Param(1, 4))], [4]int{vr.Choice("rndform", vr.Param(1, 2)) * 4, 1, 0, 2})
	// keys hashing to bucket b: fixed hash bytes, first byte chosen to land in b
	verifC42Sparse("-", v.snd[:])
	verifC42Sparse("pk", v.p[:], 31)
	verifC42Sparse("pk", v.p1s[:], 63)
	verifC42Sparse("pk2", v.p2[:], 31)
	verifC42Sparse("pk2", v.p2s[:], 63)
	snd := addressValue(v.snd)
	v.snd[0] ^= byte(snd.hash()&7) ^ byte(b)
	pk := pkSigPair{pk: v.p, sig: v.p1s}
	v.p[0] ^= byte(pk.hash()&7) ^ byte(b)
	pk2 := pkSigPair{pk: v.p2, sig: v.p2s}
	v.p2[0] ^= byte(pk2.hash()&7) ^ byte(b)
	s.lastRnd = verifC42UintValue(v.rnd)
	verifC42CopyState(&dec.dynamicTableState, s)

	verifC42Step(enc, dec, v)
}

// Round delta encoding: lastRnd arbitrary, the vote's round arbitrary in each
// of the five canonical encodings; tables fresh, window empty.
//
//verif:harness prop=C42 reach=done,rnd-same,rnd-plus,rnd-minus,rnd-literal unwind=16 budget=100 thorough.budget=600
func VerifC42StatefulStepRound() {
	enc, dec := verifC42NewPair()
	enc.lastRnd = vr.U64("lastRnd")
	dec.lastRnd = enc.lastRnd
	v := verifC42SparseVote(verifC42Masks[vr.Choice("mask", vr.Param(1, 4))], [4]int{vr.Choice("rndform", 5), 1, 0, 2})
	verifC42ConcreteKeys(v)
	verifC42Step(enc, dec, v)
}

// Proposal window: every head 0..6 (quick tier: 0, 3, 6) and size 0..7, arbitrary entries, arbitrary
// proposal in the vote; tables fresh, lastRnd = the vote's round.
//
//verif:harness prop=C42 reach=done,prop-ref,prop-literal,window-evicts,window-wraps,bottom-ref unwind=16 budget=280 thorough.budget=8000
func VerifC42StatefulStepWindow() {
	enc, dec := verifC42NewPair()
	w := &enc.proposalWindow
	if vr.Param(0, 1) == 0 {
		w.head = []int{0, 3, 6}[vr.Choice("win.head", 3)] // quick tier
	} else {
		w.head = vr.Choice("win.head", proposalWindowSize)
	}
	w.size = vr.Choice("win.size", proposalWindowSize+1)
	// digests: zero except a symbolic first and last byte (zero background so
	// that the empty proposal of a bottom vote can be in the window as well)
	ends := func(label string, p *[digestSize]byte) {
		*p = [digestSize]byte{}
		p[0], p[digestSize-1] = vr.U8(label), vr.U8(label)
	}
	for i := range w.entries {
		e := &w.entries[i]
		ends("win.dig", &e.dig)
		ends("win.encdig", &e.encdig)
		ends("win.oprop", &e.oprop)
		e.operEnc[0], e.operEnc[1], e.operEnc[2] = vr.U8("win.oper"), vr.U8("win.oper"), vr.U8("win.oper")
		e.operLen = vr.U8("win.operlen")
		e.mask = vr.U8("win.mask")
	}
	v := verifC42SparseVote(verifC42Masks[vr.Choice("mask", vr.Param(3, 4))], [4]int{0, 1, 0, 2})
	if v.mask&bitDig != 0 {
		ends("dig", &v.dig)
	}
	if v.mask&bitEncDig != 0 {
		ends("encdig", &v.encdig)
	}
	if v.mask&bitOprop != 0 {
		ends("oprop", &v.oprop)
	}
	verifC42ConcreteKeys(v)
	enc.lastRnd = verifC42UintValue(v.rnd)
	verifC42CopyState(&dec.dynamicTableState, &enc.dynamicTableState)
	if w.size == proposalWindowSize {
		vr.Reach("window-evicts")
	}
	if w.head+w.size > proposalWindowSize {
		vr.Reach("window-wraps")
	}
	verifC42Step(enc, dec, v)
	if v.mask&propFieldsMask == 0 && enc.proposalWindow.size == w.size && w.size < proposalWindowSize {
		vr.Reach("bottom-ref") // the empty proposal was found in the window (nothing inserted)
	}
}

// canonical (shortest) msgpack encoding of x (reference encoder)
func verifC42EncodeUint(x uint64) []byte {
	switch {
	case x < 1<<7:
		return []byte{byte(x)}
	case x < 1<<8:
		return []byte{msgpUint8, byte(x)}
	case x < 1<<16:
		return []byte{msgpUint16, byte(x >> 8), byte(x)}
	case x < 1<<32:
		return []byte{msgpUint32, byte(x >> 24), byte(x >> 16), byte(x >> 8), byte(x)}
	}
	return []byte{msgpUint64, byte(x >> 56), byte(x >> 48), byte(x >> 40), byte(x >> 32), byte(x >> 24), byte(x >> 16), byte(x >> 8), byte(x)}
}

// Arbitrary stateful input to the decoder: no crash, invalid references are
// rejected, and what is accepted decodes to exactly the values the references
// denote in the receiver's state (reference decoder written here).
// State: tables with fixed pairwise different contents, a window of size 3 or,
// for proposal references, any size 0..7 (head 5, so that it wraps) with fixed different entries, lastRnd
// arbitrary. Input: assembled from pieces; each dimension of the second header
// byte is enumerated completely, the others at "literal" meanwhile:
//
//	proposal reference 0..7 (against every window size),
//	round encoding literal / +1 / -1 / same (lastRnd arbitrary: overflow, underflow),
//	sender / (p,p1s) / (p2,p2s) as 16-bit table references with ARBITRARY ids,
//
// each with the exact length, one byte short and one byte long.
//
//verif:harness prop=C42 reach=done,accepted,bad-prop-ref,bad-table-ref,round-overflow,round-underflow,truncated,trailing unwind=16 budget=280 thorough.budget=2400
func VerifC42StatefulDecodeArbitrary() {
	_, dec := verifC42NewPair()
	s := &dec.dynamicTableState
	for i := range s.sndTable.buckets {
		for j := 0; j < 2; j++ {
			tag := byte(0x80 + 2*i + j)
			verifC42Sparse("-", s.sndTable.buckets[i].slots[j][:])
			s.sndTable.buckets[i].slots[j][1] = tag
			verifC42Sparse("-", s.pkTable.buckets[i].slots[j].pk[:])
			verifC42Sparse("-", s.pkTable.buckets[i].slots[j].sig[:])
			s.pkTable.buckets[i].slots[j].pk[1] = tag
			verifC42Sparse("-", s.pk2Table.buckets[i].slots[j].pk[:])
			verifC42Sparse("-", s.pk2Table.buckets[i].slots[j].sig[:])
			s.pk2Table.buckets[i].slots[j].sig[1] = tag
		}
	}
	w := &s.proposalWindow
	w.head = 5
	w.size = 3 // every size in the proposal-reference dimension below
	for i := range w.entries {
		e := &w.entries[i]
		e.mask = verifC42Masks[i%4] & propFieldsMask
		verifC42Sparse("-", e.dig[:])
		verifC42Sparse("-", e.encdig[:])
		verifC42Sparse("-", e.oprop[:])
		e.dig[1], e.encdig[1], e.oprop[1] = byte(i), byte(i), byte(i)
		if e.mask&bitOper != 0 {
			e.operEnc[0], e.operEnc[1], e.operLen = msgpUint8, byte(0x90+i), 2
		}
	}
	lastRnd := vr.U64("lastRnd")
	s.lastRnd = lastRnd

	// the input
	propRef, rndMode, refs := 0, int(hdr1RndLiteral), 0
	switch vr.Choice("dimension", 3) {
	case 0:
		propRef = vr.Choice("propref", 8)
		w.size = vr.Choice("win.size", proposalWindowSize+1)
	case 1:
		rndMode = 1 + vr.Choice("rndmode", 3)
	case 2:
		refs = []int{1, 2, 4, 7}[vr.Choice("refs", 4)] // bit 0 snd, bit 1 pk, bit 2 pk2
	}
	v := verifC42SparseVote(verifC42Masks[vr.Choice("mask", vr.Param(1, 2))], [4]int{vr.Choice("rndform", vr.Param(1, 5)) * vr.Param(2, 1), 1, 0, 2})
	hdr1 := byte(rndMode) | byte(propRef)<<hdr1PropShift
	var sndID, pkID, pk2ID uint16
	in := []byte{v.mask, 0}
	in = append(in, v.pf[:]...)
	in = append(in, v.per...)
	if propRef == 0 {
		if v.mask&bitDig != 0 {
			in = append(in, v.dig[:]...)
		}
		if v.mask&bitEncDig != 0 {
			in = append(in, v.encdig[:]...)
		}
		in = append(in, v.oper...)
		if v.mask&bitOprop != 0 {
			in = append(in, v.oprop[:]...)
		}
	}
	if rndMode == int(hdr1RndLiteral) {
		in = append(in, v.rnd...)
	}
	if refs&1 != 0 {
		hdr1 |= hdr1SndRef
		sndID = vr.U16("snd.id")
		in = append(in, byte(sndID>>8), byte(sndID))
	} else {
		in = append(in, v.snd[:]...)
	}
	in = append(in, v.step...)
	if refs&2 != 0 {
		hdr1 |= hdr1PkRef
		pkID = vr.U16("pk.id")
		in = append(in, byte(pkID>>8), byte(pkID))
	} else {
		in = append(in, v.p[:]...)
		in = append(in, v.p1s[:]...)
	}
	if refs&4 != 0 {
		hdr1 |= hdr1Pk2Ref
		pk2ID = vr.U16("pk2.id")
		in = append(in, byte(pk2ID>>8), byte(pk2ID))
	} else {
		in = append(in, v.p2[:]...)
		in = append(in, v.p2s[:]...)
	}
	in = append(in, v.s[:]...)
	in[1] = hdr1
	lengthCase := vr.Choice("length", 3)
	switch lengthCase {
	case 0:
		in = in[:len(in)-1]
	case 2:
		in = append(in, vr.U8("extra"))
	}
	exact := lengthCase == 1

	// reference decoder: is the input valid, and what does it denote
	valid := exact
	want := &verifC42Vote{mask: v.mask, pf: v.pf, per: v.per, step: v.step, s: v.s}
	want.rnd, want.snd, want.p, want.p1s, want.p2, want.p2s = v.rnd, v.snd, v.p, v.p1s, v.p2, v.p2s
	wantMask := v.mask & propFieldsMask // fields of the proposal that follow in the output
	want.dig, want.encdig, want.oper, want.oprop = v.dig, v.encdig, v.oper, v.oprop
	if propRef != 0 {
		if propRef > w.size {
			valid = false
			vr.Reach("bad-prop-ref")
		} else {
			// index 1 is the newest entry, index size the oldest (at head)
			e := w.entries[(w.head+w.size-propRef)%proposalWindowSize]
			wantMask = e.mask
			want.dig, want.encdig, want.oprop, want.oper = e.dig, e.encdig, e.oprop, e.operEnc[:e.operLen]
		}
	}
	wantRnd := verifC42UintValue(v.rnd)
	switch rndMode {
	case int(hdr1RndDeltaSame):
		wantRnd = lastRnd
	case int(hdr1RndDeltaPlus1):
		if lastRnd == ^uint64(0) {
			valid = false
			vr.Reach("round-overflow")
		}
		wantRnd = lastRnd + 1
	case int(hdr1RndDeltaMinus1):
		if lastRnd == 0 {
			valid = false
			vr.Reach("round-underflow")
		}
		wantRnd = lastRnd - 1
	}
	if rndMode != int(hdr1RndLiteral) {
		want.rnd = verifC42EncodeUint(wantRnd)
	}
	nIDs := uint16(2 * s.sndTable.numBuckets)
	if refs&1 != 0 {
		if sndID >= nIDs {
			valid = false
			vr.Reach("bad-table-ref")
		} else {
			want.snd = s.sndTable.buckets[sndID>>1].slots[sndID&1]
		}
	}
	if refs&2 != 0 {
		if pkID >= nIDs {
			valid = false
			vr.Reach("bad-table-ref")
		} else {
			k := s.pkTable.buckets[pkID>>1].slots[pkID&1]
			want.p, want.p1s = k.pk, k.sig
		}
	}
	if refs&4 != 0 {
		if pk2ID >= nIDs {
			valid = false
			vr.Reach("bad-table-ref")
		} else {
			k := s.pk2Table.buckets[pk2ID>>1].slots[pk2ID&1]
			want.p2, want.p2s = k.pk, k.sig
		}
	}

	out, err := dec.Decompress(make([]byte, 0, MaxCompressedVoteSize), in) // a panic here is a violation

	vr.Assert("c42.stateful.decode.accepts-exactly-valid", (err == nil) == valid)
	if err != nil {
		vr.Assert("c42.stateful.decode.no-output-on-error", out == nil)
		if lengthCase == 0 {
			vr.Reach("truncated")
		} else if lengthCase == 2 {
			vr.Reach("trailing")
		}
		vr.Reach("done")
		return
	}
	vr.Reach("accepted")
	// the output is the stateless-packed form of exactly the denoted values:
	// header {mask, 0}; proposal fields as the referenced entry has them
	exp := verifC42Packed(&verifC42Vote{mask: v.mask&^propFieldsMask | wantMask, pf: want.pf, per: want.per, oper: want.oper,
		rnd: want.rnd, step: want.step, dig: want.dig, encdig: want.encdig, oprop: want.oprop, snd: want.snd,
		p: want.p, p2: want.p2, p1s: want.p1s, p2s: want.p2s, s: want.s})
	exp[0] = v.mask // the header keeps the sender's mask
	vr.Assert("c42.stateful.decode.output-is-denoted-vote", verifC42Same(out, exp))
	vr.Assert("c42.stateful.decode.lastrnd", dec.lastRnd == wantRnd)
	vr.Reach("done")
}
