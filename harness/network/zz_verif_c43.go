//go:build verif

package network

import (
	"errors"
	"io"

	vr "github.com/algorand/go-algorand/internal/verifrt"
)

// C43 (first half): a peer never hands over a message larger than its tag's
// limit and never allocates more than the configured maximum while reading it,
// however the stream is chunked.
//
// Code under test: MakeLimitedReaderSlurper, (*LimitedReaderSlurper).Read /
// Reset / Size / Bytes / allocateNextBuffer, driven exactly like wsPeer.readLoop
// drives them: Reset(limit); Read(reader); on nil Bytes(); next message. (After
// an error readLoop drops the connection, so no message follows an error.)
//
// The io.Reader is a harness type. Every Read call returns a nondeterministic
// 0 <= n <= len(p) with nondeterministic contents and one of nil / io.EOF / some
// other error. This is the io.Reader contract and nothing more. The reader is a
// ghost too: it records what it delivered (the reference stream) and checks, at
// every call, what the slurper is allowed to do at that moment.
//
// Oracle (independent of the slurper's own counters):
//   delivered  = sum of n over the calls of the current message
//   stream     = concatenation of the p[:n]
//   the result of Read is a function of the reader's answers only:
//     ErrIncomingMsgTooLarge  iff  delivered exceeded a non-zero limit, or the
//                                  message did not fit into maxAllocation bytes
//                                  (the one-byte probe found another byte);
//     nil                     iff  otherwise the reader ended with io.EOF;
//     the reader's error      otherwise.

var errVerifC43Reader = errors.New("verif: underlying reader failed")

const (
	verifC43ErrNil = iota
	verifC43ErrEOF
	verifC43ErrOther
)

type verifC43Reader struct {
	s        *LimitedReaderSlurper
	maxAlloc uint64 // the configured maximum allocation
	limit    uint64 // the limit of the current message (0 = none)
	coarse   bool   // big buffers: n ranges over the boundary values only
	sample   bool   // big buffers: only the first and last byte of a chunk carry data

	callsLeft int

	// ghost state of the current message
	delivered    uint64 // bytes handed out (stored bytes + probe byte)
	stream       []byte // reference copy of the stored bytes (fine mode)
	samplePos    []uint64
	sampleVal    []byte
	exceeded     bool // delivered > limit happened
	probeGotByte bool // the message did not fit the allocation budget
	capAtExceed  uint64
	ended        bool // the reader returned a non-nil error
	lastErr      int
	probes       int
}

// total capacity currently held by the slurper (observation of the real object)
func verifC43Caps(s *LimitedReaderSlurper) uint64 {
	var t uint64
	for i := range s.buffers {
		t += uint64(cap(s.buffers[i]))
	}
	return t
}

func (r *verifC43Reader) Read(p []byte) (int, error) {
	// what the slurper may do at the moment of a read
	vr.Assert("c43.no-read-after-limit-exceeded", !r.exceeded && !r.probeGotByte)
	vr.Assert("c43.no-read-after-reader-ended", !r.ended)
	vr.Assert("c43.read-buffer-nonempty", len(p) >= 1)
	vr.Assert("c43.capacity-within-max", verifC43Caps(r.s) <= r.maxAlloc)
	// Before this call every delivered byte was stored. The space offered to the
	// reader plus what is stored never exceeds the allocation budget; when the
	// budget is used up exactly one probe byte (not stored) is requested.
	probe := r.delivered == r.maxAlloc
	if probe {
		vr.Reach("probe")
		r.probes++
		vr.Assert("c43.probe-is-one-byte", len(p) == 1)
	} else {
		vr.Assert("c43.stored-never-exceeds-max", r.delivered < r.maxAlloc)
		vr.Assert("c43.read-window-within-budget", uint64(len(p)) <= r.maxAlloc-r.delivered)
	}

	// any 0 <= n <= len(p) (one path per value: n is a slice bound)
	var n int
	if r.coarse && len(p) > 4 {
		// 64 KiB steps: the chunk size ranges over the boundary values
		n = [4]int{0, 1, len(p) - 1, len(p)}[vr.Choice("nsel", 4)]
	} else {
		n = vr.Choice("n", len(p)+1)
	}
	if r.sample {
		if n > 0 {
			p[0] = vr.U8("first")
			p[n-1] = vr.U8("last")
			if !probe {
				r.samplePos = append(r.samplePos, r.delivered, r.delivered+uint64(n)-1)
				r.sampleVal = append(r.sampleVal, p[0], p[n-1])
			}
		}
	} else {
		vr.Fill("data", p[:n])
		if !probe {
			r.stream = append(r.stream, p[:n]...)
		}
	}
	r.delivered += uint64(n)
	if probe && n > 0 {
		r.probeGotByte = true
	}
	if !probe && r.limit > 0 && r.delivered > r.limit {
		r.exceeded = true
		r.capAtExceed = verifC43Caps(r.s)
	}

	r.callsLeft--
	ek := verifC43ErrEOF
	if r.callsLeft > 0 {
		ek = vr.Choice("err", 3)
	} else {
		ek = 1 + vr.Choice("lasterr", 2) // bounded run: the stream ends here
	}
	r.lastErr = ek
	switch ek {
	case verifC43ErrEOF:
		r.ended = true
		return n, io.EOF
	case verifC43ErrOther:
		r.ended = true
		return n, errVerifC43Reader
	}
	return n, nil
}

func (r *verifC43Reader) newMessage(limit uint64) {
	r.limit = limit
	r.delivered = 0
	r.stream = nil
	r.samplePos, r.sampleVal = nil, nil
	r.exceeded, r.probeGotByte, r.ended = false, false, false
	r.capAtExceed = 0
	r.probes = 0
}

// one message, the way readLoop reads it; returns true if it was delivered
func verifC43Message(s *LimitedReaderSlurper, r *verifC43Reader, limit uint64) bool {
	s.Reset(limit)
	r.newMessage(limit)
	// Reset releases everything but the base buffer and forgets the old message
	vr.Assert("c43.reset.empty", s.Size() == 0 && len(s.Bytes()) == 0)
	vr.Assert("c43.reset.releases-extra-buffers", verifC43Caps(s) == uint64(cap(s.buffers[0])))
	vr.Assert("c43.budget-accounting", s.remainedUnallocatedSpace+verifC43Caps(s) == r.maxAlloc)

	err := s.Read(r)

	vr.Assert("c43.capacity-within-max", verifC43Caps(s) <= r.maxAlloc)
	vr.Assert("c43.budget-accounting", s.remainedUnallocatedSpace+verifC43Caps(s) == r.maxAlloc)
	if verifC43Caps(s) > uint64(cap(s.buffers[0])) {
		vr.Reach("extra-buffer")
	}
	switch {
	case r.exceeded:
		vr.Reach("toolarge-limit")
		vr.Assert("c43.limit-exceeded-is-reported", err == ErrIncomingMsgTooLarge)
		vr.Assert("c43.no-allocation-after-limit-exceeded", verifC43Caps(s) == r.capAtExceed)
	case r.probeGotByte:
		vr.Reach("toolarge-probe")
		vr.Assert("c43.over-budget-is-reported", err == ErrIncomingMsgTooLarge)
		vr.Assert("c43.single-probe", r.probes >= 1)
	case r.lastErr == verifC43ErrEOF:
		vr.Reach("delivered")
		// a message within its limit and within the budget is not refused
		vr.Assert("c43.fitting-message-accepted", err == nil)
	default:
		vr.Reach("reader-error")
		vr.Assert("c43.reader-error-propagated", err == errVerifC43Reader)
	}
	if err != nil {
		return false
	}
	// delivered to the handler: size, limit, content
	vr.Assert("c43.ended-at-eof", r.ended && r.lastErr == verifC43ErrEOF)
	vr.Assert("c43.size-is-bytes-read", s.Size() == r.delivered)
	vr.Assert("c43.delivered-within-limit", limit == 0 || r.delivered <= limit)
	vr.Assert("c43.delivered-within-max", r.delivered <= r.maxAlloc)
	out := s.Bytes()
	vr.Assert("c43.bytes-length", uint64(len(out)) == r.delivered)
	if uint64(len(out)) == r.delivered {
		var diff byte
		if r.sample {
			for i, pos := range r.samplePos {
				diff |= out[pos] ^ r.sampleVal[i]
			}
		} else {
			for i := range r.stream {
				diff |= out[i] ^ r.stream[i]
			}
		}
		vr.Assert("c43.bytes-in-order", diff == 0)
	}
	return true
}

// calls1 reads are available to the first message; if it is delivered and
// calls2 > 0 a second message follows on the same slurper with calls2 reads.
func verifC43Run(base, maxAlloc uint64, coarse bool, calls1, calls2 int) {
	s := MakeLimitedReaderSlurper(base, maxAlloc)
	r := &verifC43Reader{s: s, maxAlloc: maxAlloc, coarse: coarse, sample: coarse, callsLeft: calls1}
	vr.Assert("c43.capacity-within-max", verifC43Caps(s) <= maxAlloc)
	if verifC43Message(s, r, vr.U64("limit1")) && calls2 > 0 {
		vr.Reach("second-message")
		r.callsLeft = calls2
		verifC43Message(s, r, vr.U64("limit2"))
	}
	vr.Reach("done")
}

func verifC43SmallShape(bound uint64) (base, maxAlloc uint64) {
	base = vr.U64("base")
	maxAlloc = vr.U64("max")
	vr.Assume(base <= bound)
	vr.Assume(maxAlloc <= bound)
	return
}

// Small allocations, everything arbitrary: base and max allocation in 0..3
// (0..4 thorough; base may exceed max, the constructor clips it), any 64-bit
// limit, any chunking (every n in 0..len(p)), any contents, one message of up
// to 4 (6) reads.
//
//verif:harness prop=C43 reach=done,probe,toolarge-limit,toolarge-probe,delivered,reader-error,extra-buffer unwind=12 budget=200 thorough.budget=2400
func VerifC43SlurperSmall() {
	base, maxAlloc := verifC43SmallShape(uint64(vr.Param(3, 4)))
	verifC43Run(base, maxAlloc, false, vr.Param(4, 6), 0)
}

// The same with two consecutive messages on one slurper (Reset in between, the
// way readLoop reuses it): allocations 0..2 (0..3), up to 2 (3) reads each.
//
//verif:harness prop=C43 reach=done,probe,toolarge-limit,toolarge-probe,delivered,reader-error,extra-buffer,second-message unwind=12 budget=200 thorough.budget=2400
func VerifC43SlurperReuse() {
	base, maxAlloc := verifC43SmallShape(uint64(vr.Param(2, 3)))
	verifC43Run(base, maxAlloc, false, vr.Param(2, 3), vr.Param(2, 3))
}

// Real allocation steps (allocationStep = 64 KiB is a constant of the code):
// base 0..1, max = base + k*64Ki + r with k = 1 (1..2 thorough), r in 0..1, i.e.
// up to two (three) extra buffers. The chunk sizes range over the boundary
// values {0, 1, len(p)-1, len(p)} of each window and only the first and last
// byte of a chunk are compared with Bytes() (the rest is the zero fill). One
// message of up to 4 (6) reads.
//
//verif:harness prop=C43 reach=done,probe,toolarge-limit,toolarge-probe,delivered,reader-error,extra-buffer unwind=12 budget=200 thorough.budget=2400 thorough.paths=300000
func VerifC43SlurperSteps() {
	base := uint64(vr.Choice("base", 2))
	k := uint64(1 + vr.Choice("k", vr.Param(1, 2)))
	rem := uint64(vr.Choice("rem", 2))
	verifC43Run(base, base+k*allocationStep+rem, true, vr.Param(4, 6), 0)
}
