//go:build verif

package network

import (
	"github.com/algorand/go-algorand/crypto"
	vr "github.com/algorand/go-algorand/internal/verifrt"
)

// C43 (second half): once a message was let through, the same message is not
// let through again within the filter's retention window.
//
// Code under test: makeMessageFilter, (*messageFilter).CheckDigest / find, at
// digest level (CheckIncomingMessage = keyed hash + CheckDigest; wsPeer calls
// it with add=true, promote=true and drops the message when it returns true).
//
// Bounded model check from the EMPTY filter over every sequence of L adding
// calls CheckDigest(d, true, promote) on three arbitrary pairwise different
// digests, for every bucket count B in 2..3 and bucket size S in 1..2 (1..3).
// After every call all three digests are queried with add=false.
//
// Reference model (arithmetic on two counters, no buckets, no maps). Call
// "insertion" an adding call that puts its digest into the newest bucket: the
// digest was absent, or it was present in an older bucket and promote was set.
//   T       = number of insertions so far
//   ins[d]  = index (1-based) of the last insertion of d, 0 = never
// The i-th insertion belongs to generation (i-1)/S; the generation being filled
// after T insertions is T/S; the filter keeps the B newest generations:
//   present(d)  <=>  ins[d] != 0  and  T/S - (ins[d]-1)/S < B
// The harness asserts that every answer of the filter EQUALS present(d). The
// retention window in the property's words follows from it and is asserted
// separately: a digest is reported present as long as fewer than (B-1)*S
// insertions of other digests followed its own last insertion (the bound is
// tight: it is reached when the digest was the one that filled its bucket).
// Note that what ages a digest is insertions, not distinct digests: with
// promotion the same two other digests, re-sent alternately, age it as well.

// the nonce only keys the hash in CheckIncomingMessage; irrelevant at digest level
func verifC43RandBytes(buf []byte) {}

const verifC43Digests = 3

//verif:harness prop=C43 reach=done,duplicate-suppressed,rotated-out,promoted,second-rotation,evicted-at-bound unwind=16 budget=200 thorough.budget=2400 thorough.paths=400000
//verif:stub github.com/algorand/go-algorand/crypto.RandBytes = verifC43RandBytes
func VerifC43FilterRetention() {
	L := vr.Param(5, 6)
	B := 2 + vr.Choice("buckets", 2)
	S := 1 + vr.Choice("bucketsize", vr.Param(2, 3))

	// three arbitrary, pairwise different digests
	var dg [verifC43Digests]crypto.Digest
	for i := range dg {
		vr.Fill("digest", dg[i][:2])
	}
	vr.Assume(dg[0] != dg[1])
	vr.Assume(dg[0] != dg[2])
	vr.Assume(dg[1] != dg[2])

	f := makeMessageFilter(B, S)

	// reference
	T := 0
	var ins [verifC43Digests]int
	present := func(d int) bool { return ins[d] != 0 && T/S-(ins[d]-1)/S < B }

	for k := 0; k < L; k++ {
		d := vr.Choice("op.digest", verifC43Digests)
		promote := vr.Choice("op.promote", 2) == 1

		want := present(d)
		inTop := want && (ins[d]-1)/S == T/S
		got := f.CheckDigest(dg[d], true, promote)
		vr.Assert("c43.filter.add-reports-presence-exactly", got == want)
		if got {
			vr.Reach("duplicate-suppressed")
		}
		if !want {
			if ins[d] != 0 {
				vr.Reach("rotated-out") // seen before, aged out, let through again
			}
			T++
			ins[d] = T
		} else if promote && !inTop {
			vr.Reach("promoted")
			T++
			ins[d] = T
		}
		if T/S >= 2 {
			vr.Reach("second-rotation")
		}

		for x := 0; x < verifC43Digests; x++ {
			q := f.CheckDigest(dg[x], false, false)
			vr.Assert("c43.filter.query-exact", q == present(x))
			// the retention window, in the property's words
			if ins[x] != 0 && T-ins[x] < (B-1)*S {
				vr.Assert("c43.filter.retained-within-window", q)
			}
			if ins[x] != 0 && T-ins[x] == (B-1)*S && !q {
				vr.Reach("evicted-at-bound") // the window is tight
			}
			// never reports a digest it was never given
			if ins[x] == 0 {
				vr.Assert("c43.filter.no-false-positive", !q)
			}
		}
	}
	vr.Reach("done")
}
