//go:build verif

package eval

import (
	"github.com/algorand/go-algorand/config"
	"github.com/algorand/go-algorand/data/basics"
	"github.com/algorand/go-algorand/data/bookkeeping"
	vr "github.com/algorand/go-algorand/internal/verifrt"
	"github.com/algorand/go-algorand/ledger/ledgercore"
)

// C23: application storage accounting matches stored state.
//
// Part 1 (boxes): the real roundCowState.NewBox / SetBox / DelBox / GetBox (with
// kvGet / kvPut / kvDel and the account Get / Put underneath) run over a parent
// ledger whose kv store holds the box under test or not, and whose account
// records are arbitrary. A ghost copy of the box (exists, value) and exact-integer
// ghost counters say what the app account's TotalBoxes / TotalBoxBytes must be
// after every operation.
//
// Part 2 (schema): the real setKey / delKey (with getKey, ensureStorageDelta,
// updateCounts, checkCounts) run over a parent with arbitrary storage counts,
// schema limits and stored keys; a ghost copy of the keys says what the recorded
// counts must be, and they must never exceed the schema.

// verifC23Parent is the nondeterministic ledger below the cow: verifParent plus
// a kv store with (at most) one box, and one application storage.
type verifC23Parent struct {
	*verifParent

	boxKey string // full kv key ("bx:" + app id + name)
	boxHas bool
	boxVal []byte

	stAddr      basics.Address
	stApp       basics.AppIndex
	stGlobal    bool
	stAllocated bool
	stCounts    basics.StateSchema
	stLimits    basics.StateSchema
	stKey       [2]string
	stHas       [2]bool
	stVal       [2]basics.TealValue
}

func (p *verifC23Parent) kvGet(key string) ([]byte, bool, error) {
	if p.boxHas && key == p.boxKey {
		return p.boxVal, true, nil
	}
	return nil, false, nil
}

func (p *verifC23Parent) isStorage(addr basics.Address, aidx basics.AppIndex, global bool) bool {
	return addr == p.stAddr && aidx == p.stApp && global == p.stGlobal
}

func (p *verifC23Parent) allocated(addr basics.Address, aidx basics.AppIndex, global bool) (bool, error) {
	if !p.isStorage(addr, aidx, global) {
		return false, nil
	}
	return p.stAllocated, nil
}

func (p *verifC23Parent) getStorageCounts(addr basics.Address, aidx basics.AppIndex, global bool) (basics.StateSchema, error) {
	if !p.isStorage(addr, aidx, global) {
		return basics.StateSchema{}, nil
	}
	return p.stCounts, nil
}

func (p *verifC23Parent) getStorageLimits(addr basics.Address, aidx basics.AppIndex, global bool) (basics.StateSchema, error) {
	if !p.isStorage(addr, aidx, global) {
		return basics.StateSchema{}, nil
	}
	return p.stLimits, nil
}

func (p *verifC23Parent) getKey(addr basics.Address, aidx basics.AppIndex, global bool, key string, accountIdx uint64) (basics.TealValue, bool, error) {
	if !p.isStorage(addr, aidx, global) {
		return basics.TealValue{}, false, nil
	}
	for i := 0; i < 2; i++ {
		if p.stHas[i] && key == p.stKey[i] {
			return p.stVal[i], true, nil
		}
	}
	return basics.TealValue{}, false, nil
}

func verifC23Cow(p *verifC23Parent, proto config.ConsensusParams) *roundCowState {
	var hdr bookkeeping.BlockHeader
	hdr.Round = basics.Round(vr.U64("round"))
	return makeRoundCowState(p, hdr, proto, 0, ledgercore.AccountTotals{}, 0)
}

// ---------------------------------------------------------------------------
// Part 1: boxes

const (
	verifC23New = 0
	verifC23Set = 1
	verifC23Del = 2
)

// ghost state of the box under test and of the app account's counters
type verifC23Box struct {
	exists bool
	val    []byte
	boxes  vr.Z // what TotalBoxes must be
	bytes  vr.Z // what TotalBoxBytes must be
}

type verifC23BoxEnv struct {
	cs      *roundCowState
	proto   config.ConsensusParams
	app     basics.AppIndex
	name    string
	appAddr basics.Address
	acct0   ledgercore.AccountData // the app account's record in the parent
	g       verifC23Box
}

func verifC23SameBytes(a, b []byte) bool { return string(a) == string(b) }

// verifC23BoxSetup: arbitrary app id, box name, app account; the box is present
// in the parent's kv store (with an arbitrary value) or absent.
func verifC23BoxSetup(maxName, maxVal int) *verifC23BoxEnv {
	e := &verifC23BoxEnv{}
	e.proto.MaxAppKeyLen = int(vr.U8("proto.maxappkeylen"))
	e.proto.MaxBoxSize = vr.U64("proto.maxboxsize")
	e.app = basics.AppIndex(vr.U64("app"))
	e.name = vr.String("name", maxName)
	e.appAddr = verifAddr(1)

	base := verifMakeParent()
	p := &verifC23Parent{verifParent: base}
	p.boxKey = verifC23BoxKey(e.app, e.name)
	p.boxHas = vr.Bool("present")
	e.acct0 = base.accts[1]
	// nobody can pay the minimum balance for 2^62 boxes or box bytes (2500 + 400
	// per byte microalgos each, 10^16 microalgos exist): the saturating
	// arithmetic in NewBox is never exercised
	vr.Assume(e.acct0.TotalBoxes < 1<<62)
	vr.Assume(e.acct0.TotalBoxBytes < 1<<62)
	if p.boxHas {
		p.boxVal = vr.Bytes("old", maxVal)
		// induction hypothesis (C23 itself): the recorded counters are the number
		// and total size of the existing boxes, of which this box is one
		vr.Assume(e.acct0.TotalBoxes >= 1)
		vr.Assume(e.acct0.TotalBoxBytes >= uint64(len(e.name)+len(p.boxVal)))
		e.g.exists = true
		e.g.val = p.boxVal
	}
	e.g.boxes = vr.ZU(e.acct0.TotalBoxes)
	e.g.bytes = vr.ZU(e.acct0.TotalBoxBytes)
	e.cs = verifC23Cow(p, e.proto)
	return e
}

// the kv key of a box, written independently of apps.MakeBoxKey
func verifC23BoxKey(app basics.AppIndex, name string) string {
	k := []byte{'b', 'x', ':', 0, 0, 0, 0, 0, 0, 0, 0}
	for i := 0; i < 8; i++ {
		k[3+i] = byte(uint64(app) >> (56 - 8*uint(i)))
	}
	return string(k) + name
}

// verifC23BoxCheck compares the cow with the ghost.
func (e *verifC23BoxEnv) check() {
	rec, err := e.cs.Get(e.appAddr, false)
	vr.Assert("c23.box.account-readable", err == nil)
	vr.Assert("c23.box.count-matches", vr.ZU(rec.TotalBoxes).Eq(e.g.boxes))
	vr.Assert("c23.box.bytes-match", vr.ZU(rec.TotalBoxBytes).Eq(e.g.bytes))
	// nothing else in the account record changes
	want := e.acct0
	want.TotalBoxes = rec.TotalBoxes
	want.TotalBoxBytes = rec.TotalBoxBytes
	vr.Assert("c23.box.rest-of-account-untouched", rec == want)
	got, ok, err := e.cs.GetBox(e.app, e.name)
	vr.Assert("c23.box.get-no-error", err == nil)
	vr.Assert("c23.box.get-existence", ok == e.g.exists)
	if e.g.exists {
		vr.Assert("c23.box.get-value", verifC23SameBytes(got, e.g.val))
	}
}

// one operation on the box, with the expected effect on the ghost
func (e *verifC23BoxEnv) step(op int, val []byte) {
	size := vr.ZU(uint64(len(e.name))).Add(vr.ZU(uint64(len(val))))
	switch op {
	case verifC23New:
		err := e.cs.NewBox(e.app, e.name, val, e.appAddr)
		nameOK := len(e.name) >= 1 && len(e.name) <= e.proto.MaxAppKeyLen
		sizeOK := uint64(len(val)) <= e.proto.MaxBoxSize
		if err == nil {
			vr.Reach("created")
			vr.Assert("c23.box.no-double-create", !e.g.exists)
			vr.Assert("c23.box.create-name-valid", nameOK)
			vr.Assert("c23.box.create-size-valid", sizeOK)
			e.g.exists = true
			e.g.val = val
			e.g.boxes = e.g.boxes.Add(vr.ZU(1))
			e.g.bytes = e.g.bytes.Add(size)
		} else {
			vr.Reach("create-rejected")
			if e.g.exists {
				vr.Reach("double-create-rejected")
			}
			vr.Assert("c23.box.create-rejected-for-a-reason", e.g.exists || !nameOK || !sizeOK)
		}
	case verifC23Set:
		err := e.cs.SetBox(e.app, e.name, val)
		if err == nil {
			vr.Reach("replaced")
			vr.Assert("c23.box.replace-needs-box", e.g.exists)
			vr.Assert("c23.box.replace-keeps-size", len(val) == len(e.g.val))
			e.g.val = val
		} else {
			vr.Reach("replace-rejected")
			vr.Assert("c23.box.replace-rejected-for-a-reason", !e.g.exists || len(val) != len(e.g.val))
		}
	case verifC23Del:
		ok, err := e.cs.DelBox(e.app, e.name, e.appAddr)
		vr.Assert("c23.box.delete-no-error", err == nil)
		vr.Assert("c23.box.delete-reports-existence", ok == e.g.exists)
		if ok {
			vr.Reach("deleted")
			old := vr.ZU(uint64(len(e.name))).Add(vr.ZU(uint64(len(e.g.val))))
			e.g.exists = false
			e.g.val = nil
			e.g.boxes = e.g.boxes.Sub(vr.ZU(1))
			e.g.bytes = e.g.bytes.Sub(old)
		} else {
			vr.Reach("missing-delete-rejected")
		}
	}
	// accepted or rejected, the cow now agrees with the ghost (a rejected
	// operation changed nothing)
	e.check()
}

// One operation from a parent state where the box is present or absent.
//verif:harness prop=C23 reach=done,created,double-create-rejected,replaced,replace-rejected,deleted,missing-delete-rejected unwind=10 budget=200 thorough.budget=2400
func VerifC23BoxStep() {
	maxLen := vr.Param(2, 4)
	e := verifC23BoxSetup(maxLen, maxLen)
	e.check()
	op := vr.Choice("op", 3)
	var val []byte
	if op != verifC23Del {
		val = vr.Bytes("value", maxLen)
	}
	e.step(op, val)
	vr.Reach("done")
}

// Two (thorough: three) operations in a row: a later one sees the earlier ones' effect through
// the cow's own kv modifications (create then create, create then delete, delete
// then create, delete then delete, ...).
//verif:harness prop=C23 reach=done,created,double-create-rejected,replaced,replace-rejected,deleted,missing-delete-rejected unwind=10 budget=200 thorough.budget=2400
func VerifC23BoxSequence() {
	maxLen := vr.Param(1, 2)
	e := verifC23BoxSetup(maxLen, maxLen)
	names := [3]string{"value1", "value2", "value3"}
	ops := [3]string{"op1", "op2", "op3"}
	nOps := vr.Param(2, 3)
	for k := 0; k < nOps; k++ {
		op := vr.Choice(ops[k], 3)
		var val []byte
		if op != verifC23Del {
			val = vr.Bytes(names[k], maxLen)
		}
		e.step(op, val)
	}
	vr.Reach("done")
}

// ---------------------------------------------------------------------------
// Part 2: key/value storage against the schema

// ghost: the two tracked keys and the counts the storage delta must record
type verifC23Store struct {
	has    [2]bool
	val    [2]basics.TealValue
	nUint  vr.Z
	nBytes vr.Z
}

// a value an application may try to store: any type tag 0..3 (1 = bytes,
// 2 = uint, 0 and 3 are not value types)
func verifC23TealValue(label string, maxLen int) basics.TealValue {
	var v basics.TealValue
	v.Type = basics.TealType(vr.U8(label + ".type"))
	vr.Assume(v.Type <= 3)
	if v.Type == basics.TealBytesType {
		v.Bytes = vr.String(label+".bytes", maxLen)
	} else {
		v.Uint = vr.U64(label + ".uint")
	}
	return v
}

// a value found in the ledger: a one-byte string or an integer (built without
// branching, so that a stored key costs nothing until the code looks at it)
func verifC23StoredValue(label string) (v basics.TealValue, isUint bool) {
	isUint = vr.Bool(label + ".isuint")
	u := vr.U64(label + ".uint")
	b := string(vr.BytesN(label+".bytes", 1))
	v.Type = basics.TealBytesType
	v.Bytes = b
	if isUint {
		v.Type = basics.TealUintType
		v.Bytes = ""
		v.Uint = u
	}
	return v, isUint
}

// first operation: delete
//verif:harness prop=C23 reach=done,set-new,set-over,set-rejected,over-schema-rejected,deleted,delete-missing,second unwind=10 budget=200 thorough.budget=2400
func VerifC23SchemaDeleteFirst() { verifC23Schema(true) }

// first operation: set
//verif:harness prop=C23 reach=done,set-new,set-over,set-rejected,over-schema-rejected,deleted,delete-missing,second unwind=10 budget=200 thorough.budget=2400
func VerifC23SchemaSetFirst() { verifC23Schema(false) }

func verifC23Schema(deleteFirst bool) {
	maxLen := vr.Param(1, 2)
	var proto config.ConsensusParams
	proto.MaxAppKeyLen = int(vr.U8("proto.maxappkeylen"))
	proto.MaxAppBytesValueLen = int(vr.U8("proto.maxappbytesvaluelen"))
	proto.MaxAppSumKeyValueLens = int(vr.U16("proto.maxappsumkeyvaluelens"))

	p := &verifC23Parent{verifParent: verifMakeParent()}
	p.stAddr = verifAddr(2)
	p.stApp = basics.AppIndex(vr.U64("app"))
	p.stGlobal = vr.Bool("global")
	p.stAllocated = vr.Bool("allocated")
	p.stCounts.NumUint = vr.U64("counts.uint")
	p.stCounts.NumByteSlice = vr.U64("counts.bytes")
	p.stLimits.NumUint = vr.U64("limits.uint")
	p.stLimits.NumByteSlice = vr.U64("limits.bytes")
	// a schema is checked against the consensus maxima when the application is
	// created or updated (64 global / 16 local entries today): the limits are
	// nowhere near the point where the uint64 counters could wrap
	vr.Assume(p.stLimits.NumUint <= 1<<16)
	vr.Assume(p.stLimits.NumByteSlice <= 1<<16)
	// induction hypothesis (C23 itself): the stored state respects its schema
	vr.Assume(p.stCounts.NumUint <= p.stLimits.NumUint)
	vr.Assume(p.stCounts.NumByteSlice <= p.stLimits.NumByteSlice)

	var g verifC23Store
	// two distinct keys (the second one is one byte longer)
	p.stKey[0] = vr.String("key0", maxLen)
	p.stKey[1] = p.stKey[0] + "k"
	haveU, haveB := uint64(0), uint64(0)
	names := [2]string{"stored0", "stored1"}
	for i := 0; i < 2; i++ {
		has := vr.Bool(names[i] + ".present")
		v, isUint := verifC23StoredValue(names[i])
		if !has {
			v = basics.TealValue{}
		}
		if has && isUint {
			haveU++
		}
		if has && !isUint {
			haveB++
		}
		p.stHas[i], p.stVal[i] = has, v
		g.has[i], g.val[i] = has, v
	}
	// the recorded counts count (at least) the keys that are stored
	vr.Assume(p.stCounts.NumUint >= haveU)
	vr.Assume(p.stCounts.NumByteSlice >= haveB)
	g.nUint = vr.ZU(p.stCounts.NumUint)
	g.nBytes = vr.ZU(p.stCounts.NumByteSlice)

	cs := verifC23Cow(p, proto)
	ptr := storagePtr{p.stApp, p.stGlobal}

	opNames := [2]string{"op1", "op2"}
	for k := 0; k < 2; k++ {
		// the first operation addresses key0 without loss of generality (the two
		// keys start from the same arbitrary state); the second either key
		ki := 0
		del := deleteFirst
		if k > 0 {
			ki = vr.Choice(opNames[k]+".key", 2)
			del = vr.Choice(opNames[k]+".delete", 2) == 1
			vr.Reach("second")
		}
		key := p.stKey[ki]
		// what the operation does to the counts, from the ghost's view of the key
		oldU, oldB := uint64(0), uint64(0)
		if g.has[ki] && g.val[ki].Type == basics.TealUintType {
			oldU = 1
		}
		if g.has[ki] && g.val[ki].Type != basics.TealUintType {
			oldB = 1
		}
		if del {
			err := cs.delKey(p.stAddr, p.stApp, p.stGlobal, key, 0)
			if err != nil {
				vr.Assert("c23.schema.delete-rejected-only-unallocated", !p.stAllocated)
				vr.Reach("done")
				return
			}
			vr.Assert("c23.schema.delete-needs-storage", p.stAllocated)
			if g.has[ki] {
				vr.Reach("deleted")
			} else {
				vr.Reach("delete-missing")
			}
			g.nUint = g.nUint.Sub(vr.ZU(oldU))
			g.nBytes = g.nBytes.Sub(vr.ZU(oldB))
			g.has[ki] = false
			g.val[ki] = basics.TealValue{}
		} else {
			v := verifC23TealValue(opNames[k]+".value", maxLen)
			newU, newB := uint64(0), uint64(0)
			if v.Type == basics.TealUintType {
				newU = 1
			}
			if v.Type == basics.TealBytesType {
				newB = 1
			}
			wantU := g.nUint.Sub(vr.ZU(oldU)).Add(vr.ZU(newU))
			wantB := g.nBytes.Sub(vr.ZU(oldB)).Add(vr.ZU(newB))
			err := cs.setKey(p.stAddr, p.stApp, p.stGlobal, key, v, 0)
			if err != nil {
				// a failed write aborts the program; its cow is thrown away
				vr.Reach("set-rejected")
				over := wantU.Gt(vr.ZU(p.stLimits.NumUint)) || wantB.Gt(vr.ZU(p.stLimits.NumByteSlice))
				if over {
					vr.Reach("over-schema-rejected")
				}
				badType := v.Type != basics.TealBytesType && v.Type != basics.TealUintType
				badLen := len(key) > proto.MaxAppKeyLen
				if v.Type == basics.TealBytesType {
					badLen = badLen || len(v.Bytes) > proto.MaxAppBytesValueLen || len(key)+len(v.Bytes) > proto.MaxAppSumKeyValueLens
				}
				vr.Assert("c23.schema.set-rejected-for-a-reason", !p.stAllocated || badType || badLen || over)
				vr.Reach("done")
				return
			}
			vr.Assert("c23.schema.set-needs-storage", p.stAllocated)
			vr.Assert("c23.schema.set-value-type", v.Type == basics.TealBytesType || v.Type == basics.TealUintType)
			vr.Assert("c23.schema.set-key-length", len(key) <= proto.MaxAppKeyLen)
			if v.Type == basics.TealBytesType {
				vr.Assert("c23.schema.set-value-length", len(v.Bytes) <= proto.MaxAppBytesValueLen && len(key)+len(v.Bytes) <= proto.MaxAppSumKeyValueLens)
			}
			if g.has[ki] {
				vr.Reach("set-over")
			} else {
				vr.Reach("set-new")
			}
			g.nUint, g.nBytes = wantU, wantB
			g.has[ki] = true
			g.val[ki] = v
		}

		// after every accepted operation: the storage delta records exactly the
		// ghost's counts, within the (unchanged) schema
		lsd, ok := cs.sdeltas[p.stAddr][ptr]
		vr.Assert("c23.schema.delta-recorded", ok)
		vr.Assert("c23.schema.uint-count-exact", vr.ZU(lsd.counts.NumUint).Eq(g.nUint))
		vr.Assert("c23.schema.bytes-count-exact", vr.ZU(lsd.counts.NumByteSlice).Eq(g.nBytes))
		vr.Assert("c23.schema.limits-unchanged", lsd.maxCounts == p.stLimits)
		vr.Assert("c23.schema.uint-within-schema", g.nUint.Le(vr.ZU(p.stLimits.NumUint)))
		vr.Assert("c23.schema.bytes-within-schema", g.nBytes.Le(vr.ZU(p.stLimits.NumByteSlice)))
		// and a read of the key sees the ghost's value
		got, has, err := cs.getKey(p.stAddr, p.stApp, p.stGlobal, key, 0)
		vr.Assert("c23.schema.read-no-error", err == nil)
		vr.Assert("c23.schema.read-existence", has == g.has[ki])
		if has {
			vr.Assert("c23.schema.read-value", got == g.val[ki])
		}
	}
	// the key that was not written last is still what the ghost says
	for i := 0; i < 2; i++ {
		got, has, err := cs.getKey(p.stAddr, p.stApp, p.stGlobal, p.stKey[i], 0)
		vr.Assert("c23.schema.final-read-no-error", err == nil)
		vr.Assert("c23.schema.final-read-existence", has == g.has[i])
		if has {
			vr.Assert("c23.schema.final-read-value", got == g.val[i])
		}
	}
	vr.Reach("done")
}
