//go:build verif

package eval

import (
	"github.com/algorand/go-algorand/config"
	"github.com/algorand/go-algorand/data/basics"
	vr "github.com/algorand/go-algorand/internal/verifrt"
)

// C18 helper lemma: the contract of roundCowState.autoHeartbeat used by the
// conservation kernels of zz_verif_c18.go, against the REAL function: it returns
// `after` unchanged, except possibly the LastHeartbeat of an account that is
// Online and IncentiveEligible (which becomes round + balance lookback).

//verif:harness prop=C18 reach=done,refreshed,kept unwind=8 budget=200
func VerifC18AutoHeartbeat() {
	var proto config.ConsensusParams
	proto.SeedRefreshInterval = uint64(vr.U16("proto.seedrefreshinterval"))
	proto.SeedLookback = uint64(vr.U16("proto.seedlookback"))
	base := verifMakeParent()
	ev := verifEvaluator(base, proto, basics.Round(vr.U64("round")))
	before, after := verifAccount("before"), verifAccount("after")
	got := ev.state.autoHeartbeat(before, after)
	if got.LastHeartbeat != after.LastHeartbeat {
		vr.Reach("refreshed")
		vr.Assert("c18.heartbeat.only-suspendable-accounts", after.Status == basics.Online && after.IncentiveEligible)
	} else {
		vr.Reach("kept")
	}
	want := after
	want.LastHeartbeat = got.LastHeartbeat
	vr.Assert("c18.heartbeat.nothing-else-changes", got == want)
	vr.Reach("done")
}
