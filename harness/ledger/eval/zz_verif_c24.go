//go:build verif

package eval

import (
	"github.com/algorand/go-algorand/config"
	"github.com/algorand/go-algorand/data/basics"
	vr "github.com/algorand/go-algorand/internal/verifrt"
)

// C24: fees and proposer payouts stay within their limits.

// A group is accepted only if its fees cover ceil(minFee * usage / 1e6).
//verif:harness prop=C24 reach=done,accepted,rejected
func VerifC24GroupFees() {
	paid, usage, minFee := vr.U64("paid"), vr.U64("usage"), vr.U64("minfee")
	err := CheckGroupFees(basics.MicroAlgos{Raw: paid}, basics.Micros(usage), basics.MicroAlgos{Raw: minFee})
	// exact requirement: the smallest integer fee with fee*1e6 >= minFee*usage
	need := vr.ZU(minFee).Mul(vr.ZU(usage))
	covered := vr.ZU(paid).Mul(vr.ZU(1000000)).Ge(need)
	if err == nil {
		vr.Assert("c24.fees.accepted-only-if-covered", covered)
		vr.Reach("accepted")
	} else {
		// rejected groups are exactly the under-paying ones, or requirements that do not fit in 64 bits
		overflow := need.Gt(vr.ZU(^uint64(0)).Mul(vr.ZU(1000000)))
		vr.Assert("c24.fees.rejected-only-if-short", !covered || overflow)
		vr.Reach("rejected")
	}
	vr.Reach("done")
}

func verifPayoutProto() config.ConsensusParams {
	var proto config.ConsensusParams
	proto.Payouts.Enabled = vr.Bool("payouts.enabled")
	proto.Payouts.Percent = vr.U64("payouts.percent")
	vr.Assume(proto.Payouts.Percent <= 100) // NewPercent's validity predicate
	proto.MinBalance = vr.U64("proto.minbalance")
	proto.SchemaMinBalancePerEntry = vr.U64("proto.schemaentry")
	proto.SchemaUintMinBalance = vr.U64("proto.schemauint")
	proto.SchemaBytesMinBalance = vr.U64("proto.schemabytes")
	proto.AppFlatParamsMinBalance = vr.U64("proto.appflatparams")
	proto.AppFlatOptInMinBalance = vr.U64("proto.appflatoptin")
	proto.BoxFlatMinBalance = vr.U64("proto.boxflat")
	proto.BoxByteMinBalance = vr.U64("proto.boxbyte")
	return proto
}

// A block's payout claim is accepted only within  percent*fees/100 + bonus  and
// only up to what the fee sink holds above its minimum balance.
//verif:harness prop=C24 reach=done,accepted,disabled unwind=6
func VerifC24Payout() {
	proto := verifPayoutProto()
	p := verifMakeParent()
	ev := verifEvaluator(p, proto, basics.Round(vr.U64("round")))
	ev.generate = vr.Bool("generate")
	sinkIdx := 1 + vr.Choice("sink", 2)
	ev.block.FeeSink = verifAddr(sinkIdx)
	ev.block.BlockHeader.Proposer = verifPickAddr("proposer")
	ev.block.FeesCollected.Raw = vr.U64("hdr.feescollected")
	ev.block.Bonus.Raw = vr.U64("hdr.bonus")
	ev.block.BlockHeader.ProposerPayout.Raw = vr.U64("hdr.payout")
	ev.state.feesCollected.Raw = vr.U64("tally.feescollected")

	err := ev.validateForPayouts()
	if err != nil {
		vr.Reach("done")
		return
	}
	if !proto.Payouts.Enabled {
		vr.Assert("c24.payout.disabled-all-zero", ev.block.FeesCollected.Raw == 0 && ev.block.BlockHeader.Proposer.IsZero() && ev.block.BlockHeader.ProposerPayout.Raw == 0)
		vr.Reach("disabled")
		vr.Reach("done")
		return
	}
	vr.Reach("accepted")
	payout := vr.ZU(ev.block.BlockHeader.ProposerPayout.Raw)
	fees := vr.ZU(ev.block.FeesCollected.Raw)
	vr.Assert("c24.payout.fees-match-tally", ev.block.FeesCollected.Raw == ev.state.feesCollected.Raw)
	// payout <= floor(percent*fees/100) + bonus   <=>   (payout - bonus)*100 <= percent*fees   (when payout > bonus)
	share := vr.ZU(proto.Payouts.Percent).Mul(fees)
	overBonus := payout.Sub(vr.ZU(ev.block.Bonus.Raw))
	vr.Assert("c24.payout.within-share", overBonus.Mul(vr.ZU(100)).Le(share))
	// never takes the sink below its minimum balance
	sink := p.accts[sinkIdx]
	minb := sink.MinBalance(&proto)
	vr.Assert("c24.payout.sink-keeps-minbalance",
		ev.block.BlockHeader.ProposerPayout.Raw == 0 || vr.ZU(sink.MicroAlgos.Raw).Sub(payout).Ge(vr.ZU(minb.Raw)))
	vr.Reach("done")
}
