//go:build verif

package eval

import (
	"errors"

	"github.com/algorand/go-algorand/config"
	"github.com/algorand/go-algorand/crypto"
	"github.com/algorand/go-algorand/data/basics"
	"github.com/algorand/go-algorand/data/bookkeeping"
	"github.com/algorand/go-algorand/data/transactions"
	vr "github.com/algorand/go-algorand/internal/verifrt"
	"github.com/algorand/go-algorand/ledger/ledgercore"
)

// Shared harness scaffolding for ledger/eval: a roundCowParent whose answers
// are nondeterministic values fixed per address (a function of the address), so
// the evaluator code above it runs against an ARBITRARY ledger state.
//
// Addresses are drawn from a pool of representatives: the code under test only
// compares addresses for equality, uses them as map keys and tests IsZero(), so
// a pool with the zero address and a few distinct non-zero ones exercises every
// equality pattern among the (at most 3-4) addresses a harness uses.

const verifNAddr = 5

func verifAddr(i int) basics.Address {
	var a basics.Address
	if i > 0 {
		a[0] = byte(i)
		a[31] = byte(0x80 + i)
	}
	return a
}

func verifAddrIndex(a basics.Address) int {
	for i := 0; i < verifNAddr; i++ {
		if a == verifAddr(i) {
			return i
		}
	}
	return -1
}

func verifPickAddr(label string) basics.Address {
	return verifAddr(vr.Choice(label, verifNAddr))
}

// verifAccount returns an arbitrary account record (every numeric field symbolic).
func verifAccount(label string) ledgercore.AccountData {
	var d ledgercore.AccountData
	d.Status = basics.Status(vr.U8(label + ".status"))
	vr.Assume(d.Status <= basics.NotParticipating)
	d.MicroAlgos.Raw = vr.U64(label + ".algos")
	d.RewardsBase = vr.U64(label + ".rewardsbase")
	d.RewardedMicroAlgos.Raw = vr.U64(label + ".rewarded")
	d.IncentiveEligible = vr.Bool(label + ".eligible")
	d.TotalAppSchema.NumUint = vr.U64(label + ".schema.uint")
	d.TotalAppSchema.NumByteSlice = vr.U64(label + ".schema.bytes")
	d.TotalExtraAppPages = vr.U32(label + ".extrapages")
	d.TotalAppParams = vr.U64(label + ".appparams")
	d.TotalAppLocalStates = vr.U64(label + ".applocals")
	d.TotalAssetParams = vr.U64(label + ".assetparams")
	d.TotalAssets = vr.U64(label + ".assets")
	d.TotalBoxes = vr.U64(label + ".boxes")
	d.TotalBoxBytes = vr.U64(label + ".boxbytes")
	d.LastProposed = basics.Round(vr.U64(label + ".lastproposed"))
	d.LastHeartbeat = basics.Round(vr.U64(label + ".lastheartbeat"))
	d.VoteID[0] = vr.U8(label + ".votekeybyte") // zero byte = no vote key
	d.VoteFirstValid = basics.Round(vr.U64(label + ".votefirst"))
	d.VoteLastValid = basics.Round(vr.U64(label + ".votelast"))
	d.VoteKeyDilution = vr.U64(label + ".dilution")
	return d
}

var errVerifLookup = errors.New("verif: lookup failed")

type verifParent struct {
	accts      [verifNAddr]ledgercore.AccountData
	failLookup [verifNAddr]bool
	online     [verifNAddr]basics.OnlineAccountData
	stake      basics.MicroAlgos
	stakeErr   bool
	hdrSeed    [32]byte
	hdrProto   string
}

func verifMakeParent() *verifParent {
	p := &verifParent{}
	names := [verifNAddr]string{"acct0", "acct1", "acct2", "acct3", "acct4"}
	for i := 0; i < verifNAddr; i++ {
		p.accts[i] = verifAccount(names[i])
		p.online[i].MicroAlgosWithRewards.Raw = vr.U64(names[i] + ".votingstake")
	}
	p.stake.Raw = vr.U64("onlinestake")
	return p
}

func (p *verifParent) lookup(a basics.Address) (ledgercore.AccountData, error) {
	i := verifAddrIndex(a)
	if i < 0 {
		return ledgercore.AccountData{}, nil
	}
	if p.failLookup[i] {
		return ledgercore.AccountData{}, errVerifLookup
	}
	return p.accts[i], nil
}
func (p *verifParent) lookupAgreement(a basics.Address) (basics.OnlineAccountData, error) {
	i := verifAddrIndex(a)
	if i < 0 {
		return basics.OnlineAccountData{}, nil
	}
	return p.online[i], nil
}
func (p *verifParent) onlineStake() (basics.MicroAlgos, error) {
	if p.stakeErr {
		return basics.MicroAlgos{}, errVerifLookup
	}
	return p.stake, nil
}
func (p *verifParent) lookupAppParams(addr basics.Address, aidx basics.AppIndex, cacheOnly bool) (ledgercore.AppParamsDelta, bool, error) {
	return ledgercore.AppParamsDelta{}, false, nil
}
func (p *verifParent) lookupAssetParams(addr basics.Address, aidx basics.AssetIndex, cacheOnly bool) (ledgercore.AssetParamsDelta, bool, error) {
	return ledgercore.AssetParamsDelta{}, false, nil
}
func (p *verifParent) lookupAppLocalState(addr basics.Address, aidx basics.AppIndex, cacheOnly bool) (ledgercore.AppLocalStateDelta, bool, error) {
	return ledgercore.AppLocalStateDelta{}, false, nil
}
func (p *verifParent) lookupAssetHolding(addr basics.Address, aidx basics.AssetIndex, cacheOnly bool) (ledgercore.AssetHoldingDelta, bool, error) {
	return ledgercore.AssetHoldingDelta{}, false, nil
}
func (p *verifParent) checkDup(basics.Round, basics.Round, transactions.Txid, ledgercore.Txlease) error {
	return nil
}
func (p *verifParent) Counter() uint64 { return 0 }
func (p *verifParent) getCreator(cidx basics.CreatableIndex, ctype basics.CreatableType) (basics.Address, bool, error) {
	return basics.Address{}, false, nil
}
func (p *verifParent) GetStateProofNextRound() basics.Round { return 0 }
func (p *verifParent) BlockHdr(rnd basics.Round) (bookkeeping.BlockHeader, error) {
	var h bookkeeping.BlockHeader
	h.Round = rnd
	h.Seed = p.hdrSeed
	return h, nil
}
func (p *verifParent) getStorageCounts(addr basics.Address, aidx basics.AppIndex, global bool) (basics.StateSchema, error) {
	return basics.StateSchema{}, nil
}
func (p *verifParent) getStorageLimits(addr basics.Address, aidx basics.AppIndex, global bool) (basics.StateSchema, error) {
	return basics.StateSchema{}, nil
}
func (p *verifParent) allocated(addr basics.Address, aidx basics.AppIndex, global bool) (bool, error) {
	return false, nil
}
func (p *verifParent) getKey(addr basics.Address, aidx basics.AppIndex, global bool, key string, accountIdx uint64) (basics.TealValue, bool, error) {
	return basics.TealValue{}, false, nil
}
func (p *verifParent) kvGet(key string) ([]byte, bool, error) { return nil, false, nil }
func (p *verifParent) GetStateProofVerificationContext(basics.Round) (*ledgercore.StateProofVerificationContext, error) {
	return nil, errVerifLookup
}
func (p *verifParent) GenesisHash() crypto.Digest { return crypto.Digest{} }

// verifEvaluator builds a BlockEvaluator around an arbitrary parent state.
func verifEvaluator(p *verifParent, proto config.ConsensusParams, rnd basics.Round) *BlockEvaluator {
	var hdr bookkeeping.BlockHeader
	hdr.Round = rnd
	ev := &BlockEvaluator{validate: true, proto: proto}
	ev.block.BlockHeader = hdr
	ev.state = makeRoundCowState(p, hdr, proto, 0, ledgercore.AccountTotals{}, 0)
	return ev
}
