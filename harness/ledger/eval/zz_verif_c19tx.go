//go:build verif

package eval

import (
	"github.com/algorand/go-algorand/config"
	"github.com/algorand/go-algorand/data/basics"
	"github.com/algorand/go-algorand/data/transactions"
	vr "github.com/algorand/go-algorand/internal/verifrt"
	"github.com/algorand/go-algorand/ledger/ledgercore"
)

// C19 merge lemma, continued (see zz_verif_c19merge.go): transaction ids,
// leases and counters; creatables and the state-proof round.

func verifC19Txid(i int) transactions.Txid {
	var t transactions.Txid
	t[0] = 0xC1
	t[9] = byte(i)
	return t
}

const verifC19NTx = 4 // txid pool: 0..2 may be added, 3 is never added (lease probe)

// ghost: which pool txids a layer holds (in order of addition), and the lease
// (one fixed lease value, one fixed sender)
type verifC19Txs struct {
	order  []int
	lv     [verifC19NTx]basics.Round
	lease  bool
	expiry basics.Round
}

func (g *verifC19Txs) holds(i int) bool {
	for _, o := range g.order {
		if o == i {
			return true
		}
	}
	return false
}

func verifC19Lease() ledgercore.Txlease {
	var l ledgercore.Txlease
	l.Sender = verifAddr(1)
	l.Lease[3] = 7
	return l
}

// one transaction processed the way BlockEvaluator.transaction does: checkDup,
// then addTx. The duplicate / lease verdicts themselves are the subject of C11
// (zz_verif_c11.go); here they only decide whether the transaction is added.
func verifC19AddTx(label string, cow *roundCowState, g *verifC19Txs, i int, withLease bool) bool {
	var tx transactions.Transaction
	tx.LastValid = basics.Round(vr.U64(label + ".lastvalid"))
	tx.Sender = verifAddr(1)
	var txl ledgercore.Txlease
	txl.Sender = tx.Sender
	if withLease {
		tx.Lease = verifC19Lease().Lease
		txl = verifC19Lease()
	}
	if cow.checkDup(0, tx.LastValid, verifC19Txid(i), txl) != nil {
		return false
	}
	cow.addTx(tx, verifC19Txid(i))
	g.order = append(g.order, i)
	g.lv[i] = tx.LastValid
	if withLease {
		g.lease, g.expiry = true, tx.LastValid
	}
	return true
}

// verifC19CheckTxs compares the cow's duplicate verdicts and its Txids map with the
// ghost layers (bottom first).
func verifC19CheckTxs(tag string, cow *roundCowState, p *verifC19Parent, rnd basics.Round, probeLease bool, own *verifC19Txs, layers ...*verifC19Txs) {
	for i := 0; i < verifC19NTx; i++ {
		held := false
		for _, l := range layers {
			if l.holds(i) {
				held = true
			}
		}
		err := cow.checkDup(0, 0, verifC19Txid(i), ledgercore.Txlease{Sender: verifAddr(1)})
		tile, isDup := err.(*ledgercore.TransactionInLedgerError)
		if held {
			vr.Assert(tag+".duplicate-seen", isDup && tile.InBlockEvaluator)
		} else {
			ledgerDup := p.dupHas && verifC19Txid(i) == p.dupTxid
			vr.Assert(tag+".nothing-else-seen", !isDup && (err != nil) == ledgerDup)
		}
	}
	if probeLease {
		// probe with a txid nobody holds; a later layer's lease overrides
		active := false
		for _, l := range layers {
			if l.lease {
				active = rnd <= l.expiry
			}
		}
		err := cow.checkDup(0, 0, verifC19Txid(3), verifC19Lease())
		_, isLease := err.(*ledgercore.LeaseInLedgerError)
		vr.Assert(tag+".lease", isLease == active)
	}
	// the cow's own record: exactly the ghost's transactions, numbered in order of addition
	vr.Assert(tag+".own-count", len(cow.mods.Txids) == len(own.order))
	for k, i := range own.order {
		inc, ok := cow.mods.Txids[verifC19Txid(i)]
		vr.Assert(tag+".own-recorded", ok && inc.LastValid == own.lv[i])
		vr.Assert(tag+".own-position", inc.Intra == uint64(k))
	}
}

//verif:harness prop=C19 reach=done,committed,discarded,added,refused,leased unwind=12 budget=200 thorough.budget=1500
func VerifC19MergeTxns() {
	p := &verifC19Parent{verifParent: verifMakeParent()}
	p.dupHas = vr.Bool("ledger.knows-txid2")
	p.dupTxid = verifC19Txid(2)
	p.counter = vr.U64("ledger.counter")
	var proto config.ConsensusParams
	proto.SupportTransactionLeases = true
	block := verifC19Block(p, proto)
	rnd := block.Round()

	var gb, gc verifC19Txs
	if vr.Bool("block.prior") { // an earlier group holds txid 0, with a lease
		verifC19AddTx("prior", block, &gb, 0, true)
	}
	// counters of the block-level state: fees are bounded by the money supply (10^16
	// microalgos), transaction counts by the ledger's lifetime
	blockFees, childFees := vr.U64("block.fees"), vr.U64("child.fees")
	vr.Assume(blockFees < 1<<62)
	vr.Assume(childFees < 1<<62)
	block.feesCollected.Raw = blockFees
	blockCount := block.txnCount
	vr.Assume(p.counter < 1<<62)

	child := block.child(2)
	child.feesCollected.Raw = childFees
	// up to two transactions: the first with txid 0 (held by the block state if there
	// was an earlier group) or 1; the second with txid 1 or 2 (which the ledger may know);
	// the second one carries the lease (refused while the earlier lease is active)
	n := vr.Choice("ntxns", 3)
	added := uint64(0)
	if n >= 1 {
		if verifC19AddTx("tx0", child, &gc, vr.Choice("tx0.id", 2), false) {
			vr.Reach("added")
			added++
		} else {
			vr.Reach("refused")
		}
	}
	if n >= 2 {
		if verifC19AddTx("tx1", child, &gc, 1+vr.Choice("tx1.id", 2), true) {
			vr.Reach("added")
			vr.Reach("leased")
			added++
		} else {
			vr.Reach("refused")
		}
	}
	verifC19CheckTxs("c19.txns.child-view", child, p, rnd, false, &gc, &gb, &gc)
	verifC19CheckTxs("c19.txns.isolated-before-commit", block, p, rnd, false, &gb, &gb)
	vr.Assert("c19.txns.child-counter", child.Counter() == p.counter+blockCount+added)

	wantFees := blockFees
	if vr.Bool("commit") {
		vr.Reach("committed")
		child.commitToParent()
		for _, i := range gc.order {
			gb.order = append(gb.order, i)
			gb.lv[i] = gc.lv[i]
		}
		if gc.lease {
			gb.lease, gb.expiry = true, gc.expiry
		}
		blockCount += added
		wantFees += childFees
	} else {
		vr.Reach("discarded")
	}
	child.recycle()
	verifC19Clean(child)
	verifC19CheckTxs("c19.txns.after", block, p, rnd, true, &gb, &gb)
	vr.Assert("c19.txns.count-adds-up", block.txnCount == blockCount && block.Counter() == p.counter+blockCount)
	vr.Assert("c19.txns.fees-add-up", block.feesCollected.Raw == wantFees)
	vr.Reach("done")
}

// ---------------------------------------------------------------------------
// creatables and the state-proof round

// ghost: creatable ids 10 and 11, per layer: written?, created (else deleted), creator
type verifC19Creatables struct {
	has     [2]bool
	created [2]bool
	creator [2]basics.Address
}

func verifC19SymAddr(label string) basics.Address {
	x := vr.U8(label)
	vr.Assume(x >= 1)
	vr.Assume(x <= 2)
	var a basics.Address
	a[0] = x
	a[31] = 0x80 + x
	return a
}

func verifC19CreatableWrite(label string, cow *roundCowState, g *verifC19Creatables, k int) {
	created := vr.Bool(label + ".created")
	creator := verifC19SymAddr(label + ".creator")
	cow.mods.AddCreatable(basics.CreatableIndex(10+k), ledgercore.ModifiedCreatable{Ctype: basics.AppCreatable, Created: created, Creator: creator})
	g.has[k], g.created[k], g.creator[k] = true, created, creator
}

func verifC19CheckCreatables(tag string, cow *roundCowState, p *verifC19Parent, layers ...*verifC19Creatables) {
	for k := 0; k < 2; k++ {
		wantOK, want := k == 0 && p.crHas, p.crAddr
		for _, l := range layers {
			if l.has[k] {
				wantOK, want = l.created[k], l.creator[k]
			}
		}
		got, ok, err := cow.getCreator(basics.CreatableIndex(10+k), basics.AppCreatable)
		vr.Assert(tag+".no-error", err == nil)
		vr.Assert(tag+".existence", ok == wantOK)
		if ok && wantOK {
			vr.Assert(tag+".creator", got == want)
		}
	}
}

// the state-proof round a cow reports: the topmost layer that set it (non-zero), else the ledger's
func verifC19WantSP(p *verifC19Parent, layers ...basics.Round) basics.Round {
	r := p.spNext
	for _, l := range layers {
		if l != 0 {
			r = l
		}
	}
	return r
}

//verif:harness prop=C19 reach=done,committed,discarded,overwrote,fresh unwind=12 budget=200 thorough.budget=1500
func VerifC19MergeCreatables() {
	p := &verifC19Parent{verifParent: verifMakeParent()}
	p.crHas = vr.Bool("ledger.knows-app10")
	p.crIdx = 10
	p.crAddr = verifAddr(3)
	p.spNext = basics.Round(vr.U64("ledger.stateproofnext"))
	var proto config.ConsensusParams
	block := verifC19Block(p, proto)

	var gb, gc verifC19Creatables
	if vr.Bool("block.prior") {
		verifC19CreatableWrite("prior", block, &gb, 0)
	}
	// an earlier state-proof transaction may have advanced the round (0 = none did)
	spBlock := basics.Round(vr.U64("block.stateproofnext"))
	block.SetStateProofNextRound(spBlock)

	child := block.child(2)
	n := vr.Choice("nwrites", 3)
	labels := [2]string{"write0", "write1"}
	for k := 0; k < n; k++ {
		i := vr.Choice(labels[k]+".id", 2)
		if gb.has[i] {
			vr.Reach("overwrote")
		} else {
			vr.Reach("fresh")
		}
		verifC19CreatableWrite(labels[k], child, &gc, i)
	}
	spChild := basics.Round(0)
	if vr.Bool("child.stateproof") {
		// apply.StateProof only ever sets  last attested round + StateProofInterval , never 0
		// (SetStateProofNextRound(0) in a child would un-set the block state's value on
		// commit: found by this harness, not reachable)
		spChild = basics.Round(vr.U64("child.stateproofnext"))
		vr.Assume(spChild != 0)
		child.SetStateProofNextRound(spChild)
	}
	verifC19CheckCreatables("c19.creatables.child-view", child, p, &gb, &gc)
	verifC19CheckCreatables("c19.creatables.isolated-before-commit", block, p, &gb)
	vr.Assert("c19.stateproof.child-view", child.GetStateProofNextRound() == verifC19WantSP(p, spBlock, spChild))
	vr.Assert("c19.stateproof.isolated-before-commit", block.GetStateProofNextRound() == verifC19WantSP(p, spBlock))

	if vr.Bool("commit") {
		vr.Reach("committed")
		child.commitToParent()
		for k := 0; k < 2; k++ {
			if gc.has[k] {
				gb.has[k], gb.created[k], gb.creator[k] = true, gc.created[k], gc.creator[k]
			}
		}
		if spChild != 0 {
			spBlock = spChild
		}
	} else {
		vr.Reach("discarded")
	}
	child.recycle()
	verifC19Clean(child)
	verifC19CheckCreatables("c19.creatables.after", block, p, &gb)
	vr.Assert("c19.stateproof.after", block.GetStateProofNextRound() == verifC19WantSP(p, spBlock))
	vr.Reach("done")
}
