//go:build verif

package eval

import (
	"github.com/algorand/go-algorand/config"
	"github.com/algorand/go-algorand/data/basics"
	vr "github.com/algorand/go-algorand/internal/verifrt"
	"github.com/algorand/go-algorand/ledger/ledgercore"
)

// C21 (lemma level): accounts never end a transaction below minimum balance.
//
// Part 1 (this file): the minimum balance formula. AccountData.MinBalance(proto)
// (with ConsensusParams.BalanceRequirements, basics.MinBalance and
// StateSchema.MinBalance underneath) returns min(need, 2^64-1), where
//
//	need = MinBalance                                   (base)
//	     + MinBalance * assets                          (each asset held or created)
//	     + AppFlatParamsMinBalance * created apps
//	     + AppFlatParamsMinBalance * extra program pages
//	     + AppFlatOptInMinBalance * opted-in apps
//	     + SchemaMinBalancePerEntry * (uints + byteslices)
//	     + SchemaUintMinBalance * uints + SchemaBytesMinBalance * byteslices
//	     + BoxFlatMinBalance * boxes + BoxByteMinBalance * box bytes
//
// over the integers; every input is an unconstrained 64-bit value (32 bits for
// the extra pages). Ten saturating operations over nine symbolic 64x64 products
// are not decided in one query by any back end (tried: all time out), so the
// statement is proved in two steps:
//
//   - VerifC21FormulaStructure: the real code with basics.MulSaturate replaced by
//     min(P(a,b), 2^64-1) for an UNINTERPRETED product P. For every such P the
//     code returns min(MinBalance + sum of P over the nine factor pairs, 2^64-1),
//     where the schema-entry pair is (SchemaMinBalancePerEntry, AddSaturate(uints,
//     byteslices)) as the code forms it. In particular for P = the true product
//     (MulSaturate's contract, proved by C45 VerifC45Saturate c45.mulsat).
//     A product is represented by (value if it fits 64 bits, does-not-fit flag)
//     and the exact sum by 64-bit additions with explicit carry conditions (an
//     exact statement: all terms are non-negative, so the total fits 64 bits iff
//     every product fits and no partial sum carries).
//   - VerifC21FormulaEntryTerm: with true products,
//     min(perEntry * AddSaturate(u, b), 2^64-1) = min(perEntry * (u + b), 2^64-1)
//     (and min(A + p, M) = min(A + q, M) whenever min(p, M) = min(q, M), A >= 0).
//
// Part 2 (zz_verif_c21check.go): checkMinBalance; part 3 (zz_verif_c21txn.go):
// eval.transaction always runs it.

func verifC21Proto() config.ConsensusParams {
	var proto config.ConsensusParams
	proto.MinBalance = vr.U64("proto.minbalance")
	proto.AppFlatParamsMinBalance = vr.U64("proto.appflatparams")
	proto.AppFlatOptInMinBalance = vr.U64("proto.appflatoptin")
	proto.SchemaMinBalancePerEntry = vr.U64("proto.schemaentry")
	proto.SchemaUintMinBalance = vr.U64("proto.schemauint")
	proto.SchemaBytesMinBalance = vr.U64("proto.schemabytes")
	proto.BoxFlatMinBalance = vr.U64("proto.boxflat")
	proto.BoxByteMinBalance = vr.U64("proto.boxbyte")
	return proto
}

// an uninterpreted "product" of (a, b): its value when it fits 64 bits, and whether it does not
func verifC21P(a, b uint64) (uint64, bool) {
	return vr.UF64("P.value", a, b), vr.UF64("P.toobig", a, b) != 0
}

// MulSaturate by its contract over the uninterpreted product (no branch)
func verifC21MulSaturateP(a, b uint64) uint64 {
	v, big := vr.UF64("P.value", a, b), vr.UF64("P.toobig", a, b)
	r := ^uint64(0)
	if big == 0 {
		r = v
	}
	return r
}

// basics.AddSaturate(a, b) = min(a+b, 2^64-1), the real function's text without
// the generic helper call (so that the engine turns the conditional into a select)
func verifC21AddSaturate(a, b uint64) uint64 {
	s := a + b
	r := ^uint64(0)
	if s >= a {
		r = s
	}
	return r
}

// exact running sum of non-negative terms: 64-bit value + "still fits 64 bits"
type verifC21Sum struct {
	v    uint64
	fits bool
}

// (values only, no stores and no calls inside the conditionals: the engine turns
// them into selects instead of forking)
func verifC21Add(s verifC21Sum, a, b uint64) verifC21Sum {
	v, big := verifC21P(a, b)
	n := s.v + v
	noCarry := n >= s.v
	fits := s.fits && !big && noCarry
	return verifC21Sum{v: n, fits: fits}
}

//verif:harness prop=C21 reach=done,exact,saturated unwind=8 budget=250 thorough.budget=1500
//verif:stub github.com/algorand/go-algorand/data/basics.MulSaturate = verifC21MulSaturateP
//verif:stub github.com/algorand/go-algorand/data/basics.AddSaturate = verifC21AddSaturate
func VerifC21FormulaStructure() {
	proto := verifC21Proto()
	d := verifAccount("acct")
	got := d.MinBalance(&proto)

	uints, byteslices := d.TotalAppSchema.NumUint, d.TotalAppSchema.NumByteSlice
	need := verifC21Sum{v: proto.MinBalance, fits: true}
	need = verifC21Add(need, proto.MinBalance, d.TotalAssets)
	need = verifC21Add(need, proto.AppFlatParamsMinBalance, d.TotalAppParams)
	need = verifC21Add(need, proto.AppFlatParamsMinBalance, uint64(d.TotalExtraAppPages))
	need = verifC21Add(need, proto.AppFlatOptInMinBalance, d.TotalAppLocalStates)
	need = verifC21Add(need, proto.SchemaMinBalancePerEntry, verifC21AddSaturate(uints, byteslices))
	need = verifC21Add(need, proto.SchemaUintMinBalance, uints)
	need = verifC21Add(need, proto.SchemaBytesMinBalance, byteslices)
	need = verifC21Add(need, proto.BoxFlatMinBalance, d.TotalBoxes)
	need = verifC21Add(need, proto.BoxByteMinBalance, d.TotalBoxBytes)

	if need.fits {
		vr.Reach("exact")
		vr.Assert("c21.formula.exact", got.Raw == need.v)
	} else {
		vr.Reach("saturated")
		vr.Assert("c21.formula.saturates", got.Raw == ^uint64(0))
	}
	vr.Reach("done")
}

// min(e * AddSaturate(u, b), 2^64-1) = min(e * (u + b), 2^64-1), true products.
//verif:harness prop=C21 reach=done,fits,wraps-zero,wraps-one,wraps-more unwind=8 budget=250 thorough.budget=1500
func VerifC21FormulaEntryTerm() {
	e, u, b := vr.U64("perentry"), vr.U64("uints"), vr.U64("byteslices")
	max := vr.ZU(^uint64(0))
	s := verifC21AddSaturate(u, b)
	exactSum := vr.ZU(u).Add(vr.ZU(b))
	if u+b >= u {
		// the sum fits: the code multiplies by the sum itself
		vr.Reach("fits")
		vr.Assert("c21.entry.sum-exact", vr.ZU(s).Eq(exactSum))
		vr.Reach("done")
		return
	}
	// u + b >= 2^64: the code multiplies by 2^64-1 instead
	vr.Assert("c21.entry.sum-saturated", s == ^uint64(0) && exactSum.Gt(max))
	code := vr.ZU(e).Mul(vr.ZU(s))
	exact := vr.ZU(e).Mul(exactSum)
	switch {
	case e == 0:
		vr.Reach("wraps-zero")
		vr.Assert("c21.entry.zero", code.Eq(vr.ZU(0)) && exact.Eq(vr.ZU(0)))
	case e == 1:
		vr.Reach("wraps-one")
		vr.Assert("c21.entry.one", code.Eq(max) && exact.Gt(max))
	default:
		vr.Reach("wraps-more")
		vr.Assert("c21.entry.more", code.Gt(max) && exact.Gt(max))
	}
	vr.Reach("done")
}

var _ = basics.MicroAlgos{}
var _ = ledgercore.AccountData{}
