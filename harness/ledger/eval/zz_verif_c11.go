//go:build verif

package eval

import (
	"errors"

	"github.com/algorand/go-algorand/config"
	"github.com/algorand/go-algorand/crypto"
	"github.com/algorand/go-algorand/data/basics"
	"github.com/algorand/go-algorand/data/bookkeeping"
	"github.com/algorand/go-algorand/data/transactions"
	vr "github.com/algorand/go-algorand/internal/verifrt"
	"github.com/algorand/go-algorand/ledger/ledgercore"
)

// C11 (in-block layer): the evaluator's copy-on-write state refuses a
// transaction / lease that is already part of the block being assembled, and
// otherwise asks the ledger - with the right arguments.
//
// Stack under test, as BlockEvaluator builds it:
//   [child roundCowState (transaction group)] -> roundCowState (block) ->
//   roundCowBase -> LedgerForCowBase.CheckDup   (the ledger is a recording fake
//   with a nondeterministic verdict; what the real one answers is the subject of
//   harness/ledger/zz_verif_c11.go).
//
// Up to 2 transactions are processed the way BlockEvaluator.transaction does:
// checkDup first, addTx only when it returned nil. Every checkDup verdict
// (including a final query) is compared with a ghost list of the transactions
// added so far. Where the transactions live when the query is made is
// enumerated: in the block state itself; in a child (group) state, queried
// through the child; in a child that was committed to the block state.
//
// Demanded verdict for query q in block round R:
//   exists added a: txid_a == txid_q             -> *TransactionInLedgerError, InBlockEvaluator
//   else SupportTransactionLeases and lease_q != 0 and exists added a with the
//        same (sender, lease) and R <= LastValid_a -> *LeaseInLedgerError
//   else the ledger was asked exactly once with (proto, current = R, fv_q, lv_q,
//        txid_q, lease_q) and its verdict is returned unchanged.

var errVerifC11Ledger = errors.New("verif: ledger says duplicate")

type verifC11Ledger struct {
	calls   int
	current basics.Round
	fv, lv  basics.Round
	txid    transactions.Txid
	txl     ledgercore.Txlease
	support bool
	ret     error
}

func (l *verifC11Ledger) CheckDup(proto config.ConsensusParams, current, fv, lv basics.Round, txid transactions.Txid, txl ledgercore.Txlease) error {
	l.calls++
	l.current, l.fv, l.lv, l.txid, l.txl = current, fv, lv, txid, txl
	l.support = proto.SupportTransactionLeases
	return l.ret
}
func (l *verifC11Ledger) BlockHdr(basics.Round) (bookkeeping.BlockHeader, error) {
	return bookkeeping.BlockHeader{}, nil
}
func (l *verifC11Ledger) GenesisHash() crypto.Digest { return crypto.Digest{} }
func (l *verifC11Ledger) LookupWithoutRewards(basics.Round, basics.Address) (ledgercore.AccountData, basics.Round, error) {
	return ledgercore.AccountData{}, 0, nil
}
func (l *verifC11Ledger) LookupAgreement(basics.Round, basics.Address) (basics.OnlineAccountData, error) {
	return basics.OnlineAccountData{}, nil
}
func (l *verifC11Ledger) GetKnockOfflineCandidates(basics.Round, config.ConsensusParams) (map[basics.Address]basics.OnlineAccountData, error) {
	return nil, nil
}
func (l *verifC11Ledger) LookupAsset(basics.Round, basics.Address, basics.AssetIndex) (ledgercore.AssetResource, error) {
	return ledgercore.AssetResource{}, nil
}
func (l *verifC11Ledger) LookupApplication(basics.Round, basics.Address, basics.AppIndex) (ledgercore.AppResource, error) {
	return ledgercore.AppResource{}, nil
}
func (l *verifC11Ledger) LookupKv(basics.Round, string) ([]byte, error) { return nil, nil }
func (l *verifC11Ledger) GetCreatorForRound(basics.Round, basics.CreatableIndex, basics.CreatableType) (basics.Address, bool, error) {
	return basics.Address{}, false, nil
}
func (l *verifC11Ledger) GetStateProofVerificationContext(basics.Round) (*ledgercore.StateProofVerificationContext, error) {
	return nil, errVerifC11Ledger
}
func (l *verifC11Ledger) OnlineCirculation(basics.Round, basics.Round) (basics.MicroAlgos, error) {
	return basics.MicroAlgos{}, nil
}

type verifC11Tx struct {
	txn      transactions.Transaction
	txid     transactions.Txid
	idByte   uint8
	sndIdx   uint8
	hasLease bool
}

func verifC11Txn(label string) verifC11Tx {
	var c verifC11Tx
	c.idByte = vr.U8(label + ".txid")
	c.txid[0] = 0xC1
	c.txid[9] = c.idByte
	c.txn.FirstValid = basics.Round(vr.U64(label + ".fv"))
	c.txn.LastValid = basics.Round(vr.U64(label + ".lv"))
	c.sndIdx = vr.U8(label + ".sender")
	vr.Assume(c.sndIdx < 2)
	c.txn.Sender[0] = 1 + c.sndIdx
	c.txn.Sender[31] = 0x55
	c.hasLease = vr.Bool(label + ".lease")
	if c.hasLease {
		c.txn.Lease[3] = 7
	}
	return c
}

func verifC11Same(a, b verifC11Tx) bool {
	return a.txn.FirstValid == b.txn.FirstValid && a.txn.LastValid == b.txn.LastValid && a.sndIdx == b.sndIdx && a.hasLease == b.hasLease
}

// verifC11CowCheck runs checkDup on `cow` and compares with the ghost list.
func verifC11CowCheck(cow *roundCowState, l *verifC11Ledger, label string, support bool, rnd basics.Round, q verifC11Tx, added []verifC11Tx) error {
	l.calls = 0
	l.ret = nil
	if vr.Bool(label + ".ledgerdup") {
		l.ret = errVerifC11Ledger
	}
	txl := ledgercore.Txlease{Sender: q.txn.Sender, Lease: q.txn.Lease}
	err := cow.checkDup(q.txn.FirstValid, q.txn.LastValid, q.txid, txl)

	txidHit, leaseHit := false, false
	for _, a := range added {
		if a.idByte == q.idByte {
			txidHit = true
		}
		if support && q.hasLease && a.hasLease && a.sndIdx == q.sndIdx && rnd <= a.txn.LastValid {
			leaseHit = true
		}
	}
	tile, isTxid := err.(*ledgercore.TransactionInLedgerError)
	lile, isLease := err.(*ledgercore.LeaseInLedgerError)
	switch {
	case txidHit:
		vr.Reach("txidhit")
		vr.Assert("c11.cow.duplicate-rejected", isTxid && tile.InBlockEvaluator && tile.Txid == q.txid)
		vr.Assert("c11.cow.ledger-not-needed", l.calls == 0)
	case leaseHit:
		vr.Reach("leasehit")
		vr.Assert("c11.cow.lease-rejected", isLease && lile.InBlockEvaluator)
		vr.Assert("c11.cow.ledger-not-needed", l.calls == 0)
	default:
		vr.Reach("forwarded")
		vr.Assert("c11.cow.forwarded-once", l.calls == 1)
		vr.Assert("c11.cow.forwarded-round", l.current == rnd)
		vr.Assert("c11.cow.forwarded-args", l.fv == q.txn.FirstValid && l.lv == q.txn.LastValid && l.txid == q.txid && l.txl == txl && l.support == support)
		vr.Assert("c11.cow.verdict-unchanged", err == l.ret)
	}
	return err
}

//verif:harness prop=C11 reach=done,txidhit,leasehit,forwarded,added,group,committed unwind=10 budget=200 thorough.budget=1200
func VerifC11CowInBlock() {
	var proto config.ConsensusParams
	support := vr.Bool("SupportTransactionLeases")
	proto.SupportTransactionLeases = support
	rnd := basics.Round(vr.U64("round"))
	vr.Assume(rnd >= 1)
	l := &verifC11Ledger{}
	base := makeRoundCowBase(l, rnd-1, 0, 0, proto)
	var hdr bookkeeping.BlockHeader
	hdr.Round = rnd
	block := makeRoundCowState(base, hdr, proto, 0, ledgercore.AccountTotals{}, 0)

	// where the processed transactions live: 0 block state, 1 child state
	// (queried through the child), 2 child state committed to the block state
	mode := vr.Choice("mode", 3)
	cow := block
	if mode != 0 {
		vr.Reach("group")
		cow = block.child(2)
	}

	n := vr.Choice("n", vr.Param(3, 4)) // transactions processed before the final query
	labels := [4]string{"t1", "t2", "t3", "q"}
	var added, seen []verifC11Tx
	for k := 0; k < n; k++ {
		c := verifC11Txn(labels[k])
		for _, o := range seen {
			vr.Assume(vr.Implies(o.idByte == c.idByte, verifC11Same(o, c)))
		}
		seen = append(seen, c)
		if verifC11CowCheck(cow, l, labels[k], support, rnd, c, added) == nil {
			vr.Reach("added")
			cow.addTx(c.txn, c.txid)
			added = append(added, c)
		}
	}
	if mode == 2 {
		vr.Reach("committed")
		cow.commitToParent()
		cow = block
	}
	q := verifC11Txn("q")
	for _, o := range seen {
		vr.Assume(vr.Implies(o.idByte == q.idByte, verifC11Same(o, q)))
	}
	verifC11CowCheck(cow, l, "q", support, rnd, q, added)
	vr.Reach("done")
}
