//go:build verif

package eval

import (
	"github.com/algorand/go-algorand/data/basics"
	"github.com/algorand/go-algorand/data/transactions"
	vr "github.com/algorand/go-algorand/internal/verifrt"
	"github.com/algorand/go-algorand/ledger/ledgercore"
)

// C21, part 2: the real BlockEvaluator.checkMinBalance over a child cow in which
// one / two accounts were modified (arbitrary records, possibly the fee sink,
// the rewards pool or the state-proof sender, possibly closed), on top of an
// arbitrary ledger, with arbitrary consensus requirements.
//
// If it returns nil, every modified account other than the three special ones
// is either the zero record (closed) or holds, with pending rewards at the
// block's rewards level, at least its requirement `need` - where, faithfully to
// the saturating code, an account whose exact requirement exceeds 2^64-1 is
// accepted only with a balance of exactly 2^64-1 - and its requirement is within
// MaximumMinimumBalance when that limit is set. If it returns an error there is
// a reason: some such account is short, or over the limit.
//
// Contracts used instead of code (each proved against the real code elsewhere):
//   - basics.MinBalance(reqs, counters...) = min(need, 2^64-1) where need is a
//     function N of its sixteen arguments: the formula lemmas of zz_verif_c21.go
//     prove this for N = the documented requirement. N is UNINTERPRETED here, so
//     the statement holds whatever the formula is.
//   - basics.WithUpdatedRewards: a NotParticipating account, or one whose
//     RewardsBase already is the current level, is unchanged; otherwise the
//     balance grows by a pending reward that is a function of (unit, balance,
//     base, level) (uninterpreted here; C12 VerifC12AccountMoney proves it is
//     floor(balance/unit)*(level-base)), and the result fits 64 bits (the real
//     code Panicf()s otherwise: the account balance itself overflowed - excluded
//     by the money supply, same domain as C12).

//verif:stub github.com/algorand/go-algorand/data/basics.MinBalance = verifC21MinBalanceContract
//verif:stub github.com/algorand/go-algorand/data/basics.WithUpdatedRewards = verifC21Rewards
//verif:noop (github.com/algorand/go-algorand/data/basics.Address).String

// the requirement: an arbitrary 192-bit function of the consensus requirements and the counters
func verifC21N(reqs basics.BalanceRequirements, assets uint64, schema basics.StateSchema, appParams, appLocals, extraPages, boxes, boxBytes uint64) vr.Z {
	lo := vr.UF64("N.lo", reqs.MinBalance, reqs.AppFlatParamsMinBalance, reqs.AppFlatOptInMinBalance, reqs.BoxFlatMinBalance, reqs.BoxByteMinBalance,
		reqs.SchemaMinBalancePerEntry, reqs.SchemaUintMinBalance, reqs.SchemaBytesMinBalance,
		assets, schema.NumUint, schema.NumByteSlice, appParams, appLocals, extraPages, boxes, boxBytes)
	hi := vr.UF64("N.hi", reqs.MinBalance, reqs.AppFlatParamsMinBalance, reqs.AppFlatOptInMinBalance, reqs.BoxFlatMinBalance, reqs.BoxByteMinBalance,
		reqs.SchemaMinBalancePerEntry, reqs.SchemaUintMinBalance, reqs.SchemaBytesMinBalance,
		assets, schema.NumUint, schema.NumByteSlice, appParams, appLocals, extraPages, boxes, boxBytes)
	return vr.ZU(lo).Add(vr.ZU(hi).Shl(64))
}

func verifC21MinBalanceContract(reqs basics.BalanceRequirements, assets uint64, schema basics.StateSchema, appParams uint64, appLocals uint64, extraPages uint64, boxes uint64, boxBytes uint64) basics.MicroAlgos {
	n := verifC21N(reqs, assets, schema, appParams, appLocals, extraPages, boxes, boxBytes)
	fits, low := n.IsU64(), n.U64Trunc()
	r := ^uint64(0)
	if fits {
		r = low
	}
	return basics.MicroAlgos{Raw: r}
}

func verifC21Rewards(unit uint64, status basics.Status, algos basics.MicroAlgos, rewarded basics.MicroAlgos, base uint64, level uint64) (basics.MicroAlgos, basics.MicroAlgos, uint64) {
	// (written without branches on symbolic values)
	r := vr.UF64("pendingreward", unit, algos.Raw, base, level)
	participating := status != basics.NotParticipating
	if !participating || base == level {
		r = 0
	}
	newBase := base
	if participating {
		newBase = level
	}
	vr.Assume(algos.Raw+r >= algos.Raw) // domain of the real function (see above)
	return basics.MicroAlgos{Raw: algos.Raw + r}, basics.MicroAlgos{Raw: rewarded.Raw + r}, newBase
}

func verifC21Addr(k int) basics.Address {
	if k == 5 {
		return transactions.StateProofSender
	}
	return verifAddr(k) // 3 = fee sink, 4 = rewards pool
}

type verifC21Env struct {
	ev    *BlockEvaluator
	cow   *roundCowState
	level uint64
	// ghost: what the child cow holds
	nmod int
	who  [2]int
	data [2]ledgercore.AccountData
}

func verifC21Setup() *verifC21Env {
	e := &verifC21Env{}
	proto := verifC21Proto()
	proto.RewardUnit = vr.U64("proto.rewardunit")
	proto.MaximumMinimumBalance = vr.U64("proto.maximumminimumbalance")
	base := verifMakeParent()
	e.ev = verifEvaluator(base, proto, basics.Round(vr.U64("round")))
	e.level = vr.U64("rewardslevel")
	e.ev.block.BlockHeader.RewardsLevel = e.level
	e.ev.state.mods.Hdr.RewardsLevel = e.level
	e.ev.block.BlockHeader.FeeSink = verifAddr(3)
	e.ev.block.BlockHeader.RewardsPool = verifAddr(4)
	e.cow = e.ev.state.child(2)
	return e
}

// modify: the group wrote an arbitrary record (or closed the account) at pool
// address k (0 = zero address, 1,2 ordinary, 3 fee sink, 4 rewards pool, 5 state-proof sender)
func (e *verifC21Env) modify(label string, k int, mayClose bool) {
	d := verifAccount(label)
	if mayClose && vr.Bool(label+".closed") {
		d = ledgercore.AccountData{}
	}
	e.cow.Put(verifC21Addr(k), d)
	for j := 0; j < e.nmod; j++ {
		if e.who[j] == k { // written twice: the later record counts
			e.data[j] = d
			return
		}
	}
	e.who[e.nmod], e.data[e.nmod] = k, d
	e.nmod++
}

func (e *verifC21Env) check() {
	err := e.ev.checkMinBalance(e.cow)
	max := vr.ZU(^uint64(0))
	limit := e.ev.proto.MaximumMinimumBalance
	anyBad := false
	for j := 0; j < e.nmod; j++ {
		if e.who[j] >= 3 {
			vr.Reach("special")
			continue
		}
		d := e.data[j]
		if d.IsZero() {
			vr.Reach("closed")
			continue
		}
		// balance with pending rewards at the block's level, by the contract above
		b, _, _ := verifC21Rewards(e.ev.proto.RewardUnit, d.Status, d.MicroAlgos, d.RewardedMicroAlgos, d.RewardsBase, e.level)
		bal := b.Raw
		need := verifC21N(e.ev.proto.BalanceRequirements(), d.TotalAssets, d.TotalAppSchema, d.TotalAppParams, d.TotalAppLocalStates, uint64(d.TotalExtraAppPages), d.TotalBoxes, d.TotalBoxBytes)
		// the requirement as the saturating code sees it
		c1 := vr.ZU(bal).Ge(need)
		c2 := need.Gt(max)
		covered := c1 || (c2 && bal == ^uint64(0))
		// the limit is compared with the SATURATED requirement: a limit of exactly
		// 2^64-1 (never configured) does not reject requirements beyond 64 bits
		w1 := need.Le(vr.ZU(limit))
		within := limit == 0 || w1 || (c2 && limit == ^uint64(0))
		if err == nil {
			vr.Assert("c21.check.accepted-covers-requirement", covered)
			vr.Assert("c21.check.accepted-within-limit", within)
		}
		bad := !covered || !within
		anyBad = anyBad || bad
	}
	if err == nil {
		vr.Reach("accepted")
	} else {
		vr.Reach("rejected")
		vr.Assert("c21.check.rejected-for-a-reason", anyBad)
		_, isMB := err.(*ledgercore.MinBalanceError)
		if isMB {
			vr.Reach("below-minimum")
		} else {
			vr.Reach("over-limit")
		}
	}
	vr.Reach("done")
}

//verif:harness prop=C21 reach=done,accepted,rejected,special,closed,below-minimum,over-limit unwind=10 budget=250 thorough.budget=1500
func VerifC21CheckOne() {
	e := verifC21Setup()
	e.modify("mod0", vr.Choice("mod0.addr", 6), true)
	e.check()
}

//verif:harness prop=C21 reach=done,accepted,rejected,special,closed,below-minimum,over-limit unwind=10 budget=250 thorough.budget=1500
func VerifC21CheckTwo() {
	e := verifC21Setup()
	// two modified accounts: an ordinary one, then an ordinary (possibly the same) or special one
	// (quick tier: only the second may be closed; a closed first account is VerifC21CheckOne's case)
	// (accounts 1 and 2 are interchangeable - both arbitrary - so the first is account 1)
	e.modify("mod0", 1, vr.Param(0, 1) == 1)
	e.modify("mod1", 1+vr.Choice("mod1.addr", vr.Param(3, 5)), true)
	e.check()
}
