//go:build verif

package eval

import (
	"github.com/algorand/go-algorand/config"
	"github.com/algorand/go-algorand/data/basics"
	"github.com/algorand/go-algorand/data/bookkeeping"
	"github.com/algorand/go-algorand/data/transactions"
	vr "github.com/algorand/go-algorand/internal/verifrt"
	"github.com/algorand/go-algorand/ledger/ledgercore"
)

// C19 (lemma level, part 1): the copy-on-write merge lemma.
//
// BlockEvaluator.TransactionGroup runs a group against a CHILD roundCowState and
// makes its effects visible with commitToParent only on success; on failure the
// child is recycled. The harnesses of this file run the real child /
// commitToParent / recycle (with the real Put / kvPut / kvDel / addTx /
// StateDelta code underneath) over a block-level state that itself sits on an
// ARBITRARY ledger (verifParent) and may already hold earlier writes, and compare
// every observation with a ghost model kept by the harness:
//
//   - after commitToParent the block-level state answers exactly the child's
//     values for everything the child wrote, and its previous answers for
//     everything else; counters add up;
//   - without commitToParent (recycle only) the block-level state answers
//     exactly as before;
//   - a recycled child holds nothing (it goes back to a pool and is handed to the
//     next group).
//
// One harness per kind of state (accounts; key-value store; transaction ids,
// leases and counters; creatables and the state-proof round), so that they run
// in parallel. Part 2 (TransactionGroup itself) is in zz_verif_c19group.go.

// verifC19Parent is the nondeterministic ledger below the block-level cow:
// verifParent plus a kv store with one stored key, a transaction counter, one
// known creatable and a verdict for duplicate checks.
type verifC19Parent struct {
	*verifParent
	kvKey   string
	kvHas   bool
	kvVal   []byte
	counter uint64
	dupTxid transactions.Txid // the ledger reports this txid as a duplicate
	dupHas  bool
	crIdx   basics.CreatableIndex
	crHas   bool
	crAddr  basics.Address
	spNext  basics.Round
}

func (p *verifC19Parent) kvGet(key string) ([]byte, bool, error) {
	if p.kvHas && key == p.kvKey {
		return p.kvVal, true, nil
	}
	return nil, false, nil
}
func (p *verifC19Parent) Counter() uint64 { return p.counter }
func (p *verifC19Parent) checkDup(fv, lv basics.Round, txid transactions.Txid, txl ledgercore.Txlease) error {
	if p.dupHas && txid == p.dupTxid {
		return errVerifLookup
	}
	return nil
}
func (p *verifC19Parent) getCreator(cidx basics.CreatableIndex, ctype basics.CreatableType) (basics.Address, bool, error) {
	if p.crHas && cidx == p.crIdx && ctype == basics.AppCreatable {
		return p.crAddr, true, nil
	}
	return basics.Address{}, false, nil
}
func (p *verifC19Parent) GetStateProofNextRound() basics.Round { return p.spNext }

func verifC19Block(p roundCowParent, proto config.ConsensusParams) *roundCowState {
	var hdr bookkeeping.BlockHeader
	hdr.Round = basics.Round(vr.U64("round"))
	hdr.RewardsLevel = vr.U64("rewardslevel")
	return makeRoundCowState(p, hdr, proto, 0, ledgercore.AccountTotals{}, 0)
}

// verifC19Clean: a recycled child holds nothing that could leak into the next
// group it is handed to.
func verifC19Clean(ch *roundCowState) {
	vr.Assert("c19.recycle.no-accounts", ch.mods.Accts.Len() == 0 && len(ch.mods.Accts.AppResources) == 0 && len(ch.mods.Accts.AssetResources) == 0)
	_, hit := ch.mods.Accts.GetData(verifAddr(1))
	_, hit2 := ch.mods.Accts.GetData(verifAddr(2))
	vr.Assert("c19.recycle.no-account-index", !hit && !hit2)
	vr.Assert("c19.recycle.no-txids", len(ch.mods.Txids) == 0 && len(ch.mods.Txleases) == 0)
	vr.Assert("c19.recycle.no-kv", len(ch.mods.KvMods) == 0)
	vr.Assert("c19.recycle.no-creatables", len(ch.mods.Creatables) == 0)
	vr.Assert("c19.recycle.no-storage-deltas", len(ch.sdeltas) == 0)
	vr.Assert("c19.recycle.counters-zero", ch.txnCount == 0 && ch.feesCollected.Raw == 0 && ch.mods.StateProofNext == 0)
	vr.Assert("c19.recycle.detached", ch.commitParent == nil && ch.lookupParent == nil)
}

// ---------------------------------------------------------------------------
// accounts

// ghost view of the accounts of one cow layer
type verifC19Accts struct {
	has [verifNAddr]bool
	val [verifNAddr]ledgercore.AccountData
}

// verifC19CheckAccts: cow answers, for every pool address, the topmost ghost
// layer that wrote it, else the ledger's answer (value or lookup error).
func verifC19CheckAccts(tag string, cow *roundCowState, p *verifParent, layers ...*verifC19Accts) {
	for i := 0; i < verifNAddr; i++ {
		got, err := cow.lookup(verifAddr(i))
		want, wantErr := p.accts[i], p.failLookup[i]
		for _, l := range layers {
			if l.has[i] {
				want, wantErr = l.val[i], false
			}
		}
		vr.Assert(tag+".error", (err != nil) == wantErr)
		if err == nil {
			vr.Assert(tag+".value", got == want)
		}
	}
}

func verifC19Modified(cow *roundCowState, g *verifC19Accts) {
	mods := cow.modifiedAccounts()
	n := 0
	for i := 0; i < verifNAddr; i++ {
		if g.has[i] {
			n++
		}
	}
	vr.Assert("c19.accts.modified-count", len(mods) == n)
	for _, a := range mods {
		i := verifAddrIndex(a)
		vr.Assert("c19.accts.modified-are-written", i >= 0 && g.has[i])
	}
	for i := range mods {
		for j := i + 1; j < len(mods); j++ {
			vr.Assert("c19.accts.modified-distinct", mods[i] != mods[j])
		}
	}
}

//verif:harness prop=C19 reach=done,committed,discarded,overwrote,fresh,twice unwind=12 budget=200 thorough.budget=1500
func VerifC19MergeAccounts() {
	base := verifMakeParent()
	base.failLookup[3] = vr.Bool("acct3.lookupfails") // a failing ledger lookup is masked by a write, and only by a write
	var proto config.ConsensusParams
	block := verifC19Block(base, proto)

	// the block-level state may already hold a write of account 1 (an earlier group)
	var gb, gc verifC19Accts
	if vr.Bool("block.prior") {
		d := verifAccount("prior")
		block.Put(verifAddr(1), d)
		gb.has[1], gb.val[1] = true, d
	}
	blockCount, blockFees := vr.U64("block.txncount"), vr.U64("block.fees")
	block.txnCount, block.feesCollected.Raw = blockCount, blockFees

	child := block.child(2)
	// the child writes up to 2 (thorough: 3) account records, to account 1 (which the block
	// state may have written), 2 or 3 (whose ledger lookup may fail); a later write may
	// hit the same account again
	n := vr.Choice("nputs", vr.Param(3, 4))
	labels := [3]string{"put0", "put1", "put2"}
	for k := 0; k < n; k++ {
		i := 1 + vr.Choice(labels[k]+".addr", 3)
		// arbitrary new record, or the zero record (= account closed)
		d := verifAccount(labels[k])
		if vr.Bool(labels[k] + ".close") {
			d = ledgercore.AccountData{}
		}
		child.Put(verifAddr(i), d)
		if gc.has[i] {
			vr.Reach("twice")
		}
		if gb.has[i] {
			vr.Reach("overwrote")
		} else {
			vr.Reach("fresh")
		}
		gc.has[i], gc.val[i] = true, d
	}
	// the child sees its own writes over the block state; the block state sees none of them yet
	verifC19CheckAccts("c19.accts.child-view", child, base, &gb, &gc)
	verifC19CheckAccts("c19.accts.isolated-before-commit", block, base, &gb)
	verifC19Modified(child, &gc)

	if vr.Bool("commit") {
		vr.Reach("committed")
		child.commitToParent()
		for i := 0; i < verifNAddr; i++ {
			if gc.has[i] {
				gb.has[i], gb.val[i] = true, gc.val[i]
			}
		}
	} else {
		vr.Reach("discarded")
	}
	child.recycle()
	verifC19Clean(child)
	verifC19CheckAccts("c19.accts.after", block, base, &gb)
	verifC19Modified(block, &gb)
	vr.Assert("c19.accts.counters-untouched", block.txnCount == blockCount && block.feesCollected.Raw == blockFees)
	vr.Reach("done")
}

// ---------------------------------------------------------------------------
// key-value store (boxes)

type verifC19Kv struct {
	has [2]bool // this layer wrote the key
	del [2]bool // ... as a deletion
	val [2][]byte
}

func verifC19Key(i int) string {
	if i == 0 {
		return "bx:key0"
	}
	return "bx:key1"
}

func verifC19CheckKv(tag string, cow *roundCowState, p *verifC19Parent, layers ...*verifC19Kv) {
	for i := 0; i < 2; i++ {
		got, ok, err := cow.kvGet(verifC19Key(i))
		wantOK := i == 0 && p.kvHas // the ledger stores key0 or nothing
		want := p.kvVal
		for _, l := range layers {
			if l.has[i] {
				wantOK, want = !l.del[i], l.val[i]
			}
		}
		vr.Assert(tag+".no-error", err == nil)
		vr.Assert(tag+".existence", ok == wantOK)
		if ok && wantOK {
			vr.Assert(tag+".value", string(got) == string(want))
		}
	}
}

func verifC19KvWrite(label string, cow *roundCowState, g *verifC19Kv, i int) {
	if vr.Bool(label + ".delete") {
		cow.kvDel(verifC19Key(i))
		g.has[i], g.del[i], g.val[i] = true, true, nil
		return
	}
	v := vr.BytesN(label+".value", 1)
	cow.kvPut(verifC19Key(i), v)
	g.has[i], g.del[i], g.val[i] = true, false, v
}

//verif:harness prop=C19 reach=done,committed,discarded,overwrote,fresh unwind=12 budget=200 thorough.budget=1500
func VerifC19MergeKv() {
	p := &verifC19Parent{verifParent: verifMakeParent()}
	p.kvKey = verifC19Key(0)
	p.kvHas = vr.Bool("ledger.haskey0")
	p.kvVal = vr.BytesN("ledger.key0", 1)
	var proto config.ConsensusParams
	block := verifC19Block(p, proto)

	var gb, gc verifC19Kv
	if vr.Bool("block.prior") { // an earlier group wrote or deleted key0
		verifC19KvWrite("prior", block, &gb, 0)
	}
	child := block.child(2)
	n := vr.Choice("nwrites", 3)
	labels := [2]string{"write0", "write1"}
	for k := 0; k < n; k++ {
		i := vr.Choice(labels[k]+".key", 2)
		if gb.has[i] {
			vr.Reach("overwrote")
		} else {
			vr.Reach("fresh")
		}
		verifC19KvWrite(labels[k], child, &gc, i)
	}
	verifC19CheckKv("c19.kv.child-view", child, p, &gb, &gc)
	verifC19CheckKv("c19.kv.isolated-before-commit", block, p, &gb)

	if vr.Bool("commit") {
		vr.Reach("committed")
		child.commitToParent()
		for i := 0; i < 2; i++ {
			if gc.has[i] {
				gb.has[i], gb.del[i], gb.val[i] = true, gc.del[i], gc.val[i]
			}
		}
	} else {
		vr.Reach("discarded")
	}
	child.recycle()
	verifC19Clean(child)
	verifC19CheckKv("c19.kv.after", block, p, &gb)
	nmods := 0
	for i := 0; i < 2; i++ {
		if gb.has[i] {
			nmods++
		}
	}
	vr.Assert("c19.kv.modified-count", len(block.mods.KvMods) == nmods)
	vr.Reach("done")
}
