//go:build verif

package eval

import (
	"github.com/algorand/go-algorand/config"
	"github.com/algorand/go-algorand/data/basics"
	"github.com/algorand/go-algorand/data/transactions"
	"github.com/algorand/go-algorand/data/transactions/logic"
	vr "github.com/algorand/go-algorand/internal/verifrt"
	"github.com/algorand/go-algorand/ledger/ledgercore"
)

// C18 (lemma level): blocks neither create nor destroy Algos - conservation kernels
// of the evaluator. "Money" of an account is its balance with pending rewards
// counted at the block's rewards level:
//
//	money(a) = a.MicroAlgos + pending(a)
//
// Each kernel runs the real code on a roundCowState over an ARBITRARY ledger
// (verifParent) and states, in exact integers, that it only moves money between
// the two accounts involved:
//
//   - VerifC18Move: roundCowState.Move(from, to, amt, fromRewards, toRewards).
//     If it returns nil: amt <= money(from), money(to) + amt < 2^64, afterwards
//     money(from) is smaller by exactly amt and money(to) larger by exactly amt
//     (unchanged if from == to), so the total is unchanged; every record the cow
//     holds afterwards has its pending rewards folded in consistently
//     (MicroAlgos, RewardedMicroAlgos, RewardsBase), no other field changes
//     (except the auto-heartbeat of online incentive-eligible accounts) and no
//     other account changes; *fromRewards / *toRewards grow by exactly the
//     pending rewards that were folded in. If it returns an error there is a
//     reason (failed lookup, overspend, balance or reward-counter overflow) and
//     the receiver was not credited. NOTE: Move is not atomic by itself - on an
//     error after the debit (failed receiver lookup, receiver overflow) the
//     sender's debited record stays in the cow; discarding it is the job of the
//     transaction-group cow (C19).
//   - VerifC18TakeFee: roundCowState.takeFee: the fee moves from the sender to
//     the fee sink and is tallied in feesCollected exactly when the sender is not
//     the sink itself.
//   - VerifC18Payout: BlockEvaluator.performPayout: the payout moves from the fee
//     sink to the proposer; nothing happens without a proposer.
//
// apply.Payment (with close-remainder) is in harness/ledger/apply/zz_verif_c18.go.
// Not covered: the rewards-pool withdrawal in StartEvaluator, asset / application /
// inner-transaction paths, whole-block composition (CalculateTotals re-checks the
// grand total at the end of every block: C12).
//
// Contract used instead of code: basics.WithUpdatedRewards - a NotParticipating
// account is unchanged; otherwise RewardsBase becomes the level and MicroAlgos and
// RewardedMicroAlgos grow by pending(a), a function of (unit, balance, base, level)
// that is 0 when base == level or balance < unit, and the new balance fits 64 bits
// (the real code Panicf()s otherwise). C12 VerifC12AccountMoney proves the real
// function is this with pending = floor(balance/unit)*(level-base).

//   - MicroAlgos.RewardUnits(unit) (only tested for > 0 by Move): some q with
//     q == 0 exactly when balance < unit (C12 VerifC12RewardUnits: q = floor(balance/unit)).
//   - roundCowState.autoHeartbeat(before, after): returns `after`, except that the
//     LastHeartbeat of an Online, IncentiveEligible account may be different. Proved
//     against the real function by VerifC18AutoHeartbeat (zz_verif_c18hb.go); without it
//     every path through Move forks nine more ways over a field that plays no role here.

//verif:stub github.com/algorand/go-algorand/data/basics.WithUpdatedRewards = verifC18Rewards
//verif:stub (github.com/algorand/go-algorand/data/basics.MicroAlgos).RewardUnits = verifC18RewardUnits
//verif:stub (*github.com/algorand/go-algorand/ledger/eval.roundCowState).autoHeartbeat = verifC18AutoHeartbeatContract
//verif:noop (github.com/algorand/go-algorand/data/basics.Address).String

func verifC18Pending(unit uint64, status basics.Status, algos uint64, base uint64, level uint64) uint64 {
	r := vr.UF64("pendingreward", unit, algos, base, level)
	if status == basics.NotParticipating || base == level || algos < unit {
		r = 0
	}
	return r
}

func verifC18Rewards(unit uint64, status basics.Status, algos basics.MicroAlgos, rewarded basics.MicroAlgos, base uint64, level uint64) (basics.MicroAlgos, basics.MicroAlgos, uint64) {
	r := verifC18Pending(unit, status, algos.Raw, base, level)
	newBase := base
	if status != basics.NotParticipating {
		newBase = level
	}
	vr.Assume(algos.Raw+r >= algos.Raw) // domain of the real function (see above)
	return basics.MicroAlgos{Raw: algos.Raw + r}, basics.MicroAlgos{Raw: rewarded.Raw + r}, newBase
}

func verifC18RewardUnits(base basics.MicroAlgos, unit uint64) uint64 {
	q := vr.UF64("rewardunits", base.Raw, unit)
	vr.Assume((q == 0) == (base.Raw < unit))
	return q
}

var verifC18HbCalls int
var verifC18HbNames = [4]string{"heartbeat0", "heartbeat1", "heartbeat2", "heartbeat3"}

func verifC18AutoHeartbeatContract(cs *roundCowState, before, after ledgercore.AccountData) ledgercore.AccountData {
	hb := basics.Round(vr.U64(verifC18HbNames[verifC18HbCalls%4]))
	verifC18HbCalls++
	if after.Status == basics.Online && after.IncentiveEligible {
		after.LastHeartbeat = hb
	}
	return after
}

type verifC18Env struct {
	base  *verifParent
	ev    *BlockEvaluator
	cs    *roundCowState
	unit  uint64
	level uint64
}

// UnfundedSenders (true in every protocol since v34) decides whether Move writes
// records it did not change. The Move kernels come in two flavours, current and
// legacy (fixed = true: the flag is !legacy); the takeFee / performPayout kernels
// add their own bookkeeping on top of Move and use current protocols in the quick
// tier, both kinds in the thorough tier (fixed = false).
func verifC18Setup(fixed bool, legacy bool) *verifC18Env {
	e := &verifC18Env{}
	var proto config.ConsensusParams
	e.unit = vr.U64("proto.rewardunit")
	vr.Assume(e.unit >= 1) // 1e6 in every protocol; 0 divides by zero
	proto.RewardUnit = e.unit
	proto.UnfundedSenders = !legacy
	if !fixed && vr.Param(0, 1) == 1 {
		proto.UnfundedSenders = vr.Bool("proto.unfundedsenders")
	}
	proto.SeedRefreshInterval = 80
	proto.SeedLookback = 2
	e.base = verifMakeParent()
	e.ev = verifEvaluator(e.base, proto, basics.Round(vr.U64("round")))
	e.level = vr.U64("rewardslevel")
	e.ev.state.mods.Hdr.RewardsLevel = e.level
	e.cs = e.ev.state
	return e
}

func (e *verifC18Env) pending(d *ledgercore.AccountData) uint64 {
	return verifC18Pending(e.unit, d.Status, d.MicroAlgos.Raw, d.RewardsBase, e.level)
}

// money of a record (fits 64 bits inside the contract's domain)
func (e *verifC18Env) money(d *ledgercore.AccountData) uint64 {
	return d.MicroAlgos.Raw + e.pending(d)
}

// folded: the record with its pending rewards folded in and the balance set to bal
func (e *verifC18Env) folded(d ledgercore.AccountData, bal uint64) ledgercore.AccountData {
	r := e.pending(&d)
	d.RewardedMicroAlgos.Raw += r
	if d.Status != basics.NotParticipating {
		d.RewardsBase = e.level
	}
	d.MicroAlgos.Raw = bal
	return d
}

// sameButHeartbeat: got is want, except that Move may have refreshed the
// heartbeat of an online incentive-eligible account
func verifC18SameButHeartbeat(got, want ledgercore.AccountData) bool {
	hbOK := got.LastHeartbeat == want.LastHeartbeat || (want.Status == basics.Online && want.IncentiveEligible)
	want.LastHeartbeat = got.LastHeartbeat
	return hbOK && got == want
}

// verifC18CheckMove: the cow's state after Move(from, to, amt) returned err,
// against the records the ledger held before (fi, ti: pool indices).
func (e *verifC18Env) checkMove(tag string, err error, fi, ti int, amt uint64, fromRewards, toRewards *basics.MicroAlgos, fr0, tr0 uint64) {
	f0, t0 := e.base.accts[fi], e.base.accts[ti]
	mf, mt := e.money(&f0), e.money(&t0)
	rf := e.pending(&f0)
	unfunded := e.ev.proto.UnfundedSenders
	wroteFrom := amt != 0 || f0.MicroAlgos.Raw >= e.unit || !unfunded

	fromNow, errF := e.cs.lookup(verifAddr(fi))
	toNow, errT := e.cs.lookup(verifAddr(ti))

	// every other account is untouched
	for i := 0; i < verifNAddr; i++ {
		if i != fi && i != ti {
			d, _ := e.cs.lookup(verifAddr(i))
			_, inMods := e.cs.mods.Accts.GetData(verifAddr(i))
			vr.Assert(tag+".others-untouched", d == e.base.accts[i] && !inMods)
		}
	}

	if err != nil {
		vr.Reach("rejected")
		// reasons, in exact integers
		overspend := wroteFrom && amt > mf
		frOverflow := fromRewards != nil && fr0+rf < fr0
		lookupFailed := e.base.failLookup[fi] || e.base.failLookup[ti]
		var rt uint64
		if fi != ti {
			rt = e.pending(&t0)
		}
		trOverflow := toRewards != nil && tr0+rt < tr0
		creditOverflow := fi != ti && mt+amt < mt
		vr.Assert(tag+".rejected-for-a-reason", overspend || frOverflow || lookupFailed || trOverflow || creditOverflow)
		// the receiver was not credited; the sender's record is untouched or exactly debited
		if fi != ti && !e.base.failLookup[ti] {
			_, inMods := e.cs.mods.Accts.GetData(verifAddr(ti))
			vr.Assert(tag+".rejected-receiver-untouched", errT == nil && toNow == t0 && !inMods)
		}
		if !e.base.failLookup[fi] {
			debited := e.folded(f0, mf-amt)
			vr.Assert(tag+".rejected-sender-untouched-or-debited", errF == nil && (fromNow == f0 || (amt <= mf && verifC18SameButHeartbeat(fromNow, debited))))
		}
		return
	}
	vr.Reach("moved")
	vr.Assert(tag+".lookups-succeeded", errF == nil && errT == nil && !e.base.failLookup[fi] && !e.base.failLookup[ti])
	vr.Assert(tag+".no-overspend", amt <= mf)
	if fromRewards != nil {
		vr.Assert(tag+".sender-rewards-reported", fromRewards.Raw == fr0+rf && fr0+rf >= fr0)
	}
	if fi == ti {
		vr.Reach("self")
		// debit and credit cancel; pending rewards were folded in (if the record was written)
		if wroteFrom {
			vr.Assert(tag+".self-record", verifC18SameButHeartbeat(fromNow, e.folded(f0, mf)))
		} else {
			vr.Assert(tag+".self-record", fromNow == f0)
		}
		vr.Assert(tag+".self-money-unchanged", e.money(&fromNow) == mf)
		if toRewards != nil {
			// the second folding finds nothing pending
			vr.Assert(tag+".receiver-rewards-reported", toRewards.Raw == tr0)
		}
		return
	}
	rt := e.pending(&t0)
	wroteTo := amt != 0 || t0.MicroAlgos.Raw >= e.unit || !unfunded
	vr.Assert(tag+".no-balance-overflow", mt+amt >= mt)
	if toRewards != nil {
		vr.Assert(tag+".receiver-rewards-reported", toRewards.Raw == tr0+rt && tr0+rt >= tr0)
	}
	if wroteFrom {
		vr.Reach("debited")
		vr.Assert(tag+".sender-record", verifC18SameButHeartbeat(fromNow, e.folded(f0, mf-amt)))
	} else {
		vr.Reach("sender-not-written")
		vr.Assert(tag+".sender-record", fromNow == f0)
	}
	if wroteTo {
		vr.Assert(tag+".receiver-record", verifC18SameButHeartbeat(toNow, e.folded(t0, mt+amt)))
	} else {
		vr.Assert(tag+".receiver-record", toNow == t0)
	}
	// conservation: money moved, none created or destroyed
	mf1, mt1 := e.money(&fromNow), e.money(&toNow)
	vr.Assert(tag+".sender-money", mf1 == mf-amt)
	vr.Assert(tag+".receiver-money", mt1 == mt+amt)
	vr.Assume(mf1 == mf-amt && mt1 == mt+amt && amt <= mf && mt+amt >= mt)
	vr.Assert(tag+".total-conserved", vr.ZU(mf1).Add(vr.ZU(mt1)).Eq(vr.ZU(mf).Add(vr.ZU(mt))))
}

// Move as payments call it (both reward counters reported), between two accounts
// (accounts 1 and 2 are interchangeable: both arbitrary). Move with only the sender's
// counter is exercised through takeFee, with none through performPayout.
//verif:harness prop=C18 reach=done,moved,rejected,debited,sender-not-written unwind=10 budget=400 thorough.budget=2400
func VerifC18Move() { verifC18MoveBoth(1, 2, false) }

// ... under the protocols before UnfundedSenders
//verif:harness prop=C18 reach=done,moved,rejected,debited unwind=10 budget=400 thorough.budget=2400
func VerifC18MoveLegacy() { verifC18MoveBoth(1, 2, true) }

// ... and from an account to itself (either kind of protocol)
//verif:harness prop=C18 reach=done,moved,rejected,self unwind=10 budget=400 thorough.budget=2400
func VerifC18MoveSelf() { verifC18MoveBoth(1, 1, vr.Bool("legacy")) }

func verifC18MoveBoth(fi, ti int, legacy bool) {
	e := verifC18Setup(true, legacy)
	e.base.failLookup[ti] = vr.Bool("to.lookupfails")
	amt := vr.U64("amount")
	fr0, tr0 := vr.U64("fromrewards"), vr.U64("torewards")
	fromRewards, toRewards := &basics.MicroAlgos{Raw: fr0}, &basics.MicroAlgos{Raw: tr0}
	err := e.cs.Move(verifAddr(fi), verifAddr(ti), basics.MicroAlgos{Raw: amt}, fromRewards, toRewards)
	e.checkMove("c18.move", err, fi, ti, amt, fromRewards, toRewards, fr0, tr0)
	vr.Reach("done")
}

// an ordinary account pays a fee
//verif:harness prop=C18 reach=done,moved,rejected,tallied unwind=10 budget=400 thorough.budget=2400
func VerifC18TakeFee() { verifC18TakeFee(1) }

// the fee sink pays a fee to itself
//verif:harness prop=C18 reach=done,moved,rejected,self unwind=10 budget=400 thorough.budget=2400
func VerifC18TakeFeeFromSink() { verifC18TakeFee(3) }

func verifC18TakeFee(si int) {
	e := verifC18Setup(false, false)
	const sink = 3
	e.base.failLookup[sink] = vr.Bool("sink.lookupfails")
	var tx transactions.Transaction
	tx.Sender = verifAddr(si)
	tx.Fee.Raw = vr.U64("fee")
	ep := &logic.EvalParams{Specials: &transactions.SpecialAddresses{FeeSink: verifAddr(sink), RewardsPool: verifAddr(4)}}
	sr0 := vr.U64("senderrewards")
	senderRewards := basics.MicroAlgos{Raw: sr0}
	fees0 := vr.U64("feescollected")
	// the tally is bounded by the money supply (10^16 microalgos)
	vr.Assume(fees0 < 1<<62)
	e.cs.feesCollected.Raw = fees0

	err := e.cs.takeFee(&tx, &senderRewards, ep)
	e.checkMove("c18.fee", err, si, sink, tx.Fee.Raw, &senderRewards, nil, sr0, 0)
	if err != nil {
		vr.Assert("c18.fee.rejected-not-tallied", e.cs.feesCollected.Raw == fees0)
	} else if si == sink {
		vr.Assert("c18.fee.self-payment-not-tallied", e.cs.feesCollected.Raw == fees0)
	} else {
		vr.Reach("tallied")
		// (a fee that was paid is at most the payer's money, itself bounded by the supply)
		vr.Assert("c18.fee.tallied", vr.ZU(e.cs.feesCollected.Raw).Eq(vr.ZU(fees0).Add(vr.ZU(tx.Fee.Raw))) || tx.Fee.Raw >= 1<<62)
	}
	vr.Reach("done")
}

//verif:harness prop=C18 reach=done,moved,rejected,no-proposer,zero-payout unwind=10 budget=400 thorough.budget=2400
func VerifC18Payout() {
	e := verifC18Setup(false, false)
	const sink = 3
	e.ev.block.BlockHeader.FeeSink = verifAddr(sink)
	pi := [3]int{0, 1, 3}[vr.Choice("proposer", 3)] // 0: no proposer (zero address); 3: the sink itself
	e.ev.block.BlockHeader.Proposer = verifAddr(pi)
	payout := vr.U64("payout")
	e.ev.block.BlockHeader.ProposerPayout.Raw = payout

	err := e.ev.performPayout()
	if pi == 0 || payout == 0 {
		if pi == 0 {
			vr.Reach("no-proposer")
		} else {
			vr.Reach("zero-payout")
		}
		vr.Assert("c18.payout.nothing-to-do", err == nil && e.cs.mods.Accts.Len() == 0)
		vr.Reach("done")
		return
	}
	e.checkMove("c18.payout", err, sink, pi, payout, nil, nil, 0, 0)
	vr.Reach("done")
}
