//go:build verif

package eval

import (
	"errors"

	"github.com/algorand/go-algorand/config"
	"github.com/algorand/go-algorand/data/basics"
	"github.com/algorand/go-algorand/data/transactions"
	"github.com/algorand/go-algorand/data/transactions/logic"
	vr "github.com/algorand/go-algorand/internal/verifrt"
	"github.com/algorand/go-algorand/ledger/ledgercore"
	"github.com/algorand/go-algorand/protocol"
)

// C21, part 3: BlockEvaluator.transaction accepts a transaction (returns nil)
// only after checkMinBalance has passed on the cow of the group, looking at the
// state the transaction's application left behind - whenever the evaluator is
// validating or generating.
//
// The real eval.transaction runs (liveness, duplicate and authorizer checks,
// apply-data comparison, EncodeSignedTxn, addTx) with applyTransaction replaced
// by a stub that writes arbitrary account records into the cow it is handed and
// then succeeds or fails, and with checkMinBalance replaced by a recorder with
// a nondeterministic verdict (its real behaviour is the subject of
// VerifC21CheckOne/Two). With the C19 group lemma (every member of an accepted
// group went through eval.transaction on the same child cow, which is committed
// only if all of them returned nil) this gives: a committed group's modified
// accounts passed checkMinBalance after the group's last write.

//verif:stub (*github.com/algorand/go-algorand/ledger/eval.BlockEvaluator).applyTransaction = verifC21StubApply
//verif:stub (*github.com/algorand/go-algorand/ledger/eval.BlockEvaluator).checkMinBalance = verifC21StubCheck
//verif:stub (github.com/algorand/go-algorand/data/transactions.Transaction).ID = verifC21StubTxID
//verif:noop (github.com/algorand/go-algorand/data/basics.Address).String
//verif:noop (github.com/algorand/go-algorand/crypto.Digest).String

type verifC21TxnScript struct {
	cow        *roundCowState
	applied    int
	applyErr   bool
	checked    int
	checkedCow *roundCowState
	// the cow's modified accounts when checkMinBalance looked at it
	seenN    int
	seenData [2]ledgercore.AccountData
	verdict  error
}

var verifC21Script *verifC21TxnScript

var errVerifC21 = errors.New("verif: below minimum balance")
var errVerifC21Apply = errors.New("verif: apply failed")

func verifC21StubTxID(tx transactions.Transaction) transactions.Txid {
	var t transactions.Txid
	t[0] = 0xC2
	t[1] = tx.Sender[0]
	return t
}

func verifC21StubApply(eval *BlockEvaluator, tx transactions.Transaction, cow *roundCowState, evalParams *logic.EvalParams, gi int, ctr uint64) (transactions.ApplyData, error) {
	sc := verifC21Script
	sc.applied++
	vr.Assert("c21.txn.applied-before-check", sc.checked == 0)
	vr.Assert("c21.txn.applied-to-the-group-cow", cow == sc.cow)
	// arbitrary effects: the sender's and the receiver's records
	cow.Put(verifAddr(1), verifAccount("applied.sender"))
	cow.Put(verifAddr(2), verifAccount("applied.receiver"))
	var ad transactions.ApplyData
	ad.ClosingAmount.Raw = vr.U64("applied.closingamount")
	if vr.Bool("applied.fails") {
		sc.applyErr = true
		return ad, errVerifC21Apply
	}
	return ad, nil
}

func verifC21StubCheck(eval *BlockEvaluator, cow *roundCowState) error {
	sc := verifC21Script
	sc.checked++
	sc.checkedCow = cow
	mods := cow.modifiedAccounts()
	sc.seenN = len(mods)
	for k := 0; k < len(mods) && k < 2; k++ {
		sc.seenData[k], _ = cow.lookup(mods[k])
	}
	if vr.Bool("check.fails") {
		sc.verdict = errVerifC21
	}
	return sc.verdict
}

//verif:harness prop=C21 reach=done,accepted,rejected,check-failed,apply-failed,unchecked-mode unwind=10 budget=200 thorough.budget=1500
func VerifC21TransactionChecks() {
	var proto config.ConsensusParams
	proto.ApplyData = vr.Bool("proto.applydata")
	base := verifMakeParent()
	ev := verifEvaluator(base, proto, basics.Round(vr.U64("round")))
	ev.block.BlockHeader.CurrentProtocol = protocol.ConsensusCurrentVersion
	ev.validate = vr.Bool("validate")
	ev.generate = vr.Bool("generate")
	cow := ev.state.child(1)
	sc := &verifC21TxnScript{cow: cow}
	verifC21Script = sc

	var stxn transactions.SignedTxn
	stxn.Txn.Type = protocol.PaymentTx
	stxn.Txn.Sender = verifAddr(1)
	stxn.Txn.Receiver = verifAddr(2)
	stxn.Txn.FirstValid = basics.Round(vr.U64("txn.firstvalid"))
	stxn.Txn.LastValid = basics.Round(vr.U64("txn.lastvalid"))
	// the current protocol requires the genesis hash in every transaction
	ev.block.BlockHeader.GenesisHash[0] = 9
	stxn.Txn.GenesisHash = ev.block.BlockHeader.GenesisHash
	var ad transactions.ApplyData
	ad.ClosingAmount.Raw = vr.U64("claimed.closingamount")
	var txib transactions.SignedTxnInBlock
	evalParams := &logic.EvalParams{}

	err := ev.transaction(stxn, evalParams, 0, ad, cow, &txib)

	if sc.applyErr {
		vr.Reach("apply-failed")
		vr.Assert("c21.txn.apply-failure-rejects", err != nil)
	}
	if sc.checked > 0 && sc.verdict != nil {
		vr.Reach("check-failed")
		vr.Assert("c21.txn.below-minimum-rejects", err != nil && errors.Is(err, errVerifC21))
	}
	if err != nil {
		vr.Reach("rejected")
		vr.Reach("done")
		return
	}
	vr.Reach("accepted")
	vr.Assert("c21.txn.accepted-was-applied-once", sc.applied == 1 && !sc.applyErr)
	if !ev.validate && !ev.generate {
		// replaying a trusted block without validation (indexer mode): documented to skip the check
		vr.Reach("unchecked-mode")
		vr.Assert("c21.txn.no-check-only-when-neither-validating-nor-generating", sc.checked == 0)
		vr.Reach("done")
		return
	}
	vr.Assert("c21.txn.accepted-was-checked-once", sc.checked == 1 && sc.verdict == nil)
	vr.Assert("c21.txn.checked-the-group-cow", sc.checkedCow == cow)
	// nothing was written after the check: the accepted state is the checked state
	mods := cow.modifiedAccounts()
	vr.Assert("c21.txn.no-writes-after-check", len(mods) == sc.seenN && sc.seenN == 2)
	for k := 0; k < len(mods) && k < 2; k++ {
		d, _ := cow.lookup(mods[k])
		vr.Assert("c21.txn.no-writes-after-check", d == sc.seenData[k])
	}
	vr.Reach("done")
}
