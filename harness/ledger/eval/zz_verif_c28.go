//go:build verif

package eval

import (
	"github.com/algorand/go-algorand/config"
	"github.com/algorand/go-algorand/data/basics"
	"github.com/algorand/go-algorand/data/transactions"
	"github.com/algorand/go-algorand/data/transactions/logic"
	vr "github.com/algorand/go-algorand/internal/verifrt"
	"github.com/algorand/go-algorand/protocol"
)

// C28 (ledger side): BlockEvaluator.transaction (validating) applies a
// transaction only if the address its authorization was checked against -
// SignedTxn.AuthAddr, or the sender when that is zero - is the sender's CURRENT
// authorizer in the ledger: the account's AuthAddr (rekeyed), or the sender
// itself. Anything else is an error and nothing is applied.
//
// The sender's account comes from an arbitrary parent state (any of three
// accounts, each rekeyed to any pool address or not at all, lookups may fail).
// applyTransaction (everything after the check) is a recording stub.

func verifC28StubApply(eval *BlockEvaluator, tx transactions.Transaction, cow *roundCowState, evalParams *logic.EvalParams, gi int, ctr uint64) (transactions.ApplyData, error) {
	vr.Event("c28.applied", uint64(tx.Sender[0]))
	return transactions.ApplyData{}, nil
}

func verifC28StubTxID(tx transactions.Transaction) transactions.Txid {
	var id transactions.Txid
	id[0] = 0xC2
	id[1] = tx.Note[0]
	return id
}

// verifC28PoolAddr is verifAddr for a symbolic pool index (0 = zero address).
func verifC28PoolAddr(x uint8) basics.Address {
	var a basics.Address
	if x > 0 {
		a[0] = x
		a[31] = 0x80 + x
	}
	return a
}

//verif:harness prop=C28 reach=done,applied,rejected,rekeyed-ok,self-ok,wrong-authorizer,lookup-failed unwind=12 budget=250 thorough.budget=1500
//verif:stub (*github.com/algorand/go-algorand/ledger/eval.BlockEvaluator).applyTransaction = verifC28StubApply
//verif:stub (github.com/algorand/go-algorand/data/transactions.Transaction).ID = verifC28StubTxID
func VerifC28EvalAuthorizer() {
	var proto config.ConsensusParams
	proto.SupportRekeying = true
	config.Consensus = config.ConsensusProtocols{"vA": proto}

	p := &verifParent{}
	names := [verifNAddr]string{"acct0", "acct1", "acct2", "acct3", "acct4"}
	var ledgerAuth [verifNAddr]uint8
	for i := 1; i <= 3; i++ {
		ledgerAuth[i] = vr.U8(names[i] + ".authaddr")
		vr.Assume(ledgerAuth[i] < verifNAddr)
		p.accts[i].AuthAddr = verifC28PoolAddr(ledgerAuth[i])
		p.accts[i].MicroAlgos.Raw = 1000000
		p.failLookup[i] = vr.Bool(names[i] + ".lookupfails")
	}
	ev := verifEvaluator(p, proto, basics.Round(10))
	ev.block.BlockHeader.CurrentProtocol = "vA"
	ev.validate = true
	ev.generate = true

	si := 1 + vr.Choice("sender", 3)
	claimedIdx := vr.U8("txn.authaddr")
	vr.Assume(claimedIdx < verifNAddr)
	var txn transactions.SignedTxn
	txn.Txn.Type = protocol.PaymentTx
	txn.Txn.Sender = verifAddr(si)
	txn.Txn.Receiver = verifAddr(4)
	txn.Txn.FirstValid, txn.Txn.LastValid = 1, 100
	txn.Txn.Note = []byte{vr.U8("note")}
	txn.AuthAddr = verifC28PoolAddr(claimedIdx)
	txn.Sig[0] = 1

	cow := ev.state.child(1)
	var txib transactions.SignedTxnInBlock
	err := ev.transaction(txn, &logic.EvalParams{}, 0, transactions.ApplyData{}, cow, &txib)

	// oracle
	claimed := txn.Txn.Sender
	if claimedIdx != 0 {
		claimed = verifC28PoolAddr(claimedIdx)
	}
	current := txn.Txn.Sender
	if ledgerAuth[si] != 0 {
		current = verifC28PoolAddr(ledgerAuth[si])
	}
	applied := vr.EventCount("c28.applied")

	if p.failLookup[si] {
		vr.Reach("lookup-failed")
		vr.Assert("c28.eval.unknown-authorizer-rejected", err != nil && applied == 0)
	} else if claimed != current {
		vr.Reach("wrong-authorizer")
		vr.Assert("c28.eval.wrong-authorizer-rejected", err != nil)
		vr.Assert("c28.eval.wrong-authorizer-not-applied", applied == 0)
	} else {
		if ledgerAuth[si] != 0 {
			vr.Reach("rekeyed-ok")
		} else {
			vr.Reach("self-ok")
		}
		vr.Assert("c28.eval.current-authorizer-accepted", err == nil && applied == 1)
	}
	if err == nil {
		vr.Reach("applied")
		vr.Assert("c28.eval.accepted-only-current-authorizer", claimed == current && !p.failLookup[si] && applied == 1)
	} else {
		vr.Reach("rejected")
	}
	vr.Reach("done")
}
