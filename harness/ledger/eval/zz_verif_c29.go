//go:build verif

package eval

import (
	"errors"

	"github.com/algorand/go-algorand/config"
	"github.com/algorand/go-algorand/crypto"
	"github.com/algorand/go-algorand/data/basics"
	"github.com/algorand/go-algorand/data/transactions"
	"github.com/algorand/go-algorand/data/transactions/logic"
	vr "github.com/algorand/go-algorand/internal/verifrt"
	"github.com/algorand/go-algorand/protocol"
)

// C29 (group part): BlockEvaluator.TransactionGroup / TestTransactionGroup accept a
// group only when every member carries the same Group value, that value is
// non-zero when the group has more than one member, and it equals the hash of
// the ORDERED list of the members' IDs computed with the Group field cleared.
//
// Idealisation: hashing is collision free. Transaction.ID is an injective
// uninterpreted function of the transaction's fields (all the fields the
// harness transactions use), crypto.Hash is an injective uninterpreted function
// of its input bytes and TxGroup.ToBeHashed yields the domain separator plus the
// concatenated member hashes (stands for the canonical msgpack encoding of a
// list of 32-byte strings, which is injective; encoding is C40's subject).
// Everything else of TransactionGroup runs for real, except: the per-transaction
// evaluation eval.transaction (a recording stub with a nondeterministic
// verdict per position), well-formedness, encoded length, fee summary (other
// properties).

var verifC29 struct {
	txFail   [4]bool
	feeFail  bool
	evalSeen int
}

var errVerifC29 = errors.New("verif: stubbed check failed")

func verifC29TxFields(tx transactions.Transaction) [][]byte {
	return [][]byte{[]byte(tx.Type), tx.Sender[:], verifC29U64(tx.Fee.Raw), verifC29U64(uint64(tx.FirstValid)),
		verifC29U64(uint64(tx.LastValid)), tx.Note, []byte(tx.GenesisID), tx.GenesisHash[:], tx.Group[:], tx.Lease[:],
		tx.RekeyTo[:], tx.Receiver[:], verifC29U64(tx.Amount.Raw), tx.CloseRemainderTo[:]}
}

func verifC29U64(x uint64) []byte {
	return []byte{byte(x >> 56), byte(x >> 48), byte(x >> 40), byte(x >> 32), byte(x >> 24), byte(x >> 16), byte(x >> 8), byte(x)}
}

func verifC29StubTxID(tx transactions.Transaction) transactions.Txid {
	return transactions.Txid(vr.Hash32("txid", verifC29TxFields(tx)...))
}

func verifC29StubHash(data []byte) crypto.Digest {
	return crypto.Digest(vr.Hash32("hash", data))
}

func verifC29StubGroupToBeHashed(tg transactions.TxGroup) (protocol.HashID, []byte) {
	var b []byte
	for i := range tg.TxGroupHashes {
		b = append(b, tg.TxGroupHashes[i][:]...)
	}
	return protocol.TxGroup, b
}

func verifC29StubTransaction(eval *BlockEvaluator, txn transactions.SignedTxn, evalParams *logic.EvalParams, gi int, ad transactions.ApplyData, cow *roundCowState, txib *transactions.SignedTxnInBlock) error {
	vr.Event("c29.eval", uint64(gi), uint64(txn.Txn.Note[0]))
	if verifC29.txFail[gi] {
		return errVerifC29
	}
	txib.SignedTxn = txn
	return nil
}

func verifC29StubWellFormed(tx transactions.Transaction, spec transactions.SpecialAddresses, proto config.ConsensusParams) error {
	return nil
}

func verifC29StubEncodedLength(s transactions.SignedTxnInBlock) int { return 1 }

func verifC29StubEvalParams(txgroup []transactions.SignedTxnWithAD, proto *config.ConsensusParams, specials *transactions.SpecialAddresses) *logic.EvalParams {
	return &logic.EvalParams{}
}

func verifC29StubSummarizeFees(txgroup []transactions.SignedTxnWithAD, proto config.ConsensusParams) (basics.Micros, basics.MicroAlgos) {
	return 0, basics.MicroAlgos{}
}

func verifC29StubCheckGroupFees(feesPaid basics.MicroAlgos, usage basics.Micros, minFee basics.MicroAlgos) error {
	if verifC29.feeFail {
		return errVerifC29
	}
	return nil
}

func verifC29StubTestTransaction(eval *BlockEvaluator, txn transactions.SignedTxn) error {
	vr.Event("c29.eval", 0, uint64(txn.Txn.Note[0]))
	return nil
}

// verifC29Txn is a minimal payment whose identity is one symbolic note byte
// (two members with equal note bytes are the same transaction) and whose Group
// is arbitrary.
func verifC29Txn(label string) transactions.SignedTxnWithAD {
	var t transactions.SignedTxnWithAD
	t.Txn.Type = protocol.PaymentTx
	t.Txn.Sender = verifAddr(1)
	t.Txn.Receiver = verifAddr(2)
	t.Txn.Note = []byte{vr.U8(label + ".note")}
	vr.Fill(label+".group", t.Txn.Group[:])
	return t
}

// verifC29GroupID is the oracle: hash of the ordered group-less IDs.
func verifC29GroupID(g []transactions.SignedTxnWithAD) crypto.Digest {
	var b []byte
	for i := range g {
		tx := g[i].Txn
		tx.Group = crypto.Digest{}
		id := vr.Hash32("txid", verifC29TxFields(tx)...)
		b = append(b, id[:]...)
	}
	return crypto.Digest(vr.Hash32("hash", append([]byte(protocol.TxGroup), b...)))
}

func verifC29Evaluator(maxGroup int) *BlockEvaluator {
	var proto config.ConsensusParams
	proto.MaxTxGroupSize = maxGroup
	proto.SupportTxGroups = true
	ev := verifEvaluator(&verifParent{}, proto, basics.Round(10))
	ev.maxTxnBytesPerBlock = 1 << 20
	return ev
}

func verifC29Group(n int) []transactions.SignedTxnWithAD {
	labels := [4]string{"t0", "t1", "t2", "t3"}
	g := make([]transactions.SignedTxnWithAD, n)
	for i := 0; i < n; i++ {
		g[i] = verifC29Txn(labels[i])
	}
	return g
}

func verifC29Oracle() {
	verifC29.txFail = [4]bool{vr.Bool("fail0"), vr.Bool("fail1"), vr.Bool("fail2"), vr.Bool("fail3")}
	verifC29.feeFail = vr.Bool("feefail")
}

// verifC29AssertBound states what acceptance of g must imply.
func verifC29AssertBound(g []transactions.SignedTxnWithAD, maxGroup int) {
	n := len(g)
	vr.Assert("c29.group.size-bounded", n <= maxGroup)
	zero := crypto.Digest{}
	for i := 1; i < n; i++ {
		vr.Assert("c29.group.same-id", g[i].Txn.Group == g[0].Txn.Group)
	}
	if n > 1 {
		vr.Assert("c29.group.nonzero", g[0].Txn.Group != zero)
	}
	if g[0].Txn.Group != zero {
		vr.Reach("grouped")
		vr.Assert("c29.group.id-is-hash-of-ordered-members", g[0].Txn.Group == verifC29GroupID(g))
	} else {
		vr.Reach("single-ungrouped")
	}
}

//verif:harness prop=C29 reach=done,accepted,rejected,grouped,single-ungrouped unwind=12 budget=200 thorough.budget=1200
//verif:stub (*github.com/algorand/go-algorand/ledger/eval.BlockEvaluator).transaction = verifC29StubTransaction
//verif:stub (github.com/algorand/go-algorand/data/transactions.Transaction).ID = verifC29StubTxID
//verif:stub (github.com/algorand/go-algorand/data/transactions.Transaction).WellFormed = verifC29StubWellFormed
//verif:stub (github.com/algorand/go-algorand/data/transactions.SignedTxnInBlock).GetEncodedLength = verifC29StubEncodedLength
//verif:stub (github.com/algorand/go-algorand/data/transactions.TxGroup).ToBeHashed = verifC29StubGroupToBeHashed
//verif:stub github.com/algorand/go-algorand/crypto.Hash = verifC29StubHash
//verif:stub github.com/algorand/go-algorand/data/transactions/logic.NewAppEvalParams = verifC29StubEvalParams
//verif:stub github.com/algorand/go-algorand/data/transactions.SummarizeFees = verifC29StubSummarizeFees
//verif:stub github.com/algorand/go-algorand/ledger/eval.CheckGroupFees = verifC29StubCheckGroupFees
func VerifC29TransactionGroup() {
	maxGroup := 1 + vr.Choice("maxgroup", 3)
	n := 1 + vr.Choice("n", vr.Param(3, 4))
	ev := verifC29Evaluator(maxGroup)
	ev.validate = vr.Bool("validate")
	verifC29Oracle()
	g := verifC29Group(n)
	before := len(ev.block.Payset)
	err := ev.TransactionGroup(g...)
	if err != nil {
		vr.Reach("rejected")
		vr.Assert("c29.group.rejected-adds-nothing", len(ev.block.Payset) == before)
		vr.Reach("done")
		return
	}
	vr.Reach("accepted")
	verifC29AssertBound(g, maxGroup)
	// every member was evaluated, once, in order, and none failed
	vr.Assert("c29.group.all-members-evaluated", vr.EventCount("c29.eval") == n)
	for i := 0; i < n; i++ {
		e := vr.EventIndex("c29.eval", i)
		vr.Assert("c29.group.evaluated-in-order", vr.EventArg(e, 0) == uint64(i) && vr.EventArg(e, 1) == uint64(g[i].Txn.Note[0]))
		vr.Assert("c29.group.no-failed-member", !verifC29.txFail[i])
	}
	vr.Assert("c29.group.fees-checked", !verifC29.feeFail)
	vr.Assert("c29.group.payset-extended", len(ev.block.Payset) == before+n)
	vr.Reach("done")
}

// The pre-check used for pool admission repeats the group rules.
//verif:harness prop=C29 reach=done,accepted,rejected,grouped,single-ungrouped unwind=12 budget=200 thorough.budget=1200
//verif:stub (*github.com/algorand/go-algorand/ledger/eval.BlockEvaluator).testTransaction = verifC29StubTestTransaction
//verif:stub (github.com/algorand/go-algorand/data/transactions.Transaction).ID = verifC29StubTxID
//verif:stub (github.com/algorand/go-algorand/data/transactions.Transaction).WellFormed = verifC29StubWellFormed
//verif:stub (github.com/algorand/go-algorand/data/transactions.TxGroup).ToBeHashed = verifC29StubGroupToBeHashed
//verif:stub github.com/algorand/go-algorand/crypto.Hash = verifC29StubHash
func VerifC29TestTransactionGroup() {
	maxGroup := 1 + vr.Choice("maxgroup", 3)
	n := 1 + vr.Choice("n", vr.Param(3, 4))
	ev := verifC29Evaluator(maxGroup)
	g := verifC29Group(n)
	sg := make([]transactions.SignedTxn, n)
	for i := range g {
		sg[i] = g[i].SignedTxn
	}
	err := ev.TestTransactionGroup(sg)
	if err != nil {
		vr.Reach("rejected")
		vr.Reach("done")
		return
	}
	vr.Reach("accepted")
	verifC29AssertBound(g, maxGroup)
	vr.Assert("c29.testgroup.all-members-tested", vr.EventCount("c29.eval") == n)
	vr.Reach("done")
}
