//go:build verif

package eval

import (
	"errors"

	"github.com/algorand/go-algorand/config"
	"github.com/algorand/go-algorand/crypto"
	"github.com/algorand/go-algorand/data/basics"
	"github.com/algorand/go-algorand/data/transactions"
	"github.com/algorand/go-algorand/data/transactions/logic"
	vr "github.com/algorand/go-algorand/internal/verifrt"
	"github.com/algorand/go-algorand/ledger/ledgercore"
	"github.com/algorand/go-algorand/protocol"
)

// C19 (lemma level, part 2): BlockEvaluator.TransactionGroup is all-or-nothing.
//
// The REAL TransactionGroup runs (group size limit, WellFormed, child cow,
// per-member loop, block space check, group-id checks, CheckGroupFees, payset
// append + commitToParent, the deferred recycle and the recover / corruptedState
// handling) with BlockEvaluator.transaction replaced by a stub that does what
// any transaction may do with the cow it is handed - arbitrary account writes,
// a box write, recording the transaction and its fee - and then succeeds, fails,
// or panics, as nondeterministic flags say. The evaluator sits on an arbitrary
// ledger and may already hold an earlier group.
//
// Checked: if TransactionGroup returns an error, every observation of the
// evaluator (all pool accounts, the box, duplicate verdicts for the members,
// counters, payset, block bytes) is exactly as before and the evaluator is not
// marked corrupt; if it returns nil, exactly the members' writes are visible,
// every member was evaluated once, in order, against a child of eval.state, and
// the payset grew by the members' encodings in order.
//
// Not covered here: that the real eval.transaction writes only to the cow it is
// handed (true by its signature for the cow state; AVM internals not examined).
//
// Trusted stand-ins: crypto.Hash is a collision-free uninterpreted function;
// Transaction.ID and TxGroup.ToBeHashed hash a fixed-width rendering of the
// fields this harness varies (instead of the msgpack encoding);
// SignedTxnInBlock.GetEncodedLength is an arbitrary positive length.

//verif:stub (*github.com/algorand/go-algorand/ledger/eval.BlockEvaluator).transaction = verifC19StubTransaction
//verif:stub (github.com/algorand/go-algorand/data/transactions.Transaction).ID = verifC19StubTxID
//verif:stub (github.com/algorand/go-algorand/data/transactions.TxGroup).ToBeHashed = verifC19StubGroupRep
//verif:stub (github.com/algorand/go-algorand/data/transactions.SignedTxnInBlock).GetEncodedLength = verifC19StubEncodedLength
//verif:stub github.com/algorand/go-algorand/crypto.Hash = verifC19StubHash
//verif:noop (github.com/algorand/go-algorand/data/basics.Address).String
//verif:noop (github.com/algorand/go-algorand/crypto.Digest).String

func verifC19StubHash(data []byte) crypto.Digest {
	return crypto.Digest(vr.Hash32("crypto.Hash", data))
}

func verifC19U64Bytes(b []byte, x uint64) []byte {
	return append(b, byte(x>>56), byte(x>>48), byte(x>>40), byte(x>>32), byte(x>>24), byte(x>>16), byte(x>>8), byte(x))
}

func verifC19StubTxID(tx transactions.Transaction) transactions.Txid {
	b := make([]byte, 0, 2+32+32+32+3*8)
	b = append(b, 'T', 'X')
	b = append(b, tx.Sender[:]...)
	b = append(b, tx.Group[:]...)
	b = append(b, tx.Receiver[:]...)
	b = verifC19U64Bytes(b, tx.Fee.Raw)
	b = verifC19U64Bytes(b, uint64(tx.FirstValid))
	b = verifC19U64Bytes(b, uint64(tx.LastValid))
	return transactions.Txid(crypto.Hash(b))
}

func verifC19StubGroupRep(tg transactions.TxGroup) (protocol.HashID, []byte) {
	var b []byte
	for _, h := range tg.TxGroupHashes {
		b = append(b, h[:]...)
	}
	return protocol.TxGroup, b
}

var verifC19LenNames = [3]string{"enclen0", "enclen1", "enclen2"}

func verifC19StubEncodedLength(s transactions.SignedTxnInBlock) int {
	sc := verifC19Script
	k := sc.lens
	sc.lens++
	n := int(vr.U16(verifC19LenNames[k]))
	vr.Assume(n >= 1)
	sc.totalLen += n
	return n
}

var errVerifC19Txn = errors.New("verif: transaction failed")

const verifC19MaxGroup = 3

// what the stubbed eval.transaction did (the ghost of one TransactionGroup call)
type verifC19GroupScript struct {
	eval     *BlockEvaluator
	calls    int
	lens     int
	totalLen int
	accts    verifC19Accts // accounts written to the child cow
	kvWrote  bool
	kvVal    []byte
	fees     vr.Z
	txids    [verifC19MaxGroup]transactions.Txid
	closing  [verifC19MaxGroup]uint64
	outcome  [verifC19MaxGroup]int
	panicked bool
}

var verifC19Script *verifC19GroupScript

var verifC19TxNames = [verifC19MaxGroup]string{"txn0", "txn1", "txn2"}

const (
	verifC19OK    = 0
	verifC19Fail  = 1
	verifC19Panic = 2
)

func verifC19StubTransaction(eval *BlockEvaluator, txn transactions.SignedTxn, evalParams *logic.EvalParams, gi int, ad transactions.ApplyData, cow *roundCowState, txib *transactions.SignedTxnInBlock) error {
	sc := verifC19Script
	vr.Assert("c19.group.members-in-order", gi == sc.calls && gi < verifC19MaxGroup)
	vr.Assert("c19.group.evaluated-on-child", eval == sc.eval && cow != eval.state && cow.commitParent == eval.state && cow.lookupParent == roundCowParent(eval.state))
	sc.calls++
	label := verifC19TxNames[gi]

	// the transaction's effects, all on the cow it was handed: the sender's record
	// (account 1 or 2) changes arbitrarily (or the account is closed) ...
	i := 1 + vr.Choice(label+".writes", 2)
	d := verifAccount(label + ".sender")
	if vr.Bool(label + ".close") {
		d = ledgercore.AccountData{}
	}
	cow.Put(verifAddr(i), d)
	sc.accts.has[i], sc.accts.val[i] = true, d
	// ... the first member also writes a box ...
	if gi == 0 {
		v := vr.BytesN(label+".box", 1)
		cow.kvPut(verifC19Key(0), v)
		sc.kvWrote, sc.kvVal = true, v
	}
	// ... the fee is tallied (as takeFee does) ...
	cow.feesCollected, _ = basics.OAddA(cow.feesCollected, txn.Txn.Fee)
	sc.fees = sc.fees.Add(vr.ZU(txn.Txn.Fee.Raw))

	out := vr.Choice(label+".outcome", 3)
	sc.outcome[gi] = out
	switch out {
	case verifC19Fail:
		return errVerifC19Txn
	case verifC19Panic:
		sc.panicked = true
		panic("verif: transaction panicked")
	}
	// ... and on success the transaction is remembered and encoded for the block
	txid := txn.ID()
	cow.addTx(txn.Txn, txid)
	sc.txids[gi] = txid
	sc.closing[gi] = vr.U64(label + ".closingamount")
	txib.SignedTxn = txn
	txib.ApplyData.ClosingAmount.Raw = sc.closing[gi]
	return nil
}

// everything an outside observer can see of the evaluator
type verifC19View struct {
	acct       [verifNAddr]ledgercore.AccountData
	acctErr    [verifNAddr]bool
	boxOK      bool
	box        []byte
	dup        [verifC19MaxGroup]bool
	txnCount   uint64
	fees       uint64
	nTxids     int
	payset     int
	paysetLast uint64
	txBytes    int
	modified   int
}

func verifC19Observe(ev *BlockEvaluator, ids []transactions.Txid) verifC19View {
	var v verifC19View
	for i := 0; i < verifNAddr; i++ {
		d, err := ev.state.lookup(verifAddr(i))
		v.acct[i], v.acctErr[i] = d, err != nil
	}
	v.box, v.boxOK, _ = ev.state.kvGet(verifC19Key(0))
	for k, id := range ids {
		v.dup[k] = ev.state.checkDup(0, 0, id, ledgercore.Txlease{}) != nil
	}
	v.txnCount = ev.state.txnCount
	v.fees = ev.state.feesCollected.Raw
	v.nTxids = len(ev.state.mods.Txids)
	v.payset = len(ev.block.Payset)
	if v.payset > 0 {
		v.paysetLast = ev.block.Payset[v.payset-1].ApplyData.ClosingAmount.Raw
	}
	v.txBytes = ev.blockTxBytes
	v.modified = len(ev.state.modifiedAccounts())
	return v
}

func verifC19SameView(a, b verifC19View) {
	for i := 0; i < verifNAddr; i++ {
		vr.Assert("c19.group.failed-accounts-unchanged", a.acctErr[i] == b.acctErr[i] && a.acct[i] == b.acct[i])
	}
	vr.Assert("c19.group.failed-box-unchanged", a.boxOK == b.boxOK && string(a.box) == string(b.box))
	vr.Assert("c19.group.failed-no-txids-leaked", a.dup == b.dup && a.nTxids == b.nTxids)
	vr.Assert("c19.group.failed-counters-unchanged", a.txnCount == b.txnCount && a.fees == b.fees)
	vr.Assert("c19.group.failed-payset-unchanged", a.payset == b.payset && a.paysetLast == b.paysetLast)
	vr.Assert("c19.group.failed-block-bytes-unchanged", a.txBytes == b.txBytes)
	vr.Assert("c19.group.failed-modified-set-unchanged", a.modified == b.modified)
}

// verifC19Member: a payment from account 1 or 2 (or from the zero address, which is malformed)
func verifC19Member(label string) transactions.SignedTxnWithAD {
	var s transactions.SignedTxnWithAD
	tx := &s.SignedTxn.Txn
	tx.Type = protocol.PaymentTx
	x := vr.U8(label + ".sender")
	vr.Assume(x <= 2)
	tx.Sender[0] = x
	tx.Receiver = verifAddr(2)
	tx.Fee.Raw = vr.U64(label + ".fee")
	tx.FirstValid = basics.Round(vr.U64(label + ".firstvalid"))
	tx.LastValid = basics.Round(vr.U64(label + ".lastvalid"))
	return s
}

func verifC19GroupEvaluator(full bool) (*BlockEvaluator, *verifParent) {
	var proto config.ConsensusParams
	proto.MaxTxGroupSize = int(vr.U8("proto.maxtxgroupsize"))
	proto.SupportTxGroups = true
	proto.MaxTxnLife = vr.U64("proto.maxtxnlife")
	proto.MinTxnFee = 1000 // (the fee arithmetic itself is C24's subject)
	base := verifMakeParent()
	p := &verifC19Parent{verifParent: base}
	p.kvKey = verifC19Key(0)
	p.kvHas = vr.Bool("ledger.hasbox")
	p.kvVal = vr.BytesN("ledger.box", 1)
	ev := verifEvaluator(base, proto, basics.Round(vr.U64("round")))
	ev.state.lookupParent = p
	ev.validate = true
	if full || vr.Param(0, 1) == 1 {
		ev.validate = vr.Bool("validate")
	}
	ev.generate = true
	ev.specials = transactions.SpecialAddresses{FeeSink: verifAddr(3), RewardsPool: verifAddr(4)}
	ev.maxTxnBytesPerBlock = int(vr.U32("maxtxnbytes"))
	ev.blockTxBytes = int(vr.U32("blocktxbytes"))
	// an earlier group: account 1 written, one transaction in the payset
	if vr.Bool("earlier-group") {
		ev.state.Put(verifAddr(1), verifAccount("earlier"))
		var tx transactions.Transaction
		tx.Sender = verifAddr(2)
		ev.state.addTx(tx, verifC19Txid(0))
		var txib transactions.SignedTxnInBlock
		txib.ApplyData.ClosingAmount.Raw = vr.U64("earlier.closingamount")
		ev.block.Payset = append(ev.block.Payset, txib)
		ev.state.feesCollected.Raw = vr.U64("earlier.fees")
		vr.Assume(ev.state.feesCollected.Raw < 1<<62) // bounded by the money supply
	}
	return ev, base
}

// full: also without validation and from an evaluator already marked corrupt (in the
// quick tier only for groups of at most one transaction)
func verifC19RunGroup(n int, groupMode int, full bool) {
	ev, _ := verifC19GroupEvaluator(full)
	group := make([]transactions.SignedTxnWithAD, n)
	for k := 0; k < n; k++ {
		group[k] = verifC19Member(verifC19TxNames[k])
		vr.Assume(group[k].SignedTxn.Txn.Fee.Raw < 1<<61) // nobody can pay more than the money supply
	}
	// group ids. groupMode 0: none; 1: the correct hash of the members; 2: a wrong
	// value; 3: correct on the first member only (inconsistent)
	if groupMode != 0 && n > 0 {
		var tg transactions.TxGroup
		for k := 0; k < n; k++ {
			tg.TxGroupHashes = append(tg.TxGroupHashes, crypto.Digest(group[k].SignedTxn.Txn.ID()))
		}
		gid := crypto.HashObj(tg)
		if groupMode == 2 {
			gid[5] ^= 1
		}
		for k := 0; k < n; k++ {
			if groupMode != 3 || k == 0 {
				group[k].SignedTxn.Txn.Group = gid
			}
		}
	}
	ids := make([]transactions.Txid, n)
	for k := 0; k < n; k++ {
		ids[k] = group[k].SignedTxn.Txn.ID()
		for j := 0; j < k; j++ {
			// the members are distinct transactions (a repeated member is refused by
			// eval.transaction's duplicate check, C11, which the stub does not model)
			vr.Assume(ids[j] != ids[k])
		}
	}
	sc := &verifC19GroupScript{eval: ev, fees: vr.ZU(0)}
	verifC19Script = sc
	corruptBefore := false
	if full || vr.Param(0, 1) == 1 {
		corruptBefore = vr.Bool("corrupted")
	}
	ev.corruptedState = corruptBefore

	before := verifC19Observe(ev, ids)
	for k := 0; k < n; k++ {
		// ... and none of them is already part of the block (same reason; without this
		// the solver picks a hash value equal to the earlier group's transaction id)
		vr.Assume(!before.dup[k])
	}
	err := ev.TransactionGroup(group...)
	after := verifC19Observe(ev, ids)

	if err != nil {
		vr.Reach("rejected")
		verifC19SameView(before, after)
		vr.Assert("c19.group.failed-not-marked-corrupt", ev.corruptedState == corruptBefore)
		if corruptBefore {
			vr.Reach("refused-corrupt")
			vr.Assert("c19.group.corrupt-evaluator-refuses", err == ledgercore.ErrEvaluatorCorruptedState && sc.calls == 0)
		}
		if sc.panicked {
			vr.Reach("panic-contained")
			_, isPanic := err.(ledgercore.EvalPanicError)
			vr.Assert("c19.group.panic-reported", isPanic)
		}
		for k := 0; k < sc.calls; k++ {
			if sc.outcome[k] == verifC19Fail {
				vr.Reach("member-failed")
				vr.Assert("c19.group.stops-at-first-failure", k == sc.calls-1 && err == errVerifC19Txn)
			}
		}
		if sc.calls == n && n > 0 && !sc.panicked && sc.outcome[n-1] == verifC19OK {
			vr.Reach("rejected-after-all-members") // block space, group id or fee checks
		}
		vr.Reach("done")
		return
	}
	vr.Reach("accepted")
	vr.Assert("c19.group.accepted-not-corrupt", !corruptBefore && !ev.corruptedState)
	if n == 0 {
		verifC19SameView(before, after)
		vr.Reach("empty")
		vr.Reach("done")
		return
	}
	vr.Assert("c19.group.within-size-limit", n <= ev.proto.MaxTxGroupSize)
	vr.Assert("c19.group.every-member-evaluated-once", sc.calls == n && !sc.panicked)
	for k := 0; k < n; k++ {
		vr.Assert("c19.group.every-member-succeeded", sc.outcome[k] == verifC19OK)
	}
	// exactly the members' writes are visible
	for i := 0; i < verifNAddr; i++ {
		if sc.accts.has[i] {
			vr.Assert("c19.group.accepted-writes-visible", !after.acctErr[i] && after.acct[i] == sc.accts.val[i])
		} else {
			vr.Assert("c19.group.accepted-nothing-else-written", after.acctErr[i] == before.acctErr[i] && after.acct[i] == before.acct[i])
		}
	}
	vr.Assert("c19.group.accepted-box-visible", after.boxOK && string(after.box) == string(sc.kvVal))
	for k := 0; k < n; k++ {
		vr.Assert("c19.group.accepted-members-recorded", !before.dup[k] && after.dup[k])
	}
	vr.Assert("c19.group.accepted-txids-add-up", after.nTxids == before.nTxids+n)
	vr.Assert("c19.group.accepted-count-adds-up", vr.ZU(after.txnCount).Eq(vr.ZU(before.txnCount).Add(vr.ZU(uint64(n)))))
	vr.Assert("c19.group.accepted-fees-add-up", vr.ZU(after.fees).Eq(vr.ZU(before.fees).Add(sc.fees)))
	// the payset grew by the members, in order
	vr.Assert("c19.group.accepted-payset-grew", after.payset == before.payset+n)
	for k := 0; k < n; k++ {
		e := ev.block.Payset[before.payset+k]
		vr.Assert("c19.group.accepted-payset-in-order", e.SignedTxn.Txn.Sender == group[k].SignedTxn.Txn.Sender && e.SignedTxn.Txn.Fee == group[k].SignedTxn.Txn.Fee && e.ApplyData.ClosingAmount.Raw == sc.closing[k])
	}
	if before.payset > 0 {
		vr.Assert("c19.group.accepted-earlier-payset-kept", ev.block.Payset[before.payset-1].ApplyData.ClosingAmount.Raw == before.paysetLast)
	}
	if ev.validate {
		vr.Assert("c19.group.accepted-block-bytes", after.txBytes == before.txBytes+sc.totalLen && after.txBytes <= ev.maxTxnBytesPerBlock)
	} else {
		vr.Assert("c19.group.accepted-block-bytes", after.txBytes == before.txBytes)
	}
	// group id rules
	for k := 0; k < n; k++ {
		vr.Assert("c19.group.accepted-consistent-group-id", group[k].SignedTxn.Txn.Group == group[0].SignedTxn.Txn.Group)
	}
	if n > 1 {
		vr.Assert("c19.group.accepted-multi-needs-group-id", !group[0].SignedTxn.Txn.Group.IsZero())
	}
	vr.Reach("done")
}

//verif:harness prop=C19 reach=done,accepted,empty,rejected,refused-corrupt unwind=12 budget=200 thorough.budget=1500
func VerifC19GroupEmpty() { verifC19RunGroup(0, 0, true) }

// single transaction, without and with a (correct or wrong) group id
//verif:harness prop=C19 reach=done,accepted,rejected,refused-corrupt,panic-contained,member-failed,rejected-after-all-members unwind=12 budget=200 thorough.budget=1500
func VerifC19GroupSingle() { verifC19RunGroup(1, vr.Choice("groupmode", 3), true) }

// two transactions, group id absent / correct / wrong / inconsistent
//verif:harness prop=C19 reach=done,accepted,rejected,panic-contained,member-failed,rejected-after-all-members unwind=12 budget=250 thorough.budget=1500
func VerifC19GroupPair() { verifC19RunGroup(2, vr.Choice("groupmode", 4), false) }

// three transactions with the correct group id
//verif:harness prop=C19 tier=thorough reach=done,accepted,rejected,panic-contained,member-failed unwind=12 budget=1500
func VerifC19GroupTriple() { verifC19RunGroup(3, 1, false) }
