//go:build verif

package eval

import (
	"github.com/algorand/go-algorand/config"
	"github.com/algorand/go-algorand/data/basics"
	vr "github.com/algorand/go-algorand/internal/verifrt"
)

// C27: suspension and expiry lists are justified.
// The block's ExpiredParticipationAccounts / AbsentParticipationAccounts hold up
// to 3 addresses drawn (with repetition allowed) from the representative pool;
// account records, online stake and the round are arbitrary.

func verifAddrList(label string, n int) []basics.Address {
	l := make([]basics.Address, n)
	names := []string{label + "0", label + "1", label + "2"}
	for i := 0; i < n; i++ {
		l[i] = verifPickAddr(names[i])
	}
	return l
}

//verif:harness prop=C27 reach=done,accepted,rejected unwind=8
func VerifC27Expired() {
	var proto config.ConsensusParams
	proto.MaxProposedExpiredOnlineAccounts = vr.Choice("maxexpired", 4)
	p := verifMakeParent()
	rnd := basics.Round(vr.U64("round"))
	ev := verifEvaluator(p, proto, rnd)
	n := vr.Choice("n", 4)
	list := verifAddrList("exp", n)
	ev.block.ParticipationUpdates.ExpiredParticipationAccounts = list

	err := ev.validateExpiredOnlineAccounts()
	if err != nil {
		vr.Reach("rejected")
		vr.Reach("done")
		return
	}
	vr.Reach("accepted")
	vr.Assert("c27.expired.length", n <= proto.MaxProposedExpiredOnlineAccounts)
	for i := 0; i < n; i++ {
		for j := i + 1; j < n; j++ {
			vr.Assert("c27.expired.no-duplicates", list[i] != list[j])
		}
		acct := p.accts[verifAddrIndex(list[i])]
		vr.Assert("c27.expired.has-vote-key", !acct.VoteID.IsEmpty())
		vr.Assert("c27.expired.really-expired", acct.VoteLastValid < rnd)
	}
	vr.Reach("done")
}

//verif:harness prop=C27 reach=done,accepted,rejected unwind=8 budget=280 thorough.budget=2400
func VerifC27Absent() {
	var proto config.ConsensusParams
	proto.Payouts.MaxMarkAbsent = vr.Choice("maxabsent", vr.Param(3, 4))
	// no challenge in force (ChallengeInterval = 0): the stake-proportional rule alone decides
	p := verifMakeParent()
	rnd := basics.Round(vr.U64("round"))
	// ledger invariant maintained by the evaluator (LastProposed/LastHeartbeat are
	// only ever set to the round being evaluated): nobody was seen in the future
	vr.Assume(rnd < 1<<62) // round numbers are nowhere near wrapping
	for i := range p.accts {
		vr.Assume(p.accts[i].LastProposed <= rnd && p.accts[i].LastHeartbeat <= rnd)
	}
	ev := verifEvaluator(p, proto, rnd)
	n := vr.Choice("n", vr.Param(3, 4)) // quick: lists of <= 2, thorough: <= 3
	list := verifAddrList("abs", n)
	ev.block.ParticipationUpdates.AbsentParticipationAccounts = list

	err := ev.validateAbsentOnlineAccounts()
	if err != nil {
		vr.Reach("rejected")
		vr.Reach("done")
		return
	}
	vr.Reach("accepted")
	vr.Assert("c27.absent.length", n <= proto.Payouts.MaxMarkAbsent)
	total := vr.ZU(p.stake.Raw)
	for i := 0; i < n; i++ {
		for j := i + 1; j < n; j++ {
			vr.Assert("c27.absent.no-duplicates", list[i] != list[j])
		}
		k := verifAddrIndex(list[i])
		acct := p.accts[k]
		vr.Assert("c27.absent.online", acct.Status == basics.Online)
		vr.Assert("c27.absent.nonzero", acct.MicroAlgos.Raw != 0)
		vr.Assert("c27.absent.eligible", acct.IncentiveEligible)
		// stake-proportional absence rule, in exact integers:
		//   lastSeen != 0, stake != 0, lag = floor(20*total/stake) <= MaxUint32, lastSeen + lag < round
		stake := p.online[k].MicroAlgosWithRewards.Raw
		lastSeen := uint64(acct.LastProposed)
		if uint64(acct.LastHeartbeat) > lastSeen {
			lastSeen = uint64(acct.LastHeartbeat)
		}
		vr.Assert("c27.absent.seen-before", lastSeen != 0 && stake != 0)
		if stake != 0 {
			// lag <= 2^32-1   <=>  20*total < 2^32 * stake ;  lastSeen + lag < round  <=>  lag < round-lastSeen
			// floor(x/s) < d  <=>  x < d*s
			x := vr.ZU(20).Mul(total)
			vr.Assert("c27.absent.lag-sane", x.Lt(vr.ZU(1<<32).Mul(vr.ZU(stake))))
			gap := vr.ZU(uint64(rnd)).Sub(vr.ZU(lastSeen))
			vr.Assert("c27.absent.rule", gap.Gt(vr.ZU(0)) && x.Lt(gap.Mul(vr.ZU(stake))))
		}
	}
	vr.Reach("done")
}
