//go:build verif

package ledger

import (
	"context"
	"errors"

	"github.com/algorand/go-algorand/crypto"
	"github.com/algorand/go-algorand/data/basics"
	"github.com/algorand/go-algorand/data/bookkeeping"
	vr "github.com/algorand/go-algorand/internal/verifrt"
	"github.com/algorand/go-algorand/ledger/ledgercore"
	"github.com/algorand/go-algorand/ledger/store/trackerdb"
)

// C16 (label check only): catchpointCatchupAccessorImpl.VerifyCatchpoint(blk)
// returns nil exactly when the stored catchup block round is blk's round and
// the stored label is the label of
//   (that round, blk's digest, the balances trie root, the account totals,
//    and - per stored file version - the state proof verification hash (V7,
//    V8), the online accounts and online round params hashes (V8))
// as reconstructed from the staging tables; an unsupported version, a failed
// read or ANY differing ingredient is an error.
//
// Idealisation: the label is an injective function of (round, pre-image buffer
// of the real label maker) - MakeLabel's SHA-512/256 + base32 + Sprintf are
// replaced, the label makers and their buffers are the real ones; the encoded
// totals are an injective fixed-width encoding (reflection encoder stubbed);
// blk.Digest() is an injective function of the header fields the harness
// blocks differ in. What the staging tables contain (GetVerifyData: trie root,
// totals, hashes - the DB) and the catchpoint state store are nondeterministic
// fakes. Chunk processing, trie rebuild and file generation are NOT covered.

var errVerifC16 = errors.New("verif: read failed")

type verifC16Store struct {
	trackerdb.CatchpointReaderWriter // unused methods (nil)
	label                            string
	version, round                   uint64
	failLabel, failVersion, failRound bool
}

func (s *verifC16Store) ReadCatchpointStateString(ctx context.Context, stateName trackerdb.CatchpointState) (string, error) {
	if stateName != trackerdb.CatchpointStateCatchupLabel {
		return "wrong-key", nil
	}
	if s.failLabel {
		return "", errVerifC16
	}
	return s.label, nil
}

func (s *verifC16Store) ReadCatchpointStateUint64(ctx context.Context, stateName trackerdb.CatchpointState) (uint64, error) {
	switch stateName {
	case trackerdb.CatchpointStateCatchupVersion:
		if s.failVersion {
			return 0, errVerifC16
		}
		return s.version, nil
	case trackerdb.CatchpointStateCatchupBlockRound:
		if s.failRound {
			return 0, errVerifC16
		}
		return s.round, nil
	}
	return 0xdeadbeef, nil
}

type verifC16Data struct {
	balances, sp, oa, orp crypto.Digest
	totals                ledgercore.AccountTotals
	fail                  bool
}

var verifC16Staging verifC16Data

func verifC16StubGetVerifyData(c *catchpointCatchupAccessorImpl, ctx context.Context) (balancesHash, spverHash, onlineAccountsHash, onlineRoundParamsHash crypto.Digest, totals ledgercore.AccountTotals, err error) {
	d := verifC16Staging
	if d.fail {
		err = errVerifC16
		return
	}
	return d.balances, d.sp, d.oa, d.orp, d.totals, nil
}

func verifC16U64(x uint64) []byte {
	return []byte{byte(x >> 56), byte(x >> 48), byte(x >> 40), byte(x >> 32), byte(x >> 24), byte(x >> 16), byte(x >> 8), byte(x)}
}

func verifC16Label(rnd basics.Round, preimage []byte) string {
	h := vr.Hash32("label", preimage)
	return string(verifC16U64(uint64(rnd))) + "#" + string(h[:])
}

func verifC16StubMakeLabel(l ledgercore.CatchpointLabelMaker) string {
	buf, rnd := ledgercore.VerifC16LabelParts(l)
	return verifC16Label(rnd, buf)
}

func verifC16StubEncodeReflect(obj interface{}) []byte {
	return ledgercore.VerifC16EncodeTotals(obj.(*ledgercore.AccountTotals))
}

func verifC16BlockFields(b bookkeeping.Block) [][]byte {
	return [][]byte{verifC16U64(uint64(b.BlockHeader.Round)), b.BlockHeader.Seed[:], b.BlockHeader.Branch[:]}
}

func verifC16StubBlockDigest(b bookkeeping.Block) crypto.Digest {
	return crypto.Digest(vr.Hash32("blockdigest", verifC16BlockFields(b)...))
}

func verifC16SymDigest(label string) crypto.Digest {
	var d crypto.Digest
	d[0] = vr.U8(label + ".0")
	d[31] = vr.U8(label + ".31")
	return d
}

func verifC16SymData(label string) verifC16Data {
	var d verifC16Data
	d.balances = verifC16SymDigest(label + ".balances")
	d.sp = verifC16SymDigest(label + ".spver")
	d.oa = verifC16SymDigest(label + ".onlineaccts")
	d.orp = verifC16SymDigest(label + ".onlineroundparams")
	d.totals.Online.Money.Raw = vr.U64(label + ".totals.online")
	d.totals.RewardsLevel = vr.U64(label + ".totals.rewardslevel")
	return d
}

func verifC16SymBlock(label string) *bookkeeping.Block {
	var b bookkeeping.Block
	b.BlockHeader.Round = basics.Round(vr.U64(label + ".round"))
	b.BlockHeader.Seed[3] = vr.U8(label + ".seed")
	return &b
}

// verifC16Want is the oracle: the label that commits to the given ingredients
// under file version v (ok=false: version not supported).
func verifC16Want(v uint64, rnd basics.Round, b *bookkeeping.Block, d verifC16Data) (string, bool) {
	bd := vr.Hash32("blockdigest", verifC16BlockFields(*b)...)
	pre := append(append(append([]byte{}, bd[:]...), d.balances[:]...), ledgercore.VerifC16EncodeTotals(&d.totals)...)
	switch {
	case v <= CatchpointFileVersionV6:
	case v == CatchpointFileVersionV7:
		pre = append(pre, d.sp[:]...)
	case v == CatchpointFileVersionV8:
		pre = append(append(append(pre, d.sp[:]...), d.oa[:]...), d.orp[:]...)
	default:
		return "", false
	}
	return verifC16Label(rnd, pre), true
}

func verifC16SymStore() *verifC16Store {
	s := &verifC16Store{}
	s.version = vr.U64("stored.version")
	s.round = vr.U64("stored.blockround")
	s.failLabel, s.failVersion, s.failRound = vr.Bool("stored.label.readfails"), vr.Bool("stored.version.readfails"), vr.Bool("stored.blockround.readfails")
	return s
}

//verif:harness prop=C16 reach=done,verified,rejected,v6,v7,v8,unsupported-version,round-mismatch,label-mismatch,read-failed unwind=12 budget=200 thorough.budget=1200
//verif:stub (*github.com/algorand/go-algorand/ledger.catchpointCatchupAccessorImpl).GetVerifyData = verifC16StubGetVerifyData
//verif:stub github.com/algorand/go-algorand/ledger/ledgercore.MakeLabel = verifC16StubMakeLabel
//verif:stub github.com/algorand/go-algorand/protocol.EncodeReflect = verifC16StubEncodeReflect
//verif:stub (github.com/algorand/go-algorand/data/bookkeeping.Block).Digest = verifC16StubBlockDigest
//verif:noop (*github.com/algorand/go-algorand/util/metrics.Counter).
func VerifC16VerifyCatchpoint() {
	s := verifC16SymStore()
	blk := verifC16SymBlock("blk")
	verifC16Staging = verifC16SymData("staging")
	verifC16Staging.fail = vr.Bool("staging.readfails")
	want, supported := verifC16Want(s.version, basics.Round(s.round), blk, verifC16Staging)
	if vr.Bool("stored.label.good") {
		s.label = want
	} else {
		// some other label of the same shape, or a malformed one
		lb := vr.BytesN("stored.label", 41)
		s.label = string(lb[:41-8*vr.Choice("stored.label.short", 2)])
	}
	c := &catchpointCatchupAccessorImpl{catchpointStore: s}

	err := c.VerifyCatchpoint(context.Background(), blk)

	readFailed := s.failLabel || s.failVersion || s.failRound || verifC16Staging.fail
	good := !readFailed && supported && basics.Round(s.round) == blk.BlockHeader.Round && s.label == want
	if err == nil {
		vr.Reach("verified")
		switch {
		case s.version <= CatchpointFileVersionV6:
			vr.Reach("v6")
		case s.version == CatchpointFileVersionV7:
			vr.Reach("v7")
		default:
			vr.Reach("v8")
		}
		vr.Assert("c16.verify.all-reads-succeeded", !readFailed)
		vr.Assert("c16.verify.version-supported", supported)
		vr.Assert("c16.verify.block-round-matches", basics.Round(s.round) == blk.BlockHeader.Round)
		vr.Assert("c16.verify.label-commits-to-restored-state", s.label == want)
	} else {
		vr.Reach("rejected")
		if readFailed {
			vr.Reach("read-failed")
		} else if !supported {
			vr.Reach("unsupported-version")
		} else if basics.Round(s.round) != blk.BlockHeader.Round {
			vr.Reach("round-mismatch")
		} else {
			vr.Reach("label-mismatch")
		}
		vr.Assert("c16.verify.matching-catchpoint-accepted", !good)
	}
	vr.Reach("done")
}

// Tamper resistance, stated directly: with the same stored label, version and
// round, two restored states / blocks that both verify agree on every
// ingredient the version commits to.
//verif:harness prop=C16 reach=done,both-verified,differ unwind=12 budget=200 thorough.budget=1200
//verif:stub (*github.com/algorand/go-algorand/ledger.catchpointCatchupAccessorImpl).GetVerifyData = verifC16StubGetVerifyData
//verif:stub github.com/algorand/go-algorand/ledger/ledgercore.MakeLabel = verifC16StubMakeLabel
//verif:stub github.com/algorand/go-algorand/protocol.EncodeReflect = verifC16StubEncodeReflect
//verif:stub (github.com/algorand/go-algorand/data/bookkeeping.Block).Digest = verifC16StubBlockDigest
//verif:noop (*github.com/algorand/go-algorand/util/metrics.Counter).
func VerifC16TamperRejected() {
	s := &verifC16Store{}
	s.version = CatchpointFileVersionV5 + uint64(vr.Choice("stored.version", 5)) // V5 (treated as V6), V6, V7, V8, V8+1
	s.round = vr.U64("stored.blockround")
	lb := vr.BytesN("stored.label", 41)
	s.label = string(lb)
	c := &catchpointCatchupAccessorImpl{catchpointStore: s}

	blk1, blk2 := verifC16SymBlock("blk1"), verifC16SymBlock("blk2")
	d1, d2 := verifC16SymData("staging1"), verifC16SymData("staging2")
	verifC16Staging = d1
	err1 := c.VerifyCatchpoint(context.Background(), blk1)
	verifC16Staging = d2
	err2 := c.VerifyCatchpoint(context.Background(), blk2)

	same := blk1.BlockHeader.Round == blk2.BlockHeader.Round && blk1.BlockHeader.Seed == blk2.BlockHeader.Seed
	same = same && d1.balances == d2.balances && d1.totals == d2.totals
	if s.version >= CatchpointFileVersionV7 {
		same = same && d1.sp == d2.sp
	}
	if s.version >= CatchpointFileVersionV8 {
		same = same && d1.oa == d2.oa && d1.orp == d2.orp
	}
	if !same {
		vr.Reach("differ")
	}
	if err1 == nil && err2 == nil {
		vr.Reach("both-verified")
		vr.Assert("c16.verify.label-binds-every-ingredient", same)
	}
	vr.Reach("done")
}
