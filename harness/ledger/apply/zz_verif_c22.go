//go:build verif

package apply

import (
	"github.com/algorand/go-algorand/config"
	"github.com/algorand/go-algorand/data/basics"
	"github.com/algorand/go-algorand/data/transactions"
	vr "github.com/algorand/go-algorand/internal/verifrt"
	"github.com/algorand/go-algorand/ledger/ledgercore"
)

// C22: asset supply is conserved and holder rules are enforced.
//
// The real AssetTransfer / AssetConfig / AssetFreeze (with takeOut, putIn,
// getParams) run against a small model of the Balances interface written here:
// three accounts and ONE asset id. Every harness is one inductive step: it
// starts from an ARBITRARY model state satisfying the representation invariant
// (verifC22Shape + sumIs), runs one arbitrary transaction, and - if the transaction
// was accepted - checks the holder rules against the transaction fields and the
// PRE-state, checks the post-state against an exact-integer ghost computation,
// and re-establishes the invariant (so the statements extend to all histories).
//
// Addresses: pool index 0 is the zero address (which can never opt in: an opt-in
// is a transaction SENT by the account, and a transaction with a zero sender is
// not well formed), 1..3 are the accounts. The asset code only compares
// addresses for equality / IsZero and passes them back to Balances, so an
// address is identified by its first byte and selected by a SYMBOLIC index.
//
// Style note: conditionals over symbolic values below are kept free of calls so
// that the engine if-converts them instead of forking.

const (
	verifC22N     = 5 // pool size: zero address + up to 4 accounts (3 in the quick tier)
	verifC22Asset = basics.AssetIndex(7)
)

func verifC22Addr(i uint8) basics.Address {
	var a basics.Address
	a[0] = i
	return a
}

// verifC22Idx maps a pool address back to its index. It deliberately FORKS on
// the (symbolic) selector the first time an address is used by the code: with a
// concrete index every later read and write of the model arrays is a plain
// variable, and the arithmetic obligations become easy for the solver. Addresses
// the code never passes to Balances stay symbolic.
func verifC22Idx(a basics.Address) int {
	switch a[0] {
	case 0:
		vr.Reach("use-zero-address")
		return 0
	case 1:
		vr.Reach("use-acct1")
		return 1
	case 2:
		vr.Reach("use-acct2")
		return 2
	case 3:
		vr.Reach("use-acct3")
		return 3
	case 4:
		vr.Reach("use-acct4")
		return 4
	}
	vr.Assume(false) // not a pool address
	return 0
}

// number of accounts in play: 3 (quick) or 4 (thorough)
func verifC22Accounts() int { return vr.Param(3, verifC22N-1) }

func verifC22Pick(label string) uint8 {
	x := vr.U8(label)
	vr.Assume(int(x) <= verifC22Accounts())
	return x
}

func verifC22PickAccount(label string) uint8 {
	x := vr.U8(label)
	vr.Assume(x >= 1)
	vr.Assume(int(x) <= verifC22Accounts())
	return x
}

// what the model keeps per account
type verifC22Acct struct {
	has              bool // holds a slot of the asset
	amount           uint64
	frozen           bool
	totalAssets      uint64 // AccountData.TotalAssets
	totalAssetParams uint64 // AccountData.TotalAssetParams
}

// verifC22Bal is the Balances model. The embedded interface is nil: any method
// the asset code is not expected to call panics (= violation).
type verifC22Bal struct {
	Balances
	maxAssets   int
	closeAmount bool

	exists  bool  // the asset exists: creator's account carries its AssetParams
	creator uint8 // pool index of the creator (meaningful while exists)
	params  basics.AssetParams

	acct [verifC22N]verifC22Acct

	allocGlobal, allocLocal, deallocGlobal, deallocLocal int
}

func (b *verifC22Bal) ConsensusParams() config.ConsensusParams {
	var cp config.ConsensusParams
	cp.MaxAssetsPerAccount = b.maxAssets
	cp.EnableAssetCloseAmount = b.closeAmount
	return cp
}

func (b *verifC22Bal) Get(addr basics.Address, withPendingRewards bool) (ledgercore.AccountData, error) {
	var d ledgercore.AccountData
	s := b.acct[verifC22Idx(addr)]
	d.TotalAssets = s.totalAssets
	d.TotalAssetParams = s.totalAssetParams
	return d, nil
}

func (b *verifC22Bal) Put(addr basics.Address, d ledgercore.AccountData) error {
	i := verifC22Idx(addr)
	s := b.acct[i]
	s.totalAssets = d.TotalAssets
	s.totalAssetParams = d.TotalAssetParams
	b.acct[i] = s
	return nil
}

func (b *verifC22Bal) GetAssetHolding(addr basics.Address, aidx basics.AssetIndex) (basics.AssetHolding, bool, error) {
	if aidx != verifC22Asset {
		return basics.AssetHolding{}, false, nil
	}
	s := b.acct[verifC22Idx(addr)]
	return basics.AssetHolding{Amount: s.amount, Frozen: s.frozen}, s.has, nil
}

func (b *verifC22Bal) PutAssetHolding(addr basics.Address, aidx basics.AssetIndex, data basics.AssetHolding) error {
	vr.Assert("c22.model.put-holding-known-asset", aidx == verifC22Asset)
	i := verifC22Idx(addr)
	vr.Assert("c22.model.zero-address-never-holds", i != 0)
	s := b.acct[i]
	s.has = true
	s.amount = data.Amount
	s.frozen = data.Frozen
	b.acct[i] = s
	return nil
}

func (b *verifC22Bal) DeleteAssetHolding(addr basics.Address, aidx basics.AssetIndex) error {
	vr.Assert("c22.model.delete-holding-known-asset", aidx == verifC22Asset)
	i := verifC22Idx(addr)
	s := b.acct[i]
	vr.Assert("c22.model.delete-existing-holding", s.has)
	s.has = false
	s.amount = 0
	s.frozen = false
	b.acct[i] = s
	return nil
}

func (b *verifC22Bal) isCreator(addr basics.Address, aidx basics.AssetIndex) bool {
	if aidx != verifC22Asset {
		return false
	}
	if !b.exists {
		return false
	}
	return addr[0] == b.creator
}

func (b *verifC22Bal) GetAssetParams(addr basics.Address, aidx basics.AssetIndex) (basics.AssetParams, bool, error) {
	if b.isCreator(addr, aidx) {
		return b.params, true, nil
	}
	return basics.AssetParams{}, false, nil
}

func (b *verifC22Bal) HasAssetParams(addr basics.Address, aidx basics.AssetIndex) (bool, error) {
	return b.isCreator(addr, aidx), nil
}

func (b *verifC22Bal) PutAssetParams(addr basics.Address, aidx basics.AssetIndex, data basics.AssetParams) error {
	vr.Assert("c22.model.put-params-known-asset", aidx == verifC22Asset)
	vr.Assert("c22.model.put-params-by-creator", !b.exists || addr[0] == b.creator)
	b.exists = true
	b.creator = addr[0]
	b.params = data
	return nil
}

func (b *verifC22Bal) DeleteAssetParams(addr basics.Address, aidx basics.AssetIndex) error {
	vr.Assert("c22.model.delete-existing-params", b.isCreator(addr, aidx))
	b.exists = false
	b.params = basics.AssetParams{}
	return nil
}

func (b *verifC22Bal) GetCreator(cidx basics.CreatableIndex, ctype basics.CreatableType) (basics.Address, bool, error) {
	if ctype != basics.AssetCreatable || basics.AssetIndex(cidx) != verifC22Asset || !b.exists {
		return basics.Address{}, false, nil
	}
	return verifC22Addr(b.creator), true, nil
}

func (b *verifC22Bal) AllocateAsset(addr basics.Address, index basics.AssetIndex, global bool) error {
	if global {
		b.allocGlobal++
	} else {
		b.allocLocal++
	}
	return nil
}

func (b *verifC22Bal) DeallocateAsset(addr basics.Address, index basics.AssetIndex, global bool) error {
	if global {
		b.deallocGlobal++
	} else {
		b.deallocLocal++
	}
	return nil
}

// The sum of all holdings, stated EXACTLY in 64-bit arithmetic:
//
//	a1 + a2 + a3 + a4 = total  (over the integers)
//	  <=>  the 64-bit partial sums do not carry, and the 64-bit sum is total.
//
// (=>: total < 2^64 bounds every partial sum; <=: without a carry the 64-bit
// sums are the integer sums.) The parts are returned separately: each is
// an easy query for a bit-vector solver, whereas the same statement over 66-bit
// zero-extended values (vr.ZU sums) takes it tens of seconds per query.
func (b *verifC22Bal) sumIs(total uint64) (wrappedEq, noCarry1, noCarry2, noCarry3 bool) {
	a1, a2, a3, a4 := b.acct[1].amount, b.acct[2].amount, b.acct[3].amount, b.acct[4].amount // amount is 0 where there is no slot (invariant)
	s1 := a1 + a2
	s2 := s1 + a3
	s3 := s2 + a4
	return s3 == total, s1 >= a1, s2 >= s1, s3 >= s2
}

// supply the holdings must add up to: Total while the asset exists; once it is
// destroyed only empty slots can remain (destroy needs the creator to hold
// everything, so every other holding was 0)
func (b *verifC22Bal) supply() uint64 {
	if b.exists {
		return b.params.Total
	}
	return 0
}

// verifC22Shape: the representation invariant of the model state apart from the
// sum ("what every real history maintains"):
//   - an account without a slot has the zero holding; the zero address has no slot;
//   - while the asset exists the creator holds a slot (it can never close out)
//     and records at least one created asset;
//   - an account holding a slot records at least one holding in TotalAssets.
func verifC22Shape(b *verifC22Bal) bool {
	z := b.acct[0]
	ok := !z.has && z.amount == 0 && !z.frozen
	for i := 1; i < verifC22N; i++ {
		s := b.acct[i]
		empty := s.amount == 0 && !s.frozen
		ok = ok && (s.has || empty)
		ok = ok && (!s.has || s.totalAssets >= 1)
	}
	c, n := b.creator, verifC22Accounts()
	inRange := c >= 1 && int(c) <= n
	if !inRange {
		c = 1 // keeps the read below in bounds; the result is false anyway if the asset exists
	}
	cs := b.acct[c]
	creatorOK := inRange && cs.has && cs.totalAssetParams >= 1
	ok = ok && (!b.exists || creatorOK)
	return ok
}

// verifC22Check asserts c and then lets the rest of the path use it as a lemma.
func verifC22Check(tag string, c bool) {
	vr.Assert(tag, c)
	vr.Assume(c)
}

// verifC22AssertInvariant: the full invariant (shape + sum of holdings = supply)
// holds again in the post-state.
func verifC22AssertInvariant(b *verifC22Bal, tag string) {
	eq, nc1, nc2, nc3 := b.sumIs(b.supply())
	verifC22Check(tag+".sum-no-overflow-1", nc1)
	verifC22Check(tag+".sum-no-overflow-2", nc2)
	verifC22Check(tag+".sum-no-overflow-3", nc3)
	verifC22Check(tag+".sum-is-supply", eq)
	vr.Assert(tag+".shape", verifC22Shape(b))
}

func verifC22Params(label string) basics.AssetParams {
	var p basics.AssetParams
	p.Total = vr.U64(label + ".total")
	p.Decimals = vr.U32(label + ".decimals")
	p.DefaultFrozen = vr.Bool(label + ".defaultfrozen")
	p.Manager = verifC22Addr(verifC22Pick(label + ".manager"))
	p.Reserve = verifC22Addr(verifC22Pick(label + ".reserve"))
	p.Freeze = verifC22Addr(verifC22Pick(label + ".freeze"))
	p.Clawback = verifC22Addr(verifC22Pick(label + ".clawback"))
	return p
}

// verifC22State: an arbitrary state satisfying the invariant.
func verifC22State() *verifC22Bal {
	b := &verifC22Bal{}
	b.maxAssets = int(vr.U16("proto.maxassets")) // 0 = unlimited
	b.closeAmount = vr.Bool("proto.closeamount")
	b.exists = vr.Bool("exists")
	if b.exists {
		b.creator = verifC22PickAccount("creator")
		b.params = verifC22Params("params")
	}
	names := [verifC22N]string{"zero", "acct1", "acct2", "acct3", "acct4"}
	for i := 1; i <= verifC22Accounts(); i++ { // accounts beyond the tier's bound stay empty
		var s verifC22Acct
		s.has = vr.Bool(names[i] + ".has")
		s.amount = vr.U64(names[i] + ".amount")
		s.frozen = vr.Bool(names[i] + ".frozen")
		s.totalAssets = vr.U64(names[i] + ".totalassets")
		s.totalAssetParams = vr.U64(names[i] + ".totalassetparams")
		// every holding costs 100000 microalgos of minimum balance and the algo
		// supply is 10^16 microalgos: the counters are nowhere near saturation
		vr.Assume(s.totalAssets < 1<<40)
		vr.Assume(s.totalAssetParams < 1<<40)
		b.acct[i] = s
	}
	eq, nc1, nc2, nc3 := b.sumIs(b.supply())
	vr.Assume(nc1)
	vr.Assume(nc2)
	vr.Assume(nc3)
	vr.Assume(eq)
	vr.Assume(verifC22Shape(b))
	return b
}

func verifC22One(c bool) uint64 {
	if c {
		return 1
	}
	return 0
}

// ---------------------------------------------------------------------------
// AssetTransfer: plain transfer, opt-in, clawback, close-out

//verif:noop (github.com/algorand/go-algorand/data/basics.Address).String

// The transfer step is split by the SHAPE of the transaction (which optional
// address fields are present, zero or non-zero amount) so that the shapes run in parallel; together the
// five harnesses cover every (sender, receiver, close-to, asset-sender, amount).

// no asset-sender, no close-to: plain transfer and opt-in
//verif:harness prop=C22 reach=done,accepted,rejected,moved,optin,destroyed unwind=8 budget=200 thorough.budget=2400
func VerifC22TransferPlain() { verifC22Transfer(false, false) }

// asset-sender set: clawback
//verif:harness prop=C22 reach=done,accepted,rejected,clawback,frozenclawback unwind=8 budget=200 thorough.budget=2400
func VerifC22TransferClawback() { verifC22Transfer(true, false) }

// close-to set, zero amount: pure close-out (possibly combined with an opt-in)
//verif:harness prop=C22 reach=done,accepted,rejected,closed,closedfrozen,optin,destroyed unwind=8 budget=200 thorough.budget=3000
func VerifC22TransferClose() { verifC22TransferAmt(false, true, 1) }

// close-to set, non-zero amount: transfer followed by close-out of the remainder
//verif:harness prop=C22 reach=done,accepted,rejected,closed,closedfrozen,moved unwind=8 budget=200 thorough.budget=3000
func VerifC22TransferThenClose() { verifC22TransferAmt(false, true, 2) }

// both set: never accepted
//verif:harness prop=C22 reach=done,rejected unwind=8 budget=200 thorough.budget=2400
func VerifC22TransferClawbackClose() { verifC22Transfer(true, true) }

func verifC22Transfer(withAssetSender, withCloseTo bool) {
	verifC22TransferAmt(withAssetSender, withCloseTo, 0)
}

// amountKind: 0 = any amount, 1 = zero, 2 = non-zero
func verifC22TransferAmt(withAssetSender, withCloseTo bool, amountKind int) {
	b := verifC22State()
	pre := *b

	snd := verifC22PickAccount("sender") // a well-formed transaction has a non-zero sender
	rcv := verifC22Pick("receiver")
	cls, asnd := uint8(0), uint8(0)
	if withCloseTo {
		cls = verifC22PickAccount("closeto")
	}
	if withAssetSender {
		asnd = verifC22PickAccount("assetsender")
	}
	amt := uint64(0)
	if amountKind != 1 {
		amt = vr.U64("amount")
	}
	if amountKind == 2 {
		vr.Assume(amt != 0)
	}

	var ct transactions.AssetTransferTxnFields
	ct.XferAsset = verifC22Asset
	ct.AssetAmount = amt
	ct.AssetSender = verifC22Addr(asnd)
	ct.AssetReceiver = verifC22Addr(rcv)
	ct.AssetCloseTo = verifC22Addr(cls)
	var hdr transactions.Header
	hdr.Sender = verifC22Addr(snd)
	var ad transactions.ApplyData

	err := AssetTransfer(ct, hdr, b, transactions.SpecialAddresses{}, &ad)
	if err != nil {
		// a rejected transaction's partial writes are discarded by the caller
		vr.Reach("rejected")
		vr.Reach("done")
		return
	}
	vr.Reach("accepted")

	// --- the transaction, read independently of the code ---
	claw := asnd != 0
	src := snd // whose holding is debited
	if claw {
		src = asnd
	}
	closing := cls != 0
	preSrc, preRcv, preCls := pre.acct[src], pre.acct[rcv], pre.acct[cls]
	// clawback authorisation: the asset exists, has a clawback address, and it sent this
	clawAuth := claw && pre.exists && pre.params.Clawback[0] != 0 && pre.params.Clawback[0] == snd
	isOptIn := amt == 0 && rcv == src && !claw && !preSrc.has
	closeToCreator := pre.exists && cls == pre.creator

	// --- holder rules ---
	// every accepted clawback was sent by the asset's clawback address
	vr.Assert("c22.xfer.clawback-only-by-clawback-address", !claw || clawAuth)
	// a non-zero amount needs both parties to hold the slot already, and enough units
	vr.Assert("c22.xfer.sender-opted-in", amt == 0 || preSrc.has)
	vr.Assert("c22.xfer.receiver-opted-in", amt == 0 || preRcv.has)
	vr.Assert("c22.xfer.sufficient-balance", amt <= preSrc.amount)
	// a non-zero amount out of / into a frozen holding (self-transfer included)
	// only by clawback; zero-amount transfers on frozen holdings are allowed
	vr.Assert("c22.xfer.frozen-source-needs-clawback", amt == 0 || !preSrc.frozen || clawAuth)
	vr.Assert("c22.xfer.frozen-receiver-needs-clawback", amt == 0 || !preRcv.frozen || clawAuth)
	// a slot appears only by the account's own zero-amount self-transfer of an existing asset
	vr.Assert("c22.xfer.optin-needs-existing-asset", !isOptIn || pre.exists)
	vr.Assert("c22.xfer.optin-within-limit", !isOptIn || pre.maxAssets == 0 || preSrc.totalAssets < uint64(pre.maxAssets))

	// remainder moved by the close-out: what the source holds after the first leg
	rem := uint64(0)
	if closing {
		rem = preSrc.amount
		if rcv != src {
			rem = preSrc.amount - amt // amt <= preSrc.amount asserted above
		}
	}
	srcFrozenAtClose := preSrc.frozen
	if isOptIn {
		srcFrozenAtClose = pre.params.DefaultFrozen
	}
	vr.Assert("c22.close.not-by-clawback", !closing || !claw)
	vr.Assert("c22.close.not-the-creator", !closing || !pre.exists || src != pre.creator)
	vr.Assert("c22.close.source-held-slot", !closing || preSrc.has || isOptIn)
	// a non-zero remainder must go to another account that holds the slot
	vr.Assert("c22.close.remainder-needs-opted-in-closeto", rem == 0 || (preCls.has && cls != src))
	// the remainder leaves / enters a frozen holding only when closing out to the creator
	vr.Assert("c22.close.frozen-source-only-to-creator", rem == 0 || !srcFrozenAtClose || closeToCreator)
	vr.Assert("c22.close.frozen-closeto-only-creator", rem == 0 || !preCls.frozen || closeToCreator)
	wantClosing := uint64(0)
	if closing && pre.closeAmount {
		wantClosing = rem
	}
	vr.Assert("c22.close.reported-amount", ad.AssetClosingAmount == wantClosing)

	// --- exact post-state ---
	vr.Assert("c22.xfer.params-untouched", b.exists == pre.exists && b.creator == pre.creator && b.params == pre.params)
	amountOK, slotOK, frozenOK, countOK := true, true, true, true
	for k := 1; k < verifC22N; k++ {
		i := uint8(k)
		p, q := pre.acct[k], b.acct[k]
		out, in, cout, cin := uint64(0), uint64(0), uint64(0), uint64(0)
		if i == src {
			out = amt
			cout = rem
		}
		if i == rcv {
			in = amt
		}
		if i == cls {
			cin = rem
		}
		closedHere := closing && i == src
		openedHere := isOptIn && i == src
		want := vr.ZU(p.amount).Sub(vr.ZU(out)).Add(vr.ZU(in)).Sub(vr.ZU(cout)).Add(vr.ZU(cin))
		a1 := vr.ZU(q.amount).Eq(want)
		amountOK = amountOK && a1
		// a slot disappears only by a close-out of that account (its remainder went to
		// close-to: see exact-amount), and appears only by opt-in
		slotOK = slotOK && q.has == ((p.has || openedHere) && !closedHere)
		wantFrozen := p.frozen
		if openedHere {
			wantFrozen = pre.params.DefaultFrozen
		}
		if closedHere {
			wantFrozen = false
		}
		frozenOK = frozenOK && q.frozen == wantFrozen
		wantTotal := vr.ZU(p.totalAssets).Add(vr.ZU(verifC22One(openedHere))).Sub(vr.ZU(verifC22One(closedHere)))
		c1 := vr.ZU(q.totalAssets).Eq(wantTotal)
		countOK = countOK && c1 && q.totalAssetParams == p.totalAssetParams
	}
	vr.Assert("c22.xfer.exact-amounts", amountOK)
	vr.Assert("c22.xfer.slots", slotOK)
	vr.Assert("c22.xfer.frozen-flags", frozenOK)
	vr.Assert("c22.xfer.holding-counts", countOK)
	// conservation: the holdings still add up to the (unchanged) supply
	verifC22AssertInvariant(b, "c22.xfer.conserved")

	// witnesses (conditions already decided by the code path first)
	if claw {
		vr.Reach("clawback")
		if amt != 0 && preSrc.frozen {
			vr.Reach("frozenclawback")
		}
	} else if isOptIn {
		vr.Reach("optin")
	} else if rem != 0 {
		vr.Reach("closed")
		if srcFrozenAtClose || preCls.frozen {
			vr.Reach("closedfrozen")
		}
	} else if amt != 0 && src != rcv {
		vr.Reach("moved")
	} else if !pre.exists {
		vr.Reach("destroyed")
	}
	vr.Reach("done")
}

// ---------------------------------------------------------------------------
// AssetConfig: create

//verif:harness prop=C22 reach=done,accepted,rejected unwind=8 budget=200 thorough.budget=2400
func VerifC22Create() {
	b := verifC22State()
	// asset ids are allocated from a strictly increasing counter and never
	// reused: when id 7 is being created nothing refers to it yet
	vr.Assume(!b.exists)
	for i := 1; i < verifC22N; i++ {
		vr.Assume(!b.acct[i].has)
	}
	pre := *b

	snd := verifC22PickAccount("sender")
	var cc transactions.AssetConfigTxnFields
	cc.ConfigAsset = 0
	cc.AssetParams = verifC22Params("new")
	var hdr transactions.Header
	hdr.Sender = verifC22Addr(snd)
	var ad transactions.ApplyData

	err := AssetConfig(cc, hdr, b, transactions.SpecialAddresses{}, &ad, uint64(verifC22Asset)-1)
	if err != nil {
		vr.Reach("rejected")
		vr.Reach("done")
		return
	}
	vr.Reach("accepted")
	vr.Assert("c22.create.reported-id", ad.ConfigAsset == verifC22Asset)
	vr.Assert("c22.create.exists", b.exists && b.creator == snd)
	vr.Assert("c22.create.params-as-requested", b.params == cc.AssetParams)
	vr.Assert("c22.create.within-limit", pre.maxAssets == 0 || pre.acct[snd].totalAssets < uint64(pre.maxAssets))
	holdOK, countOK := true, true
	for k := 1; k < verifC22N; k++ {
		p, q := pre.acct[k], b.acct[k]
		mine := uint8(k) == snd
		wantAmt := uint64(0)
		if mine {
			wantAmt = cc.AssetParams.Total
		}
		// the creator starts with the whole supply, unfrozen; nobody else gets a slot
		holdOK = holdOK && q.has == mine && q.amount == wantAmt && !q.frozen
		one := vr.ZU(verifC22One(mine))
		c1 := vr.ZU(q.totalAssets).Eq(vr.ZU(p.totalAssets).Add(one))
		c2 := vr.ZU(q.totalAssetParams).Eq(vr.ZU(p.totalAssetParams).Add(one))
		countOK = countOK && c1 && c2
	}
	vr.Assert("c22.create.creator-holds-everything", holdOK)
	vr.Assert("c22.create.counts", countOK)
	vr.Assert("c22.create.supply-is-requested-total", b.supply() == cc.AssetParams.Total)
	vr.Assert("c22.create.allocation-reported", b.allocGlobal == 1 && b.allocLocal == 1 && b.deallocGlobal == 0 && b.deallocLocal == 0)
	verifC22AssertInvariant(b, "c22.create.invariant")
	vr.Reach("done")
}

// ---------------------------------------------------------------------------
// AssetConfig: reconfigure / destroy

//verif:harness prop=C22 reach=done,accepted,rejected,destroyed,reconfigured,partialrejected unwind=8 budget=200 thorough.budget=2400
func VerifC22ConfigDestroy() {
	b := verifC22State()
	pre := *b

	snd := verifC22PickAccount("sender")
	var cc transactions.AssetConfigTxnFields
	cc.ConfigAsset = verifC22Asset
	destroy := vr.Bool("destroy")
	if !destroy {
		cc.AssetParams = verifC22Params("new")
	}
	var hdr transactions.Header
	hdr.Sender = verifC22Addr(snd)
	var ad transactions.ApplyData

	err := AssetConfig(cc, hdr, b, transactions.SpecialAddresses{}, &ad, vr.U64("txncounter"))
	byManager := pre.exists && pre.params.Manager[0] != 0 && pre.params.Manager[0] == snd
	if err != nil {
		vr.Reach("rejected")
		if destroy && byManager && pre.acct[pre.creator].amount != pre.params.Total {
			vr.Reach("partialrejected")
		}
		vr.Reach("done")
		return
	}
	vr.Reach("accepted")
	// only the (non-zero) manager of an existing asset can reconfigure or destroy it
	vr.Assert("c22.config.asset-exists", pre.exists)
	vr.Assert("c22.config.only-manager", byManager)
	// the request is read by the code as "destroy" exactly when all parameters are empty
	isDestroy := cc.AssetParams == (basics.AssetParams{})
	c := pre.creator
	if isDestroy {
		vr.Reach("destroyed")
		// destroy only when the creator holds the entire supply
		vr.Assert("c22.destroy.creator-holds-total", pre.acct[c].amount == pre.params.Total)
		vr.Assert("c22.destroy.gone", !b.exists)
		holdOK, countOK := true, true
		for k := 1; k < verifC22N; k++ {
			p, q := pre.acct[k], b.acct[k]
			mine := uint8(k) == c
			// the creator's slot goes away with the asset; every other (necessarily empty) slot stays
			holdOK = holdOK && q.has == (p.has && !mine) && q.amount == 0 && q.frozen == (p.frozen && !mine)
			one := vr.ZU(verifC22One(mine))
			c1 := vr.ZU(q.totalAssets).Eq(vr.ZU(p.totalAssets).Sub(one))
			c2 := vr.ZU(q.totalAssetParams).Eq(vr.ZU(p.totalAssetParams).Sub(one))
			countOK = countOK && c1 && c2
		}
		vr.Assert("c22.destroy.only-empty-slots-remain", holdOK)
		vr.Assert("c22.destroy.counts", countOK)
		vr.Assert("c22.destroy.deallocation-reported", b.deallocGlobal == 1 && b.deallocLocal == 1 && b.allocGlobal == 0 && b.allocLocal == 0)
	} else {
		vr.Reach("reconfigured")
		vr.Assert("c22.config.still-exists", b.exists && b.creator == pre.creator)
		// supply and the other immutable parameters never change; a key that was
		// cleared stays cleared
		m, r, f, cl := pre.params.Manager[0], pre.params.Reserve[0], pre.params.Freeze[0], pre.params.Clawback[0]
		if m != 0 {
			m = cc.AssetParams.Manager[0]
		}
		if r != 0 {
			r = cc.AssetParams.Reserve[0]
		}
		if f != 0 {
			f = cc.AssetParams.Freeze[0]
		}
		if cl != 0 {
			cl = cc.AssetParams.Clawback[0]
		}
		want := pre.params
		want.Manager, want.Reserve, want.Freeze, want.Clawback = verifC22Addr(m), verifC22Addr(r), verifC22Addr(f), verifC22Addr(cl)
		vr.Assert("c22.config.total-immutable", b.params.Total == pre.params.Total)
		vr.Assert("c22.config.only-live-keys-change", b.params == want)
		sameOK := true
		for k := 1; k < verifC22N; k++ {
			sameOK = sameOK && b.acct[k] == pre.acct[k]
		}
		vr.Assert("c22.config.accounts-untouched", sameOK)
	}
	verifC22AssertInvariant(b, "c22.config.invariant")
	vr.Reach("done")
}

// ---------------------------------------------------------------------------
// AssetFreeze

//verif:harness prop=C22 reach=done,accepted,rejected unwind=8 budget=200 thorough.budget=2400
func VerifC22Freeze() {
	b := verifC22State()
	pre := *b

	snd := verifC22PickAccount("sender")
	tgt := verifC22Pick("target")
	var cf transactions.AssetFreezeTxnFields
	cf.FreezeAsset = verifC22Asset
	cf.FreezeAccount = verifC22Addr(tgt)
	cf.AssetFrozen = vr.Bool("frozen")
	var hdr transactions.Header
	hdr.Sender = verifC22Addr(snd)
	var ad transactions.ApplyData

	err := AssetFreeze(cf, hdr, b, transactions.SpecialAddresses{}, &ad)
	if err != nil {
		vr.Reach("rejected")
		vr.Reach("done")
		return
	}
	vr.Reach("accepted")
	vr.Assert("c22.freeze.asset-exists", pre.exists)
	vr.Assert("c22.freeze.only-freeze-address", pre.params.Freeze[0] != 0 && pre.params.Freeze[0] == snd)
	vr.Assert("c22.freeze.target-holds-slot", pre.acct[tgt].has)
	vr.Assert("c22.freeze.params-untouched", b.exists && b.creator == pre.creator && b.params == pre.params)
	sameOK := true
	for k := 1; k < verifC22N; k++ {
		want := pre.acct[k]
		if uint8(k) == tgt {
			want.frozen = cf.AssetFrozen
		}
		sameOK = sameOK && b.acct[k] == want
	}
	vr.Assert("c22.freeze.only-the-flag-changes", sameOK)
	verifC22AssertInvariant(b, "c22.freeze.invariant")
	vr.Reach("done")
}
