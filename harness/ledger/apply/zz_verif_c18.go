//go:build verif

package apply

import (
	"errors"

	"github.com/algorand/go-algorand/data/basics"
	"github.com/algorand/go-algorand/data/transactions"
	vr "github.com/algorand/go-algorand/internal/verifrt"
	"github.com/algorand/go-algorand/ledger/ledgercore"
)

// C18 (lemma level): apply.Payment, including close-remainder, only moves money.
//
// The real Payment runs against a small model of the Balances interface: four
// accounts (pool index 0 is the zero address), each with a balance, pending
// rewards not yet folded in, and an arbitrary record (asset / app / box
// counters). The model's Move is the contract that
// harness/ledger/eval/zz_verif_c18.go (VerifC18Move) proves for
// roundCowState.Move: both parties' pending rewards are folded into their
// balances and reported, then exactly `amount` is debited from the source
// (error if it has less, nothing credited) and credited to the destination
// (error on overflow). Get(addr, withPendingRewards) reports the balance with or
// without the pending rewards; CloseAccount deletes the record.
//
// "Money" of an account = balance + pending rewards. Checked for every accepted
// payment from an ARBITRARY state: the total money of the four accounts is
// unchanged (exact integers); the receiver gained exactly Amount, the close-to
// account exactly the reported ClosingAmount = everything the sender had left;
// a closed sender ends with exactly zero money and was deleted only when empty
// (no money and no asset, application or box state); the reported rewards are the
// pending rewards that were folded in.

const verifC18N = 4

var errVerifC18Move = errors.New("verif: move refused")

func verifC18Addr(i int) basics.Address {
	var a basics.Address
	if i > 0 {
		a[0] = byte(i)
		a[31] = 0xC8
	}
	return a
}

func verifC18Idx(a basics.Address) int {
	for i := 0; i < verifC18N; i++ {
		if a == verifC18Addr(i) {
			return i
		}
	}
	vr.Assert("c18.model.known-address", false)
	return 0
}

type verifC18Bal struct {
	Balances // nil: any method Payment is not expected to call panics (= violation)
	algos    [verifC18N]uint64
	pending  [verifC18N]uint64
	rec      [verifC18N]ledgercore.AccountData
	deleted  [verifC18N]bool
	moves    int
}

func (b *verifC18Bal) money(i int) uint64 { return b.algos[i] + b.pending[i] }

func (b *verifC18Bal) Get(addr basics.Address, withPendingRewards bool) (ledgercore.AccountData, error) {
	i := verifC18Idx(addr)
	d := b.rec[i]
	d.MicroAlgos.Raw = b.algos[i]
	if withPendingRewards {
		d.MicroAlgos.Raw = b.money(i)
	}
	return d, nil
}

func (b *verifC18Bal) fold(i int, rewards *basics.MicroAlgos) error {
	r := b.pending[i]
	if rewards != nil {
		n := rewards.Raw + r
		if n < r {
			return errVerifC18Move
		}
		rewards.Raw = n
	}
	b.algos[i] += r
	b.pending[i] = 0
	return nil
}

func (b *verifC18Bal) Move(src, dst basics.Address, amount basics.MicroAlgos, srcRewards *basics.MicroAlgos, dstRewards *basics.MicroAlgos) error {
	b.moves++
	s, d := verifC18Idx(src), verifC18Idx(dst)
	if err := b.fold(s, srcRewards); err != nil {
		return err
	}
	if amount.Raw > b.algos[s] {
		return errVerifC18Move // overspend
	}
	b.algos[s] -= amount.Raw
	if err := b.fold(d, dstRewards); err != nil {
		return err
	}
	n := b.algos[d] + amount.Raw
	if n < amount.Raw {
		return errVerifC18Move // balance overflow
	}
	b.algos[d] = n
	return nil
}

func (b *verifC18Bal) CloseAccount(addr basics.Address) error {
	i := verifC18Idx(addr)
	// deleting a record destroys whatever it still holds
	vr.Assert("c18.payment.deleted-only-when-empty", b.algos[i] == 0 && b.pending[i] == 0)
	r := b.rec[i]
	vr.Assert("c18.payment.deleted-only-without-state", r.TotalAssets == 0 && r.TotalAssetParams == 0 && r.TotalAppParams == 0 && r.TotalAppLocalStates == 0 && r.TotalBoxes == 0 && r.TotalBoxBytes == 0)
	b.rec[i] = ledgercore.AccountData{}
	b.deleted[i] = true
	return nil
}

// the total, stated exactly in 64-bit arithmetic (see harness/ledger/apply/zz_verif_c22.go sumIs)
func (b *verifC18Bal) total() (sum uint64, noCarry bool) {
	s1 := b.money(0) + b.money(1)
	s2 := s1 + b.money(2)
	s3 := s2 + b.money(3)
	return s3, s1 >= b.money(0) && s2 >= s1 && s3 >= s2
}

func verifC18State() *verifC18Bal {
	b := &verifC18Bal{}
	names := [verifC18N]string{"zero", "acct1", "acct2", "acct3"}
	for i := 0; i < verifC18N; i++ {
		b.algos[i] = vr.U64(names[i] + ".algos")
		b.pending[i] = vr.U64(names[i] + ".pending")
		// an account's money fits 64 bits (WithUpdatedRewards' domain, C12)
		vr.Assume(b.algos[i]+b.pending[i] >= b.algos[i])
		r := &b.rec[i]
		r.TotalAssets = vr.U64(names[i] + ".assets")
		r.TotalAssetParams = vr.U64(names[i] + ".assetparams")
		r.TotalAppParams = vr.U64(names[i] + ".appparams")
		r.TotalAppLocalStates = vr.U64(names[i] + ".applocals")
		r.TotalBoxes = vr.U64(names[i] + ".boxes")
		r.TotalBoxBytes = vr.U64(names[i] + ".boxbytes")
	}
	// all the money there is fits 64 bits (10^16 microalgos exist)
	_, ok := b.total()
	vr.Assume(ok)
	return b
}

//verif:noop (github.com/algorand/go-algorand/data/basics.Address).String

// plain payment (no close-to)
//verif:harness prop=C18 reach=done,accepted,rejected,paid,self,nothing unwind=8 budget=400 thorough.budget=1500
func VerifC18Payment() { verifC18Payment(false) }

// payment with close-remainder
//verif:harness prop=C18 reach=done,accepted,rejected,closed,closed-to-receiver unwind=8 budget=400 thorough.budget=1500
func VerifC18PaymentClose() { verifC18Payment(true) }

func verifC18Payment(closing bool) {
	b := verifC18State()
	pre := *b
	total0, _ := b.total()

	const snd = 1                      // a well-formed transaction has a non-zero sender; accounts are interchangeable
	rcv := vr.Choice("receiver", 3)    // 0: zero address, 1: the sender itself, 2: another account
	cls := 0                           // close-to: none
	if closing {
		cls = 1 + vr.Choice("closeto", 3) // 1: the sender itself (not well formed, but Payment does not rely on that), 2: the receiver's account, 3: a third one
	}
	var pay transactions.PaymentTxnFields
	pay.Receiver = verifC18Addr(rcv)
	pay.Amount.Raw = vr.U64("amount")
	pay.CloseRemainderTo = verifC18Addr(cls)
	var hdr transactions.Header
	hdr.Sender = verifC18Addr(snd)
	var ad transactions.ApplyData
	// rewards already reported by the fee payment (takeFee folds the sender's pending rewards first)
	sr0 := vr.U64("ad.senderrewards")
	ad.SenderRewards.Raw = sr0

	err := Payment(pay, hdr, b, transactions.SpecialAddresses{}, &ad)
	if err != nil {
		// a rejected payment's partial effects are discarded with the group's cow (C19)
		vr.Reach("rejected")
		vr.Reach("done")
		return
	}
	vr.Reach("accepted")
	amt := pay.Amount.Raw
	firstLeg := amt != 0 || rcv != 0

	// conservation
	total1, ok := b.total()
	vr.Assert("c18.payment.total-fits", ok)
	vr.Assert("c18.payment.total-conserved", total1 == total0)

	// exact effect, account by account
	m0 := [verifC18N]uint64{pre.money(0), pre.money(1), pre.money(2), pre.money(3)}
	var want [verifC18N]vr.Z
	for i := 0; i < verifC18N; i++ {
		want[i] = vr.ZU(m0[i])
	}
	if firstLeg {
		vr.Assert("c18.payment.covered", amt <= m0[snd])
		want[snd] = want[snd].Sub(vr.ZU(amt))
		want[rcv] = want[rcv].Add(vr.ZU(amt))
	}
	if cls != 0 {
		// everything the sender has left goes to close-to
		rest := want[snd]
		vr.Assert("c18.payment.closing-amount-reported", vr.ZU(ad.ClosingAmount.Raw).Eq(rest))
		want[snd] = want[snd].Sub(rest)
		want[cls] = want[cls].Add(rest)
		vr.Assert("c18.payment.sender-left-with-nothing", b.money(snd) == 0 && b.deleted[snd] && b.rec[snd] == (ledgercore.AccountData{}))
		vr.Reach("closed")
		if cls == rcv {
			vr.Reach("closed-to-receiver")
		}
	} else {
		vr.Assert("c18.payment.no-close-no-delete", !b.deleted[snd] && ad.ClosingAmount.Raw == 0)
	}
	for i := 0; i < verifC18N; i++ {
		vr.Assert("c18.payment.exact-balances", vr.ZU(b.money(i)).Eq(want[i]))
		if i != snd {
			vr.Assert("c18.payment.only-the-sender-is-deleted", !b.deleted[i] && b.rec[i] == pre.rec[i])
		}
	}
	// reported rewards: each party's pending rewards, once
	if firstLeg || cls != 0 {
		vr.Assert("c18.payment.sender-rewards", ad.SenderRewards.Raw == sr0+pre.pending[snd])
	} else {
		vr.Reach("nothing")
		vr.Assert("c18.payment.sender-rewards", ad.SenderRewards.Raw == sr0 && b.moves == 0)
	}
	wantRcvRewards, wantClsRewards := uint64(0), uint64(0)
	if firstLeg && rcv != snd {
		wantRcvRewards = pre.pending[rcv]
	}
	if cls != 0 && cls != snd && !(firstLeg && cls == rcv) {
		wantClsRewards = pre.pending[cls]
	}
	vr.Assert("c18.payment.receiver-rewards", ad.ReceiverRewards.Raw == wantRcvRewards)
	vr.Assert("c18.payment.close-rewards", ad.CloseRewards.Raw == wantClsRewards)
	if firstLeg && rcv == snd {
		vr.Reach("self")
	} else if firstLeg && amt != 0 {
		vr.Reach("paid")
	}
	vr.Reach("done")
}
