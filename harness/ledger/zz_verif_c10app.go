//go:build verif

package ledger

import (
	"github.com/algorand/go-algorand/data/basics"
	"github.com/algorand/go-algorand/data/bookkeeping"
	vr "github.com/algorand/go-algorand/internal/verifrt"
	"github.com/algorand/go-algorand/ledger/ledgercore"
	"github.com/algorand/go-algorand/ledger/store/trackerdb"
	"github.com/algorand/go-algorand/logging"
	"github.com/algorand/go-algorand/protocol"
)

// C10 for applications (narrow, lemma level; companion of zz_verif_c10.go, whose
// helpers verifC10Ref / verifC10Addr / errVerifC10DB are reused).
//
// WHAT IS DECIDED HERE. ONE page of
// accountUpdates.lookupApplicationResources(addr, appIDGT, limit, includeParams):
// the merge of the in-memory deltas with the database page obtained through
// au.accountsq.LookupLimitedResources(addr, cursor, n, AppCreatable). Unlike an
// asset, an application is listed for an account when the account is OPTED IN
// (has local state) OR CREATED it (owns the params) - a creator need not be
// opted in - so the function has a third merge loop (delta-only created apps) that
// shares the early-exit bound `resultMaxID` with the delta-only opted-in loop.
//
// Database reader (harness type) by the SQL contract (sqlitedriver/sql.go
// lookupLimitedResourcesStmt + LookupLimitedResources): the first min(n, K) rows of
// addr with aidx > cursor, ascending; each row carries the account's local state
// (ResourceFlags of the ACCOUNT's row: IsHolding() == opted in) and, joined through
// the creators table, the creator address and the creator's params when the app
// still exists; reported round D (0 when no row). A row of addr exists only if addr
// is opted in or is the creator. Row kinds:
//
//	0  opted in; creator is some other account (verifC10Addr(7)) when the database
//	   knows creators (one free boolean), else none (app deleted)
//	1  opted in and creator
//	2  creator only (not opted in)
//
// LookupCreator / LookupResources (asked for delta-only opted-in apps without a
// params record in the deltas) answer for the same database: creator
// verifC10Addr(7) or none. (Such an id is never a database row of addr: the page is
// either exhaustive or the id lies below its maximum.)
//
// Deltas: two rounds D+1, D+2 with at most one record each for addr, symbolic app id
// (anywhere relative to the cursor, the database ids and the other record), of kind
//
//	L    opt in / local state write        (State present, Params none)
//	Lx   close out                         (State deleted, Params none)
//	C    create / update app, not opted in (Params present, State none)
//	CL   create / update app, opted in     (both present)
//	Cx   delete app, was not opted in      (Params deleted, State none)
//	CxLx delete app and close out          (both deleted: counted twice in the over-request)
//	CLx  creator closes out, keeps the app (Params present, State deleted)
//	CxL  creator deletes app, stays opted in (Params deleted, State present)
//
// (these are the records eval.roundCowState.putAppParams/putAppLocalState build:
// each names the complete params+state of (addr, app) for that round, an absent
// half being the zero delta), always accompanied by a local-state record of ANOTHER
// account for the same app (must be ignored); optionally a record of a THIRD
// account (verifC10Addr(3)) in round D+2 that updates or deletes an app it created.
// An app has one creator (assumed: the third account's app is not one whose params
// addr's records carry, nor one the database attributes to addr).
//
// Ghost oracle (independent) at round D+2:
//
//	local(x)   = newest record of (addr,x) with a State part: present?; else the
//	             database row of x is opted in
//	creator(x) = newest record of ANY account with a Params part for x: its account
//	             (none if it deletes); else the database creator of x
//	present(x) = local(x) || creator(x) == addr
//
// Assertions (together: page == the first `limit` present ids above the cursor in
// increasing order, each with its values at D+2):
//
//	(a) ids strictly increasing, all > cursor            (b) len(page) <= limit
//	(c) every listed id is present; AppLocalState non-nil iff local(x), with the
//	    newest value; Creator == creator(x) (zero if none); AppParams non-nil iff
//	    includeParams and a creator exists, taken from the newest params record,
//	    else from the database
//	(d) every candidate id (database, delta, third-party id) that is present and
//	    > cursor is listed unless the page is full and the id lies beyond its last id
//	(e) reported round D+2; the database page asked once, for addr/cursor/apps,
//	    at least `limit` rows
//
// Bounds. Quick: K <= 1 database row, limit 1..2, includeParams = true, first record
// fixed per harness (the harnesses VerifC10AppPage* partition the first record's
// kind so that they run in parallel), second record off / L / Lx / C / CL / Cx, third
// account only in VerifC10AppPageThird. Thorough: K <= 2, second record all 8 kinds,
// plus three harnesses for a first record CxLx / CLx / CxL and
// VerifC10AppPageNoParams (includeParams = false, quick bounds).
//
// The scenario "in unflushed rounds the account opted in to app B and created,
// without opting in, app A < B, A above its on-disk rows (with or without such rows),
// page full" is inside VerifC10AppPageOptIn (L then C) and VerifC10AppPageCreate
// (C then L); reach tag `createdbelowoptin` witnesses a page that lists A directly
// before B.
//
// OUTSIDE: as for assets (SQL, maintenance of deltas/cachedDBRound vs the database,
// a database AHEAD of the tracker [condition-variable wait], REST/next-token
// plumbing, multi-page iteration [paper induction], limit+deletions overflow);
// KeyValue / program contents of local state and params (one symbolic scalar each).

const verifC10AppMaxRows = 2

type verifC10AppReader struct {
	addr    basics.Address
	cursor  basics.AppIndex
	dbRound basics.Round
	k       int
	ids     [verifC10AppMaxRows]basics.AppIndex
	nuint   [verifC10AppMaxRows]uint64 // local state Schema.NumUint of an opted-in row
	kind    [verifC10AppMaxRows]int    // row kind 0..2, see above

	creatorKnown  bool
	salt          uint32
	includeParams bool

	pageCalls int
	asked     uint64
	returned  int
	fail      bool
}

// pages: ExtraProgramPages of the database's params of app id
func (r *verifC10AppReader) pages(id basics.AppIndex) uint32 { return uint32(id) + r.salt }

func (r *verifC10AppReader) LookupLimitedResources(addr basics.Address, minIdx basics.CreatableIndex, maxCreatables uint64, ctype basics.CreatableType) ([]trackerdb.PersistedResourcesDataWithCreator, basics.Round, error) {
	r.pageCalls++
	r.asked = maxCreatables
	vr.Assert("c10app.db-asked-for-addr-cursor-apps", addr == r.addr && basics.AppIndex(minIdx) == r.cursor && ctype == basics.AppCreatable)
	if r.fail {
		return nil, 0, errVerifC10DB
	}
	var rows []trackerdb.PersistedResourcesDataWithCreator
	for i := 0; i < r.k && uint64(i) < maxCreatables; i++ {
		var row trackerdb.PersistedResourcesDataWithCreator
		row.AcctRef = verifC10Ref{}
		row.Aidx = basics.CreatableIndex(r.ids[i])
		row.Round = r.dbRound
		row.Data = trackerdb.ResourcesData{UpdateRound: 3}
		hasCreator := true
		switch r.kind[i] {
		case 0:
			row.Data.SchemaNumUint = r.nuint[i]
			if r.creatorKnown {
				row.Creator = verifC10Addr(7)
			} else {
				hasCreator = false
			}
		case 1:
			row.Data.SchemaNumUint = r.nuint[i]
			row.Data.ResourceFlags = trackerdb.ResourceFlagsOwnership
			row.Creator = r.addr
		case 2:
			row.Data.ResourceFlags = trackerdb.ResourceFlagsOwnership | trackerdb.ResourceFlagsNotHolding
			row.Creator = r.addr
		}
		if hasCreator {
			row.Data.ExtraProgramPages = r.pages(r.ids[i])
			row.Data.GlobalStateSchemaNumUint = 3
		}
		rows = append(rows, row)
	}
	r.returned = len(rows)
	if len(rows) == 0 {
		return nil, 0, nil
	}
	return rows, r.dbRound, nil
}

func (r *verifC10AppReader) LookupCreator(cidx basics.CreatableIndex, ctype basics.CreatableType) (basics.Address, bool, basics.Round, error) {
	vr.Assert("c10app.creator-asked-as-app", ctype == basics.AppCreatable)
	if r.creatorKnown {
		return verifC10Addr(7), true, r.dbRound, nil
	}
	return basics.Address{}, false, r.dbRound, nil
}

// LookupResources: the creator's row (not opted in; GlobalStateSchemaNumUint is a
// concrete non-zero params field so that IsApp() does not fork).
func (r *verifC10AppReader) LookupResources(addr basics.Address, aidx basics.CreatableIndex, ctype basics.CreatableType) (trackerdb.PersistedResourcesData, error) {
	vr.Assert("c10app.resource-asked-of-creator-for-params", r.includeParams && r.creatorKnown && addr == verifC10Addr(7) && ctype == basics.AppCreatable)
	row := trackerdb.PersistedResourcesData{AcctRef: verifC10Ref{}, Aidx: aidx, Round: r.dbRound}
	row.Data = trackerdb.ResourcesData{GlobalStateSchemaNumUint: 3, ExtraProgramPages: r.pages(basics.AppIndex(aidx)),
		ResourceFlags: trackerdb.ResourceFlagsOwnership | trackerdb.ResourceFlagsNotHolding, UpdateRound: 3}
	return row, nil
}

func (r *verifC10AppReader) LookupAccount(addr basics.Address) (trackerdb.PersistedAccountData, error) {
	panic("verif: LookupAccount must not be reached")
}
func (r *verifC10AppReader) LookupAllResources(addr basics.Address) ([]trackerdb.PersistedResourcesData, basics.Round, error) {
	panic("verif: LookupAllResources must not be reached")
}
func (r *verifC10AppReader) LookupKeyValue(key string) (trackerdb.PersistedKVData, error) {
	panic("verif: LookupKeyValue must not be reached")
}
func (r *verifC10AppReader) LookupKeysByPrefix(prefix string, maxKeyNum uint64, results map[string]bool, resultCount uint64) (basics.Round, error) {
	panic("verif: LookupKeysByPrefix must not be reached")
}
func (r *verifC10AppReader) LookupKeysByPrefixCursor(prefix string, cursor string, limit uint64, maxBytes uint64, includeValues bool, exclude map[string][]byte) (basics.Round, []ledgercore.KvPairResult, bool, error) {
	panic("verif: LookupKeysByPrefixCursor must not be reached")
}
func (r *verifC10AppReader) Close() {}

// record kinds
const (
	verifC10AppOff = iota
	verifC10AppL
	verifC10AppLx
	verifC10AppC
	verifC10AppCL
	verifC10AppCx
	verifC10AppCxLx
	verifC10AppCLx
	verifC10AppCxL
)

// parts: 0 none, 1 present, 2 deleted
var verifC10AppState = [9]uint8{0, 1, 2, 0, 1, 0, 2, 2, 1}
var verifC10AppParams = [9]uint8{0, 0, 0, 1, 1, 2, 2, 1, 2}

type verifC10AppRec struct {
	on    bool
	id    basics.AppIndex
	st    uint8 // State part
	pm    uint8 // Params part
	nuint uint64
	pages uint32
}

func verifC10AppRecord(l string, kinds []int) verifC10AppRec {
	var e verifC10AppRec
	kind := kinds[vr.Choice(l+".kind", len(kinds))]
	if kind == verifC10AppOff {
		return e
	}
	e.on = true
	e.id = basics.AppIndex(vr.U64(l + ".id"))
	e.st, e.pm = verifC10AppState[kind], verifC10AppParams[kind]
	e.nuint = vr.U64(l + ".nuint")
	e.pages = vr.U32(l + ".pages")
	return e
}

func (e verifC10AppRec) deltas() (ledgercore.AppParamsDelta, ledgercore.AppLocalStateDelta) {
	var p ledgercore.AppParamsDelta
	var s ledgercore.AppLocalStateDelta
	switch e.st {
	case 1:
		s.LocalState = &basics.AppLocalState{Schema: basics.StateSchema{NumUint: e.nuint}}
	case 2:
		s.Deleted = true
	}
	switch e.pm {
	case 1:
		p.Params = &basics.AppParams{ExtraProgramPages: e.pages, StateSchemas: basics.StateSchemas{GlobalStateSchema: basics.StateSchema{NumUint: 2}}}
	case 2:
		p.Deleted = true
	}
	return p, s
}

type verifC10AppWorld struct {
	au      *accountUpdates
	db      *verifC10AppReader
	dbRound basics.Round
	addr    basics.Address
	cursor  basics.AppIndex
	recs    [2]verifC10AppRec // recs[i] lives in delta round D+1+i
	third   verifC10AppRec    // verifC10Addr(3)'s record (params part only matters), round D+2
}

var verifC10AppThirdKinds = []int{verifC10AppOff, verifC10AppC, verifC10AppCx}

func verifC10AppBuild(maxRows int, kinds0, kinds1 []int, third bool) *verifC10AppWorld {
	w := &verifC10AppWorld{}
	w.dbRound = basics.Round(vr.U64("dbRound"))
	vr.Assume(w.dbRound < 1<<40)
	w.addr = verifC10Addr(1)
	other := verifC10Addr(2)
	w.cursor = basics.AppIndex(vr.U64("cursor"))

	db := &verifC10AppReader{addr: w.addr, cursor: w.cursor, dbRound: w.dbRound}
	db.k = vr.Choice("db.rows", maxRows+1)
	names := [verifC10AppMaxRows]string{"row0", "row1"}
	prev := w.cursor
	for i := 0; i < db.k; i++ {
		db.ids[i] = basics.AppIndex(vr.U64(names[i] + ".id"))
		vr.Assume(db.ids[i] > prev) // contract: above the cursor, strictly increasing
		prev = db.ids[i]
		db.nuint[i] = vr.U64(names[i] + ".nuint")
		db.kind[i] = vr.Choice(names[i]+".kind", 3)
	}
	db.creatorKnown = vr.Bool("db.creatorknown")
	db.salt = vr.U32("db.salt")
	w.db = db

	au := &accountUpdates{}
	au.log = logging.Base()
	au.accountsq = db
	au.cachedDBRound = w.dbRound
	au.accounts = make(map[basics.Address]modifiedAccount)
	au.resources = make(resourcesUpdates)
	au.kvStore = make(map[string]modifiedKvValue)
	au.creatables = make(map[basics.CreatableIndex]ledgercore.ModifiedCreatable)
	au.versions = []protocol.ConsensusVersion{"vC10"}
	au.roundTotals = []ledgercore.AccountTotals{{}}
	au.deltasAccum = []int{0}

	labels := [2]string{"e0", "e1"}
	kinds := [2][]int{kinds0, kinds1}
	for i := 0; i < 2; i++ {
		hdr := &bookkeeping.BlockHeader{Round: w.dbRound + 1 + basics.Round(i)}
		sd := ledgercore.MakeStateDelta(hdr, 0, 2, 0)
		if third && i == 1 {
			t := verifC10AppRecord("third", verifC10AppThirdKinds)
			if t.on {
				// an app has one creator, fixed at creation (params live only in the
				// creator's account, ids come from the transaction counter and are
				// never reused: apply.ApplicationCall / createApplication): the third
				// account's app is neither one whose params addr's records carry nor
				// one the DATABASE attributes to addr. (Without the second clause a
				// database row "addr created x, not opted in" would leave the page
				// because the deltas name another creator, without any deletion to
				// over-request for - a state no history reaches.)
				vr.Assume(!(w.recs[0].on && w.recs[0].pm != 0 && w.recs[0].id == t.id))
				for r := 0; r < db.k; r++ {
					if db.kind[r] != 0 {
						vr.Assume(db.ids[r] != t.id)
					}
				}
				p, s := t.deltas()
				sd.Accts.UpsertAppResource(verifC10Addr(3), t.id, p, s)
			}
			w.third = t
		}
		e := verifC10AppRecord(labels[i], kinds[i])
		if i == 1 && w.third.on {
			vr.Assume(!(e.on && e.pm != 0 && e.id == w.third.id))
		}
		w.recs[i] = e
		if e.on {
			// another account's local state of the very same app: not ours
			sd.Accts.UpsertAppResource(other, e.id, ledgercore.AppParamsDelta{}, ledgercore.AppLocalStateDelta{LocalState: &basics.AppLocalState{Schema: basics.StateSchema{NumUint: 999}}})
			p, s := e.deltas()
			sd.Accts.UpsertAppResource(w.addr, e.id, p, s)
		}
		au.deltas = append(au.deltas, sd)
		au.versions = append(au.versions, "vC10")
		au.roundTotals = append(au.roundTotals, ledgercore.AccountTotals{})
		au.deltasAccum = append(au.deltasAccum, au.deltasAccum[i]+sd.Accts.Len())
	}
	w.au = au
	return w
}

// ---- ghost: the merged view at round D+2

func (w *verifC10AppWorld) inDB(x basics.AppIndex) (found bool, optedIn bool, nuint uint64, own bool) {
	for i := 0; i < w.db.k; i++ {
		if w.db.ids[i] == x {
			found, optedIn, nuint, own = true, w.db.kind[i] != 2, w.db.nuint[i], w.db.kind[i] != 0
		}
	}
	return
}

// inDeltaLocals: the newest record of (addr, x) with a State part
func (w *verifC10AppWorld) inDeltaLocals(x basics.AppIndex) (found bool, deleted bool, nuint uint64) {
	for i := 0; i < 2; i++ { // later rounds override
		e := w.recs[i]
		if e.on && e.st != 0 && e.id == x {
			found, deleted, nuint = true, e.st == 2, e.nuint
		}
	}
	return
}

func (w *verifC10AppWorld) local(x basics.AppIndex) (bool, uint64) {
	inDelta, deleted, nuint := w.inDeltaLocals(x)
	_, optedIn, dbNuint, _ := w.inDB(x)
	if inDelta {
		return !deleted, nuint
	}
	return optedIn, dbNuint
}

// creatorOf: (exists, who, params taken from the deltas?, ExtraProgramPages)
func (w *verifC10AppWorld) creatorOf(x basics.AppIndex) (known bool, who basics.Address, fromDelta bool, pages uint32) {
	// the database
	pages = w.db.pages(x)
	if w.db.creatorKnown {
		known, who = true, verifC10Addr(7)
	}
	if _, _, _, own := w.inDB(x); own {
		known, who = true, w.addr
	}
	// the newest params record; third and recs[1] share round D+2 but never the same app
	if e := w.recs[0]; e.on && e.pm != 0 && e.id == x {
		known, who, fromDelta, pages = e.pm == 1, w.addr, true, e.pages
	}
	if e := w.third; e.on && e.id == x {
		known, who, fromDelta, pages = e.pm == 1, verifC10Addr(3), true, e.pages
	}
	if e := w.recs[1]; e.on && e.pm != 0 && e.id == x {
		known, who, fromDelta, pages = e.pm == 1, w.addr, true, e.pages
	}
	return
}

func (w *verifC10AppWorld) present(x basics.AppIndex) bool {
	loc, _ := w.local(x)
	known, who, _, _ := w.creatorOf(x)
	return loc || (known && who == w.addr)
}

func verifC10AppListed(page []ledgercore.AppResourceWithIDs, x basics.AppIndex) bool {
	listed := false
	for _, p := range page {
		if p.AppID == x {
			listed = true
		}
	}
	return listed
}

func (w *verifC10AppWorld) checkCandidate(tag string, page []ledgercore.AppResourceWithIDs, limit uint64, x basics.AppIndex) {
	beyond := false
	if uint64(len(page)) == limit {
		beyond = x > page[len(page)-1].AppID
	}
	vr.Assert(tag, vr.Implies(w.present(x) && x > w.cursor, verifC10AppListed(page, x) || beyond))
}

func verifC10AppRun(maxRows, maxLimit int, kinds0, kinds1 []int, third bool, noParams bool) {
	w := verifC10AppBuild(maxRows, kinds0, kinds1, third)
	limit := uint64(1 + vr.Choice("limit", maxLimit))
	includeParams := !noParams
	w.db.includeParams = includeParams

	page, rnd, err := w.au.lookupApplicationResources(w.addr, w.cursor, limit, includeParams)

	vr.Assert("c10app.no-error", err == nil)
	vr.Assert("c10app.round-is-latest", rnd == w.dbRound+2)
	vr.Assert("c10app.database-page-asked-once", w.db.pageCalls == 1 && w.db.asked >= limit)
	vr.Assert("c10app.at-most-limit", uint64(len(page)) <= limit)

	prev := w.cursor
	prevCreatedOnly := false
	for j, p := range page {
		x := p.AppID
		vr.Assert("c10app.increasing-above-cursor", x > prev) // (a)
		prev = x
		loc, nuint := w.local(x)
		known, who, fromDelta, pages := w.creatorOf(x)
		vr.Assert("c10app.listed-is-opted-in-or-created", loc || (known && who == w.addr)) // (c)
		vr.Assert("c10app.local-state-presence", (p.AppLocalState != nil) == loc)
		if p.AppLocalState != nil {
			vr.Assert("c10app.local-state-value", p.AppLocalState.Schema.NumUint == nuint && p.AppLocalState.Schema.NumByteSlice == 0 && len(p.AppLocalState.KeyValue) == 0)
		}
		if known {
			vr.Assert("c10app.creator", p.Creator == who)
		} else {
			vr.Assert("c10app.no-creator", p.Creator.IsZero())
		}
		vr.Assert("c10app.params-presence", (p.AppParams != nil) == (known && includeParams))
		if p.AppParams != nil {
			wantSchema := uint64(3) // database params
			if fromDelta {
				wantSchema = 2
			}
			vr.Assert("c10app.params-value", p.AppParams.ExtraProgramPages == pages && p.AppParams.GlobalStateSchema.NumUint == wantSchema)
		}
		// witnesses
		inDelta, _, _ := w.inDeltaLocals(x)
		inDB, _, _, _ := w.inDB(x)
		createdOnly := !inDB && !loc && fromDelta
		if inDB && (inDelta || fromDelta) {
			vr.Reach("overridden")
		}
		if !inDB && loc {
			vr.Reach("deltaonly")
			if prevCreatedOnly {
				vr.Reach("createdbelowoptin")
			}
		}
		if createdOnly {
			vr.Reach("createdonly")
		}
		if inDB && !loc {
			vr.Reach("dbcreatoronly")
		}
		if loc && !known {
			vr.Reach("nocreator")
		}
		if j == 1 {
			vr.Reach("two")
		}
		prevCreatedOnly = createdOnly
	}
	// (d)
	for i := 0; i < w.db.k; i++ {
		w.checkCandidate("c10app.database-row-listed-or-beyond-page", page, limit, w.db.ids[i])
		if !w.present(w.db.ids[i]) {
			vr.Reach("dbrowremoved")
		}
	}
	for i := 0; i < 2; i++ {
		if w.recs[i].on {
			w.checkCandidate("c10app.delta-id-listed-or-beyond-page", page, limit, w.recs[i].id)
		}
	}
	if w.third.on {
		w.checkCandidate("c10app.third-party-id-listed-or-beyond-page", page, limit, w.third.id)
		vr.Reach("third")
	}
	if uint64(w.db.returned) == w.db.asked {
		vr.Reach("dbhasmore")
	}
	if uint64(len(page)) < limit {
		vr.Reach("shortpage")
	}
	vr.Reach("done")
}

// second-record kinds per tier
var verifC10AppSecondQuick = []int{verifC10AppOff, verifC10AppL, verifC10AppLx, verifC10AppC, verifC10AppCL, verifC10AppCx}
var verifC10AppSecondAll = []int{verifC10AppOff, verifC10AppL, verifC10AppLx, verifC10AppC, verifC10AppCL, verifC10AppCx, verifC10AppCxLx, verifC10AppCLx, verifC10AppCxL}

func verifC10AppSecond() []int {
	if vr.Param(0, 1) == 1 {
		return verifC10AppSecondAll
	}
	return verifC10AppSecondQuick
}

func verifC10AppPage(kinds0 []int) {
	verifC10AppRun(vr.Param(1, 2), 2, kinds0, verifC10AppSecond(), false, false)
}

// first record: none, or an opt-in (then e.g. "opted in to B, created A < B")
//
//verif:harness prop=C10 reach=done,two,deltaonly,createdonly,createdbelowoptin,overridden,dbcreatoronly,nocreator,dbrowremoved,dbhasmore,shortpage unwind=12 budget=330 thorough.budget=3600
func VerifC10AppPageOptIn() { verifC10AppPage([]int{verifC10AppOff, verifC10AppL}) }

// first record: a close-out
//
//verif:harness prop=C10 reach=done,two,deltaonly,createdonly,overridden,dbrowremoved,dbhasmore,shortpage unwind=12 budget=330 thorough.budget=3600
func VerifC10AppPageCloseOut() { verifC10AppPage([]int{verifC10AppLx}) }

// first record: the deletion of an app the account created (and was not opted in to)
//
//verif:harness prop=C10 reach=done,two,deltaonly,createdonly,overridden,dbrowremoved,dbhasmore,shortpage unwind=12 budget=330 thorough.budget=3600
func VerifC10AppPageDestroy() { verifC10AppPage([]int{verifC10AppCx}) }

// first record: an app created (or updated) without opting in
//
//verif:harness prop=C10 reach=done,two,deltaonly,createdonly,createdbelowoptin,overridden,dbhasmore,shortpage unwind=12 budget=330 thorough.budget=3600
func VerifC10AppPageCreate() { verifC10AppPage([]int{verifC10AppC}) }

// first record: an app created (or updated) by an opted-in creator
//
//verif:harness prop=C10 reach=done,two,deltaonly,createdonly,overridden,dbhasmore,shortpage unwind=12 budget=330 thorough.budget=3600
func VerifC10AppPageCreateOptIn() { verifC10AppPage([]int{verifC10AppCL}) }

// first record: the mixed deletions (thorough only)
//
//verif:harness prop=C10 tier=thorough reach=done,two,deltaonly,createdonly,overridden,dbrowremoved,dbhasmore,shortpage unwind=12 budget=3600
func VerifC10AppPageDestroyCloseOut() { verifC10AppPage([]int{verifC10AppCxLx}) }

//verif:harness prop=C10 tier=thorough reach=done,two,deltaonly,createdonly,overridden,dbhasmore,shortpage unwind=12 budget=3600
func VerifC10AppPageCreatorCloseOut() { verifC10AppPage([]int{verifC10AppCLx}) }

//verif:harness prop=C10 tier=thorough reach=done,two,deltaonly,createdonly,overridden,nocreator,dbhasmore,shortpage unwind=12 budget=3600
func VerifC10AppPageDestroyStayOptedIn() { verifC10AppPage([]int{verifC10AppCxL}) }

// includeParams == false: creators are reported, params never loaded (thorough
// only; quick-tier bounds)
//
//verif:harness prop=C10 tier=thorough reach=done,two,deltaonly,createdonly,createdbelowoptin,overridden,dbhasmore,shortpage unwind=12 budget=3600
func VerifC10AppPageNoParams() {
	verifC10AppRun(1, 2, []int{verifC10AppOff, verifC10AppL, verifC10AppC, verifC10AppCL}, verifC10AppSecondQuick, false, true)
}

// a third account updates or deletes an app it created (the account may be opted
// in to it in the database or in the deltas); the account itself has one record.
// Quick: K <= 1, thorough: K <= 2.
//
//verif:harness prop=C10 reach=done,third,two,deltaonly,overridden,nocreator,dbhasmore,shortpage unwind=12 budget=330 thorough.budget=3600
func VerifC10AppPageThird() {
	verifC10AppRun(vr.Param(1, 2), 2, []int{verifC10AppOff, verifC10AppL, verifC10AppLx, verifC10AppC}, []int{verifC10AppOff}, true, false)
}

// the third account's record next to TWO records of the account (thorough only, K <= 1)
//
//verif:harness prop=C10 tier=thorough reach=done,third,two,deltaonly,createdonly,createdbelowoptin,overridden,nocreator,dbhasmore,shortpage unwind=12 budget=3600
func VerifC10AppPageThirdTwo() {
	verifC10AppRun(1, 2, []int{verifC10AppL, verifC10AppC}, []int{verifC10AppL, verifC10AppLx, verifC10AppC}, true, false)
}

// a database that is behind the tracker is refused; a reader error is passed on;
// limit 0 lists nothing (and does not touch the database).
//
//verif:harness prop=C10 reach=done,stale,dberror,zero unwind=12 budget=120
func VerifC10AppStaleDatabase() {
	w := verifC10AppBuild(1, []int{verifC10AppOff, verifC10AppL}, []int{verifC10AppOff, verifC10AppC}, false)
	w.db.includeParams = true
	switch vr.Choice("mode", 3) {
	case 0:
		vr.Assume(w.db.k == 1)
		w.db.dbRound = basics.Round(vr.U64("db.round"))
		vr.Assume(w.db.dbRound < w.dbRound)
		_, _, err := w.au.lookupApplicationResources(w.addr, w.cursor, 1, true)
		stale, isStale := err.(*StaleDatabaseRoundError)
		vr.Assert("c10app.database-behind-refused", isStale && stale.databaseRound == w.db.dbRound && stale.memoryRound == w.dbRound)
		vr.Reach("stale")
	case 1:
		w.db.fail = true
		_, _, err := w.au.lookupApplicationResources(w.addr, w.cursor, 1, true)
		vr.Assert("c10app.database-error-passed-on", err == errVerifC10DB)
		vr.Reach("dberror")
	case 2:
		page, rnd, err := w.au.lookupApplicationResources(w.addr, w.cursor, 0, true)
		vr.Assert("c10app.limit-zero-lists-nothing", err == nil && len(page) == 0 && rnd == w.dbRound+2 && w.db.pageCalls == 0)
		vr.Reach("zero")
	}
	vr.Reach("done")
}
