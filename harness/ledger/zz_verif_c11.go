//go:build verif

package ledger

import (
	"github.com/algorand/go-algorand/config"
	"github.com/algorand/go-algorand/crypto"
	"github.com/algorand/go-algorand/data/basics"
	"github.com/algorand/go-algorand/data/bookkeeping"
	"github.com/algorand/go-algorand/data/transactions"
	vr "github.com/algorand/go-algorand/internal/verifrt"
	"github.com/algorand/go-algorand/ledger/ledgercore"
	"github.com/algorand/go-algorand/ledger/store/trackerdb"
)

// C11: a committed transaction cannot be committed again while valid; an active
// (sender, lease) pair blocks every other transaction with the same pair.
//
// Bounded model check of txTail.newBlock / checkDup / committedUpTo against a
// ghost list of committed transactions.
//
// History: the tail starts empty at base round B (what loadFromDisk builds for a
// ledger whose last MaxTxnLife blocks carry no transactions; B = 0 is the fresh
// ledger) and rounds B+1 .. B+R follow (R = 2; R = 3 in VerifC11TxTailLong). In every round
// `cur` ONE candidate transaction (txid, FirstValid, LastValid, sender, lease) is
// presented to checkDup(proto, cur, fv, lv, txid, lease) exactly as
// roundCowBase.checkDup does for the evaluator of block `cur`; the verdict is
// compared with the ghost model (both directions, see verifC11Check). The block
// then carries that candidate iff the evaluator would accept it (checkDup == nil,
// fv <= cur <= lv [BlockHeader.Alive], lv-fv <= MaxTxnLife [WellFormed]) and a
// free flag says so - otherwise it is empty. StateDelta.Txids / Txleases are built
// as roundCowState.addTx builds them. Optionally committedUpTo(r) runs for some
// r <= latest after a block. A last candidate is checked after round B+R.
//
// Candidates: the txid has one symbolic byte; senders come from a pool of 2; the
// lease is zero or one fixed non-zero value; fv, lv are symbolic, well formed
// (lv-fv <= MaxTxnLife); candidates of rounds that get a block are alive
// (fv <= cur <= lv), the final query lies anywhere within MaxTxnLife+1 of the round. A txid is a collision-free hash of the transaction,
// therefore two candidates with the same txid have the same fields (assumed).
//
// Consensus: SupportTransactionLeases = true, FixTransactionLeases on (off in the
// thorough-only *Legacy harnesses), MaxTxnLife = 2 (quick) / symbolic in 1..4
// (thorough); see verifC11Run.
//
// Verdict demanded for a well-formed candidate q at round cur (derived from the
// property and from what the evaluator relies on), with the ghost list C of
// committed transactions (each with its round r_i) and the ghost low water mark
// W = max r passed to committedUpTo (B initially):
//
//   lv_q < W                                   -> some error (tail no longer knows)
//   else leaseHit(q)                           -> *LeaseInLedgerError
//   else exists i: txid_i == txid_q            -> *TransactionInLedgerError
//   else                                       -> nil
//
//   leaseHit(q) = lease_q != 0 and exists i: (sender_i, lease_i) == (sender_q, lease_q)
//                 and cur <= lv_i [the lease has not expired]
//                 and, only when FixTransactionLeases is off (the legacy rule
//                 looks at the candidate's own window), fv_q <= r_i <= lv_q.
//
// In particular (the property): a committed txid with cur <= lv is refused; an
// unexpired lease refuses everybody (FixTransactionLeases on); a fresh txid with
// no live lease conflict is accepted. No pruning condition appears in the spec:
// that committedUpTo never drops an entry that can still matter is part of what
// is proved.

func verifStubTailEncode(t *trackerdb.TxTailRound) ([]byte, crypto.Digest) {
	return nil, crypto.Digest{}
}

const verifC11Proto = "vC11"

type verifC11Tx struct {
	txid     transactions.Txid
	fv, lv   basics.Round
	sender   basics.Address
	lease    [32]byte
	idByte   uint8
	sndIdx   uint8
	hasLease bool
	round    basics.Round // round it was committed in (ghost)
}

func verifC11Candidate(label string, cur basics.Round, maxLife uint64, alive bool) verifC11Tx {
	var c verifC11Tx
	c.idByte = vr.U8(label + ".txid")
	c.txid[5] = c.idByte
	c.txid[0] = 0xC1
	// fv, lv within MaxTxnLife+1 of the current round, fv <= lv, lv-fv <= MaxTxnLife
	// (Transaction.WellFormed); NOT necessarily alive at cur.
	lo := uint64(cur) - min(uint64(cur), maxLife+1)
	c.fv = basics.Round(lo + uint64(vr.U8(label+".fv")))
	c.lv = c.fv + basics.Round(vr.U8(label+".life"))
	vr.Assume(uint64(c.fv) <= uint64(cur)+maxLife+1)
	vr.Assume(uint64(c.lv-c.fv) <= maxLife)
	if alive {
		vr.Assume(c.fv <= cur && cur <= c.lv)
	}
	c.sndIdx = vr.U8(label + ".sender")
	vr.Assume(c.sndIdx < 2)
	c.sender[0] = 1 + c.sndIdx
	c.sender[31] = 0x55
	c.hasLease = vr.Bool(label + ".lease")
	if c.hasLease {
		c.lease[3] = 7
	}
	return c
}

func verifC11SameFields(a, b verifC11Tx) bool {
	return a.fv == b.fv && a.lv == b.lv && a.sndIdx == b.sndIdx && a.hasLease == b.hasLease
}

// verifC11Check compares checkDup's verdict on q with the ghost model.
func verifC11Check(t *txTail, proto config.ConsensusParams, cur basics.Round, q verifC11Tx, committed []verifC11Tx, lowWater basics.Round) error {
	err := t.checkDup(proto, cur, q.fv, q.lv, q.txid, ledgercore.Txlease{Sender: q.sender, Lease: q.lease})

	leaseHit, txidHit := false, false
	for _, c := range committed {
		if c.idByte == q.idByte {
			txidHit = true
		}
		if q.hasLease && c.hasLease && c.sndIdx == q.sndIdx && cur <= c.lv {
			if proto.FixTransactionLeases || (q.fv <= c.round && c.round <= q.lv) {
				leaseHit = true
			}
		}
	}
	_, isLease := err.(*ledgercore.LeaseInLedgerError)
	tile, isTxid := err.(*ledgercore.TransactionInLedgerError)
	switch {
	case q.lv < lowWater:
		vr.Reach("stale")
		vr.Assert("c11.stale-rejected", err != nil)
	case leaseHit:
		vr.Reach("leasehit")
		vr.Assert("c11.lease-rejected", isLease)
	case txidHit:
		vr.Reach("txidhit")
		vr.Assert("c11.duplicate-rejected", isTxid && tile.Txid == q.txid && !tile.InBlockEvaluator)
	default:
		vr.Reach("fresh")
		vr.Assert("c11.fresh-accepted", err == nil)
	}
	// the property itself, in its own words
	if txidHit && cur <= q.lv {
		vr.Assert("c11.no-double-commit-while-valid", err != nil)
	}
	return err
}

// verifC11Run is the bounded model check for one base round and one setting of
// FixTransactionLeases (the four combinations are separate harnesses only so
// that they are explored in parallel).
//
// narrow (quick tier, and the 3-round run): MaxTxnLife = 2, at most one
// committedUpTo in the history, always of the latest round (the deepest trim).
// wide (thorough tier, 2 rounds): MaxTxnLife symbolic in 1..4, committedUpTo of
// any round so far after any block.
func verifC11Run(base basics.Round, fix bool, rounds int, wide bool) {
	maxLife := vr.U64("MaxTxnLife")
	if wide {
		vr.Assume(maxLife >= 1 && maxLife <= 4)
	} else {
		vr.Assume(maxLife == 2)
	}
	var proto config.ConsensusParams
	proto.MaxTxnLife = maxLife
	proto.SupportTransactionLeases = true
	proto.FixTransactionLeases = fix
	config.Consensus = config.ConsensusProtocols{verifC11Proto: proto}

	// the empty tail, as loadFromDisk leaves it
	t := &txTail{
		recent:                    make(map[basics.Round]roundLeases),
		lastValid:                 make(map[basics.Round]map[transactions.Txid]uint16),
		blockHeaderData:           make(map[basics.Round]bookkeeping.BlockHeader),
		roundTailSerializedDeltas: make([][]byte, 0),
		lowWaterMark:              base,
		lowestBlockHeaderRound:    base,
	}
	lowWater := base

	var committed []verifC11Tx
	var seen []verifC11Tx
	labels := [4]string{"c1", "c2", "c3", "c4"}
	for k := 0; k <= rounds; k++ {
		cur := base + 1 + basics.Round(k)
		// candidates of rounds that get a block are alive (a dead one could not be
		// included anyway); the final query is arbitrary
		q := verifC11Candidate(labels[k], cur, maxLife, k < rounds)
		// txid is a collision-free hash of the transaction
		for _, o := range seen {
			vr.Assume(vr.Implies(o.idByte == q.idByte, verifC11SameFields(o, q)))
		}
		if k == 0 {
			// the two senders are interchangeable: the first candidate uses sender 0
			vr.Assume(q.sndIdx == 0)
		}
		seen = append(seen, q)

		err := verifC11Check(t, proto, cur, q, committed, lowWater)
		if k == rounds {
			break
		}

		// block `cur`
		var blk bookkeeping.Block
		blk.BlockHeader.Round = cur
		blk.BlockHeader.CurrentProtocol = verifC11Proto
		var delta ledgercore.StateDelta
		delta.Txids = make(map[transactions.Txid]ledgercore.IncludedTransactions)
		accept := err == nil && q.fv <= cur && cur <= q.lv
		if accept && vr.Bool(labels[k]+".include") {
			vr.Reach("included")
			var stib transactions.SignedTxnInBlock
			stib.Txn.Sender = q.sender
			stib.Txn.FirstValid = q.fv
			stib.Txn.LastValid = q.lv
			stib.Txn.Lease = q.lease
			blk.Payset = append(blk.Payset, stib)
			// roundCowState.addTx
			delta.Txids[q.txid] = ledgercore.IncludedTransactions{LastValid: q.lv, Intra: uint64(len(delta.Txids))}
			if q.lease != [32]byte{} {
				delta.AddTxLease(ledgercore.Txlease{Sender: q.sender, Lease: q.lease}, q.lv)
			}
			q.round = cur
			committed = append(committed, q)
		}
		t.newBlock(blk, delta)

		// the ledger may report any round up to the latest as committed
		if (wide || lowWater == base) && vr.Bool(labels[k]+".commit") {
			back := 0
			if wide {
				back = vr.Choice(labels[k]+".commitback", k+1)
			}
			r := cur - basics.Round(back)
			t.committedUpTo(r)
			if r > lowWater {
				lowWater = r
				vr.Reach("trimmed")
			}
		}
	}
	vr.Reach("done")
}

// base 0: the fresh ledger (current - MaxTxnLife saturates at 0)
//
//verif:harness prop=C11 reach=done,leasehit,txidhit,fresh,stale,included,trimmed unwind=10 budget=230 thorough.budget=2400
//verif:stub (*github.com/algorand/go-algorand/ledger/store/trackerdb.TxTailRound).Encode = verifStubTailEncode
func VerifC11TxTailFresh() { verifC11Run(0, true, 2, vr.Param(0, 1) == 1) }

//verif:harness prop=C11 reach=done,leasehit,txidhit,fresh,stale,included,trimmed unwind=10 budget=230 thorough.budget=2400
//verif:stub (*github.com/algorand/go-algorand/ledger/store/trackerdb.TxTailRound).Encode = verifStubTailEncode
func VerifC11TxTailSteady() { verifC11Run(1000, true, 2, vr.Param(0, 1) == 1) }

// the legacy lease rule (FixTransactionLeases off: only the candidate's own
// validity window is searched for a lease); narrow bounds
//
//verif:harness prop=C11 tier=thorough reach=done,leasehit,txidhit,fresh,stale,included,trimmed unwind=10 budget=2400
//verif:stub (*github.com/algorand/go-algorand/ledger/store/trackerdb.TxTailRound).Encode = verifStubTailEncode
func VerifC11TxTailFreshLegacy() { verifC11Run(0, false, 2, false) }

//verif:harness prop=C11 tier=thorough reach=done,leasehit,txidhit,fresh,stale,included,trimmed unwind=10 budget=2400
//verif:stub (*github.com/algorand/go-algorand/ledger/store/trackerdb.TxTailRound).Encode = verifStubTailEncode
func VerifC11TxTailSteadyLegacy() { verifC11Run(1000, false, 2, false) }

// three rounds (narrow)
//
//verif:harness prop=C11 tier=thorough reach=done,leasehit,txidhit,fresh,stale,included,trimmed unwind=10 budget=2400
//verif:stub (*github.com/algorand/go-algorand/ledger/store/trackerdb.TxTailRound).Encode = verifStubTailEncode
func VerifC11TxTailLong() { verifC11Run(1000, true, 3, false) }
