//go:build verif

package ledger

import (
	"errors"

	"github.com/algorand/go-algorand/data/basics"
	"github.com/algorand/go-algorand/data/bookkeeping"
	vr "github.com/algorand/go-algorand/internal/verifrt"
	"github.com/algorand/go-algorand/ledger/ledgercore"
	"github.com/algorand/go-algorand/ledger/store/trackerdb"
	"github.com/algorand/go-algorand/logging"
	"github.com/algorand/go-algorand/protocol"
)

// C10 (narrow, lemma level): a page of an account's asset listing contains each
// asset the account holds at the listed round exactly once, in increasing order,
// with its value at that round - however the state is split between the
// in-memory deltas and the database.
//
// WHAT IS DECIDED HERE. ONE page of accountUpdates.lookupAssetResources(addr,
// assetIDGT, limit): the merge of the in-memory deltas with the database page
// obtained through au.accountsq.LookupLimitedResources, where the database reader
// is a harness type that follows the SQL query's contract
// (store/trackerdb/sqlitedriver/sql.go lookupLimitedResourcesStmt):
//
//	rows of `addr` with aidx > minIdx, ordered by aidx ascending, at most
//	maxCreatables of them (the FIRST ones), each with the account's holding, and -
//	joined through assetcreators - the creator address and the creator's params
//	when the asset still exists; all as of the database round D, which is reported
//	with the rows (0 when there is no row at all: the inner joins yield nothing).
//
// State: symbolic cachedDBRound D (< 2^40); the database holds K rows of addr
// above the cursor (K <= 2 quick, <= 3 thorough) with symbolic strictly
// increasing ids and symbolic amounts; two delta rounds D+1, D+2 carrying at most
// one record each for addr: symbolic asset id (anywhere: below the cursor, equal
// to a database id, between, above, equal to the other record's id), either a
// holding write (opt-in or update, symbolic amount) or a holding deletion
// (opt-out); plus a record of ANOTHER account for the same asset id (must be
// ignored). Symbolic cursor; limit 1..2 (quick) / 1..3 (thorough).
// All assets either have their creator in the database (a fixed address with
// params Total = id + salt) or have none (one free boolean).
// VerifC10AssetPageParams adds params records (see there).
//
// Ghost oracle (independent): the merged holding set at round D+2,
//
//	newest(x)  = the record of the latest delta round that names (addr, x), if any
//	present(x) = newest(x) exists ? it is not a deletion : x is a database id
//	amount(x)  = newest(x) exists ? its amount           : the database amount
//
// and the page is characterised declaratively (together equivalent to "page ==
// the first `limit` present ids above the cursor, in increasing order"):
//
//	(a) ids strictly increasing and all > cursor        [no duplicates, order]
//	(b) len(page) <= limit
//	(c) every listed id is present, with amount(id), and creator/params of the
//	    newest params record in the deltas (none when that record destroys the
//	    asset), else those of the database when it knows the creator
//	(d) every candidate id (database id or delta id) that is present and > cursor
//	    is listed, unless the page is full and the id is above the last listed id
//	(e) the reported round is D+2; the database was asked once, for addr, the
//	    cursor, at least `limit` rows.
//
// Multi-page exactly-once follows on paper: page i+1 is asked with cursor = last
// id of page i, so by (a),(d) the pages partition the present ids in order -
// PROVIDED the rounds of the pages coincide (the REST handler's concern).
//
// OUTSIDE this claim: the SQL itself (cursor scan, joins, LIMIT), that
// newBlock/commitRound/postCommit keep deltas/cachedDBRound and the database in
// step (the reader here is synchronised; a reader that is BEHIND is checked to be
// refused in VerifC10StaleDatabase; a reader that is AHEAD makes the function
// wait on a condition variable for the tracker to catch up - not modelled),
// lookupApplicationResources (same structure, not built), box listings
// (LookupKvPairsByPrefix: string-prefix cursors), the REST handlers and next-token
// plumbing, limit+deletions overflowing uint64.
//
// REPRESENTATION INVARIANT ASSUMED: au.deltas[i] is the StateDelta of round D+1+i
// with consistent AccountDeltas index maps [ledgercore.UpsertAssetResource]; every
// record of (addr, asset) carries the complete holding state of that round: a
// holding pointer, or Deleted [eval.roundCowState.putAssetHolding /
// DeleteAssetHolding]; a non-creator's record has no params part, the creator's
// record carries the params or their deletion [putAssetParams/DeleteAssetParams],
// an asset has one creator. au.resources is not consulted by this function.

type verifC10Ref struct{}

func (verifC10Ref) AccountRefMarker() {}
func (verifC10Ref) String() string    { return "verifref" }

func verifC10Addr(i byte) basics.Address {
	var a basics.Address
	a[0] = i
	a[31] = 0x80 + i
	return a
}

var errVerifC10DB = errors.New("verif: database read failed")

const verifC10MaxRows = 3

// verifC10Reader: the database as of round dbRound.
type verifC10Reader struct {
	addr    basics.Address
	cursor  basics.AssetIndex
	dbRound basics.Round // round reported with rows
	k       int          // number of rows of addr above the cursor
	ids     [verifC10MaxRows]basics.AssetIndex
	amounts [verifC10MaxRows]uint64

	creatorKnown bool // every asset's creator (verifC10Addr(7)) and params are in the database
	salt         uint64

	pageCalls int
	asked     uint64
	returned  int
	fail      bool
}

func (r *verifC10Reader) total(id basics.AssetIndex) uint64 { return uint64(id) + r.salt }

func (r *verifC10Reader) LookupLimitedResources(addr basics.Address, minIdx basics.CreatableIndex, maxCreatables uint64, ctype basics.CreatableType) ([]trackerdb.PersistedResourcesDataWithCreator, basics.Round, error) {
	r.pageCalls++
	r.asked = maxCreatables
	vr.Assert("c10.db-asked-for-addr-cursor-assets", addr == r.addr && basics.AssetIndex(minIdx) == r.cursor && ctype == basics.AssetCreatable)
	if r.fail {
		return nil, 0, errVerifC10DB
	}
	var rows []trackerdb.PersistedResourcesDataWithCreator
	for i := 0; i < r.k && uint64(i) < maxCreatables; i++ {
		var row trackerdb.PersistedResourcesDataWithCreator
		row.AcctRef = verifC10Ref{}
		row.Aidx = basics.CreatableIndex(r.ids[i])
		row.Round = r.dbRound
		// the account's holding; flags as stored for a holder (ResourceFlagsHolding == 0)
		row.Data = trackerdb.ResourcesData{Amount: r.amounts[i], UpdateRound: 3}
		if r.creatorKnown {
			row.Creator = verifC10Addr(7)
			row.Data.Total = r.total(r.ids[i])
			row.Data.Decimals = 6
		}
		rows = append(rows, row)
	}
	r.returned = len(rows)
	if len(rows) == 0 {
		return nil, 0, nil // no row, no round (inner joins)
	}
	return rows, r.dbRound, nil
}

func (r *verifC10Reader) LookupCreator(cidx basics.CreatableIndex, ctype basics.CreatableType) (basics.Address, bool, basics.Round, error) {
	vr.Assert("c10.creator-asked-as-asset", ctype == basics.AssetCreatable)
	if r.creatorKnown {
		return verifC10Addr(7), true, r.dbRound, nil
	}
	return basics.Address{}, false, r.dbRound, nil
}

// LookupResources: only the creator's row is ever asked for (params of an asset
// the account holds only in the deltas).
func (r *verifC10Reader) LookupResources(addr basics.Address, aidx basics.CreatableIndex, ctype basics.CreatableType) (trackerdb.PersistedResourcesData, error) {
	vr.Assert("c10.resource-asked-of-creator", r.creatorKnown && addr == verifC10Addr(7) && ctype == basics.AssetCreatable)
	row := trackerdb.PersistedResourcesData{AcctRef: verifC10Ref{}, Aidx: aidx, Round: r.dbRound}
	row.Data = trackerdb.ResourcesData{Amount: 5, Total: r.total(basics.AssetIndex(aidx)), Decimals: 6, ResourceFlags: trackerdb.ResourceFlagsOwnership, UpdateRound: 3}
	return row, nil
}

func (r *verifC10Reader) LookupAccount(addr basics.Address) (trackerdb.PersistedAccountData, error) {
	panic("verif: LookupAccount must not be reached")
}
func (r *verifC10Reader) LookupAllResources(addr basics.Address) ([]trackerdb.PersistedResourcesData, basics.Round, error) {
	panic("verif: LookupAllResources must not be reached")
}
func (r *verifC10Reader) LookupKeyValue(key string) (trackerdb.PersistedKVData, error) {
	panic("verif: LookupKeyValue must not be reached")
}
func (r *verifC10Reader) LookupKeysByPrefix(prefix string, maxKeyNum uint64, results map[string]bool, resultCount uint64) (basics.Round, error) {
	panic("verif: LookupKeysByPrefix must not be reached")
}
func (r *verifC10Reader) LookupKeysByPrefixCursor(prefix string, cursor string, limit uint64, maxBytes uint64, includeValues bool, exclude map[string][]byte) (basics.Round, []ledgercore.KvPairResult, bool, error) {
	panic("verif: LookupKeysByPrefixCursor must not be reached")
}
func (r *verifC10Reader) Close() {}

// one record of (addr, id) in a delta round.
//
//	creator == false: addr merely holds the asset: holding write / holding deletion
//	creator == true : addr is the asset's creator: the record carries params and
//	                  holding (asset created or reconfigured), or deletes both
//	                  (asset destroyed) - VerifC10AssetPageParams only
type verifC10Rec struct {
	on      bool
	id      basics.AssetIndex
	deleted bool
	amount  uint64
	creator bool
	total   uint64
}

func verifC10Record(l string, withParams bool) verifC10Rec {
	var e verifC10Rec
	e.on = vr.Bool(l + ".on")
	if e.on {
		e.id = basics.AssetIndex(vr.U64(l + ".id"))
		e.deleted = vr.Bool(l + ".deleted")
		e.amount = vr.U64(l + ".amount")
		if withParams {
			e.creator = vr.Bool(l + ".creator")
			e.total = vr.U64(l + ".total")
		}
	}
	return e
}

func (e verifC10Rec) deltas() (ledgercore.AssetParamsDelta, ledgercore.AssetHoldingDelta) {
	var p ledgercore.AssetParamsDelta
	var h ledgercore.AssetHoldingDelta
	if e.deleted {
		h.Deleted = true
		p.Deleted = e.creator
		return p, h
	}
	h.Holding = &basics.AssetHolding{Amount: e.amount}
	if e.creator {
		p.Params = &basics.AssetParams{Total: e.total, Decimals: 2}
	}
	return p, h
}

type verifC10World struct {
	au      *accountUpdates
	db      *verifC10Reader
	dbRound basics.Round
	addr    basics.Address
	cursor  basics.AssetIndex
	recs    [2]verifC10Rec // recs[i] lives in delta round D+1+i
	// a record of a third account (verifC10Addr(3)) that created some asset and
	// reconfigures (deleted == false) or destroys it in round D+2
	third verifC10Rec
}

func verifC10Build(maxRows int, withParams bool, second bool) *verifC10World {
	w := &verifC10World{}
	w.dbRound = basics.Round(vr.U64("dbRound"))
	vr.Assume(w.dbRound < 1<<40)
	w.addr = verifC10Addr(1)
	other := verifC10Addr(2)
	w.cursor = basics.AssetIndex(vr.U64("cursor"))

	db := &verifC10Reader{addr: w.addr, cursor: w.cursor, dbRound: w.dbRound}
	db.k = vr.Choice("db.rows", maxRows+1)
	names := [verifC10MaxRows]string{"row0", "row1", "row2"}
	prev := w.cursor
	for i := 0; i < db.k; i++ {
		db.ids[i] = basics.AssetIndex(vr.U64(names[i] + ".id"))
		vr.Assume(db.ids[i] > prev) // contract: above the cursor, strictly increasing
		prev = db.ids[i]
		db.amounts[i] = vr.U64(names[i] + ".amount")
	}
	db.creatorKnown = vr.Bool("db.creatorknown")
	db.salt = vr.U64("db.salt")
	w.db = db

	au := &accountUpdates{}
	au.log = logging.Base()
	au.accountsq = db
	au.cachedDBRound = w.dbRound
	au.accounts = make(map[basics.Address]modifiedAccount)
	au.resources = make(resourcesUpdates)
	au.kvStore = make(map[string]modifiedKvValue)
	au.creatables = make(map[basics.CreatableIndex]ledgercore.ModifiedCreatable)
	au.versions = []protocol.ConsensusVersion{"vC10"}
	au.roundTotals = []ledgercore.AccountTotals{{}}
	au.deltasAccum = []int{0}

	labels := [2]string{"e0", "e1"}
	for i := 0; i < 2; i++ {
		hdr := &bookkeeping.BlockHeader{Round: w.dbRound + 1 + basics.Round(i)}
		sd := ledgercore.MakeStateDelta(hdr, 0, 2, 0)
		if withParams && i == 1 {
			t := verifC10Record("third", true)
			if t.on {
				t.creator = true
				// an asset has one creator
				vr.Assume(!(w.recs[0].on && w.recs[0].creator && w.recs[0].id == t.id))
				p, h := t.deltas()
				sd.Accts.UpsertAssetResource(verifC10Addr(3), t.id, p, h)
			}
			w.third = t
		}
		var e verifC10Rec
		if i == 0 || second {
			e = verifC10Record(labels[i], withParams)
		}
		if withParams && i == 1 && w.third.on {
			vr.Assume(!(e.on && e.creator && e.id == w.third.id))
		}
		w.recs[i] = e
		if e.on {
			// another account's holding of the very same asset: not ours
			sd.Accts.UpsertAssetResource(other, e.id, ledgercore.AssetParamsDelta{}, ledgercore.AssetHoldingDelta{Holding: &basics.AssetHolding{Amount: 999}})
			p, h := e.deltas()
			sd.Accts.UpsertAssetResource(w.addr, e.id, p, h)
		}
		au.deltas = append(au.deltas, sd)
		au.versions = append(au.versions, "vC10")
		au.roundTotals = append(au.roundTotals, ledgercore.AccountTotals{})
		au.deltasAccum = append(au.deltasAccum, au.deltasAccum[i]+sd.Accts.Len())
	}
	w.au = au
	return w
}

// ghost: the merged holding set at round D+2
func (w *verifC10World) newest(x basics.AssetIndex) (found bool, deleted bool, amount uint64) {
	for i := 0; i < 2; i++ { // later rounds override
		e := w.recs[i]
		if e.on && e.id == x {
			found, deleted, amount = true, e.deleted, e.amount
		}
	}
	return
}

// newestParams: the latest record (of any account) that carries or deletes the
// params of asset x. third and recs[1] share round D+2 but never the same asset.
func (w *verifC10World) newestParams(x basics.AssetIndex) (found bool, destroyed bool, creator basics.Address, total uint64) {
	if e := w.recs[0]; e.on && e.creator && e.id == x {
		found, destroyed, creator, total = true, e.deleted, w.addr, e.total
	}
	if e := w.third; e.on && e.id == x {
		found, destroyed, creator, total = true, e.deleted, verifC10Addr(3), e.total
	}
	if e := w.recs[1]; e.on && e.creator && e.id == x {
		found, destroyed, creator, total = true, e.deleted, w.addr, e.total
	}
	return
}

func (w *verifC10World) inDB(x basics.AssetIndex) (found bool, amount uint64) {
	for i := 0; i < w.db.k; i++ {
		if w.db.ids[i] == x {
			found, amount = true, w.db.amounts[i]
		}
	}
	return
}

func (w *verifC10World) present(x basics.AssetIndex) (bool, uint64) {
	inDelta, deleted, amount := w.newest(x)
	inDB, dbAmount := w.inDB(x)
	if inDelta {
		return !deleted, amount
	}
	return inDB, dbAmount
}

func verifC10Listed(page []ledgercore.AssetResourceWithIDs, x basics.AssetIndex) bool {
	listed := false
	for _, p := range page {
		if p.AssetID == x {
			listed = true
		}
	}
	return listed
}

// candidate: x is a database or delta id; (d) of the specification
func (w *verifC10World) checkCandidate(tag string, page []ledgercore.AssetResourceWithIDs, limit uint64, x basics.AssetIndex) {
	pres, _ := w.present(x)
	beyond := false
	if uint64(len(page)) == limit {
		beyond = x > page[len(page)-1].AssetID
	}
	vr.Assert(tag, vr.Implies(pres && x > w.cursor, verifC10Listed(page, x) || beyond))
}

func verifC10Run(maxRows, maxLimit int, withParams bool, second bool) {
	w := verifC10Build(maxRows, withParams, second)
	limit := uint64(1 + vr.Choice("limit", maxLimit))

	page, rnd, err := w.au.lookupAssetResources(w.addr, w.cursor, limit)

	vr.Assert("c10.no-error", err == nil)
	vr.Assert("c10.round-is-latest", rnd == w.dbRound+2)
	vr.Assert("c10.database-page-asked-once", w.db.pageCalls == 1 && w.db.asked >= limit)
	vr.Assert("c10.at-most-limit", uint64(len(page)) <= limit)

	prev := w.cursor
	for j, p := range page {
		vr.Assert("c10.increasing-above-cursor", p.AssetID > prev) // (a)
		prev = p.AssetID
		pres, amount := w.present(p.AssetID)
		vr.Assert("c10.listed-is-held", pres) // (c)
		vr.Assert("c10.holding-value", p.AssetHolding != nil && *p.AssetHolding == basics.AssetHolding{Amount: amount})
		pFound, pDestroyed, pCreator, pTotal := w.newestParams(p.AssetID)
		if pFound {
			if pDestroyed {
				vr.Reach("destroyed")
				vr.Assert("c10.destroyed-asset-has-no-creator-no-params", p.Creator.IsZero() && p.AssetParams == nil)
			} else {
				vr.Reach("deltaparams")
				vr.Assert("c10.creator-and-params-from-deltas", p.Creator == pCreator && p.AssetParams != nil &&
					p.AssetParams.Total == pTotal && p.AssetParams.Decimals == 2)
			}
		} else if w.db.creatorKnown {
			vr.Assert("c10.creator-and-params", p.Creator == verifC10Addr(7) && p.AssetParams != nil &&
				p.AssetParams.Total == w.db.total(p.AssetID) && p.AssetParams.Decimals == 6)
		} else {
			vr.Assert("c10.no-creator-no-params", p.Creator.IsZero() && p.AssetParams == nil)
		}
		// witnesses
		inDelta, _, _ := w.newest(p.AssetID)
		inDB, _ := w.inDB(p.AssetID)
		if inDelta && inDB {
			vr.Reach("overridden")
		}
		if inDelta && !inDB {
			vr.Reach("deltaonly")
		}
		if j == 1 {
			vr.Reach("two")
		}
	}
	// (d)
	for i := 0; i < w.db.k; i++ {
		w.checkCandidate("c10.database-row-listed-or-beyond-page", page, limit, w.db.ids[i])
		if inDelta, deleted, _ := w.newest(w.db.ids[i]); inDelta && deleted {
			vr.Reach("dbrowdeleted")
		}
	}
	for i := 0; i < 2; i++ {
		if w.recs[i].on {
			w.checkCandidate("c10.delta-id-listed-or-beyond-page", page, limit, w.recs[i].id)
		}
	}
	if uint64(w.db.returned) == w.db.asked {
		vr.Reach("dbhasmore")
	}
	if uint64(len(page)) < limit {
		vr.Reach("shortpage")
	}
	vr.Reach("done")
}

//verif:harness prop=C10 reach=done,overridden,deltaonly,two,dbrowdeleted,dbhasmore,shortpage unwind=12 budget=220 thorough.budget=2400
func VerifC10AssetPage() { verifC10Run(vr.Param(2, 3), vr.Param(2, 3), false, true) }

// the same with params records in the deltas: the account's records may be those
// of the asset's creator (asset created / reconfigured: params + holding; asset
// destroyed: both deleted - the deletion is counted twice for the over-request),
// and a third account may reconfigure or destroy an asset it created.
// <= 2 database rows, limit 1..2. Quick: the account has ONE record (round D+1)
// besides the third account's (round D+2); thorough: a second one in round D+2.
//
//verif:harness prop=C10 reach=done,overridden,deltaonly,two,dbrowdeleted,dbhasmore,shortpage,destroyed,deltaparams unwind=12 budget=220 thorough.budget=3600
func VerifC10AssetPageParams() { verifC10Run(2, 2, true, vr.Param(0, 1) == 1) }

// a database that is behind the tracker is refused; a reader error is passed on;
// limit 0 lists nothing (and does not touch the database).
//
//verif:harness prop=C10 reach=done,stale,dberror,zero unwind=12 budget=120
func VerifC10StaleDatabase() {
	w := verifC10Build(1, false, true)
	switch vr.Choice("mode", 3) {
	case 0:
		vr.Assume(w.db.k == 1)
		w.db.dbRound = basics.Round(vr.U64("db.round"))
		vr.Assume(w.db.dbRound < w.dbRound)
		_, _, err := w.au.lookupAssetResources(w.addr, w.cursor, 1)
		stale, isStale := err.(*StaleDatabaseRoundError)
		vr.Assert("c10.database-behind-refused", isStale && stale.databaseRound == w.db.dbRound && stale.memoryRound == w.dbRound)
		vr.Reach("stale")
	case 1:
		w.db.fail = true
		_, _, err := w.au.lookupAssetResources(w.addr, w.cursor, 1)
		vr.Assert("c10.database-error-passed-on", err == errVerifC10DB)
		vr.Reach("dberror")
	case 2:
		page, rnd, err := w.au.lookupAssetResources(w.addr, w.cursor, 0)
		vr.Assert("c10.limit-zero-lists-nothing", err == nil && len(page) == 0 && rnd == w.dbRound+2 && w.db.pageCalls == 0)
		vr.Reach("zero")
	}
	vr.Reach("done")
}
