//go:build verif

package ledger

import (
	"github.com/algorand/go-algorand/data/basics"
	vr "github.com/algorand/go-algorand/internal/verifrt"
	"github.com/algorand/go-algorand/ledger/store/trackerdb"
	"github.com/algorand/go-algorand/logging"
)

// C08, the part of clause R4 of zz_verif_c08.go ("a cache entry equals the database
// value as of cachedDBRound") that the cache types themselves are responsible for:
// lruAccounts / lruResources / lruKV never let a row with an OLDER round replace a
// newer one, whatever the order in which direct writes (postCommit installing the
// freshly flushed rows) and queued read-through rows (lookups: writePending, applied
// by flushPendingWrites in newBlock/flushCaches) arrive.
//
// THE RULE, EXACTLY AS CODED (write of lruaccts.go / lruresources.go / lrukv.go and
// trackerdb.Persisted{Account,Resources,KV}Data.Before == "Round < other.Round"):
//
//	write(row) for key k: if k has no entry, the row is stored; otherwise it
//	replaces the stored row iff stored.Round < row.Round (STRICTLY: for equal
//	rounds the row written first stays - both describe the same database round,
//	so they are equal in any real history); in both cases k becomes the most
//	recently used key.
//	writePending(row) only queues the row (dropped silently when the queue of
//	capacity `pendingWrites` is full); flushPendingWrites applies the queued rows
//	in FIFO order through write; likewise writeNotFoundPending / the notFound set
//	(accounts and resources only).
//	prune(n) drops least recently used keys until at most n remain, returns how
//	many it dropped, and (accounts, resources) clears the notFound set.
//	A cache initialised with size 0 stores nothing and never reports a key.
//
// Consequence asserted after EVERY operation, by reading back both keys: the row
// read for k is the FIRST written among the rows of maximal round applied so far
// for k (so in particular its round is the greatest one); queued rows are invisible
// until the flush; rows of the other key never interfere.
//
// Bounded model check: 2 keys, N operations (3 quick, 4 thorough), each one of
// {write, writePending, writeNotFoundPending (not for lruKV)} on a chosen key with
// symbolic round and payload; one flush after a chosen operation (or none); then the
// final flush; then prune(p), p in 0..2. Queue capacity 4 >= N: the silent drop on
// a full queue is NOT exercised (the engine's sequential channel model treats a
// send in a select on a full buffered channel as ready, see
// notes/engine_requests.md; a dropped read-through row merely is not cached).
// The first operation uses key 0 (the keys are interchangeable).
//
// OUTSIDE: which rows postCommit / the lookups hand to the caches and when
// newBlock flushes/prunes (that is R4's other half, and the deferred-commit
// protocol); lruOnlineAccounts; the notFound set is NOT cleared by a later write of
// the same key (the lookups consult read before readNotFound, and newBlockImpl's
// prune clears the set every block) - noted, not asserted.

type verifLRUEntry struct {
	has      bool
	rnd, val uint64
}

// verifLRU: uniform view of the three cache types (adapters below).
type verifLRU interface {
	write(key int, rnd, val uint64)
	writePending(key int, rnd, val uint64)
	writeNotFoundPending(key int) // no-op when unsupported
	flush()
	read(key int) verifLRUEntry
	readNotFound(key int) bool
	prune(n int) int
	hasNotFound() bool
}

// ---- adapters

type verifLRUAccts struct{ m *lruAccounts }

func verifLRUAcctRow(key int, rnd, val uint64) trackerdb.PersistedAccountData {
	row := trackerdb.PersistedAccountData{Addr: verifC08Addr(byte(1 + key)), Round: basics.Round(rnd), Ref: verifC08Ref{}}
	row.AccountData.MicroAlgos.Raw = val
	return row
}
func (a verifLRUAccts) write(key int, rnd, val uint64) { a.m.write(verifLRUAcctRow(key, rnd, val)) }
func (a verifLRUAccts) writePending(key int, rnd, val uint64) {
	a.m.writePending(verifLRUAcctRow(key, rnd, val))
}
func (a verifLRUAccts) writeNotFoundPending(key int) {
	a.m.writeNotFoundPending(verifC08Addr(byte(1 + key)))
}
func (a verifLRUAccts) flush() { a.m.flushPendingWrites() }
func (a verifLRUAccts) read(key int) verifLRUEntry {
	row, ok := a.m.read(verifC08Addr(byte(1 + key)))
	if ok {
		vr.Assert("c08.lru.acct.row-is-for-the-key", row.Addr == verifC08Addr(byte(1+key)) && row.Ref != nil)
	}
	return verifLRUEntry{has: ok, rnd: uint64(row.Round), val: row.AccountData.MicroAlgos.Raw}
}
func (a verifLRUAccts) readNotFound(key int) bool {
	return a.m.readNotFound(verifC08Addr(byte(1 + key)))
}
func (a verifLRUAccts) prune(n int) int   { return a.m.prune(n) }
func (a verifLRUAccts) hasNotFound() bool { return true }

type verifLRURes struct{ m *lruResources }

// the two keys: the same account, two creatables (the map key is (address, index))
var verifLRUResAddr = verifC08Addr(1)

func verifLRUResIdx(key int) basics.CreatableIndex { return basics.CreatableIndex(77 + key) }
func verifLRUResRow(key int, rnd, val uint64) trackerdb.PersistedResourcesData {
	row := trackerdb.PersistedResourcesData{Aidx: verifLRUResIdx(key), Round: basics.Round(rnd), AcctRef: verifC08Ref{}}
	row.Data.Amount = val
	return row
}
func (a verifLRURes) write(key int, rnd, val uint64) {
	a.m.write(verifLRUResRow(key, rnd, val), verifLRUResAddr)
}
func (a verifLRURes) writePending(key int, rnd, val uint64) {
	a.m.writePending(verifLRUResRow(key, rnd, val), verifLRUResAddr)
}
func (a verifLRURes) writeNotFoundPending(key int) {
	a.m.writeNotFoundPending(verifLRUResAddr, verifLRUResIdx(key))
}
func (a verifLRURes) flush() { a.m.flushPendingWrites() }
func (a verifLRURes) read(key int) verifLRUEntry {
	row, ok := a.m.read(verifLRUResAddr, verifLRUResIdx(key))
	if ok {
		vr.Assert("c08.lru.res.row-is-for-the-key", row.Aidx == verifLRUResIdx(key) && row.AcctRef != nil)
	}
	// another account's resource of the same index is a different key
	_, otherOK := a.m.read(verifC08Addr(9), verifLRUResIdx(key))
	vr.Assert("c08.lru.res.other-account-not-confused", !otherOK)
	return verifLRUEntry{has: ok, rnd: uint64(row.Round), val: row.Data.Amount}
}
func (a verifLRURes) readNotFound(key int) bool {
	return a.m.readNotFound(verifLRUResAddr, verifLRUResIdx(key))
}
func (a verifLRURes) prune(n int) int   { return a.m.prune(n) }
func (a verifLRURes) hasNotFound() bool { return true }

type verifLRUKVs struct{ m *lruKV }

var verifLRUKeys = [2]string{"bx:k0", "bx:k1"}

func verifLRUKVRow(rnd, val uint64) trackerdb.PersistedKVData {
	return trackerdb.PersistedKVData{Value: []byte{byte(val)}, Round: basics.Round(rnd)}
}
func (a verifLRUKVs) write(key int, rnd, val uint64) {
	a.m.write(verifLRUKVRow(rnd, val), verifLRUKeys[key])
}
func (a verifLRUKVs) writePending(key int, rnd, val uint64) {
	a.m.writePending(verifLRUKVRow(rnd, val), verifLRUKeys[key])
}
func (a verifLRUKVs) writeNotFoundPending(key int) {}
func (a verifLRUKVs) flush()                       { a.m.flushPendingWrites() }
func (a verifLRUKVs) read(key int) verifLRUEntry {
	row, ok := a.m.read(verifLRUKeys[key])
	e := verifLRUEntry{has: ok, rnd: uint64(row.Round)}
	if ok {
		vr.Assert("c08.lru.kv.value-shape", len(row.Value) == 1)
		e.val = uint64(row.Value[0])
	}
	return e
}
func (a verifLRUKVs) readNotFound(key int) bool { return false }
func (a verifLRUKVs) prune(n int) int           { return a.m.prune(n) }
func (a verifLRUKVs) hasNotFound() bool         { return false }

// ---- ghost model

type verifLRUPending struct {
	key      int
	rnd, val uint64
}

type verifLRUGhost struct {
	capacity int
	entry    [2]verifLRUEntry
	recency  []int // keys with an entry, most recently used first
	pend     []verifLRUPending
	pendNF   []int
	notFound [2]bool
}

func (g *verifLRUGhost) apply(key int, rnd, val uint64) {
	e := g.entry[key]
	if !e.has {
		g.entry[key] = verifLRUEntry{has: true, rnd: rnd, val: val}
	} else if e.rnd < rnd { // Before: strictly older
		g.entry[key] = verifLRUEntry{has: true, rnd: rnd, val: val}
	}
	nr := []int{key}
	for _, k := range g.recency {
		if k != key {
			nr = append(nr, k)
		}
	}
	g.recency = nr
}

func (g *verifLRUGhost) flush() {
	for _, p := range g.pend {
		g.apply(p.key, p.rnd, p.val)
	}
	g.pend = nil
	for _, k := range g.pendNF {
		g.notFound[k] = true
	}
	g.pendNF = nil
}

func verifLRUCompare(c verifLRU, g *verifLRUGhost) {
	for k := 0; k < 2; k++ {
		got := c.read(k)
		want := g.entry[k]
		vr.Assert("c08.lru.presence", got.has == want.has)
		if want.has {
			vr.Assert("c08.lru.newest-round-kept", got.rnd == want.rnd)
			vr.Assert("c08.lru.row-of-that-round-kept", got.val == want.val)
		}
		if c.hasNotFound() {
			vr.Assert("c08.lru.notfound-set", c.readNotFound(k) == g.notFound[k])
		}
	}
}

const (
	verifLRUWrite = iota
	verifLRUPend
	verifLRUPendNotFound
)

func verifLRURun(c verifLRU, n int) {
	const capacity = 4 // == pendingWrites passed to init by the callers; >= n, never full
	g := &verifLRUGhost{capacity: capacity}
	labels := [4]string{"op0", "op1", "op2", "op3"}
	modes := 2
	if c.hasNotFound() {
		modes = 3
	}
	flushAfter := vr.Choice("flushafter", n+1) // n: no intermediate flush
	staleSeen := false
	for i := 0; i < n; i++ {
		l := labels[i]
		key := 0
		if i > 0 {
			key = vr.Choice(l+".key", 2)
		}
		rnd, val := vr.U64(l+".round"), vr.U64(l+".val")
		if !c.hasNotFound() {
			vr.Assume(val < 256) // lruKV payload: one byte
		}
		switch vr.Choice(l+".mode", modes) {
		case verifLRUWrite:
			if g.entry[key].has && rnd < g.entry[key].rnd {
				staleSeen = true
			}
			c.write(key, rnd, val)
			g.apply(key, rnd, val)
		case verifLRUPend:
			c.writePending(key, rnd, val)
			if len(g.pend) < g.capacity {
				g.pend = append(g.pend, verifLRUPending{key, rnd, val})
			}
		case verifLRUPendNotFound:
			c.writeNotFoundPending(key)
			if len(g.pendNF) < g.capacity {
				g.pendNF = append(g.pendNF, key)
			}
		}
		verifLRUCompare(c, g) // queued rows are not visible yet
		if i == flushAfter {
			if len(g.pend) > 0 {
				vr.Reach("flushed")
			}
			c.flush()
			g.flush()
			verifLRUCompare(c, g)
		}
	}
	if len(g.pend) > 0 {
		vr.Reach("flushed")
	}
	c.flush()
	g.flush()
	verifLRUCompare(c, g)
	if staleSeen {
		vr.Reach("stale")
	}

	// prune: the p most recently used keys survive
	p := vr.Choice("prune", 3)
	removed := c.prune(p)
	wantRemoved := 0
	for i, k := range g.recency {
		if i >= p {
			g.entry[k] = verifLRUEntry{}
			wantRemoved++
		}
	}
	if wantRemoved > 0 {
		vr.Reach("pruned")
	}
	if c.hasNotFound() {
		g.notFound = [2]bool{}
	}
	vr.Assert("c08.lru.prune-count", removed == wantRemoved)
	verifLRUCompare(c, g)
	vr.Reach("done")
}

//verif:harness prop=C08 reach=done,flushed,stale,pruned unwind=12 budget=200 thorough.budget=1500
func VerifC08LRUAccounts() {
	m := &lruAccounts{}
	m.init(logging.Base(), 4, 2)
	verifLRURun(verifLRUAccts{m}, vr.Param(3, 4))
}

//verif:harness prop=C08 reach=done,flushed,stale,pruned unwind=12 budget=200 thorough.budget=1500
func VerifC08LRUResources() {
	m := &lruResources{}
	m.init(logging.Base(), 4, 2)
	verifLRURun(verifLRURes{m}, vr.Param(3, 4))
}

//verif:harness prop=C08 reach=done,flushed,stale,pruned unwind=12 budget=200 thorough.budget=1500
func VerifC08LRUKV() {
	m := &lruKV{}
	m.init(logging.Base(), 4, 2)
	verifLRURun(verifLRUKVs{m}, vr.Param(3, 4))
}

// a cache initialised with size 0 (config DisableLedgerLRUCache) stores nothing
//
//verif:harness prop=C08 reach=done unwind=12 budget=120
func VerifC08LRUDisabled() {
	log := logging.Base()
	ma, mr, mk := &lruAccounts{}, &lruResources{}, &lruKV{}
	ma.init(log, 0, 0)
	mr.init(log, 0, 0)
	mk.init(log, 0, 0)
	names := [3]string{"accts", "res", "kv"}
	for i, c := range []verifLRU{verifLRUAccts{ma}, verifLRURes{mr}, verifLRUKVs{mk}} {
		rnd, val := vr.U64(names[i]+".round"), vr.U64(names[i]+".val")
		vr.Assume(val < 256)
		c.write(0, rnd, val)
		c.writePending(1, rnd, val)
		c.writeNotFoundPending(0)
		c.flush()
		for k := 0; k < 2; k++ {
			vr.Assert("c08.lru.disabled-stores-nothing", !c.read(k).has && !c.readNotFound(k))
		}
		vr.Assert("c08.lru.disabled-prunes-nothing", c.prune(0) == 0)
	}
	vr.Reach("done")
}
