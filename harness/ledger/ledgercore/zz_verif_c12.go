//go:build verif

package ledgercore

import (
	"github.com/algorand/go-algorand/data/basics"
	vr "github.com/algorand/go-algorand/internal/verifrt"
)

// C12: the reported account totals equal the sum over all accounts.
//
// The ledger never recomputes the totals: it maintains them incrementally, per
// block, exactly as roundCowState.CalculateTotals does:
//
//	totals.ApplyRewards(newLevel)
//	for every modified account: totals.DelAccount(unit, old); totals.AddAccount(unit, new)
//
// Invariant INV(totals, accounts, unit), stated over exact integers:
//   for S in {Online, Offline, NotParticipating}
//     totals.S.Money       = SUM over accounts a with a.Status == S of money(a, totals.RewardsLevel)
//     totals.S.RewardUnits = SUM over accounts a with a.Status == S of floor(a.MicroAlgos / unit)
//   where money(a, L) = a.MicroAlgos                                      if a is NotParticipating
//                     = a.MicroAlgos + floor(a.MicroAlgos/unit)*(L - a.RewardsBase)   otherwise
//   (pending rewards are part of the money; that is what AddAccount accumulates.)
//
// The proof is layered (all layers are full 64 bit, no value bounds):
//
//  Layer A (this file, VerifC12AccountMoney): for ONE arbitrary account the real
//    AccountData.Money / WithUpdatedRewards / MicroAlgos.RewardUnits return
//    exactly money(a, L) and floor(algos/unit), and do not panic inside the domain.
//  Layer B (second half of this file): one inductive step of DelAccount+AddAccount
//    and of ApplyRewards over n accounts satisfying INV, with the two per-account
//    helpers replaced by the contract Layer A establishes (the contract's
//    precondition is ASSERTED at every call, its postcondition assumed).
//
// floor(x/unit) is never computed by a division in the oracle: a ghost quotient q
// and remainder r with q*unit + r == x and r < unit pin it uniquely.
//
// Domain (representation invariants / documented preconditions):
//   * unit >= 1                    (RewardUnit is 1e6 in every protocol; 0 divides by zero)
//   * a.RewardsBase <= level       for participating accounts: the level is monotone
//                                  and a base is a level the account was touched at
//   * money(a, level) < 2^64       otherwise basics.WithUpdatedRewards Panicf()s - the
//                                  account balance itself overflowed, documented there

const (
	verifC12Offline = 0
	verifC12Online  = 1
	verifC12NotPart = 2
)

var verifC12Statuses = [3]basics.Status{basics.Offline, basics.Online, basics.NotParticipating}

// verifC12MoneyExact is money(a, L) for a participating account with quotient q.
// Callers assume base <= level, so level-base does not wrap (kept unsigned: the
// product is then a plain 64x64 -> 128 bit multiplication for the solvers).
func verifC12MoneyExact(algos, q, base, level uint64) vr.Z {
	return vr.ZU(algos).Add(vr.ZU(q).Mul(vr.ZU(level - base)))
}

// Contract of MicroAlgos.RewardUnits, checked against the real code by
// VerifC12RewardUnits: for unit != 0 the result is THE q with q*unit + r == x, r < unit.
// quot/rem are uninterpreted functions of (x, unit) so that the same account
// always gets the same ghost quotient, in the code and in the oracle.
func verifC12Quot(x, unit uint64) uint64 {
	if !vr.Symbolic() {
		return x / unit
	}
	q := vr.UF64("c12.quot", x, unit)
	r := vr.UF64("c12.rem", x, unit)
	vr.Assume(r < unit)
	vr.Assume(vr.ZU(q).Mul(vr.ZU(unit)).Add(vr.ZU(r)).Eq(vr.ZU(x)))
	return q
}

func verifStubRewardUnits(m basics.MicroAlgos, unit uint64) uint64 {
	vr.Assert("c12.contract.unit-nonzero", unit != 0)
	return verifC12Quot(m.Raw, unit)
}

// Contract of OverflowTracker.Mul, checked against the real code by C45's
// VerifC45Tracker / VerifC45OMul64 (c45.tracker.flag, .value, .sticky; OMul
// returns 0 on overflow): exact product, flag raised iff it does not fit.
func verifStubOTMul(t *basics.OverflowTracker, a, b uint64) uint64 {
	p := vr.ZU(a).Mul(vr.ZU(b))
	if !p.IsU64() {
		t.Overflowed = true
		return 0
	}
	return p.U64Trunc()
}

// Layer A1: the real division against the ghost quotient.
//
//verif:harness prop=C12 reach=done unwind=12 budget=200
func VerifC12RewardUnits() {
	unit, algos := vr.U64("unit"), vr.U64("algos")
	vr.Assume(unit >= 1)
	q, r := vr.U64("q"), vr.U64("r")
	vr.Assume(r < unit)
	vr.Assume(vr.ZU(q).Mul(vr.ZU(unit)).Add(vr.ZU(r)).Eq(vr.ZU(algos)))
	vr.Assert("c12.units.quotient", basics.MicroAlgos{Raw: algos}.RewardUnits(unit) == q)
	vr.Reach("done")
}

// Layer A2: money of one account, on top of the two contracts.
//
//verif:stub (github.com/algorand/go-algorand/data/basics.MicroAlgos).RewardUnits = verifStubRewardUnits
//verif:stub (*github.com/algorand/go-algorand/data/basics.OverflowTracker).Mul = verifStubOTMul
//verif:harness prop=C12 reach=done,participating,notparticipating unwind=12 budget=200
func VerifC12AccountMoney() {
	unit, level := vr.U64("unit"), vr.U64("level")
	vr.Assume(unit >= 1)
	var a AccountData
	st := vr.Choice("status", 3)
	a.Status = verifC12Statuses[st]
	algos, base, rewarded := vr.U64("algos"), vr.U64("base"), vr.U64("rewarded")
	a.MicroAlgos.Raw, a.RewardsBase, a.RewardedMicroAlgos.Raw = algos, base, rewarded
	q := verifC12Quot(algos, unit)

	if st == verifC12NotPart {
		vr.Reach("notparticipating")
		// no domain restriction at all: never panics, nothing changes
		m, rw := a.Money(unit, level)
		vr.Assert("c12.acct.notpart.money", m.Raw == algos && rw.Raw == rewarded)
		e := a.WithUpdatedRewards(unit, level)
		vr.Assert("c12.acct.notpart.same", e == a)
		vr.Reach("done")
		return
	}
	vr.Reach("participating")
	exact := verifC12MoneyExact(algos, q, base, level)
	vr.Assume(base <= level)
	vr.Assume(exact.IsU64())
	// inside the domain the calls below must not panic (a feasible panic is a violation)
	m, rw := a.Money(unit, level)
	vr.Assert("c12.acct.money", vr.ZU(m.Raw).Eq(exact))
	// the lifetime reward counter is allowed to wrap (documented in the code)
	vr.Assert("c12.acct.rewarded", rw.Raw == rewarded+(m.Raw-algos))
	e := a.WithUpdatedRewards(unit, level)
	vr.Assert("c12.acct.updated", e.MicroAlgos == m && e.RewardedMicroAlgos == rw && e.RewardsBase == level && e.Status == a.Status)
	vr.Reach("done")
}

// C12, Layer B: one inductive step of the incremental totals over a ledger of
// n accounts (n = 2 quick, 3 thorough) satisfying INV (see zz_verif_c12.go).
//
// The per-account helpers are replaced by CONTRACTS. Every contract ASSERTS its
// precondition - a call outside the domain, where the real code would panic, is
// a violation here too - and returns what Layer A (VerifC12AccountMoney,
// VerifC12RewardUnits) and C45 (VerifC45Tracker) prove the real code returns.
//
//  VerifC12DelAdd (quick + thorough): DelAccount(old)+AddAccount(new). The step
//    does not depend on WHAT money(a, L) and floor(x/unit) are, only on the totals
//    accumulating exactly the values the helpers return. They are therefore
//    uninterpreted: M(algos, base) [at the fixed unit and level], Q(algos) and
//    a domain predicate valid(...) (see verifC12Ghost): the step is proved for
//    EVERY interpretation, in particular for money()/floor()/"fits 64 bits" of
//    Layer A. (No 64x64 product is left in the queries; z3 decides them directly.)
//  VerifC12DelAddExact (thorough only, n = 2): the same step with the exact-integer
//    formulas instead of M, Q, valid (every query goes to the integer back end).
//  VerifC12ApplyRewards: the level moves L -> L' >= L; exact-integer formulas.
//    Two instances of the distributive law are assumed as hints (see there).
//
// By symmetry of the sums the modified account is account 0. All amounts,
// bases, levels and the unit are unconstrained 64-bit values inside the domain
// of zz_verif_c12.go.

// verifC12Ghost is the uninterpreted model of the per-account helpers. M, Q and
// valid are not vr.UF64 applications (the counterexample tapes do not carry
// function tables, a violation could not be replayed natively) but explicit
// ghost values: every account gets free values m (= M(account), participating
// accounts only) and q (= Q(algos)); the two accounts the code may legitimately
// pass to the helpers (old and new data of the modified account) are registered
// as table entries, with functional consistency between equal keys assumed.
// valid(account, unit, level) is assumed for every account of the ledger at
// (unit, totals.RewardsLevel) and known nowhere else: a helper call with another
// unit / level / account is a contract violation.
type verifC12GhostEntry struct {
	part        bool // has an M entry (participating account)
	algos, base uint64
	m, q        uint64
}

var verifC12Ghost struct {
	on          bool
	unit, level uint64
	n           int
	e           [2]verifC12GhostEntry
}

func verifC12B2U(c bool) uint64 {
	if c {
		return 1
	}
	return 0
}

func verifC12Pick(c uint64, x, y uint64) uint64 {
	if c != 0 {
		return x
	}
	return y
}

func verifC12Register(a verifC12Acct, m uint64) {
	g := &verifC12Ghost
	e := verifC12GhostEntry{part: a.st != verifC12NotPart, algos: a.data.MicroAlgos.Raw, base: a.data.RewardsBase, m: m, q: a.q}
	if g.n == 1 {
		o := g.e[0]
		sameAlgos := verifC12B2U(o.algos == e.algos)
		vr.Assume(vr.Implies(sameAlgos != 0, o.q == e.q))
		if o.part && e.part {
			sameKey := sameAlgos & verifC12B2U(o.base == e.base)
			vr.Assume(vr.Implies(sameKey != 0, o.m == e.m))
		}
	}
	g.e[g.n] = e
	g.n++
}

// Contract of AccountData.Money established by VerifC12AccountMoney.
func verifStubMoney(u AccountData, unit uint64, level uint64) (basics.MicroAlgos, basics.MicroAlgos) {
	if u.Status == basics.NotParticipating {
		return u.MicroAlgos, u.RewardedMicroAlgos
	}
	vr.Assert("c12.contract.unit-nonzero", unit != 0)
	var m uint64
	if g := &verifC12Ghost; g.on {
		vr.Assert("c12.contract.money-domain", unit == g.unit && level == g.level)
		is0 := verifC12B2U(g.e[0].part) & verifC12B2U(g.e[0].algos == u.MicroAlgos.Raw) & verifC12B2U(g.e[0].base == u.RewardsBase)
		is1 := verifC12B2U(g.e[1].part) & verifC12B2U(g.e[1].algos == u.MicroAlgos.Raw) & verifC12B2U(g.e[1].base == u.RewardsBase)
		vr.Assert("c12.contract.money-known-account", is0|is1 != 0)
		m = verifC12Pick(is0, g.e[0].m, g.e[1].m)
	} else {
		q := verifC12Quot(u.MicroAlgos.Raw, unit)
		vr.Assert("c12.contract.base-le-level", u.RewardsBase <= level)
		exact := verifC12MoneyExact(u.MicroAlgos.Raw, q, u.RewardsBase, level)
		vr.Assert("c12.contract.money-fits", exact.IsU64())
		m = exact.U64Trunc()
	}
	return basics.MicroAlgos{Raw: m}, basics.MicroAlgos{Raw: u.RewardedMicroAlgos.Raw + (m - u.MicroAlgos.Raw)}
}

func verifStubRewardUnitsB(m basics.MicroAlgos, unit uint64) uint64 {
	vr.Assert("c12.contract.unit-nonzero", unit != 0)
	if g := &verifC12Ghost; g.on {
		vr.Assert("c12.contract.units-domain", unit == g.unit)
		is0 := verifC12B2U(g.e[0].algos == m.Raw)
		is1 := verifC12B2U(g.e[1].algos == m.Raw)
		vr.Assert("c12.contract.units-known-account", is0|is1 != 0)
		return verifC12Pick(is0, g.e[0].q, g.e[1].q)
	}
	return verifC12Quot(m.Raw, unit)
}

// verifC12Acct is one account together with its ghost quotient.
type verifC12Acct struct {
	data AccountData
	st   int    // concrete status (index into verifC12Statuses, == int(data.Status))
	q    uint64 // ghost: floor(MicroAlgos / unit)
}

// verifC12Account makes an arbitrary account of the given status.
func verifC12Account(label string, unit uint64, status int) verifC12Acct {
	var a verifC12Acct
	a.st = status
	a.data.Status = verifC12Statuses[status]
	a.data.MicroAlgos.Raw = vr.U64(label + ".algos")
	a.data.RewardsBase = vr.U64(label + ".base")
	a.data.RewardedMicroAlgos.Raw = vr.U64(label + ".rewarded")
	if verifC12Ghost.on {
		a.q = vr.U64(label + ".Q")
	} else {
		a.q = verifC12Quot(a.data.MicroAlgos.Raw, unit)
	}
	return a
}

// verifC12AssumeValidAt restricts the account to the domain at `level` and
// returns money(a, level) (which fits 64 bits inside the domain).
func verifC12AssumeValidAt(label string, a verifC12Acct, level uint64) uint64 {
	if a.st == verifC12NotPart {
		return a.data.MicroAlgos.Raw
	}
	if verifC12Ghost.on {
		return vr.U64(label + ".M")
	}
	vr.Assume(a.data.RewardsBase <= level)
	exact := verifC12MoneyExact(a.data.MicroAlgos.Raw, a.q, a.data.RewardsBase, level)
	vr.Assume(exact.IsU64())
	return exact.U64Trunc()
}

// verifC12Sums is the oracle: exact per-status sums (index = basics.Status).
type verifC12Sums struct {
	money [3]vr.Z
	units [3]vr.Z
}

func verifC12Zero() verifC12Sums {
	var s verifC12Sums
	for i := 0; i < 3; i++ {
		s.money[i] = vr.ZU(0)
		s.units[i] = vr.ZU(0)
	}
	return s
}

// add accumulates the contribution of an account whose money (at the level of
// interest) is m.
func (s *verifC12Sums) add(a verifC12Acct, m uint64) {
	s.money[a.st] = s.money[a.st].Add(vr.ZU(m))
	s.units[a.st] = s.units[a.st].Add(vr.ZU(a.q))
}

func verifC12Field(t *AccountTotals, st int) *AlgoCount {
	switch st {
	case verifC12Online:
		return &t.Online
	case verifC12Offline:
		return &t.Offline
	}
	return &t.NotParticipating
}

func verifC12ArbitraryTotals() AccountTotals {
	var t AccountTotals
	t.Online.Money.Raw = vr.U64("tot.online.money")
	t.Online.RewardUnits = vr.U64("tot.online.units")
	t.Offline.Money.Raw = vr.U64("tot.offline.money")
	t.Offline.RewardUnits = vr.U64("tot.offline.units")
	t.NotParticipating.Money.Raw = vr.U64("tot.notpart.money")
	t.NotParticipating.RewardUnits = vr.U64("tot.notpart.units")
	t.RewardsLevel = vr.U64("tot.level")
	return t
}

func verifC12AssumeInv(t *AccountTotals, s verifC12Sums) {
	for st := 0; st < 3; st++ {
		f := verifC12Field(t, st)
		vr.Assume(vr.ZU(f.Money.Raw).Eq(s.money[st]))
		vr.Assume(vr.ZU(f.RewardUnits).Eq(s.units[st]))
	}
}

var verifC12Tags = [3][2]string{
	{"c12.offline.money", "c12.offline.units"},
	{"c12.online.money", "c12.online.units"},
	{"c12.notpart.money", "c12.notpart.units"},
}

func verifC12AssertInv(t *AccountTotals, s verifC12Sums) {
	for st := 0; st < 3; st++ {
		f := verifC12Field(t, st)
		vr.Assert(verifC12Tags[st][0], vr.ZU(f.Money.Raw).Eq(s.money[st]))
		vr.Assert(verifC12Tags[st][1], vr.ZU(f.RewardUnits).Eq(s.units[st]))
	}
}

// verifC12CheckReports: the three reporting functions return the exact sums
// whenever these fit 64 bits (they Panicf on overflow by design; the money
// supply is 10^16 microalgos in reality).
func verifC12CheckReports(t *AccountTotals, s verifC12Sums) {
	part := s.money[verifC12Online].Add(s.money[verifC12Offline])
	all := part.Add(s.money[verifC12NotPart])
	units := s.units[verifC12Online].Add(s.units[verifC12Offline])
	if all.IsU64() {
		vr.Reach("reports")
		vr.Assert("c12.report.participating", vr.ZU(t.Participating().Raw).Eq(part))
		vr.Assert("c12.report.all", vr.ZU(t.All().Raw).Eq(all))
	}
	if units.IsU64() {
		vr.Assert("c12.report.rewardunits", vr.ZU(t.RewardUnits()).Eq(units))
	}
}

var verifC12Labels = [3]string{"a0", "a1", "a2"}

// verifC12RestStatus enumerates the status of account i >= 1. The sums are
// symmetric in the untouched accounts, so only non-decreasing status sequences
// are explored (every multiset of statuses is still covered).
func verifC12RestStatus(i int, prev int) int {
	st := vr.Choice(verifC12Labels[i]+".status", 3)
	vr.Assume(st >= prev)
	return st
}

// Step 1: one modified account: DelAccount(old) + AddAccount(new), arbitrary
// old and new data (covers creation: old = zero data; closing: new = zero data;
// every status change; every balance / base change).
func verifC12DelAdd(n int) {
	unit := vr.U64("unit")
	vr.Assume(unit >= 1)
	t := verifC12ArbitraryTotals()
	level := t.RewardsLevel

	accts := make([]verifC12Acct, n)
	money := make([]uint64, n)
	pre := verifC12Zero()
	prev := 0
	for i := 0; i < n; i++ {
		var status int
		if i == 0 {
			status = vr.Choice("a0.status", 3)
		} else {
			status = verifC12RestStatus(i, prev)
			prev = status
		}
		accts[i] = verifC12Account(verifC12Labels[i], unit, status)
		money[i] = verifC12AssumeValidAt(verifC12Labels[i], accts[i], level)
		pre.add(accts[i], money[i])
	}
	verifC12AssumeInv(&t, pre)

	nw := verifC12Account("new", unit, vr.Choice("new.status", 3))
	nwMoney := verifC12AssumeValidAt("new", nw, level)
	if verifC12Ghost.on {
		verifC12Ghost.unit, verifC12Ghost.level, verifC12Ghost.n = unit, level, 0
		verifC12Register(accts[0], money[0])
		verifC12Register(nw, nwMoney)
	}

	var ot basics.OverflowTracker
	t.DelAccount(unit, accts[0].data, &ot)
	// removing an account that IS part of the sum can never underflow
	vr.Assert("c12.del.no-underflow", !ot.Overflowed)
	t.AddAccount(unit, nw.data, &ot)

	post := verifC12Zero()
	post.add(nw, nwMoney)
	for i := 1; i < n; i++ {
		post.add(accts[i], money[i])
	}
	vr.Assert("c12.level-unchanged", t.RewardsLevel == level)
	if ot.Overflowed {
		vr.Reach("overflow")
		// the tracker is raised only when a true sum does not fit 64 bits
		vr.Assert("c12.overflow-genuine", !post.money[nw.st].IsU64() || !post.units[nw.st].IsU64())
	} else {
		vr.Reach("clean")
		verifC12AssertInv(&t, post)
		verifC12CheckReports(&t, post)
	}
	vr.Reach("done")
}

//verif:harness prop=C12 reach=done,clean,overflow,reports unwind=12 budget=200 thorough.budget=2400
//verif:stub (github.com/algorand/go-algorand/ledger/ledgercore.AccountData).Money = verifStubMoney
//verif:stub (github.com/algorand/go-algorand/data/basics.MicroAlgos).RewardUnits = verifStubRewardUnitsB
func VerifC12DelAdd() {
	verifC12Ghost.on = true
	verifC12DelAdd(vr.Param(2, 3))
}

//verif:harness prop=C12 tier=thorough reach=done,clean,overflow,reports unwind=12 budget=2400
//verif:stub (github.com/algorand/go-algorand/ledger/ledgercore.AccountData).Money = verifStubMoney
//verif:stub (github.com/algorand/go-algorand/data/basics.MicroAlgos).RewardUnits = verifStubRewardUnitsB
func VerifC12DelAddExact() {
	verifC12Ghost.on = false
	// n = 2 (with 3 accounts some overflow-branch queries over the exact
	// products are beyond all back ends)
	verifC12DelAdd(2)
}

// ---- ApplyRewards ----
//
// The step needs two instances of the distributive law of the integers:
//   (H1) q*(L'-b) = q*(L-b) + q*(L'-L)           per participating account
//   (H2) U*(L'-L) = SUM q_i*(L'-L)  if U = SUM q_i   per participating status
// Both are ring identities over vr.Z exact integers, i.e. true for all values;
// assuming a true statement removes no state. They have to be ASSUMED because
// the portfolio cannot prove distributivity of 64x64-bit products in the
// bit-vector encoding of vr.Z (see notes/engine_requests.md; the same formulas
// over the Int sort are decided in < 1 s by every back end). VerifC12HintsGrid
// evaluates exactly these helper functions on the full grid {0,1,2}^k; since
// lhs-rhs is a polynomial of degree <= 1 in each variable, vanishing on a grid
// with >= 2 points per variable means it is the zero polynomial - so the grid
// run is an exhaustive check that the hints are stated correctly.

func verifC12HintAffine(q, base, l0, l1 uint64) bool {
	zq := vr.ZU(q)
	return zq.Mul(vr.ZU(l1 - base)).Eq(zq.Mul(vr.ZU(l0 - base)).Add(zq.Mul(vr.ZU(l1 - l0))))
}

func verifC12HintSum(u uint64, qs []uint64, d uint64) bool {
	sum, prods := vr.ZU(0), vr.ZU(0)
	for _, q := range qs {
		sum = sum.Add(vr.ZU(q))
		prods = prods.Add(vr.ZU(q).Mul(vr.ZU(d)))
	}
	return vr.Implies(vr.ZU(u).Eq(sum), vr.ZU(u).Mul(vr.ZU(d)).Eq(prods))
}

//verif:harness prop=C12 reach=done paths=4000 budget=100
func VerifC12HintsGrid() {
	q, base, d0, dd := uint64(vr.Choice("q", 3)), uint64(vr.Choice("base", 3)), uint64(vr.Choice("d0", 3)), uint64(vr.Choice("dd", 3))
	vr.Assert("c12.hint.affine", verifC12HintAffine(q, base, base+d0, base+d0+dd))
	q1, q2 := uint64(vr.Choice("q1", 3)), uint64(vr.Choice("q2", 3))
	vr.Assert("c12.hint.sum1", verifC12HintSum(q, []uint64{q}, dd))
	vr.Assert("c12.hint.sum2", verifC12HintSum(q+q1, []uint64{q, q1}, dd))
	vr.Assert("c12.hint.sum3", verifC12HintSum(q+q1+q2, []uint64{q, q1, q2}, dd))
	vr.Assert("c12.hint.sum0", verifC12HintSum(0, nil, dd))
	vr.Reach("done")
}

// Step 2: the rewards level moves from L to L' >= L. Every account stays as it
// is (its RewardsBase is untouched: the rewards are pending); its money is now
// evaluated at L'. Domain: every participating account is still evaluable at L'.
// The quotient q of an account is left completely free here (ApplyRewards never
// looks at an account; the step holds whatever the reward units are).
//
//verif:harness prop=C12 reach=done,clean,overflow,reports unwind=12 budget=200 thorough.budget=2400
//verif:stub (*github.com/algorand/go-algorand/data/basics.OverflowTracker).Mul = verifStubOTMul
func VerifC12ApplyRewards() {
	verifC12Ghost.on = false
	t := verifC12ArbitraryTotals()
	level := t.RewardsLevel
	newLevel := vr.U64("newlevel")
	vr.Assume(newLevel >= level)
	n := vr.Param(2, 3)

	pre := verifC12Zero()
	post := verifC12Zero()
	var qs [3][]uint64
	prev := 0
	for i := 0; i < n; i++ {
		var a verifC12Acct
		a.st = verifC12RestStatus(i, prev)
		prev = a.st
		a.data.Status = verifC12Statuses[a.st]
		a.data.MicroAlgos.Raw = vr.U64(verifC12Labels[i] + ".algos")
		a.data.RewardsBase = vr.U64(verifC12Labels[i] + ".base")
		a.q = vr.U64(verifC12Labels[i] + ".q")
		m0 := verifC12AssumeValidAt("", a, level)
		m1 := verifC12AssumeValidAt("", a, newLevel)
		if a.st != verifC12NotPart {
			vr.Assume(verifC12HintAffine(a.q, a.data.RewardsBase, level, newLevel)) // (H1)
		}
		qs[a.st] = append(qs[a.st], a.q)
		pre.add(a, m0)
		post.add(a, m1)
	}
	verifC12AssumeInv(&t, pre)
	vr.Assume(verifC12HintSum(t.Online.RewardUnits, qs[verifC12Online], newLevel-level))   // (H2)
	vr.Assume(verifC12HintSum(t.Offline.RewardUnits, qs[verifC12Offline], newLevel-level)) // (H2)

	var ot basics.OverflowTracker
	t.ApplyRewards(newLevel, &ot)

	vr.Assert("c12.level-set", t.RewardsLevel == newLevel)
	if ot.Overflowed {
		vr.Reach("overflow")
		vr.Assert("c12.overflow-genuine", !post.money[verifC12Online].IsU64() || !post.money[verifC12Offline].IsU64())
	} else {
		vr.Reach("clean")
		verifC12AssertInv(&t, post)
		verifC12CheckReports(&t, post)
	}
	vr.Reach("done")
}
