//go:build verif

package ledgercore

import (
	"github.com/algorand/go-algorand/data/basics"
	vr "github.com/algorand/go-algorand/internal/verifrt"
)

// C12: the reported account totals equal the sum over all accounts.
//
// The ledger never recomputes the totals: it maintains them incrementally, per
// block, exactly as roundCowState.CalculateTotals does:
//
//	totals.ApplyRewards(newLevel)
//	for every modified account: totals.DelAccount(unit, old); totals.AddAccount(unit, new)
//
// Invariant INV(totals, accounts, unit), stated over exact integers:
//   for S in {Online, Offline, NotParticipating}
//     totals.S.Money       = SUM over accounts a with a.Status == S of money(a, totals.RewardsLevel)
//     totals.S.RewardUnits = SUM over accounts a with a.Status == S of floor(a.MicroAlgos / unit)
//   where money(a, L) = a.MicroAlgos                                      if a is NotParticipating
//                     = a.MicroAlgos + floor(a.MicroAlgos/unit)*(L - a.RewardsBase)   otherwise
//   (pending rewards are part of the money; that is what AddAccount accumulates.)
//
// The proof is layered (all layers are full 64 bit, no value bounds):
//
//  Layer A (this file, VerifC12AccountMoney): for ONE arbitrary account the real
//    AccountData.Money / WithUpdatedRewards / MicroAlgos.RewardUnits return
//    exactly money(a, L) and floor(algos/unit), and do not panic inside the domain.
//  Layer B (zz_verif_c12step.go): one inductive step of DelAccount+AddAccount
//    and of ApplyRewards over n accounts satisfying INV, with the two per-account
//    helpers replaced by the contract Layer A establishes (the contract's
//    precondition is ASSERTED at every call, its postcondition assumed).
//
// floor(x/unit) is never computed by a division in the oracle: a ghost quotient q
// and remainder r with q*unit + r == x and r < unit pin it uniquely.
//
// Domain (representation invariants / documented preconditions):
//   * unit >= 1                    (RewardUnit is 1e6 in every protocol; 0 divides by zero)
//   * a.RewardsBase <= level       for participating accounts: the level is monotone
//                                  and a base is a level the account was touched at
//   * money(a, level) < 2^64       otherwise basics.WithUpdatedRewards Panicf()s - the
//                                  account balance itself overflowed, documented there

const (
	verifC12Offline = 0
	verifC12Online  = 1
	verifC12NotPart = 2
)

var verifC12Statuses = [3]basics.Status{basics.Offline, basics.Online, basics.NotParticipating}

// verifC12MoneyExact is money(a, L) for a participating account with quotient q.
// Callers assume base <= level, so level-base does not wrap (kept unsigned: the
// product is then a plain 64x64 -> 128 bit multiplication for the solvers).
func verifC12MoneyExact(algos, q, base, level uint64) vr.Z {
	return vr.ZU(algos).Add(vr.ZU(q).Mul(vr.ZU(level - base)))
}

// Contract of MicroAlgos.RewardUnits, checked against the real code by
// VerifC12RewardUnits: for unit != 0 the result is THE q with q*unit + r == x, r < unit.
// quot/rem are uninterpreted functions of (x, unit) so that the same account
// always gets the same ghost quotient, in the code and in the oracle.
func verifC12Quot(x, unit uint64) uint64 {
	if !vr.Symbolic() {
		return x / unit
	}
	q := vr.UF64("c12.quot", x, unit)
	r := vr.UF64("c12.rem", x, unit)
	vr.Assume(r < unit)
	vr.Assume(vr.ZU(q).Mul(vr.ZU(unit)).Add(vr.ZU(r)).Eq(vr.ZU(x)))
	return q
}

func verifStubRewardUnits(m basics.MicroAlgos, unit uint64) uint64 {
	vr.Assert("c12.contract.unit-nonzero", unit != 0)
	return verifC12Quot(m.Raw, unit)
}

// Contract of OverflowTracker.Mul, checked against the real code by C45's
// VerifC45Tracker / VerifC45OMul64 (c45.tracker.flag, .value, .sticky; OMul
// returns 0 on overflow): exact product, flag raised iff it does not fit.
func verifStubOTMul(t *basics.OverflowTracker, a, b uint64) uint64 {
	p := vr.ZU(a).Mul(vr.ZU(b))
	if !p.IsU64() {
		t.Overflowed = true
		return 0
	}
	return p.U64Trunc()
}

// Layer A1: the real division against the ghost quotient.
//
//verif:harness prop=C12 reach=done unwind=12 budget=200
func VerifC12RewardUnits() {
	unit, algos := vr.U64("unit"), vr.U64("algos")
	vr.Assume(unit >= 1)
	q, r := vr.U64("q"), vr.U64("r")
	vr.Assume(r < unit)
	vr.Assume(vr.ZU(q).Mul(vr.ZU(unit)).Add(vr.ZU(r)).Eq(vr.ZU(algos)))
	vr.Assert("c12.units.quotient", basics.MicroAlgos{Raw: algos}.RewardUnits(unit) == q)
	vr.Reach("done")
}

// Layer A2: money of one account, on top of the two contracts.
//
//verif:stub (github.com/algorand/go-algorand/data/basics.MicroAlgos).RewardUnits = verifStubRewardUnits
//verif:stub (*github.com/algorand/go-algorand/data/basics.OverflowTracker).Mul = verifStubOTMul
//verif:harness prop=C12 reach=done,participating,notparticipating unwind=12 budget=200
func VerifC12AccountMoney() {
	unit, level := vr.U64("unit"), vr.U64("level")
	vr.Assume(unit >= 1)
	var a AccountData
	st := vr.Choice("status", 3)
	a.Status = verifC12Statuses[st]
	algos, base, rewarded := vr.U64("algos"), vr.U64("base"), vr.U64("rewarded")
	a.MicroAlgos.Raw, a.RewardsBase, a.RewardedMicroAlgos.Raw = algos, base, rewarded
	q := verifC12Quot(algos, unit)

	if st == verifC12NotPart {
		vr.Reach("notparticipating")
		// no domain restriction at all: never panics, nothing changes
		m, rw := a.Money(unit, level)
		vr.Assert("c12.acct.notpart.money", m.Raw == algos && rw.Raw == rewarded)
		e := a.WithUpdatedRewards(unit, level)
		vr.Assert("c12.acct.notpart.same", e == a)
		vr.Reach("done")
		return
	}
	vr.Reach("participating")
	exact := verifC12MoneyExact(algos, q, base, level)
	vr.Assume(base <= level)
	vr.Assume(exact.IsU64())
	// inside the domain the calls below must not panic (a feasible panic is a violation)
	m, rw := a.Money(unit, level)
	vr.Assert("c12.acct.money", vr.ZU(m.Raw).Eq(exact))
	// the lifetime reward counter is allowed to wrap (documented in the code)
	vr.Assert("c12.acct.rewarded", rw.Raw == rewarded+(m.Raw-algos))
	e := a.WithUpdatedRewards(unit, level)
	vr.Assert("c12.acct.updated", e.MicroAlgos == m && e.RewardedMicroAlgos == rw && e.RewardsBase == level && e.Status == a.Status)
	vr.Reach("done")
}
