//go:build verif

package ledgercore

import (
	"bytes"

	"github.com/algorand/go-algorand/crypto"
	"github.com/algorand/go-algorand/data/basics"
	vr "github.com/algorand/go-algorand/internal/verifrt"
)

// C16 support (label layer). The label makers' pre-image (buffer) is not
// visible outside this package; VerifC16LabelParts hands it to the C16 harness
// of package ledger (harness/ledger/zz_verif_c16.go), whose idealised MakeLabel is
// an injective function of exactly this pre-image and the round.

// VerifC16LabelParts returns the hashed pre-image and the round of a label maker.
func VerifC16LabelParts(l CatchpointLabelMaker) ([]byte, basics.Round) {
	return l.buffer(), l.round()
}

// VerifC16EncodeTotals stands for protocol.EncodeReflect(&totals) (reflection
// cannot be executed symbolically): an injective fixed-width encoding of the
// fields in which the harness totals differ.
func VerifC16EncodeTotals(t *AccountTotals) []byte {
	return append(verifC16U64(t.Online.Money.Raw), verifC16U64(t.RewardsLevel)...)
}

func verifC16U64(x uint64) []byte {
	return []byte{byte(x >> 56), byte(x >> 48), byte(x >> 40), byte(x >> 32), byte(x >> 24), byte(x >> 16), byte(x >> 8), byte(x)}
}

func verifC16StubEncodeReflect(obj interface{}) []byte {
	return VerifC16EncodeTotals(obj.(*AccountTotals))
}

func verifC16Digest(label string) crypto.Digest {
	var d crypto.Digest
	vr.Fill(label, d[:])
	return d
}

// The pre-image of a version-v label is exactly
//   block hash || balances root || encoded totals [|| state proof hash (v>=7)]
//   [|| online accounts hash || online round params hash (v8)]
// and the label's round is the round given. (This is the layout the oracle of
// harness/ledger/zz_verif_c16.go assumes.)
//verif:harness prop=C16 reach=done,v6,v7,v8 unwind=40
//verif:stub github.com/algorand/go-algorand/protocol.EncodeReflect = verifC16StubEncodeReflect
func VerifC16LabelLayout() {
	bh, root, sp, oa, orp := verifC16Digest("bh"), verifC16Digest("root"), verifC16Digest("sp"), verifC16Digest("oa"), verifC16Digest("orp")
	var totals AccountTotals
	totals.Online.Money.Raw = vr.U64("totals.online")
	totals.RewardsLevel = vr.U64("totals.rewardslevel")
	rnd := basics.Round(vr.U64("round"))
	want := append(append(append([]byte{}, bh[:]...), root[:]...), VerifC16EncodeTotals(&totals)...)
	var m CatchpointLabelMaker
	switch vr.Choice("version", 3) {
	case 0:
		vr.Reach("v6")
		m = MakeCatchpointLabelMakerV6(rnd, &bh, &root, totals)
	case 1:
		vr.Reach("v7")
		m = MakeCatchpointLabelMakerV7(rnd, &bh, &root, totals, &sp)
		want = append(want, sp[:]...)
	default:
		vr.Reach("v8")
		m = MakeCatchpointLabelMakerCurrent(rnd, &bh, &root, totals, &sp, &oa, &orp)
		want = append(append(append(want, sp[:]...), oa[:]...), orp[:]...)
	}
	buf, r := VerifC16LabelParts(m)
	vr.Assert("c16.label.preimage-layout", bytes.Equal(buf, want))
	vr.Assert("c16.label.round", r == rnd)
	vr.Reach("done")
}
