//go:build verif

package ledgercore

import (
	"bytes"

	"github.com/algorand/go-algorand/crypto"
	"github.com/algorand/go-algorand/data/basics"
	vr "github.com/algorand/go-algorand/internal/verifrt"
)

// C15 (label layer): the pre-image hashed into a catchpoint label determines
// every component it is built from. The reflection encoder cannot be encoded;
// the encoded totals are an opaque byte string standing for the totals
// themselves (msgpack maps are self-delimiting and the encoder is injective —
// that part is C40's subject, not decided here).

var verifEncodedTotals []byte

func verifStubEncodeReflect(obj interface{}) []byte {
	return verifEncodedTotals
}

func verifDigest(label string) crypto.Digest {
	var d crypto.Digest
	vr.Fill(label, d[:])
	return d
}

type verifLabelParts struct {
	bh, root, sp, oa, orp crypto.Digest
	totals                []byte
}

func verifLabelBuffer(version int, label string) ([]byte, verifLabelParts) {
	var p verifLabelParts
	p.bh, p.root, p.sp, p.oa, p.orp = verifDigest(label+".bh"), verifDigest(label+".root"), verifDigest(label+".sp"), verifDigest(label+".oa"), verifDigest(label+".orp")
	p.totals = vr.Bytes(label+".totals", vr.Param(3, 6))
	verifEncodedTotals = p.totals
	rnd := basics.Round(vr.U64(label + ".round"))
	var m CatchpointLabelMaker
	switch version {
	case 6:
		m = MakeCatchpointLabelMakerV6(rnd, &p.bh, &p.root, AccountTotals{})
	case 7:
		m = MakeCatchpointLabelMakerV7(rnd, &p.bh, &p.root, AccountTotals{}, &p.sp)
	default:
		m = MakeCatchpointLabelMakerCurrent(rnd, &p.bh, &p.root, AccountTotals{}, &p.sp, &p.oa, &p.orp)
	}
	return m.buffer(), p
}

//verif:harness prop=C15 reach=done,equal6,equal7,equal8 unwind=40
//verif:stub github.com/algorand/go-algorand/protocol.EncodeReflect = verifStubEncodeReflect
func VerifC15LabelPreimage() {
	version := 6 + vr.Choice("version", 3)
	b1, p1 := verifLabelBuffer(version, "l1")
	b2, p2 := verifLabelBuffer(version, "l2")
	if bytes.Equal(b1, b2) {
		same := p1.bh == p2.bh && p1.root == p2.root && bytes.Equal(p1.totals, p2.totals)
		switch version {
		case 6:
			vr.Reach("equal6")
		case 7:
			same = same && p1.sp == p2.sp
			vr.Reach("equal7")
		default:
			same = same && p1.sp == p2.sp && p1.oa == p2.oa && p1.orp == p2.orp
			vr.Reach("equal8")
		}
		vr.Assert("c15.label.preimage-injective", same)
	}
	vr.Reach("done")
}
