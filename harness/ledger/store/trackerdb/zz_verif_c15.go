//go:build verif

package trackerdb

import (
	"bytes"

	"github.com/algorand/go-algorand/crypto"
	"github.com/algorand/go-algorand/data/basics"
	vr "github.com/algorand/go-algorand/internal/verifrt"
)

// C15: a catchpoint label commits to a unique ledger state.
//
// The trie leaf of every account / resource / box is computed by the real
// builders with crypto.Hash replaced by a collision-free uninterpreted function
// (this is the formal reading of "except through a hash collision"; the builders
// keep 31 of the 32 digest bytes, so collision freedom is placed on those 31).
// For two ARBITRARY argument tuples the solver decides: equal leaf => equal
// (kind, address, index, encoded data).

func verifStubHash(data []byte) crypto.Digest {
	h := crypto.Digest(vr.Hash32("sha512_256", data))
	vr.Assume(h[0] == 0) // the builders drop byte 0: idealise the truncated hash as collision free
	return h
}

//verif:harness prop=C15 reach=done,equalkeys
//verif:stub github.com/algorand/go-algorand/crypto.Hash = verifStubHash
func VerifC15AccountInjective() {
	var a1, a2 basics.Address
	vr.Fill("addr1", a1[:])
	vr.Fill("addr2", a2[:])
	var d1, d2 BaseAccountData
	d1.UpdateRound, d1.RewardsBase = vr.U64("upd1"), vr.U64("rb1")
	d2.UpdateRound, d2.RewardsBase = vr.U64("upd2"), vr.U64("rb2")
	e1 := vr.Bytes("enc1", vr.Param(3, 6))
	e2 := vr.Bytes("enc2", vr.Param(3, 6))
	k1 := AccountHashBuilderV6(a1, &d1, e1)
	k2 := AccountHashBuilderV6(a2, &d2, e2)
	vr.Assert("c15.account.kind", k1[HashKindEncodingIndex] == byte(AccountHK))
	if bytes.Equal(k1, k2) {
		vr.Reach("equalkeys")
		vr.Assert("c15.account.injective", a1 == a2 && bytes.Equal(e1, e2))
	}
	vr.Reach("done")
}

func verifResource(label string) ResourcesData {
	var rd ResourcesData
	rd.ResourceFlags = ResourceFlags(vr.U8(label + ".flags"))
	rd.Total = vr.U64(label + ".total")     // an asset-params field
	rd.Amount = vr.U64(label + ".amount")   // an asset-holding field
	rd.SchemaNumUint = vr.U64(label + ".u") // an app-local-state field
	rd.ClearStateProgram = vr.Bytes(label+".clear", 1)
	return rd
}

//verif:harness prop=C15 reach=done,equalkeys
//verif:stub github.com/algorand/go-algorand/crypto.Hash = verifStubHash
func VerifC15ResourceInjective() {
	var a1, a2 basics.Address
	vr.Fill("addr1", a1[:])
	vr.Fill("addr2", a2[:])
	r1, r2 := verifResource("rd1"), verifResource("rd2")
	c1, c2 := basics.CreatableIndex(vr.U64("cidx1")), basics.CreatableIndex(vr.U64("cidx2"))
	e1 := vr.Bytes("enc1", vr.Param(2, 5))
	e2 := vr.Bytes("enc2", vr.Param(2, 5))
	k1, err1 := ResourcesHashBuilderV6(&r1, a1, c1, vr.U64("upd1"), e1)
	k2, err2 := ResourcesHashBuilderV6(&r2, a2, c2, vr.U64("upd2"), e2)
	if err1 != nil || err2 != nil {
		vr.Reach("done")
		return
	}
	kind1, kind2 := HashKind(k1[HashKindEncodingIndex]), HashKind(k2[HashKindEncodingIndex])
	vr.Assert("c15.resource.kind", (kind1 == AssetHK && r1.IsAsset()) || (kind1 == AppHK && r1.IsApp() && !r1.IsAsset()))
	if bytes.Equal(k1, k2) {
		vr.Reach("equalkeys")
		vr.Assert("c15.resource.injective", kind1 == kind2 && a1 == a2 && c1 == c2 && bytes.Equal(e1, e2))
	}
	vr.Reach("done")
}

// Box / KV leaves. Two obligations:
//  (a) equal leaf => equal concatenation key‖value  (any dropped byte, kind or
//      hash slip shows up here)
//  (b) equal concatenation => same split into (key, value)
// (b) FAILS on the unchanged tree: the pre-image carries no length delimiter.
// It is the known finding recorded in known_findings.json; (a) stays live.
//verif:harness prop=C15 reach=done,equalkeys
//verif:stub github.com/algorand/go-algorand/crypto.Hash = verifStubHash
func VerifC15KvInjective() {
	key1 := vr.String("key1", vr.Param(3, 5))
	key2 := vr.String("key2", vr.Param(3, 5))
	v1 := vr.Bytes("val1", vr.Param(3, 5))
	v2 := vr.Bytes("val2", vr.Param(3, 5))
	k1 := KvHashBuilderV6(key1, v1)
	k2 := KvHashBuilderV6(key2, v2)
	vr.Assert("c15.kv.kind", k1[HashKindEncodingIndex] == byte(KvHK))
	if bytes.Equal(k1, k2) {
		vr.Reach("equalkeys")
		cat1 := append([]byte(key1), v1...)
		cat2 := append([]byte(key2), v2...)
		vr.Assert("c15.kv.concat-injective", bytes.Equal(cat1, cat2))
		vr.Assert("c15.kv.split-unambiguous", key1 == key2 && bytes.Equal(v1, v2))
	}
	vr.Reach("done")
}

// Leaves of different kinds never coincide (the kind byte sits at a fixed offset).
//verif:harness prop=C15 reach=done
//verif:stub github.com/algorand/go-algorand/crypto.Hash = verifStubHash
func VerifC15KindsDisjoint() {
	var a basics.Address
	vr.Fill("addr", a[:])
	var d BaseAccountData
	d.UpdateRound = vr.U64("upd")
	acct := AccountHashBuilderV6(a, &d, vr.Bytes("enc", 2))
	kv := KvHashBuilderV6(vr.String("key", 2), vr.Bytes("val", 2))
	rd := verifResource("rd")
	res, err := ResourcesHashBuilderV6(&rd, a, basics.CreatableIndex(vr.U64("cidx")), vr.U64("upd2"), vr.Bytes("renc", 2))
	vr.Assert("c15.kinds.acct-kv", !bytes.Equal(acct, kv))
	if err == nil {
		vr.Assert("c15.kinds.acct-res", !bytes.Equal(acct, res))
		vr.Assert("c15.kinds.kv-res", !bytes.Equal(kv, res))
	}
	vr.Reach("done")
}
