//go:build verif

package ledger

import (
	"errors"

	"github.com/algorand/go-algorand/data/basics"
	"github.com/algorand/go-algorand/data/bookkeeping"
	vr "github.com/algorand/go-algorand/internal/verifrt"
	"github.com/algorand/go-algorand/ledger/ledgercore"
	"github.com/algorand/go-algorand/ledger/store/trackerdb"
	"github.com/algorand/go-algorand/logging"
	"github.com/algorand/go-algorand/protocol"
)

// C08 (narrow, lemma level): ledger lookups answer from the block history, not
// from flush timing.
//
// WHAT IS DECIDED HERE. The read side of accountUpdates:
//
//	lookupWithoutRewards(rnd, addr, synchronized=false)
//	lookupKv(rnd, key, synchronized=false)
//	lookupResource(rnd, addr, aidx, AssetCreatable, synchronized=false)
//	getCreatorForRound(rnd, cidx, ctype, synchronized=false)
//	roundOffset(rnd)
//
// for a tracker state built by hand: a symbolic cachedDBRound D (< 2^40), N
// in-memory delta rounds D+1..D+N (N = 2 quick, 3 thorough; resources: 2), each of which
// optionally (free boolean) writes the queried object with symbolic data and
// always writes an unrelated second object, the per-object index
// (au.accounts / au.kvStore / au.resources / au.creatables) consistent with
// those deltas, the LRU cache of the object kind either disabled, empty or
// holding the database value (resources, quick tier: empty or holding; creators
// have no cache), and the database reader (au.accountsq, a harness
// type) answering either with the true value as of round D, or - "database
// already advanced / behind" - with an unrelated value as of a round != D, or
// with an error.
//
// Ghost oracle (independent of the code): hist[i] = value of the object at round
// D+i: hist[0] = the database value as of D (empty when the database has no row),
// hist[i+1] = the value written by delta i if it writes the object, else hist[i].
// For a symbolic query round rnd:
//
//   - rnd outside [D, D+N]: an error (roundOffset).
//   - otherwise, whenever err == nil: the returned value == hist[rnd-D]; for
//     accounts also rewardsVersion/rewardsLevel are those of round rnd and
//     rnd <= validThrough <= D+N with the value unchanged up to validThrough.
//   - the answer does not depend on the flush/caching state: if the value is
//     determined by memory (a delta <= rnd writes the object, or the cache holds
//     the database value) err == nil and the database is not asked; otherwise the
//     database is asked exactly once, for exactly this object, and an in-sync
//     answer gives err == nil.
//   - a database answer whose round != cachedDBRound is never returned as data:
//     the result is a *MismatchingDatabaseRoundError; a reader error is passed on.
//
// REPRESENTATION INVARIANT ASSUMED (by construction of the state), and the code
// that maintains each clause - that this code really maintains it across block
// additions, deferred commits (prepareCommit/commitRound/postCommit, the
// trackerRegistry commit protocol, goroutines, SQLite transactions) and restarts
// (loadFromDisk/initializeFromDisk) is OUTSIDE this claim; i.e. the "independent
// of flush schedule and restarts" half of C08 is not decided here, only that the
// lookup functions compute the history value from any state satisfying:
//
//	R1 len(au.versions) == len(au.roundTotals) == len(au.deltas)+1, entry i
//	   belonging to round D+i            [newBlockImpl appends; postCommit trims by offset]
//	R2 au.deltas[i] is the StateDelta of round D+1+i, its AccountDeltas index maps
//	   consistent with its slices        [ledgercore Upsert*/AddKvMod/AddCreatable]
//	R3 au.accounts[a] / au.kvStore[k] / au.resources[(a,i)] / au.creatables[c] exists
//	   iff some delta writes the object; it then holds the value of the LAST such
//	   delta (ndeltas = number of such deltas)   [newBlockImpl; postCommit decrements/deletes]
//	R4 an entry of baseAccounts/baseKVs/baseResources (or their notFound sets), if
//	   present, equals the database value as of cachedDBRound (whatever its Round
//	   field says)                        [postCommit rewrites flushed entries; lookups insert
//	                                      only answers with Round == cachedDBRound]
//	R5 every delta record of a resource carries the complete resource (params and
//	   holding pointers as of that round)  [roundCowState / eval builds full records;
//	                                      newBlockImpl copies both pointers]
//
// Not covered: lookupLatest / lookupAllResources (rewards, resource assembly),
// app resources (same code path as assets up to the ctype switch), the
// synchronized=true retry/Wait loops (condition variables), onlineAccounts.

// ---------------------------------------------------------------------------
// shared scaffolding

type verifC08Ref struct{}

func (verifC08Ref) AccountRefMarker() {}
func (verifC08Ref) String() string    { return "verifref" }

var errVerifC08DB = errors.New("verif: database read failed")

func verifC08Addr(i byte) basics.Address {
	var a basics.Address
	a[0] = i
	a[31] = 0x80 + i
	return a
}

// verifC08Reader is the database as the tracker sees it. `calls` counts lookups.
// The reader reports its answers as of round dbAt: when dbAt == dbRound (the
// tracker's cachedDBRound) it returns the TRUE row; otherwise - the database has
// already advanced, or is behind - some unrelated ("stale") row. The choice is
// made when the reader is called, so that paths which never reach the database
// do not fork on it.
type verifC08Reader struct {
	fail    bool
	calls   int
	dbRound basics.Round
	dbAt    basics.Round

	wantAddr  basics.Address
	acct      trackerdb.PersistedAccountData
	acctStale trackerdb.PersistedAccountData

	wantKey string
	kv      trackerdb.PersistedKVData
	kvStale trackerdb.PersistedKVData

	wantAidx basics.CreatableIndex
	res      trackerdb.PersistedResourcesData
	resStale trackerdb.PersistedResourcesData

	wantCidx     basics.CreatableIndex
	creatorOK    bool // a creatable wantCidx exists in the database, of type creatorType
	creatorType  basics.CreatableType
	creator      basics.Address
	creatorStale basics.Address
	staleOK      bool
}

func (r *verifC08Reader) LookupAccount(addr basics.Address) (trackerdb.PersistedAccountData, error) {
	r.calls++
	vr.Assert("c08.db-asked-for-the-queried-account", addr == r.wantAddr)
	if r.fail {
		return trackerdb.PersistedAccountData{}, errVerifC08DB
	}
	if r.dbAt == r.dbRound {
		return r.acct, nil
	}
	return r.acctStale, nil
}

func (r *verifC08Reader) LookupResources(addr basics.Address, aidx basics.CreatableIndex, ctype basics.CreatableType) (trackerdb.PersistedResourcesData, error) {
	r.calls++
	vr.Assert("c08.db-asked-for-the-queried-resource", addr == r.wantAddr && aidx == r.wantAidx && ctype == basics.AssetCreatable)
	if r.fail {
		return trackerdb.PersistedResourcesData{}, errVerifC08DB
	}
	if r.dbAt == r.dbRound {
		return r.res, nil
	}
	return r.resStale, nil
}

func (r *verifC08Reader) LookupAllResources(addr basics.Address) ([]trackerdb.PersistedResourcesData, basics.Round, error) {
	panic("verif: LookupAllResources must not be reached")
}

func (r *verifC08Reader) LookupLimitedResources(addr basics.Address, minIdx basics.CreatableIndex, maxCreatables uint64, ctype basics.CreatableType) ([]trackerdb.PersistedResourcesDataWithCreator, basics.Round, error) {
	panic("verif: LookupLimitedResources must not be reached")
}

func (r *verifC08Reader) LookupKeyValue(key string) (trackerdb.PersistedKVData, error) {
	r.calls++
	vr.Assert("c08.db-asked-for-the-queried-key", key == r.wantKey)
	if r.fail {
		return trackerdb.PersistedKVData{}, errVerifC08DB
	}
	if r.dbAt == r.dbRound {
		return r.kv, nil
	}
	return r.kvStale, nil
}

func (r *verifC08Reader) LookupKeysByPrefix(prefix string, maxKeyNum uint64, results map[string]bool, resultCount uint64) (basics.Round, error) {
	panic("verif: LookupKeysByPrefix must not be reached")
}

func (r *verifC08Reader) LookupKeysByPrefixCursor(prefix string, cursor string, limit uint64, maxBytes uint64, includeValues bool, exclude map[string][]byte) (basics.Round, []ledgercore.KvPairResult, bool, error) {
	panic("verif: LookupKeysByPrefixCursor must not be reached")
}

// LookupCreator follows the SQL contract: the row is searched by (cidx, ctype).
func (r *verifC08Reader) LookupCreator(cidx basics.CreatableIndex, ctype basics.CreatableType) (basics.Address, bool, basics.Round, error) {
	r.calls++
	vr.Assert("c08.db-asked-for-the-queried-creatable", cidx == r.wantCidx)
	if r.fail {
		return basics.Address{}, false, 0, errVerifC08DB
	}
	if r.dbAt == r.dbRound {
		if r.creatorOK && ctype == r.creatorType {
			return r.creator, true, r.dbAt, nil
		}
		return basics.Address{}, false, r.dbAt, nil
	}
	if r.staleOK {
		return r.creatorStale, true, r.dbAt, nil
	}
	return basics.Address{}, false, r.dbAt, nil
}

func (r *verifC08Reader) Close() {}

// verifC08State is the hand-built tracker plus the ghost bookkeeping shared by
// the lookups.
type verifC08State struct {
	au      *accountUpdates
	db      *verifC08Reader
	dbRound basics.Round
	n       int
	dbAt    basics.Round // the round the database reports (== dbRound: synchronised)
	levels  [4]uint64    // ghost: RewardsLevel of round D+i
}

var verifC08Versions = [4]protocol.ConsensusVersion{"vC08-0", "vC08-1", "vC08-2", "vC08-3"}
var verifC08Labels = [3]string{"d0", "d1", "d2"}

// verifC08Base: cachedDBRound, an empty delta window (R1 for zero deltas) and the
// database reader's round.
func verifC08Base(n int) *verifC08State {
	s := &verifC08State{n: n}
	s.dbRound = basics.Round(vr.U64("dbRound"))
	vr.Assume(s.dbRound < 1<<40)
	s.dbAt = basics.Round(vr.U64("db.round"))
	s.db = &verifC08Reader{dbRound: s.dbRound, dbAt: s.dbAt}
	s.db.fail = vr.Bool("db.fail")
	au := &accountUpdates{}
	au.log = logging.Base()
	au.accountsq = s.db
	au.cachedDBRound = s.dbRound
	au.accounts = make(map[basics.Address]modifiedAccount)
	au.resources = make(resourcesUpdates)
	au.kvStore = make(map[string]modifiedKvValue)
	au.creatables = make(map[basics.CreatableIndex]ledgercore.ModifiedCreatable)
	au.versions = []protocol.ConsensusVersion{verifC08Versions[0]}
	s.levels[0] = vr.U64("level0")
	au.roundTotals = []ledgercore.AccountTotals{{RewardsLevel: s.levels[0]}}
	au.deltasAccum = []int{0}
	s.au = au
	return s
}

// newDelta makes the (still empty) StateDelta of round D+1+i with the real constructor.
func (s *verifC08State) newDelta(i int) ledgercore.StateDelta {
	hdr := &bookkeeping.BlockHeader{Round: s.dbRound + 1 + basics.Round(i)}
	return ledgercore.MakeStateDelta(hdr, 0, 2, 0)
}

// push appends the delta of round D+1+i together with its version/totals (R1).
func (s *verifC08State) push(i int, sd ledgercore.StateDelta) {
	au := s.au
	au.deltas = append(au.deltas, sd)
	au.versions = append(au.versions, verifC08Versions[i+1])
	s.levels[i+1] = vr.U64(verifC08Labels[i] + ".level")
	au.roundTotals = append(au.roundTotals, ledgercore.AccountTotals{RewardsLevel: s.levels[i+1]})
	au.deltasAccum = append(au.deltasAccum, au.deltasAccum[len(au.deltasAccum)-1]+sd.Accts.Len())
}

// query picks a symbolic query round inside the window [D, D+N]; off = rnd-D.
// (Rounds outside the window: VerifC08OutsideWindow.)
func (s *verifC08State) query() (rnd basics.Round, off uint64) {
	rnd = basics.Round(vr.U64("rnd"))
	vr.Assume(rnd >= s.dbRound && rnd <= s.dbRound+basics.Round(s.n))
	return rnd, uint64(rnd - s.dbRound)
}

// writtenBefore: does a delta of round <= D+off write the object ?
func (s *verifC08State) writtenBefore(touched [3]bool, off uint64) bool {
	w := false
	for i := 0; i < s.n; i++ {
		if touched[i] && uint64(i) < off {
			w = true
		}
	}
	return w
}

// verdict checks the error/independence part shared by all lookups.
//
//	memory: the value at rnd is determined without the database (a delta <= rnd
//	        writes the object, or the cache holds the database value)
func (s *verifC08State) verdict(err error, memory bool) {
	mismatch, isMismatch := err.(*MismatchingDatabaseRoundError)
	if memory {
		vr.Reach("frommemory")
		vr.Assert("c08.memory-answer-needs-no-database", err == nil && s.db.calls == 0)
		return
	}
	vr.Assert("c08.database-asked-once", s.db.calls == 1)
	if s.db.fail {
		vr.Reach("dberror")
		vr.Assert("c08.database-error-passed-on", err == errVerifC08DB)
		return
	}
	if s.dbAt != s.dbRound {
		vr.Reach("mismatch")
		vr.Assert("c08.unsynchronised-database-answer-refused", isMismatch && mismatch.databaseRound == s.dbAt && mismatch.memoryRound == s.dbRound)
		return
	}
	vr.Reach("fromdb")
	vr.Assert("c08.synchronised-database-answer-accepted", err == nil)
}

// ---------------------------------------------------------------------------
// accounts

// verifC08AcctFields: the symbolic part of an account record; every other field
// stays zero. Two hand-written projections produce the in-memory and the
// persisted representation (so BaseAccountData.GetLedgerCoreAccountData is
// checked on these fields as well).
type verifC08AcctFields struct {
	status   uint8
	algos    uint64
	rbase    uint64
	rewarded uint64
	auth0    uint8
	assets   uint64
	boxes    uint64
	voteID0  uint8
	sel0     uint8
	voteLast uint64
	dilution uint64
	eligible bool
	lastHB   uint64
}

func verifC08Fields(l string) verifC08AcctFields {
	return verifC08AcctFields{
		status: vr.U8(l + ".status"), algos: vr.U64(l + ".algos"), rbase: vr.U64(l + ".rbase"),
		rewarded: vr.U64(l + ".rewarded"), auth0: vr.U8(l + ".auth"), assets: vr.U64(l + ".assets"),
		boxes: vr.U64(l + ".boxes"), voteID0: vr.U8(l + ".voteid"), sel0: vr.U8(l + ".selid"),
		voteLast: vr.U64(l + ".votelast"), dilution: vr.U64(l + ".dilution"), eligible: vr.Bool(l + ".eligible"),
		lastHB: vr.U64(l + ".lasthb"),
	}
}

func (f verifC08AcctFields) core() ledgercore.AccountData {
	var d ledgercore.AccountData
	d.Status = basics.Status(f.status)
	d.MicroAlgos.Raw = f.algos
	d.RewardsBase = f.rbase
	d.RewardedMicroAlgos.Raw = f.rewarded
	d.AuthAddr[0] = f.auth0
	d.TotalAssets = f.assets
	d.TotalBoxes = f.boxes
	d.VoteID[0] = f.voteID0
	d.SelectionID[0] = f.sel0
	d.VoteLastValid = basics.Round(f.voteLast)
	d.VoteKeyDilution = f.dilution
	d.IncentiveEligible = f.eligible
	d.LastHeartbeat = basics.Round(f.lastHB)
	return d
}

func (f verifC08AcctFields) base() trackerdb.BaseAccountData {
	var d trackerdb.BaseAccountData
	d.Status = basics.Status(f.status)
	d.MicroAlgos.Raw = f.algos
	d.RewardsBase = f.rbase
	d.RewardedMicroAlgos.Raw = f.rewarded
	d.AuthAddr[0] = f.auth0
	d.TotalAssets = f.assets
	d.TotalBoxes = f.boxes
	d.VoteID[0] = f.voteID0
	d.SelectionID[0] = f.sel0
	d.VoteLastValid = basics.Round(f.voteLast)
	d.VoteKeyDilution = f.dilution
	d.IncentiveEligible = f.eligible
	d.LastHeartbeat = basics.Round(f.lastHB)
	d.UpdateRound = 7
	return d
}

func verifC08AcctRun(n int) {
	s := verifC08Base(n)
	au := s.au
	addr, other := verifC08Addr(1), verifC08Addr(2)
	s.db.wantAddr = addr

	// the database as of D: a row (Ref != nil) or no row (Ref == nil, empty data)
	var hist [4]ledgercore.AccountData
	dbExists := vr.Bool("db.exists")
	truth := trackerdb.PersistedAccountData{Addr: addr, Round: s.dbRound}
	if dbExists {
		f := verifC08Fields("db")
		hist[0] = f.core()
		truth.AccountData = f.base()
		truth.Ref = verifC08Ref{}
	}
	s.db.acct = truth
	// some other version of the row, as of another round
	s.db.acctStale = trackerdb.PersistedAccountData{Addr: addr, Round: s.dbAt, AccountData: verifC08Fields("stale").base(), Ref: verifC08Ref{}}

	// delta rounds; R2 by the real constructors, R3 below
	var touched [3]bool
	nTouched := 0
	var last ledgercore.AccountData
	for i := 0; i < n; i++ {
		l := verifC08Labels[i]
		sd := s.newDelta(i)
		otherData := verifC08Fields(l + ".other").core()
		if i%2 == 0 {
			sd.Accts.Upsert(other, otherData)
		}
		hist[i+1] = hist[i]
		if vr.Bool(l + ".touch") {
			touched[i] = true
			nTouched++
			last = verifC08Fields(l).core() // may be the empty record: account closed
			sd.Accts.Upsert(addr, last)
			hist[i+1] = last
		}
		if i%2 == 1 {
			sd.Accts.Upsert(other, otherData)
		}
		au.accounts[other] = modifiedAccount{data: otherData, ndeltas: i + 1}
		s.push(i, sd)
	}
	if nTouched > 0 {
		au.accounts[addr] = modifiedAccount{data: last, ndeltas: nTouched}
	}

	// the cache (R4)
	cached := false
	otherRow := trackerdb.PersistedAccountData{Addr: other, Round: s.dbRound, Ref: verifC08Ref{}, AccountData: verifC08Fields("cache.other").base()}
	switch vr.Choice("cache", 3) {
	case 0: // caching disabled: nil maps and channels
		au.baseAccounts.init(au.log, 0, 0)
	case 1:
		au.baseAccounts.init(au.log, 4, 2)
		au.baseAccounts.write(otherRow)
	case 2:
		au.baseAccounts.init(au.log, 4, 2)
		au.baseAccounts.write(otherRow)
		cached = true
		if dbExists {
			// the entry may have been read at an earlier database round and be
			// unchanged since
			c := truth
			c.Round = basics.Round(vr.U64("cache.round"))
			vr.Assume(c.Round <= s.dbRound)
			au.baseAccounts.write(c)
		} else {
			au.baseAccounts.notFound[addr] = struct{}{}
		}
	}

	rnd, off := s.query()
	data, validThrough, ver, level, err := au.lookupWithoutRewards(rnd, addr, false)

	s.verdict(err, cached || s.writtenBefore(touched, off))
	if err == nil {
		vr.Assert("c08.acct.value-is-history-value", data == hist[off])
		vr.Assert("c08.acct.rewards-version-of-round", ver == verifC08Versions[off])
		vr.Assert("c08.acct.rewards-level-of-round", level == s.levels[off])
		vr.Assert("c08.acct.validthrough-in-window", validThrough >= rnd && validThrough <= s.dbRound+basics.Round(n))
		vr.Assert("c08.acct.unchanged-until-validthrough", hist[uint64(validThrough-s.dbRound)] == data)
	}
	vr.Reach("done")
}

//verif:harness prop=C08 reach=done,frommemory,dberror,mismatch,fromdb unwind=10 budget=200 thorough.budget=1200
func VerifC08LookupAccount() { verifC08AcctRun(vr.Param(2, 3)) }

// ---------------------------------------------------------------------------
// key/value pairs (boxes)

// a value is absent (nil: deleted / never existed) or one symbolic byte
type verifC08KV struct {
	present bool
	b       uint8
}

func (v verifC08KV) bytes() []byte {
	if !v.present {
		return nil
	}
	return []byte{v.b}
}

func verifC08KVIs(got []byte, want verifC08KV) bool {
	if !want.present {
		return got == nil
	}
	return got != nil && len(got) == 1 && got[0] == want.b
}

func verifC08KVRun(n int) {
	s := verifC08Base(n)
	au := s.au
	const key, other = "bx:k1", "bx:k2"
	s.db.wantKey = key

	var hist [4]verifC08KV
	hist[0] = verifC08KV{present: vr.Bool("db.exists"), b: vr.U8("db.value")}
	truth := trackerdb.PersistedKVData{Value: hist[0].bytes(), Round: s.dbRound}
	s.db.kv = truth
	s.db.kvStale = trackerdb.PersistedKVData{Value: []byte{vr.U8("stale.value")}, Round: s.dbAt}

	var touched [3]bool
	nTouched := 0
	var last, first verifC08KV
	for i := 0; i < n; i++ {
		l := verifC08Labels[i]
		sd := s.newDelta(i)
		otherVal := []byte{vr.U8(l + ".other")}
		sd.AddKvMod(other, ledgercore.KvValueDelta{Data: otherVal})
		au.kvStore[other] = modifiedKvValue{data: otherVal, ndeltas: i + 1}
		hist[i+1] = hist[i]
		if vr.Bool(l + ".touch") {
			last = verifC08KV{present: vr.Bool(l + ".present"), b: vr.U8(l + ".value")}
			if nTouched == 0 {
				first = hist[i]
			}
			touched[i] = true
			nTouched++
			// OldData as roundCowState.deltas fills it: the value before this round
			sd.AddKvMod(key, ledgercore.KvValueDelta{Data: last.bytes(), OldData: hist[i].bytes()})
			hist[i+1] = last
		}
		s.push(i, sd)
	}
	if nTouched > 0 {
		au.kvStore[key] = modifiedKvValue{data: last.bytes(), oldData: first.bytes(), ndeltas: nTouched}
	}

	cached := false
	switch vr.Choice("cache", 3) {
	case 0:
		au.baseKVs.init(au.log, 0, 0)
	case 1:
		au.baseKVs.init(au.log, 4, 2)
		au.baseKVs.write(trackerdb.PersistedKVData{Value: []byte{vr.U8("cache.other")}, Round: s.dbRound}, other)
	case 2:
		au.baseKVs.init(au.log, 4, 2)
		au.baseKVs.write(trackerdb.PersistedKVData{Value: []byte{vr.U8("cache.other")}, Round: s.dbRound}, other)
		cached = true
		c := truth // deleted / missing keys are cached as nil values
		c.Round = basics.Round(vr.U64("cache.round"))
		vr.Assume(c.Round <= s.dbRound)
		au.baseKVs.write(c, key)
	}

	rnd, off := s.query()
	got, err := au.lookupKv(rnd, key, false)

	s.verdict(err, cached || s.writtenBefore(touched, off))
	if err == nil {
		vr.Assert("c08.kv.value-is-history-value", verifC08KVIs(got, hist[off]))
	}
	vr.Reach("done")
}

//verif:harness prop=C08 reach=done,frommemory,dberror,mismatch,fromdb unwind=10 budget=200 thorough.budget=1200
func VerifC08LookupKv() { verifC08KVRun(vr.Param(2, 3)) }

// ---------------------------------------------------------------------------
// resources: one asset of one account (holding, and params when the account is
// the creator)

type verifC08Res struct {
	hasHolding bool
	amount     uint64
	frozenBit  uint8 // 0 or 1
	hasParams  bool
	total      uint64
	decimals   uint32
}

// verifC08ResCheck asserts got == want (separate obligations instead of one
// short-circuit chain: no path forks on the symbolic parts).
func verifC08ResCheck(tag string, got ledgercore.AccountResource, want verifC08Res) {
	vr.Assert(tag+".no-app-parts", got.AppParams == nil && got.AppLocalState == nil)
	vr.Assert(tag+".holding-presence", (got.AssetHolding != nil) == want.hasHolding)
	vr.Assert(tag+".params-presence", (got.AssetParams != nil) == want.hasParams)
	if got.AssetHolding != nil {
		vr.Assert(tag+".holding-value", *got.AssetHolding == basics.AssetHolding{Amount: want.amount, Frozen: want.frozenBit == 1})
	}
	if got.AssetParams != nil {
		vr.Assert(tag+".params-value", *got.AssetParams == basics.AssetParams{Total: want.total, Decimals: want.decimals})
	}
}

// verifC08ResValue: shape 0 = gone (no holding, no params), 1 = holding only,
// 2 = holding and params (the account created the asset; a creator always holds).
func verifC08ResValue(l string, shape int) verifC08Res {
	var v verifC08Res
	if shape >= 1 {
		v.hasHolding = true
		v.amount = vr.U64(l + ".amount")
		v.frozenBit = vr.U8(l + ".frozen")
		vr.Assume(v.frozenBit <= 1)
	}
	if shape >= 2 {
		v.hasParams = true
		v.total = vr.U64(l + ".total")
		v.decimals = vr.U32(l + ".decimals")
	}
	return v
}

// row: the persisted form, with the flags SetAssetHolding/SetAssetParams compute
// (holding present; ownership iff params; "empty asset" iff every asset field is
// zero) - written out by hand so that building the row does not fork on the
// symbolic amounts.
func (v verifC08Res) row(aidx basics.CreatableIndex, rnd basics.Round) trackerdb.PersistedResourcesData {
	prd := trackerdb.PersistedResourcesData{Aidx: aidx, Round: rnd}
	if !v.hasHolding {
		return prd // no row: AcctRef == nil
	}
	prd.AcctRef = verifC08Ref{}
	prd.Data = trackerdb.ResourcesData{Amount: v.amount, Frozen: v.frozenBit == 1, Total: v.total, Decimals: v.decimals, UpdateRound: 3}
	flags := trackerdb.ResourceFlagsHolding
	if v.hasParams {
		flags |= trackerdb.ResourceFlagsOwnership
	}
	if v.amount|uint64(v.frozenBit)|v.total|uint64(v.decimals) == 0 {
		flags |= trackerdb.ResourceFlagsEmptyAsset
	}
	prd.Data.ResourceFlags = flags
	return prd
}

// record: the delta record of a round that leaves the resource in state v (R5:
// complete; what is gone is flagged Deleted).
func (v verifC08Res) record() (ledgercore.AssetParamsDelta, ledgercore.AssetHoldingDelta) {
	var p ledgercore.AssetParamsDelta
	var h ledgercore.AssetHoldingDelta
	if v.hasHolding {
		h.Holding = &basics.AssetHolding{Amount: v.amount, Frozen: v.frozenBit == 1}
	} else {
		h.Deleted = true
	}
	if v.hasParams {
		p.Params = &basics.AssetParams{Total: v.total, Decimals: v.decimals}
	} else if !v.hasHolding {
		p.Deleted = vr.Bool("rec.paramsdeleted") // destroyed by the creator, or a plain opt-out
	}
	return p, h
}

func verifC08ResRun(n int) {
	s := verifC08Base(n)
	au := s.au
	addr, otherAddr := verifC08Addr(1), verifC08Addr(2)
	const aidx, otherIdx = basics.CreatableIndex(77), basics.CreatableIndex(78)
	s.db.wantAddr, s.db.wantAidx = addr, aidx

	var hist [4]verifC08Res
	hist[0] = verifC08ResValue("db", vr.Choice("db.shape", 3))
	truth := hist[0].row(aidx, s.dbRound)
	s.db.res = truth
	s.db.resStale = verifC08ResValue("stale", 2).row(aidx, s.dbAt)

	var touched [3]bool
	nTouched := 0
	var last verifC08Res
	for i := 0; i < n; i++ {
		l := verifC08Labels[i]
		sd := s.newDelta(i)
		// unrelated records: same asset for another account, another asset for this account
		o1 := verifC08ResValue(l+".o1", 1)
		o2 := verifC08ResValue(l+".o2", 1)
		p1, h1 := o1.record()
		p2, h2 := o2.record()
		sd.Accts.UpsertAssetResource(otherAddr, basics.AssetIndex(aidx), p1, h1)
		hist[i+1] = hist[i]
		if shape := vr.Choice(l+".shape", 4); shape > 0 {
			touched[i] = true
			nTouched++
			last = verifC08ResValue(l, shape-1)
			p, h := last.record()
			sd.Accts.UpsertAssetResource(addr, basics.AssetIndex(aidx), p, h)
			hist[i+1] = last
		}
		sd.Accts.UpsertAssetResource(addr, basics.AssetIndex(otherIdx), p2, h2)
		au.resources[accountCreatable{otherAddr, aidx}] = modifiedResource{resource: ledgercore.AccountResource{AssetHolding: h1.Holding}, ndeltas: i + 1}
		au.resources[accountCreatable{addr, otherIdx}] = modifiedResource{resource: ledgercore.AccountResource{AssetHolding: h2.Holding}, ndeltas: i + 1}
		if touched[i] {
			// R3/R5 as newBlockImpl: both pointers of the latest record
			rec, _ := sd.Accts.GetResource(addr, aidx, basics.AssetCreatable)
			au.resources[accountCreatable{addr, aidx}] = modifiedResource{resource: rec, ndeltas: nTouched}
		}
		s.push(i, sd)
	}

	cached := false
	otherRow := verifC08ResValue("cache.other", 1).row(otherIdx, s.dbRound)
	switch 2 - vr.Choice("cache", vr.Param(2, 3)) { // quick: the disabled cache is left to the other harnesses
	case 0:
		au.baseResources.init(au.log, 0, 0)
	case 1:
		au.baseResources.init(au.log, 4, 2)
		au.baseResources.write(otherRow, addr)
	case 2:
		au.baseResources.init(au.log, 4, 2)
		au.baseResources.write(otherRow, addr)
		cached = true
		if hist[0].hasHolding {
			c := truth
			c.Round = basics.Round(vr.U64("cache.round"))
			vr.Assume(c.Round <= s.dbRound)
			au.baseResources.write(c, addr)
		} else {
			au.baseResources.notFound[accountCreatable{addr, aidx}] = struct{}{}
		}
	}

	rnd, off := s.query()
	got, validThrough, err := au.lookupResource(rnd, addr, aidx, basics.AssetCreatable, false)

	s.verdict(err, cached || s.writtenBefore(touched, off))
	if err == nil {
		verifC08ResCheck("c08.res.value-is-history-value", got, hist[off])
		vr.Assert("c08.res.validthrough-in-window", validThrough >= rnd && validThrough <= s.dbRound+basics.Round(n))
		verifC08ResCheck("c08.res.unchanged-until-validthrough", got, hist[uint64(validThrough-s.dbRound)])
	}
	vr.Reach("done")
}

//verif:harness prop=C08 reach=done,frommemory,dberror,mismatch,fromdb unwind=10 budget=200 thorough.budget=1200
func VerifC08LookupResource() { verifC08ResRun(2) }

// ---------------------------------------------------------------------------
// creators

type verifC08Creator struct {
	created bool
	ctype   basics.CreatableType
	who     uint8 // address pool index
}

func verifC08CreatorValue(l string) verifC08Creator {
	c := verifC08Creator{created: vr.Bool(l + ".created"), ctype: basics.CreatableType(vr.U8(l + ".ctype")), who: vr.U8(l + ".creator")}
	vr.Assume(c.ctype <= basics.AppCreatable)
	vr.Assume(c.who >= 1 && c.who <= 3)
	return c
}

func verifC08CreatorRun(n int) {
	s := verifC08Base(n)
	au := s.au
	const cidx, otherIdx = basics.CreatableIndex(500), basics.CreatableIndex(501)
	s.db.wantCidx = cidx

	var hist [4]verifC08Creator
	hist[0] = verifC08CreatorValue("db")
	s.db.creatorOK, s.db.creatorType, s.db.creator = hist[0].created, hist[0].ctype, verifC08Addr(hist[0].who)
	s.db.staleOK, s.db.creatorStale = vr.Bool("stale.ok"), verifC08Addr(9)

	var touched [3]bool
	nTouched := 0
	var last verifC08Creator
	for i := 0; i < n; i++ {
		l := verifC08Labels[i]
		sd := s.newDelta(i)
		oc := ledgercore.ModifiedCreatable{Ctype: basics.AssetCreatable, Created: true, Creator: verifC08Addr(8)}
		sd.AddCreatable(otherIdx, oc)
		oc.Ndeltas = i + 1
		au.creatables[otherIdx] = oc
		hist[i+1] = hist[i]
		if vr.Bool(l + ".touch") {
			touched[i] = true
			nTouched++
			last = verifC08CreatorValue(l)
			sd.AddCreatable(cidx, ledgercore.ModifiedCreatable{Ctype: last.ctype, Created: last.created, Creator: verifC08Addr(last.who)})
			hist[i+1] = last
		}
		s.push(i, sd)
	}
	if nTouched > 0 {
		au.creatables[cidx] = ledgercore.ModifiedCreatable{Ctype: last.ctype, Created: last.created, Creator: verifC08Addr(last.who), Ndeltas: nTouched}
	}

	qtype := basics.CreatableType(vr.U8("query.ctype"))
	vr.Assume(qtype <= basics.AppCreatable)
	rnd, off := s.query()
	creator, ok, err := au.getCreatorForRound(rnd, cidx, qtype, false)

	s.verdict(err, s.writtenBefore(touched, off))
	if err == nil {
		want := hist[off]
		exists := want.created && want.ctype == qtype
		vr.Assert("c08.creator.existence-is-history-value", ok == exists)
		if exists {
			vr.Assert("c08.creator.creator-is-history-value", creator == verifC08Addr(want.who))
		} else {
			vr.Assert("c08.creator.no-creator-when-absent", creator.IsZero())
		}
	}
	vr.Reach("done")
}

//verif:harness prop=C08 reach=done,frommemory,dberror,mismatch,fromdb unwind=10 budget=200 thorough.budget=1200
func VerifC08GetCreator() { verifC08CreatorRun(vr.Param(2, 3)) }

// ---------------------------------------------------------------------------
// rounds outside the window the tracker still serves: every lookup refuses, and
// does so without consulting the database; roundOffset itself.

//verif:harness prop=C08 reach=done,below,above,inside unwind=10 budget=200
func VerifC08OutsideWindow() {
	const n = 2
	s := verifC08Base(n)
	au := s.au
	addr := verifC08Addr(1)
	for i := 0; i < n; i++ {
		sd := s.newDelta(i)
		sd.Accts.Upsert(addr, verifC08Fields(verifC08Labels[i]).core())
		au.accounts[addr] = modifiedAccount{ndeltas: i + 1}
		s.push(i, sd)
	}
	au.baseAccounts.init(au.log, 4, 2)
	au.baseResources.init(au.log, 4, 2)
	au.baseKVs.init(au.log, 4, 2)

	rnd := basics.Round(vr.U64("rnd"))
	off, err := au.roundOffset(rnd)
	if rnd >= s.dbRound && rnd <= s.dbRound+n {
		vr.Reach("inside")
		vr.Assert("c08.roundoffset.inside", err == nil && off == uint64(rnd-s.dbRound))
		vr.Reach("done")
		return
	}
	if rnd < s.dbRound {
		vr.Reach("below")
		roe, isROE := err.(*RoundOffsetError)
		vr.Assert("c08.roundoffset.below", isROE && roe.round == rnd && roe.dbRound == s.dbRound)
	} else {
		vr.Reach("above")
		vr.Assert("c08.roundoffset.above", err != nil)
	}
	_, _, _, _, err1 := au.lookupWithoutRewards(rnd, addr, false)
	_, err2 := au.lookupKv(rnd, "bx:k1", false)
	_, _, err3 := au.lookupResource(rnd, addr, 77, basics.AssetCreatable, false)
	_, _, err4 := au.getCreatorForRound(rnd, 500, basics.AssetCreatable, false)
	vr.Assert("c08.outside.account-refused", err1 != nil)
	vr.Assert("c08.outside.kv-refused", err2 != nil)
	vr.Assert("c08.outside.resource-refused", err3 != nil)
	vr.Assert("c08.outside.creator-refused", err4 != nil)
	vr.Assert("c08.outside.database-not-asked", s.db.calls == 0)
	vr.Reach("done")
}
