//go:build verif

package ledger

import (
	"errors"

	"github.com/algorand/go-algorand/data/basics"
	"github.com/algorand/go-algorand/data/bookkeeping"
	vr "github.com/algorand/go-algorand/internal/verifrt"
	"github.com/algorand/go-algorand/ledger/ledgercore"
	"github.com/algorand/go-algorand/ledger/store/trackerdb"
	"github.com/algorand/go-algorand/logging"
	"github.com/algorand/go-algorand/protocol"
)

// C08 (narrow, lemma level): ledger lookups answer from the block history, not
// from flush timing.
//
// WHAT IS DECIDED HERE. The read side of accountUpdates:
//
//	lookupWithoutRewards(rnd, addr, synchronized=false)
//	lookupKv(rnd, key, synchronized=false)
//	lookupResource(rnd, addr, aidx, AssetCreatable, synchronized=false)
//	getCreatorForRound(rnd, cidx, ctype, synchronized=false)
//	roundOffset(rnd)
//
// for a tracker state built by hand: a symbolic cachedDBRound D (< 2^40), N
// in-memory delta rounds D+1..D+N (N = 2 quick, 3 thorough), each of which
// optionally (free boolean) writes the queried object with symbolic data and
// always writes an unrelated second object, the per-object index
// (au.accounts / au.kvStore / au.resources / au.creatables) consistent with
// those deltas, the LRU cache of the object kind either disabled, empty or
// holding the database value, and the database reader (au.accountsq, a harness
// type) answering either with the true value as of round D, or - "database
// already advanced / behind" - with an unrelated value as of a round != D, or
// with an error.
//
// Ghost oracle (independent of the code): hist[i] = value of the object at round
// D+i: hist[0] = the database value as of D (empty when the database has no row),
// hist[i+1] = the value written by delta i if it writes the object, else hist[i].
// For a symbolic query round rnd:
//
//   - rnd outside [D, D+N]: an error (roundOffset).
//   - otherwise, whenever err == nil: the returned value == hist[rnd-D]; for
//     accounts also rewardsVersion/rewardsLevel are those of round rnd and
//     rnd <= validThrough <= D+N with the value unchanged up to validThrough.
//   - the answer does not depend on the flush/caching state: if the value is
//     determined by memory (a delta <= rnd writes the object, or the cache holds
//     the database value) err == nil and the database is not asked; otherwise the
//     database is asked exactly once, for exactly this object, and an in-sync
//     answer gives err == nil.
//   - a database answer whose round != cachedDBRound is never returned as data:
//     the result is a *MismatchingDatabaseRoundError; a reader error is passed on.
//
// REPRESENTATION INVARIANT ASSUMED (by construction of the state), and the code
// that maintains each clause - that this code really maintains it across block
// additions, deferred commits (prepareCommit/commitRound/postCommit, the
// trackerRegistry commit protocol, goroutines, SQLite transactions) and restarts
// (loadFromDisk/initializeFromDisk) is OUTSIDE this claim; i.e. the "independent
// of flush schedule and restarts" half of C08 is not decided here, only that the
// lookup functions compute the history value from any state satisfying:
//
//	R1 len(au.versions) == len(au.roundTotals) == len(au.deltas)+1, entry i
//	   belonging to round D+i            [newBlockImpl appends; postCommit trims by offset]
//	R2 au.deltas[i] is the StateDelta of round D+1+i, its AccountDeltas index maps
//	   consistent with its slices        [ledgercore Upsert*/AddKvMod/AddCreatable]
//	R3 au.accounts[a] / au.kvStore[k] / au.resources[(a,i)] / au.creatables[c] exists
//	   iff some delta writes the object; it then holds the value of the LAST such
//	   delta (ndeltas = number of such deltas)   [newBlockImpl; postCommit decrements/deletes]
//	R4 an entry of baseAccounts/baseKVs/baseResources (or their notFound sets), if
//	   present, equals the database value as of cachedDBRound (whatever its Round
//	   field says)                        [postCommit rewrites flushed entries; lookups insert
//	                                      only answers with Round == cachedDBRound]
//	R5 every delta record of a resource carries the complete resource (params and
//	   holding pointers as of that round)  [roundCowState / eval builds full records;
//	                                      newBlockImpl copies both pointers]
//
// Not covered: lookupLatest / lookupAllResources (rewards, resource assembly),
// app resources (same code path as assets up to the ctype switch), the
// synchronized=true retry/Wait loops (condition variables), onlineAccounts.

// ---------------------------------------------------------------------------
// shared scaffolding

type verifC08Ref struct{}

func (verifC08Ref) AccountRefMarker() {}
func (verifC08Ref) String() string    { return "verifref" }

var errVerifC08DB = errors.New("verif: database read failed")

func verifC08Addr(i byte) basics.Address {
	var a basics.Address
	a[0] = i
	a[31] = 0x80 + i
	return a
}

// verifC08Reader is the database as the tracker sees it. `calls` counts lookups.
type verifC08Reader struct {
	fail  bool
	calls int

	wantAddr basics.Address
	acct     trackerdb.PersistedAccountData

	wantKey string
	kv      trackerdb.PersistedKVData

	wantAidx basics.CreatableIndex
	res      trackerdb.PersistedResourcesData

	wantCidx     basics.CreatableIndex
	wantCtype    basics.CreatableType
	creator      basics.Address
	creatorOK    bool
	creatorRound basics.Round
}

func (r *verifC08Reader) LookupAccount(addr basics.Address) (trackerdb.PersistedAccountData, error) {
	r.calls++
	vr.Assert("c08.db-asked-for-the-queried-account", addr == r.wantAddr)
	if r.fail {
		return trackerdb.PersistedAccountData{}, errVerifC08DB
	}
	return r.acct, nil
}

func (r *verifC08Reader) LookupResources(addr basics.Address, aidx basics.CreatableIndex, ctype basics.CreatableType) (trackerdb.PersistedResourcesData, error) {
	r.calls++
	vr.Assert("c08.db-asked-for-the-queried-resource", addr == r.wantAddr && aidx == r.wantAidx && ctype == basics.AssetCreatable)
	if r.fail {
		return trackerdb.PersistedResourcesData{}, errVerifC08DB
	}
	return r.res, nil
}

func (r *verifC08Reader) LookupAllResources(addr basics.Address) ([]trackerdb.PersistedResourcesData, basics.Round, error) {
	panic("verif: LookupAllResources must not be reached")
}

func (r *verifC08Reader) LookupLimitedResources(addr basics.Address, minIdx basics.CreatableIndex, maxCreatables uint64, ctype basics.CreatableType) ([]trackerdb.PersistedResourcesDataWithCreator, basics.Round, error) {
	panic("verif: LookupLimitedResources must not be reached")
}

func (r *verifC08Reader) LookupKeyValue(key string) (trackerdb.PersistedKVData, error) {
	r.calls++
	vr.Assert("c08.db-asked-for-the-queried-key", key == r.wantKey)
	if r.fail {
		return trackerdb.PersistedKVData{}, errVerifC08DB
	}
	return r.kv, nil
}

func (r *verifC08Reader) LookupKeysByPrefix(prefix string, maxKeyNum uint64, results map[string]bool, resultCount uint64) (basics.Round, error) {
	panic("verif: LookupKeysByPrefix must not be reached")
}

func (r *verifC08Reader) LookupKeysByPrefixCursor(prefix string, cursor string, limit uint64, maxBytes uint64, includeValues bool, exclude map[string][]byte) (basics.Round, []ledgercore.KvPairResult, bool, error) {
	panic("verif: LookupKeysByPrefixCursor must not be reached")
}

func (r *verifC08Reader) LookupCreator(cidx basics.CreatableIndex, ctype basics.CreatableType) (basics.Address, bool, basics.Round, error) {
	r.calls++
	vr.Assert("c08.db-asked-for-the-queried-creatable", cidx == r.wantCidx && ctype == r.wantCtype)
	if r.fail {
		return basics.Address{}, false, 0, errVerifC08DB
	}
	return r.creator, r.creatorOK, r.creatorRound, nil
}

func (r *verifC08Reader) Close() {}

// verifC08State is the hand-built tracker plus the ghost bookkeeping shared by
// the four lookups.
type verifC08State struct {
	au      *accountUpdates
	db      *verifC08Reader
	dbRound basics.Round
	n       int
	inSync  bool         // the database answers as of cachedDBRound
	dbAt    basics.Round // the round the database reports
	levels  [4]uint64    // ghost: RewardsLevel of round D+i
}

var verifC08Versions = [4]protocol.ConsensusVersion{"vC08-0", "vC08-1", "vC08-2", "vC08-3"}
var verifC08Labels = [3]string{"d0", "d1", "d2"}

// verifC08Base: cachedDBRound, an empty delta window (R1 for zero deltas) and the
// database reader's synchronisation mode.
func verifC08Base(n int) *verifC08State {
	s := &verifC08State{n: n}
	s.dbRound = basics.Round(vr.U64("dbRound"))
	vr.Assume(s.dbRound < 1<<40)
	s.db = &verifC08Reader{}
	s.db.fail = vr.Bool("db.fail")
	s.inSync = vr.Bool("db.insync")
	s.dbAt = s.dbRound
	if !s.inSync {
		s.dbAt = basics.Round(vr.U64("db.round"))
		vr.Assume(s.dbAt != s.dbRound)
	}
	au := &accountUpdates{}
	au.log = logging.Base()
	au.accountsq = s.db
	au.cachedDBRound = s.dbRound
	au.accounts = make(map[basics.Address]modifiedAccount)
	au.resources = make(resourcesUpdates)
	au.kvStore = make(map[string]modifiedKvValue)
	au.creatables = make(map[basics.CreatableIndex]ledgercore.ModifiedCreatable)
	au.versions = []protocol.ConsensusVersion{verifC08Versions[0]}
	s.levels[0] = vr.U64("level0")
	au.roundTotals = []ledgercore.AccountTotals{{RewardsLevel: s.levels[0]}}
	au.deltasAccum = []int{0}
	s.au = au
	return s
}

// newDelta makes the (still empty) StateDelta of round D+1+i with the real constructor.
func (s *verifC08State) newDelta(i int) ledgercore.StateDelta {
	hdr := &bookkeeping.BlockHeader{Round: s.dbRound + 1 + basics.Round(i)}
	return ledgercore.MakeStateDelta(hdr, 0, 2, 0)
}

// push appends the delta of round D+1+i together with its version/totals (R1).
func (s *verifC08State) push(i int, sd ledgercore.StateDelta) {
	au := s.au
	au.deltas = append(au.deltas, sd)
	au.versions = append(au.versions, verifC08Versions[i+1])
	s.levels[i+1] = vr.U64(verifC08Labels[i] + ".level")
	au.roundTotals = append(au.roundTotals, ledgercore.AccountTotals{RewardsLevel: s.levels[i+1]})
	au.deltasAccum = append(au.deltasAccum, au.deltasAccum[len(au.deltasAccum)-1]+sd.Accts.Len())
}

// query picks the symbolic query round. inWindow says whether D <= rnd <= D+N and
// then off = rnd-D (symbolic, < 4).
func (s *verifC08State) query() (rnd basics.Round, inWindow bool, off uint64) {
	rnd = basics.Round(vr.U64("rnd"))
	latest := s.dbRound + basics.Round(s.n)
	if rnd < s.dbRound {
		vr.Reach("below")
		return rnd, false, 0
	}
	if rnd > latest {
		vr.Reach("above")
		return rnd, false, 0
	}
	return rnd, true, uint64(rnd - s.dbRound)
}

// verdict checks the error/independence part shared by all lookups.
//
//	memory: the value at rnd is determined without the database (a delta <= rnd
//	        writes the object, or the cache holds the database value)
func (s *verifC08State) verdict(err error, memory bool) {
	var mismatch *MismatchingDatabaseRoundError
	isMismatch := errors.As(err, &mismatch)
	if memory {
		vr.Reach("frommemory")
		vr.Assert("c08.memory-answer-needs-no-database", err == nil && s.db.calls == 0)
		return
	}
	vr.Assert("c08.database-asked-once", s.db.calls == 1)
	if s.db.fail {
		vr.Reach("dberror")
		vr.Assert("c08.database-error-passed-on", err == errVerifC08DB)
		return
	}
	if !s.inSync {
		vr.Reach("mismatch")
		vr.Assert("c08.unsynchronised-database-answer-refused", isMismatch && mismatch.databaseRound == s.dbAt && mismatch.memoryRound == s.dbRound)
		return
	}
	vr.Reach("fromdb")
	vr.Assert("c08.synchronised-database-answer-accepted", err == nil)
}

// ---------------------------------------------------------------------------
// accounts

// verifC08AcctFields: the symbolic part of an account record; every other field
// stays zero. Two hand-written projections produce the in-memory and the
// persisted representation (so BaseAccountData.GetLedgerCoreAccountData is
// checked on these fields as well).
type verifC08AcctFields struct {
	status   uint8
	algos    uint64
	rbase    uint64
	rewarded uint64
	auth0    uint8
	assets   uint64
	boxes    uint64
	voteID0  uint8
	sel0     uint8
	voteLast uint64
	dilution uint64
	eligible bool
	lastHB   uint64
}

func verifC08Fields(l string) verifC08AcctFields {
	return verifC08AcctFields{
		status: vr.U8(l + ".status"), algos: vr.U64(l + ".algos"), rbase: vr.U64(l + ".rbase"),
		rewarded: vr.U64(l + ".rewarded"), auth0: vr.U8(l + ".auth"), assets: vr.U64(l + ".assets"),
		boxes: vr.U64(l + ".boxes"), voteID0: vr.U8(l + ".voteid"), sel0: vr.U8(l + ".selid"),
		voteLast: vr.U64(l + ".votelast"), dilution: vr.U64(l + ".dilution"), eligible: vr.Bool(l + ".eligible"),
		lastHB: vr.U64(l + ".lasthb"),
	}
}

func (f verifC08AcctFields) core() ledgercore.AccountData {
	var d ledgercore.AccountData
	d.Status = basics.Status(f.status)
	d.MicroAlgos.Raw = f.algos
	d.RewardsBase = f.rbase
	d.RewardedMicroAlgos.Raw = f.rewarded
	d.AuthAddr[0] = f.auth0
	d.TotalAssets = f.assets
	d.TotalBoxes = f.boxes
	d.VoteID[0] = f.voteID0
	d.SelectionID[0] = f.sel0
	d.VoteLastValid = basics.Round(f.voteLast)
	d.VoteKeyDilution = f.dilution
	d.IncentiveEligible = f.eligible
	d.LastHeartbeat = basics.Round(f.lastHB)
	return d
}

func (f verifC08AcctFields) base() trackerdb.BaseAccountData {
	var d trackerdb.BaseAccountData
	d.Status = basics.Status(f.status)
	d.MicroAlgos.Raw = f.algos
	d.RewardsBase = f.rbase
	d.RewardedMicroAlgos.Raw = f.rewarded
	d.AuthAddr[0] = f.auth0
	d.TotalAssets = f.assets
	d.TotalBoxes = f.boxes
	d.VoteID[0] = f.voteID0
	d.SelectionID[0] = f.sel0
	d.VoteLastValid = basics.Round(f.voteLast)
	d.VoteKeyDilution = f.dilution
	d.IncentiveEligible = f.eligible
	d.LastHeartbeat = basics.Round(f.lastHB)
	d.UpdateRound = 7
	return d
}

func verifC08AcctRun(n int) {
	s := verifC08Base(n)
	au := s.au
	addr, other := verifC08Addr(1), verifC08Addr(2)
	s.db.wantAddr = addr

	// the database as of D: a row (Ref != nil) or no row (Ref == nil, empty data)
	var hist [4]ledgercore.AccountData
	dbExists := vr.Bool("db.exists")
	truth := trackerdb.PersistedAccountData{Addr: addr, Round: s.dbRound}
	if dbExists {
		f := verifC08Fields("db")
		hist[0] = f.core()
		truth.AccountData = f.base()
		truth.Ref = verifC08Ref{}
	}
	if s.inSync {
		s.db.acct = truth
	} else {
		// some other version of the row, as of another round
		s.db.acct = trackerdb.PersistedAccountData{Addr: addr, Round: s.dbAt, AccountData: verifC08Fields("stale").base()}
		if vr.Bool("stale.exists") {
			s.db.acct.Ref = verifC08Ref{}
		}
	}

	// delta rounds; R2 by the real constructors, R3 below
	var touched [3]bool
	nTouched := 0
	var last ledgercore.AccountData
	for i := 0; i < n; i++ {
		l := verifC08Labels[i]
		sd := s.newDelta(i)
		otherData := verifC08Fields(l + ".other").core()
		if i%2 == 0 {
			sd.Accts.Upsert(other, otherData)
		}
		hist[i+1] = hist[i]
		if vr.Bool(l + ".touch") {
			touched[i] = true
			nTouched++
			last = verifC08Fields(l).core() // may be the empty record: account closed
			sd.Accts.Upsert(addr, last)
			hist[i+1] = last
		}
		if i%2 == 1 {
			sd.Accts.Upsert(other, otherData)
		}
		au.accounts[other] = modifiedAccount{data: otherData, ndeltas: i + 1}
		s.push(i, sd)
	}
	if nTouched > 0 {
		au.accounts[addr] = modifiedAccount{data: last, ndeltas: nTouched}
	}

	// the cache (R4)
	cached := false
	switch vr.Choice("cache", 3) {
	case 0: // caching disabled: nil maps and channels
		au.baseAccounts.init(au.log, 0, 0)
	case 1:
		au.baseAccounts.init(au.log, 4, 2)
		au.baseAccounts.write(trackerdb.PersistedAccountData{Addr: other, Round: s.dbRound, Ref: verifC08Ref{}, AccountData: verifC08Fields("cache.other").base()})
	case 2:
		au.baseAccounts.init(au.log, 4, 2)
		au.baseAccounts.write(trackerdb.PersistedAccountData{Addr: other, Round: s.dbRound, Ref: verifC08Ref{}, AccountData: verifC08Fields("cache.other").base()})
		cached = true
		if dbExists {
			// the entry may have been read at an earlier database round and be
			// unchanged since
			c := truth
			c.Round = basics.Round(vr.U64("cache.round"))
			vr.Assume(c.Round <= s.dbRound)
			au.baseAccounts.write(c)
		} else {
			au.baseAccounts.notFound[addr] = struct{}{}
		}
	}

	rnd, inWindow, off := s.query()
	data, validThrough, ver, level, err := au.lookupWithoutRewards(rnd, addr, false)
	if !inWindow {
		vr.Assert("c08.acct.round-outside-window-refused", err != nil && s.db.calls == 0)
		vr.Reach("done")
		return
	}

	// is there a write at a round <= rnd ?
	inDeltas := false
	for i := 0; i < n; i++ {
		if touched[i] && uint64(i) < off {
			inDeltas = true
		}
	}
	s.verdict(err, inDeltas || cached)
	if err == nil {
		vr.Assert("c08.acct.value-is-history-value", data == hist[off])
		vr.Assert("c08.acct.rewards-version-of-round", ver == verifC08Versions[off])
		vr.Assert("c08.acct.rewards-level-of-round", level == s.levels[off])
		vr.Assert("c08.acct.validthrough-in-window", validThrough >= rnd && validThrough <= s.dbRound+basics.Round(n))
		vr.Assert("c08.acct.unchanged-until-validthrough", hist[uint64(validThrough-s.dbRound)] == data)
	}
	vr.Reach("done")
}

//verif:harness prop=C08 reach=done,below,above,frommemory,dberror,mismatch,fromdb unwind=10 budget=200 thorough.budget=1200
func VerifC08LookupAccount() { verifC08AcctRun(vr.Param(2, 3)) }
