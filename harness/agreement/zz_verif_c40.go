//go:build verif

package agreement

import (
	"github.com/algorand/go-algorand/config"
	"github.com/algorand/go-algorand/config/bounds"
	"github.com/algorand/go-algorand/crypto"
	"github.com/algorand/go-algorand/data/basics"
	"github.com/algorand/go-algorand/data/committee"
	vr "github.com/algorand/go-algorand/internal/verifrt"
	"github.com/algorand/go-algorand/protocol"
)

// C40: consensus objects have ONE canonical encoding.
//
// Code under test: the generated MarshalMsg / MsgIsZero / Msgsize / UnmarshalMsg
// of proposalValue, rawVote, unauthenticatedVote, voteAuthenticator,
// equivocationVoteAuthenticator, unauthenticatedBundle, crypto.OneTimeSignature,
// committee.UnauthenticatedCredential (+ crypto.Digest, crypto.VrfProof,
// basics.Address, basics.Round) and the real msgp Append*/Read* functions.
//
// For a value x with symbolic field contents (see verifRefFill: the zero /
// non-zero pattern of the leaves and the magnitude class of the integers are
// enumerated, the contents are symbolic):
//   c40.canonical    x.MarshalMsg(nil) is byte for byte the reference canonical
//                    encoding derived from the struct tags (zz_verif_c40ref.go)
//   c40.roundtrip    UnmarshalMsg(MarshalMsg(x)) succeeds, leaves nothing over
//                    and yields x
//   c40.msgsize      len(MarshalMsg(x)) <= x.Msgsize() (the buffer reserved)
//   c40.iszero       x.MsgIsZero() <=> every leaf is zero (the test that decides
//                    omission in the enclosing object)
//
// Outside: the reflection encoder itself (protocol.EncodeReflect: reflection,
// not encodable). Agreement of the two encoders is claimed against the
// tag-derived reference, which is what the reflection encoder is specified to
// produce (go-codec isEmptyValue / Canonical rules, quoted in zz_verif_c40ref.go).

// --- per type: symbolic contents and the tag-derived description ---------------------

func verifC40FillPV(f *verifRefFill, v *proposalValue) {
	v.OriginalPeriod = period(f.u64("oper"))
	f.bytes("oprop", v.OriginalProposer[:])
	f.bytes("dig", v.BlockDigest[:])
	f.bytes("encdig", v.EncodingDigest[:])
}

// proposal.go: _struct `codec:",omitempty,omitemptyarray"`; oper, oprop, dig, encdig
func verifC40RefPV(v *proposalValue) *verifRefVal {
	return verifRefS(",omitempty,omitemptyarray",
		"oper", verifRefU(uint64(v.OriginalPeriod)),
		"oprop", verifRefB(v.OriginalProposer[:]),
		"dig", verifRefB(v.BlockDigest[:]),
		"encdig", verifRefB(v.EncodingDigest[:]))
}

func verifC40FillOTS(f *verifRefFill, v *crypto.OneTimeSignature) {
	f.bytes("s", v.Sig[:])
	f.bytes("p", v.PK[:])
	f.bytes("ps", v.PKSigOld[:])
	f.bytes("p2", v.PK2[:])
	f.bytes("p1s", v.PK1Sig[:])
	f.bytes("p2s", v.PK2Sig[:])
}

// crypto/onetimesig.go: _struct `codec:""` (nothing omitted); s, p, ps, p2, p1s, p2s
func verifC40RefOTS(v *crypto.OneTimeSignature) *verifRefVal {
	return verifRefS("",
		"s", verifRefB(v.Sig[:]), "p", verifRefB(v.PK[:]), "ps", verifRefB(v.PKSigOld[:]),
		"p2", verifRefB(v.PK2[:]), "p1s", verifRefB(v.PK1Sig[:]), "p2s", verifRefB(v.PK2Sig[:]))
}

func verifC40FillCred(f *verifRefFill, v *committee.UnauthenticatedCredential) {
	f.bytes("pf", v.Proof[:])
}

// committee/credential.go: _struct `codec:",omitempty,omitemptyarray"`; pf
func verifC40RefCred(v *committee.UnauthenticatedCredential) *verifRefVal {
	return verifRefS(",omitempty,omitemptyarray", "pf", verifRefB(v.Proof[:]))
}

func verifC40FillRawVote(f *verifRefFill, v *rawVote) {
	f.bytes("snd", v.Sender[:])
	v.Round = basics.Round(f.u64("rnd"))
	v.Period = period(f.u64("per"))
	v.Step = step(f.u64("step"))
	verifC40FillPV(f, &v.Proposal)
}

// vote.go: _struct `codec:",omitempty,omitemptyarray"`; snd, rnd, per, step, prop
func verifC40RefRawVote(v *rawVote) *verifRefVal {
	return verifRefS(",omitempty,omitemptyarray",
		"snd", verifRefB(v.Sender[:]),
		"rnd", verifRefU(uint64(v.Round)),
		"per", verifRefU(uint64(v.Period)),
		"step", verifRefU(uint64(v.Step)),
		"prop", verifC40RefPV(&v.Proposal))
}

func verifC40FillUV(f *verifRefFill, v *unauthenticatedVote) {
	verifC40FillRawVote(f, &v.R)
	verifC40FillCred(f, &v.Cred)
	verifC40FillOTS(f, &v.Sig)
}

// vote.go: _struct `codec:",omitempty,omitemptyarray"`; r, cred, sig,omitempty,omitemptycheckstruct
func verifC40RefUV(v *unauthenticatedVote) *verifRefVal {
	return verifRefS(",omitempty,omitemptyarray",
		"r", verifC40RefRawVote(&v.R),
		"cred", verifC40RefCred(&v.Cred),
		"sig,omitempty,omitemptycheckstruct", verifC40RefOTS(&v.Sig))
}

func verifC40FillVA(f *verifRefFill, v *voteAuthenticator) {
	f.bytes("snd", v.Sender[:])
	verifC40FillCred(f, &v.Cred)
	verifC40FillOTS(f, &v.Sig)
}

// bundle.go: _struct `codec:""` (not omitempty); snd, cred, sig,omitempty,omitemptycheckstruct
func verifC40RefVA(v *voteAuthenticator) *verifRefVal {
	return verifRefS("",
		"snd", verifRefB(v.Sender[:]),
		"cred", verifC40RefCred(&v.Cred),
		"sig,omitempty,omitemptycheckstruct", verifC40RefOTS(&v.Sig))
}

func verifC40FillEVA(f *verifRefFill, v *equivocationVoteAuthenticator) {
	f.bytes("snd", v.Sender[:])
	verifC40FillCred(f, &v.Cred)
	verifC40FillOTS(f, &v.Sigs[0])
	verifC40FillOTS(f, &v.Sigs[1])
	verifC40FillPV(f, &v.Proposals[0])
	verifC40FillPV(f, &v.Proposals[1])
}

// bundle.go: _struct `codec:""`; snd, cred, sig,omitempty,omitemptycheckstruct ([2]),
// props ([2]). No omitemptyarray: a fixed-size array is never "empty".
func verifC40RefEVA(v *equivocationVoteAuthenticator) *verifRefVal {
	return verifRefS("",
		"snd", verifRefB(v.Sender[:]),
		"cred", verifC40RefCred(&v.Cred),
		"sig,omitempty,omitemptycheckstruct", verifRefArr(verifC40RefOTS(&v.Sigs[0]), verifC40RefOTS(&v.Sigs[1])),
		"props", verifRefArr(verifC40RefPV(&v.Proposals[0]), verifC40RefPV(&v.Proposals[1])))
}

// bundle.go: _struct `codec:",omitempty,omitemptyarray"`; rnd, per, step, prop,
// vote,allocbound=..., eqv,allocbound=...
func verifC40RefBundle(v *unauthenticatedBundle) *verifRefVal {
	votes := verifRefSl(v.Votes == nil)
	for i := range v.Votes {
		votes.subs = append(votes.subs, verifC40RefVA(&v.Votes[i]))
	}
	eqv := verifRefSl(v.EquivocationVotes == nil)
	for i := range v.EquivocationVotes {
		eqv.subs = append(eqv.subs, verifC40RefEVA(&v.EquivocationVotes[i]))
	}
	return verifRefS(",omitempty,omitemptyarray",
		"rnd", verifRefU(uint64(v.Round)),
		"per", verifRefU(uint64(v.Period)),
		"step", verifRefU(uint64(v.Step)),
		"prop", verifC40RefPV(&v.Proposal),
		"vote,allocbound=bounds.MaxVoteThreshold", votes,
		"eqv,allocbound=bounds.MaxVoteThreshold", eqv)
}

// --- driver ----------------------------------------------------------------------------

// the zero / non-zero pattern over n leaves. Quick: all non-zero, all zero, each
// single leaf zero, each single leaf non-zero (2n+2 patterns), integer
// magnitudes rotating with the pattern. Thorough: every subset when n <= 8
// (else the single-leaf patterns), every rotation of the magnitudes when
// n <= 15 (else two of the five).
func verifC40Pattern(n int) *verifRefFill {
	// all bytes symbolic only for the smaller types (cost per path grows with the
	// number of symbolic bytes; measured 19 s per path for the 22-leaf type)
	f := &verifRefFill{full: vr.Param(0, 1) == 1 && n <= 15}
	if vr.Param(0, 1) == 1 {
		if n <= 8 {
			f.mask = verifRefSubset(vr.Choice("subset", 1<<uint(n)), n)
		} else {
			f.mask = verifRefPattern(vr.Choice("pattern", verifRefPatterns(n)), n)
		}
		if n <= 15 {
			f.rot = vr.Choice("rot", 5)
		} else {
			f.rot = 2 * vr.Choice("rot", 2) // the big types: ~10 s per path
		}
		return f
	}
	p := vr.Choice("pattern", verifRefPatterns(n))
	f.mask = verifRefPattern(p, n)
	f.rot = p
	return f
}

func verifC40Canonical(enc []byte, ref *verifRefVal, msgsize int, isZero bool) {
	want := ref.encode(nil)
	vr.Assert("c40.canonical", verifRefSame(enc, want))
	vr.Assert("c40.msgsize", len(enc) <= msgsize)
	vr.Assert("c40.iszero", isZero == ref.zero())
	if ref.zero() {
		vr.Reach("zero-value")
	}
	if ref.kind == verifRefStruct {
		all := true
		for i := range ref.subs {
			if ref.omit[i] && ref.subs[i].empty(ref.omitArr) {
				all = false
			}
		}
		if all {
			vr.Reach("all-fields")
		} else {
			vr.Reach("some-omitted")
		}
	}
}

// proposalValue and rawVote are also part of the persisted consensus state
// (C07: Staging, Pinned, keys of voteTracker.Counts, the votes' payload): the same
// checks count for C07. (A harness file is overlaid for a property only if it
// holds a harness of that property; zz_verif_c07.go uses the helpers above.)
//
//verif:harness prop=C07 reach=done,zero-value,all-fields,some-omitted unwind=16 budget=120 thorough.budget=900
func VerifC07ProposalValue() { VerifC40ProposalValue() }

//verif:harness prop=C07 reach=done,zero-value,all-fields,some-omitted unwind=16 budget=120 thorough.budget=2000
func VerifC07RawVote() { VerifC40RawVote() }

//verif:harness prop=C40 reach=done,zero-value,all-fields,some-omitted unwind=16 budget=120 thorough.budget=900
func VerifC40ProposalValue() {
	f := verifC40Pattern(4)
	var v proposalValue
	verifC40FillPV(f, &v)
	enc := v.MarshalMsg(nil)
	verifC40Canonical(enc, verifC40RefPV(&v), v.Msgsize(), v.MsgIsZero())
	var w proposalValue
	rem, err := w.UnmarshalMsg(enc)
	vr.Assert("c40.roundtrip", err == nil && len(rem) == 0 && w == v)
	vr.Reach("done")
}

//verif:harness prop=C40 reach=done,zero-value,all-fields unwind=16 budget=120 thorough.budget=900
func VerifC40OneTimeSignature() {
	f := verifC40Pattern(6)
	var v crypto.OneTimeSignature
	verifC40FillOTS(f, &v)
	enc := v.MarshalMsg(nil)
	verifC40Canonical(enc, verifC40RefOTS(&v), v.Msgsize(), v.MsgIsZero())
	var w crypto.OneTimeSignature
	rem, err := w.UnmarshalMsg(enc)
	vr.Assert("c40.roundtrip", err == nil && len(rem) == 0 && w == v)
	vr.Reach("done")
}

//verif:harness prop=C40 reach=done,zero-value,all-fields unwind=16 budget=120 thorough.budget=900
func VerifC40Credential() {
	f := verifC40Pattern(1)
	var v committee.UnauthenticatedCredential
	verifC40FillCred(f, &v)
	enc := v.MarshalMsg(nil)
	verifC40Canonical(enc, verifC40RefCred(&v), v.Msgsize(), v.MsgIsZero())
	var w committee.UnauthenticatedCredential
	rem, err := w.UnmarshalMsg(enc)
	vr.Assert("c40.roundtrip", err == nil && len(rem) == 0 && w == v)
	vr.Reach("done")
}

//verif:harness prop=C40 reach=done,zero-value,all-fields,some-omitted unwind=16 budget=120 thorough.budget=2000
func VerifC40RawVote() {
	f := verifC40Pattern(8)
	var v rawVote
	verifC40FillRawVote(f, &v)
	enc := v.MarshalMsg(nil)
	verifC40Canonical(enc, verifC40RefRawVote(&v), v.Msgsize(), v.MsgIsZero())
	var w rawVote
	rem, err := w.UnmarshalMsg(enc)
	vr.Assert("c40.roundtrip", err == nil && len(rem) == 0 && w == v)
	vr.Reach("done")
}

//verif:harness prop=C40 reach=done,zero-value,all-fields,some-omitted unwind=16 budget=200 thorough.budget=1500
func VerifC40UnauthenticatedVote() {
	f := verifC40Pattern(15)
	var v unauthenticatedVote
	verifC40FillUV(f, &v)
	enc := v.MarshalMsg(nil)
	verifC40Canonical(enc, verifC40RefUV(&v), v.Msgsize(), v.MsgIsZero())
	var w unauthenticatedVote
	rem, err := w.UnmarshalMsg(enc)
	vr.Assert("c40.roundtrip", err == nil && len(rem) == 0 && w == v)
	vr.Reach("done")
}

//verif:harness prop=C40 reach=done,zero-value,all-fields,some-omitted unwind=16 budget=200 thorough.budget=1500
func VerifC40VoteAuthenticator() {
	f := verifC40Pattern(8)
	var v voteAuthenticator
	verifC40FillVA(f, &v)
	enc := v.MarshalMsg(nil)
	verifC40Canonical(enc, verifC40RefVA(&v), v.Msgsize(), v.MsgIsZero())
	var w voteAuthenticator
	rem, err := w.UnmarshalMsg(enc)
	vr.Assert("c40.roundtrip", err == nil && len(rem) == 0 && w == v)
	vr.Reach("done")
}

//verif:harness prop=C40 reach=done,zero-value,all-fields unwind=16 budget=200 thorough.budget=1500
func VerifC40EquivocationVoteAuthenticator() {
	f := verifC40Pattern(22)
	var v equivocationVoteAuthenticator
	verifC40FillEVA(f, &v)
	enc := v.MarshalMsg(nil)
	verifC40Canonical(enc, verifC40RefEVA(&v), v.Msgsize(), v.MsgIsZero())
	var w equivocationVoteAuthenticator
	rem, err := w.UnmarshalMsg(enc)
	vr.Assert("c40.roundtrip", err == nil && len(rem) == 0 && w == v)
	vr.Reach("done")
}

func verifC40SameBundle(a, b *unauthenticatedBundle) bool {
	if a.Round != b.Round || a.Period != b.Period || a.Step != b.Step || a.Proposal != b.Proposal {
		return false
	}
	if len(a.Votes) != len(b.Votes) || len(a.EquivocationVotes) != len(b.EquivocationVotes) {
		return false
	}
	same := true
	for i := range a.Votes {
		if a.Votes[i] != b.Votes[i] {
			same = false
		}
	}
	for i := range a.EquivocationVotes {
		if a.EquivocationVotes[i] != b.EquivocationVotes[i] {
			same = false
		}
	}
	return same
}

// unauthenticatedBundle. Two dimensions: (a) the header leaves (rnd, per, step,
// the proposal's four) by single-leaf pattern, with one vote; (b) the slice
// shapes: (votes, equivocation votes) in {nil, 1, 2, empty but not nil} x {nil,
// 1, empty but not nil} (thorough: {nil, 1, 2, empty} for both), with all
// leaves non-zero and with everything zero ("sig" of a voteAuthenticator then
// disappears, the elements stay).
//
//verif:harness prop=C40 reach=done,zero-value,all-fields,some-omitted,empty-not-nil unwind=16 budget=250 thorough.budget=2400
func VerifC40UnauthenticatedBundle() {
	// the allocbound (checked by the decoder) is set by package config's initializer
	_ = config.Consensus[protocol.ConsensusCurrentVersion]
	vr.Assert("c40.bound-initialised", bounds.MaxVoteThreshold > 1000)
	// the two dimensions one after the other: the header's 16 patterns with one
	// vote (thorough: and one equivocation vote); every slice shape with
	// patterns 0 and 1 (thorough: 0..3). The full product (256 paths at ~10 s
	// with two elements in each slice) does not fit the thorough budget.
	nv, ne, np := 1, vr.Param(0, 1), verifRefPatterns(7) // nv/ne: 3 = empty, not nil
	if vr.Choice("dimension", 2) == 1 {
		nv = vr.Choice("votes", 4)
		ne = vr.Choice("eqvotes", vr.Param(3, 4))
		if ne == 2 && vr.Param(0, 1) == 0 {
			ne = 3
		}
		np = vr.Param(2, 4)
	}
	var v unauthenticatedBundle
	if nv == 3 {
		v.Votes = []voteAuthenticator{}
		vr.Reach("empty-not-nil")
	} else if nv > 0 {
		v.Votes = make([]voteAuthenticator, nv)
	}
	if ne == 3 {
		v.EquivocationVotes = []equivocationVoteAuthenticator{}
	} else if ne > 0 {
		v.EquivocationVotes = make([]equivocationVoteAuthenticator, ne)
	}
	n := 7 + 8*len(v.Votes) + 22*len(v.EquivocationVotes)
	f := &verifRefFill{}
	// header leaves by single-leaf pattern; elements: all non-zero, or (pattern
	// 1) all zero, which makes "sig" of a voteAuthenticator disappear
	p := vr.Choice("pattern", np)
	f.mask = verifRefPattern(p, 7)
	f.rot = p
	if p == 1 {
		f.mask = verifRefPattern(1, n)
	}
	v.Round = basics.Round(f.u64("rnd"))
	v.Period = period(f.u64("per"))
	v.Step = step(f.u64("step"))
	verifC40FillPV(f, &v.Proposal)
	for i := range v.Votes {
		verifC40FillVA(f, &v.Votes[i])
	}
	for i := range v.EquivocationVotes {
		verifC40FillEVA(f, &v.EquivocationVotes[i])
	}
	enc := v.MarshalMsg(nil)
	verifC40Canonical(enc, verifC40RefBundle(&v), v.Msgsize(), v.MsgIsZero())
	var w unauthenticatedBundle
	rem, err := w.UnmarshalMsg(enc)
	vr.Assert("c40.roundtrip", err == nil && len(rem) == 0 && verifC40SameBundle(&w, &v))
	// an omitted (empty) slice comes back as nil
	vr.Assert("c40.roundtrip.empty-is-nil", (len(v.Votes) != 0 || w.Votes == nil) && (len(v.EquivocationVotes) != 0 || w.EquivocationVotes == nil))
	vr.Reach("done")
}
