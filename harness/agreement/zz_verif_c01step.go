//go:build verif

package agreement

import (
	vr "github.com/algorand/go-algorand/internal/verifrt"
)

// C01 one-step harnesses for the non-message events: thresholdEvent
// (soft / cert / next), timeoutEvent (timeout / fastTimeout),
// roundInterruptionEvent.  See zz_verif_c01.go for the oracle and the lemmas.

//verif:noop (*github.com/algorand/go-algorand/agreement.tracer).log
//verif:noop (github.com/algorand/go-algorand/data/basics.Address).String
//verif:noop (github.com/algorand/go-algorand/crypto.Digest).String
//verif:stub (github.com/algorand/go-algorand/agreement.step).nextVoteRanges = verifStubNextVoteRanges
//verif:stub (github.com/algorand/go-algorand/agreement.unauthenticatedProposal).value = verifStubProposalValue

// The threshold events handled in this step, in order: the top event (if it
// is one) followed by every freshest-bundle answer that enterRound re-handles.
func verifC01Handled(o *verifC01Oracle, top *thresholdEvent) []thresholdEvent {
	var hs []thresholdEvent
	if top != nil {
		hs = append(hs, *top)
	}
	for i := 0; i < o.n; i++ {
		q := &o.asks[i]
		if q.kind == vkFreshest && q.flag {
			hs = append(hs, q.thr)
		}
	}
	return hs
}

// C03 lemma + the Round part of S4, for steps whose ensureActions all come from
// handleThresholdEvent(certThreshold): the k-th ensureAction carries the bundle
// of the k-th handled threshold event, which is a cert threshold for round
// base+k whose value is the one the oracle reported as committable (with that
// very payload) for the event's (round, period); the player ends in round base+#ensure.
func verifC01AssertEnsure(tag string, o *verifC01Oracle, base round, hs []thresholdEvent, p *player, out []action) int {
	k := 0
	for _, act := range out {
		ea, ok := act.(ensureAction)
		if !ok {
			continue
		}
		vr.Reach("ensure")
		if k >= len(hs) {
			vr.Assert(tag+".ensure-has-threshold-event", false)
			k++
			continue
		}
		h := hs[k]
		c := ea.Certificate
		vr.Assert(tag+".ensure-from-cert-threshold", h.T == certThreshold)
		vr.Assert(tag+".cert-is-event-bundle", c.Round == h.Bundle.Round && c.Period == h.Bundle.Period && c.Step == h.Bundle.Step && c.Proposal == h.Bundle.Proposal &&
			len(c.Votes) == 1 && len(c.EquivocationVotes) == 0 && c.Votes[0].Sender[0] == h.Bundle.Votes[0].Sender[0])
		vr.Assert(tag+".cert-round-is-player-round", c.Round == base+round(k))
		vr.Assert(tag+".cert-step", c.Step == cert)
		vr.Assert(tag+".cert-not-bottom", c.Proposal != bottom)
		// the payload handed to the ledger is the one reported committable for (h.Round, h.Period) and is the certified value
		found := false
		for i := 0; i < o.n; i++ {
			q := &o.asks[i]
			if q.kind == vkStaged && q.flag && q.r == h.Round && q.p == h.Period && q.val == c.Proposal && q.marker == ea.Payload.SeedProof[0] {
				found = true
			}
		}
		vr.Assert(tag+".payload-is-committable-value", found)
		vr.Assert(tag+".payload-value-is-certified", verifStubProposalValue(ea.Payload.u()) == c.Proposal)
		k++
	}
	vr.Assert(tag+".round-advances-once-per-ensure", p.Round == base+round(k))
	return k
}

func verifC01ThresholdStep(kind eventType, freshestOk bool) {
	verifC01InstallConsensus()
	o := verifC01NewOracle()
	o.allowFreshestOk = freshestOk
	p := verifC01Player()
	pre := verifC01Pre{p.Round, p.Period, p.Step}
	o.preRound = pre.Round
	// precondition (playerContract.call, proposalManagerContract.pre): a threshold event is for the
	// player's round - voteAggregator.handle returns a threshold only if tE.Round == PlayerRound,
	// bundleFresh admits bundles of PlayerRound only, enterRound re-handles the freshest bundle of the new round.
	e := verifC01Threshold(o, kind, pre.Round, "ev")
	rh := verifC01RouterHandle(o)

	out := verifC01Step(p, rh, e)

	verifC01AssertAllVotes(o, p, out)
	nE := verifC01AssertEnsure("c01.S4", o, pre.Round, verifC01Handled(o, &e), p, out)

	// S4
	vr.Assert("c01.S4.round-monotone", p.Round >= pre.Round)
	if nE == 0 {
		want := pre.Period
		switch kind {
		case softThreshold, certThreshold:
			if e.Period > pre.Period {
				want = e.Period
			}
		case nextThreshold:
			if e.Period >= pre.Period {
				want = e.Period + 1
			}
		}
		vr.Assert("c01.S4.period-as-prescribed", p.Period == want)
		vr.Assert("c01.S4.period-monotone", p.Period >= pre.Period)
		if p.Period != pre.Period {
			vr.Reach("newperiod")
			vr.Assert("c01.S4.new-period-starts-at-soft", p.Step == soft && !p.Napping)
		} else {
			vr.Assert("c01.S4.step-unchanged", p.Step == pre.Step)
		}
	} else {
		vr.Assert("c01.S4.only-cert-threshold-ends-round", kind == certThreshold)
		// a new round starts in period 0; the pipelined freshest bundle of the new round is of
		// period 0, so at most a next threshold moves on to period 1
		vr.Assert("c01.S4.new-round-period", p.Period <= 1)
		vr.Assert("c01.S4.new-round-starts-at-soft", p.Step == soft && !p.Napping)
	}
	vr.Reach("done")
}

//verif:harness prop=C01 reach=done,attest,certvote,newperiod unwind=10 budget=200
func VerifC01ThresholdSoft() { verifC01ThresholdStep(softThreshold, true) }

//verif:harness prop=C01 reach=done,ensure,newperiod,attest unwind=10 budget=200
func VerifC01ThresholdCert() { verifC01ThresholdStep(certThreshold, true) }

//verif:harness prop=C01 reach=done,newperiod unwind=10 budget=200
func VerifC01ThresholdNext() { verifC01ThresholdStep(nextThreshold, true) }

func verifC01TimeoutEvent(t eventType, round round) timeoutEvent {
	var e timeoutEvent
	e.T = t
	e.RandomEntropy = vr.U64("ev.entropy")
	e.Round = round
	// the consensus version view attached by demux.next from Ledger.ConsensusVersion: a supported
	// version without error, or an error (and no version).  player.handle additionally tolerates an
	// empty version without error for ordinary timeouts; handleFastTimeout does not (it would divide
	// by FastRecoveryLambda == 0), and demux never produces it.
	nproto := 2
	if t == timeout {
		nproto = 3
	}
	switch vr.Choice("ev.proto", nproto) {
	case 0:
		e.Proto.Version = "vT"
	case 1:
		e.Proto.Err = makeSerErrStr("verif: no consensus version")
	}
	return e
}

func verifC01TimeoutStep(t eventType) {
	verifC01InstallConsensus()
	o := verifC01NewOracle()
	p := verifC01Player()
	// playerContract.call: timeouts are not delivered while napping before step next
	// (Napping is set only by a timeout in a step > cert)
	vr.Assume(!(p.Step < next && p.Napping))
	pre := verifC01Pre{p.Round, p.Period, p.Step}
	preNapping := p.Napping
	o.preRound = pre.Round
	e := verifC01TimeoutEvent(t, pre.Round)
	rh := verifC01RouterHandle(o)

	out := verifC01Step(p, rh, e)

	verifC01AssertAllVotes(o, p, out)
	// S4: timeouts never move round or period, never emit an ensureAction, and never decrease the step
	vr.Assert("c01.S4.timeout-keeps-round", p.Round == pre.Round)
	vr.Assert("c01.S4.timeout-keeps-period", p.Period == pre.Period)
	vr.Assert("c01.S4.timeout-no-ensure", verifC01CountEnsure(out) == 0)
	vr.Assert("c01.S4.step-monotone", p.Step >= pre.Step)
	// S5 (step part): the step a vote is labelled with
	nAttest := 0
	for _, act := range out {
		pa, ok := act.(pseudonodeAction)
		if !ok || pa.T != attest {
			continue
		}
		nAttest++
		if t == fastTimeout {
			vr.Assert("c01.S5.fast-vote-step", pa.Step == late || pa.Step == redo || pa.Step == down)
			vr.Assert("c01.S5.fast-timeout-keeps-step", p.Step == pre.Step)
		} else if pre.Step == soft {
			vr.Reach("softtimeout")
			vr.Assert("c01.S5.soft-timeout-votes-soft", pa.Step == soft)
		} else {
			vr.Assert("c01.S5.next-vote-step-is-player-step", pa.Step == p.Step && pa.Step >= next)
		}
	}
	vr.Assert("c01.S5.at-most-one-vote-per-timeout", nAttest <= 1)
	if t == timeout {
		// the step always advances past a step in which a vote was (or could have been) cast,
		// so a second timeout cannot vote again in the same (round, period, step)
		if pre.Step == soft || pre.Step == cert {
			vr.Assert("c01.S5.timeout-advances-step", p.Step == pre.Step+1)
		} else if preNapping {
			vr.Assert("c01.S5.napping-timeout-votes", nAttest == 1 && p.Step == pre.Step && !p.Napping)
		} else {
			vr.Assert("c01.S5.timeout-advances-step", p.Step == pre.Step+1 && p.Napping && nAttest == 0)
		}
	}
	vr.Reach("done")
}

//verif:harness prop=C01 reach=done,attest,softvote,nextvote,softtimeout unwind=10 budget=200
func VerifC01Timeout() { verifC01TimeoutStep(timeout) }

//verif:harness prop=C01 reach=done,attest,nextvote unwind=10 budget=200
func VerifC01FastTimeout() { verifC01TimeoutStep(fastTimeout) }

//verif:harness prop=C01 reach=done,ensure,attest unwind=10 budget=200
func VerifC01RoundInterruption() {
	verifC01InstallConsensus()
	o := verifC01NewOracle()
	o.allowFreshestOk = true
	p := verifC01Player()
	pre := verifC01Pre{p.Round, p.Period, p.Step}
	o.preRound = pre.Round
	var e roundInterruptionEvent
	e.Round = round(vr.U64("ev.round"))
	e.Proto.Version = "vT"
	// playerContract.call: "stale round interruption event delivered: e.Round <= pold.Round" is a
	// precondition violation (service.mainLoop / demux deliver it for Ledger.NextRound() > player round)
	vr.Assume(e.Round > pre.Round && e.Round < 1<<62)
	rh := verifC01RouterHandle(o)

	out := verifC01Step(p, rh, e)

	verifC01AssertAllVotes(o, p, out)
	verifC01AssertEnsure("c01.S4", o, e.Round, verifC01Handled(o, nil), p, out)
	vr.Assert("c01.S4.round-increases", p.Round > pre.Round)
	vr.Assert("c01.S4.new-round-period", p.Period <= 1)
	vr.Assert("c01.S4.new-round-starts-at-soft", p.Step == soft && !p.Napping)
	vr.Reach("done")
}
