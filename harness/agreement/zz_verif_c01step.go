//go:build verif

package agreement

import (
	vr "github.com/algorand/go-algorand/internal/verifrt"
)

// C01 one-step harnesses for the non-message events: thresholdEvent
// (soft / cert / next), timeoutEvent (timeout / fastTimeout),
// roundInterruptionEvent.  See zz_verif_c01.go for the oracle and the lemmas.

//verif:noop (*github.com/algorand/go-algorand/agreement.tracer).log
//verif:noop (github.com/algorand/go-algorand/data/basics.Address).String
//verif:noop (github.com/algorand/go-algorand/crypto.Digest).String
//verif:stub (github.com/algorand/go-algorand/agreement.step).nextVoteRanges = verifStubNextVoteRanges
//verif:stub (github.com/algorand/go-algorand/agreement.unauthenticatedProposal).value = verifStubProposalValue

func verifC01ThresholdStep(kind eventType, freshestBudget int) {
	verifC01InstallConsensus()
	o := verifC01NewOracle()
	o.freshestBudget = freshestBudget
	verifC01ThoroughOptions(o)
	p := verifC01Player()
	pre := verifC01Pre{p.Round, p.Period, p.Step}
	o.preRound = pre.Round
	// precondition (playerContract.call, proposalManagerContract.pre): a threshold event is for the
	// player's round - voteAggregator.handle returns a threshold only if tE.Round == PlayerRound,
	// bundleFresh admits bundles of PlayerRound only, enterRound re-handles the freshest bundle of the new round.
	e := verifC01Threshold(o, kind, pre.Round, "ev")
	rh := verifC01RouterHandle(o)

	out := verifC01Step(p, rh, e)

	verifC01AssertAllVotes(o, p, out)
	nE := verifC01AssertEnsure("c01.S4", o, pre.Round, verifC01EnsureSources(o, &e), nil, p, out)
	verifC01AssertS4(pre, &e, nE, p)
	vr.Assert("c01.S4.only-cert-threshold-ends-round", nE == 0 || kind == certThreshold)
	vr.Reach("done")
}

//verif:harness prop=C01 reach=done,attest,certvote,newperiod unwind=10 budget=200 thorough.budget=2400
func VerifC01ThresholdSoft() { verifC01ThresholdStep(softThreshold, vr.Param(1, 3)) }

//verif:harness prop=C01 reach=done,ensure,newperiod,attest unwind=10 budget=200 thorough.budget=2400
func VerifC01ThresholdCert() { verifC01ThresholdStep(certThreshold, vr.Param(1, 3)) }

//verif:harness prop=C01 reach=done,newperiod unwind=10 budget=200 thorough.budget=2400
func VerifC01ThresholdNext() { verifC01ThresholdStep(nextThreshold, vr.Param(1, 3)) }

func verifC01TimeoutStep(t eventType) {
	verifC01InstallConsensus()
	o := verifC01NewOracle()
	p := verifC01Player()
	// playerContract.call: timeouts are not delivered while napping before step next
	// (Napping is set only by a timeout in a step > cert)
	vr.Assume(!(p.Step < next && p.Napping))
	pre := verifC01Pre{p.Round, p.Period, p.Step}
	preNapping := p.Napping
	o.preRound = pre.Round
	e := verifC01TimeoutEvent(t, pre.Round)
	rh := verifC01RouterHandle(o)

	out := verifC01Step(p, rh, e)

	verifC01AssertAllVotes(o, p, out)
	// S4: timeouts never move round or period, never emit an ensureAction, and never decrease the step
	vr.Assert("c01.S4.timeout-keeps-round", p.Round == pre.Round)
	vr.Assert("c01.S4.timeout-keeps-period", p.Period == pre.Period)
	vr.Assert("c01.S4.timeout-no-ensure", verifC01CountEnsure(out) == 0)
	vr.Assert("c01.S4.step-monotone", p.Step >= pre.Step)
	// S5 (step part): the step a vote is labelled with
	nAttest := 0
	for _, act := range out {
		pa, ok := act.(pseudonodeAction)
		if !ok || pa.T != attest {
			continue
		}
		nAttest++
		if t == fastTimeout {
			vr.Assert("c01.S5.fast-vote-step", pa.Step == late || pa.Step == redo || pa.Step == down)
			vr.Assert("c01.S5.fast-timeout-keeps-step", p.Step == pre.Step)
		} else if pre.Step == soft {
			vr.Reach("softtimeout")
			vr.Assert("c01.S5.soft-timeout-votes-soft", pa.Step == soft)
		} else {
			vr.Assert("c01.S5.next-vote-step-is-player-step", pa.Step == p.Step && pa.Step >= next)
		}
	}
	vr.Assert("c01.S5.at-most-one-vote-per-timeout", nAttest <= 1)
	if t == timeout {
		// the step always advances past a step in which a vote was (or could have been) cast,
		// so a second timeout cannot vote again in the same (round, period, step)
		if pre.Step == soft || pre.Step == cert {
			vr.Assert("c01.S5.timeout-advances-step", p.Step == pre.Step+1)
		} else if preNapping {
			vr.Assert("c01.S5.napping-timeout-votes", nAttest == 1 && p.Step == pre.Step && !p.Napping)
		} else {
			vr.Assert("c01.S5.timeout-advances-step", p.Step == pre.Step+1 && p.Napping && nAttest == 0)
		}
	}
	vr.Reach("done")
}

//verif:harness prop=C01 reach=done,attest,softvote,nextvote,softtimeout unwind=10 budget=200 thorough.budget=2400
func VerifC01Timeout() { verifC01TimeoutStep(timeout) }

//verif:harness prop=C01 reach=done,attest,nextvote unwind=10 budget=200 thorough.budget=2400
func VerifC01FastTimeout() { verifC01TimeoutStep(fastTimeout) }

//verif:harness prop=C01 reach=done,ensure,attest unwind=10 budget=200 thorough.budget=2400
func VerifC01RoundInterruption() {
	verifC01InstallConsensus()
	o := verifC01NewOracle()
	o.freshestBudget = 3 // enterRound re-handles the pipelined freshest bundle, which may end the next round too
	o.allowPipelined = true
	o.allowLowest = true
	p := verifC01Player()
	pre := verifC01Pre{p.Round, p.Period, p.Step}
	o.preRound = pre.Round
	var e roundInterruptionEvent
	e.Round = round(vr.U64("ev.round"))
	e.Proto.Version = "vT"
	// playerContract.call: "stale round interruption event delivered: e.Round <= pold.Round" is a
	// precondition violation (service.mainLoop / demux deliver it for Ledger.NextRound() > player round)
	vr.Assume(e.Round > pre.Round && e.Round < 1<<62)
	rh := verifC01RouterHandle(o)

	out := verifC01Step(p, rh, e)

	verifC01AssertAllVotes(o, p, out)
	verifC01AssertEnsure("c01.S4", o, e.Round, verifC01EnsureSources(o, nil), nil, p, out)
	vr.Assert("c01.S4.round-increases", p.Round > pre.Round)
	vr.Assert("c01.S4.new-round-period", p.Period <= 1)
	vr.Assert("c01.S4.new-round-starts-at-soft", p.Step == soft && !p.Napping)
	vr.Reach("done")
}
