//go:build verif

package agreement

import (
	"github.com/algorand/go-algorand/data/basics"
	"github.com/algorand/go-algorand/logging"
)

// Representative sender addresses: the code under test only compares
// addresses for equality, orders them (bundle packing) and uses them as map keys.
func verifSender(i int) basics.Address {
	var a basics.Address
	a[0] = byte(i + 1)
	return a
}

func verifRouterHandle() routerHandle {
	return routerHandle{t: &tracer{log: serviceLogger{logging.Base()}}, src: voteMachineStep}
}
