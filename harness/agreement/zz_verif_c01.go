//go:build verif

package agreement

import (
	"runtime"
	"strings"
	"time"

	"github.com/algorand/go-algorand/config"
	vr "github.com/algorand/go-algorand/internal/verifrt"
)

// C01 (lemma level): the local obligations S1..S5 of the BA* safety argument,
// decided on ONE step of the real player.handle from an ARBITRARY player state,
// with every sub-machine (proposalManager/Store/Tracker, voteAggregator/
// TrackerRound/TrackerPeriod/Tracker) replaced by a nondeterministic oracle
// router that answers every request with an arbitrary event of the type the
// real machine answers with.  The oracle records (a) what it was asked, with
// the player state it was asked in, and (b) what it answered; the lemmas are
// assertions over (pre-state, event, oracle log, emitted actions, post-state).
//
// Paper composition (outside the claim): S1 says a node cert-votes v in
// (r,p) only for a value staged by a soft quorum of (r,p) (C06: one soft
// threshold per period, for one value); S2/S3 say a node that moves to p+1
// carries the value named by p's next quorum (or bottom if the quorum is for
// bottom), so by quorum intersection a value with a cert quorum in p is the
// only value that can be soft/next-voted later; S4/S5 say votes are labelled
// with the node's monotone position.  Together: two cert quorums of one round
// are for one value.
//
// Representative proposal values: index 0 = bottom, 1.. = distinct values (one
// digest byte differs) each with a symbolic OriginalPeriod (re-proposal logic).

const verifC01Values = 3

type verifC01Kind int

const (
	vkPMThreshold verifC01Kind = iota // soft/cert/next threshold delivered to proposalMachine
	vkPMNewRound                      // roundInterruption delivered to proposalMachine
	vkPMMessage                       // filterable message delivered to proposalMachine
	vkStaged                          // readStaging
	vkPinned                          // readPinned
	vkLowest                          // readLowestVote
	vkFrozen                          // proposalFrozen
	vkVMMessage                       // filterable message delivered to voteMachine
	vkFreshest                        // freshestBundleRequest
	vkNextStatus                      // nextThresholdStatusRequest
	vkDumpVotes                       // dumpVotesRequest
)

// one oracle consultation
type verifC01Ask struct {
	kind verifC01Kind
	// player state the request was made in
	stRound  round
	stPeriod period
	stStep   step
	// routing key
	r round
	p period
	s step
	// request payload (threshold events delivered to the proposal machine)
	evT      eventType
	evRound  round
	evPeriod period
	evVal    proposalValue
	// answer
	ansT   eventType     // type of the answer event
	val    proposalValue // value named by the answer (committable / staged / frozen / next-status / pinned)
	flag   bool          // Committable / PayloadOK / Bottom / Ok
	marker byte          // payload identity handed out with the answer
	thr    thresholdEvent
}

const verifC01MaxAsks = 32

type verifC01Oracle struct {
	ops  [verifC01Values]period // OriginalPeriod of the representative values
	asks [verifC01MaxAsks]verifC01Ask
	n    int

	preRound round // player round before the step (freshest-bundle contract)

	// which answers the harness allows (to split the answer space between harnesses)
	freshestBudget  int       // how many freshest-bundle requests may be answered Ok
	allowPipelined  bool      // newRound may report a pipelined payload
	allowLowest     bool      // readLowestVote may report a vote
	noPinnedPayload bool      // readPinned never reports a payload (only relays depend on it)
	stable          bool      // stability contracts across steps (C02), see assumeStagingStable
	onlyKind        eventType // if != none: every threshold event the oracle hands out is of this kind
}

var verifC01 *verifC01Oracle

func verifC01Val(o *verifC01Oracle, i int) proposalValue {
	var v proposalValue
	v.BlockDigest[0] = byte(i)
	v.OriginalPeriod = o.ops[i]
	return v
}

// a symbolic index < n (no case split: used to index tables / build values)
func verifC01Pick(label string, n int) int {
	x := int(vr.U8(label))
	vr.Assume(x < n)
	return x
}

func verifC01PickVal(o *verifC01Oracle, label string) proposalValue {
	return verifC01Val(o, verifC01Pick(label, verifC01Values))
}

// a payload whose value() is v (see verifStubProposalValue): identified by SeedProof[0]
func verifC01Payload(v proposalValue) proposal {
	var p proposal
	p.SeedProof[0] = v.BlockDigest[0]
	p.OriginalPeriod = v.OriginalPeriod
	p.OriginalProposer = v.OriginalProposer
	return p
}

// Idealised (injective) hashing of payloads: the digest is the marker byte.
func verifStubProposalValue(p unauthenticatedProposal) proposalValue {
	var v proposalValue
	v.OriginalPeriod = p.OriginalPeriod
	v.OriginalProposer = p.OriginalProposer
	v.BlockDigest[0] = p.SeedProof[0]
	return v
}

// The timing arithmetic (exponentially growing recovery windows) is outside
// S1..S5; the loop over a symbolic step is replaced by an arbitrary window.
func verifStubNextVoteRanges(s step, deadlineTimeout time.Duration) (lower, upper time.Duration) {
	lower = time.Duration(vr.I64("nvr.lower"))
	width := time.Duration(vr.I64("nvr.width"))
	vr.Assume(lower >= 0 && lower < 1<<50 && width > 0 && width < 1<<50)
	return lower, lower + width
}

func verifC01NewOracle() *verifC01Oracle {
	o := &verifC01Oracle{}
	o.ops[1] = period(vr.U64("op1"))
	o.ops[2] = period(vr.U64("op2"))
	verifC01 = o
	return o
}

// the answer sub-spaces that the quick tier leaves to dedicated harnesses
// (VerifC01RoundInterruption, VerifC03CertThreshold) are opened everywhere in the thorough tier
func verifC01ThoroughOptions(o *verifC01Oracle) {
	if vr.Param(0, 1) == 1 {
		o.allowPipelined = true
		o.allowLowest = true
	}
}

func verifC01InstallConsensus() {
	var cp config.ConsensusParams
	// a power of two (~4.6 min): handleFastTimeout's k*lambda / (k+1)*lambda window arithmetic is then
	// shifts for the bit-vector solver; timing is outside the lemmas
	cp.FastRecoveryLambda = 1 << 38
	cp.AgreementFilterTimeout = 4 * time.Second
	cp.AgreementFilterTimeoutPeriod0 = 4 * time.Second
	cp.AgreementDeadlineTimeoutPeriod0 = 17 * time.Second
	cp.DynamicFilterTimeout = vr.Bool("dynamicfilter")
	config.Consensus = config.ConsensusProtocols{"vT": cp}
}

// An arbitrary player.  Representation invariants assumed:
//   - Step >= soft: enterRound/enterPeriod set soft, timeouts only increment
//     (playerContract: "event delivered but pold.Step = propose" is a precondition violation);
//   - Step <= 60: every timeout past `next` doubles the deadline (nextVoteRanges), so
//     larger steps are ~2^57 * 2s away; this also keeps Step below the vote-only steps late/redo/down;
//   - Round, Period far from wrap-around (block heights / per-round counters).
func verifC01Player() *player {
	p := &player{}
	p.Round = round(vr.U64("p.round"))
	p.Period = period(vr.U64("p.period"))
	p.Step = step(vr.U64("p.step"))
	p.LastConcluding = step(vr.U64("p.lastconcluding"))
	p.Napping = vr.Bool("p.napping")
	p.FastRecoveryDeadline = time.Duration(vr.I64("p.frd"))
	p.Deadline = Deadline{Duration: time.Duration(vr.I64("p.deadline")), Type: TimeoutType(vr.U8("p.deadlinetype"))}
	vr.Assume(p.Round < 1<<62)
	vr.Assume(p.Period < 1<<62)
	vr.Assume(p.Step >= soft)
	vr.Assume(p.Step <= 60)
	vr.Assume(p.FastRecoveryDeadline >= 0)
	vr.Assume(p.FastRecoveryDeadline < 1<<50)
	p.lowestCredentialArrivals = makeCredentialArrivalHistory(dynamicFilterCredentialArrivalHistory)
	return p
}

// Whether the staging value of (r, p) has an assembled payload does not change
// within a step unless a payloadVerified message is delivered (which the player
// delivers first): proposalStore.handle answers a soft/cert threshold for (r, p)
// with proposalCommittable iff Assemblers[staging].Assembled, and readStaging
// reports Committable = Assemblers[staging].Assembled, for the same staging
// value (set by the threshold, proposalTracker.handle).
func (o *verifC01Oracle) assumeCommittableStable(r round, p period, committable bool) {
	from := 0
	for i := 0; i < o.n; i++ {
		if o.asks[i].kind == vkPMMessage {
			from = i + 1 // a delivered payload may have completed an assembler
		}
	}
	for i := from; i < o.n; i++ {
		q := &o.asks[i]
		switch q.kind {
		case vkPMThreshold:
			if q.evT != nextThreshold {
				vr.Assume(!(q.evRound == r && q.evPeriod == p) || committable == (q.ansT == proposalCommittable))
			}
		case vkStaged:
			vr.Assume(!(q.r == r && q.p == p) || committable == q.flag)
		}
	}
}

// Stability contract used by C02 (DESIGN: "staged value of a period ... does not
// change once reported"): the staging value of (r, p), once non-bottom, is the
// same in every later report - readStaging, the value staged by a soft/cert
// threshold of (r, p) (proposalTracker.handle: Staging = e.Proposal), the value
// a payloadVerified is committable against.  The tracker itself would overwrite
// Staging on a second threshold for another value; that this does not happen is
// C06 (one threshold per step, one value) - a stated stub contract here.
func (o *verifC01Oracle) assumeStagingStable(r round, p period, val proposalValue) {
	for i := 0; i < o.n; i++ {
		q := &o.asks[i]
		switch q.kind {
		case vkStaged:
			vr.Assume(!(q.r == r && q.p == p && q.val != bottom && val != bottom) || q.val == val)
		case vkPMThreshold:
			if q.evT != nextThreshold {
				vr.Assume(!(q.evRound == r && q.evPeriod == p && val != bottom) || q.evVal == val)
			}
		case vkPMMessage:
			if q.ansT == proposalCommittable {
				vr.Assume(!(q.stRound == r && q.stPeriod == p && val != bottom) || q.val == val)
			}
		}
	}
}

func (o *verifC01Oracle) record(a verifC01Ask) *verifC01Ask {
	if o.n >= verifC01MaxAsks {
		// more consultations than the log holds would silently drop evidence
		vr.Assert("c01.oracle.log-overflow", false)
		return &o.asks[verifC01MaxAsks-1]
	}
	o.asks[o.n] = a
	o.n++
	return &o.asks[o.n-1]
}

// a threshold event as the vote machines produce it (C06 c06.event-kind,
// c06.bundle.header): step matches the kind, the bundle header repeats the
// event's (round, period, step, proposal); soft/cert quorums are never for
// bottom (C04: soft/cert votes for bottom do not verify).
func verifC01Threshold(o *verifC01Oracle, t eventType, r round, label string) thresholdEvent {
	var e thresholdEvent
	e.T = t
	e.Round = r
	e.Period = period(vr.U64(label + ".period"))
	vr.Assume(e.Period < 1<<62)
	e.Proposal = verifC01PickVal(o, label+".value")
	switch t {
	case softThreshold:
		e.Step = soft
		vr.Assume(e.Proposal != bottom)
	case certThreshold:
		e.Step = cert
		vr.Assume(e.Proposal != bottom)
	default:
		e.Step = step(vr.U64(label + ".step"))
		vr.Assume(e.Step >= next)
	}
	e.Proto = "vT"
	e.Bundle.Round, e.Bundle.Period, e.Bundle.Step, e.Bundle.Proposal = e.Round, e.Period, e.Step, e.Proposal
	// two opaque bundle bytes so that "which bundle" is observable
	e.Bundle.Votes = []voteAuthenticator{{}}
	e.Bundle.Votes[0].Sender[0] = vr.U8(label + ".bundletag")
	return e
}

func verifC01ThresholdKind(o *verifC01Oracle, label string) eventType {
	if o.onlyKind != none {
		return o.onlyKind
	}
	switch vr.Choice(label, 3) {
	case 0:
		return softThreshold
	case 1:
		return certThreshold
	}
	return nextThreshold
}

func (o *verifC01Oracle) dispatch(t *tracer, state player, e event, src stateMachineTag, dest stateMachineTag, r round, p period, s step) event {
	a := verifC01Ask{stRound: state.Round, stPeriod: state.Period, stStep: state.Step, r: r, p: p, s: s}
	switch dest {
	case proposalMachine:
		switch ev := e.(type) {
		case thresholdEvent:
			a.kind = vkPMThreshold
			a.evT, a.evRound, a.evPeriod, a.evVal = ev.T, ev.Round, ev.Period, ev.Proposal
			if ev.T == nextThreshold {
				// proposalManager.handle: nextThreshold -> emptyEvent
				a.ansT = none
				o.record(a)
				return emptyEvent{}
			}
			// proposalStore.handle(soft/certThreshold): committableEvent iff the staged value's
			// payload is assembled, else proposalAcceptedEvent.  Assemblers[bottom] never exists
			// (proposalStore.trim deletes it), so a committable value is never bottom.
			committable := vr.Bool("pm.thr.committable")
			o.assumeCommittableStable(ev.Round, ev.Period, committable)
			if o.stable {
				o.assumeStagingStable(ev.Round, ev.Period, ev.Proposal)
			}
			if committable {
				a.ansT = proposalCommittable
				a.val = verifC01PickVal(o, "pm.thr.value")
				vr.Assume(a.val != bottom)
				if o.stable {
					// proposalTracker stages e.Proposal, proposalStore answers committableEvent{Proposal: e.Proposal}
					vr.Assume(a.val == ev.Proposal)
				}
				o.record(a)
				return committableEvent{Proposal: a.val}
			}
			a.ansT = proposalAccepted
			a.val = verifC01PickVal(o, "pm.thr.value")
			o.record(a)
			return proposalAcceptedEvent{Round: ev.Round, Period: ev.Period, Proposal: a.val}
		case roundInterruptionEvent:
			a.kind = vkPMNewRound
			a.evRound = ev.Round
			// proposalStore.handle(newRound): payloadPipelined for a pipelined payload, else empty
			if o.allowPipelined && vr.Bool("pm.newround.pipelined") {
				a.ansT = payloadPipelined
				a.val = verifC01PickVal(o, "pm.newround.value")
				o.record(a)
				pp := verifC01Payload(a.val)
				return payloadProcessedEvent{T: payloadPipelined, Round: 0, Period: period(vr.U64("pm.newround.period")), Pinned: vr.Bool("pm.newround.pinned"), Proposal: a.val, UnauthenticatedPayload: pp.u()}
			}
			a.ansT = none
			o.record(a)
			return emptyEvent{}
		case filterableMessageEvent:
			a.kind = vkPMMessage
			return o.proposalMessage(a, state, ev)
		}
	case proposalMachineRound:
		switch ev := e.(type) {
		case stagingValueEvent:
			a.kind = vkStaged
			a.ansT = readStaging
			a.val = verifC01PickVal(o, "staged.value")
			a.flag = vr.Bool("staged.committable")
			// proposalStore.handle(readStaging): Committable = Assemblers[staged].Assembled,
			// Assemblers[bottom] does not exist; an assembler holds a payload whose value() is its key
			vr.Assume(!a.flag || a.val != bottom)
			o.assumeCommittableStable(ev.Round, ev.Period, a.flag)
			if o.stable {
				o.assumeStagingStable(ev.Round, ev.Period, a.val)
			}
			// proposalTracker.handle(soft/certThreshold) sets Staging = e.Proposal: once a soft/cert
			// threshold e was delivered to the proposal machine in this step, the staging value of
			// (e.Round, e.Period) is e.Proposal.
			for i := 0; i < o.n; i++ {
				q := &o.asks[i]
				if q.kind == vkPMThreshold && q.evT != nextThreshold {
					vr.Assume(!(q.evRound == ev.Round && q.evPeriod == ev.Period) || a.val == q.evVal)
				}
			}
			a.marker = a.val.BlockDigest[0]
			o.record(a)
			ev.Proposal = a.val
			ev.Committable = a.flag
			if a.flag {
				ev.Payload = verifC01Payload(a.val)
			}
			return ev
		case pinnedValueEvent:
			a.kind = vkPinned
			a.ansT = readPinned
			a.val = verifC01PickVal(o, "pinned.value")
			a.flag = !o.noPinnedPayload && vr.Bool("pinned.payloadok")
			vr.Assume(!a.flag || a.val != bottom)
			o.record(a)
			ev.Proposal = a.val
			ev.PayloadOK = a.flag
			if a.flag {
				ev.Payload = verifC01Payload(a.val)
			}
			return ev
		case readLowestEvent:
			a.kind = vkLowest
			a.ansT = readLowestVote
			a.flag = o.allowLowest && vr.Bool("lowest.has")
			o.record(a)
			ev.HasLowestIncludingLate = a.flag
			ev.LowestIncludingLate.validatedAt = time.Duration(vr.I64("lowest.validatedat"))
			return ev
		}
	case proposalMachinePeriod:
		switch ev := e.(type) {
		case proposalFrozenEvent:
			a.kind = vkFrozen
			a.ansT = proposalFrozen
			a.val = verifC01PickVal(o, "frozen.value")
			if o.stable {
				// proposalSeeker.freeze: Lowest is no longer modified once frozen
				for i := 0; i < o.n; i++ {
					q := &o.asks[i]
					if q.kind == vkFrozen {
						vr.Assume(!(q.r == r && q.p == p) || q.val == a.val)
					}
				}
			}
			o.record(a)
			ev.Proposal = a.val
			return ev
		}
	case voteMachine:
		switch ev := e.(type) {
		case filterableMessageEvent:
			a.kind = vkVMMessage
			return o.voteMessage(a, state, ev)
		}
	case voteMachineRound:
		switch e.(type) {
		case freshestBundleRequestEvent:
			a.kind = vkFreshest
			a.ansT = freshestBundle
			a.flag = false
			if o.freshestBudget > 0 && vr.Bool("freshest.ok") {
				a.flag = true
				o.freshestBudget--
			}
			if !a.flag {
				o.record(a)
				return freshestBundleEvent{}
			}
			// voteTrackerRound of round r stores only threshold events of round r (votes are routed by
			// their own round; C06 c06.event-kind).  voteAggregator admits votes of PlayerRound and of
			// PlayerRound+1 period 0 only (voteFresh), bundles of PlayerRound only (bundleFresh), and the
			// player's round never decreases: no round beyond preRound+1 has seen a vote, and round
			// preRound+1 has seen period-0 votes only.
			vr.Assume(r <= o.preRound+1)
			a.thr = verifC01Threshold(o, verifC01ThresholdKind(o, "freshest.kind"), r, "freshest")
			vr.Assume(r <= o.preRound || a.thr.Period == 0)
			a.val = a.thr.Proposal
			o.record(a)
			return freshestBundleEvent{Ok: true, Event: a.thr}
		}
	case voteMachinePeriod:
		switch e.(type) {
		case nextThresholdStatusRequestEvent:
			a.kind = vkNextStatus
			a.ansT = nextThresholdStatus
			a.flag = vr.Bool("nextstatus.bottom")
			a.val = verifC01PickVal(o, "nextstatus.value")
			// The player asks for period p.Period-1 also when p.Period == 0; that tracker (period
			// 2^64-1) never saw a vote (voteFresh admits periods <= PlayerPeriod+1 only): zero status.
			if p >= 1<<62 {
				vr.Assume(!a.flag && a.val == bottom)
			}
			if o.stable {
				// stated contract (DESIGN C02): a period's next-threshold status, once reported,
				// only grows (voteTrackerPeriod.Cached; a second next-value quorum for another
				// value would need two quorums of one period for different values)
				for i := 0; i < o.n; i++ {
					q := &o.asks[i]
					if q.kind == vkNextStatus {
						same := q.r == r && q.p == p
						vr.Assume(!(same && q.val != bottom) || q.val == a.val)
						vr.Assume(!(same && q.flag) || a.flag)
					}
				}
			}
			o.record(a)
			return nextThresholdStatusEvent{Bottom: a.flag, Proposal: a.val}
		}
	case voteMachineStep:
		switch e.(type) {
		case dumpVotesRequestEvent:
			a.kind = vkDumpVotes
			a.ansT = dumpVotes
			o.record(a)
			var d dumpVotesEvent
			d.Votes = make([]unauthenticatedVote, 1)
			d.Votes[0].R.Round, d.Votes[0].R.Period, d.Votes[0].R.Step = r, p, s
			return d
		}
	}
	// the player asked something no sub-machine answers
	vr.Assert("c01.oracle.unexpected-request", false)
	return emptyEvent{}
}

var verifC01Err = makeSerErrStr("verif: oracle says no")

// proposalManager.handleMessageEvent, as seen by the player
func (o *verifC01Oracle) proposalMessage(a verifC01Ask, state player, ev filterableMessageEvent) event {
	switch ev.t() {
	case votePresent:
		// voteFiltered (possibly "still verify it for credential tracking") or empty
		if vr.Bool("pm.votepresent.filtered") {
			a.ansT = voteFiltered
			o.record(a)
			note := NoLateCredentialTrackingImpact
			if vr.Bool("pm.votepresent.note") {
				note = UnverifiedLateCredentialForTracking
			}
			return filteredEvent{T: voteFiltered, Err: verifC01Err, LateCredentialTrackingNote: note}
		}
		a.ansT = none
		o.record(a)
		return emptyEvent{}
	case voteVerified:
		// voteMalformed, voteFiltered (note is No.. or VerifiedBetter.. only: proposalSeeker.accept,
		// proposalManager.handleMessageEvent normalises anything else), or proposalAccepted
		switch vr.Choice("pm.voteverified", 3) {
		case 0:
			a.ansT = voteMalformed
			o.record(a)
			return filteredEvent{T: voteMalformed, Err: verifC01Err}
		case 1:
			a.ansT = voteFiltered
			o.record(a)
			note := NoLateCredentialTrackingImpact
			if vr.Bool("pm.voteverified.note") {
				note = VerifiedBetterLateCredentialForTracking
			}
			return filteredEvent{T: voteFiltered, Err: verifC01Err, LateCredentialTrackingNote: note}
		}
		a.ansT = proposalAccepted
		a.val = verifC01PickVal(o, "pm.voteverified.value")
		a.flag = vr.Bool("pm.voteverified.payloadok")
		vr.Assume(!a.flag || a.val != bottom)
		o.record(a)
		pa := proposalAcceptedEvent{Round: ev.Input.Vote.R.Round, Period: ev.Input.Vote.R.Period, Proposal: a.val, PayloadOk: a.flag}
		if a.flag {
			pa.Payload = verifC01Payload(a.val)
		}
		return pa
	case payloadPresent:
		// payloadRejected, or payloadPipelined for the player's round or the next one
		if vr.Bool("pm.payloadpresent.rejected") {
			a.ansT = payloadRejected
			o.record(a)
			return payloadProcessedEvent{T: payloadRejected, Err: verifC01Err}
		}
		a.ansT = payloadPipelined
		a.val = verifStubProposalValue(ev.Input.UnauthenticatedProposal)
		o.record(a)
		pe := payloadProcessedEvent{T: payloadPipelined, Round: state.Round, Period: period(vr.U64("pm.payloadpresent.period")), Pinned: vr.Bool("pm.payloadpresent.pinned"), Proposal: a.val, UnauthenticatedPayload: ev.Input.UnauthenticatedProposal}
		if vr.Bool("pm.payloadpresent.nextround") {
			pe.Round = state.Round + 1
		}
		return pe
	case payloadVerified:
		// payloadMalformed, payloadRejected, or - for a payload some assembler waits for (never
		// bottom: proposalStore.trim deletes Assemblers[bottom]) - payloadAccepted /
		// proposalCommittable carrying the payload's own value (proposalStore.handle: pv := pp.value())
		switch vr.Choice("pm.payloadverified", 4) {
		case 0:
			a.ansT = payloadMalformed
			o.record(a)
			return filteredEvent{T: payloadMalformed, Err: verifC01Err}
		case 1:
			a.ansT = payloadRejected
			o.record(a)
			return payloadProcessedEvent{T: payloadRejected, Err: verifC01Err}
		case 2:
			a.ansT = payloadAccepted
			a.val = verifStubProposalValue(ev.Input.Proposal.u())
			vr.Assume(a.val != bottom)
			o.record(a)
			return payloadProcessedEvent{T: payloadAccepted, Proposal: a.val}
		}
		a.ansT = proposalCommittable
		a.val = verifStubProposalValue(ev.Input.Proposal.u())
		vr.Assume(a.val != bottom)
		if o.stable {
			// proposalStore.handle(payloadVerified): committable iff the payload's value is the
			// staging value of the player's (round, period)
			o.assumeStagingStable(state.Round, state.Period, a.val)
		}
		o.record(a)
		return committableEvent{Proposal: a.val}
	}
	vr.Assert("c01.oracle.unexpected-request", false)
	return emptyEvent{}
}

// voteAggregator.handle, as seen by the player
func (o *verifC01Oracle) voteMessage(a verifC01Ask, state player, ev filterableMessageEvent) event {
	switch ev.t() {
	case votePresent, bundlePresent:
		if vr.Bool("vm.present.filtered") {
			a.ansT = voteFiltered
			if ev.t() == bundlePresent {
				a.ansT = bundleFiltered
			}
			o.record(a)
			return filteredEvent{T: a.ansT, Err: verifC01Err}
		}
		a.ansT = none
		o.record(a)
		return emptyEvent{}
	case voteVerified, bundleVerified:
		malformed, filtered := voteMalformed, voteFiltered
		n := 4
		if ev.t() == bundleVerified {
			// a verified bundle either causes a threshold or is filtered
			malformed, filtered = bundleMalformed, bundleFiltered
			n = 3
		}
		switch vr.Choice("vm.verified", n) {
		case 0:
			a.ansT = malformed
			o.record(a)
			return filteredEvent{T: malformed, Err: verifC01Err}
		case 1:
			a.ansT = filtered
			o.record(a)
			return filteredEvent{T: filtered, Err: verifC01Err}
		case 3:
			a.ansT = none
			o.record(a)
			return emptyEvent{}
		}
		// a threshold event, always of the player's round: voteAggregator.handle returns tE only if
		// tE.Round == FreshnessData.PlayerRound (next-round thresholds stay pipelined in the
		// voteTrackerRound); bundleFresh admits bundles of PlayerRound only
		a.thr = verifC01Threshold(o, verifC01ThresholdKind(o, "vm.kind"), ev.FreshnessData.PlayerRound, "vm")
		a.ansT = a.thr.T
		a.val = a.thr.Proposal
		o.record(a)
		return a.thr
	}
	vr.Assert("c01.oracle.unexpected-request", false)
	return emptyEvent{}
}

func verifC01RouterHandle(o *verifC01Oracle) routerHandle {
	rh := verifRouterHandle()
	rh.r = o
	rh.src = playerMachine
	return rh
}

// verifC01Step runs the real player.handle once.  agreement's own logging
// Panicf guards are the code's statement of "outside the domain"; string /
// error panics raised by the code ("bad event") and runtime panics are violations.
func verifC01Step(p *player, rh routerHandle, e event) (out []action) {
	defer func() {
		if r := recover(); r != nil {
			if _, isRuntime := r.(runtime.Error); isRuntime {
				panic(r)
			}
			// (the engine's logging model panics with the string "log.Panicf"; natively logrus panics with an *Entry)
			if s, isString := r.(string); isString && !strings.HasPrefix(s, "log.") {
				panic(r)
			}
			vr.Assume(false)
		}
	}()
	return p.handle(rh, e)
}

// ---------------------------------------------------------------------------
// the lemmas, over (pre-state, top event, oracle log, actions, post-state)

type verifC01Pre struct {
	Round  round
	Period period
	Step   step
}

// S5: every attest carries the player's post-step (Round, Period).
// Exception made explicit: when the step crosses a round or period boundary
// AFTER emitting a vote this cannot happen (votes are emitted last) - asserted as stated.
func verifC01AssertS5(p *player, out []action) {
	for _, act := range out {
		pa, ok := act.(pseudonodeAction)
		if !ok {
			continue
		}
		if pa.T == attest {
			vr.Reach("attest")
			vr.Assert("c01.S5.attest-round", pa.Round == p.Round)
			vr.Assert("c01.S5.attest-period", pa.Period == p.Period)
			vr.Assert("c01.S5.attest-step-not-propose", pa.Step != propose)
		}
	}
}

// S1: a cert-step attest for v is backed by a proposalCommittable answer for
// v != bottom obtained for the vote's (round, period), and is cast at a step
// <= cert: either the answer was obtained in that very period at a step <=
// cert, or while entering the period (enterPeriod/enterRound: the new period
// starts at step soft).  No vote-emitting path changes Step after the cert
// vote, so "Step <= cert when voting" is also visible in the post-state.
func verifC01AssertS1(o *verifC01Oracle, p *player, out []action) {
	for _, act := range out {
		pa, ok := act.(pseudonodeAction)
		if !ok || pa.T != attest || pa.Step != cert {
			continue
		}
		vr.Reach("certvote")
		vr.Assert("c01.S1.cert-not-bottom", pa.Proposal != bottom)
		vr.Assert("c01.S1.cert-only-at-step-le-cert", p.Step <= cert)
		backed := false
		for i := 0; i < o.n; i++ {
			q := &o.asks[i]
			if q.ansT != proposalCommittable {
				continue
			}
			inPeriod := q.stRound == pa.Round && q.stPeriod == pa.Period
			switch q.kind {
			case vkPMThreshold:
				// the committable answer was for the soft threshold of (evRound, evPeriod)
				if q.evT == softThreshold && q.evRound == pa.Round && q.evPeriod == pa.Period && q.val == pa.Proposal && (!inPeriod || q.stStep <= cert) {
					backed = true
				}
			case vkPMMessage:
				// payloadVerified: committable w.r.t. the staging value of the player's (round, period)
				if inPeriod && q.val == pa.Proposal && q.stStep <= cert {
					backed = true
				}
			}
		}
		vr.Assert("c01.S1.cert-backed-by-committable", backed)
	}
}

// S2: soft votes.
func verifC01AssertS2(o *verifC01Oracle, out []action) {
	for _, act := range out {
		pa, ok := act.(pseudonodeAction)
		if !ok || pa.T != attest || pa.Step != soft {
			continue
		}
		vr.Reach("softvote")
		vr.Assert("c01.S2.soft-not-bottom", pa.Proposal != bottom)
		// the previous period's next-threshold status and this period's frozen value, as answered
		var ns, fz *verifC01Ask
		for i := 0; i < o.n; i++ {
			q := &o.asks[i]
			if q.kind == vkNextStatus && q.r == pa.Round && q.p == pa.Period-1 {
				ns = q
			}
			if q.kind == vkFrozen && q.r == pa.Round && q.p == pa.Period {
				fz = q
			}
		}
		vr.Assert("c01.S2.asked-next-status", ns != nil)
		vr.Assert("c01.S2.asked-frozen", fz != nil)
		if ns == nil || fz == nil {
			continue
		}
		if pa.Period > 0 && ns.val != bottom && !ns.flag {
			// a next quorum for a value and none for bottom: the starting value is mandatory
			vr.Assert("c01.S2.soft-is-next-value", pa.Proposal == ns.val)
		} else if pa.Period > 0 && ns.val != bottom {
			// both quorums seen: the starting value, or nothing else than it when re-proposed
			vr.Assert("c01.S2.soft-next-or-frozen", pa.Proposal == ns.val || pa.Proposal == fz.val)
			vr.Assert("c01.S2.reproposal-only-if-next-value", !(pa.Period > pa.Proposal.OriginalPeriod) || pa.Proposal == ns.val)
		} else {
			vr.Assert("c01.S2.soft-is-frozen", pa.Proposal == fz.val)
			// a re-proposal (value from an older period) needs a next quorum for it
			vr.Assert("c01.S2.reproposal-only-if-next-value", !(pa.Period > pa.Proposal.OriginalPeriod))
		}
	}
}

// S3: next / late / redo / down votes.
func verifC01AssertS3(o *verifC01Oracle, out []action) {
	for _, act := range out {
		pa, ok := act.(pseudonodeAction)
		if !ok || pa.T != attest || pa.Step < next {
			continue
		}
		vr.Reach("nextvote")
		staged, nextval := false, false
		for i := 0; i < o.n; i++ {
			q := &o.asks[i]
			if q.kind == vkStaged && q.r == pa.Round && q.p == pa.Period && q.flag && q.val == pa.Proposal {
				staged = true
			}
			if q.kind == vkNextStatus && pa.Period > 0 && q.r == pa.Round && q.p == pa.Period-1 && !q.flag && q.val == pa.Proposal {
				nextval = true
			}
		}
		if pa.Proposal != bottom {
			vr.Assert("c01.S3.value-is-staged-or-next", staged || nextval)
		}
		switch pa.Step {
		case down:
			vr.Assert("c01.S3.down-is-bottom", pa.Proposal == bottom)
		case late:
			vr.Assert("c01.S3.late-is-committable", pa.Proposal != bottom && staged)
		case redo:
			vr.Assert("c01.S3.redo-is-next-value", pa.Proposal != bottom && nextval)
		}
	}
}

func verifC01CountEnsure(out []action) int {
	n := 0
	for _, act := range out {
		if _, ok := act.(ensureAction); ok {
			n++
		}
	}
	return n
}

func verifC01AssertAllVotes(o *verifC01Oracle, p *player, out []action) {
	verifC01AssertS5(p, out)
	verifC01AssertS1(o, p, out)
	verifC01AssertS2(o, out)
	verifC01AssertS3(o, out)
}

// The threshold events that can give rise to an ensureAction in this step, in
// order: the top threshold event (the event itself, or the voteMachine's answer
// to a vote/bundleVerified message), then every freshest-bundle answer that is
// either re-handled by enterRound (the request directly follows the newRound
// delivery) or consulted by the late-payload path of handleMessageEvent (the
// request directly follows the proposalMachine's answer to the message).
// partitionPolicy's freshest-bundle requests follow neither and are only relayed.
func verifC01EnsureSources(o *verifC01Oracle, top *thresholdEvent) []thresholdEvent {
	var hs []thresholdEvent
	if top != nil {
		hs = append(hs, *top)
	}
	for i := 1; i < o.n; i++ {
		q := &o.asks[i]
		prev := o.asks[i-1].kind
		if q.kind == vkFreshest && q.flag && (prev == vkPMNewRound || prev == vkPMMessage) {
			hs = append(hs, q.thr)
		}
	}
	return hs
}

// the voteMachine's threshold answer to a verified vote/bundle, if any
func verifC01AnsweredThreshold(o *verifC01Oracle) *thresholdEvent {
	for i := 0; i < o.n; i++ {
		q := &o.asks[i]
		if q.kind == vkVMMessage && (q.ansT == softThreshold || q.ansT == certThreshold || q.ansT == nextThreshold) {
			return &q.thr
		}
	}
	return nil
}

// C03 lemma + the Round part of S4.  The k-th ensureAction carries the bundle
// of the k-th ensure source, which is a cert threshold for round base+k; the
// payload handed to the ledger is the one the oracle reported committable
// (with that very payload) for the event's (round, period) - or, on the
// late-payload path (late != nil, k == 0), the verified payload of the message
// itself, accepted by the proposal machine - and its value is the certified
// value.  The player ends in round base + #ensureActions.
func verifC01AssertEnsure(tag string, o *verifC01Oracle, base round, hs []thresholdEvent, late *messageEvent, p *player, out []action) int {
	k := 0
	for _, act := range out {
		ea, ok := act.(ensureAction)
		if !ok {
			continue
		}
		vr.Reach("ensure")
		if k >= len(hs) {
			vr.Assert(tag+".ensure-has-cert-threshold", false)
			k++
			continue
		}
		h := hs[k]
		c := ea.Certificate
		vr.Assert(tag+".ensure-from-cert-threshold", h.T == certThreshold)
		vr.Assert(tag+".cert-is-event-bundle", c.Round == h.Bundle.Round && c.Period == h.Bundle.Period && c.Step == h.Bundle.Step && c.Proposal == h.Bundle.Proposal &&
			len(c.Votes) == 1 && len(c.EquivocationVotes) == 0 && c.Votes[0].Sender[0] == h.Bundle.Votes[0].Sender[0])
		vr.Assert(tag+".cert-round-is-player-round", c.Round == base+round(k))
		vr.Assert(tag+".cert-step", c.Step == cert)
		vr.Assert(tag+".cert-not-bottom", c.Proposal != bottom)
		found := false
		if late != nil && k == 0 {
			vr.Reach("latepayload")
			for i := 0; i < o.n; i++ {
				q := &o.asks[i]
				if q.kind == vkPMMessage && (q.ansT == proposalCommittable || q.ansT == payloadAccepted) && q.val == c.Proposal && late.Input.Proposal.SeedProof[0] == ea.Payload.SeedProof[0] {
					found = true
				}
			}
		} else {
			for i := 0; i < o.n; i++ {
				q := &o.asks[i]
				if q.kind == vkStaged && q.flag && q.r == h.Round && q.p == h.Period && q.val == c.Proposal && q.marker == ea.Payload.SeedProof[0] {
					found = true
				}
			}
		}
		vr.Assert(tag+".payload-is-committable-value", found)
		vr.Assert(tag+".payload-value-is-certified", verifStubProposalValue(ea.Payload.u()) == c.Proposal)
		k++
	}
	vr.Assert(tag+".round-advances-once-per-ensure", p.Round == base+round(k))
	return k
}

// S4 for every event but roundInterruption: (Round, Period) moves exactly as
// the handled threshold event `top` (nil: none) prescribes.
func verifC01AssertS4(pre verifC01Pre, top *thresholdEvent, nE int, p *player) {
	vr.Assert("c01.S4.round-monotone", p.Round >= pre.Round)
	if nE == 0 {
		want := pre.Period
		if top != nil {
			switch top.T {
			case softThreshold, certThreshold:
				if top.Period > pre.Period {
					want = top.Period
				}
			case nextThreshold:
				if top.Period >= pre.Period {
					want = top.Period + 1
				}
			}
		}
		vr.Assert("c01.S4.period-as-prescribed", p.Period == want)
		vr.Assert("c01.S4.period-monotone", p.Period >= pre.Period)
		if p.Period != pre.Period {
			vr.Reach("newperiod")
			vr.Assert("c01.S4.new-period-starts-at-soft", p.Step == soft && !p.Napping)
		} else {
			vr.Assert("c01.S4.step-unchanged", p.Step == pre.Step)
		}
	} else {
		// a new round starts in period 0; the pipelined freshest bundle of the new round is of
		// period 0, so at most a next threshold moves on to period 1
		vr.Assert("c01.S4.new-round-period", p.Period <= 1)
		vr.Assert("c01.S4.new-round-starts-at-soft", p.Step == soft && !p.Napping)
	}
}

// ---------------------------------------------------------------------------
// symbolic events

func verifC01TimeoutEvent(t eventType, round round) timeoutEvent {
	var e timeoutEvent
	e.T = t
	e.RandomEntropy = vr.U64("ev.entropy")
	e.Round = round
	// the consensus version view attached by demux.next from Ledger.ConsensusVersion: a supported
	// version without error, or an error (and no version).  player.handle additionally tolerates an
	// empty version without error for ordinary timeouts; handleFastTimeout does not (it would divide
	// by FastRecoveryLambda == 0), and demux never produces it.
	nproto := 2
	if t == timeout {
		nproto = 3
	}
	switch vr.Choice("ev.proto", nproto) {
	case 0:
		e.Proto.Version = "vT"
	case 1:
		e.Proto.Err = makeSerErrStr("verif: no consensus version")
	}
	return e
}

func verifC01MessageBase(t eventType) messageEvent {
	var e messageEvent
	e.T = t
	e.Proto.Version = "vT"
	e.TaskIndex = 1
	if vr.Bool("ev.fromnetwork") {
		e.Input.messageHandle = 7 // a message received from a peer; nil = produced by this node
	}
	return e
}

func verifC01SymbolicVote(o *verifC01Oracle, proposalVote bool) vote {
	var v vote
	v.R.Round = round(vr.U64("ev.vote.round"))
	v.R.Period = period(vr.U64("ev.vote.period"))
	v.R.Step = step(vr.U64("ev.vote.step"))
	if proposalVote {
		v.R.Step = propose
	} else {
		vr.Assume(v.R.Step != propose)
	}
	v.R.Proposal = verifC01PickVal(o, "ev.vote.value")
	v.R.Sender = verifSender(verifC01Pick("ev.vote.sender", 3))
	return v
}

// ---------------------------------------------------------------------------
// Model sanity.  gosym overlays a harness file only for the properties that
// have a harness in it; C02 and C03 reuse this file's oracle, so the sanity
// lemma of the payload/value idealisation is registered for all three: the
// payload the oracle hands out for value v has value() == v, distinct
// representative values are distinct, and index 0 is bottom.

//verif:noop (*github.com/algorand/go-algorand/agreement.tracer).log
//verif:noop (github.com/algorand/go-algorand/data/basics.Address).String
//verif:noop (github.com/algorand/go-algorand/crypto.Digest).String
//verif:stub (github.com/algorand/go-algorand/agreement.step).nextVoteRanges = verifStubNextVoteRanges
//verif:stub (github.com/algorand/go-algorand/agreement.unauthenticatedProposal).value = verifStubProposalValue

func verifC01ModelSanity() {
	o := verifC01NewOracle()
	i := verifC01Pick("i", verifC01Values)
	j := verifC01Pick("j", verifC01Values)
	vi, vj := verifC01Val(o, i), verifC01Val(o, j)
	vr.Assert("model.value-injective", (vi == vj) == (i == j))
	vr.Assert("model.zero-is-bottom", (vi == bottom) == (i == 0))
	pp := verifC01Payload(vi)
	vr.Assert("model.payload-value", pp.u().value() == vi)
	vr.Reach("done")
}

//verif:harness prop=C01 reach=done
func VerifC01ModelSanity() { verifC01ModelSanity() }

//verif:harness prop=C02 reach=done
func VerifC02ModelSanity() { verifC01ModelSanity() }

//verif:harness prop=C03 reach=done
func VerifC03ModelSanity() { verifC01ModelSanity() }
