//go:build verif

package agreement

import (
	"strings"

	"github.com/algorand/go-algorand/data/basics"
	"github.com/algorand/go-algorand/data/committee"
	vr "github.com/algorand/go-algorand/internal/verifrt"
)

// C01 companion lemmas: the contracts the oracle router of zz_verif_c01.go
// ASSUMES of the sub-machines, checked here on the real sub-machines, each with
// its own arbitrary state (and its own children replaced by arbitrary answers).
//
//   proposalTracker.handle: Staging is written only by a soft/cert threshold
//     and then equals that event's proposal; readStaging returns exactly it;
//     once staged or frozen no proposal-vote is accepted; freezing reports the
//     lowest vote's value and a frozen value is never replaced.
//   voteAggregator.handle: a threshold event is handed to the player only for
//     the player's round (FreshnessData.PlayerRound).
//   voteTrackerRound / voteTrackerPeriod: the freshest bundle of a round's
//     tracker is an event delivered to it (so of that round); the next-threshold
//     status only grows.

//verif:noop (*github.com/algorand/go-algorand/agreement.tracer).log
//verif:noop (github.com/algorand/go-algorand/data/basics.Address).String
//verif:noop (github.com/algorand/go-algorand/crypto.Digest).String
//verif:stub (github.com/algorand/go-algorand/data/committee.Credential).Less = verifC01CredLess

// which of two credentials is lower is irrelevant to the lemmas: arbitrary
func verifC01CredLess(cred committee.Credential, other committee.Credential) bool {
	return vr.Bool("cred.less")
}

func verifC01SubVal(label string) proposalValue {
	var v proposalValue
	v.BlockDigest[0] = byte(verifC01Pick(label, verifC01Values))
	return v
}

//verif:harness prop=C01 reach=done,staged,frozen,accepted unwind=10 budget=200 thorough.budget=2400
func VerifC01SubProposalTracker() {
	t := &proposalTracker{}
	t.Staging = verifC01SubVal("t.staging")
	t.Freezer.Lowest.R.Proposal = verifC01SubVal("t.lowest")
	t.Freezer.Filled = vr.Bool("t.filled")
	t.Freezer.Frozen = vr.Bool("t.frozen")
	// representation invariant (proposalSeeker.accept): Lowest is set only together with Filled
	vr.Assume(t.Freezer.Filled || t.Freezer.Lowest.R.Proposal == bottom)
	t.Duplicate = map[basics.Address]bool{verifSender(0): vr.Bool("t.dup0")}
	pre := *t
	rh := verifRouterHandle()
	var pl player

	switch vr.Choice("ev.kind", 5) {
	case 0: // soft / cert threshold
		var e thresholdEvent
		e.T = softThreshold
		if vr.Bool("ev.cert") {
			e.T = certThreshold
		}
		e.Round, e.Period = round(vr.U64("ev.round")), period(vr.U64("ev.period"))
		e.Proposal = verifC01SubVal("ev.value")
		out := t.handle(rh, pl, e)
		pa, ok := out.(proposalAcceptedEvent)
		vr.Reach("staged")
		vr.Assert("c01.sub.tracker.threshold-stages-its-value", t.Staging == e.Proposal)
		vr.Assert("c01.sub.tracker.threshold-answer", ok && pa.Proposal == e.Proposal && pa.Round == e.Round && pa.Period == e.Period)
		vr.Assert("c01.sub.tracker.threshold-keeps-frozen", t.Freezer.Lowest.R.Proposal == pre.Freezer.Lowest.R.Proposal && t.Freezer.Frozen == pre.Freezer.Frozen)
	case 1: // readStaging
		q := stagingValueEvent{Round: round(vr.U64("ev.round")), Period: period(vr.U64("ev.period"))}
		out := t.handle(rh, pl, q)
		se, ok := out.(stagingValueEvent)
		vr.Assert("c01.sub.tracker.read-staging", ok && se.Proposal == pre.Staging && se.Round == q.Round && se.Period == q.Period)
		vr.Assert("c01.sub.tracker.read-staging-pure", t.Staging == pre.Staging && t.Freezer.Frozen == pre.Freezer.Frozen && t.Freezer.Lowest.R.Proposal == pre.Freezer.Lowest.R.Proposal)
	case 2: // proposalFrozen
		out := t.handle(rh, pl, proposalFrozenEvent{})
		fe, ok := out.(proposalFrozenEvent)
		vr.Reach("frozen")
		vr.Assert("c01.sub.tracker.frozen-reports-lowest", ok && fe.Proposal == pre.Freezer.Lowest.R.Proposal)
		vr.Assert("c01.sub.tracker.frozen-freezes", t.Freezer.Frozen && t.Freezer.Lowest.R.Proposal == pre.Freezer.Lowest.R.Proposal && t.Staging == pre.Staging)
	case 3: // a verified proposal-vote
		var e messageEvent
		e.T = voteVerified
		e.Input.Vote.R.Sender = verifSender(verifC01Pick("ev.sender", 2))
		e.Input.Vote.R.Round, e.Input.Vote.R.Period = round(vr.U64("ev.round")), period(vr.U64("ev.period"))
		e.Input.Vote.R.Proposal = verifC01SubVal("ev.value")
		dup := pre.Duplicate[e.Input.Vote.R.Sender]
		out := t.handle(rh, pl, e)
		vr.Assert("c01.sub.tracker.vote-never-stages", t.Staging == pre.Staging)
		if pre.Freezer.Frozen {
			// the value reported at freeze time stays the frozen value
			vr.Assert("c01.sub.tracker.frozen-value-stable", t.Freezer.Frozen && t.Freezer.Lowest.R.Proposal == pre.Freezer.Lowest.R.Proposal)
		}
		if pa, ok := out.(proposalAcceptedEvent); ok {
			vr.Reach("accepted")
			vr.Assert("c01.sub.tracker.accepted-only-if-open", !dup && pre.Staging == bottom && !pre.Freezer.Frozen)
			vr.Assert("c01.sub.tracker.accepted-value", pa.Proposal == e.Input.Vote.R.Proposal && t.Freezer.Lowest.R.Proposal == pa.Proposal)
		} else {
			fe, isF := out.(filteredEvent)
			vr.Assert("c01.sub.tracker.else-filtered", isF && fe.T == voteFiltered)
			// proposalManager relies on this: a verified vote is never tagged "unverified late credential"
			vr.Assert("c01.sub.tracker.filtered-note", !isF || fe.LateCredentialTrackingNote != UnverifiedLateCredentialForTracking)
		}
	case 4: // duplicate filter request
		var q voteFilterRequestEvent
		q.RawVote.Sender = verifSender(verifC01Pick("ev.sender", 2))
		dup := pre.Duplicate[q.RawVote.Sender]
		out := t.handle(rh, pl, q)
		vr.Assert("c01.sub.tracker.filter-request", (out.t() == voteFiltered) == dup && (out.t() == none) == !dup)
		vr.Assert("c01.sub.tracker.filter-request-pure", t.Staging == pre.Staging && t.Freezer.Frozen == pre.Freezer.Frozen)
	}
	vr.Reach("done")
}

// children of the voteAggregator: voteMachineStep answers filter requests,
// voteMachineRound answers accepted votes with nothing or a threshold event of
// the VOTE's round (voteTracker.handle, C06 c06.event-kind)
type verifC01AggChildren struct {
	delivered int
}

func (c *verifC01AggChildren) dispatch(t *tracer, state player, e event, src stateMachineTag, dest stateMachineTag, r round, p period, s step) event {
	switch ev := e.(type) {
	case voteFilterRequestEvent:
		if vr.Bool("child.filtered") {
			return filteredStepEvent{T: voteFilteredStep}
		}
		return emptyEvent{}
	case voteAcceptedEvent:
		c.delivered++
		vr.Assert("c01.sub.agg.routed-by-vote-round", r == ev.Vote.R.Round && p == ev.Vote.R.Period && s == ev.Vote.R.Step && dest == voteMachineRound)
		if vr.Bool("child.threshold") {
			var te thresholdEvent
			switch vr.Choice("child.kind", 3) {
			case 0:
				te.T = softThreshold
			case 1:
				te.T = certThreshold
			default:
				te.T = nextThreshold
			}
			te.Round, te.Period, te.Step = ev.Vote.R.Round, ev.Vote.R.Period, ev.Vote.R.Step
			te.Proposal = ev.Vote.R.Proposal
			return te
		}
		return emptyEvent{}
	}
	vr.Assert("c01.sub.agg.unexpected-request", false)
	return emptyEvent{}
}

func verifC01AggStep(agg *voteAggregator, rh routerHandle, p player, e event) (out event) {
	defer func() {
		if r := recover(); r != nil {
			// the aggregator's own Panicf ("bad round") is the code's out-of-domain statement;
			// everything else is a violation
			if s, isString := r.(string); isString && !strings.HasPrefix(s, "log.") {
				panic(r)
			}
			if _, isErr := r.(error); isErr {
				panic(r)
			}
			vr.Assume(false)
		}
	}()
	return agg.handle(rh, p, e)
}

//verif:harness prop=C01 reach=done,threshold,pipelined unwind=10 budget=200 thorough.budget=2400
func VerifC01SubVoteAggregator() {
	verifC01InstallConsensus()
	var agg voteAggregator
	ch := &verifC01AggChildren{}
	rh := verifRouterHandle()
	rh.r = ch
	rh.src = voteMachine
	var pl player
	pl.Round = round(vr.U64("p.round"))
	pl.Period = period(vr.U64("p.period"))
	pl.Step = step(vr.U64("p.step"))
	pl.LastConcluding = step(vr.U64("p.lastconcluding"))
	vr.Assume(pl.Round < 1<<62 && pl.Period < 1<<62)
	var e filterableMessageEvent
	// player.handleMessageEvent attaches its own position
	e.FreshnessData = freshnessData{PlayerRound: pl.Round, PlayerPeriod: pl.Period, PlayerStep: pl.Step, PlayerLastConcluding: pl.LastConcluding}
	e.Proto.Version = "vT"
	isBundle := vr.Bool("ev.isbundle")
	if isBundle {
		e.T = bundleVerified
		var b bundle
		b.U.Round, b.U.Period, b.U.Step = round(vr.U64("ev.round")), period(vr.U64("ev.period")), step(vr.U64("ev.step"))
		b.U.Proposal = verifC01SubVal("ev.value")
		// unauthenticatedBundle.verifyAsync builds every vote of a verified bundle from the bundle's
		// own (round, period, step, proposal)
		n := vr.Choice("ev.nvotes", 3)
		for i := 0; i < n; i++ {
			var v vote
			v.R = rawVote{Sender: verifSender(i), Round: b.U.Round, Period: b.U.Period, Step: b.U.Step, Proposal: b.U.Proposal}
			b.Votes = append(b.Votes, v)
		}
		e.Input.Bundle = b
		e.Input.UnauthenticatedBundle = b.U
	} else {
		e.T = voteVerified
		var v vote
		v.R = rawVote{Sender: verifSender(0), Round: round(vr.U64("ev.round")), Period: period(vr.U64("ev.period")), Step: step(vr.U64("ev.step")), Proposal: verifC01SubVal("ev.value")}
		e.Input.Vote = v
		e.Input.UnauthenticatedVote = v.u()
	}

	out := verifC01AggStep(&agg, rh, pl, e)

	if te, ok := out.(thresholdEvent); ok && te.T != none {
		vr.Reach("threshold")
		vr.Assert("c01.sub.agg.threshold-is-for-player-round", te.Round == pl.Round)
		vr.Assert("c01.sub.agg.threshold-needs-a-delivered-vote", ch.delivered > 0)
	} else if ch.delivered > 0 && !isBundle && out.t() == none {
		vr.Reach("pipelined")
	}
	// votes reach the trackers only for the player's round, or period 0 of the next one
	if ch.delivered > 0 {
		r := e.Input.Vote.R.Round
		per := e.Input.Vote.R.Period
		if isBundle {
			r, per = e.Input.Bundle.U.Round, e.Input.Bundle.U.Period
			vr.Assert("c01.sub.agg.bundle-only-player-round", r == pl.Round)
		} else {
			vr.Assert("c01.sub.agg.vote-round-window", r == pl.Round || (r == pl.Round+1 && per == 0))
		}
	}
	vr.Reach("done")
}

//verif:harness prop=C01 reach=done,fresher,cached unwind=10 budget=200 thorough.budget=2400
func VerifC01SubVoteTrackers() {
	rh := verifRouterHandle()
	var pl player
	// voteTrackerRound: the stored freshest event is one that was delivered
	tr := &voteTrackerRound{}
	tr.Ok = vr.Bool("tr.ok")
	if tr.Ok {
		tr.Freshest.T = softThreshold
		switch vr.Choice("tr.kind", 3) {
		case 1:
			tr.Freshest.T = certThreshold
		case 2:
			tr.Freshest.T = nextThreshold
		}
		tr.Freshest.Period = period(vr.U64("tr.period"))
		tr.Freshest.Proposal = verifC01SubVal("tr.value")
	}
	tr.Freshest.Round = round(vr.U64("round"))
	pre := *tr
	var e thresholdEvent
	e.T = softThreshold
	switch vr.Choice("ev.kind", 3) {
	case 1:
		e.T = certThreshold
	case 2:
		e.T = nextThreshold
	}
	e.Round = pre.Freshest.Round // routed by round: a round's tracker sees its own round only
	e.Period = period(vr.U64("ev.period"))
	e.Proposal = verifC01SubVal("ev.value")
	out := tr.handle(rh, pl, e)
	fb := tr.handle(rh, pl, freshestBundleRequestEvent{}).(freshestBundleEvent)
	vr.Assert("c01.sub.round.freshest-ok-after-event", fb.Ok && tr.Ok)
	if out.t() != none {
		vr.Reach("fresher")
		vr.Assert("c01.sub.round.propagates-the-event", out.(thresholdEvent).T == e.T && out.(thresholdEvent).Period == e.Period && out.(thresholdEvent).Proposal == e.Proposal)
		vr.Assert("c01.sub.round.stores-the-event", fb.Event.T == e.T && fb.Event.Round == e.Round && fb.Event.Period == e.Period && fb.Event.Proposal == e.Proposal)
		// a second soft threshold of the same period is never propagated; nothing follows a cert threshold
		vr.Assert("c01.sub.round.no-second-soft-of-period", !(pre.Ok && e.T == softThreshold && e.Period <= pre.Freshest.Period))
		vr.Assert("c01.sub.round.cert-is-final", !(pre.Ok && pre.Freshest.T == certThreshold))
	} else {
		vr.Assert("c01.sub.round.keeps-the-old", pre.Ok && fb.Event.T == pre.Freshest.T && fb.Event.Period == pre.Freshest.Period && fb.Event.Proposal == pre.Freshest.Proposal)
	}
	vr.Assert("c01.sub.round.freshest-is-of-the-round", fb.Event.Round == pre.Freshest.Round)

	// voteTrackerPeriod: the next-threshold status only grows
	tp := &voteTrackerPeriod{}
	tp.Cached.Bottom = vr.Bool("tp.bottom")
	tp.Cached.Proposal = verifC01SubVal("tp.value")
	prep := *tp
	var ne thresholdEvent
	ne.T = nextThreshold
	ne.Proposal = verifC01SubVal("next.value")
	// stated contract (two next quorums of one period never name two different values)
	vr.Assume(prep.Cached.Proposal == bottom || ne.Proposal == bottom || ne.Proposal == prep.Cached.Proposal)
	tp.handle(rh, pl, ne)
	st := tp.handle(rh, pl, nextThresholdStatusRequestEvent{}).(nextThresholdStatusEvent)
	vr.Reach("cached")
	vr.Assert("c01.sub.period.bottom-monotone", !prep.Cached.Bottom || st.Bottom)
	vr.Assert("c01.sub.period.value-stable", prep.Cached.Proposal == bottom || st.Proposal == prep.Cached.Proposal)
	vr.Assert("c01.sub.period.records-event", (ne.Proposal == bottom && st.Bottom) || (ne.Proposal != bottom && st.Proposal == ne.Proposal))
	vr.Reach("done")
}
