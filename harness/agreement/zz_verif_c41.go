//go:build verif

package agreement

import (
	"github.com/algorand/go-algorand/config"
	"github.com/algorand/go-algorand/config/bounds"
	vr "github.com/algorand/go-algorand/internal/verifrt"
	"github.com/algorand/go-algorand/protocol"
	"github.com/algorand/msgp/msgp"
)

// exploratory
//
//verif:harness prop=C41 reach=done,ok,err unwind=16 budget=200
func VerifC41ProposalValueRaw() {
	_ = config.Consensus[protocol.ConsensusCurrentVersion]
	vr.Assert("c41.bound-initialised", bounds.MaxVoteThreshold > 0)
	in := vr.Bytes("in", vr.Param(5, 10))
	var v proposalValue
	rem, err := v.UnmarshalMsgWithState(in, msgp.DefaultUnmarshalState)
	if err == nil {
		vr.Assert("c41.rem", len(rem) <= len(in))
		vr.Reach("ok")
	} else {
		vr.Reach("err")
	}
	vr.Reach("done")
}
