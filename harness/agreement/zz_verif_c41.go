//go:build verif

package agreement

import (
	"github.com/algorand/go-algorand/config"
	"github.com/algorand/go-algorand/config/bounds"
	"github.com/algorand/go-algorand/crypto"
	"github.com/algorand/go-algorand/data/committee"
	vr "github.com/algorand/go-algorand/internal/verifrt"
	"github.com/algorand/go-algorand/protocol"
	"github.com/algorand/msgp/msgp"
)

// C41: decoding untrusted bytes either succeeds or returns an error; it never
// crashes and never builds a collection larger than the declared allocbound.
//
// Code under test: the generated UnmarshalMsgWithState of proposalValue,
// rawVote, unauthenticatedVote, voteAuthenticator, equivocationVoteAuthenticator,
// unauthenticatedBundle (package agreement), crypto.OneTimeSignature,
// committee.UnauthenticatedCredential, and everything they call: crypto.Digest,
// crypto.VrfProof, basics.Address, basics.Round, and the REAL msgp byte readers
// (github.com/algorand/msgp: ReadMapHeaderBytes, ReadArrayHeaderBytes,
// ReadMapKeyZC, ReadStringZC, readBytesBytes, ReadExactBytes, ReadUint64Bytes...),
// entered exactly as protocol.DecodeMsgp does (UnmarshalMsg =
// UnmarshalMsgWithState(b, msgp.DefaultUnmarshalState)).
//
// Inputs: generated from the types' schemas, see zz_verif_c41gen.go (raw symbolic
// buffers of a few bytes: zz_verif_c41raw.go). Checked on every input:
//   c41.*  no Go panic (automatic: a panic on a feasible path is a violation)
//   c41.allocbound                  after the call, error or not, every slice of
//                                   the object has len and cap <= its allocbound
//   c41.accepts-exactly-wellformed  error <=> the reference grammar rejects
//   c41.remaining-is-suffix         on success the bytes returned are exactly the
//                                   input's tail after the object (consumed +
//                                   remaining = input)
//   c41.decoded-value               on success every leaf of the object holds what
//                                   the input denotes, untouched fields keep
//                                   their previous value, slice lengths as announced
//   c41.depth                       with AllowableDepth d the canonical encoding
//                                   is accepted iff d >= the type's nesting depth
//
// An oversized count must be refused BEFORE the allocation: a decoder that
// allocates first shows up either as c41.allocbound (count = bound+1: the slice
// is in the object when the error is returned) or as an engine refusal
// ("make of N elements", counts 2^31 / 2^32-1) = inconclusive, never as a pass.

// --- schemas (codec tags; fields in declaration order) -----------------------

func verifC41SchemaPV() *verifC41Node {
	return verifC41S("oper", verifC41U(), "oprop", verifC41B(32), "dig", verifC41B(32), "encdig", verifC41B(32))
}

func verifC41SchemaOTS() *verifC41Node {
	return verifC41S("s", verifC41B(64), "p", verifC41B(32), "ps", verifC41B(64), "p2", verifC41B(32), "p1s", verifC41B(64), "p2s", verifC41B(64))
}

func verifC41SchemaCred() *verifC41Node { return verifC41S("pf", verifC41B(80)) }

func verifC41SchemaRawVote() *verifC41Node {
	return verifC41S("snd", verifC41B(32), "rnd", verifC41U(), "per", verifC41U(), "step", verifC41U(), "prop", verifC41SchemaPV())
}

func verifC41SchemaUV() *verifC41Node {
	return verifC41S("r", verifC41SchemaRawVote(), "cred", verifC41SchemaCred(), "sig", verifC41SchemaOTS())
}

func verifC41SchemaVA() *verifC41Node {
	return verifC41S("snd", verifC41B(32), "cred", verifC41SchemaCred(), "sig", verifC41SchemaOTS())
}

func verifC41SchemaEVA() *verifC41Node {
	return verifC41S("snd", verifC41B(32), "cred", verifC41SchemaCred(),
		"sig", verifC41Arr(2, verifC41SchemaOTS()), "props", verifC41Arr(2, verifC41SchemaPV()))
}

func verifC41SchemaBundle(bound int) *verifC41Node {
	return verifC41S("rnd", verifC41U(), "per", verifC41U(), "step", verifC41U(), "prop", verifC41SchemaPV(),
		"vote", verifC41Sl(bound, verifC41SchemaVA()), "eqv", verifC41Sl(bound, verifC41SchemaEVA()))
}

// --- per type: the "dirty" object decoded into, and the visit of its leaves ----

func verifC41Fill(b []byte) {
	for i := range b {
		b[i] = verifC41PreB
	}
}

func verifC41DirtyPV(v *proposalValue) {
	v.OriginalPeriod = verifC41PreU
	verifC41Fill(v.OriginalProposer[:])
	verifC41Fill(v.BlockDigest[:])
	verifC41Fill(v.EncodingDigest[:])
}

func verifC41VisitPV(c *verifC41Check, p string, v *proposalValue) {
	c.u(p+".oper", uint64(v.OriginalPeriod))
	c.b(p+".oprop", v.OriginalProposer[:])
	c.b(p+".dig", v.BlockDigest[:])
	c.b(p+".encdig", v.EncodingDigest[:])
}

func verifC41DirtyOTS(v *crypto.OneTimeSignature) {
	verifC41Fill(v.Sig[:])
	verifC41Fill(v.PK[:])
	verifC41Fill(v.PKSigOld[:])
	verifC41Fill(v.PK2[:])
	verifC41Fill(v.PK1Sig[:])
	verifC41Fill(v.PK2Sig[:])
}

func verifC41VisitOTS(c *verifC41Check, p string, v *crypto.OneTimeSignature) {
	c.b(p+".s", v.Sig[:])
	c.b(p+".p", v.PK[:])
	c.b(p+".ps", v.PKSigOld[:])
	c.b(p+".p2", v.PK2[:])
	c.b(p+".p1s", v.PK1Sig[:])
	c.b(p+".p2s", v.PK2Sig[:])
}

func verifC41DirtyCred(v *committee.UnauthenticatedCredential) { verifC41Fill(v.Proof[:]) }

func verifC41VisitCred(c *verifC41Check, p string, v *committee.UnauthenticatedCredential) {
	c.b(p+".pf", v.Proof[:])
}

func verifC41DirtyRawVote(v *rawVote) {
	verifC41Fill(v.Sender[:])
	v.Round, v.Period, v.Step = verifC41PreU, verifC41PreU, verifC41PreU
	verifC41DirtyPV(&v.Proposal)
}

func verifC41VisitRawVote(c *verifC41Check, p string, v *rawVote) {
	c.b(p+".snd", v.Sender[:])
	c.u(p+".rnd", uint64(v.Round))
	c.u(p+".per", uint64(v.Period))
	c.u(p+".step", uint64(v.Step))
	verifC41VisitPV(c, p+".prop", &v.Proposal)
}

func verifC41VisitVA(c *verifC41Check, p string, v *voteAuthenticator) {
	c.b(p+".snd", v.Sender[:])
	verifC41VisitCred(c, p+".cred", &v.Cred)
	verifC41VisitOTS(c, p+".sig", &v.Sig)
}

func verifC41VisitEVA(c *verifC41Check, p string, v *equivocationVoteAuthenticator) {
	c.b(p+".snd", v.Sender[:])
	verifC41VisitCred(c, p+".cred", &v.Cred)
	verifC41VisitOTS(c, p+".sig.0", &v.Sigs[0])
	verifC41VisitOTS(c, p+".sig.1", &v.Sigs[1])
	verifC41VisitPV(c, p+".props.0", &v.Proposals[0])
	verifC41VisitPV(c, p+".props.1", &v.Proposals[1])
}

// --- driver ------------------------------------------------------------------------

type verifC41Case struct {
	g        *verifC41Gen
	in       []byte
	st       msgp.UnmarshalState
	trailing int
	bound    int
	mode     int
}

// modes: 0 one node under attack; 1 truncations of the canonical encoding;
// 2 depth limit. depthNeeded = number of nested codec calls the canonical
// encoding of the type goes through (from the type's structure).
func verifC41Input(schema func(bound int) *verifC41Node, attackDepth, depthNeeded int) *verifC41Case {
	// the allocbounds are variables set by package config's initializer
	_ = config.Consensus[protocol.ConsensusCurrentVersion]
	bound := bounds.MaxVoteThreshold
	vr.Assert("c41.bound-initialised", bound > 1000 && bound < 1<<15)
	s := schema(bound)
	c := &verifC41Case{bound: bound, st: msgp.DefaultUnmarshalState}
	g := &verifC41Gen{attack: -1, maxDepth: attackDepth, ok: true, full: vr.Param(0, 1) == 1}
	c.g = g
	c.mode = vr.Choice("mode", 3)
	switch c.mode {
	case 0:
		g.attack = vr.Choice("node", s.count(0, attackDepth))
		g.gen(s, "", 0)
		c.in = g.out
		if g.ok && g.attack%2 == 1 {
			// what follows the object is not the decoder's business
			c.in = append(c.in, vr.U8("trailing"))
			c.trailing = 1
		}
	case 1:
		g.zeroPre = true
		g.gen(s, "", 0)
		k := len(g.out)
		if i := vr.Choice("cut", len(g.cuts)+1); i < len(g.cuts) {
			k = g.cuts[i]
		}
		if k < len(g.out) {
			g.reject("truncated")
		}
		c.in = g.out[:k:k]
	case 2:
		g.zeroPre = true
		g.gen(s, "", 0)
		c.in = g.out
		d := vr.Choice("depth", depthNeeded+2)
		c.st.AllowableDepth = uint64(d)
		if d < depthNeeded {
			g.reject("depth-exceeded")
		}
	}
	return c
}

func (c *verifC41Case) check() *verifC41Check { return &verifC41Check{g: c.g, lens: true} }

func (c *verifC41Case) verdict(rem []byte, err error, k *verifC41Check) {
	g := c.g
	vr.Assert("c41.allocbound", k.max <= c.bound)
	if c.mode == 2 {
		vr.Assert("c41.depth", (err == nil) == g.ok)
	} else {
		vr.Assert("c41.accepts-exactly-wellformed", (err == nil) == g.ok)
	}
	if err == nil {
		n := len(rem)
		vr.Assert("c41.remaining-is-suffix", n == c.trailing && n <= len(c.in) && verifC41Same(rem, c.in[len(c.in)-n:]))
		vr.Assert("c41.decoded-value", k.diff == 0 && k.lens)
		switch c.mode {
		case 0:
			vr.Reach("accepted-variant")
		case 1:
			vr.Reach("accepted-canonical")
		case 2:
			vr.Reach("depth-sufficient")
		}
	} else {
		switch c.mode {
		case 0:
			vr.Reach("rejected-variant")
		case 1:
			vr.Reach("truncated")
		case 2:
			vr.Reach("depth-exceeded")
		}
		if g.overBound {
			vr.Reach("over-allocbound-refused")
		}
	}
	vr.Reach("done")
}

const verifC41Reach = "done,accepted-variant,rejected-variant,accepted-canonical,truncated,depth-sufficient,depth-exceeded"

//verif:harness prop=C41 reach=done,accepted-variant,rejected-variant,accepted-canonical,truncated,depth-sufficient,depth-exceeded unwind=16 budget=200 thorough.budget=1500
func VerifC41ProposalValue() {
	c := verifC41Input(func(int) *verifC41Node { return verifC41SchemaPV() }, 9, 2)
	var v proposalValue
	if !c.g.zeroPre {
		verifC41DirtyPV(&v)
	}
	rem, err := v.UnmarshalMsgWithState(c.in, c.st)
	k := c.check()
	verifC41VisitPV(k, "", &v)
	c.verdict(rem, err, k)
}

//verif:harness prop=C41 reach=done,accepted-variant,rejected-variant,accepted-canonical,truncated,depth-sufficient,depth-exceeded unwind=16 budget=200 thorough.budget=1500
func VerifC41OneTimeSignature() {
	c := verifC41Input(func(int) *verifC41Node { return verifC41SchemaOTS() }, 9, 1)
	var v crypto.OneTimeSignature
	if !c.g.zeroPre {
		verifC41DirtyOTS(&v)
	}
	rem, err := v.UnmarshalMsgWithState(c.in, c.st)
	k := c.check()
	verifC41VisitOTS(k, "", &v)
	c.verdict(rem, err, k)
}

//verif:harness prop=C41 reach=done,accepted-variant,rejected-variant,accepted-canonical,truncated,depth-sufficient,depth-exceeded unwind=16 budget=200 thorough.budget=1500
func VerifC41Credential() {
	c := verifC41Input(func(int) *verifC41Node { return verifC41SchemaCred() }, 9, 2)
	var v committee.UnauthenticatedCredential
	if !c.g.zeroPre {
		verifC41DirtyCred(&v)
	}
	rem, err := v.UnmarshalMsgWithState(c.in, c.st)
	k := c.check()
	verifC41VisitCred(k, "", &v)
	c.verdict(rem, err, k)
}

// rawVote{snd, rnd, per, step, prop}: own header, keys and direct fields under
// attack in the quick tier (proposalValue has its own harness), every node in
// the thorough tier.
//
//verif:harness prop=C41 reach=done,accepted-variant,rejected-variant,accepted-canonical,truncated,depth-sufficient,depth-exceeded unwind=16 budget=200 thorough.budget=1500
func VerifC41RawVote() {
	c := verifC41Input(func(int) *verifC41Node { return verifC41SchemaRawVote() }, vr.Param(1, 9), 3)
	var v rawVote
	if !c.g.zeroPre {
		verifC41DirtyRawVote(&v)
	}
	rem, err := v.UnmarshalMsgWithState(c.in, c.st)
	k := c.check()
	verifC41VisitRawVote(k, "", &v)
	c.verdict(rem, err, k)
}

//verif:harness prop=C41 reach=done,accepted-variant,rejected-variant,accepted-canonical,truncated,depth-sufficient,depth-exceeded unwind=16 budget=200 thorough.budget=1500
func VerifC41UnauthenticatedVote() {
	c := verifC41Input(func(int) *verifC41Node { return verifC41SchemaUV() }, vr.Param(1, 9), 4)
	var v unauthenticatedVote
	if !c.g.zeroPre {
		verifC41DirtyRawVote(&v.R)
		verifC41DirtyCred(&v.Cred)
		verifC41DirtyOTS(&v.Sig)
	}
	rem, err := v.UnmarshalMsgWithState(c.in, c.st)
	k := c.check()
	verifC41VisitRawVote(k, ".r", &v.R)
	verifC41VisitCred(k, ".cred", &v.Cred)
	verifC41VisitOTS(k, ".sig", &v.Sig)
	c.verdict(rem, err, k)
}

//verif:harness prop=C41 reach=done,accepted-variant,rejected-variant,accepted-canonical,truncated,depth-sufficient,depth-exceeded unwind=16 budget=200 thorough.budget=1500
func VerifC41VoteAuthenticator() {
	c := verifC41Input(func(int) *verifC41Node { return verifC41SchemaVA() }, vr.Param(1, 9), 3)
	var v voteAuthenticator
	if !c.g.zeroPre {
		verifC41Fill(v.Sender[:])
		verifC41DirtyCred(&v.Cred)
		verifC41DirtyOTS(&v.Sig)
	}
	rem, err := v.UnmarshalMsgWithState(c.in, c.st)
	k := c.check()
	verifC41VisitVA(k, "", &v)
	c.verdict(rem, err, k)
}

// The fixed-size arrays Sigs [2] and Proposals [2] are decoded in line: the
// count check "> 2" is the analogue of an allocbound.
//
//verif:harness prop=C41 reach=done,accepted-variant,rejected-variant,accepted-canonical,truncated,depth-sufficient,depth-exceeded unwind=16 budget=200 thorough.budget=1500
func VerifC41EquivocationVoteAuthenticator() {
	c := verifC41Input(func(int) *verifC41Node { return verifC41SchemaEVA() }, vr.Param(1, 9), 3)
	var v equivocationVoteAuthenticator
	if !c.g.zeroPre {
		verifC41Fill(v.Sender[:])
		verifC41DirtyCred(&v.Cred)
		verifC41DirtyOTS(&v.Sigs[0])
		verifC41DirtyOTS(&v.Sigs[1])
		verifC41DirtyPV(&v.Proposals[0])
		verifC41DirtyPV(&v.Proposals[1])
	}
	rem, err := v.UnmarshalMsgWithState(c.in, c.st)
	k := c.check()
	verifC41VisitEVA(k, "", &v)
	c.verdict(rem, err, k)
}

func verifC41VisitBundle(k *verifC41Check, v *unauthenticatedBundle) {
	k.u(".rnd", uint64(v.Round))
	k.u(".per", uint64(v.Period))
	k.u(".step", uint64(v.Step))
	verifC41VisitPV(k, ".prop", &v.Proposal)
	k.slice(".vote", len(v.Votes), cap(v.Votes))
	for i := range v.Votes {
		if i < 2 {
			verifC41VisitVA(k, ".vote#"+string(rune('0'+i)), &v.Votes[i])
		}
	}
	k.slice(".eqv", len(v.EquivocationVotes), cap(v.EquivocationVotes))
	for i := range v.EquivocationVotes {
		if i < 2 {
			verifC41VisitEVA(k, ".eqv#"+string(rune('0'+i)), &v.EquivocationVotes[i])
		}
	}
}

// unauthenticatedBundle: Votes and EquivocationVotes carry
// allocbound=bounds.MaxVoteThreshold. The object decoded into has nil slices.
//
//verif:harness prop=C41 reach=done,accepted-variant,rejected-variant,accepted-canonical,truncated,depth-sufficient,depth-exceeded,over-allocbound-refused unwind=16 budget=250 thorough.budget=2400
func VerifC41UnauthenticatedBundle() {
	c := verifC41Input(verifC41SchemaBundle, vr.Param(1, 9), 4)
	var v unauthenticatedBundle
	if !c.g.zeroPre {
		v.Round, v.Period, v.Step = verifC41PreU, verifC41PreU, verifC41PreU
		verifC41DirtyPV(&v.Proposal)
	}
	rem, err := v.UnmarshalMsgWithState(c.in, c.st)
	k := c.check()
	verifC41VisitBundle(k, &v)
	c.verdict(rem, err, k)
}

// The same with slices that already have capacity (a decoder object that is
// reused): a count within the capacity re-slices instead of allocating; the
// elements then keep what they held. Only the slice classes are of interest.
//
//verif:harness prop=C41 reach=done,accepted-variant,rejected-variant,over-allocbound-refused unwind=16 budget=250 thorough.budget=2400
func VerifC41UnauthenticatedBundleReused() {
	_ = config.Consensus[protocol.ConsensusCurrentVersion]
	bound := bounds.MaxVoteThreshold
	s := verifC41SchemaBundle(bound)
	g := &verifC41Gen{attack: -1, maxDepth: 1, ok: true, zeroPre: true}
	// nodes at depth 1 in canonical (sorted) order: eqv=1, per, prop, rnd, step, vote=6
	g.attack = []int{1, 6}[vr.Choice("which", 2)]
	g.gen(s, "", 0)
	c := &verifC41Case{g: g, in: g.out, st: msgp.DefaultUnmarshalState, bound: bound}
	var v unauthenticatedBundle
	v.Votes = make([]voteAuthenticator, 1, 2)
	v.EquivocationVotes = make([]equivocationVoteAuthenticator, 0, 2)
	rem, err := v.UnmarshalMsgWithState(c.in, c.st)
	k := c.check()
	verifC41VisitBundle(k, &v)
	c.verdict(rem, err, k)
}
