//go:build verif

package agreement

import (
	vr "github.com/algorand/go-algorand/internal/verifrt"
)

// C41 input generator ------------------------------------------------------
//
// The decoders under test are byte-level parsers: on a buffer of arbitrary
// bytes they distinguish inputs only by (a) the class of each marker byte they
// look at, (b) the lengths announced by headers relative to what is left and
// (c) the spelling of map keys. Feeding raw symbolic bytes enumerates garbage
// (and sends a symbolic marker through msgp's 256-entry `sizes` table at every
// type error: one 256-deep ite chain per query, seconds each). Instead the
// input is GENERATED from the type's schema (its codec tags: keys, kinds,
// fixed sizes, allocbounds), marker bytes concrete, every payload symbolic:
//
//   - canonical shape everywhere (map form, all fields, keys sorted; unsigned
//     integers rotate through the five msgpack widths, payload unconstrained),
//   - except at ONE node "under attack" (every node of the schema in turn, down
//     to a depth bound), where every class of the node's kind is tried: the
//     other msgpack encodings the decoder documents as accepted (go-codec
//     compatibility: nil, str for bin, bin for str, array form of structs,
//     maps flattened to arrays, shorter/longer binaries for fixed arrays,
//     signed forms of unsigned integers ...) and those it must reject (wrong
//     types, invalid prefix, oversized counts - in particular slice headers
//     announcing more than the allocbound: bound+1, 2^31, 2^32-1, any count
//     above the bound),
//   - every truncation of the canonical encoding at and just after each token
//     boundary (a separate mode),
//   - one symbolic trailing byte after some inputs.
//
// The generator is at the same time the REFERENCE DECODER: while it emits a
// token it records what that token denotes (verdict accept/reject, the value
// of every leaf, the length of every slice), from the msgpack format and the
// documented leniencies, never from the code under test.

const (
	verifC41KUint = iota
	verifC41KBin    // fixed-size byte array, n bytes
	verifC41KStruct // keys/subs in DECLARATION order (= order of the array form)
	verifC41KArray  // fixed-size array of n elements subs[0]
	verifC41KSlice  // slice of subs[0] with allocbound n (read at run time)
)

type verifC41Node struct {
	kind int
	n    int
	keys []string
	subs []*verifC41Node
}

func verifC41U() *verifC41Node       { return &verifC41Node{kind: verifC41KUint} }
func verifC41B(n int) *verifC41Node { return &verifC41Node{kind: verifC41KBin, n: n} }
func verifC41Arr(n int, e *verifC41Node) *verifC41Node {
	return &verifC41Node{kind: verifC41KArray, n: n, subs: []*verifC41Node{e}}
}
func verifC41Sl(bound int, e *verifC41Node) *verifC41Node {
	return &verifC41Node{kind: verifC41KSlice, n: bound, subs: []*verifC41Node{e}}
}

// verifC41S("k1", node1, "k2", node2, ...) in declaration order
func verifC41S(kv ...interface{}) *verifC41Node {
	s := &verifC41Node{kind: verifC41KStruct}
	for i := 0; i < len(kv); i += 2 {
		s.keys = append(s.keys, kv[i].(string))
		s.subs = append(s.subs, kv[i+1].(*verifC41Node))
	}
	return s
}

// field indices in the codec's canonical (sorted by key) order
func (s *verifC41Node) sorted() []int {
	idx := make([]int, len(s.keys))
	for i := range idx {
		idx[i] = i
	}
	for i := 1; i < len(idx); i++ {
		for j := i; j > 0 && s.keys[idx[j]] < s.keys[idx[j-1]]; j-- {
			idx[j], idx[j-1] = idx[j-1], idx[j]
		}
	}
	return idx
}

// number of nodes that can be put under attack (depth <= max), in the order
// the canonical generation visits them
func (s *verifC41Node) count(depth, max int) int {
	if depth > max {
		return 0
	}
	c := 1
	switch s.kind {
	case verifC41KStruct:
		for _, f := range s.subs {
			c += f.count(depth+1, max)
		}
	case verifC41KArray:
		c += s.n * s.subs[0].count(depth+1, max)
	case verifC41KSlice:
		c += s.subs[0].count(depth+1, max) // canonical: one element
	}
	return c
}

type verifC41Exp struct {
	path string
	u    uint64
	b    []byte
}

type verifC41Len struct {
	path string
	n    int
}

const (
	verifC41PreU = 7    // value of every integer field before decoding ("dirty" object)
	verifC41PreB = 0x55 // value of every byte of every array field before decoding
)

type verifC41Gen struct {
	out      []byte
	cuts     []int // token boundaries (truncation points of interest)
	node     int
	attack   int // index of the node under attack, -1: none
	maxDepth int
	seq      int  // rotates the integer widths
	full     bool // every payload byte symbolic (otherwise first/last byte of each binary)
	zeroPre  bool // the object decoded into is the zero value
	ok       bool // reference verdict
	class    string
	exp      []verifC41Exp
	zeroed   []string // sub-objects reset to their zero value by a nil
	lens     []verifC41Len
	overBound bool // an oversized slice header was generated
}

func (g *verifC41Gen) mark() {
	g.cuts = append(g.cuts, len(g.out), len(g.out)+1)
}

func (g *verifC41Gen) put(b ...byte) { g.out = append(g.out, b...) }

func verifC41HasPrefix(s, p string) bool { return len(s) >= len(p) && s[:len(p)] == p }

func verifC41InSlice(path string) bool {
	for i := 0; i < len(path); i++ {
		if path[i] == '#' {
			return true
		}
	}
	return false
}

func (g *verifC41Gen) find(path string) int {
	for i := range g.exp {
		if g.exp[i].path == path {
			return i
		}
	}
	return -1
}

func (g *verifC41Gen) isZeroed(path string) bool {
	if g.zeroPre || verifC41InSlice(path) {
		return true
	}
	for _, z := range g.zeroed {
		if verifC41HasPrefix(path, z) {
			return true
		}
	}
	return false
}

// what the decoded object must hold at an integer leaf
func (g *verifC41Gen) wantU(path string) uint64 {
	if i := g.find(path); i >= 0 {
		return g.exp[i].u
	}
	if g.isZeroed(path) {
		return 0
	}
	return verifC41PreU
}

// what the decoded object must hold at a byte-array leaf
func (g *verifC41Gen) wantB(path string, n int) []byte {
	if i := g.find(path); i >= 0 {
		return g.exp[i].b
	}
	b := make([]byte, n)
	if !g.isZeroed(path) {
		for i := range b {
			b[i] = verifC41PreB
		}
	}
	return b
}

func (g *verifC41Gen) setU(path string, u uint64) {
	if i := g.find(path); i >= 0 {
		g.exp[i].u = u
		return
	}
	g.exp = append(g.exp, verifC41Exp{path: path, u: u})
}

// bytes src decoded into the array at path: the first min(len(src), n) bytes
// are overwritten, the others keep what they had
func (g *verifC41Gen) setB(path string, n int, src []byte) {
	cur := append([]byte(nil), g.wantB(path, n)...)
	copy(cur, src)
	if i := g.find(path); i >= 0 {
		g.exp[i].b = cur
		return
	}
	g.exp = append(g.exp, verifC41Exp{path: path, b: cur})
}

// a nil where a struct is expected resets the whole sub-object
func (g *verifC41Gen) zero(path string) {
	var keep []verifC41Exp
	for _, e := range g.exp {
		if !verifC41HasPrefix(e.path, path+".") {
			keep = append(keep, e)
		}
	}
	g.exp = keep
	g.zeroed = append(g.zeroed, path+".")
	var lens []verifC41Len
	for _, l := range g.lens {
		if !verifC41HasPrefix(l.path, path+".") {
			lens = append(lens, l)
		}
	}
	g.lens = lens
}

func (g *verifC41Gen) setLen(path string, n int) {
	for i := range g.lens {
		if g.lens[i].path == path {
			g.lens[i].n = n
			return
		}
	}
	g.lens = append(g.lens, verifC41Len{path, n})
}

// expected length of the slice at path; -1: the slice was not in the input
func (g *verifC41Gen) wantLen(path string) int {
	for _, l := range g.lens {
		if l.path == path {
			return l.n
		}
	}
	return -1
}

func (g *verifC41Gen) reject(class string) {
	g.ok = false
	g.class = class
}

func (g *verifC41Gen) take(depth int) bool {
	if depth > g.maxDepth {
		return false
	}
	i := g.node
	g.node++
	return i == g.attack
}

func verifC41BE(p []byte) uint64 {
	var x uint64
	for _, c := range p {
		x = x<<8 | uint64(c)
	}
	return x
}

// ---- unsigned integers ----------------------------------------------------

// msgpack unsigned integer of width class w (0 fixint, 1..4 uint8..uint64),
// payload symbolic and NOT constrained to be minimal (the decoder accepts any)
func (g *verifC41Gen) uintForm(w int) uint64 {
	switch w {
	case 0:
		b := vr.U8("fixint")
		vr.Assume(b < 0x80)
		g.put(b)
		return uint64(b)
	case 1:
		p := vr.BytesN("u8", 1)
		g.put(0xcc)
		g.put(p...)
		return verifC41BE(p)
	case 2:
		p := vr.BytesN("u16", 2)
		g.put(0xcd)
		g.put(p...)
		return verifC41BE(p)
	case 3:
		p := vr.BytesN("u32", 4)
		g.put(0xce)
		g.put(p...)
		return verifC41BE(p)
	}
	p := vr.BytesN("u64", 8)
	g.put(0xcf)
	g.put(p...)
	return verifC41BE(p)
}

const verifC41UintClasses = 13

func (g *verifC41Gen) genUint(path string, depth int) {
	g.mark()
	if !g.take(depth) {
		g.seq++
		g.setU(path, g.uintForm(g.seq%5))
		return
	}
	c := vr.Choice("uint.class", verifC41UintClasses)
	switch c {
	case 0: // nil reads as 0
		g.class = "uint.nil"
		g.put(0xc0)
		g.setU(path, 0)
	case 1, 2, 3, 4: // signed forms: accepted iff not negative
		g.class = "uint.signed"
		n := 1 << (c - 1)
		p := vr.BytesN("int", n)
		g.put(0xd0 + byte(c-1))
		g.put(p...)
		if p[0]&0x80 != 0 {
			g.reject("uint.negative")
		} else {
			g.setU(path, verifC41BE(p))
		}
	case 5:
		g.put(0xff) // negative fixint
		g.reject("uint.negative")
	case 6:
		g.put(0xc4, 0x00) // bin8
		g.reject("uint.wrong-type")
	case 7:
		g.put(0xa0) // fixstr
		g.reject("uint.wrong-type")
	case 8:
		g.put(0xc1) // never used by msgpack
		g.reject("uint.wrong-type")
	case 9:
		g.put(0xc3) // true
		g.reject("uint.wrong-type")
	case 10:
		g.put(0xcb) // float64
		g.put(vr.BytesN("float", 8)...)
		g.reject("uint.wrong-type")
	case 11:
		g.put(0x90) // empty array
		g.reject("uint.wrong-type")
	case 12:
		g.put(0x80) // empty map
		g.reject("uint.wrong-type")
	}
}

// ---- fixed-size byte arrays -------------------------------------------------

func (g *verifC41Gen) payload(n int) []byte {
	if g.full {
		return vr.BytesN("bin", n)
	}
	p := make([]byte, n)
	for i := range p {
		p[i] = byte(i*37 + 11)
	}
	if n > 0 {
		p[0] = vr.U8("bin.first")
		p[n-1] = vr.U8("bin.last")
	}
	return p
}

func (g *verifC41Gen) be(n, width int) {
	for i := width - 1; i >= 0; i-- {
		g.put(byte(n >> (8 * uint(i))))
	}
}

const verifC41BinClasses = 25

func (g *verifC41Gen) genBin(path string, n, depth int) {
	g.mark()
	if !g.take(depth) {
		p := g.payload(n)
		g.put(0xc4, byte(n))
		g.put(p...)
		g.setB(path, n, p)
		return
	}
	g.class = "bin.accepted-variant"
	c := vr.Choice("bin.class", verifC41BinClasses)
	// (marker, width of the length field, announced length): str/bin family
	type hdr struct {
		m    byte
		w, l int
	}
	fix := n
	if fix > 31 {
		fix = 31
	}
	family := []hdr{
		{0xc4, 1, n - 1}, {0xc4, 1, n + 1}, {0xc4, 1, 0}, // bin8 shorter, longer, empty
		{0xc5, 2, n}, {0xc6, 4, n}, // bin16, bin32
		{0xd9, 1, n}, {0xda, 2, n}, {0xdb, 4, n}, // str8, str16, str32
		{0xa0 | byte(fix), 0, fix}, // fixstr
	}
	switch {
	case c < len(family):
		h := family[c]
		p := g.payload(h.l)
		g.put(h.m)
		g.be(h.l, h.w)
		g.put(p...)
		g.setB(path, n, p)
	case c == 9: // nil clears the array
		g.put(0xc0)
		g.setB(path, n, make([]byte, n))
	case c == 10: // lengths far beyond the input
		g.put(0xc6, 0xff, 0xff, 0xff, 0xff)
		g.reject("bin.oversized")
	case c == 11:
		g.put(0xc5, 0xff, 0xff)
		g.reject("bin.oversized")
	case c == 12:
		g.put(0xdb, 0xff, 0xff, 0xff, 0xfe)
		g.reject("bin.oversized")
	case c == 13: // array of small integers (fixarray, fixint elements)
		k := n
		if k > 15 {
			k = 15
		}
		g.put(0x90 | byte(k))
		p := make([]byte, k)
		for i := range p {
			p[i] = vr.U8("elem")
			vr.Assume(p[i] < 0x80)
		}
		g.put(p...)
		g.setB(path, n, p)
	case c == 14: // array16 of n elements, uint8 form
		g.put(0xdc)
		g.be(n, 2)
		p := make([]byte, n)
		for i := range p {
			p[i] = byte(200 + i)
		}
		p[0] = vr.U8("elem")
		for i := range p {
			g.put(0xcc, p[i])
		}
		g.setB(path, n, p)
	case c == 15: // one element too many
		g.put(0xdc)
		g.be(n+1, 2)
		for i := 0; i <= n; i++ {
			g.put(0x01)
		}
		g.reject("bin.array-too-long")
	case c == 16: // element that is not a byte
		g.put(0x92, 0x01, 0xcd, 0x01, 0x00)
		g.reject("bin.elem-overflow")
	case c == 17: // a map is read as the array of its keys and values
		g.put(0x81, 0x01, 0x02)
		g.setB(path, n, []byte{1, 2})
	case c == 18:
		g.put(0xde, 0x00, 0x01, 0x03, 0x04)
		g.setB(path, n, []byte{3, 4})
	case c == 19:
		g.put(0xdf, 0xff, 0xff, 0xff, 0xff)
		g.reject("bin.oversized")
	case c == 20:
		g.put(0xdd, 0xff, 0xff, 0xff, 0xff)
		g.reject("bin.oversized")
	case c == 21:
		g.put(0x05)
		g.reject("bin.wrong-type")
	case c == 22:
		g.put(0xc3)
		g.reject("bin.wrong-type")
	case c == 23:
		g.put(0xc1)
		g.reject("bin.wrong-type")
	case c == 24:
		g.put(0xcf)
		g.put(vr.BytesN("u64", 8)...)
		g.reject("bin.wrong-type")
	}
}

// ---- structs ----------------------------------------------------------------

func (g *verifC41Gen) key(k string) {
	g.mark()
	g.put(0xa0 | byte(len(k)))
	g.put([]byte(k)...)
}

func (g *verifC41Gen) field(s *verifC41Node, i int, path string, depth int) {
	g.gen(s.subs[i], path+"."+s.keys[i], depth+1)
}

func (g *verifC41Gen) mapHeader(n, form int) {
	switch form {
	case 0:
		g.put(0x80 | byte(n))
	case 1:
		g.put(0xde)
		g.be(n, 2)
	case 2:
		g.put(0xdf)
		g.be(n, 4)
	}
}

func (g *verifC41Gen) arrayHeader(n, form int) {
	switch form {
	case 0:
		g.put(0x90 | byte(n))
	case 1:
		g.put(0xdc)
		g.be(n, 2)
	case 2:
		g.put(0xdd)
		g.be(n, 4)
	}
}

const verifC41StructClasses = 24

func (g *verifC41Gen) genStruct(s *verifC41Node, path string, depth int) {
	g.mark()
	order := s.sorted()
	nf := len(order)
	if !g.take(depth) {
		g.mapHeader(nf, 0)
		for _, i := range order {
			g.key(s.keys[i])
			g.field(s, i, path, depth)
		}
		return
	}
	g.class = "struct.accepted-variant"
	c := vr.Choice("struct.class", verifC41StructClasses)
	all := func() {
		for _, i := range order {
			g.key(s.keys[i])
			g.field(s, i, path, depth)
		}
	}
	first := order[0]
	switch c {
	case 0: // nil: the zero value
		g.put(0xc0)
		g.zero(path)
	case 1: // empty map: nothing changes
		g.put(0x80)
	case 2, 3: // wider map headers
		g.mapHeader(nf, c-1)
		all()
	case 4: // any key order
		g.mapHeader(nf, 0)
		for j := nf - 1; j >= 0; j-- {
			g.key(s.keys[order[j]])
			g.field(s, order[j], path, depth)
		}
	case 5: // a key twice: the last one wins
		g.mapHeader(nf+1, 0)
		all()
		g.key(s.keys[first])
		g.field(s, first, path, depth)
	case 6: // only the last field
		g.mapHeader(1, 0)
		g.key(s.keys[order[nf-1]])
		g.field(s, order[nf-1], path, depth)
	case 7: // key as str8
		g.mapHeader(1, 0)
		g.put(0xd9, byte(len(s.keys[first])))
		g.put([]byte(s.keys[first])...)
		g.field(s, first, path, depth)
	case 8: // key as bin8
		g.mapHeader(1, 0)
		g.put(0xc4, byte(len(s.keys[first])))
		g.put([]byte(s.keys[first])...)
		g.field(s, first, path, depth)
	case 9: // key as str16
		g.mapHeader(1, 0)
		g.put(0xda, 0, byte(len(s.keys[first])))
		g.put([]byte(s.keys[first])...)
		g.field(s, first, path, depth)
	case 10: // a field the type does not have
		g.mapHeader(nf+1, 0)
		all()
		g.key("zz")
		g.put(0xc0)
		g.reject("struct.unknown-field")
	case 11: // nil key = empty field name
		g.mapHeader(1, 0)
		g.put(0xc0, 0xc0)
		g.reject("struct.unknown-field")
	case 12: // key that is not a string
		g.mapHeader(1, 0)
		g.put(0x01, 0xc0)
		g.reject("struct.bad-key")
	case 13: // prefix of a real key
		g.mapHeader(1, 0)
		g.key(s.keys[first][:len(s.keys[first])-1] + "\x00")
		g.put(0xc0)
		g.reject("struct.unknown-field")
	case 14, 15, 16: // array form, all fields in declaration order
		g.arrayHeader(nf, c-14)
		for i := range s.subs {
			g.field(s, i, path, depth)
		}
	case 17: // array form, first field only
		g.arrayHeader(1, 0)
		g.field(s, 0, path, depth)
	case 18: // empty array: nothing changes
		g.put(0x90)
	case 19: // array form with one element too many
		g.arrayHeader(nf+1, 0)
		for i := range s.subs {
			g.field(s, i, path, depth)
		}
		g.put(0xc0)
		g.reject("struct.array-too-long")
	case 20: // counts far beyond the input
		g.put(0xdf, 0xff, 0xff, 0xff, 0xff)
		all()
		g.reject("struct.oversized")
	case 21:
		g.put(0xdd, 0xff, 0xff, 0xff, 0xff)
		for i := range s.subs {
			g.field(s, i, path, depth)
		}
		g.reject("struct.oversized")
	case 22: // wrong types
		g.put(0x01)
		g.reject("struct.wrong-type")
	case 23:
		g.put(0xc4, 0x00)
		g.reject("struct.wrong-type")
	}
}

// ---- fixed-size arrays of objects ------------------------------------------

const verifC41ArrayClasses = 12

func (g *verifC41Gen) elems(s *verifC41Node, path, sep string, k, depth int) {
	for i := 0; i < k; i++ {
		g.gen(s.subs[0], path+sep+string(rune('0'+i)), depth+1)
	}
}

func (g *verifC41Gen) genArray(s *verifC41Node, path string, depth int) {
	g.mark()
	n := s.n
	if !g.take(depth) {
		g.arrayHeader(n, 0)
		g.elems(s, path, ".", n, depth)
		return
	}
	g.class = "array.accepted-variant"
	c := vr.Choice("array.class", verifC41ArrayClasses)
	switch c {
	case 0: // nil and the empty array: nothing changes
		g.put(0xc0)
	case 1:
		g.put(0x90)
	case 2: // fewer elements
		g.arrayHeader(n-1, 0)
		g.elems(s, path, ".", n-1, depth)
	case 3, 4:
		g.arrayHeader(n, c-2)
		g.elems(s, path, ".", n, depth)
	case 5: // a map header announcing n/2 pairs is read as n elements
		if n%2 == 0 {
			g.mapHeader(n/2, 0)
			g.elems(s, path, ".", n, depth)
		} else {
			g.put(0x80)
		}
	case 6: // one element too many
		g.arrayHeader(n+1, 0)
		g.elems(s, path, ".", n, depth)
		g.put(0xc0)
		g.reject("array.too-long")
	case 7:
		g.put(0xdd, 0xff, 0xff, 0xff, 0xff)
		g.reject("array.oversized")
	case 8:
		g.put(0xdf, 0xff, 0xff, 0xff, 0xff)
		g.reject("array.oversized")
	case 9:
		g.put(0xdc, 0xff, 0xff)
		g.reject("array.oversized")
	case 10:
		g.put(0x01)
		g.reject("array.wrong-type")
	case 11:
		g.put(0xc4, 0x00)
		g.reject("array.wrong-type")
	}
}

// ---- slices with an allocbound ------------------------------------------------

const verifC41SliceClasses = 19

func (g *verifC41Gen) genSlice(s *verifC41Node, path string, depth int) {
	g.mark()
	bound := s.n
	if !g.take(depth) {
		g.arrayHeader(1, 0)
		g.elems(s, path, "#", 1, depth)
		g.setLen(path, 1)
		return
	}
	g.class = "slice.accepted-variant"
	c := vr.Choice("slice.class", verifC41SliceClasses)
	over := func() {
		g.overBound = true
		g.reject("slice.over-allocbound")
	}
	switch c {
	case 0: // nil: the nil slice
		g.put(0xc0)
		g.setLen(path, 0)
	case 1:
		g.put(0x90)
		g.setLen(path, 0)
	case 2:
		g.arrayHeader(2, 0)
		g.elems(s, path, "#", 2, depth)
		g.setLen(path, 2)
	case 3, 4:
		g.arrayHeader(1, c-2)
		g.elems(s, path, "#", 1, depth)
		g.setLen(path, 1)
	case 5: // a map header announcing one pair is read as two elements
		g.mapHeader(1, 0)
		g.elems(s, path, "#", 2, depth)
		g.setLen(path, 2)
	case 6:
		g.mapHeader(1, 1)
		g.elems(s, path, "#", 2, depth)
		g.setLen(path, 2)
	case 7: // exactly the bound, elements missing: allocation allowed, input short
		g.arrayHeader(bound, 2)
		g.elems(s, path, "#", 1, depth)
		g.reject("slice.short")
	case 8: // one more than the bound
		g.arrayHeader(bound+1, 2)
		g.elems(s, path, "#", 1, depth)
		over()
	case 9:
		if bound+1 < 1<<16 {
			g.arrayHeader(bound+1, 1)
		} else {
			g.arrayHeader(bound+1, 2)
		}
		over()
	case 10:
		g.put(0xdd, 0xff, 0xff, 0xff, 0xff)
		over()
	case 11:
		g.put(0xdd, 0x80, 0x00, 0x00, 0x00)
		over()
	case 12: // ANY count above the bound
		p := vr.BytesN("count", 4)
		vr.Assume(verifC41BE(p) > uint64(bound))
		g.put(0xdd)
		g.put(p...)
		g.elems(s, path, "#", 1, depth)
		over()
	case 13: // maps: twice the announced count
		g.mapHeader(bound/2+1, 2)
		g.elems(s, path, "#", 1, depth)
		over()
	case 14:
		g.put(0xdf, 0xff, 0xff, 0xff, 0xff)
		over()
	case 15:
		g.put(0xde, 0xff, 0xff)
		if 2*0xffff > bound {
			over()
		} else {
			g.reject("slice.short")
		}
	case 16:
		g.put(0x01)
		g.reject("slice.wrong-type")
	case 17:
		g.put(0xc4, 0x00)
		g.reject("slice.wrong-type")
	case 18:
		g.put(0xa0)
		g.reject("slice.wrong-type")
	}
}

func (g *verifC41Gen) gen(s *verifC41Node, path string, depth int) {
	switch s.kind {
	case verifC41KUint:
		g.genUint(path, depth)
	case verifC41KBin:
		g.genBin(path, s.n, depth)
	case verifC41KStruct:
		g.genStruct(s, path, depth)
	case verifC41KArray:
		g.genArray(s, path, depth)
	case verifC41KSlice:
		g.genSlice(s, path, depth)
	}
}

// byte-for-byte equality as ONE condition (no branch per byte)
func verifC41Same(a, b []byte) bool {
	if len(a) != len(b) {
		return false
	}
	var diff byte
	for i := range a {
		diff |= a[i] ^ b[i]
	}
	return diff == 0
}

// accumulates the comparison of the decoded object with the reference
type verifC41Check struct {
	g    *verifC41Gen
	diff uint64
	lens bool // all slice lengths as expected
	max  int  // longest slice (length or capacity) found in the object
}

func (c *verifC41Check) u(path string, got uint64) {
	c.diff |= got ^ c.g.wantU(path)
}

func (c *verifC41Check) b(path string, got []byte) {
	want := c.g.wantB(path, len(got))
	if len(want) != len(got) {
		c.diff |= 1
		return
	}
	var d byte
	for i := range got {
		d |= got[i] ^ want[i]
	}
	c.diff |= uint64(d)
}

func (c *verifC41Check) slice(path string, ln, cp int) {
	if ln > c.max {
		c.max = ln
	}
	if cp > c.max {
		c.max = cp
	}
	w := c.g.wantLen(path)
	if w < 0 {
		w = 0 // not in the input: stays as before (nil)
	}
	if ln != w {
		c.lens = false
	}
}

// (every harness file must hold a harness of the property to be overlaid)
// Self-check of the generator: the canonical key order is the sorted one and
// the attackable-node count matches the generation.
//
//verif:harness prop=C41 reach=done budget=60
func VerifC41GeneratorSelfCheck() {
	s := verifC41SchemaBundle(5)
	o := s.sorted()
	want := []string{"eqv", "per", "prop", "rnd", "step", "vote"}
	for i, j := range o {
		vr.Assert("c41.gen.sorted", s.keys[j] == want[i])
	}
	for depth := 0; depth < 5; depth++ {
		g := &verifC41Gen{attack: -1, maxDepth: depth, ok: true}
		g.gen(s, "", 0)
		vr.Assert("c41.gen.count", g.node == s.count(0, depth))
		vr.Assert("c41.gen.canonical-ok", g.ok)
	}
	vr.Reach("done")
}
