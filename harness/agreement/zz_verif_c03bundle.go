//go:build verif

package agreement

// C03 (bundle side): the certificate a node commits with is the bundle the
// cert-step vote tracker generated.  The player-level C03 harnesses take that
// bundle as given; this harness closes the gap by running the C06 bounded model
// check of the real voteTracker.handle / genBundle for the CERT step under
// property C03: the bundle handed to the player has all votes for the
// threshold value, pairwise distinct senders disjoint from its equivocation
// pairs, and weight >= threshold - i.e. it is a certificate that
// Certificate.Authenticate accepts (C04 decides the verifier side).
//
// The body (verifC06Counting) lives in zz_verif_c06.go, which declares itself
// a helper of C03.

//verif:noop (*github.com/algorand/go-algorand/agreement.tracer).log
//verif:noop (github.com/algorand/go-algorand/data/basics.Address).String
//verif:noop (github.com/algorand/go-algorand/crypto.Digest).String

//verif:harness prop=C03 reach=done,fired,duplicate,equivocation unwind=12 budget=450 thorough.budget=3000
func VerifC03CertBundleFromTracker() {
	verifC06Counting(cert, 5, verifC06Senders, true)
}
