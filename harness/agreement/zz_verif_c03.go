//go:build verif

package agreement

import (
	vr "github.com/algorand/go-algorand/internal/verifrt"
)

// C03 (lemma level): every ensureAction the player emits hands the ledger a
// payload together with Certificate(e.Bundle) of a CERT-step threshold event e
// for the player's round, and the payload's value is e's proposal.
//
// Decided on one step of the real player.handle from an arbitrary player
// state against the oracle router of zz_verif_c01.go, on every path that can
// emit an ensureAction:
//   (1) handleThresholdEvent(certThreshold) with the staged payload present,
//       delivered directly, via a verified vote / bundle, or re-handled by
//       enterRound from the new round's pipelined freshest bundle (so one step
//       may commit two consecutive rounds);
//   (2) the late-payload path of handleMessageEvent(payloadVerified), which
//       pairs the verified payload with the stored freshest cert bundle;
// and that no other event emits one.  Assertions (verifC01AssertEnsure, tag
// c03.*): the k-th ensureAction's Certificate is field-for-field the bundle of
// the k-th cert threshold event handled/consulted; that event is a
// certThreshold; Certificate.Round is the player's round at that moment
// (pre-step round + k), Step == cert, Proposal != bottom; the payload is the
// one the proposal machine reported committable for exactly the event's
// (round, period) - or the verified payload itself on path (2) - and
// payload.value() == Certificate.Proposal; the player ends in round + #ensure.
//
// Assumed (oracle contracts, each maintained by the named code):
//   - a threshold event reaching the player is for the player's round
//     (voteAggregator.handle: tE.Round == PlayerRound, bundleFresh;
//     voteTrackerRound keeps per-round freshest events), its bundle header
//     repeats its (round, period, step, proposal) and step matches the kind
//     (C06 c06.event-kind / c06.bundle.header);
//   - after a soft/cert threshold e was delivered to the proposal machine the
//     staging value of (e.Round, e.Period) is e.Proposal (proposalTracker.handle);
//   - a committable staging answer carries a payload whose value() is the
//     staged value (proposalStore: Assemblers is keyed by payload value);
//   - hashing is injective on payloads (value() stubbed by a marker byte).
// With C06 (the bundle of a threshold event is a quorum for its value, distinct
// senders, weight >= threshold) and C04 (what Authenticate accepts) this gives
// the property; real signatures and Ledger.EnsureBlock are outside.

//verif:noop (*github.com/algorand/go-algorand/agreement.tracer).log
//verif:noop (github.com/algorand/go-algorand/data/basics.Address).String
//verif:noop (github.com/algorand/go-algorand/crypto.Digest).String
//verif:stub (github.com/algorand/go-algorand/agreement.step).nextVoteRanges = verifStubNextVoteRanges
//verif:stub (github.com/algorand/go-algorand/agreement.unauthenticatedProposal).value = verifStubProposalValue

// (1) direct delivery; the new round's pipelined bundle may commit the next round as well
//
//verif:harness prop=C03 reach=done,ensure,second unwind=10 budget=250 thorough.budget=2400
func VerifC03CertThreshold() {
	verifC01InstallConsensus()
	o := verifC01NewOracle()
	o.freshestBudget = 2
	o.allowPipelined = true
	o.allowLowest = true
	p := verifC01Player()
	pre := verifC01Pre{p.Round, p.Period, p.Step}
	o.preRound = pre.Round
	e := verifC01Threshold(o, certThreshold, pre.Round, "ev")
	out := verifC01Step(p, verifC01RouterHandle(o), e)
	nE := verifC01AssertEnsure("c03", o, pre.Round, verifC01EnsureSources(o, &e), nil, p, out)
	if nE == 2 {
		vr.Reach("second")
	}
	vr.Assert("c03.at-most-two-rounds-per-step", nE <= 2)
	vr.Reach("done")
}

// (1) via a verified vote or bundle that completes the cert quorum
//
//verif:harness prop=C03 reach=done,ensure unwind=10 budget=250 thorough.budget=2400
func VerifC03CertQuorumMessage() {
	verifC01InstallConsensus()
	o := verifC01NewOracle()
	o.onlyKind = certThreshold
	p := verifC01Player()
	pre := verifC01Pre{p.Round, p.Period, p.Step}
	o.preRound = pre.Round
	var e messageEvent
	if vr.Bool("ev.isbundle") {
		e = verifC01MessageBase(bundleVerified)
		e.Input.UnauthenticatedBundle.Round = round(vr.U64("ev.bundle.round"))
		e.Input.UnauthenticatedBundle.Period = period(vr.U64("ev.bundle.period"))
		e.Input.UnauthenticatedBundle.Step = cert
		e.Input.UnauthenticatedBundle.Proposal = verifC01PickVal(o, "ev.bundle.value")
		e.Input.Bundle.U = e.Input.UnauthenticatedBundle
	} else {
		e = verifC01MessageBase(voteVerified)
		e.Input.Vote = verifC01SymbolicVote(o, false)
		e.Input.UnauthenticatedVote = e.Input.Vote.u()
	}
	out := verifC01Step(p, verifC01RouterHandle(o), e)
	verifC01AssertEnsure("c03", o, pre.Round, verifC01EnsureSources(o, verifC01AnsweredThreshold(o)), nil, p, out)
	vr.Reach("done")
}

// (1) via enterRound on a round interruption: the new round's stored cert bundle
//
//verif:harness prop=C03 reach=done,ensure unwind=10 budget=250 thorough.budget=2400
func VerifC03RoundInterruption() {
	verifC01InstallConsensus()
	o := verifC01NewOracle()
	o.onlyKind = certThreshold
	o.freshestBudget = 2
	p := verifC01Player()
	pre := verifC01Pre{p.Round, p.Period, p.Step}
	o.preRound = pre.Round
	var e roundInterruptionEvent
	e.Round = round(vr.U64("ev.round"))
	e.Proto.Version = "vT"
	vr.Assume(e.Round > pre.Round && e.Round < 1<<62) // playerContract.call: stale round interruptions are not delivered
	out := verifC01Step(p, verifC01RouterHandle(o), e)
	verifC01AssertEnsure("c03", o, e.Round, verifC01EnsureSources(o, nil), nil, p, out)
	vr.Reach("done")
}

// (2) the late payload; the stored freshest bundle may be of any kind
//
//verif:harness prop=C03 reach=done,ensure,latepayload unwind=10 budget=250 thorough.budget=2400
func VerifC03LatePayload() { verifC03LatePayload(none, 1) }

// (2) followed by (1) in the same step: the next round's pipelined cert bundle
//
//verif:harness prop=C03 reach=done,ensure,latepayload,second unwind=10 budget=250 thorough.budget=2400
func VerifC03LatePayloadTwoRounds() { verifC03LatePayload(certThreshold, 2) }

func verifC03LatePayload(onlyKind eventType, budget int) {
	verifC01InstallConsensus()
	o := verifC01NewOracle()
	o.onlyKind = onlyKind
	o.freshestBudget = budget
	o.allowLowest = true
	p := verifC01Player()
	pre := verifC01Pre{p.Round, p.Period, p.Step}
	o.preRound = pre.Round
	e := verifC01MessageBase(payloadVerified)
	e.Input.Proposal = verifC01Payload(verifC01PickVal(o, "ev.payload.value"))
	e.Input.UnauthenticatedProposal = e.Input.Proposal.u()
	out := verifC01Step(p, verifC01RouterHandle(o), e)
	nE := verifC01AssertEnsure("c03", o, pre.Round, verifC01EnsureSources(o, nil), &e, p, out)
	if nE == 2 {
		vr.Reach("second")
	}
	vr.Reach("done")
}

// no other event commits a block
//
//verif:harness prop=C03 reach=done unwind=10 budget=250 thorough.budget=2400
func VerifC03NothingElseEnsures() {
	verifC01InstallConsensus()
	o := verifC01NewOracle()
	p := verifC01Player()
	pre := verifC01Pre{p.Round, p.Period, p.Step}
	o.preRound = pre.Round
	var e event
	switch vr.Choice("ev.kind", 5) {
	case 0:
		e = verifC01Threshold(o, softThreshold, pre.Round, "ev")
	case 1:
		e = verifC01Threshold(o, nextThreshold, pre.Round, "ev")
	case 2:
		vr.Assume(!(p.Step < next && p.Napping)) // playerContract.call
		e = verifC01TimeoutEvent(timeout, pre.Round)
	case 3:
		e = verifC01TimeoutEvent(fastTimeout, pre.Round)
	case 4:
		me := verifC01MessageBase(voteVerified)
		me.Input.Vote = verifC01SymbolicVote(o, true)
		me.Input.UnauthenticatedVote = me.Input.Vote.u()
		e = me
	}
	out := verifC01Step(p, verifC01RouterHandle(o), e)
	vr.Assert("c03.no-ensure-without-cert-threshold", verifC01CountEnsure(out) == 0)
	vr.Assert("c03.round-unchanged", p.Round == pre.Round)
	vr.Reach("done")
}
