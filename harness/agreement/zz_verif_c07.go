//go:build verif

package agreement

import (
	"errors"
	"time"

	"github.com/algorand/go-algorand/config"
	"github.com/algorand/go-algorand/data/basics"
	"github.com/algorand/go-algorand/data/committee"
	vr "github.com/algorand/go-algorand/internal/verifrt"
	"github.com/algorand/go-algorand/logging"
	"github.com/algorand/go-algorand/protocol"
	"github.com/algorand/go-algorand/util/timers"
)

// C07: persisted consensus state restores exactly.
//
// The crash state is the msgpack encoding (generated codecs, protocol.Encode /
// protocol.Decode) of the player and of the router tree, whose leaves are the
// trackers. Checked here, for values with symbolic contents (zero / non-zero
// pattern and integer magnitude class enumerated, see zz_verif_c40ref.go):
//   c07.roundtrip   UnmarshalMsg(MarshalMsg(x)) succeeds, leaves nothing over
//                   and yields x (every persisted field, every map entry)
//   c07.canonical   MarshalMsg(x) is the tag-derived reference canonical
//                   encoding (what the reflection fallback is specified to produce,
//                   so both decode paths read the same bytes)
// for Deadline, vote, equivocationVote, player, proposalSeeker/proposalTracker,
// proposalVoteCounter/voteTracker (maps with 0..1 entries; nil and empty maps),
// and for persistence.go's encode()/decode() pair with reflect=false:
//   c07.encode.*    the round filter (children with rnd < p.Round dropped, the
//                   others kept), player and clock restored exactly.
//
// Outside (stated, not checked): diskState.Actions / the msgp-failure fallback
// (protocol.EncodeReflect / DecodeReflect: reflection, not encodable);
// player.Pending entries (messageEvent payloads) and router maps beyond one
// entry; "subsequent behaviour identical" (follows from state equality of a
// deterministic machine for the PERSISTED fields only - see the note on
// unpersisted fields in VerifC07Player).

// --- symbolic signed integers ---------------------------------------------------------

// magnitude classes of an int64: 0..4 as for uint (positive), 5..9 negative:
// -32..-1, int8, int16, int32, int64
func verifC07I64(f *verifRefFill, label string) int64 {
	if !f.next() {
		return 0
	}
	x := vr.I64(label)
	switch (f.leaf + f.rot) % 10 {
	case 0:
		vr.Assume(x >= 1 && x < 1<<7)
	case 1:
		vr.Assume(x >= 1<<7 && x < 1<<8)
	case 2:
		vr.Assume(x >= 1<<8 && x < 1<<16)
	case 3:
		vr.Assume(x >= 1<<16 && x < 1<<32)
	case 4:
		vr.Assume(x >= 1<<32)
	case 5:
		vr.Assume(x >= -32 && x < 0)
	case 6:
		vr.Assume(x >= -1<<7 && x < -32)
	case 7:
		vr.Assume(x >= -1<<15 && x < -1<<7)
	case 8:
		vr.Assume(x >= -1<<31 && x < -1<<15)
	case 9:
		vr.Assume(x < -1<<31)
	}
	return x
}

func verifC07I8(f *verifRefFill, label string) int8 {
	if !f.next() {
		return 0
	}
	x := int8(vr.U8(label))
	switch (f.leaf + f.rot) % 3 {
	case 0:
		vr.Assume(x > 0)
	case 1:
		vr.Assume(x >= -32 && x < 0)
	case 2:
		vr.Assume(x < -32)
	}
	return x
}

// --- per type ---------------------------------------------------------------------------------

func verifC07FillDeadline(f *verifRefFill, v *Deadline) {
	v.Duration = time.Duration(verifC07I64(f, "Duration"))
	v.Type = TimeoutType(verifC07I8(f, "Type"))
}

// types.go: _struct `codec:","`; Duration, Type (no tags: the Go field names)
func verifC07RefDeadline(v *Deadline) *verifRefVal {
	return verifRefS(",", "Duration", verifRefI(int64(v.Duration)), "Type", verifRefI(int64(v.Type)))
}

func verifC07FillCredential(f *verifRefFill, v *committee.Credential) {
	v.Weight = f.u64("wt")
	f.bytes("h", v.VrfOut[:])
	v.DomainSeparationEnabled = f.boolean("ds")
	f.bytes("v", v.Hashable.RawOut[:])
	f.bytes("m", v.Hashable.Member[:])
	v.Hashable.Iter = f.u64("i")
	f.bytes("pf", v.Proof[:])
}

// committee/credential.go: Credential `codec:",omitempty,omitemptyarray"`; wt, h, ds,
// hc {v, m, i} (same struct tag); the embedded UnauthenticatedCredential is
// inlined: pf
func verifC07RefCredential(v *committee.Credential) *verifRefVal {
	return verifRefS(",omitempty,omitemptyarray",
		"wt", verifRefU(v.Weight),
		"h", verifRefB(v.VrfOut[:]),
		"ds", verifRefBo(v.DomainSeparationEnabled),
		"hc", verifRefS(",omitempty,omitemptyarray",
			"v", verifRefB(v.Hashable.RawOut[:]),
			"m", verifRefB(v.Hashable.Member[:]),
			"i", verifRefU(v.Hashable.Iter)),
		"pf", verifRefB(v.Proof[:]))
}

func verifC07FillVote(f *verifRefFill, v *vote) {
	verifC40FillRawVote(f, &v.R)
	verifC07FillCredential(f, &v.Cred)
	verifC40FillOTS(f, &v.Sig)
}

const verifC07VoteLeaves = 8 + 7 + 6

// vote.go: vote `codec:",omitempty,omitemptyarray"`; r, cred, sig,omitempty,omitemptycheckstruct
func verifC07RefVote(v *vote) *verifRefVal {
	return verifRefS(",omitempty,omitemptyarray",
		"r", verifC40RefRawVote(&v.R),
		"cred", verifC07RefCredential(&v.Cred),
		"sig,omitempty,omitemptycheckstruct", verifC40RefOTS(&v.Sig))
}

func verifC07FillEqVote(f *verifRefFill, v *equivocationVote) {
	f.bytes("snd", v.Sender[:])
	v.Round = basics.Round(f.u64("rnd"))
	v.Period = period(f.u64("per"))
	v.Step = step(f.u64("step"))
	verifC07FillCredential(f, &v.Cred)
	verifC40FillPV(f, &v.Proposals[0])
	verifC40FillPV(f, &v.Proposals[1])
	verifC40FillOTS(f, &v.Sigs[0])
	verifC40FillOTS(f, &v.Sigs[1])
}

const verifC07EqVoteLeaves = 4 + 7 + 8 + 12

// vote.go: equivocationVote `codec:",omitempty,omitemptyarray"`; snd, rnd, per, step,
// cred, props [2], sigs [2] (omitemptyarray: an array all of whose elements are
// empty is omitted)
func verifC07RefEqVote(v *equivocationVote) *verifRefVal {
	return verifRefS(",omitempty,omitemptyarray",
		"snd", verifRefB(v.Sender[:]),
		"rnd", verifRefU(uint64(v.Round)),
		"per", verifRefU(uint64(v.Period)),
		"step", verifRefU(uint64(v.Step)),
		"cred", verifC07RefCredential(&v.Cred),
		"props", verifRefArr(verifC40RefPV(&v.Proposals[0]), verifC40RefPV(&v.Proposals[1])),
		"sigs", verifRefArr(verifC40RefOTS(&v.Sigs[0]), verifC40RefOTS(&v.Sigs[1])))
}

func verifC07Result(tagPrefix string, enc []byte, ref *verifRefVal, rem []byte, err error, same bool) {
	vr.Assert(tagPrefix+".canonical", verifRefSame(enc, ref.encode(nil)))
	vr.Assert(tagPrefix+".roundtrip", err == nil && len(rem) == 0 && same)
	if ref.zero() {
		vr.Reach("zero-value")
	}
	vr.Reach("done")
}

// Deadline{Duration, Type}: every magnitude class of both (10 x 3) plus zeros.
//
//verif:harness prop=C07 reach=done,zero-value,negative unwind=16 budget=120 thorough.budget=600
func VerifC07Deadline() {
	f := &verifRefFill{mask: verifRefSubset(vr.Choice("subset", 4), 2), rot: vr.Choice("rot", 10)}
	var v, w Deadline
	verifC07FillDeadline(f, &v)
	enc := v.MarshalMsg(nil)
	rem, err := w.UnmarshalMsg(enc)
	if v.Duration < 0 {
		vr.Reach("negative")
	}
	verifC07Result("c07.deadline", enc, verifC07RefDeadline(&v), rem, err, w == v)
}

//verif:harness prop=C07 reach=done,zero-value unwind=16 budget=200 thorough.budget=1500
func VerifC07Vote() {
	f := verifC40Pattern(verifC07VoteLeaves)
	var v, w vote
	verifC07FillVote(f, &v)
	enc := v.MarshalMsg(nil)
	rem, err := w.UnmarshalMsg(enc)
	verifC07Result("c07.vote", enc, verifC07RefVote(&v), rem, err, w == v)
}

//verif:harness prop=C07 reach=done,zero-value unwind=16 budget=250 thorough.budget=2400
func VerifC07EquivocationVote() {
	f := verifC40Pattern(verifC07EqVoteLeaves)
	var v, w equivocationVote
	verifC07FillEqVote(f, &v)
	enc := v.MarshalMsg(nil)
	rem, err := w.UnmarshalMsg(enc)
	verifC07Result("c07.eqvote", enc, verifC07RefEqVote(&v), rem, err, w == v)
}

// --- player ---------------------------------------------------------------------------------

func verifC07FillPlayer(f *verifRefFill, v *player) {
	v.Round = basics.Round(f.u64("Round"))
	v.Period = period(f.u64("Period"))
	v.Step = step(f.u64("Step"))
	v.LastConcluding = step(f.u64("LastConcluding"))
	verifC07FillDeadline(f, &v.Deadline)
	v.OldDeadline = time.Duration(verifC07I64(f, "OldDeadline"))
	v.Napping = f.boolean("Napping")
	v.FastRecoveryDeadline = time.Duration(verifC07I64(f, "FastRecoveryDeadline"))
	v.Pending.PendingNext = f.u64("PendingNext")
}

const verifC07PlayerLeaves = 10

// player.go: player `codec:","`: Round, Period, Step, LastConcluding, Deadline
// `codec:"TimersDeadline"`, OldDeadline `codec:"Deadline,omitempty"`, Napping,
// FastRecoveryDeadline, Pending; unexported fields are not encoded.
// proposalTable.go: `codec:",omitempty,omitemptyarray"`; Pending (map), PendingNext
func verifC07RefPlayer(v *player) *verifRefVal {
	pending := &verifRefVal{kind: verifRefMap, isNil: v.Pending.Pending == nil}
	return verifRefS(",",
		"Round", verifRefU(uint64(v.Round)),
		"Period", verifRefU(uint64(v.Period)),
		"Step", verifRefU(uint64(v.Step)),
		"LastConcluding", verifRefU(uint64(v.LastConcluding)),
		"TimersDeadline", verifC07RefDeadline(&v.Deadline),
		"Deadline,omitempty", verifRefI(int64(v.OldDeadline)),
		"Napping", verifRefBo(v.Napping),
		"FastRecoveryDeadline", verifRefI(int64(v.FastRecoveryDeadline)),
		"Pending", verifRefS(",omitempty,omitemptyarray",
			"Pending,allocbound=-", pending,
			"PendingNext", verifRefU(v.Pending.PendingNext)))
}

// every persisted field
func verifC07SamePlayer(a, b *player) bool {
	return a.Round == b.Round && a.Period == b.Period && a.Step == b.Step && a.LastConcluding == b.LastConcluding &&
		a.Deadline == b.Deadline && a.OldDeadline == b.OldDeadline && a.Napping == b.Napping &&
		a.FastRecoveryDeadline == b.FastRecoveryDeadline && a.Pending.PendingNext == b.Pending.PendingNext &&
		len(a.Pending.Pending) == len(b.Pending.Pending)
}

// player: all persisted scalar fields; Pending table without entries (nil or
// empty map: the entries are messageEvents - outside).
//
// NOTE (reported, not asserted): player.lowestCredentialArrivals and
// player.dynamicFilterTimeout are unexported, hence not part of the encoding;
// decode() re-creates an EMPTY arrival history. A restored node therefore uses
// the default filter timeout until the history has refilled, where the
// uncrashed node uses the dynamic one: identical safety-relevant state,
// different timing. The same holds for proposalSeeker.lowestIncludingLate.
//
//verif:harness prop=C07 reach=done,zero-value,old-deadline unwind=16 budget=200 thorough.budget=1500
func VerifC07Player() {
	f := verifC40Pattern(verifC07PlayerLeaves)
	var v, w player
	verifC07FillPlayer(f, &v)
	if vr.Choice("pending", 2) == 1 {
		v.Pending.Pending = map[uint64]*messageEvent{}
	}
	enc := v.MarshalMsg(nil)
	rem, err := w.UnmarshalMsg(enc)
	if v.OldDeadline != 0 {
		vr.Reach("old-deadline")
	}
	// an omitted (empty) map comes back as nil
	vr.Assert("c07.player.pending-nil", w.Pending.Pending == nil)
	verifC07Result("c07.player", enc, verifC07RefPlayer(&v), rem, err, verifC07SamePlayer(&w, &v))
}

// --- proposalTracker -------------------------------------------------------------------------

func verifC07AddrMapRef(isNil bool, keys []basics.Address, vals []*verifRefVal) *verifRefVal {
	m := &verifRefVal{kind: verifRefMap, isNil: isNil}
	for i := range keys {
		m.mkeys = append(m.mkeys, verifRefB(keys[i][:]))
		m.subs = append(m.subs, vals[i])
	}
	return m
}

// proposalTracker.go: proposalSeeker `codec:","`: Lowest, Filled, Frozen (unexported:
// lowestIncludingLate, hasLowestIncludingLate - not encoded);
// proposalTracker `codec:","`: Duplicate (map), Freezer, Staging
//
// Duplicate: nil, empty, one entry (address and flag symbolic).
//
//verif:harness prop=C07 reach=done,nil-map,empty-map,one-entry unwind=16 budget=250 thorough.budget=1500
func VerifC07ProposalTracker() {
	var v, w proposalTracker
	p := vr.Choice("pattern", 2) // all leaves non-zero / all zero
	f := &verifRefFill{mask: verifRefPattern(p, verifC07VoteLeaves+4), rot: vr.Choice("rot", vr.Param(1, 5))}
	verifC07FillVote(f, &v.Freezer.Lowest)
	verifC40FillPV(f, &v.Staging)
	v.Freezer.Filled = vr.Bool("Filled")
	v.Freezer.Frozen = vr.Bool("Frozen")
	var keys []basics.Address
	var vals []*verifRefVal
	switch vr.Choice("duplicate", 3) {
	case 0:
		vr.Reach("nil-map")
	case 1:
		v.Duplicate = map[basics.Address]bool{}
		vr.Reach("empty-map")
	case 2:
		var a basics.Address
		a[0], a[31] = vr.U8("dup.addr"), vr.U8("dup.addr")
		b := vr.Bool("dup.flag")
		v.Duplicate = map[basics.Address]bool{a: b}
		keys, vals = append(keys, a), append(vals, verifRefBo(b))
		vr.Reach("one-entry")
	}
	ref := verifRefS(",",
		"Duplicate,allocbound=-", verifC07AddrMapRef(v.Duplicate == nil, keys, vals),
		"Freezer", verifRefS(",",
			"Lowest", verifC07RefVote(&v.Freezer.Lowest),
			"Filled", verifRefBo(v.Freezer.Filled),
			"Frozen", verifRefBo(v.Freezer.Frozen)),
		"Staging", verifC40RefPV(&v.Staging))
	enc := v.MarshalMsg(nil)
	rem, err := w.UnmarshalMsg(enc)
	same := w.Freezer.Lowest == v.Freezer.Lowest && w.Freezer.Filled == v.Freezer.Filled && w.Freezer.Frozen == v.Freezer.Frozen &&
		w.Staging == v.Staging && len(w.Duplicate) == len(v.Duplicate) && (w.Duplicate == nil) == (v.Duplicate == nil)
	for i := range keys {
		got, ok := w.Duplicate[keys[i]]
		if !ok || got != v.Duplicate[keys[i]] {
			same = false
		}
	}
	verifC07Result("c07.proposaltracker", enc, ref, rem, err, same)
}

// --- voteTracker -----------------------------------------------------------------------------

func verifC07VoteMapRef(m map[basics.Address]vote, keys []basics.Address) *verifRefVal {
	var vals []*verifRefVal
	for _, k := range keys {
		x := m[k]
		vals = append(vals, verifC07RefVote(&x))
	}
	return verifC07AddrMapRef(m == nil, keys, vals)
}

func verifC07SameVoteMap(a, b map[basics.Address]vote, keys []basics.Address) bool {
	same := len(a) == len(b) && (a == nil) == (b == nil)
	for _, k := range keys {
		x, ok := a[k]
		if !ok || x != b[k] {
			same = false
		}
	}
	return same
}

func verifC07Addr(label string) basics.Address {
	var a basics.Address
	a[0], a[31] = vr.U8(label), vr.U8(label)
	return a
}

// voteTracker.go: proposalVoteCounter `codec:","`: Count, Votes (map);
// voteTracker `codec:","`: Voters, Counts (map[proposalValue]proposalVoteCounter),
// Equivocators (map[Address]equivocationVote), EquivocatorsCount.
//
// Each of the four maps: nil / empty / one entry, independently per "shape"
// (0: all nil, 1: all empty, 2: all one entry, 3..6: exactly one of them with
// one entry, the others nil); leaves all non-zero or all zero.
//
//verif:harness prop=C07 reach=done,all-nil,all-empty,all-one unwind=16 budget=280 thorough.budget=2400
func VerifC07VoteTracker() {
	var v, w voteTracker
	shape := vr.Choice("shape", 7)
	p := vr.Choice("pattern", 2)
	f := &verifRefFill{rot: vr.Choice("rot", vr.Param(1, 5))}
	f.mask = verifRefPattern(p, 2*verifC07VoteLeaves+verifC07EqVoteLeaves+4+2)
	has := func(i int) bool { return shape == 2 || shape == 3+i }
	var voters, cvoters, eqs []basics.Address
	var pvs []proposalValue
	if shape == 1 {
		v.Voters = map[basics.Address]vote{}
		v.Counts = map[proposalValue]proposalVoteCounter{}
		v.Equivocators = map[basics.Address]equivocationVote{}
		vr.Reach("all-empty")
	}
	if shape == 0 {
		vr.Reach("all-nil")
	}
	if shape == 2 {
		vr.Reach("all-one")
	}
	if has(0) {
		var x vote
		verifC07FillVote(f, &x)
		a := verifC07Addr("voter")
		v.Voters = map[basics.Address]vote{a: x}
		voters = append(voters, a)
	}
	var counterRef []*verifRefVal
	if has(1) || has(2) {
		var c proposalVoteCounter
		c.Count = f.u64("Count")
		if has(2) {
			var x vote
			verifC07FillVote(f, &x)
			a := verifC07Addr("cvoter")
			c.Votes = map[basics.Address]vote{a: x}
			cvoters = append(cvoters, a)
		}
		var pv proposalValue
		verifC40FillPV(f, &pv)
		v.Counts = map[proposalValue]proposalVoteCounter{pv: c}
		pvs = append(pvs, pv)
		counterRef = append(counterRef, verifRefS(",", "Count", verifRefU(c.Count), "Votes,allocbound=-", verifC07VoteMapRef(c.Votes, cvoters)))
	}
	if has(3) {
		var x equivocationVote
		verifC07FillEqVote(f, &x)
		a := verifC07Addr("equivocator")
		v.Equivocators = map[basics.Address]equivocationVote{a: x}
		eqs = append(eqs, a)
	}
	v.EquivocatorsCount = f.u64("EquivocatorsCount")

	counts := &verifRefVal{kind: verifRefMap, isNil: v.Counts == nil, subs: counterRef}
	for i := range pvs {
		counts.mkeys = append(counts.mkeys, verifC40RefPV(&pvs[i]))
	}
	var eqRef []*verifRefVal
	for _, a := range eqs {
		x := v.Equivocators[a]
		eqRef = append(eqRef, verifC07RefEqVote(&x))
	}
	ref := verifRefS(",",
		"Voters,allocbound=-", verifC07VoteMapRef(v.Voters, voters),
		"Counts,allocbound=-", counts,
		"Equivocators,allocbound=-", verifC07AddrMapRef(v.Equivocators == nil, eqs, eqRef),
		"EquivocatorsCount", verifRefU(v.EquivocatorsCount))

	enc := v.MarshalMsg(nil)
	rem, err := w.UnmarshalMsg(enc)

	same := w.EquivocatorsCount == v.EquivocatorsCount && verifC07SameVoteMap(w.Voters, v.Voters, voters) &&
		len(w.Counts) == len(v.Counts) && (w.Counts == nil) == (v.Counts == nil) &&
		len(w.Equivocators) == len(v.Equivocators) && (w.Equivocators == nil) == (v.Equivocators == nil)
	for _, pv := range pvs {
		c, ok := w.Counts[pv]
		if !ok || c.Count != v.Counts[pv].Count || !verifC07SameVoteMap(c.Votes, v.Counts[pv].Votes, cvoters) {
			same = false
		}
	}
	for _, a := range eqs {
		x, ok := w.Equivocators[a]
		if !ok || x != v.Equivocators[a] {
			same = false
		}
	}
	verifC07Result("c07.votetracker", enc, ref, rem, err, same)
}

// --- persistence.go: encode / decode -------------------------------------------------------

type verifC07Clock struct{ tag byte }

func (c verifC07Clock) Zero() timers.Clock[TimeoutType] { return c }
func (c verifC07Clock) Since() time.Duration             { return 0 }
func (c verifC07Clock) TimeoutAt(time.Duration, TimeoutType) <-chan time.Time {
	return nil
}
func (c verifC07Clock) Encode() []byte { return []byte{c.tag} }
func (c verifC07Clock) Decode(b []byte) (timers.Clock[TimeoutType], error) {
	if len(b) != 1 {
		return nil, errors.New("bad clock")
	}
	return verifC07Clock{b[0]}, nil
}

// encode(clock, router, player, no actions, reflect=false) then decode(...,
// reflect=false): the msgp path only (with no actions and no decoding error
// neither EncodeReflect nor DecodeReflect is called; reaching them would be
// reported as unsupported). The router has 0..2 round children (empty
// roundRouters) at symbolic rounds; the player's Round is symbolic.
// Reference: exactly the children with round >= player.Round survive; a
// router without surviving children has a nil map; player and clock come back
// unchanged. Precondition: OldDeadline == 0 (only ever set by decoding a crash
// state of an older version; decode() folds it into Deadline and clears it).
//
//verif:harness prop=C07 reach=done,dropped,kept,none-left unwind=16 budget=250 thorough.budget=1500
func VerifC07EncodeDecode() {
	_ = config.Consensus[protocol.ConsensusCurrentVersion]
	var p player
	f := &verifRefFill{mask: verifRefPattern(vr.Choice("pattern", 2), verifC07PlayerLeaves), rot: vr.Choice("rot", vr.Param(1, 5))}
	verifC07FillPlayer(f, &p)
	p.OldDeadline = 0
	p.Round = basics.Round(vr.U64("player.round"))
	rr := makeRootRouter(p)
	n := vr.Choice("children", 3)
	var rounds []round
	if n > 0 {
		rr.Children = map[round]*roundRouter{}
	}
	for i := 0; i < n; i++ {
		r := round(vr.U64("child.round"))
		if i == 1 {
			vr.Assume(r != rounds[0])
		}
		rr.Children[r] = &roundRouter{}
		rounds = append(rounds, r)
	}
	clock := verifC07Clock{tag: vr.U8("clock")}

	raw := encode(clock, rr, p, nil, false)
	t2, rr2, p2, a2, err := decode(raw, verifC07Clock{}, serviceLogger{logging.Base()}, false)

	vr.Assert("c07.encode.decodes", err == nil)
	if err != nil {
		return
	}
	vr.Assert("c07.encode.player", verifC07SamePlayer(&p2, &p))
	c2, isClock := t2.(verifC07Clock)
	vr.Assert("c07.encode.clock", isClock && c2.tag == clock.tag)
	vr.Assert("c07.encode.no-actions", len(a2) == 0)
	kept := 0
	for _, r := range rounds {
		_, ok := rr2.Children[r]
		if r >= p.Round {
			kept++
			vr.Assert("c07.encode.child-kept", ok)
			vr.Reach("kept")
		} else {
			vr.Assert("c07.encode.child-dropped", !ok)
			vr.Reach("dropped")
		}
	}
	vr.Assert("c07.encode.children-count", len(rr2.Children) == kept)
	if kept == 0 {
		vr.Assert("c07.encode.children-nil", rr2.Children == nil)
		vr.Reach("none-left")
	}
	// the caller's router is not modified by encode (rr is passed by value, the map is rebuilt)
	vr.Assert("c07.encode.source-untouched", len(rr.Children) == n)
	vr.Reach("done")
}
