//go:build verif

package agreement

import (
	vr "github.com/algorand/go-algorand/internal/verifrt"
)

// C01 one-step harnesses for messageEvents (votePresent / voteVerified /
// payloadPresent / payloadVerified / bundlePresent / bundleVerified).  See
// zz_verif_c01.go for the oracle router and the lemmas S1..S5.

//verif:noop (*github.com/algorand/go-algorand/agreement.tracer).log
//verif:noop (github.com/algorand/go-algorand/data/basics.Address).String
//verif:noop (github.com/algorand/go-algorand/crypto.Digest).String
//verif:stub (github.com/algorand/go-algorand/agreement.step).nextVoteRanges = verifStubNextVoteRanges
//verif:stub (github.com/algorand/go-algorand/agreement.unauthenticatedProposal).value = verifStubProposalValue

// one step on a message event, then every lemma
func verifC01MessageStep(o *verifC01Oracle, p *player, e messageEvent, expectQuiet bool) {
	pre := verifC01Pre{p.Round, p.Period, p.Step}
	o.preRound = pre.Round
	rh := verifC01RouterHandle(o)

	out := verifC01Step(p, rh, e)

	verifC01AssertAllVotes(o, p, out)
	top := verifC01AnsweredThreshold(o)
	var late *messageEvent
	if e.T == payloadVerified {
		late = &e
	}
	nE := verifC01AssertEnsure("c01.S4", o, pre.Round, verifC01EnsureSources(o, top), late, p, out)
	verifC01AssertS4(pre, top, nE, p)
	if expectQuiet {
		// unverified messages and proposal-votes never move the player nor make it vote
		vr.Assert("c01.S4.quiet-no-ensure", nE == 0)
		vr.Assert("c01.S4.quiet-position", p.Round == pre.Round && p.Period == pre.Period && p.Step == pre.Step)
		for _, act := range out {
			pa, ok := act.(pseudonodeAction)
			vr.Assert("c01.S5.quiet-no-vote", !ok || pa.T != attest)
		}
	}
	vr.Reach("done")
}

// a verified non-proposal vote: may complete a quorum (soft / cert / next threshold)
//
//verif:harness prop=C01 reach=done,attest,certvote,ensure,newperiod unwind=10 budget=250 thorough.budget=2400
func VerifC01MsgVoteVerified() {
	verifC01InstallConsensus()
	o := verifC01NewOracle()
	o.freshestBudget = vr.Param(0, 3) // quick: nested enterRound / partitionPolicy relays are the threshold harnesses' subject
	verifC01ThoroughOptions(o)
	p := verifC01Player()
	e := verifC01MessageBase(voteVerified)
	e.Input.Vote = verifC01SymbolicVote(o, false)
	e.Input.UnauthenticatedVote = e.Input.Vote.u()
	verifC01MessageStep(o, p, e, false)
}

// a verified bundle: may deliver a threshold
//
//verif:harness prop=C01 reach=done,attest,certvote,ensure,newperiod unwind=10 budget=250 thorough.budget=2400
func VerifC01MsgBundleVerified() {
	verifC01InstallConsensus()
	o := verifC01NewOracle()
	o.freshestBudget = vr.Param(0, 3)
	verifC01ThoroughOptions(o)
	p := verifC01Player()
	e := verifC01MessageBase(bundleVerified)
	e.Input.UnauthenticatedBundle.Round = round(vr.U64("ev.bundle.round"))
	e.Input.UnauthenticatedBundle.Period = period(vr.U64("ev.bundle.period"))
	e.Input.UnauthenticatedBundle.Step = step(vr.U64("ev.bundle.step"))
	e.Input.UnauthenticatedBundle.Proposal = verifC01PickVal(o, "ev.bundle.value")
	e.Input.Bundle.U = e.Input.UnauthenticatedBundle
	verifC01MessageStep(o, p, e, false)
}

// a verified payload: may make the staged value committable (cert vote) or
// complete an already seen certificate (late payload: ensure + new round)
//
//verif:harness prop=C01 reach=done,attest,certvote,ensure,latepayload unwind=10 budget=250 thorough.budget=2400
func VerifC01MsgPayloadVerified() {
	verifC01InstallConsensus()
	o := verifC01NewOracle()
	o.freshestBudget = vr.Param(1, 3) // quick: the late-payload consultation only; what enterRound does next is VerifC01RoundInterruption's subject
	verifC01ThoroughOptions(o)
	p := verifC01Player()
	e := verifC01MessageBase(payloadVerified)
	e.Input.Proposal = verifC01Payload(verifC01PickVal(o, "ev.payload.value"))
	e.Input.UnauthenticatedProposal = e.Input.Proposal.u()
	verifC01MessageStep(o, p, e, false)
}

// a verified proposal-vote, possibly with a payload waiting for it in p.Pending
//
//verif:harness prop=C01 reach=done,tail unwind=10 budget=250 thorough.budget=2400
func VerifC01MsgProposalVoteVerified() {
	verifC01InstallConsensus()
	o := verifC01NewOracle()
	p := verifC01Player()
	e := verifC01MessageBase(voteVerified)
	e.Input.Vote = verifC01SymbolicVote(o, true)
	e.Input.UnauthenticatedVote = e.Input.Vote.u()
	if vr.Bool("pending.has") {
		vr.Reach("tail")
		tail := verifC01MessageBase(payloadPresent)
		tail.Input.UnauthenticatedProposal = verifC01Payload(verifC01PickVal(o, "pending.value")).u()
		p.Pending.Pending = map[uint64]*messageEvent{1: &tail}
		p.Pending.PendingNext = 1
	}
	verifC01MessageStep(o, p, e, true)
}

// unverified messages: only filtering / verification requests
//
//verif:harness prop=C01 reach=done unwind=10 budget=250 thorough.budget=2400
func VerifC01MsgPresent() {
	verifC01InstallConsensus()
	o := verifC01NewOracle()
	p := verifC01Player()
	var e messageEvent
	switch vr.Choice("ev.kind", 4) {
	case 0:
		e = verifC01MessageBase(votePresent)
		e.Input.UnauthenticatedVote = verifC01SymbolicVote(o, false).u()
	case 1:
		e = verifC01MessageBase(votePresent)
		e.Input.UnauthenticatedVote = verifC01SymbolicVote(o, true).u()
		if vr.Bool("ev.hastail") {
			tail := verifC01MessageBase(payloadPresent)
			tail.Input.UnauthenticatedProposal = verifC01Payload(verifC01PickVal(o, "ev.tail.value")).u()
			e.Tail = &tail
		}
	case 2:
		e = verifC01MessageBase(payloadPresent)
		e.Input.UnauthenticatedProposal = verifC01Payload(verifC01PickVal(o, "ev.payload.value")).u()
	case 3:
		e = verifC01MessageBase(bundlePresent)
		e.Input.UnauthenticatedBundle.Round = round(vr.U64("ev.bundle.round"))
		e.Input.UnauthenticatedBundle.Period = period(vr.U64("ev.bundle.period"))
		e.Input.UnauthenticatedBundle.Step = step(vr.U64("ev.bundle.step"))
	}
	verifC01MessageStep(o, p, e, true)
}
