//go:build verif

package agreement

import (
	"context"
	"time"

	"github.com/algorand/go-algorand/data/account"
	"github.com/algorand/go-algorand/data/basics"
	vr "github.com/algorand/go-algorand/internal/verifrt"
	"github.com/algorand/go-algorand/logging"
)

// C02 (lemma level): honest nodes never equivocate, even across crashes.
//
//  (a) VerifC02Persistent*: an attest action is persistent, and persistent()
//      of any action list containing one is true - so service.mainLoop persists
//      the state that led to a vote before the vote action runs.
//  (b) VerifC02Pair_*: two consecutive steps of the real player.handle from an
//      arbitrary player state, against the oracle router of zz_verif_c01.go
//      constrained by the stability contracts (assumeStagingStable, frozen
//      value, next-threshold status): no two attest actions with equal (round,
//      period, step) carry different values; every action of type attest is a
//      (persistent) pseudonodeAction.  That a soft timeout advances Step - so a
//      second timeout cannot soft-vote again in the period - is
//      c01.S5.timeout-advances-step, and re-checked here on the pair (timeout,
//      timeout).
//  (c) VerifC02VotesTask: pseudonodeVotesTask.execute (single goroutine,
//      channels modelled FIFO) releases votes on t.out only after it received
//      from persistStateDone a nil error or its closure; on a persistence
//      error, or when it is told to quit before persistence completed, no vote
//      is released.
//
// Outside: the asynchronous persistence loop, the crash database, that the
// restored state equals the saved one (C07), real process crashes.

//verif:noop (*github.com/algorand/go-algorand/agreement.tracer).log
//verif:noop (github.com/algorand/go-algorand/data/basics.Address).String
//verif:noop (github.com/algorand/go-algorand/crypto.Digest).String
//verif:stub (github.com/algorand/go-algorand/agreement.step).nextVoteRanges = verifStubNextVoteRanges
//verif:stub (github.com/algorand/go-algorand/agreement.unauthenticatedProposal).value = verifStubProposalValue
//verif:stub (github.com/algorand/go-algorand/agreement.asyncPseudonode).makeVotes = verifC02MakeVotes
//verif:stub (*github.com/algorand/go-algorand/agreement.AsyncVoteVerifier).verifyVote = verifC02VerifyVote
//verif:stub time.After = verifC02After

// ---------------------------------------------------------------------------
// (a)

// every concrete action type of actions.go, with its type tag symbolic
func verifC02Action(label string, kind int) action {
	t := actionType(vr.U8(label + ".t"))
	switch kind {
	case 0:
		return noopAction{}
	case 1:
		return networkAction{T: t}
	case 2:
		return cryptoAction{T: t}
	case 3:
		return ensureAction{}
	case 4:
		return stageDigestAction{}
	case 5:
		return rezeroAction{}
	case 6:
		return checkpointAction{}
	}
	return pseudonodeAction{T: t, Round: round(vr.U64(label + ".round")), Period: period(vr.U64(label + ".period")), Step: step(vr.U64(label + ".step"))}
}

const verifC02ActionKinds = 8

//verif:harness prop=C02 reach=done,attest,other
func VerifC02PersistentAction() {
	kind := vr.Choice("kind", verifC02ActionKinds)
	a := verifC02Action("a", kind)
	if pa, ok := a.(pseudonodeAction); ok {
		if pa.T == attest {
			vr.Reach("attest")
		}
		vr.Assert("c02.a.attest-is-persistent", pa.persistent() == (pa.T == attest))
		vr.Assert("c02.a.attest-is-persistent-via-interface", a.persistent() == (a.t() == attest))
	} else {
		vr.Reach("other")
		// nothing else is ever persistent (so persistence is never skipped for a vote by
		// mistaking it for another action, and never forced for relays)
		vr.Assert("c02.a.others-not-persistent", !a.persistent())
	}
	vr.Reach("done")
}

//verif:harness prop=C02 reach=done,withvote,without
func VerifC02PersistentList() {
	n := vr.Choice("len", 4)
	var as []action
	hasVote := false
	names := []string{"a0", "a1", "a2"}
	for i := 0; i < n; i++ {
		// a pseudonodeAction (attest / assemble / repropose / anything) or one of the other types
		var a action
		if vr.Bool(names[i] + ".pseudonode") {
			a = verifC02Action(names[i], 7)
			if a.t() == attest {
				hasVote = true
			}
		} else {
			a = verifC02Action(names[i], vr.Choice(names[i]+".kind", 3)+1)
		}
		as = append(as, a)
	}
	if hasVote {
		vr.Reach("withvote")
	} else {
		vr.Reach("without")
	}
	vr.Assert("c02.a.list-persistent-iff-contains-vote", persistent(as) == hasVote)
	vr.Reach("done")
}

// ---------------------------------------------------------------------------
// (b)

type verifC02Vote struct {
	Round  round
	Period period
	Step   step
	Value  proposalValue
}

func verifC02Votes(out []action) []verifC02Vote {
	var vs []verifC02Vote
	for _, act := range out {
		if act.t() != attest {
			continue
		}
		pa, ok := act.(pseudonodeAction)
		vr.Assert("c02.b.attest-is-pseudonode-action", ok)
		vr.Assert("c02.b.attest-is-persistent", act.persistent())
		if ok {
			vs = append(vs, verifC02Vote{pa.Round, pa.Period, pa.Step, pa.Proposal})
		}
	}
	vr.Assert("c02.b.vote-list-is-persistent", persistent(out) == (len(vs) > 0))
	return vs
}

const (
	vc02Timeout = iota
	vc02FastTimeout
	vc02SoftThreshold
	vc02PayloadVerified
)

// an event of the given kind, legal in the player's current state
func verifC02Event(o *verifC01Oracle, p *player, kind int, label string) event {
	switch kind {
	case vc02Timeout:
		vr.Assume(!(p.Step < next && p.Napping)) // playerContract.call
		var e timeoutEvent
		e.T = timeout
		e.RandomEntropy = vr.U64(label + ".entropy")
		e.Round = p.Round
		e.Proto.Version = "vT"
		return e
	case vc02FastTimeout:
		var e timeoutEvent
		e.T = fastTimeout
		e.RandomEntropy = vr.U64(label + ".entropy")
		e.Round = p.Round
		e.Proto.Version = "vT"
		return e
	case vc02SoftThreshold:
		// for the player's round (voteAggregator); a second soft threshold of a period is never
		// delivered (voteTrackerRound.handle: fresherThan) - with the stability contract a repeated
		// one could only restage the same value anyway
		return verifC01Threshold(o, softThreshold, p.Round, label)
	}
	e := verifC01MessageBase(payloadVerified)
	e.Input.Proposal = verifC01Payload(verifC01PickVal(o, label+".payload.value"))
	e.Input.UnauthenticatedProposal = e.Input.Proposal.u()
	return e
}

func verifC02Pair(first, second int) {
	verifC01InstallConsensus()
	o := verifC01NewOracle()
	o.stable = true
	o.noPinnedPayload = true
	p := verifC01Player()
	pre := verifC01Pre{p.Round, p.Period, p.Step}
	o.preRound = p.Round
	rh := verifC01RouterHandle(o)

	e1 := verifC02Event(o, p, first, "e1")
	out1 := verifC01Step(p, rh, e1)
	v1 := verifC02Votes(out1)
	if first == vc02Timeout && pre.Step == soft {
		vr.Assert("c02.b.soft-timeout-advances-step", p.Step == cert && p.Round == pre.Round && p.Period == pre.Period)
	}
	if len(v1) == 0 {
		vr.Reach("novote")
		vr.Reach("done")
		return
	}
	o.preRound = p.Round
	// The timers are outside the lemma: replace them by arbitrary values between the steps (an
	// over-approximation - more second steps, not fewer - that keeps step 1's window arithmetic,
	// a remainder by a non-constant divisor, out of step 2's path conditions).
	p.FastRecoveryDeadline = time.Duration(vr.I64("p.frd2"))
	vr.Assume(p.FastRecoveryDeadline >= 0 && p.FastRecoveryDeadline < 1<<50)
	p.Deadline = Deadline{Duration: time.Duration(vr.I64("p.deadline2")), Type: TimeoutType(vr.U8("p.deadlinetype2"))}
	e2 := verifC02Event(o, p, second, "e2")
	out2 := verifC01Step(p, rh, e2)
	v2 := verifC02Votes(out2)
	for _, a := range v1 {
		for _, b := range v2 {
			vr.Reach("twovotes")
			sameKey := a.Round == b.Round && a.Period == b.Period && a.Step == b.Step
			vr.Assert("c02.b.no-equivocation", !sameKey || a.Value == b.Value)
			if a.Step == soft && b.Step == soft {
				// a period is soft-voted at most once
				vr.Assert("c02.b.one-soft-vote-per-period", !(a.Round == b.Round && a.Period == b.Period))
			}
			if a.Step >= next && a.Step < late && b.Step >= next && b.Step < late {
				// a next step is voted at most once
				vr.Assert("c02.b.one-next-vote-per-step", !sameKey)
			}
		}
	}
	vr.Reach("done")
}

//verif:harness prop=C02 reach=done,twovotes unwind=10 budget=250 thorough.budget=2400
func VerifC02Pair_Timeout_Timeout() { verifC02Pair(vc02Timeout, vc02Timeout) }

//verif:harness prop=C02 reach=done,twovotes unwind=10 budget=250 thorough.budget=2400
func VerifC02Pair_Timeout_Fast() { verifC02Pair(vc02Timeout, vc02FastTimeout) }

//verif:harness prop=C02 reach=done,twovotes unwind=10 budget=250 thorough.budget=2400
func VerifC02Pair_Timeout_Soft() { verifC02Pair(vc02Timeout, vc02SoftThreshold) }

//verif:harness prop=C02 reach=done,twovotes unwind=10 budget=250 thorough.budget=2400
func VerifC02Pair_Timeout_Payload() { verifC02Pair(vc02Timeout, vc02PayloadVerified) }

//verif:harness prop=C02 reach=done,twovotes unwind=10 budget=250 thorough.budget=2400
func VerifC02Pair_Fast_Timeout() { verifC02Pair(vc02FastTimeout, vc02Timeout) }

//verif:harness prop=C02 reach=done,twovotes unwind=10 budget=250 thorough.budget=2400
func VerifC02Pair_Fast_Fast() { verifC02Pair(vc02FastTimeout, vc02FastTimeout) }

//verif:harness prop=C02 reach=done,twovotes unwind=10 budget=250 thorough.budget=2400
func VerifC02Pair_Fast_Soft() { verifC02Pair(vc02FastTimeout, vc02SoftThreshold) }

//verif:harness prop=C02 reach=done,twovotes unwind=10 budget=250 thorough.budget=2400
func VerifC02Pair_Fast_Payload() { verifC02Pair(vc02FastTimeout, vc02PayloadVerified) }

//verif:harness prop=C02 reach=done,twovotes unwind=10 budget=250 thorough.budget=2400
func VerifC02Pair_Soft_Timeout() { verifC02Pair(vc02SoftThreshold, vc02Timeout) }

//verif:harness prop=C02 reach=done,twovotes unwind=10 budget=250 thorough.budget=2400
func VerifC02Pair_Soft_Fast() { verifC02Pair(vc02SoftThreshold, vc02FastTimeout) }

//verif:harness prop=C02 reach=done,twovotes unwind=10 budget=250 thorough.budget=2400
func VerifC02Pair_Soft_Soft() { verifC02Pair(vc02SoftThreshold, vc02SoftThreshold) }

//verif:harness prop=C02 reach=done,twovotes unwind=10 budget=250 thorough.budget=2400
func VerifC02Pair_Soft_Payload() { verifC02Pair(vc02SoftThreshold, vc02PayloadVerified) }

//verif:harness prop=C02 reach=done,twovotes unwind=10 budget=250 thorough.budget=2400
func VerifC02Pair_Payload_Timeout() { verifC02Pair(vc02PayloadVerified, vc02Timeout) }

//verif:harness prop=C02 reach=done,twovotes unwind=10 budget=250 thorough.budget=2400
func VerifC02Pair_Payload_Fast() { verifC02Pair(vc02PayloadVerified, vc02FastTimeout) }

//verif:harness prop=C02 reach=done,twovotes unwind=10 budget=250 thorough.budget=2400
func VerifC02Pair_Payload_Soft() { verifC02Pair(vc02PayloadVerified, vc02SoftThreshold) }

//verif:harness prop=C02 reach=done,twovotes unwind=10 budget=250 thorough.budget=2400
func VerifC02Pair_Payload_Payload() { verifC02Pair(vc02PayloadVerified, vc02PayloadVerified) }

// ---------------------------------------------------------------------------
// (c)

const verifC02MaxVotes = 2

type verifC02TaskWorld struct {
	nVotes     int
	enqueueErr [verifC02MaxVotes]bool // verifier.verifyVote refuses the request
	verifyErr  [verifC02MaxVotes]bool // verification fails
	recorded   int
}

var verifC02World *verifC02TaskWorld

type verifC02Err struct{}

func (verifC02Err) Error() string { return "verif: no" }

func verifC02MakeVotes(n asyncPseudonode, round basics.Round, period period, step step, proposal proposalValue, participation []account.ParticipationRecordForRound) []unauthenticatedVote {
	votes := make([]unauthenticatedVote, 0)
	for i := 0; i < verifC02World.nVotes; i++ {
		var uv unauthenticatedVote
		uv.R = rawVote{Sender: verifSender(i), Round: round, Period: period, Step: step, Proposal: proposal}
		votes = append(votes, uv)
	}
	return votes
}

// the asynchronous verifier, run synchronously: the answer is queued on `out`
func verifC02VerifyVote(avv *AsyncVoteVerifier, verctx context.Context, l LedgerReader, uv unauthenticatedVote, index uint64, m message, out chan<- asyncVerifyVoteResponse) error {
	if verifC02World.enqueueErr[index] {
		return verifC02Err{}
	}
	var resp asyncVerifyVoteResponse
	resp.index = index
	if verifC02World.verifyErr[index] {
		resp.err = verifC02Err{}
	} else {
		resp.v.R = uv.R
		m.Vote = resp.v
	}
	resp.message = m
	out <- resp
	return nil
}

// the output-wait timer never fires in the sequential model (sends on the buffered t.out are always ready)
func verifC02After(d time.Duration) <-chan time.Time { return nil }

type verifC02Keys struct{}

func (verifC02Keys) VotingKeys(votingRound, keysRound basics.Round) []account.ParticipationRecordForRound {
	return nil
}

func (verifC02Keys) Record(acct basics.Address, round basics.Round, participationType account.ParticipationAction) {
	verifC02World.recorded++
}

//verif:harness prop=C02 reach=done,released,persisterror,quitfirst unwind=10 budget=200 thorough.budget=2400
func VerifC02VotesTask() {
	w := &verifC02TaskWorld{}
	verifC02World = w
	w.nVotes = vr.Choice("nvotes", verifC02MaxVotes+1)
	for i := 0; i < w.nVotes; i++ {
		w.enqueueErr[i] = vr.Bool("enqueueerr")
		w.verifyErr[i] = vr.Bool("verifyerr")
	}
	good := 0
	for i := 0; i < w.nVotes; i++ {
		if !w.enqueueErr[i] && !w.verifyErr[i] {
			good++
		}
	}

	node := &asyncPseudonode{keys: verifC02Keys{}, log: serviceLogger{logging.Base()}}
	var t pseudonodeVotesTask
	t.node = node
	t.context = context.Background()
	t.out = make(chan externalEvent, verifC02MaxVotes)
	t.round = round(vr.U64("round"))
	t.period = period(vr.U64("period"))
	t.step = step(vr.U64("step"))
	t.prop.BlockDigest[0] = vr.U8("value")

	// what the persistence side has done by the time the task looks:
	//   0: persisted fine, channel closed (checkpointAction.do: close(done))
	//   1: persistence failed: the error is queued, then the channel closed
	//   2: persisted fine, signalled by a nil error (not produced by checkpointAction.do, harmless)
	//   3: nothing yet, and the service is quitting
	t.persistStateDone = make(chan error, 1)
	quit := make(chan struct{})
	state := vr.Choice("persist", 4)
	quitToo := false
	switch state {
	case 0:
		close(t.persistStateDone)
	case 1:
		t.persistStateDone <- verifC02Err{}
		close(t.persistStateDone)
	case 2:
		t.persistStateDone <- nil
	case 3:
		close(quit)
	}
	if (state == 0 || state == 2) && vr.Bool("quit.too") {
		// quit races with a successfully completed persistence: either select case may be taken
		// (natively Go picks at random, so this race is kept away from the error case, whose
		// counterexamples then replay deterministically)
		quitToo = true
		close(quit)
	}

	t.execute(nil, quit)

	// drain what was released
	released := 0
	for ev := range t.out {
		me, ok := ev.(messageEvent)
		vr.Assert("c02.c.released-is-vote-verified", ok && me.T == voteVerified)
		if ok {
			r := me.Input.Vote.R
			vr.Assert("c02.c.released-vote-is-the-tasks", r.Round == t.round && r.Period == t.period && r.Step == t.step && r.Proposal == t.prop && me.Input.UnauthenticatedVote.R == r)
		}
		released++
	}
	vr.Assert("c02.c.only-verified-votes", released <= good)
	vr.Assert("c02.c.recorded-once-per-release", w.recorded == released)
	switch state {
	case 1:
		vr.Reach("persisterror")
		vr.Assert("c02.c.no-vote-after-persistence-error", released == 0)
	case 3:
		vr.Reach("quitfirst")
		vr.Assert("c02.c.no-vote-before-persistence", released == 0)
	case 2:
		if released > 0 {
			vr.Assert("c02.c.persistence-result-consumed-before-release", len(t.persistStateDone) == 0)
		}
	}
	if released > 0 {
		vr.Reach("released")
	}
	if !quitToo && (state == 0 || state == 2) {
		vr.Assert("c02.c.all-verified-votes-released", released == good)
	}
	vr.Reach("done")
}
