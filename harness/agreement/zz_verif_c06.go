//go:build verif

package agreement

import (
	"runtime"

	"github.com/algorand/go-algorand/config"
	"github.com/algorand/go-algorand/data/basics"
	vr "github.com/algorand/go-algorand/internal/verifrt"
	"github.com/algorand/go-algorand/logging"
	"github.com/algorand/go-algorand/protocol"
)

// C06: vote counting emits exactly one threshold per step, for the right value.
//
//verif:helper prop=C03
//
// Bounded model check of voteTracker.handle from the EMPTY tracker over every
// sequence of L votes by S senders for V values (sender, value chosen
// symbolically per vote; per-sender weight and the step threshold fully
// symbolic). A ghost reference written here recomputes, after every vote, each
// value's weight "counting each equivocator once for every value".

const (
	verifC06Senders = 3
	verifC06Values  = 2
)

func verifValue(i int) proposalValue {
	var p proposalValue
	p.BlockDigest[0] = byte(i + 1)
	return p
}

func verifInstallThreshold(thr uint64) {
	var cp config.ConsensusParams
	cp.SoftCommitteeThreshold = thr
	cp.CertCommitteeThreshold = thr
	cp.NextCommitteeThreshold = thr
	cp.LateCommitteeThreshold = thr
	cp.RedoCommitteeThreshold = thr
	cp.DownCommitteeThreshold = thr
	config.Consensus = config.ConsensusProtocols{"vT": cp}
}

var _ = logging.Base
var _ basics.Address

// verifHandleVote calls the real tracker. The tracker's two log.Panicf guards
// ("too many equivocators", "more than one value reached a threshold") are the
// code's own statement of the honest-supermajority assumption: histories that
// enter them are outside the property's domain. Any runtime panic is a violation.
func verifHandleVote(tr *voteTracker, rh routerHandle, ev voteAcceptedEvent) (out event) {
	defer func() {
		if r := recover(); r != nil {
			if _, isRuntime := r.(runtime.Error); isRuntime {
				panic(r)
			}
			vr.Assume(false)
		}
	}()
	return tr.handle(rh, player{}, ev)
}

//verif:noop (*github.com/algorand/go-algorand/agreement.tracer).log
//verif:noop (github.com/algorand/go-algorand/data/basics.Address).String
//verif:noop (github.com/algorand/go-algorand/crypto.Digest).String

//verif:harness prop=C06 reach=done,fired,duplicate,equivocation unwind=12 budget=280 thorough.budget=3000
func VerifC06CountingSoft() { verifC06Counting(soft, 4, 2, false) }

//verif:harness prop=C06 reach=done,fired,duplicate,equivocation unwind=12 budget=280 thorough.budget=3000
func VerifC06CountingCert() { verifC06Counting(cert, 4, 2, false) }

//verif:harness prop=C06 reach=done,fired,duplicate,equivocation unwind=12 budget=280 thorough.budget=3000
func VerifC06CountingNext() { verifC06Counting(next, 4, 2, false) }

// Deeper histories at lower cost: all senders carry ONE shared symbolic weight
// (so bundle packing order is decided by address alone) while the threshold
// stays symbolic. This reaches the 5-6 vote interleavings of two equivocators
// and a third voter that the fully symbolic-weight harnesses cannot afford.
//verif:harness prop=C06 reach=done,fired,duplicate,equivocation unwind=12 budget=450 thorough.budget=3000
func VerifC06DeepEqualWeights() { verifC06Counting(cert, 5, verifC06Senders, true) }

// Thorough tier only: three senders with fully symbolic weights over 3 votes,
// per step kind (L=4 with S=3 and symbolic weights did not finish inside an
// hour per harness; L=6 equal-weight histories exceeded the path budget).
//
//verif:harness prop=C06 tier=thorough reach=done,fired,duplicate,equivocation unwind=12 thorough.budget=3000
func VerifC06WideSoft() { verifC06Counting(soft, 3, verifC06Senders, false) }

//verif:harness prop=C06 tier=thorough reach=done,fired,duplicate,equivocation unwind=12 thorough.budget=3000
func VerifC06WideCert() { verifC06Counting(cert, 3, verifC06Senders, false) }

//verif:harness prop=C06 tier=thorough reach=done,fired,duplicate,equivocation unwind=12 thorough.budget=3000
func VerifC06WideNext() { verifC06Counting(next, 3, verifC06Senders, false) }

func verifC06Counting(stp step, L int, nS int, equalWeights bool) {
	thr := vr.U64("threshold")
	vr.Assume(thr >= 1 && thr < 1<<62)
	verifInstallThreshold(thr)
	var w [verifC06Senders]uint64
	names := [verifC06Senders]string{"w0", "w1", "w2"}
	for i := range w {
		w[i] = vr.U64(names[i])
		vr.Assume(w[i] >= 1 && w[i] < 1<<60) // verified credentials carry non-zero weight; no wrap-around
		if equalWeights && i > 0 {
			w[i] = w[0]
		}
	}
	tr := &voteTracker{}
	rh := verifRouterHandle()

	// ghost reference
	var first [verifC06Senders]int // index of the value first voted, -1 = none
	var equiv [verifC06Senders]bool
	for i := range first {
		first[i] = -1
	}
	refWeight := func(v int) vr.Z {
		s := vr.ZU(0)
		for i := 0; i < verifC06Senders; i++ {
			if equiv[i] || first[i] == v {
				s = s.Add(vr.ZU(w[i]))
			}
		}
		return s
	}
	reached := func() bool {
		for v := 0; v < verifC06Values; v++ {
			if refWeight(v).Ge(vr.ZU(thr)) {
				return true
			}
		}
		return false
	}

	firedBefore := false
	for k := 0; k < L; k++ {
		si := vr.Choice("sender", nS)
		vi := vr.Choice("value", verifC06Values)
		var v vote
		v.R.Sender = verifSender(si)
		v.R.Round, v.R.Period, v.R.Step = 10, 0, stp
		v.R.Proposal = verifValue(vi)
		v.Cred.Weight = w[si]

		reachedBefore := reached()
		dup := !equiv[si] && first[si] == vi
		ignored := equiv[si]
		var before [verifC06Values]uint64
		for x := 0; x < verifC06Values; x++ {
			before[x] = tr.count(verifValue(x))
		}

		ev := verifHandleVote(tr, rh, voteAcceptedEvent{Vote: v, Proto: "vT"})

		// update the reference
		if !equiv[si] {
			if first[si] == -1 {
				first[si] = vi
			} else if first[si] != vi {
				equiv[si] = true
				vr.Reach("equivocation")
			}
		}
		te, isThreshold := ev.(thresholdEvent)
		vr.Assert("c06.returns-threshold-event", isThreshold)
		fired := te.T != none
		reachedNow := reached()

		// the tracker's own counts agree with the reference after every vote
		for x := 0; x < verifC06Values; x++ {
			vr.Assert("c06.count-matches-reference", vr.ZU(tr.count(verifValue(x))).Eq(refWeight(x)))
		}
		if dup || ignored {
			vr.Reach("duplicate")
			vr.Assert("c06.duplicate-silent", !fired)
			for x := 0; x < verifC06Values; x++ {
				vr.Assert("c06.duplicate-adds-no-weight", tr.count(verifValue(x)) == before[x])
			}
		}
		// exactly once, exactly when a value's weight first reaches the threshold
		vr.Assert("c06.fires-iff-first-reached", fired == (!reachedBefore && reachedNow))
		vr.Assert("c06.at-most-once", !(fired && firedBefore))
		if fired {
			vr.Reach("fired")
			firedBefore = true
			pv := -1
			for x := 0; x < verifC06Values; x++ {
				if te.Proposal == verifValue(x) {
					pv = x
				}
			}
			vr.Assert("c06.value-is-known", pv >= 0)
			if pv >= 0 {
				vr.Assert("c06.right-value", refWeight(pv).Ge(vr.ZU(thr)))
			}
			wantT := nextThreshold
			if stp == soft {
				wantT = softThreshold
			} else if stp == cert {
				wantT = certThreshold
			}
			vr.Assert("c06.event-kind", te.T == wantT && te.Step == stp && te.Round == 10 && te.Period == 0)
			// the bundle is itself a quorum proof for that value
			b := te.Bundle
			vr.Assert("c06.bundle.header", b.Proposal == te.Proposal && b.Step == stp && b.Round == 10 && b.Period == 0)
			var seen [verifC06Senders]bool
			sum := vr.ZU(0)
			for _, va := range b.Votes {
				idx := int(va.Sender[0]) - 1
				ok := idx >= 0 && idx < verifC06Senders && va.Sender == verifSender(idx)
				vr.Assert("c06.bundle.vote-sender-known", ok)
				if ok {
					vr.Assert("c06.bundle.vote-for-value", !equiv[idx] && first[idx] == pv)
					vr.Assert("c06.bundle.senders-distinct", !seen[idx])
					seen[idx] = true
					sum = sum.Add(vr.ZU(w[idx]))
				}
			}
			for _, ea := range b.EquivocationVotes {
				idx := int(ea.Sender[0]) - 1
				ok := idx >= 0 && idx < verifC06Senders && ea.Sender == verifSender(idx)
				vr.Assert("c06.bundle.eqv-sender-known", ok)
				if ok {
					vr.Assert("c06.bundle.eqv-really-equivocated", equiv[idx] && ea.Proposals[0] != ea.Proposals[1])
					vr.Assert("c06.bundle.senders-distinct", !seen[idx])
					seen[idx] = true
					sum = sum.Add(vr.ZU(w[idx]))
				}
			}
			vr.Assert("c06.bundle.weight-reaches-threshold", sum.Ge(vr.ZU(thr)))
		}
	}
	vr.Reach("done")
}

var _ = protocol.ConsensusVersion("")
