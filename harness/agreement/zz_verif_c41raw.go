//go:build verif

package agreement

import (
	vr "github.com/algorand/go-algorand/internal/verifrt"
	"github.com/algorand/msgp/msgp"
)

// C41, complement to the generated inputs: RAW buffers, every byte and the
// length symbolic, for the two decoders everything else is built from
// (proposalValue: map/array forms, keys, integers, fixed byte arrays) and for
// unauthenticatedBundle (slices with an allocbound): no panic, what is returned
// on success is a suffix of the input, slices within their bound. Short buffers
// only: every byte the decoder looks at forks over the marker classes.
//
// msgp classifies an unexpected marker with a 256-entry table
// (msgp.sizes[lead].typ, in badPrefix/getType); indexed with a symbolic byte
// it costs the solver seconds per query. The two functions are replaced, in
// the engine only (they are outside the repository, natively the originals
// run), by the equivalent range comparisons below; VerifC41TypeTable checks
// the replacement against the original table on all 256 bytes.

func verifC41GetType(v byte) msgp.Type {
	switch {
	case v < 0x80:
		return msgp.IntType // positive fixint
	case v < 0x90:
		return msgp.MapType
	case v < 0xa0:
		return msgp.ArrayType
	case v < 0xc0:
		return msgp.StrType
	case v == 0xc0:
		return msgp.NilType
	case v == 0xc1:
		return msgp.InvalidType
	case v < 0xc4:
		return msgp.BoolType
	case v < 0xc7:
		return msgp.BinType
	case v < 0xca:
		return msgp.ExtensionType
	case v == 0xca:
		return msgp.Float32Type
	case v == 0xcb:
		return msgp.Float64Type
	case v < 0xd0:
		return msgp.UintType
	case v < 0xd4:
		return msgp.IntType
	case v < 0xd9:
		return msgp.ExtensionType
	case v < 0xdc:
		return msgp.StrType
	case v < 0xde:
		return msgp.ArrayType
	case v < 0xe0:
		return msgp.MapType
	}
	return msgp.IntType // negative fixint
}

func verifC41BadPrefix(want msgp.Type, lead byte) error {
	t := verifC41GetType(lead)
	if t == msgp.InvalidType {
		return msgp.InvalidPrefixError(lead)
	}
	return msgp.TypeError{Method: want, Encoded: t}
}

//verif:harness prop=C41 reach=done budget=60
func VerifC41TypeTable() {
	for i := 0; i < 256; i++ {
		// NextType of a one-byte buffer is msgp.sizes[b].typ
		vr.Assert("c41.raw.type-table", msgp.NextType([]byte{byte(i)}) == verifC41GetType(byte(i)))
	}
	vr.Reach("done")
}

func verifC41Suffix(rem, in []byte) bool {
	return len(rem) <= len(in) && verifC41Same(rem, in[len(in)-len(rem):])
}

//verif:harness prop=C41 reach=done,accepted,rejected,leftover unwind=24 budget=250 thorough.budget=3400 thorough.paths=400000
//verif:stub github.com/algorand/msgp/msgp.badPrefix = verifC41BadPrefix
//verif:stub github.com/algorand/msgp/msgp.getType = verifC41GetType
func VerifC41ProposalValueRaw() {
	in := vr.Bytes("in", vr.Param(4, 5))
	var v proposalValue
	rem, err := v.UnmarshalMsgWithState(in, msgp.DefaultUnmarshalState)
	if err == nil {
		vr.Assert("c41.raw.remaining-is-suffix", verifC41Suffix(rem, in))
		vr.Reach("accepted")
		if len(rem) > 0 {
			vr.Reach("leftover")
		}
	} else {
		vr.Reach("rejected")
	}
	vr.Reach("done")
}

// One real key, then raw bytes where the field's value is expected: a map of
// one entry {key: <tail>} with the tail (length and contents) symbolic, for each
// of proposalValue's four fields (integer reader, ReadExactBytes with all its
// str/bin/array/map/nil forms and announced lengths).
//
//verif:harness prop=C41 reach=done,accepted,rejected,leftover unwind=24 budget=250 thorough.budget=3400 thorough.paths=400000
//verif:stub github.com/algorand/msgp/msgp.badPrefix = verifC41BadPrefix
//verif:stub github.com/algorand/msgp/msgp.getType = verifC41GetType
func VerifC41ProposalValueFieldRaw() {
	key := []string{"oper", "oprop", "dig", "encdig"}[vr.Choice("key", 4)]
	in := append([]byte{0x81, 0xa0 | byte(len(key))}, key...)
	in = append(in, vr.Bytes("tail", vr.Param(4, 5))...)
	var v proposalValue
	rem, err := v.UnmarshalMsgWithState(in, msgp.DefaultUnmarshalState)
	if err == nil {
		vr.Assert("c41.raw.remaining-is-suffix", verifC41Suffix(rem, in))
		vr.Reach("accepted")
		if len(rem) > 0 {
			vr.Reach("leftover")
		}
	} else {
		vr.Reach("rejected")
	}
	vr.Reach("done")
}
