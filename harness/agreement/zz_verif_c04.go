//go:build verif

package agreement

import (
	"context"

	"github.com/algorand/go-algorand/config"
	"github.com/algorand/go-algorand/crypto"
	"github.com/algorand/go-algorand/data/basics"
	"github.com/algorand/go-algorand/data/bookkeeping"
	"github.com/algorand/go-algorand/data/committee"
	vr "github.com/algorand/go-algorand/internal/verifrt"
	"github.com/algorand/go-algorand/protocol"
)

// C04: bundles and certificates are accepted only if they prove a quorum.
//
// The real unauthenticatedBundle.verifyAsync (+ its closure), unauthenticatedVote
// .verify, unauthenticatedEquivocationVote.verify, Certificate.Authenticate and
// claimsToAuthenticate run on an ARBITRARY bundle. Cryptography is idealised:
// whether a sender's one-time signature verifies on a message, and whether the
// sender's credential is selected, are arbitrary boolean functions of
// (sender, message) fixed by symbolic tables; a signature made for one
// (round, period, step, value) says nothing about any other message.

const (
	verifC04Senders = 4
	verifC04Values  = 3 // value 0 is bottom
)

type verifC04Oracle struct {
	round         basics.Round
	period        period
	step          step
	sigOK         [verifC04Senders][verifC04Values]bool // signature on the bundle's (round,period,step) for value v
	sigOther      bool                                  // what a signature check on any OTHER message returns
	credOK        [verifC04Senders]bool
	weight        [verifC04Senders]uint64
	firstValid    [verifC04Senders]basics.Round
	lastValid     [verifC04Senders]basics.Round
	memberErr     [verifC04Senders]bool
	threshold     uint64
	paramsErr     bool
	blockDigest   crypto.Digest
}

var verifC04 *verifC04Oracle

// Values and senders are identified by one byte, so that a SYMBOLIC index
// (no case split) selects them: the solver, not path enumeration, ranges over
// which sender signs which vote.
func verifC04Value(i int) proposalValue {
	var p proposalValue
	p.BlockDigest[0] = byte(i) // 0 = bottom
	return p
}

func verifC04ValueIndex(p proposalValue) int { return int(p.BlockDigest[0]) }

func verifC04Sender(i int) basics.Address {
	var a basics.Address
	a[0] = byte(i + 1)
	return a
}

func verifC04SenderIndex(a basics.Address) int { return int(a[0]) - 1 }

func verifC04Pick(label string, n int) int {
	x := int(vr.U8(label))
	vr.Assume(x < n)
	return x
}

// --- stubs (declared per harness below) ---

func verifStubMembership(l LedgerReader, addr basics.Address, r basics.Round, p period, s step) (m committee.Membership, err error) {
	i := verifC04SenderIndex(addr)
	if verifC04.memberErr[i] {
		return m, errVerifC04
	}
	m.Record.Addr = addr
	m.Record.VoteFirstValid = verifC04.firstValid[i]
	m.Record.VoteLastValid = verifC04.lastValid[i]
	m.Record.VoteKeyDilution = 1
	m.Selector = selector{Round: r, Period: p, Step: s}
	return m, nil
}

type verifC04Err struct{}

func (verifC04Err) Error() string { return "verif: oracle says no" }

var errVerifC04 error = verifC04Err{}

// one-time signature check: the message is the rawVote being authenticated
func verifStubOTSVerify(v crypto.OneTimeSignatureVerifier, id crypto.OneTimeSignatureIdentifier, message crypto.Hashable, sig crypto.OneTimeSignature) bool {
	rv, ok := message.(rawVote)
	if !ok {
		return verifC04.sigOther
	}
	si, vi := verifC04SenderIndex(rv.Sender), verifC04ValueIndex(rv.Proposal)
	if rv.Round != verifC04.round || rv.Period != verifC04.period || rv.Step != verifC04.step {
		return verifC04.sigOther
	}
	return verifC04.sigOK[si][vi]
}

func verifStubCredVerify(cred committee.UnauthenticatedCredential, proto config.ConsensusParams, m committee.Membership) (res committee.Credential, err error) {
	i := verifC04SenderIndex(m.Record.Addr)
	sel, isSel := m.Selector.(selector)
	if !verifC04.credOK[i] || !isSel || sel.Round != verifC04.round || sel.Period != verifC04.period || sel.Step != verifC04.step {
		return res, errVerifC04
	}
	res.Weight = verifC04.weight[i]
	res.UnauthenticatedCredential = cred
	return res, nil
}

// the asynchronous verifier runs the real verify synchronously and queues the answer
func verifStubAVVVote(avv *AsyncVoteVerifier, verctx context.Context, l LedgerReader, uv unauthenticatedVote, index uint64, message message, out chan<- asyncVerifyVoteResponse) error {
	v, err := uv.verify(l)
	out <- asyncVerifyVoteResponse{v: v, index: index, message: message, err: err}
	return nil
}

func verifStubAVVEqVote(avv *AsyncVoteVerifier, verctx context.Context, l LedgerReader, uev unauthenticatedEquivocationVote, index uint64, message message, out chan<- asyncVerifyVoteResponse) error {
	ev, err := uev.verify(l)
	out <- asyncVerifyVoteResponse{ev: ev, index: index, message: message, err: err}
	return nil
}

func verifStubBlockDigest(b bookkeeping.Block) crypto.Digest { return verifC04.blockDigest }

type verifC04Ledger struct{}

func (verifC04Ledger) NextRound() basics.Round               { return 0 }
func (verifC04Ledger) Wait(basics.Round) chan struct{}       { return nil }
func (verifC04Ledger) Seed(basics.Round) (committee.Seed, error) { return committee.Seed{}, nil }
func (verifC04Ledger) LookupAgreement(basics.Round, basics.Address) (basics.OnlineAccountData, error) {
	return basics.OnlineAccountData{}, nil
}
func (verifC04Ledger) Circulation(rnd basics.Round, voteRnd basics.Round) (basics.MicroAlgos, error) {
	return basics.MicroAlgos{}, nil
}
func (verifC04Ledger) LookupDigest(basics.Round) (crypto.Digest, error) { return crypto.Digest{}, nil }
func (verifC04Ledger) ConsensusParams(basics.Round) (config.ConsensusParams, error) {
	var cp config.ConsensusParams
	if verifC04.paramsErr {
		return cp, errVerifC04
	}
	t := verifC04.threshold
	cp.SoftCommitteeThreshold, cp.CertCommitteeThreshold, cp.NextCommitteeThreshold = t, t, t
	cp.LateCommitteeThreshold, cp.RedoCommitteeThreshold, cp.DownCommitteeThreshold = t, t, t
	cp.DefaultKeyDilution = 1
	return cp, nil
}
func (verifC04Ledger) ConsensusVersion(basics.Round) (protocol.ConsensusVersion, error) { return "vT", nil }

func verifC04Setup() *verifC04Oracle {
	o := &verifC04Oracle{}
	o.round = basics.Round(vr.U64("round"))
	o.period = period(vr.U64("period"))
	o.step = step(vr.Choice("step", 4)) // propose, soft, cert, next, next+1
	for i := 0; i < verifC04Senders; i++ {
		for v := 0; v < verifC04Values; v++ {
			o.sigOK[i][v] = vr.Bool("sigok")
		}
		o.credOK[i] = vr.Bool("credok")
		o.weight[i] = vr.U64("weight")
		vr.Assume(o.weight[i] < 1<<60)
		o.firstValid[i] = basics.Round(vr.U64("firstvalid"))
		o.lastValid[i] = basics.Round(vr.U64("lastvalid"))
		o.memberErr[i] = vr.Bool("membererr")
	}
	o.sigOther = vr.Bool("sigother")
	o.threshold = vr.U64("threshold")
	o.paramsErr = vr.Bool("paramserr")
	verifC04 = o
	return o
}

func verifC04Bundle(o *verifC04Oracle) unauthenticatedBundle {
	var b unauthenticatedBundle
	b.Round, b.Period, b.Step = o.round, o.period, o.step
	b.Proposal = verifC04Value(verifC04Pick("bundlevalue", verifC04Values))
	nv := vr.Choice("nvotes", 3)
	ne := vr.Choice("neqvotes", 2)
	vnames := []string{"v0", "v1", "v2"}
	for i := 0; i < nv; i++ {
		var va voteAuthenticator
		va.Sender = verifC04Sender(verifC04Pick(vnames[i], verifC04Senders))
		b.Votes = append(b.Votes, va)
	}
	enames := []string{"e0", "e1"}
	for i := 0; i < ne; i++ {
		var ea equivocationVoteAuthenticator
		ea.Sender = verifC04Sender(verifC04Pick(enames[i], verifC04Senders))
		ea.Proposals[0] = verifC04Value(verifC04Pick(enames[i]+".p0", verifC04Values))
		ea.Proposals[1] = verifC04Value(verifC04Pick(enames[i]+".p1", verifC04Values))
		b.EquivocationVotes = append(b.EquivocationVotes, ea)
	}
	return b
}

// the independent statement of "this bundle proves a quorum"
func verifC04ProvesQuorum(o *verifC04Oracle, b unauthenticatedBundle) bool {
	if b.Step == propose {
		return false
	}
	if (b.Step == soft || b.Step == cert) && b.Proposal == bottom {
		// soft and cert votes cannot be for bottom (an equivocation-only bundle for bottom carries no vote that names it)
		if len(b.Votes) > 0 {
			return false
		}
	}
	var seen [verifC04Senders]bool
	total := vr.ZU(0)
	bv := verifC04ValueIndex(b.Proposal)
	okOne := func(si, vi int) bool {
		if o.memberErr[si] || !o.sigOK[si][vi] || !o.credOK[si] {
			return false
		}
		if o.round < o.firstValid[si] || (o.lastValid[si] != 0 && o.round > o.lastValid[si]) {
			return false
		}
		if (o.step == soft || o.step == cert) && vi == 0 {
			return false
		}
		return true
	}
	for _, va := range b.Votes {
		si := verifC04SenderIndex(va.Sender)
		if seen[si] || !okOne(si, bv) {
			return false
		}
		seen[si] = true
		total = total.Add(vr.ZU(o.weight[si]))
	}
	for _, ea := range b.EquivocationVotes {
		si := verifC04SenderIndex(ea.Sender)
		p0, p1 := verifC04ValueIndex(ea.Proposals[0]), verifC04ValueIndex(ea.Proposals[1])
		if seen[si] || p0 == p1 || !okOne(si, p0) || !okOne(si, p1) {
			return false
		}
		seen[si] = true
		total = total.Add(vr.ZU(o.weight[si]))
	}
	return total.Ge(vr.ZU(o.threshold))
}

//verif:harness prop=C04 reach=done,accepted,rejected unwind=10 budget=280 thorough.budget=3000
//verif:stub github.com/algorand/go-algorand/agreement.membership = verifStubMembership
//verif:stub (github.com/algorand/go-algorand/crypto.OneTimeSignatureVerifier).Verify = verifStubOTSVerify
//verif:stub (github.com/algorand/go-algorand/data/committee.UnauthenticatedCredential).Verify = verifStubCredVerify
//verif:stub (*github.com/algorand/go-algorand/agreement.AsyncVoteVerifier).verifyVote = verifStubAVVVote
//verif:stub (*github.com/algorand/go-algorand/agreement.AsyncVoteVerifier).verifyEqVote = verifStubAVVEqVote
func VerifC04BundleVerify() {
	o := verifC04Setup()
	b := verifC04Bundle(o)
	_, err := b.verify(context.Background(), verifC04Ledger{}, nil)
	proves := !o.paramsErr && verifC04ProvesQuorum(o, b)
	if err == nil {
		vr.Reach("accepted")
		vr.Assert("c04.accepted-only-if-quorum", proves)
	} else {
		vr.Reach("rejected")
		// completeness, with the one conservative rule of the code: a bundle with
		// more votes than the threshold is refused outright
		tooLarge := uint64(len(b.Votes)+len(b.EquivocationVotes)) > o.threshold
		vr.Assert("c04.rejected-only-if-no-quorum", !proves || tooLarge)
	}
	vr.Reach("done")
}

//verif:harness prop=C04 reach=done,accepted unwind=10 budget=280 thorough.budget=3000
//verif:stub github.com/algorand/go-algorand/agreement.membership = verifStubMembership
//verif:stub (github.com/algorand/go-algorand/crypto.OneTimeSignatureVerifier).Verify = verifStubOTSVerify
//verif:stub (github.com/algorand/go-algorand/data/committee.UnauthenticatedCredential).Verify = verifStubCredVerify
//verif:stub (*github.com/algorand/go-algorand/agreement.AsyncVoteVerifier).verifyVote = verifStubAVVVote
//verif:stub (*github.com/algorand/go-algorand/agreement.AsyncVoteVerifier).verifyEqVote = verifStubAVVEqVote
//verif:stub (github.com/algorand/go-algorand/data/bookkeeping.Block).Digest = verifStubBlockDigest
func VerifC04Authenticate() {
	o := verifC04Setup()
	b := verifC04Bundle(o)
	vr.Fill("blockdigest", o.blockDigest[:2])
	var blk bookkeeping.Block
	blk.BlockHeader.Round = basics.Round(vr.U64("blockround"))
	err := Certificate(b).Authenticate(blk, verifC04Ledger{}, nil)
	if err == nil {
		vr.Reach("accepted")
		vr.Assert("c04.cert.step", b.Step == cert)
		vr.Assert("c04.cert.round", b.Round == blk.BlockHeader.Round)
		vr.Assert("c04.cert.digest", b.Proposal.BlockDigest == o.blockDigest)
		vr.Assert("c04.cert.quorum", !o.paramsErr && verifC04ProvesQuorum(o, b))
		vr.Assert("c04.cert.not-bottom", b.Proposal != bottom || len(b.Votes) == 0)
	}
	vr.Reach("done")
}
