//go:build verif

package transactions

import (
	"github.com/algorand/go-algorand/config"
	"github.com/algorand/go-algorand/config/bounds"
	vr "github.com/algorand/go-algorand/internal/verifrt"
	"github.com/algorand/go-algorand/protocol"
	"github.com/algorand/msgp/msgp"
)

// C41 for the RECURSIVE message types of package transactions: the depth budget
// and the InnerTxns allocbound.
//
// EvalDelta.InnerTxns is a list of SignedTxnWithAD, each of which carries (in
// its ApplyData) an EvalDelta again: the only recursion in the generated
// codecs of this package, and the reason msgp.UnmarshalState.AllowableDepth
// exists (protocol sets the default to 255): every generated
// UnmarshalMsgWithState refuses at budget 0 and hands budget-1 to every nested
// decoder. An untrusted input must not be able to nest deeper than the budget
// allows - in EITHER encoding a struct can arrive in: the map form
// {"itx": [...]} / {"dt": ...} and the positional array form
// [gd, ld, sa, lg, itx] / [sig, msig, lsig, pqsig, txn, sgnr, ca, aca, rs, rr,
// rc, dt] (go-codec compatibility, a separate branch of the generated code).
//
// Code under test: (*EvalDelta).UnmarshalMsgWithState (both branches),
// (*SignedTxnWithAD).UnmarshalMsgWithState (map branch; see verifC41STxnAD),
// (*Transaction).UnmarshalMsgWithState, protocol.TxType, basics.Address,
// basics.StateDelta (nil), and the real msgp readers.
//
// Input: d = 1..3 (thorough 1..5) nested EvalDeltas; the encoding of every EvalDelta on the way
// down chosen independently (map / positional array); the innermost EvalDelta
// is empty (map 0x80 / array 0x90) or carries one nil field ({"gd": nil} /
// [nil x 5]: one more level, basics.StateDelta's decoder). Payloads are
// otherwise minimal - the subject is the budget. AllowableDepth is ANY 64-bit
// value (symbolic). Reference, from the types' structure: an EvalDelta costs
// one level plus what its inner transaction costs; a SignedTxnWithAD one level
// plus the deeper of its transaction (2: Transaction, then TxType/Address) and
// its EvalDelta. So d = 1: 1 (2 with a field), d = 2: 4, d = 3: 6.
//
//   c41.depth.accepted-iff-budget   err == nil  <=>  AllowableDepth >= needed
//   c41.depth.nesting-decoded       on success the object holds exactly d levels,
//                                   nothing left over
//   c41.allocbound                  whatever happens, every InnerTxns slice in the
//                                   object has len and cap <= MaxInnerTransactionsPerDelta
//   no panic (automatic)
//
// (The budget is passed BY VALUE - msgp.UnmarshalState is a struct - so "the
// caller's remaining depth is unchanged after return" holds by construction
// and cannot be violated by the callee; it is asserted for the harness's own
// copy only as a guard against the signature changing to a pointer.)

const (
	verifC41FormMap = iota
	verifC41FormArray
)

// SignedTxnWithAD holding the EvalDelta e and the smallest transaction the
// decoder accepts: `txn`, and in it `type` and `snd`, are tagged "required"
// (non-zero), so {"txn": {"snd": <address>, "type": "pay"}, "dt": e}.
// Cost in levels: the SignedTxnWithAD 1, then the deeper of
// Transaction + TxType/Address = 2 and the EvalDelta.
//
// The positional form of SignedTxnWithAD is not used: it cannot skip `msig`,
// and MultisigSig's own required fields (v, thr, subsig) reject a nil there.
func verifC41STxnAD(e []byte, needE uint64) (enc []byte, need uint64) {
	enc = []byte{0x82, 0xa3, 't', 'x', 'n', 0x82, 0xa3, 's', 'n', 'd', 0xc4, 32}
	for i := 0; i < 32; i++ {
		enc = append(enc, byte(i+1))
	}
	enc = append(enc, 0xa4, 't', 'y', 'p', 'e', 0xa3, 'p', 'a', 'y')
	enc = append(enc, 0xa2, 'd', 't')
	enc = append(enc, e...)
	need = 1 + needE
	if need < 3 {
		need = 3
	}
	return
}

// EvalDelta holding (only) the inner transactions itx (already with its array header)
func verifC41EvalDeltaWith(form int, itx []byte) []byte {
	var out []byte
	if form == verifC41FormMap {
		out = []byte{0x81, 0xa3, 'i', 't', 'x'}
	} else {
		// positional: gd ld sa lg itx - four nils, then itx
		out = []byte{0x95, 0xc0, 0xc0, 0xc0, 0xc0}
	}
	return append(out, itx...)
}

// innermost EvalDelta: 0 empty map, 1 empty array, 2 {"gd": nil}, 3 [nil nil nil nil nil]
func verifC41InnermostDelta(kind int) (enc []byte, need uint64) {
	switch kind {
	case 0:
		return []byte{0x80}, 1
	case 1:
		return []byte{0x90}, 1
	case 2:
		return []byte{0x81, 0xa2, 'g', 'd', 0xc0}, 2
	}
	return []byte{0x95, 0xc0, 0xc0, 0xc0, 0xc0, 0xc0}, 2
}

// number of EvalDelta levels in the decoded object, following InnerTxns[0]
func verifC41Levels(e *EvalDelta) int {
	n := 1
	for len(e.InnerTxns) > 0 && n < 10 {
		e = &e.InnerTxns[0].ApplyData.EvalDelta
		n++
	}
	return n
}

// longest InnerTxns (len or cap) anywhere along the chain
func verifC41MaxInner(e *EvalDelta) int {
	m := 0
	for i := 0; i < 10; i++ {
		if len(e.InnerTxns) > m {
			m = len(e.InnerTxns)
		}
		if cap(e.InnerTxns) > m {
			m = cap(e.InnerTxns)
		}
		if len(e.InnerTxns) == 0 {
			break
		}
		e = &e.InnerTxns[0].ApplyData.EvalDelta
	}
	return m
}

func verifC41Bound() int {
	// the allocbound is a variable set by package config's initializer
	_ = config.Consensus[protocol.ConsensusCurrentVersion]
	b := bounds.MaxInnerTransactionsPerDelta
	vr.Assert("c41.bound-initialised", b > 0 && b < 1<<16)
	return b
}

// nested EvalDeltas, every level in either encoding, any budget
//
//verif:harness prop=C41 reach=done,accepted,refused,all-map,all-array,mixed unwind=16 budget=200 thorough.budget=900
func VerifC41EvalDeltaDepth() {
	bound := verifC41Bound()
	d := 1 + vr.Choice("levels", vr.Param(3, 5))
	enc, need := verifC41InnermostDelta(vr.Choice("innermost", 4))
	arrays, maps := 0, 0
	for i := d - 1; i >= 1; i-- {
		fe := vr.Choice("delta.form", 2)
		arrays += fe
		maps += 1 - fe
		enc, need = verifC41STxnAD(enc, need)
		enc = verifC41EvalDeltaWith(fe, append([]byte{0x91}, enc...))
		need++
	}
	// top-level entry exactly as protocol.DecodeMsgp does, with a budget of any size
	st := msgp.UnmarshalState{AllowableDepth: vr.U64("budget")}
	budget := st.AllowableDepth
	var v EvalDelta
	rem, err := v.UnmarshalMsgWithState(enc, st)

	vr.Assert("c41.depth.accepted-iff-budget", (err == nil) == (budget >= need))
	vr.Assert("c41.depth.state-by-value", st.AllowableDepth == budget)
	vr.Assert("c41.allocbound", verifC41MaxInner(&v) <= bound)
	if err == nil {
		vr.Assert("c41.depth.nesting-decoded", verifC41Levels(&v) == d && len(rem) == 0)
		vr.Reach("accepted")
	} else {
		vr.Reach("refused")
	}
	if d > 1 {
		switch {
		case arrays == 0:
			vr.Reach("all-map")
		case maps == 0:
			vr.Reach("all-array")
		default:
			vr.Reach("mixed")
		}
	}
	vr.Reach("done")
}

// The same entered through SignedTxnWithAD (how inner transactions arrive in a
// block's payset): SignedTxnWithAD{dt: EvalDelta{itx: [SignedTxnWithAD{dt: EvalDelta{}}]}}
//
//verif:harness prop=C41 reach=done,accepted,refused unwind=16 budget=200 thorough.budget=900
func VerifC41SignedTxnWithADDepth() {
	bound := verifC41Bound()
	d := 1 + vr.Choice("levels", vr.Param(2, 4))
	enc, need := verifC41InnermostDelta(vr.Choice("innermost", 4))
	for i := d - 1; i >= 1; i-- {
		enc, need = verifC41STxnAD(enc, need)
		enc = verifC41EvalDeltaWith(vr.Choice("delta.form", 2), append([]byte{0x91}, enc...))
		need++
	}
	enc, need = verifC41STxnAD(enc, need)
	budget := vr.U64("budget")
	var v SignedTxnWithAD
	rem, err := v.UnmarshalMsgWithState(enc, msgp.UnmarshalState{AllowableDepth: budget})
	vr.Assert("c41.depth.accepted-iff-budget", (err == nil) == (budget >= need))
	vr.Assert("c41.allocbound", verifC41MaxInner(&v.ApplyData.EvalDelta) <= bound)
	if err == nil {
		vr.Assert("c41.depth.nesting-decoded", verifC41Levels(&v.ApplyData.EvalDelta) == d && len(rem) == 0)
		vr.Reach("accepted")
	} else {
		vr.Reach("refused")
	}
	vr.Reach("done")
}

// InnerTxns announcing more elements than the allocbound, at the top level and
// one level down, in both encodings of the EvalDelta that holds the list:
// bound+1 (array16 / array32), 2^31, 2^32-1, ANY 32-bit count above the bound,
// and the map-flattening headers (a map of n pairs read as 2n elements). Must
// be refused before anything is allocated: whatever is in the object afterwards
// is within the bound (a decoder that allocated first would leave the oversized
// slice behind for bound+1, or hit the engine's allocation limit = inconclusive).
// Counts AT the bound with no elements present: refused (input too short), the
// allocation itself is legitimate.
//
//verif:harness prop=C41 reach=done,over-allocbound-refused,at-bound-short unwind=16 budget=200 thorough.budget=900
func VerifC41InnerTxnsAllocbound() {
	bound := verifC41Bound()
	be := func(n, w int) []byte {
		var o []byte
		for i := w - 1; i >= 0; i-- {
			o = append(o, byte(n>>(8*uint(i))))
		}
		return o
	}
	var hdr []byte
	over := true
	switch vr.Choice("count", 9) {
	case 0:
		hdr = append([]byte{0xdc}, be(bound+1, 2)...)
	case 1:
		hdr = append([]byte{0xdd}, be(bound+1, 4)...)
	case 2:
		hdr = []byte{0xdd, 0x80, 0, 0, 0}
	case 3:
		hdr = []byte{0xdd, 0xff, 0xff, 0xff, 0xff}
	case 4:
		p := vr.BytesN("count", 4)
		vr.Assume(uint64(p[0])<<24|uint64(p[1])<<16|uint64(p[2])<<8|uint64(p[3]) > uint64(bound))
		hdr = append([]byte{0xdd}, p...)
	case 5: // map16 of bound/2+1 pairs = more than bound elements
		hdr = append([]byte{0xde}, be(bound/2+1, 2)...)
	case 6:
		hdr = []byte{0xdf, 0xff, 0xff, 0xff, 0xff}
	case 7: // exactly the bound, nothing follows
		hdr = append([]byte{0xdc}, be(bound, 2)...)
		over = false
	case 8:
		hdr = append([]byte{0xdd}, be(bound, 4)...)
		over = false
	}
	enc := verifC41EvalDeltaWith(vr.Choice("delta.form", 2), hdr)
	if vr.Choice("level", 2) == 1 {
		enc, _ = verifC41STxnAD(enc, 1)
		enc = verifC41EvalDeltaWith(vr.Choice("outer.delta.form", 2), append([]byte{0x91}, enc...))
	}
	var v EvalDelta
	_, err := v.UnmarshalMsgWithState(enc, msgp.DefaultUnmarshalState)
	vr.Assert("c41.allocbound.refused", err != nil)
	vr.Assert("c41.allocbound", verifC41MaxInner(&v) <= bound)
	if over {
		vr.Reach("over-allocbound-refused")
	} else {
		vr.Reach("at-bound-short")
	}
	vr.Reach("done")
}
