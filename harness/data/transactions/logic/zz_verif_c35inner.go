//go:build verif

package logic

import (
	"github.com/algorand/go-algorand/data/basics"
	"github.com/algorand/go-algorand/data/transactions"
	vr "github.com/algorand/go-algorand/internal/verifrt"
	"github.com/algorand/go-algorand/protocol"
)

// C35, inner transactions: an app (program version >= 9) may SUBMIT an inner
// transaction only if every holding / local state that transaction would touch
// is available to the app. The accounts and ids of the inner transaction were
// checked one by one when the fields were set (assignAccount / assignAsset /
// assignApp, covered in zz_verif_c35.go); the cross products are checked at
// itxn_submit by EvalContext.allows (resources.go).
//
// Code under test (real): EvalContext.allows and what it dispatches to -
// allowsAssetTransfer, allowsAssetFreeze, allowsApplicationCall, requireHolding,
// requireLocals, allowsHolding, allowsLocals - on a symbolic inner transaction,
// in the scenarios of zz_verif_c35.go (group of 1-2 transactions, availability
// computed by the real computeAvailability, symbolic program version across the
// v8/v9 boundary, inner transaction fields ranging over every address / id of the
// scenario, the zero value and an outsider).
//
// The rule, restated from the code and the AVM specification ("Resource
// availability", inner transactions), with H(a,x) = "x is 0 or a is the zero
// address (field not set) or the holding (a,x) is available" and L(a,p) = "the
// local state (a,p) is available" (oracle of zz_verif_c35.go):
//
//   caller version < 9:   allows() == nil for EVERY transaction (no per-pair rule
//                         exists: an old program cannot have obtained an account
//                         and an asset from two different transactions). Even an
//                         unknown type gets nil here (types are validated by
//                         itxn_field / WellFormed, not by allows).
//   caller version >= 9:
//     pay, keyreg, acfg:  nil (no cross-product resource is touched).
//     axfer:   nil  <=>  (AssetSender set or H(Sender,X)) and H(AssetReceiver,X)
//                        and H(AssetSender,X) and H(AssetCloseTo,X), X = XferAsset.
//                        (A clawback does not need the Sender's holding.)
//     afrz:    nil  <=>  H(FreezeAccount, FreezeAsset).  (Not the Sender's.)
//     appl:    callee program version >= 9: nil (the callee checks for itself).
//              callee < 9: nil <=> for every a in {Sender} + Accounts + app account of
//              ApplicationID (if not 0) + app accounts of ForeignApps:
//                 H(a,x) for every x in ForeignAssets, L(a,ApplicationID) if not 0,
//                 L(a,p) for every p in ForeignApps.
//              (i.e. everything an old callee could reach by its own pre-sharing rule
//              "account available and asset/app available" must be available as a PAIR
//              to the caller.) tx.Access of the inner call is not looked at: a callee
//              < 9 cannot be invoked with tx.Access.
//     any other type:     error.
//
// Two kinds of harness:
//   * VerifC35InnerPairs (structural, exact, all fields free): requireHolding /
//     requireLocals are replaced by recorders with ARBITRARY answers; asserted:
//     the sequence of (account, id) pairs the code asks about is exactly the list
//     above, in that order, stopping at the first refusal, and the result is nil
//     iff no answer was a refusal. Together with the exactness of the real
//     requireHolding / requireLocals (VerifC35InnerRequire) this is the rule.
//   * VerifC35Inner{Axfer,Appl,Other}{Own,Shared} (end to end, everything real):
//     allows() == nil  <=>  the rule evaluated with the independent oracle.
//     Quick tier: at most two of the four axfer parties are free at a time; the
//     inner appl has a free Sender, 0-1 Accounts, 1 ForeignAsset, 0 ForeignApps
//     (alone in the group) or Sender = the app, 1 Account, no assets (two
//     transactions). Thorough (single-transaction scenarios only): all four
//     parties free; 1 ForeignApp.
//
// "The error names the right party": error texts are opaque to the engine
// (fmt.Errorf is modelled), so the label cannot be asserted; what IS asserted
// (structural harness) is which pair was refused first, i.e. the pair the label
// is attached to in the code.

//verif:stub (github.com/algorand/go-algorand/data/basics.AppIndex).Address = verifC35AppAddr

// ---------------------------------------------------------------- inner fields

// any address of the scenario, the zero address, or an outsider. (The decoding
// is a separate PURE function: the engine merges the paths of pure callees, so a
// pick does not fork.)
func verifC35InnerAddr(label string) basics.Address {
	k := vr.U8(label)
	vr.Assume(k < verifC35Plain+verifC35IDs+2)
	return verifC35AddrOfCode(k)
}

func verifC35AddrOfCode(k uint8) basics.Address {
	if k == verifC35Plain+verifC35IDs {
		return basics.Address{}
	}
	if k == verifC35Plain+verifC35IDs+1 {
		return verifC35PlainAddr(0x77)
	}
	if k < verifC35Plain {
		return verifC35PlainAddr(k)
	}
	return verifC35AppAddr(basics.AppIndex(verifC35IDBase + 2*uint64(k-verifC35Plain)))
}

// any id of the scenario, 0, or an outsider (300)
func verifC35InnerID(label string) uint64 {
	k := vr.U8(label)
	vr.Assume(k < verifC35IDs+2)
	return verifC35IDOfCode(k)
}

func verifC35IDOfCode(k uint8) uint64 {
	if k == verifC35IDs {
		return 0
	}
	if k == verifC35IDs+1 {
		return 300
	}
	return verifC35IDBase + 2*uint64(k)
}

func verifC35InnerAxfer(s *verifC35Scenario, allFree bool) transactions.Transaction {
	var tx transactions.Transaction
	tx.Type = protocol.AssetTransferTx
	tx.XferAsset = basics.AssetIndex(verifC35InnerID("i.xasset"))
	self := verifC35AppAddr(s.cx.appID) // the usual sender of an inner transaction
	if allFree {
		tx.Sender = verifC35InnerAddr("i.snd")
		tx.AssetReceiver = verifC35InnerAddr("i.arcv")
		tx.AssetSender = verifC35InnerAddr("i.asnd")
		tx.AssetCloseTo = verifC35InnerAddr("i.aclose")
		return tx
	}
	switch vr.Choice("i.shape", 3) {
	case 0: // plain transfer
		tx.Sender = verifC35InnerAddr("i.snd")
		tx.AssetReceiver = verifC35InnerAddr("i.arcv")
	case 1: // clawback (the app is the clawback address)
		tx.Sender = self
		tx.AssetSender = verifC35InnerAddr("i.asnd")
		tx.AssetReceiver = verifC35InnerAddr("i.arcv")
	case 2: // close-out
		tx.Sender = verifC35InnerAddr("i.snd")
		tx.AssetReceiver = tx.Sender
		tx.AssetCloseTo = verifC35InnerAddr("i.aclose")
	}
	return tx
}

// full: Sender free, 0-1 Accounts, one ForeignAsset (thorough: + one ForeignApp).
// Otherwise (the two-transaction scenario): the app itself is the
// Sender, exactly one free account, no assets - the pairs are then (app, id),
// (account, id), (app account of id, id).
func verifC35InnerAppl(s *verifC35Scenario, full bool) transactions.Transaction {
	var tx transactions.Transaction
	tx.Type = protocol.ApplicationCallTx
	tx.ApplicationID = basics.AppIndex(verifC35InnerID("i.appid"))
	if !full {
		tx.Sender = verifC35AppAddr(s.cx.appID)
		tx.Accounts = []basics.Address{verifC35InnerAddr("i.acct")}
		return tx
	}
	tx.Sender = verifC35InnerAddr("i.snd")
	if vr.Bool("i.hasacct") {
		tx.Accounts = []basics.Address{verifC35InnerAddr("i.acct")}
	}
	tx.ForeignAssets = []basics.AssetIndex{basics.AssetIndex(verifC35InnerID("i.asa"))}
	if vr.Param(0, 1) == 1 {
		tx.ForeignApps = []basics.AppIndex{basics.AppIndex(verifC35InnerID("i.fapp"))}
	}
	return tx
}

// ---------------------------------------------------------------- the rule

type verifC35Pair struct {
	locals bool // holding (account, asset) or locals (account, app)
	addr   basics.Address
	id     uint64
}

// verifC35InnerPairs lists, in the order of the specification above, the pairs
// an inner transaction touches (for a caller >= 9 and, for appl, a callee < 9).
func verifC35InnerPairs(tx *transactions.Transaction) []verifC35Pair {
	var ps []verifC35Pair
	switch tx.Type {
	case protocol.AssetTransferTx:
		x := uint64(tx.XferAsset)
		if tx.AssetSender.IsZero() {
			ps = append(ps, verifC35Pair{false, tx.Sender, x})
		}
		ps = append(ps, verifC35Pair{false, tx.AssetReceiver, x}, verifC35Pair{false, tx.AssetSender, x},
			verifC35Pair{false, tx.AssetCloseTo, x})
	case protocol.AssetFreezeTx:
		ps = append(ps, verifC35Pair{false, tx.FreezeAccount, uint64(tx.FreezeAsset)})
	case protocol.ApplicationCallTx:
		accts := append([]basics.Address{tx.Sender}, tx.Accounts...)
		if tx.ApplicationID != 0 {
			accts = append(accts, verifC35AppAddr(tx.ApplicationID))
		}
		for _, p := range tx.ForeignApps {
			accts = append(accts, verifC35AppAddr(p))
		}
		for _, a := range accts {
			for _, x := range tx.ForeignAssets {
				ps = append(ps, verifC35Pair{false, a, uint64(x)})
			}
			if tx.ApplicationID != 0 {
				ps = append(ps, verifC35Pair{true, a, uint64(tx.ApplicationID)})
			}
			for _, p := range tx.ForeignApps {
				ps = append(ps, verifC35Pair{true, a, uint64(p)})
			}
		}
	}
	return ps
}

// H / L of the header comment, by the independent oracle
func (o *verifC35Oracle) pairOK(p verifC35Pair) bool {
	if p.locals {
		return o.local(p.addr, basics.AppIndex(p.id))
	}
	if p.id == 0 {
		return true
	}
	if p.addr.IsZero() {
		return true
	}
	return o.holding(p.addr, basics.AssetIndex(p.id))
}

// verifC35CheckInner: allows(tx) == nil  <=>  the rule. known: allows() knows the type.
func verifC35CheckInner(s *verifC35Scenario, tx *transactions.Transaction, calleeVer uint64, known bool) {
	o := verifC35OracleOf(s)
	err := s.cx.allows(tx, calleeVer)
	if s.cx.version < verifC35VSharing {
		vr.Reach("pre-sharing")
		vr.Assert("c35.inner.pre-sharing-unchecked", err == nil)
		vr.Reach("done")
		return
	}
	if !known {
		vr.Assert("c35.inner.unknown-type-refused", err != nil)
		vr.Reach("done")
		return
	}
	want := true
	if tx.Type != protocol.ApplicationCallTx || calleeVer < verifC35VSharing {
		for _, p := range verifC35InnerPairs(tx) {
			ok := o.pairOK(p)
			want = want && ok
		}
	}
	if err == nil {
		vr.Reach("allowed")
		vr.Assert("c35.inner.allowed-only-if-every-pair-available", want)
	} else {
		vr.Reach("refused")
		vr.Assert("c35.inner.refused-only-if-a-pair-unavailable", !want)
	}
	vr.Reach("done")
}

// scenarios: the app call alone (arrays, 1 account / asset / app), every
// version; or with a second transaction, versions 8..10
func verifC35InnerOwn() *verifC35Scenario {
	return verifC35Build(verifC35Opts{nacc: 1, nasa: 1, napp: 1, kinds: verifC35Alone(),
		minV: verifC35VDirect, maxV: LogicVersion})
}

func verifC35InnerShared(kinds []int, fAsa, fApp bool) *verifC35Scenario {
	return verifC35Build(verifC35Opts{concrete0: true, nacc: 1, nasa: 1, napp: 1, kinds: kinds,
		fAcct: true, fAsa: fAsa, fApp: fApp, minV: verifC35VSharing - 1, maxV: verifC35VSharing + 1})
}

// ---------------------------------------------------------------- end-to-end harnesses

//verif:harness prop=C35 reach=done,pre-sharing,allowed,refused unwind=80 budget=280 thorough.budget=1500
func VerifC35InnerAxferOwn() {
	s := verifC35InnerOwn()
	tx := verifC35InnerAxfer(s, vr.Param(0, 1) == 1)
	verifC35CheckInner(s, &tx, 0, true)
}

// the other transaction: a payment (accounts only) or an asset transfer (holdings)
//
//verif:harness prop=C35 reach=done,pre-sharing,allowed,refused unwind=80 budget=280 thorough.budget=1500
func VerifC35InnerAxferShared() {
	s := verifC35InnerShared([]int{verifC35KindPay, verifC35KindAxfer}, true, false)
	tx := verifC35InnerAxfer(s, false)
	verifC35CheckInner(s, &tx, 0, true)
}

//verif:harness prop=C35 reach=done,pre-sharing,allowed,refused unwind=80 budget=280 thorough.budget=1500
func VerifC35InnerApplOwn() {
	s := verifC35InnerOwn()
	tx := verifC35InnerAppl(s, true)
	callee := uint64(vr.U8("i.calleeversion"))
	vr.Assume(callee >= verifC35VDirect && callee <= LogicVersion)
	verifC35CheckInner(s, &tx, callee, true)
}

// the other transaction: a payment or an app call (foreign arrays / tx.Access); callee < 9
//
//verif:harness prop=C35 reach=done,pre-sharing,allowed,refused unwind=80 budget=280 thorough.budget=1500
func VerifC35InnerApplShared() {
	s := verifC35InnerShared([]int{verifC35KindPay, verifC35KindApplArrays, verifC35KindApplAccess}, false, true)
	tx := verifC35InnerAppl(s, false)
	verifC35CheckInner(s, &tx, 6, true)
}

// afrz, the types without cross products, and types allows() does not know
//
//verif:harness prop=C35 reach=done,pre-sharing,allowed,refused unwind=80 budget=280 thorough.budget=1500
func VerifC35InnerOtherShared() {
	s := verifC35InnerShared([]int{verifC35KindPay, verifC35KindAfrz}, true, false)
	var tx transactions.Transaction
	tx.Sender = verifC35InnerAddr("i.snd")
	known := true
	switch vr.Choice("i.type", 6) {
	case 0:
		tx.Type = protocol.AssetFreezeTx
		tx.FreezeAccount = verifC35InnerAddr("i.facct")
		tx.FreezeAsset = basics.AssetIndex(verifC35InnerID("i.fasset"))
	case 1:
		tx.Type = protocol.PaymentTx
		tx.Receiver = verifC35InnerAddr("i.rcv")
		tx.CloseRemainderTo = verifC35InnerAddr("i.close")
	case 2:
		tx.Type = protocol.KeyRegistrationTx
	case 3:
		tx.Type = protocol.AssetConfigTx
		tx.ConfigAsset = basics.AssetIndex(verifC35InnerID("i.casset"))
	case 4:
		tx.Type, known = protocol.StateProofTx, false
	case 5:
		tx.Type, known = protocol.TxType("zzz"), false
	}
	verifC35CheckInner(s, &tx, 0, known)
}

// requireHolding / requireLocals (real) are exactly H / L
//
//verif:harness prop=C35 reach=done,allowed,refused unwind=80 budget=280 thorough.budget=1500
func VerifC35InnerRequire() {
	s := verifC35InnerShared([]int{verifC35KindPay, verifC35KindAxfer, verifC35KindApplArrays}, true, true)
	vr.Assume(s.cx.version >= verifC35VSharing)
	o := verifC35OracleOf(s)
	p := verifC35Pair{locals: vr.Bool("q.locals"), addr: verifC35InnerAddr("q.addr"), id: verifC35InnerID("q.id")}
	var err error
	if p.locals {
		err = s.cx.requireLocals(p.addr, basics.AppIndex(p.id))
	} else {
		err = s.cx.requireHolding(p.addr, basics.AssetIndex(p.id))
	}
	if err == nil {
		vr.Reach("allowed")
		vr.Assert("c35.inner.require-only-if-available", o.pairOK(p))
	} else {
		vr.Reach("refused")
		vr.Assert("c35.inner.available-is-not-refused", !o.pairOK(p))
	}
	vr.Reach("done")
}

// ---------------------------------------------------------------- structural harness

type verifC35Refusal struct{}

func (verifC35Refusal) Error() string { return "verif: recorder refuses this pair" }

func verifC35AddrCode(a basics.Address) uint64 {
	return uint64(a[0]) | uint64(a[1])<<8 | uint64(a[2])<<16 | uint64(a[3])<<24 | uint64(a[4])<<32 |
		uint64(a[5])<<40 | uint64(a[6])<<48 | uint64(a[7])<<56
}

func verifC35Record(kind uint64, acct basics.Address, id uint64) error {
	ok := vr.Bool("recorder.answer")
	var okv uint64
	if ok {
		okv = 1
	}
	vr.Event("c35.require", kind, verifC35AddrCode(acct), uint64(acct[8]), id, okv)
	if ok {
		return nil
	}
	return verifC35Refusal{}
}

func verifC35StubRequireHolding(cx *EvalContext, acct basics.Address, id basics.AssetIndex) error {
	return verifC35Record(0, acct, uint64(id))
}

func verifC35StubRequireLocals(cx *EvalContext, acct basics.Address, id basics.AppIndex) error {
	return verifC35Record(1, acct, uint64(id))
}

// Which pairs does allows() ask about, in which order, and how does it combine the answers?
//
//verif:harness prop=C35 reach=done,pre-sharing,allowed,refused,new-callee unwind=80 budget=280 thorough.budget=1500
//verif:stub (*github.com/algorand/go-algorand/data/transactions/logic.EvalContext).requireHolding = verifC35StubRequireHolding
//verif:stub (*github.com/algorand/go-algorand/data/transactions/logic.EvalContext).requireLocals = verifC35StubRequireLocals
func VerifC35InnerPairs() {
	s := verifC35Build(verifC35Opts{concrete0: true, kinds: verifC35Alone(), minV: verifC35VDirect, maxV: LogicVersion})
	var tx transactions.Transaction
	callee := uint64(0)
	switch vr.Choice("i.type", 3) {
	case 0:
		tx.Type = protocol.AssetTransferTx
		tx.XferAsset = basics.AssetIndex(verifC35InnerID("i.xasset"))
		tx.Sender = verifC35InnerAddr("i.snd")
		tx.AssetReceiver = verifC35InnerAddr("i.arcv")
		tx.AssetSender = verifC35InnerAddr("i.asnd")
		tx.AssetCloseTo = verifC35InnerAddr("i.aclose")
	case 1:
		tx.Type = protocol.AssetFreezeTx
		tx.Sender = verifC35InnerAddr("i.snd")
		tx.FreezeAccount = verifC35InnerAddr("i.facct")
		tx.FreezeAsset = basics.AssetIndex(verifC35InnerID("i.fasset"))
	case 2:
		tx.Type = protocol.ApplicationCallTx
		tx.Sender = verifC35InnerAddr("i.snd")
		tx.ApplicationID = basics.AppIndex(verifC35InnerID("i.appid"))
		for i, n := 0, vr.Choice("i.naccts", vr.Param(2, 3)); i < n; i++ {
			tx.Accounts = append(tx.Accounts, verifC35InnerAddr("i.acct"))
		}
		for i, n := 0, vr.Choice("i.nasas", 3); i < n; i++ {
			tx.ForeignAssets = append(tx.ForeignAssets, basics.AssetIndex(verifC35InnerID("i.asa")))
		}
		for i, n := 0, vr.Choice("i.napps", vr.Param(2, 3)); i < n; i++ {
			tx.ForeignApps = append(tx.ForeignApps, basics.AppIndex(verifC35InnerID("i.fapp")))
		}
		callee = uint64(vr.U8("i.calleeversion"))
		vr.Assume(callee >= verifC35VDirect && callee <= LogicVersion)
	}
	err := s.cx.allows(&tx, callee)
	asked := vr.EventCount("c35.require")
	if s.cx.version < verifC35VSharing {
		vr.Reach("pre-sharing")
		vr.Assert("c35.inner.pre-sharing-unchecked", err == nil && asked == 0)
		vr.Reach("done")
		return
	}
	if tx.Type == protocol.ApplicationCallTx && callee >= verifC35VSharing {
		vr.Reach("new-callee")
		vr.Assert("c35.inner.new-callee-checks-itself", err == nil && asked == 0)
		vr.Reach("done")
		return
	}
	want := verifC35InnerPairs(&tx)
	vr.Assert("c35.inner.pairs.no-more-than-needed", asked <= len(want))
	refused := false
	for i := 0; i < asked; i++ {
		e := vr.EventIndex("c35.require", i)
		kind := uint64(0)
		if want[i].locals {
			kind = 1
		}
		vr.Assert("c35.inner.pairs.right-pair-in-order", vr.EventArg(e, 0) == kind &&
			vr.EventArg(e, 1) == verifC35AddrCode(want[i].addr) && vr.EventArg(e, 2) == uint64(want[i].addr[8]) &&
			vr.EventArg(e, 3) == want[i].id)
		// a refusal is the last question asked
		vr.Assert("c35.inner.pairs.stops-at-first-refusal", !refused)
		if vr.EventArg(e, 4) == 0 {
			refused = true
		}
	}
	if err == nil {
		vr.Reach("allowed")
		vr.Assert("c35.inner.pairs.all-asked-and-accepted", !refused && asked == len(want))
	} else {
		vr.Reach("refused")
		vr.Assert("c35.inner.pairs.error-only-after-refusal", refused)
	}
	vr.Reach("done")
}
