//go:build verif

package logic

import (
	vr "github.com/algorand/go-algorand/internal/verifrt"
)

// C34 (field level): a program of version v is rejected when an instruction's
// field immediate names a field introduced after v, or a field number that the
// group does not define.
//
// Oracle: the FieldGroup attached to the opcode's immediate in the real opcode
// table (built by the package's init from the current tree): Names[f] and the
// spec's Version().  Implementation under test: each opcode's own field check,
// reached through the real EvalContext.step() for the real (version, opcode)
// dispatch entry.  For every version 1..LogicVersion, every opcode that takes a
// field immediate and every field number that the oracle says is not usable at
// that version (every too-new field, the first undefined number and 255), one
// step on symbolic operands and symbolic remaining immediates must end in an
// error; a Go panic (e.g. reaching the nil ledger) is a violation as well.
//
// The ecdsa opcodes get concrete, valid P-256 operands: without them a missing
// version check would still fail later on a malformed key and go unnoticed.

var verifC34P256Gx = []byte{
	0x6b, 0x17, 0xd1, 0xf2, 0xe1, 0x2c, 0x42, 0x47, 0xf8, 0xbc, 0xe6, 0xe5, 0x63, 0xa4, 0x40, 0xf2,
	0x77, 0x03, 0x7d, 0x81, 0x2d, 0xeb, 0x33, 0xa0, 0xf4, 0xa1, 0x39, 0x45, 0xd8, 0x98, 0xc2, 0x96,
}
var verifC34P256Gy = []byte{
	0x4f, 0xe3, 0x42, 0xe2, 0xfe, 0x1a, 0x7f, 0x9b, 0x8e, 0xe7, 0xeb, 0x4a, 0x7c, 0x0f, 0x9e, 0x16,
	0x2b, 0xce, 0x33, 0x57, 0x6b, 0x31, 0x5e, 0xce, 0xcb, 0xb6, 0x40, 0x68, 0x37, 0xbf, 0x51, 0xf5,
}

func verifC34FieldGate(lo, hi int) {
	version := uint64(1 + vr.Choice("version", LogicVersion))
	op := lo + vr.Choice("opcode", hi-lo)
	spec := &opsByOpcode[version][op]
	if spec.op == nil || spec.SubOps != nil {
		vr.Reach("done")
		return
	}
	off := -1
	var g *FieldGroup
	for i := range spec.OpDetails.Immediates {
		im := &spec.OpDetails.Immediates[i]
		if im.Group != nil {
			off, g = i, im.Group
			break
		}
		if im.kind != immByte && im.kind != immInt8 {
			break
		}
	}
	if g == nil {
		vr.Reach("done")
		return
	}
	var cands []int
	for f, name := range g.Names {
		if name == "" {
			continue
		}
		if fs, ok := g.specs.get(name); ok && fs.Version() > version {
			cands = append(cands, f)
		}
	}
	if len(g.Names) < 256 {
		cands = append(cands, len(g.Names), 255)
	}
	if len(cands) == 0 {
		vr.Reach("done")
		return
	}
	f := cands[vr.Choice("field", len(cands))]

	prog := make([]byte, 2+4)
	prog[0] = byte(version)
	prog[1] = byte(op)
	vr.Fill("imm", prog[2:])
	prog[2+off] = byte(f)
	cx := verifC31Context(version, prog)
	if spec.Modes&ModeSig == 0 {
		cx.runMode = ModeApp
	}
	switch spec.Name {
	case "ecdsa_pk_decompress":
		pk := append([]byte{0x03}, verifC34P256Gx...)
		cx.Stack = append(cx.Stack, stackValue{Bytes: pk})
	case "ecdsa_verify":
		one := make([]byte, 32)
		one[31] = 1
		cx.Stack = append(cx.Stack, stackValue{Bytes: make([]byte, 32)}, stackValue{Bytes: one}, stackValue{Bytes: one},
			stackValue{Bytes: verifC34P256Gx}, stackValue{Bytes: verifC34P256Gy})
	default:
		labels := []string{"s0", "s1", "s2", "s3", "s4"}
		for i, t := range spec.Arg.Types {
			if i < len(labels) {
				cx.Stack = append(cx.Stack, verifC31Operand(t, labels[i]))
			}
		}
	}
	err := cx.step()
	vr.Reach("gated")
	vr.Assert("c34.field.newer-or-undefined-field-rejected", err != nil)
	vr.Reach("done")
}

//verif:harness prop=C34 reach=done,gated unwind=300 values=300 budget=400 thorough.budget=2400
func VerifC34Field00() { verifC34FieldGate(0x00, 0x31) }

//verif:harness prop=C34 reach=done,gated unwind=300 values=300 budget=400 thorough.budget=2400
func VerifC34Field31() { verifC34FieldGate(0x31, 0x32) }

//verif:harness prop=C34 reach=done,gated unwind=300 values=300 budget=400 thorough.budget=2400
func VerifC34Field32() { verifC34FieldGate(0x32, 0x34) }

//verif:harness prop=C34 reach=done,gated unwind=300 values=300 budget=400 thorough.budget=2400
func VerifC34Field34() { verifC34FieldGate(0x34, 0x37) }

//verif:harness prop=C34 reach=done,gated unwind=300 values=300 budget=400 thorough.budget=2400
func VerifC34Field37() { verifC34FieldGate(0x37, 0x40) }

//verif:harness prop=C34 reach=done,gated unwind=300 values=300 budget=400 thorough.budget=2400
func VerifC34Field40() { verifC34FieldGate(0x40, 0xb0) }

//verif:harness prop=C34 reach=done,gated unwind=300 values=300 budget=400 thorough.budget=2400
func VerifC34FieldB0() { verifC34FieldGate(0xb0, 0xb5) }

//verif:harness prop=C34 reach=done,gated unwind=300 values=300 budget=400 thorough.budget=2400
func VerifC34FieldB5() { verifC34FieldGate(0xb5, 0xc0) }

//verif:harness prop=C34 reach=done,gated unwind=300 values=300 budget=400 thorough.budget=2400
func VerifC34FieldC0() { verifC34FieldGate(0xc0, 0x100) }
