//go:build verif

package logic

import (
	vr "github.com/algorand/go-algorand/internal/verifrt"
)

// C32: AVM opcodes compute exactly their specified results.
// Each opcode function is called directly on an EvalContext whose stack holds
// fully symbolic 64-bit operands and compared with an exact-integer reference.

func verifCx2(a, b uint64) *EvalContext {
	cx := &EvalContext{}
	cx.Stack = make([]stackValue, 0, 8)
	cx.Stack = append(cx.Stack, stackValue{Uint: a}, stackValue{Uint: b})
	return cx
}

func verifCx1(a uint64) *EvalContext {
	cx := &EvalContext{}
	cx.Stack = make([]stackValue, 0, 8)
	cx.Stack = append(cx.Stack, stackValue{Uint: a})
	return cx
}

func verifTop(cx *EvalContext) uint64 { return cx.Stack[len(cx.Stack)-1].Uint }

func verifB2U(b bool) uint64 {
	if b {
		return 1
	}
	return 0
}

//verif:harness prop=C32 reach=done
func VerifC32AddSubMul() {
	a, b := vr.U64("a"), vr.U64("b")
	{
		cx := verifCx2(a, b)
		err := opPlus(cx)
		s := vr.ZU(a).Add(vr.ZU(b))
		vr.Assert("c32.plus.error-iff-overflow", (err != nil) == !s.IsU64())
		if err == nil {
			vr.Assert("c32.plus.value", len(cx.Stack) == 1 && vr.ZU(verifTop(cx)).Eq(s))
		}
	}
	{
		cx := verifCx2(a, b)
		err := opMinus(cx)
		d := vr.ZU(a).Sub(vr.ZU(b))
		vr.Assert("c32.minus.error-iff-negative", (err != nil) == d.Lt(vr.ZU(0)))
		if err == nil {
			vr.Assert("c32.minus.value", len(cx.Stack) == 1 && vr.ZU(verifTop(cx)).Eq(d))
		}
	}
	{
		cx := verifCx2(a, b)
		err := opMul(cx)
		p := vr.ZU(a).Mul(vr.ZU(b))
		vr.Assert("c32.mul.error-iff-overflow", (err != nil) == !p.IsU64())
		if err == nil {
			vr.Assert("c32.mul.value", len(cx.Stack) == 1 && vr.ZU(verifTop(cx)).Eq(p))
		}
	}
	vr.Reach("done")
}

//verif:harness prop=C32 reach=done
func VerifC32DivMod() {
	a, b := vr.U64("a"), vr.U64("b")
	{
		cx := verifCx2(a, b)
		err := opDiv(cx)
		vr.Assert("c32.div.error-iff-zero", (err != nil) == (b == 0))
		if err == nil {
			q := verifTop(cx)
			// q = floor(a/b)  <=>  0 <= a - q*b < b
			rem := vr.ZU(a).Sub(vr.ZU(q).Mul(vr.ZU(b)))
			vr.Assert("c32.div.value", len(cx.Stack) == 1 && rem.Ge(vr.ZU(0)) && rem.Lt(vr.ZU(b)))
		}
	}
	{
		cx := verifCx2(a, b)
		err := opModulo(cx)
		vr.Assert("c32.mod.error-iff-zero", (err != nil) == (b == 0))
		if err == nil {
			r := verifTop(cx)
			// r = a mod b  <=>  r < b and b divides a - r, with quotient fitting 64 bits
			vr.Assert("c32.mod.range", len(cx.Stack) == 1 && r < b && r <= a)
			q := (a - r) / b
			vr.Assert("c32.mod.value", vr.ZU(q).Mul(vr.ZU(b)).Add(vr.ZU(r)).Eq(vr.ZU(a)))
		}
	}
	vr.Reach("done")
}

//verif:harness prop=C32 reach=done
func VerifC32Compare() {
	a, b := vr.U64("a"), vr.U64("b")
	za, zb := vr.ZU(a), vr.ZU(b)
	type cmp struct {
		op   func(*EvalContext) error
		want bool
		tag  string
	}
	cases := []cmp{
		{opLt, za.Lt(zb), "c32.lt"}, {opGt, za.Gt(zb), "c32.gt"}, {opLe, za.Le(zb), "c32.le"}, {opGe, za.Ge(zb), "c32.ge"},
		{opEq, za.Eq(zb), "c32.eq"}, {opNeq, !za.Eq(zb), "c32.neq"},
		{opAnd, a != 0 && b != 0, "c32.and"}, {opOr, a != 0 || b != 0, "c32.or"},
	}
	for _, c := range cases {
		cx := verifCx2(a, b)
		err := c.op(cx)
		vr.Assert(c.tag, err == nil && len(cx.Stack) == 1 && verifTop(cx) == verifB2U(c.want) && cx.Stack[0].Bytes == nil)
	}
	{
		cx := verifCx1(a)
		err := opNot(cx)
		vr.Assert("c32.not", err == nil && len(cx.Stack) == 1 && verifTop(cx) == verifB2U(a == 0))
	}
	vr.Reach("done")
}

//verif:harness prop=C32 reach=done
func VerifC32Bitwise() {
	a, b := vr.U64("a"), vr.U64("b")
	{
		cx := verifCx2(a, b)
		vr.Assert("c32.bitor", opBitOr(cx) == nil && len(cx.Stack) == 1 && verifTop(cx) == a|b)
		cx = verifCx2(a, b)
		vr.Assert("c32.bitand", opBitAnd(cx) == nil && len(cx.Stack) == 1 && verifTop(cx) == a&b)
		cx = verifCx2(a, b)
		vr.Assert("c32.bitxor", opBitXor(cx) == nil && len(cx.Stack) == 1 && verifTop(cx) == a^b)
		cx = verifCx1(a)
		vr.Assert("c32.bitnot", opBitNot(cx) == nil && len(cx.Stack) == 1 && vr.ZU(verifTop(cx)).Add(vr.ZU(a)).Eq(vr.ZU(^uint64(0))))
	}
	vr.Reach("done")
}

// Shifts: the shift amount is case-split (0..65) so each case is a shift by a
// constant; amounts above 65 are covered by one fully symbolic case.
//
//verif:harness prop=C32 reach=done,big unwind=80
func VerifC32Shifts() {
	a := vr.U64("a")
	if vr.Bool("bigshift") {
		b := vr.U64("b")
		vr.Assume(b > 63)
		vr.Assert("c32.shl.error-when-64-or-more", opShiftLeft(verifCx2(a, b)) != nil)
		vr.Assert("c32.shr.error-when-64-or-more", opShiftRight(verifCx2(a, b)) != nil)
		vr.Reach("big")
		vr.Reach("done")
		return
	}
	n := vr.Choice("n", 64)
	b := uint64(n)
	{
		cx := verifCx2(a, b)
		err := opShiftLeft(cx)
		want := vr.ZU(a).Shl(n).U64Trunc() // (a * 2^n) mod 2^64
		vr.Assert("c32.shl", err == nil && len(cx.Stack) == 1 && verifTop(cx) == want)
	}
	{
		cx := verifCx2(a, b)
		err := opShiftRight(cx)
		want := vr.ZU(a).Shr(n).U64Trunc() // floor(a / 2^n)
		vr.Assert("c32.shr", err == nil && len(cx.Stack) == 1 && verifTop(cx) == want)
	}
	vr.Reach("done")
}

// bitlen: the input space is partitioned by the expected answer n:
// a == 0 for n == 0, otherwise 2^(n-1) <= a < 2^n.
//
//verif:harness prop=C32 reach=done unwind=80
func VerifC32BitLen() {
	a := vr.U64("a")
	n := vr.Choice("n", 65)
	if n == 0 {
		vr.Assume(a == 0)
	} else {
		vr.Assume(vr.ZU(a).Ge(vr.ZU(1).Shl(n-1)) && vr.ZU(a).Lt(vr.ZU(1).Shl(n)))
	}
	cx := verifCx1(a)
	err := opBitLen(cx)
	vr.Assert("c32.bitlen", err == nil && len(cx.Stack) == 1 && verifTop(cx) == uint64(n))
	vr.Reach("done")
}

//verif:harness prop=C32 reach=done
func VerifC32Wide() {
	a, b, c := vr.U64("a"), vr.U64("b"), vr.U64("c")
	two64 := vr.ZU(1).Shl(64)
	{
		cx := verifCx2(a, b)
		err := opAddw(cx)
		s := vr.ZU(a).Add(vr.ZU(b))
		vr.Assert("c32.addw", err == nil && len(cx.Stack) == 2 && vr.ZU(cx.Stack[0].Uint).Mul(two64).Add(vr.ZU(cx.Stack[1].Uint)).Eq(s))
	}
	{
		cx := verifCx2(a, b)
		err := opMulw(cx)
		p := vr.ZU(a).Mul(vr.ZU(b))
		vr.Assert("c32.mulw", err == nil && len(cx.Stack) == 2 && vr.ZU(cx.Stack[0].Uint).Mul(two64).Add(vr.ZU(cx.Stack[1].Uint)).Eq(p))
	}
	{
		// divw: (hi:lo) / y, error iff y == 0 or the quotient does not fit 64 bits
		cx := &EvalContext{}
		cx.Stack = append(make([]stackValue, 0, 8), stackValue{Uint: a}, stackValue{Uint: b}, stackValue{Uint: c})
		err := opDivw(cx)
		num := vr.ZU(a).Mul(two64).Add(vr.ZU(b))
		tooBig := c != 0 && num.Ge(vr.ZU(c).Mul(two64)) // quotient >= 2^64
		vr.Assert("c32.divw.error", (err != nil) == (c == 0 || tooBig))
		if err == nil {
			q := verifTop(cx)
			rem := num.Sub(vr.ZU(q).Mul(vr.ZU(c)))
			vr.Assert("c32.divw.value", len(cx.Stack) == 1 && rem.Ge(vr.ZU(0)) && rem.Lt(vr.ZU(c)))
		}
	}
	vr.Reach("done")
}

//verif:harness prop=C32 reach=done unwind=40
func VerifC32Conversions() {
	a := vr.U64("a")
	{
		cx := verifCx1(a)
		err := opItob(cx)
		bs := cx.Stack[0].Bytes
		vr.Assert("c32.itob", err == nil && len(cx.Stack) == 1 && len(bs) == 8 && vr.ZBytes(bs).Eq(vr.ZU(a)))
	}
	{
		in := vr.Bytes("in", 9)
		cx := &EvalContext{}
		cx.Stack = append(make([]stackValue, 0, 8), stackValue{Bytes: in})
		err := opBtoi(cx)
		vr.Assert("c32.btoi.error-iff-long", (err != nil) == (len(in) > 8))
		if err == nil {
			vr.Assert("c32.btoi.value", len(cx.Stack) == 1 && cx.Stack[0].Bytes == nil && vr.ZU(cx.Stack[0].Uint).Eq(vr.ZBytes(in)))
		}
	}
	vr.Reach("done")
}

// sqrt: the 32-round digit recurrence is if-converted into one formula; the
// operand is bounded (quick: < 2^16, thorough: < 2^32) so that r*r <= a < (r+1)^2
// stays within reach of bit-blasting. Larger operands are outside this claim.
//
//verif:harness prop=C32 reach=done unwind=40 budget=200
func VerifC32Sqrt() {
	a := vr.U64("a")
	vr.Assume(a < 1<<uint(vr.Param(16, 32)))
	cx := verifCx1(a)
	err := opSqrt(cx)
	r := verifTop(cx)
	vr.Assert("c32.sqrt.lower", err == nil && len(cx.Stack) == 1 && vr.ZU(r).Mul(vr.ZU(r)).Le(vr.ZU(a)))
	vr.Assert("c32.sqrt.upper", vr.ZU(r).Add(vr.ZU(1)).Mul(vr.ZU(r).Add(vr.ZU(1))).Gt(vr.ZU(a)))
	vr.Reach("done")
}
