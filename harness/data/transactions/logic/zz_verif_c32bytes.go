//go:build verif

package logic

import (
	"bytes"

	vr "github.com/algorand/go-algorand/internal/verifrt"
)

// C32 (byte math): b+ b- b* b/ b% and the comparisons, on big-endian operands
// of symbolic length and content. math/big is executed as real (pure-Go) code,
// so what is decided is the opcode glue AND math/big on these operand sizes.
// The 64-byte input limit is exercised with content-free long operands.

func verifCxB(a, b []byte) *EvalContext {
	cx := &EvalContext{}
	cx.Stack = append(make([]stackValue, 0, 8), stackValue{Bytes: a}, stackValue{Bytes: b})
	return cx
}

// canonical: no leading zero bytes (what big.Int.Bytes produces)
func verifCanonical(b []byte) bool { return len(b) == 0 || b[0] != 0 }

//verif:harness prop=C32 reach=done,ok unwind=40 budget=250
func VerifC32BytesAddSub() {
	n := vr.Param(2, 4)
	a, b := vr.Bytes("a", n), vr.Bytes("b", n)
	za, zb := vr.ZBytes(a), vr.ZBytes(b)
	{
		cx := verifCxB(a, b)
		err := opBytesPlus(cx)
		vr.Assert("c32.bplus.noerror", err == nil && len(cx.Stack) == 1)
		if err == nil {
			r := cx.Stack[0].Bytes
			vr.Assert("c32.bplus.value", vr.ZBytes(r).Eq(za.Add(zb)) && verifCanonical(r))
			vr.Reach("ok")
		}
	}
	{
		cx := verifCxB(a, b)
		err := opBytesMinus(cx)
		vr.Assert("c32.bminus.error-iff-negative", (err != nil) == za.Lt(zb))
		if err == nil {
			r := cx.Stack[0].Bytes
			vr.Assert("c32.bminus.value", len(cx.Stack) == 1 && vr.ZBytes(r).Eq(za.Sub(zb)) && verifCanonical(r))
		}
	}
	vr.Reach("done")
}

//verif:harness prop=C32 reach=done unwind=40 budget=250 thorough.budget=1800
func VerifC32BytesMulDiv() {
	n := vr.Param(1, 2)
	a, b := vr.Bytes("a", n), vr.Bytes("b", n)
	za, zb := vr.ZBytes(a), vr.ZBytes(b)
	{
		cx := verifCxB(a, b)
		err := opBytesMul(cx)
		vr.Assert("c32.bmul.noerror", err == nil && len(cx.Stack) == 1)
		if err == nil {
			r := cx.Stack[0].Bytes
			vr.Assert("c32.bmul.value", vr.ZBytes(r).Eq(za.Mul(zb)) && verifCanonical(r))
		}
	}
	{
		cx := verifCxB(a, b)
		err := opBytesDiv(cx)
		vr.Assert("c32.bdiv.error-iff-zero", (err != nil) == zb.Eq(vr.ZU(0)))
		if err == nil {
			q := vr.ZBytes(cx.Stack[0].Bytes)
			rem := za.Sub(q.Mul(zb))
			vr.Assert("c32.bdiv.value", len(cx.Stack) == 1 && rem.Ge(vr.ZU(0)) && rem.Lt(zb))
		}
	}
	{
		cx := verifCxB(a, b)
		err := opBytesModulo(cx)
		vr.Assert("c32.bmod.error-iff-zero", (err != nil) == zb.Eq(vr.ZU(0)))
		if err == nil {
			r := vr.ZBytes(cx.Stack[0].Bytes)
			// r = a mod b: 0 <= r < b and a - r is the multiple q*b with the quotient from b/
			cx2 := verifCxB(a, b)
			if opBytesDiv(cx2) == nil {
				q := vr.ZBytes(cx2.Stack[0].Bytes)
				vr.Assert("c32.bmod.value", r.Ge(vr.ZU(0)) && r.Lt(zb) && q.Mul(zb).Add(r).Eq(za))
			}
		}
	}
	vr.Reach("done")
}

//verif:harness prop=C32 reach=done unwind=40 budget=250
func VerifC32BytesCompare() {
	n := vr.Param(3, 5)
	a, b := vr.Bytes("a", n), vr.Bytes("b", n)
	za, zb := vr.ZBytes(a), vr.ZBytes(b)
	type cmp struct {
		op   func(*EvalContext) error
		want bool
		tag  string
	}
	cases := []cmp{
		{opBytesLt, za.Lt(zb), "c32.blt"}, {opBytesGt, za.Gt(zb), "c32.bgt"}, {opBytesLe, za.Le(zb), "c32.ble"},
		{opBytesGe, za.Ge(zb), "c32.bge"}, {opBytesEq, za.Eq(zb), "c32.beq"}, {opBytesNeq, !za.Eq(zb), "c32.bneq"},
	}
	for _, c := range cases {
		cx := verifCxB(a, b)
		err := c.op(cx)
		vr.Assert(c.tag, err == nil && len(cx.Stack) == 1 && cx.Stack[0].Uint == verifBoolU(c.want) && cx.Stack[0].Bytes == nil)
	}
	vr.Reach("done")
}

// inputs longer than 64 bytes are rejected by every byte-math opcode
//
//verif:harness prop=C32 reach=done unwind=80
func VerifC32BytesLimit() {
	long := make([]byte, 65)
	long[64] = vr.U8("lastbyte")
	short := vr.Bytes("short", 1)
	ops := []func(*EvalContext) error{opBytesPlus, opBytesMinus, opBytesMul, opBytesDiv, opBytesModulo, opBytesLt, opBytesEq}
	for _, op := range ops {
		vr.Assert("c32.bytes.limit.left", op(verifCxB(long, short)) != nil)
		vr.Assert("c32.bytes.limit.right", op(verifCxB(short, long)) != nil)
	}
	ok64 := make([]byte, 64)
	ok64[63] = vr.U8("b63")
	cx := verifCxB(ok64, short)
	vr.Assert("c32.bytes.limit.64-accepted", opBytesPlus(cx) == nil)
	vr.Reach("done")
}

var _ = bytes.Equal

func verifBoolU(b bool) uint64 {
	if b {
		return 1
	}
	return 0
}
